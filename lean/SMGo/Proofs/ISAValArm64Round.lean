/-
  One `subRoundX4` block of asm_arm64.s (getXor, tableLookupX4, transformL, final VEOR) by symbolic execution of
  the arm64 value interpreter (UNVALIDATED transcription of the Arm ARM): on EVERY word element j = 0..3 of the
  state registers it is the SM4 round function, with the round key taken from element j of V12.
-/
import SMGo.Proofs.ISAValArm64Lanes
namespace SMGo.Proofs.ISAValArm64
open SMGo.Model.ISAValArm64 SMGo.Model.ISA
open SMGo.Model.ISAVal (lane lanes unlanes map1 map2 rotl32 Region readMem writeMem lookup)
open SMGo.Proofs.ISAVal (lane_lt tauN LN TN roundF list32 exists_cons_of_length_succ)

theorem list31 (l0 : List Nat) (h0 : l0.length = 31) :
    ∃ a0 a1 a2 a3 a4 a5 a6 a7 a8 a9 a10 a11 a12 a13 a14 a15 a16 a17 a18 a19 a20 a21 a22 a23 a24 a25 a26 a27 a28 a29 a30,
      l0 = [a0, a1, a2, a3, a4, a5, a6, a7, a8, a9, a10, a11, a12, a13, a14, a15, a16, a17, a18, a19, a20, a21, a22, a23, a24, a25, a26, a27, a28, a29, a30] := by
  obtain ⟨a0, l1, rfl, h1⟩ := exists_cons_of_length_succ h0
  obtain ⟨b, hb⟩ : ∃ b, l1 ++ [b] = l1 ++ [0] := ⟨0, rfl⟩
  obtain ⟨a1, a2, a3, a4, a5, a6, a7, a8, a9, a10, a11, a12, a13, a14, a15, a16, a17, a18, a19, a20, a21, a22, a23, a24, a25, a26, a27, a28, a29, a30, a31, a32, h⟩ :=
    list32 (l1 ++ [0] ++ [0]) (by simp [h1])
  have hl : l1 = (l1 ++ [0] ++ [0]).take 30 := by simp [List.take_append_of_le_length, h1]
  rw [h] at hl
  exact ⟨a0, a1, a2, a3, a4, a5, a6, a7, a8, a9, a10, a11, a12, a13, a14, a15, a16, a17, a18, a19, a20, a21, a22, a23, a24, a25, a26, a27, a28, a29, a30, by rw [hl]; rfl⟩

def b3 : List Arr := [.B16, .B16, .B16]
def s2 : List Arr := [.none, .S4, .S4]

/-- `transformL(U0, Y0)` of asm_arm64.s: U0 = V8, Y0 = V4, T0 = V13, T1 = V14 -/
def transformLCode : List DInstr :=
  [ins .VSHL [.imm 2, R 8, R 13] s2, ins .VSRI [.imm 30, R 8, R 13] s2,
   ins .VSHL [.imm 10, R 8, R 14] s2, ins .VSRI [.imm 22, R 8, R 14] s2,
   ins .VEOR [R 13, R 14, R 13] b3,
   ins .VSHL [.imm 18, R 8, R 4] s2, ins .VSRI [.imm 14, R 8, R 4] s2,
   ins .VSHL [.imm 24, R 8, R 14] s2, ins .VSRI [.imm 8, R 8, R 14] s2,
   ins .VEOR [R 4, R 14, R 4] b3,
   ins .VEOR [R 13, R 4, R 13] b3,
   ins .VEOR [R 13, R 8, R 8] b3]

/-- `getXor(B, C, D, U0)` and `tableLookupX4()`: RK = V12, Y0 Y1 Y2 = V4 V5 V6, CONST = V15, table V16..V31 -/
def xorLookupCode (B C D : Nat) : List DInstr :=
  [ins .VEOR [R B, R C, R 13] b3,
   ins .VEOR [R D, R 12, R 14] b3,
   ins .VEOR [R 13, R 14, R 8] b3,
   ins .VSUB [R 15, R 8, R 4] b3,
   ins .VTBL [R 8, L4 16 17 18 19, R 8] b3,
   ins .VSUB [R 15, R 4, R 5] b3,
   ins .TBX [R 4, L4 20 21 22 23, R 8] b3,
   ins .VSUB [R 15, R 5, R 6] b3,
   ins .TBX [R 5, L4 24 25 26 27, R 8] b3,
   ins .TBX [R 6, L4 28 29 30 31, R 8] b3]

/-- `subRoundX4(A, B, C, D)` -/
def subRoundCode (A B C D : Nat) : List DInstr :=
  xorLookupCode B C D ++ transformLCode ++ [ins .VEOR [R 8, R A, R A] b3]

/- the step macro tries the step lemmas in turn: a lemma for another mnemonic must fail at once, not after the
   unifier has unfolded the interpreter on both sides -/
attribute [local irreducible] execD

/-- one instruction of a straight-line block on an explicit state; the register file is brought back to an
    explicit list after every step (`whnf` through nested `List.set` doubles in cost with every step) -/
macro "astep" : tactic => `(tactic|
  (apply exec_step
   · first
     | exact execD_veor (hm := by rfl) (hn := by rfl) (hd0 := by rfl) ..
     | exact execD_vsub (hm := by rfl) (hn := by rfl) (hd0 := by rfl) ..
     | exact execD_vshl (hsh := by decide) (hn := by rfl) (hd0 := by rfl) ..
     | exact execD_vsri (hsh := by decide) (hn := by rfl) (hdv := by rfl) ..
     | exact execD_vtbl (hc := by decide) (hm := by rfl) (h0 := by rfl) (h1 := by rfl) (h2 := by rfl) (h3 := by rfl)
         (hd0 := by rfl) ..
     | exact execD_tbx (hc := by decide) (hm := by rfl) (h0 := by rfl) (h1 := by rfl) (h2 := by rfl) (h3 := by rfl)
         (hdv := by rfl) ..
     | exact execD_vrev32 (hn := by rfl) (hd0 := by rfl) ..
   simp only [List.set_cons_succ, List.set_cons_zero]))

/-- V15 and the table registers V16..V31 as `VMOVI $0x40` and `loadSBox` leave them -/
def tabs : List Nat :=
  [CONSTv, SBv 0, SBv 1, SBv 2, SBv 3, SBv 4, SBv 5, SBv 6, SBv 7, SBv 8, SBv 9, SBv 10, SBv 11, SBv 12, SBv 13,
   SBv 14, SBv 15]

theorem laneJ_lookup (j x : Nat) (hj : j < 4) :
    lane 32 j
      (vtbx (tableBytes [SBv 12, SBv 13, SBv 14, SBv 15]) (vsubB CONSTv (vsubB CONSTv (vsubB CONSTv x)))
        (vtbx (tableBytes [SBv 8, SBv 9, SBv 10, SBv 11]) (vsubB CONSTv (vsubB CONSTv x))
          (vtbx (tableBytes [SBv 4, SBv 5, SBv 6, SBv 7]) (vsubB CONSTv x)
            (vtbl (tableBytes [SBv 0, SBv 1, SBv 2, SBv 3]) x)))) = tauN (lane 32 j x) :=
  laneJ_lookupReg j x hj

theorem lane_rot2 (i x : Nat) (hi : i < 4) : lane 32 i (vsriS 30 x (vshlS 2 x)) = rotl32 2 (lane 32 i x) :=
  lane_rot 2 i x hi (by decide) (by decide)
theorem lane_rot10 (i x : Nat) (hi : i < 4) : lane 32 i (vsriS 22 x (vshlS 10 x)) = rotl32 10 (lane 32 i x) :=
  lane_rot 10 i x hi (by decide) (by decide)
theorem lane_rot18 (i x : Nat) (hi : i < 4) : lane 32 i (vsriS 14 x (vshlS 18 x)) = rotl32 18 (lane 32 i x) :=
  lane_rot 18 i x hi (by decide) (by decide)
theorem lane_rot24 (i x : Nat) (hi : i < 4) : lane 32 i (vsriS 8 x (vshlS 24 x)) = rotl32 24 (lane 32 i x) :=
  lane_rot 24 i x hi (by decide) (by decide)

/-- what one `subRoundX4` block guarantees -/
structure SubPost (A B C D : Nat) (s s' : State) : Prop where
  gpr : s'.gpr = s.gpr
  lenV : s'.vec.length = 32
  mem : s'.mem = s.mem
  syms : s'.syms = s.syms
  frame : s'.frame = s.frame
  vB : vreg s' B = vreg s B
  vC : vreg s' C = vreg s C
  vD : vreg s' D = vreg s D
  v12 : vreg s' 12 = vreg s 12
  tab : s'.vec.drop 15 = s.vec.drop 15
  vA : ∀ j, j < 4 → lane 32 j (vreg s' A) =
    roundF (lane 32 j (vreg s A)) (lane 32 j (vreg s B)) (lane 32 j (vreg s C)) (lane 32 j (vreg s D))
      (lane 32 j (vreg s 12))

theorem round_xor_ac (xa xb xc xd k t : Nat) (f : Nat → Nat) (h : t = xc ^^^ xb ^^^ xd ^^^ k) :
    (f t) ^^^ xa = xa ^^^ f (xc ^^^ xb ^^^ xd ^^^ k) := by
  rw [h, Nat.xor_comm]

set_option maxRecDepth 10000 in
set_option maxHeartbeats 1000000 in
theorem subRound_spec (A B C D : Nat)
    (hperm : (A = 0 ∧ B = 1 ∧ C = 2 ∧ D = 3) ∨ (A = 1 ∧ B = 2 ∧ C = 3 ∧ D = 0) ∨
             (A = 2 ∧ B = 3 ∧ C = 0 ∧ D = 1) ∨ (A = 3 ∧ B = 0 ∧ C = 1 ∧ D = 2))
    (s : State) (hV : s.vec.length = 32) (htab : s.vec.drop 15 = tabs) :
    ∃ s', execList (subRoundCode A B C D) s = .ok s' ∧ SubPost A B C D s s' := by
  obtain ⟨gpr, vec, mem, syms, frame⟩ := s
  simp only at hV htab
  obtain ⟨b0, b1, b2, b3, b4, b5, b6, b7, b8, b9, b10, b11, b12, b13, b14, b15, b16, b17, b18, b19, b20, b21, b22, b23, b24, b25, b26, b27, b28, b29, b30, b31, rfl⟩ := list32 vec hV
  simp only [List.drop_succ_cons, List.drop_zero, tabs, List.cons.injEq, and_true] at htab
  obtain ⟨rfl, rfl, rfl, rfl, rfl, rfl, rfl, rfl, rfl, rfl, rfl, rfl, rfl, rfl, rfl, rfl, rfl⟩ := htab
  rcases hperm with ⟨rfl, rfl, rfl, rfl⟩ | ⟨rfl, rfl, rfl, rfl⟩ | ⟨rfl, rfl, rfl, rfl⟩ | ⟨rfl, rfl, rfl, rfl⟩
  all_goals
    apply Exists.intro
    apply And.intro
    · unfold subRoundCode xorLookupCode transformLCode
      simp only [List.cons_append, List.nil_append]
      astep; astep; astep; astep; astep; astep; astep; astep; astep; astep
      astep; astep; astep; astep; astep; astep; astep; astep; astep; astep; astep; astep
      astep
      exact execList_nil _
    · refine ⟨rfl, rfl, rfl, rfl, rfl, ?_, ?_, ?_, ?_, ?_, ?_⟩
      · simp only [vreg, List.getD_cons_succ, List.getD_cons_zero]
      · simp only [vreg, List.getD_cons_succ, List.getD_cons_zero]
      · simp only [vreg, List.getD_cons_succ, List.getD_cons_zero]
      · simp only [vreg, List.getD_cons_succ, List.getD_cons_zero]
      · simp only [List.drop_succ_cons, List.drop_zero]
      intro j hj
      have h128 : 32 * (j + 1) ≤ 128 := by omega
      simp only [vreg, List.getD_cons_succ, List.getD_cons_zero, Int.reduceToNat]
      simp only [lane_veor 32 j _ _ h128, lane_rot2 j _ hj, lane_rot10 j _ hj, lane_rot18 j _ hj, lane_rot24 j _ hj,
        laneJ_lookup j _ hj]
      simp only [roundF, TN, LN]
      ac_rfl

end SMGo.Proofs.ISAValArm64
