/-
  The arm64 listing of `gHashBlocks` (sm4/gcm_arm64.s) as a whole, for every count ≥ 1: the regenerated listing is
  cut into its straight-line segments and its eleven control instructions (checked by evaluation), the loops
  `loopBy1` and `loopBy4` are run by induction, the four exits (3, 2, 1, 0 blocks left) by cases.  The running value
  in V30 is the model's `ghBy1` (one block at a time) of SMGo/Model/GCMAlgo.lean throughout — the aggregated bodies
  through `ghStep4_eq` and its 3- and 2-block analogues.  Arm64 value semantics: UNVALIDATED transcription of the
  Arm ARM.
-/
import SMGo.Proofs.ISAValArm64GhashSeg
import SMGo.Proofs.ISAValArm64Spec
import SMGo.Proofs.GCMFinal
set_option maxRecDepth 100000
namespace SMGo.Proofs.ISAValArm64
open SMGo SMGo.Model.ISAValArm64 SMGo.Model.ISA SMGo.Model.GCM
open SMGo.Model.ISAVal (lane lanes unlanes Region readMem writeMem lookup regionBase)
open SMGo.Proofs.ISAVal (toB toB_take toB_drop toB_length)
open SMGo.Proofs.GCM (gmulOK gmulR_lt' gmulR_xor' gmulR_assoc' loadR_lt ghBy1_add PowOK ghStep4_eq)

/-! ### the listing, cut -/

/-- the decoded listing (with its byte offsets) -/
def ghR : Routine :=
  match zipDecode Gen.ListArm64Gcm.gHashBlocks Gen.ListArm64GcmArr.gHashBlocks_arr with
  | .ok r => r
  | .error _ => []

theorem ghR_decode :
    (zipDecode Gen.ListArm64Gcm.gHashBlocks Gen.ListArm64GcmArr.gHashBlocks_arr).toOption = some ghR := by
  decide +kernel

def segOf (k n : Nat) : List DInstr := ((ghR.drop k).take n).map erasePc

def noCtl (code : List DInstr) : Bool := code.all (fun i => !isCtl i.mn)

/-- the seven straight-line segments -/
theorem ghR_segments :
    segOf 0 13 = gpCode ∧ segOf 15 63 = qCode ∧ segOf 78 50 = l4Code ∧ segOf 131 40 = l3Code ∧
    segOf 175 31 = l2Code ∧ segOf 207 23 = l1Code ∧ segOf 232 2 = geCode ∧ ghR.length = 235 := by
  decide +kernel

theorem segs_noCtl :
    noCtl gpCode = true ∧ noCtl qCode = true ∧ noCtl l4Code = true ∧ noCtl l3Code = true ∧ noCtl l2Code = true ∧
    noCtl l1Code = true ∧ noCtl geCode = true := by decide +kernel

def cmpI (pc : Nat) (v : Int) : DInstr := ⟨pc, .CMP, [.imm v, .reg (.gpr 13)], [.none, .none]⟩
def brI (pc : Nat) (mn : Mn) (t : Nat) : DInstr := ⟨pc, mn, [.target t], [.none]⟩

/-- the eleven control instructions and the RET -/
theorem ghR_ctl :
    ghR[13]? = some (cmpI 52 8) ∧ ghR[14]? = some (brI 56 .BLT 828) ∧
    ghR[128]? = some (cmpI 512 3) ∧ ghR[129]? = some (brI 516 .BGT 312) ∧ ghR[130]? = some (brI 520 .BLT 688) ∧
    ghR[171]? = some (brI 684 .JMP 928) ∧
    ghR[172]? = some (cmpI 688 1) ∧ ghR[173]? = some (brI 692 .BEQ 828) ∧ ghR[174]? = some (brI 696 .BLT 928) ∧
    ghR[206]? = some (brI 824 .JMP 928) ∧
    ghR[230]? = some (cmpI 920 0) ∧ ghR[231]? = some (brI 924 .BGT 828) ∧
    ghR[234]? = some ⟨936, .RET, [.mem (.gpr 30) none 0 0], [.none]⟩ := by
  decide +kernel

/-- the four branch targets -/
theorem ghR_targets :
    findPc ghR 828 = some (ghR.drop 207) ∧ findPc ghR 312 = some (ghR.drop 78) ∧
    findPc ghR 688 = some (ghR.drop 172) ∧ findPc ghR 928 = some (ghR.drop 232) := by
  decide +kernel

theorem drop_at {k : Nat} {i : DInstr} (h : ghR[k]? = some i) : ghR.drop k = i :: ghR.drop (k + 1) := by
  have hk : k < ghR.length := (List.getElem?_eq_some_iff.mp h).1
  rw [List.drop_eq_getElem_cons hk]
  congr 1
  rw [List.getElem?_eq_getElem hk] at h
  exact Option.some.inj h

/-- a straight-line segment of the listing runs as its code -/
theorem run_seg (k n : Nat) (code : List DInstr) (hseg : segOf k n = code) (hnc : noCtl code = true)
    (hlen : k + n ≤ 235) (s s' : State) (fl : Option Flags) (fuel : Nat) (h : execList code s = .ok s') :
    runC ghR (fuel + n) (ghR.drop k) s fl = runC ghR fuel (ghR.drop (k + n)) s' fl := by
  have hl := ghR_segments.2.2.2.2.2.2.2
  have hsplit : ghR.drop k = (ghR.drop k).take n ++ ghR.drop (k + n) := by
    rw [← List.drop_drop, List.take_append_drop]
  have hn : ((ghR.drop k).take n).length = n := by
    rw [List.length_take, List.length_drop, hl]; omega
  have hc : ∀ i ∈ (ghR.drop k).take n, isCtl i.mn = false := by
    intro i hi
    unfold noCtl at hnc
    rw [← hseg, segOf, List.all_eq_true] at hnc
    have := hnc (erasePc i) (List.mem_map_of_mem hi)
    simpa [erasePc] using this
  have hx : execList ((ghR.drop k).take n) s = .ok s' := by
    rw [← execList_erase]; unfold segOf at hseg; rw [hseg]; exact h
  have := runC_straight ghR _ (ghR.drop (k + n)) hc s s' fl fuel hx
  rw [hn, ← hsplit] at this
  exact this

/-! ### the aggregated bodies are sequential steps -/

theorem step3_algebra {h a x2 x3 : Nat} (hh : h < 2 ^ 128) (ha : a < 2 ^ 128) (l2 : x2 < 2 ^ 128) (l3 : x3 < 2 ^ 128) :
    gmulR (gmulR h (gmulR h h)) a ^^^ gmulR (gmulR h h) x2 ^^^ gmulR h x3
      = gmulR h (gmulR h (gmulR h a ^^^ x2) ^^^ x3) := by
  have lt := @gmulR_lt' gmulOK
  have b1 := lt hh ha
  have b2 := lt hh b1
  have c1 := lt hh l2
  have h2 := lt hh hh
  rw [gmulR_xor' gmulOK hh b1 l2, gmulR_xor' gmulOK hh (Nat.xor_lt_two_pow b2 c1) l3, gmulR_xor' gmulOK hh b2 c1]
  rw [gmulR_assoc' gmulOK hh hh l2, gmulR_assoc' gmulOK hh hh ha, gmulR_assoc' gmulOK hh h2 ha]

theorem step2_algebra {h a x2 : Nat} (hh : h < 2 ^ 128) (ha : a < 2 ^ 128) (l2 : x2 < 2 ^ 128) :
    gmulR (gmulR h h) a ^^^ gmulR h x2 = gmulR h (gmulR h a ^^^ x2) := by
  have b1 := gmulR_lt' gmulOK hh ha
  rw [gmulR_xor' gmulOK hh b1 l2, gmulR_assoc' gmulOK hh hh ha]

/-- a 16-byte block of the data, as the model's byte string -/
theorem blk_facts (d : List Nat) (hd : ∀ x ∈ d, x < 2 ^ 8) (k : Nat) (h : 16 * k + 16 ≤ d.length) :
    ((d.drop (16 * k)).take 16).length = 16 ∧ ∀ x ∈ (d.drop (16 * k)).take 16, x < 2 ^ 8 :=
  ⟨by rw [List.length_take, List.length_drop]; omega,
   fun x hx => hd x (List.mem_of_mem_drop (List.mem_of_mem_take hx))⟩

theorem blkV_loadR (bs : List Nat) (hb : ∀ x ∈ bs, x < 2 ^ 8) (k : Nat) (h : 16 * k + 16 ≤ bs.length) :
    blkV bs k = loadR (((toB bs).drop (16 * k)).take 16) := by
  obtain ⟨h1, h2⟩ := blk_facts bs hb k h
  unfold blkV
  rw [vrbit_loadR _ h1 h2, toB_take, toB_drop]

theorem veor_y {y x : Nat} (hy : y < 2 ^ 128) (hx : x < 2 ^ 128) : veor y x = y ^^^ x := veor_of_lt hy hx

/-- the powers as the model names them -/
def hpOf (s : State) : HPow := ⟨vreg s 4, vreg s 6, vreg s 8, vreg s 10⟩

/-- H², H³, H⁴ are in place -/
structure Pow4 (s : State) : Prop where
  sums : PowSums s
  h2 : vreg s 6 = gmulR (vreg s 4) (vreg s 4)
  h3 : vreg s 8 = gmulR (vreg s 4) (vreg s 6)
  h4 : vreg s 10 = gmulR (vreg s 4) (vreg s 8)

/-- the model's one-block-at-a-time hash over `n` blocks of the byte string `d` -/
theorem ghBy1_one (h y : Nat) (d : Bytes) : ghBy1 h 1 y d = gmulR h (y ^^^ loadR (d.take 16)) := rfl

theorem by2_eq (h y : Nat) (d : Bytes) (hh : h < 2 ^ 128) (hy : y < 2 ^ 128) (hd : 32 ≤ d.length) :
    gmulR (gmulR h h) (y ^^^ loadR (d.take 16)) ^^^ gmulR h (loadR ((d.drop 16).take 16)) = ghBy1 h 2 y d := by
  have l1 : loadR (d.take 16) < 2 ^ 128 := loadR_lt (by rw [List.length_take]; omega)
  have l2 : loadR ((d.drop 16).take 16) < 2 ^ 128 := loadR_lt (by rw [List.length_take, List.length_drop]; omega)
  simp only [ghBy1, ghStep1]
  exact step2_algebra hh (Nat.xor_lt_two_pow hy l1) l2

theorem by3_eq (h y : Nat) (d : Bytes) (hh : h < 2 ^ 128) (hy : y < 2 ^ 128) (hd : 48 ≤ d.length) :
    gmulR (gmulR h (gmulR h h)) (y ^^^ loadR (d.take 16)) ^^^ gmulR (gmulR h h) (loadR ((d.drop 16).take 16))
        ^^^ gmulR h (loadR ((d.drop 32).take 16)) = ghBy1 h 3 y d := by
  have l1 : loadR (d.take 16) < 2 ^ 128 := loadR_lt (by rw [List.length_take]; omega)
  have l2 : loadR ((d.drop 16).take 16) < 2 ^ 128 := loadR_lt (by rw [List.length_take, List.length_drop]; omega)
  have l3 : loadR ((d.drop 32).take 16) < 2 ^ 128 := loadR_lt (by rw [List.length_take, List.length_drop]; omega)
  simp only [ghBy1, ghStep1, List.drop_drop]
  exact step3_algebra hh (Nat.xor_lt_two_pow hy l1) l2 l3

theorem by4_eq (h y : Nat) (d : Bytes) (hh : h < 2 ^ 128) (hy : y < 2 ^ 128) (hd : 64 ≤ d.length) :
    gmulR (gmulR h (gmulR h (gmulR h h))) (y ^^^ loadR (d.take 16))
        ^^^ gmulR (gmulR h (gmulR h h)) (loadR ((d.drop 16).take 16))
        ^^^ gmulR (gmulR h h) (loadR ((d.drop 32).take 16)) ^^^ gmulR h (loadR ((d.drop 48).take 16))
      = ghBy1 h 4 y d := by
  have := ghStep4_eq gmulOK (hp := ⟨h, gmulR h h, gmulR h (gmulR h h), gmulR h (gmulR h (gmulR h h))⟩)
    ⟨hh, rfl, rfl, rfl⟩ hy hd
  rw [← this]; rfl

/-! ### what the loop bodies keep -/

theorem getElem?_ctx (l : List Nat) (k : Nat) (h1 : 4 ≤ k) (h2 : k < 14) : ((l.drop 4).take 10)[k - 4]? = l[k]? := by
  rw [List.getElem?_take, if_pos (by omega), List.getElem?_drop]
  congr 1; omega

theorem Keeps.vreg {s s' : State} (hk : Keeps s s') (k : Nat) (h1 : 4 ≤ k) (h2 : k < 14) : vreg s' k = vreg s k := by
  unfold ISAValArm64.vreg
  rw [List.getD_eq_getElem?_getD, List.getD_eq_getElem?_getD, ← getElem?_ctx s'.vec k h1 h2, ← getElem?_ctx s.vec k h1 h2,
    hk.ctx]

/-- the invariant of the whole routine after the prologue: constants, memory, the tag pointer, the hash key -/
structure GInv (M : List Region) (tagp h : Nat) (s : State) : Prop where
  ctx : GCtx s
  mem : s.mem = M
  g11 : greg s 11 = tagp
  v4 : vreg s 4 = h
  hlt : h < 2 ^ 128

theorem GInv.keep {M : List Region} {tagp h : Nat} {s s' : State} (hi : GInv M tagp h s) (hk : Keeps s s') :
    GInv M tagp h s' := by
  have e := fun k h1 h2 => hk.vreg k h1 h2
  refine ⟨⟨by rw [hk.lenG]; exact hi.ctx.lenG, by rw [hk.lenV]; exact hi.ctx.lenV, ?_, ?_, ?_⟩, ?_, ?_, ?_, hi.hlt⟩
  · rw [e 4 (by decide) (by decide), e 5 (by decide) (by decide)]; exact hi.ctx.sum
  · rw [e 12 (by decide) (by decide)]; exact hi.ctx.v12
  · rw [e 13 (by decide) (by decide)]; exact hi.ctx.v13
  · rw [hk.mem]; exact hi.mem
  · rw [hk.g11]; exact hi.g11
  · rw [e 4 (by decide) (by decide)]; exact hi.v4

theorem Pow4.keep {s s' : State} (hp : Pow4 s) (hk : Keeps s s') : Pow4 s' := by
  have e := fun k h1 h2 => hk.vreg k h1 h2
  refine ⟨⟨?_, ?_, ?_⟩, ?_, ?_, ?_⟩
  · rw [e 6 (by decide) (by decide), e 7 (by decide) (by decide)]; exact hp.sums.s2
  · rw [e 8 (by decide) (by decide), e 9 (by decide) (by decide)]; exact hp.sums.s3
  · rw [e 10 (by decide) (by decide), e 11 (by decide) (by decide)]; exact hp.sums.s4
  · rw [e 6 (by decide) (by decide), e 4 (by decide) (by decide)]; exact hp.h2
  · rw [e 8 (by decide) (by decide), e 4 (by decide) (by decide), e 6 (by decide) (by decide)]; exact hp.h3
  · rw [e 10 (by decide) (by decide), e 4 (by decide) (by decide), e 8 (by decide) (by decide)]; exact hp.h4

/-- the data region as the loops read it -/
structure DataEnv (M : List Region) (dbase : Nat) (data : List Nat) : Prop where
  rd : ∀ off len, off + len ≤ data.length → readMem M (dbase + off) len = .ok ((data.drop off).take len)
  bytes : ∀ x ∈ data, x < 2 ^ 8
  nowrap : dbase + data.length < 2 ^ 64
  small : data.length < 2 ^ 32

theorem take_take_self (l : List Nat) (n : Nat) : (l.take n).take n = l.take n := by
  rw [List.take_take, Nat.min_self]

theorem gpr_get {s : State} (hG : s.gpr.length = 31) (k : Nat) (hk : k < 31) : s.gpr[k]? = some (greg s k) := by
  unfold greg
  rw [List.getD_eq_getElem?_getD, List.getElem?_eq_getElem (by omega)]; rfl

/-! ### `loopBy1` -/

theorem loop1 (M : List Region) (dbase tagp h : Nat) (data : List Nat) (env : DataEnv M dbase data) :
    ∀ n, 1 ≤ n → ∀ (o : Nat) (s : State) (fl : Option Flags) (fuel : Nat),
      GInv M tagp h s → greg s 12 = dbase + 16 * o → greg s 13 = n → 16 * (o + n) ≤ data.length →
      vreg s 30 < 2 ^ 128 →
      ∃ s' fl', runC ghR (fuel + 25 * n) (ghR.drop 207) s fl = runC ghR fuel (ghR.drop 232) s' fl' ∧
        GInv M tagp h s' ∧ vreg s' 30 = ghBy1 h n (vreg s 30) (toB (data.drop (16 * o))) ∧ vreg s' 30 < 2 ^ 128 := by
  intro n
  induction n with
  | zero => intro h0; omega
  | succ m ih =>
    intro _ o s fl fuel inv h12 h13 hlen hy
    have hsm := env.small
    -- the body
    have hload := env.rd (16 * o) 16 (by omega)
    obtain ⟨s1, hrun, hk, g12, g13, v30⟩ := l1_spec s inv.ctx ((data.drop (16 * o)).take 16)
      (by rw [inv.mem, h12]; exact hload)
    have inv1 := inv.keep hk
    obtain ⟨hb1, hb2⟩ := blk_facts data env.bytes o (by omega)
    have hx : vrbit (unlanes 8 (((data.drop (16 * o)).take 16).take 16)) = loadR ((toB (data.drop (16 * o))).take 16) := by
      rw [take_take_self, vrbit_loadR _ hb1 hb2, toB_take]
    have hxl : loadR ((toB (data.drop (16 * o))).take 16) < 2 ^ 128 :=
      loadR_lt (by rw [List.length_take, toB_length, List.length_drop]; omega)
    rw [hx, inv.v4, veor_y hy hxl] at v30
    have hy1 : vreg s1 30 < 2 ^ 128 := by rw [v30]; exact gmulR_lt' gmulOK inv.hlt (Nat.xor_lt_two_pow hy hxl)
    rw [h12, Nat.mod_eq_of_lt (by have := env.nowrap; omega)] at g12
    rw [h13] at g13
    have g13' : greg s1 13 = m := by rw [g13]; omega
    -- body, CMP, BGT
    have e1 := run_seg 207 23 l1Code ghR_segments.2.2.2.2.2.1 segs_noCtl.2.2.2.2.2.1 (by decide) s s1 fl
      (fuel + 25 * m + 2) hrun
    have e2 := runC_cmp ghR 920 0 13 m (ghR.drop 231) s1 fl (fuel + 25 * m + 1) (by decide)
      (by rw [gpr_get inv1.ctx.lenG 13 (by decide), g13'])
    simp only [Int.reduceToNat] at e2
    have hcond := cond_bgt m 0 (by omega) (by decide)
    rw [show fuel + 25 * (m + 1) = fuel + 25 * m + 2 + 23 by omega, e1, drop_at ghR_ctl.2.2.2.2.2.2.2.2.2.2.1]
    show ∃ s' fl', runC ghR (fuel + 25 * m + 1 + 1) (cmpI 920 0 :: ghR.drop 231) s1 fl = _ ∧ _
    unfold cmpI
    rw [e2, drop_at ghR_ctl.2.2.2.2.2.2.2.2.2.2.2.1]
    by_cases hm : m = 0
    · -- the last block
      subst hm
      refine ⟨s1, some (cmpFlags 0 0), ?_, inv1, ?_, hy1⟩
      · unfold brI
        rw [show fuel + 25 * 0 + 1 = fuel + 1 by omega]
        exact runC_bcc_fall ghR .BGT (Or.inr (Or.inl rfl)) 924 828 _ s1 _ fuel (by rw [hcond]; rfl)
      · rw [v30]; rfl
    · -- once more
      have hm1 : 1 ≤ m := by omega
      obtain ⟨s2, fl2, hrun2, inv2, v2, hy2⟩ := ih hm1 (o + 1) s1 (some (cmpFlags m 0)) fuel inv1
        (by rw [g12]; omega) g13' (by omega) hy1
      refine ⟨s2, fl2, ?_, inv2, ?_, hy2⟩
      · unfold brI
        rw [runC_bcc_taken ghR .BGT (Or.inr (Or.inl rfl)) 924 828 _ (ghR.drop 207) s1 _ (fuel + 25 * m)
          (by rw [hcond]; simp; omega) ghR_targets.1]
        exact hrun2
      · have e : toB (data.drop (16 * (o + 1))) = (toB (data.drop (16 * o))).drop 16 := by
          rw [← toB_drop, List.drop_drop, show 16 * o + 16 = 16 * (o + 1) by omega]
        rw [v2, v30, e, ghBy1, ghStep1]

end SMGo.Proofs.ISAValArm64
