import SMGo.Model.ISAVal
namespace SMGo.Proofs.ISAVal
open SMGo.Model.ISAVal

theorem lane_lt (w i v : Nat) : lane w i v < 2 ^ w := Nat.mod_lt _ (Nat.pow_pos (by decide))

theorem unlanes_nil (w : Nat) : unlanes w [] = 0 := rfl
theorem unlanes_cons (w x : Nat) (l : List Nat) : unlanes w (x :: l) = x + 2 ^ w * unlanes w l := rfl

theorem unlanes_lt (w : Nat) (l : List Nat) (h : ∀ x ∈ l, x < 2 ^ w) : unlanes w l < 2 ^ (w * l.length) := by
  induction l with
  | nil => simp [unlanes]
  | cons x xs ih =>
    have hx := h x (by simp)
    have hxs := ih (fun y hy => h y (by simp [hy]))
    rw [unlanes_cons, List.length_cons, Nat.mul_succ, Nat.pow_add]
    have : 2 ^ w * unlanes w xs + 2 ^ w ≤ 2 ^ w * 2 ^ (w * xs.length) := by
      rw [← Nat.mul_succ]; exact Nat.mul_le_mul_left _ hxs
    rw [Nat.mul_comm (2 ^ (w * xs.length))]
    omega

theorem lane_zero_cons (w x : Nat) (l : List Nat) (hx : x < 2 ^ w) : lane w 0 (unlanes w (x :: l)) = x := by
  simp [lane, unlanes_cons, Nat.add_mul_mod_self_left, Nat.mod_eq_of_lt hx]

theorem lane_succ_cons (w i x : Nat) (l : List Nat) (hx : x < 2 ^ w) :
    lane w (i + 1) (unlanes w (x :: l)) = lane w i (unlanes w l) := by
  unfold lane
  rw [unlanes_cons, Nat.mul_succ, Nat.add_comm (w * i) w, Nat.shiftRight_add]
  congr 2
  rw [Nat.shiftRight_eq_div_pow, Nat.add_mul_div_left _ _ (Nat.pow_pos (by decide)), Nat.div_eq_of_lt hx, Nat.zero_add]

theorem lane_unlanes (w : Nat) (l : List Nat) (h : ∀ x ∈ l, x < 2 ^ w) (i : Nat) (hi : i < l.length) :
    lane w i (unlanes w l) = l[i] := by
  induction l generalizing i with
  | nil => simp at hi
  | cons x xs ih =>
    have hx := h x (by simp)
    cases i with
    | zero => simpa using lane_zero_cons w x xs hx
    | succ i =>
      rw [lane_succ_cons w i x xs hx]
      simpa using ih (fun y hy => h y (by simp [hy])) i (by simpa using hi)

theorem lanes_length (w n v : Nat) : (lanes w n v).length = n := by simp [lanes]

theorem getElem_lanes (w n v i : Nat) (h : i < (lanes w n v).length) : (lanes w n v)[i] = lane w i v := by
  simp [lanes]

theorem mem_lanes_lt (w n v x : Nat) (h : x ∈ lanes w n v) : x < 2 ^ w := by
  simp only [lanes, List.mem_map] at h
  obtain ⟨i, _, rfl⟩ := h
  exact lane_lt w i v

theorem lanes_unlanes (w n : Nat) (l : List Nat) (h : ∀ x ∈ l, x < 2 ^ w) (hn : l.length = n) :
    lanes w n (unlanes w l) = l := by
  apply List.ext_getElem
  · simp [lanes_length, hn]
  · intro i h1 h2
    rw [getElem_lanes, lane_unlanes w l h i h2]

/-- lane-wise binary operations -/
theorem lane_map2 (w n i a b : Nat) (f : Nat → Nat → Nat) (hi : i < n)
    (hf : ∀ x y, x < 2 ^ w → y < 2 ^ w → f x y < 2 ^ w) :
    lane w i (map2 w n f a b) = f (lane w i a) (lane w i b) := by
  unfold map2
  rw [lane_unlanes]
  · rw [List.getElem_zipWith, getElem_lanes, getElem_lanes]
  · intro x hx
    obtain ⟨j, hj, rfl⟩ := List.mem_iff_getElem.mp hx
    rw [List.getElem_zipWith, getElem_lanes, getElem_lanes]
    exact hf _ _ (lane_lt _ _ _) (lane_lt _ _ _)
  · simp [lanes_length, hi]

theorem lane_map1 (w n i a : Nat) (f : Nat → Nat) (hi : i < n) (hf : ∀ x, x < 2 ^ w → f x < 2 ^ w) :
    lane w i (map1 w n f a) = f (lane w i a) := by
  unfold map1
  rw [lane_unlanes]
  · rw [List.getElem_map, getElem_lanes]
  · intro x hx
    simp only [List.mem_map] at hx
    obtain ⟨p, hp, rfl⟩ := hx
    exact hf _ (mem_lanes_lt _ _ _ _ hp)
  · simp [lanes_length, hi]

theorem map1_lt (w n a : Nat) (f : Nat → Nat) (hf : ∀ x, x < 2 ^ w → f x < 2 ^ w) : map1 w n f a < 2 ^ (w * n) := by
  have := unlanes_lt w ((lanes w n a).map f) (by
    intro x hx
    simp only [List.mem_map] at hx
    obtain ⟨p, hp, rfl⟩ := hx
    exact hf _ (mem_lanes_lt _ _ _ _ hp))
  simpa [map1, lanes_length] using this

theorem lane_vpxord (n i a b : Nat) (hi : i < n) :
    lane 32 i (map2 32 n (fun x y => y ^^^ x) a b) = lane 32 i b ^^^ lane 32 i a :=
  lane_map2 32 n i a b _ hi (fun _ _ hx hy => Nat.xor_lt_two_pow hy hx)

theorem rotl32_lt (r x : Nat) : rotl32 r x < 2 ^ 32 := Nat.mod_lt _ (by decide)

theorem lane_vprold (n i r a : Nat) (hi : i < n) :
    lane 32 i (map1 32 n (rotl32 r) a) = rotl32 r (lane 32 i a) :=
  lane_map1 32 n i a _ hi (fun _ _ => rotl32_lt _ _)

theorem lane_bcast (w n i x : Nat) (hi : i < n) (hx : x < 2 ^ w) : lane w i (unlanes w (List.replicate n x)) = x := by
  rw [lane_unlanes]
  · rw [List.getElem_replicate]
  · intro y hy; rw [List.eq_of_mem_replicate hy]; exact hx
  · simpa using hi

/-- a lane that lies inside the low `m` bits does not see a reduction mod 2^m -/
theorem lane_mod (w i m v : Nat) (h : w * (i + 1) ≤ m) : lane w i (v % 2 ^ m) = lane w i v := by
  unfold lane
  have hm : m = w * i + (m - w * i) := by rw [Nat.mul_succ] at h; omega
  rw [Nat.shiftRight_eq_div_pow, Nat.shiftRight_eq_div_pow]
  conv => lhs; rw [hm, Nat.pow_add, Nat.mod_mul_right_div_self]
  apply Nat.mod_mod_of_dvd
  apply Nat.pow_dvd_pow
  rw [Nat.mul_succ] at h; omega

theorem lane_zero (w v : Nat) : lane w 0 v = v % 2 ^ w := by simp [lane]

theorem unlanes_append (w : Nat) (l1 l2 : List Nat) :
    unlanes w (l1 ++ l2) = unlanes w l1 + 2 ^ (w * l1.length) * unlanes w l2 := by
  induction l1 with
  | nil => simp [unlanes_nil]
  | cons x xs ih =>
    rw [List.cons_append, unlanes_cons, unlanes_cons, ih, List.length_cons, Nat.mul_succ, Nat.pow_add,
      Nat.mul_add, Nat.add_assoc, Nat.mul_assoc, Nat.mul_left_comm (2 ^ w)]

/-- the low `k` lanes of width `w`, regrouped as one lane of width `w·k` -/
theorem lane0_unlanes_take (w k : Nat) (l : List Nat) (h : ∀ x ∈ l, x < 2 ^ w) (hk : k ≤ l.length) :
    lane (w * k) 0 (unlanes w l) = unlanes w (l.take k) := by
  rw [lane_zero]
  conv => lhs; rw [← List.take_append_drop k l, unlanes_append, List.length_take, Nat.min_eq_left hk]
  rw [Nat.add_mul_mod_self_left]
  apply Nat.mod_eq_of_lt
  have := unlanes_lt w (l.take k) (fun x hx => h x (List.mem_of_mem_take hx))
  rwa [List.length_take, Nat.min_eq_left hk] at this

theorem lane0_unlanes_take' (W w k : Nat) (hW : W = w * k) (l : List Nat) (h : ∀ x ∈ l, x < 2 ^ w) (hk : k ≤ l.length) :
    lane W 0 (unlanes w l) = unlanes w (l.take k) := by
  subst hW; exact lane0_unlanes_take w k l h hk

theorem take_lanes (w n k v : Nat) (hk : k ≤ n) : (lanes w n v).take k = lanes w k v := by
  simp [lanes, ← List.map_take, List.take_range, Nat.min_eq_left hk]

theorem lanes_congr (w n a b : Nat) (h : ∀ i, i < n → lane w i a = lane w i b) : lanes w n a = lanes w n b := by
  unfold lanes
  apply List.map_congr_left
  intro i hi
  exact h i (List.mem_range.mp hi)

theorem lanes_mod (w n m v : Nat) (h : w * n ≤ m) : lanes w n (v % 2 ^ m) = lanes w n v := by
  apply lanes_congr
  intro i hi
  apply lane_mod
  exact Nat.le_trans (Nat.mul_le_mul_left _ hi) h

theorem shift_unlanes (w k : Nat) (l : List Nat) (h : ∀ x ∈ l, x < 2 ^ w) (hk : k ≤ l.length) :
    unlanes w l >>> (w * k) = unlanes w (l.drop k) := by
  conv => lhs; rw [← List.take_append_drop k l, unlanes_append, List.length_take, Nat.min_eq_left hk]
  have hlt := unlanes_lt w (l.take k) (fun x hx => h x (List.mem_of_mem_take hx))
  rw [List.length_take, Nat.min_eq_left hk] at hlt
  rw [Nat.shiftRight_eq_div_pow, Nat.add_mul_div_left _ _ (Nat.pow_pos (by decide)), Nat.div_eq_of_lt hlt, Nat.zero_add]

/-- lane `j` of width `W = w·k`, regrouped from lanes of width `w` -/
theorem laneJ_unlanes (W w k j : Nat) (hW : W = w * k) (l : List Nat) (h : ∀ x ∈ l, x < 2 ^ w)
    (hlen : k * j + k ≤ l.length) : lane W j (unlanes w l) = unlanes w ((l.drop (k * j)).take k) := by
  subst hW
  have e : lane (w * k) j (unlanes w l) = lane (w * k) 0 (unlanes w l >>> (w * (k * j))) := by
    simp [lane, Nat.mul_assoc]
  rw [e, shift_unlanes w (k * j) l h (by omega)]
  exact lane0_unlanes_take w k _ (fun x hx => h x (List.mem_of_mem_drop hx)) (by simp; omega)

theorem lanes_succ (w n v : Nat) : lanes w (n + 1) v = lanes w n v ++ [lane w n v] := by
  simp [lanes, List.range_succ]

theorem unlanes_lanes (w n v : Nat) : unlanes w (lanes w n v) = v % 2 ^ (w * n) := by
  induction n with
  | zero => simp [lanes, unlanes_nil, Nat.mod_one]
  | succ n ih =>
    rw [lanes_succ, unlanes_append, ih, lanes_length, unlanes_cons, unlanes_nil, Nat.mul_zero, Nat.add_zero,
      Nat.mul_succ, Nat.pow_add, Nat.mod_mul, lane, Nat.shiftRight_eq_div_pow]

theorem map2_one (w : Nat) (f : Nat → Nat → Nat) (a b : Nat) : map2 w 1 f a b = f (lane w 0 a) (lane w 0 b) := by
  simp [map2, lanes, unlanes_cons, unlanes_nil]

theorem map1_one (w : Nat) (f : Nat → Nat) (a : Nat) : map1 w 1 f a = f (lane w 0 a) := by
  simp [map1, lanes, unlanes_cons, unlanes_nil]

theorem lane_lane0_128 (i a : Nat) (hi : i < 4) : lane 32 i (lane 128 0 a) = lane 32 i a := by
  rw [lane_zero]; exact lane_mod 32 i 128 a (by omega)

theorem lane64_lane0_128 (i a : Nat) (hi : i < 2) : lane 64 i (lane 128 0 a) = lane 64 i a := by
  rw [lane_zero]; exact lane_mod 64 i 128 a (by omega)

/-- VPUNPCKLDQ a, b on an X register -/
theorem x_unpckldq (a b : Nat) :
    map2 128 (16 / 16) unpckldq a b = unlanes 32 [lane 32 0 b, lane 32 0 a, lane 32 1 b, lane 32 1 a] := by
  rw [show 16 / 16 = 1 from rfl, map2_one]
  simp only [unpckldq, lane_lane0_128 _ _ (by decide : 0 < 4), lane_lane0_128 _ _ (by decide : 1 < 4)]

theorem x_unpckhdq (a b : Nat) :
    map2 128 (16 / 16) unpckhdq a b = unlanes 32 [lane 32 2 b, lane 32 2 a, lane 32 3 b, lane 32 3 a] := by
  rw [show 16 / 16 = 1 from rfl, map2_one]
  simp only [unpckhdq, lane_lane0_128 _ _ (by decide : 2 < 4), lane_lane0_128 _ _ (by decide : 3 < 4)]

theorem x_unpcklqdq (a b : Nat) :
    map2 128 (16 / 16) unpcklqdq a b = unlanes 64 [lane 64 0 b, lane 64 0 a] := by
  rw [show 16 / 16 = 1 from rfl, map2_one]
  simp only [unpcklqdq, lane64_lane0_128 _ _ (by decide : 0 < 2)]

theorem lane32_list4 (p q r s : Nat) (hp : p < 2 ^ 32) (hq : q < 2 ^ 32) (hr : r < 2 ^ 32) (hs : s < 2 ^ 32) :
    lane 32 0 (unlanes 32 [p, q, r, s]) = p ∧ lane 32 1 (unlanes 32 [p, q, r, s]) = q ∧
    lane 32 2 (unlanes 32 [p, q, r, s]) = r ∧ lane 32 3 (unlanes 32 [p, q, r, s]) = s := by
  have hb : ∀ x ∈ [p, q, r, s], x < 2 ^ 32 := by
    intro x hx; simp at hx; rcases hx with rfl | rfl | rfl | rfl <;> assumption
  exact ⟨lane_unlanes 32 _ hb 0 (by simp), lane_unlanes 32 _ hb 1 (by simp),
    lane_unlanes 32 _ hb 2 (by simp), lane_unlanes 32 _ hb 3 (by simp)⟩

end SMGo.Proofs.ISAVal
