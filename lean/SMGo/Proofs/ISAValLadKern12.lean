import SMGo.Proofs.ISAValLadX4
set_option linter.unusedSimpArgs false
namespace SMGo.Proofs.ISAVal
open SMGo.Model.ISAVal SMGo.Model.GCM SMGo.Proofs.GCM SMGo.Proofs.ISATouch
open SMGo.Model.ISA (Reg Opd Instr)

/-- the kernel of `loopX1` / `loopX0` after `fillCounterX1`: `transpose1x4`, 32 rounds, `transpose4x1`, `rev32` -/
def kern1Code : List DInstr := t14Code 6 9 ++ (rounds32Code 16 15 1 2 11 12 6 7 8 9 ++ t41Code 6 9)

/-- the kernel of `loopX2` after `fillCounterX2` -/
def x2tCode : List DInstr :=
  [ins .VPUNPCKHDQ [R 7, R 6, R 8] 16, ins .VPUNPCKLDQ [R 7, R 6, R 6] 16, ins .VPUNPCKHQDQ [R 6, R 6, R 7] 16,
   ins .VPUNPCKHQDQ [R 6, R 8, R 9] 16]
def kern2Code : List DInstr := x2tCode ++ (rounds32Code 16 15 1 2 11 12 6 7 8 9 ++ x2endCode 16)

set_option maxRecDepth 100000 in
theorem t14n_spec (s : State) (hV : s.vec.length = 32) :
    ∃ s', execList (t14Code 6 9) s = .ok s' ∧
      lane 32 0 (vreg s' 6) = lane 32 0 (vreg s 6) ∧ lane 32 0 (vreg s' 7) = lane 32 1 (vreg s 6) ∧
      lane 32 0 (vreg s' 8) = lane 32 2 (vreg s 6) ∧ lane 32 0 (vreg s' 9) = lane 32 3 (vreg s 6) := by
  have hvl : validVl 16 = true := by decide
  have hn : 0 < 16 / 16 := by decide
  obtain ⟨gpr, vec, k, fl, mem, syms, frame⟩ := s
  simp only at hV
  obtain ⟨b0, b1, b2, b3, b4, b5, b6, b7, b8, b9, b10, b11, b12, b13, b14, b15, b16, b17, b18, b19, b20, b21, b22, b23, b24, b25, b26, b27, b28, b29, b30, b31, rfl⟩ := list32 vec hV
  apply Exists.intro
  apply And.intro
  · simp only [t14Code]
    gstep; gstep; gstep; gstep
    exact execList_nil _
  · simp only [List.set_cons_succ, List.set_cons_zero, vreg, List.getD_cons_succ, List.getD_cons_zero]
    simp only [(d0_unpckldq _ _ _ hn).1, (d0_unpckldq _ _ _ hn).2.1, (d0_unpckldq _ _ _ hn).2.2.1, (d0_unpckldq _ _ _ hn).2.2.2,
      (d0_unpckhdq _ _ _ hn).1, (d0_unpckhdq _ _ _ hn).2.1, (d0_unpckhdq _ _ _ hn).2.2.1, (d0_unpckhdq _ _ _ hn).2.2.2, and_self]

set_option maxRecDepth 100000 in
theorem x2t_spec (s : State) (hV : s.vec.length = 32) :
    ∃ s', execList x2tCode s = .ok s' ∧
      (lane 32 0 (vreg s' 6) = lane 32 0 (vreg s 6) ∧ lane 32 0 (vreg s' 7) = lane 32 1 (vreg s 6) ∧
       lane 32 0 (vreg s' 8) = lane 32 2 (vreg s 6) ∧ lane 32 0 (vreg s' 9) = lane 32 3 (vreg s 6)) ∧
      (lane 32 1 (vreg s' 6) = lane 32 0 (vreg s 7) ∧ lane 32 1 (vreg s' 7) = lane 32 1 (vreg s 7) ∧
       lane 32 1 (vreg s' 8) = lane 32 2 (vreg s 7) ∧ lane 32 1 (vreg s' 9) = lane 32 3 (vreg s 7)) := by
  have hvl : validVl 16 = true := by decide
  have hn : 0 < 16 / 16 := by decide
  obtain ⟨gpr, vec, k, fl, mem, syms, frame⟩ := s
  simp only at hV
  obtain ⟨b0, b1, b2, b3, b4, b5, b6, b7, b8, b9, b10, b11, b12, b13, b14, b15, b16, b17, b18, b19, b20, b21, b22, b23, b24, b25, b26, b27, b28, b29, b30, b31, rfl⟩ := list32 vec hV
  apply Exists.intro
  apply And.intro
  · simp only [x2tCode]
    gstep; gstep; gstep; gstep
    exact execList_nil _
  · simp only [List.set_cons_succ, List.set_cons_zero, vreg, List.getD_cons_succ, List.getD_cons_zero]
    simp only [(d0_unpckldq _ _ _ hn).1, (d0_unpckldq _ _ _ hn).2.1, (d0_unpckldq _ _ _ hn).2.2.1, (d0_unpckldq _ _ _ hn).2.2.2,
      (d0_unpckhdq _ _ _ hn).1, (d0_unpckhdq _ _ _ hn).2.1, (d0_unpckhdq _ _ _ hn).2.2.1, (d0_unpckhdq _ _ _ hn).2.2.2,
      (d0_unpckhqdq _ _ _ hn).1, (d0_unpckhqdq _ _ _ hn).2.1, (d0_unpckhqdq _ _ _ hn).2.2.1, (d0_unpckhqdq _ _ _ hn).2.2.2, and_self]

set_option maxRecDepth 100000 in
theorem x2end_spec64 (s : State) (hV : s.vec.length = 32) (h12 : vreg s 12 = SHUFvl 64) :
    ∃ s', execList (x2endCode 16) s = .ok s' ∧ vreg s' 9 < 2 ^ 128 ∧ vreg s' 8 < 2 ^ 128 ∧ X2End s s' := by
  have hvl : validVl 16 = true := by decide
  have hn : 0 < 16 / 16 := by decide
  obtain ⟨gpr, vec, k, fl, mem, syms, frame⟩ := s
  simp only at hV
  obtain ⟨b0, b1, b2, b3, b4, b5, b6, b7, b8, b9, b10, b11, b12, b13, b14, b15, b16, b17, b18, b19, b20, b21, b22, b23, b24, b25, b26, b27, b28, b29, b30, b31, rfl⟩ := list32 vec hV
  simp only [vreg, List.getD_cons_succ, List.getD_cons_zero] at h12
  subst h12
  apply Exists.intro
  apply And.intro
  · simp only [x2endCode]
    gstep; gstep; gstep; gstep; gstep; gstep
    exact execList_nil _
  · simp only [List.set_cons_succ, List.set_cons_zero]
    refine ⟨?_, ?_, ?_, ?_⟩
    · simp only [vreg, List.getD_cons_succ, List.getD_cons_zero]
      rw [vpshufb_shuf64 16 _ hvl]; exact vpshufb_lt 16 _ _ (by decide)
    · simp only [vreg, List.getD_cons_succ, List.getD_cons_zero]
      rw [vpshufb_shuf64 16 _ hvl]; exact vpshufb_lt 16 _ _ (by decide)
    · simp only [vreg, List.getD_cons_succ, List.getD_cons_zero]
      simp only [(d0_unpckldq _ _ _ hn).1, (d0_unpckldq _ _ _ hn).2.1, (d0_unpckldq _ _ _ hn).2.2.1, (d0_unpckldq _ _ _ hn).2.2.2,
        (d0_unpcklqdq _ _ _ hn).1, (d0_unpcklqdq _ _ _ hn).2.1, (d0_unpcklqdq _ _ _ hn).2.2.1, (d0_unpcklqdq _ _ _ hn).2.2.2,
        lane32_rev32_64 16 _ 0 hvl (by decide), lane32_rev32_64 16 _ 1 hvl (by decide),
        lane32_rev32_64 16 _ 2 hvl (by decide), lane32_rev32_64 16 _ 3 hvl (by decide), and_self]
    · simp only [vreg, List.getD_cons_succ, List.getD_cons_zero]
      simp only [(d0_unpckldq _ _ _ hn).1, (d0_unpckldq _ _ _ hn).2.1, (d0_unpckldq _ _ _ hn).2.2.1, (d0_unpckldq _ _ _ hn).2.2.2,
        (d0_unpckhqdq _ _ _ hn).1, (d0_unpckhqdq _ _ _ hn).2.1, (d0_unpckhqdq _ _ _ hn).2.2.1, (d0_unpckhqdq _ _ _ hn).2.2.2,
        lane32_rev32_64 16 _ 0 hvl (by decide), lane32_rev32_64 16 _ 1 hvl (by decide),
        lane32_rev32_64 16 _ 2 hvl (by decide), lane32_rev32_64 16 _ 3 hvl (by decide), and_self]

end SMGo.Proofs.ISAVal
namespace SMGo.Proofs.ISAVal
open SMGo.Model.ISAVal SMGo.Model.GCM SMGo.Proofs.GCM SMGo.Proofs.ISATouch
open SMGo.Model.ISA (Reg Opd Instr)

theorem t14n_writes : writesNone (t14Code 6 9) (List.range 16) kernKeepV (List.range 8) = true := by decide +kernel
theorem t41n_writes : writesNone (t41Code 6 9) (List.range 16) kernKeepV (List.range 8) = true := by decide +kernel
theorem x2t_writes : writesNone x2tCode (List.range 16) kernKeepV (List.range 8) = true := by decide +kernel
theorem x2end_writes : writesNone (x2endCode 16) (List.range 16) kernKeepV (List.range 8) = true := by decide +kernel

theorem kernKeepG_sub : ∀ n, n ∈ kernKeepG → n ∈ List.range 16 := by decide

set_option maxHeartbeats 1000000 in
/-- **the one-block kernel of the ladder** -/
theorem kern1_spec (s : State) (hG : s.gpr.length = 16) (hV : s.vec.length = 32)
    (h10 : vreg s 10 = PREvl 64) (h11 : vreg s 11 = POSTvl 64) (h12 : vreg s 12 = SHUFvl 64)
    (W : Nat × Nat × Nat × Nat) (hpre : quadAt (vreg s 6) 0 = W)
    (rk : List Nat) (hrk : rk.length = 32) (hrkb : ∀ x ∈ rk, x < 2 ^ 32)
    (base : Nat) (hbase : greg s 15 = base) (hb : base + 144 < 2 ^ 64)
    (hread : ∀ i, i < 32 → readMem s.mem (base + 4 * i) 4 = .ok (lanes 8 4 (rk.getD i 0))) :
    ∃ s', execList kern1Code s = .ok s' ∧ vreg s' 9 < 2 ^ 128 ∧ lanes 8 16 (vreg s' 9) = encQ (rk.foldl stepN W) ∧
      greg s' 15 = base ∧ Keeps kernKeepG kernKeepV (List.range 8) s s' := by
  obtain ⟨s1, hr1, a0, a1, a2, a3⟩ := t14n_spec s hV
  have kp1 := keeps_of_exec _ t14n_writes hr1
  have rd1 : ReadyF 16 6 7 8 9 (fun j => (lane 32 j (vreg s1 6), lane 32 j (vreg s1 7), lane 32 j (vreg s1 8), lane 32 j (vreg s1 9))) s1 :=
    ⟨kp1.lenG.trans hG, kp1.lenV.trans hV, (kp1.v 10 (by decide)).trans h10, (kp1.v 11 (by decide)).trans h11,
      fun _ _ => rfl, fun _ _ => rfl, fun _ _ => rfl, fun _ _ => rfl⟩
  obtain ⟨s2, hr2, rd2, g2, kp2⟩ := rounds32_step 16 15 1 2 11 12 6 7 8 9 (by decide) (Or.inl ⟨rfl, rfl, rfl, rfl⟩) (Or.inr ⟨rfl, rfl, rfl, rfl, rfl⟩)
    s1 _ rd1 base (by rw [kp1.g 15 (by decide)]; exact hbase) hb (fun i => lanes 8 4 (rk.getD i 0))
    (fun i hi => by rw [kp1.mem]; exact hread i hi)
  obtain ⟨s3, hr3, hlt, o0, o1, o2, o3⟩ := t41_spec 6 9 (Or.inr (Or.inr ⟨rfl, rfl⟩)) s2 rd2.lenV
    (by rw [kp2.v 12 (by decide), kp1.v 12 (by decide)]; exact h12)
  have kp3 := keeps_of_exec _ t41n_writes hr3
  have hkw : (fun i => unlanes 8 (lanes 8 4 (rk.getD i 0)) % 2 ^ 32) = (fun i => rk.getD i 0) := by
    funext i
    rw [unlanes_lanes, Nat.mod_mod]; exact Nat.mod_eq_of_lt (getD_lt rk hrkb i)
  have hx := rd2.xA 0 (by decide); have hy := rd2.xB 0 (by decide); have hz := rd2.xC 0 (by decide); have hw := rd2.xD 0 (by decide)
  have hq : (lane 32 0 (vreg s1 6), lane 32 0 (vreg s1 7), lane 32 0 (vreg s1 8), lane 32 0 (vreg s1 9)) = W := by
    rw [a0, a1, a2, a3, ← hpre]; rfl
  simp only [hq, hkw] at hx hy hz hw
  rw [iterN_take rk _ 32 (by omega), List.take_of_length_le (by omega)] at hx hy hz hw
  refine ⟨s3, execList_append_ok hr1 (execList_append_ok hr2 hr3), hlt, ?_, ?_, ?_⟩
  · exact reg_out2 _ _ (by rw [o0, hw]) (by rw [o1, hz]) (by rw [o2, hy]) (by rw [o3, hx])
  · rw [kp3.g 15 (by decide)]; exact g2
  · exact ((kp1.mono kernKeepG_sub (fun _ h => h) (fun _ h => h)).trans kp2).trans (kp3.mono kernKeepG_sub (fun _ h => h) (fun _ h => h))

set_option maxHeartbeats 1000000 in
/-- **the two-block kernel of the ladder** -/
theorem kern2_spec (s : State) (hG : s.gpr.length = 16) (hV : s.vec.length = 32)
    (h10 : vreg s 10 = PREvl 64) (h11 : vreg s 11 = POSTvl 64) (h12 : vreg s 12 = SHUFvl 64)
    (WA WB : Nat × Nat × Nat × Nat) (hA : quadAt (vreg s 6) 0 = WA) (hB : quadAt (vreg s 7) 0 = WB)
    (rk : List Nat) (hrk : rk.length = 32) (hrkb : ∀ x ∈ rk, x < 2 ^ 32)
    (base : Nat) (hbase : greg s 15 = base) (hb : base + 144 < 2 ^ 64)
    (hread : ∀ i, i < 32 → readMem s.mem (base + 4 * i) 4 = .ok (lanes 8 4 (rk.getD i 0))) :
    ∃ s', execList kern2Code s = .ok s' ∧ vreg s' 9 < 2 ^ 128 ∧ lanes 8 16 (vreg s' 9) = encQ (rk.foldl stepN WA) ∧
      vreg s' 8 < 2 ^ 128 ∧ lanes 8 16 (vreg s' 8) = encQ (rk.foldl stepN WB) ∧
      greg s' 15 = base ∧ Keeps kernKeepG kernKeepV (List.range 8) s s' := by
  obtain ⟨s1, hr1, ⟨a0, a1, a2, a3⟩, ⟨b0, b1, b2, b3⟩⟩ := x2t_spec s hV
  have kp1 := keeps_of_exec _ x2t_writes hr1
  have rd1 : ReadyF 16 6 7 8 9 (fun j => (lane 32 j (vreg s1 6), lane 32 j (vreg s1 7), lane 32 j (vreg s1 8), lane 32 j (vreg s1 9))) s1 :=
    ⟨kp1.lenG.trans hG, kp1.lenV.trans hV, (kp1.v 10 (by decide)).trans h10, (kp1.v 11 (by decide)).trans h11,
      fun _ _ => rfl, fun _ _ => rfl, fun _ _ => rfl, fun _ _ => rfl⟩
  obtain ⟨s2, hr2, rd2, g2, kp2⟩ := rounds32_step 16 15 1 2 11 12 6 7 8 9 (by decide) (Or.inl ⟨rfl, rfl, rfl, rfl⟩) (Or.inr ⟨rfl, rfl, rfl, rfl, rfl⟩)
    s1 _ rd1 base (by rw [kp1.g 15 (by decide)]; exact hbase) hb (fun i => lanes 8 4 (rk.getD i 0))
    (fun i hi => by rw [kp1.mem]; exact hread i hi)
  obtain ⟨s3, hr3, lt9, lt8, e3⟩ := x2end_spec64 s2 rd2.lenV (by rw [kp2.v 12 (by decide), kp1.v 12 (by decide)]; exact h12)
  have kp3 := keeps_of_exec _ x2end_writes hr3
  have hkw : (fun i => unlanes 8 (lanes 8 4 (rk.getD i 0)) % 2 ^ 32) = (fun i => rk.getD i 0) := by
    funext i
    rw [unlanes_lanes, Nat.mod_mod]; exact Nat.mod_eq_of_lt (getD_lt rk hrkb i)
  have hx := rd2.xA 0 (by decide); have hy := rd2.xB 0 (by decide); have hz := rd2.xC 0 (by decide); have hw := rd2.xD 0 (by decide)
  have hx' := rd2.xA 1 (by decide); have hy' := rd2.xB 1 (by decide); have hz' := rd2.xC 1 (by decide); have hw' := rd2.xD 1 (by decide)
  have hqA : (lane 32 0 (vreg s1 6), lane 32 0 (vreg s1 7), lane 32 0 (vreg s1 8), lane 32 0 (vreg s1 9)) = WA := by
    rw [a0, a1, a2, a3, ← hA]; rfl
  have hqB : (lane 32 1 (vreg s1 6), lane 32 1 (vreg s1 7), lane 32 1 (vreg s1 8), lane 32 1 (vreg s1 9)) = WB := by
    rw [b0, b1, b2, b3, ← hB]; rfl
  simp only [hqA, hkw] at hx hy hz hw
  simp only [hqB, hkw] at hx' hy' hz' hw'
  rw [iterN_take rk _ 32 (by omega), List.take_of_length_le (by omega)] at hx hy hz hw hx' hy' hz' hw'
  refine ⟨s3, execList_append_ok hr1 (execList_append_ok hr2 hr3), lt9, ?_, lt8, ?_, ?_, ?_⟩
  · exact reg_out2 _ _ (by rw [e3.v9.1, hw]) (by rw [e3.v9.2.1, hz]) (by rw [e3.v9.2.2.1, hy]) (by rw [e3.v9.2.2.2, hx])
  · exact reg_out2 _ _ (by rw [e3.v8.1, hw']) (by rw [e3.v8.2.1, hz']) (by rw [e3.v8.2.2.1, hy']) (by rw [e3.v8.2.2.2, hx'])
  · rw [kp3.g 15 (by decide)]; exact g2
  · exact ((kp1.mono kernKeepG_sub (fun _ h => h) (fun _ h => h)).trans kp2).trans (kp3.mono kernKeepG_sub (fun _ h => h) (fun _ h => h))

end SMGo.Proofs.ISAVal
