/-
  **The arm64 listing of `gHashBlocks` computes the GHASH update of SP 800-38D for every count ≥ 1** — under the arm64
  value semantics of SMGo/Model/ISAValArm64.lean (UNVALIDATED transcription of the Arm ARM).  `loopBy4` by induction,
  the four exits, the two entries (count < 8: one block at a time; otherwise the powers and four at a time), the final
  RBIT + store, and the comparison with the specification (`ghFold`, through `ghBy1_rep` of Proofs/GCMHash.lean).
-/
import SMGo.Proofs.ISAValArm64GhashMain
set_option maxRecDepth 100000
namespace SMGo.Proofs.ISAValArm64
open SMGo SMGo.Model.ISAValArm64 SMGo.Model.ISA SMGo.Model.GCM SMGo.Spec.GCM
open SMGo.Model.ISAVal (lane lanes unlanes Region readMem writeMem lookup regionBase)
open SMGo.Proofs.ISAVal (toB toB_take toB_drop toB_length)
open SMGo.Proofs.GCM (gmulOK gmulR_lt' loadR_lt loadR_eq ghBy1_add ghBy1_take ghBy1_lt ghBy1_rep Rep blockToNat_lt
  rev128_rev128 storeR_eq_natToBlock ghFold)

theorem ghBy1_lt' (h : Nat) (hh : h < 2 ^ 128) (n : Nat) (y : Nat) (d : Bytes) (hy : y < 2 ^ 128) (hd : 16 * n ≤ d.length) :
    ghBy1 h n y d < 2 ^ 128 :=
  ghBy1_lt gmulOK (hp := ⟨h, gmulR h h, gmulR h (gmulR h h), gmulR h (gmulR h (gmulR h h))⟩) ⟨hh, rfl, rfl, rfl⟩ n d hy hd

/-- the value an aggregated body leaves, from the loaded bytes `bs` = the next `16·c` bytes of the data -/
theorem blkV_of (data : List Nat) (hb : ∀ x ∈ data, x < 2 ^ 8) (o c k : Nat) (hk : k < c) (hlen : 16 * (o + c) ≤ data.length) :
    blkV ((data.drop (16 * o)).take (16 * c)) k
      = loadR (((toB (data.drop (16 * o))).drop (16 * k)).take 16) := by
  have hbs : ∀ x ∈ (data.drop (16 * o)).take (16 * c), x < 2 ^ 8 :=
    fun x hx => hb x (List.mem_of_mem_drop (List.mem_of_mem_take hx))
  rw [blkV_loadR _ hbs k (by rw [List.length_take, List.length_drop]; omega), toB_take, List.drop_take, List.take_take,
    Nat.min_eq_left (by omega)]

/-! ### `loopBy4` -/

theorem loop4 (M : List Region) (dbase tagp h : Nat) (data : List Nat) (env : DataEnv M dbase data) :
    ∀ k, 1 ≤ k → ∀ (r o : Nat) (s : State) (fl : Option Flags) (fuel : Nat), r < 4 →
      GInv M tagp h s → Pow4 s → greg s 12 = dbase + 16 * o → greg s 13 = 4 * k + r →
      16 * (o + 4 * k) ≤ data.length → vreg s 30 < 2 ^ 128 →
      ∃ s', runC ghR (fuel + 52 * k) (ghR.drop 78) s fl = runC ghR fuel (ghR.drop 130) s' (some (cmpFlags r 3)) ∧
        GInv M tagp h s' ∧ Pow4 s' ∧ greg s' 12 = dbase + 16 * (o + 4 * k) ∧ greg s' 13 = r ∧
        vreg s' 30 = ghBy1 h (4 * k) (vreg s 30) (toB (data.drop (16 * o))) ∧ vreg s' 30 < 2 ^ 128 := by
  intro k
  induction k with
  | zero => intro h0; omega
  | succ m ih =>
    intro _ r o s fl fuel hr inv pw h12 h13 hlen hy
    have hsm := env.small
    have hload := env.rd (16 * o) 64 (by omega)
    obtain ⟨s1, hrun, hk, g12, g13, v30⟩ := l4_spec s inv.ctx pw.sums ((data.drop (16 * o)).take 64)
      (by rw [inv.mem, h12]; exact hload)
    have inv1 := inv.keep hk
    have pw1 := pw.keep hk
    have hdl : 64 ≤ (toB (data.drop (16 * o))).length := by rw [toB_length, List.length_drop]; omega
    have b0 := blkV_of data env.bytes o 4 0 (by decide) (by omega)
    have b1 := blkV_of data env.bytes o 4 1 (by decide) (by omega)
    have b2 := blkV_of data env.bytes o 4 2 (by decide) (by omega)
    have b3 := blkV_of data env.bytes o 4 3 (by decide) (by omega)
    simp only [Nat.reduceMul, List.drop_zero] at b0 b1 b2 b3
    have hxl : loadR ((toB (data.drop (16 * o))).take 16) < 2 ^ 128 :=
      loadR_lt (by rw [List.length_take]; omega)
    rw [b0, b1, b2, b3, veor_y hy hxl, pw.h4, pw.h3, pw.h2, inv.v4,
      by4_eq h _ _ inv.hlt hy hdl] at v30
    have hy1 : vreg s1 30 < 2 ^ 128 := by rw [v30]; exact ghBy1_lt' h inv.hlt 4 _ _ hy (by omega)
    rw [h12, Nat.mod_eq_of_lt (by have := env.nowrap; omega)] at g12
    rw [h13] at g13
    have g13' : greg s1 13 = 4 * m + r := by rw [g13]; omega
    have e1 := run_seg 78 50 l4Code ghR_segments.2.2.1 segs_noCtl.2.2.1 (by decide) s s1 fl
      (fuel + 52 * m + 2) hrun
    have e2 := runC_cmp ghR 512 3 13 (4 * m + r) (ghR.drop 129) s1 fl (fuel + 52 * m + 1) (by decide)
      (by rw [gpr_get inv1.ctx.lenG 13 (by decide), g13'])
    simp only [Int.reduceToNat] at e2
    have hcond := cond_bgt (4 * m + r) 3 (by omega) (by decide)
    rw [show fuel + 52 * (m + 1) = fuel + 52 * m + 2 + 50 by omega, e1, drop_at ghR_ctl.2.2.1]
    show ∃ s', runC ghR (fuel + 52 * m + 1 + 1) (cmpI 512 3 :: ghR.drop 129) s1 fl = _ ∧ _
    unfold cmpI
    rw [e2, drop_at ghR_ctl.2.2.2.1]
    by_cases hm : m = 0
    · subst hm
      refine ⟨s1, ?_, inv1, pw1, ?_, ?_, ?_, hy1⟩
      · unfold brI
        rw [show fuel + 52 * 0 + 1 = fuel + 1 by omega, show 4 * 0 + r = r by omega]
        rw [show 4 * 0 + r = r by omega] at hcond
        exact runC_bcc_fall ghR .BGT (Or.inr (Or.inl rfl)) 516 312 _ s1 _ fuel (by rw [hcond]; simp; omega)
      · rw [g12]; omega
      · rw [g13']; omega
      · rw [v30]
    · have hm1 : 1 ≤ m := by omega
      obtain ⟨s2, hrun2, inv2, pw2, g12', g13'', v2, hy2⟩ := ih hm1 r (o + 4) s1 (some (cmpFlags (4 * m + r) 3)) fuel hr inv1
        pw1 (by rw [g12]; omega) g13' (by omega) hy1
      refine ⟨s2, ?_, inv2, pw2, ?_, g13'', ?_, hy2⟩
      · unfold brI
        rw [runC_bcc_taken ghR .BGT (Or.inr (Or.inl rfl)) 516 312 _ (ghR.drop 78) s1 _ (fuel + 52 * m)
          (by rw [hcond]; simp; omega) ghR_targets.2.1]
        exact hrun2
      · rw [g12']; omega
      · have e : toB (data.drop (16 * (o + 4))) = (toB (data.drop (16 * o))).drop (16 * 4) := by
          rw [← toB_drop, List.drop_drop, show 16 * o + 16 * 4 = 16 * (o + 4) by omega]
        rw [v2, v30, e, show 4 * (m + 1) = 4 + 4 * m by omega, ghBy1_add]

/-! ### the exits of `loopBy4` -/

def tailSteps (r : Nat) : Nat := match r with | 0 => 4 | 1 => 28 | 2 => 36 | _ => 42

theorem tail_spec (M : List Region) (dbase tagp h : Nat) (data : List Nat) (env : DataEnv M dbase data)
    (r o : Nat) (s : State) (fuel : Nat) (hr : r < 4) (inv : GInv M tagp h s) (pw : Pow4 s)
    (h12 : greg s 12 = dbase + 16 * o) (h13 : greg s 13 = r) (hlen : 16 * (o + r) ≤ data.length)
    (hy : vreg s 30 < 2 ^ 128) :
    ∃ s' fl', runC ghR (fuel + tailSteps r) (ghR.drop 130) s (some (cmpFlags r 3)) = runC ghR fuel (ghR.drop 232) s' fl' ∧
      GInv M tagp h s' ∧ vreg s' 30 = ghBy1 h r (vreg s 30) (toB (data.drop (16 * o))) ∧ vreg s' 30 < 2 ^ 128 := by
  have hsm := env.small
  have hG := inv.ctx.lenG
  rw [drop_at ghR_ctl.2.2.2.2.1]
  unfold brI
  have hc3 := cond_blt r 3 (by omega) (by decide)
  by_cases h3 : r = 3
  · -- three blocks left
    subst h3
    have hload := env.rd (16 * o) 48 (by omega)
    obtain ⟨s1, hrun, hk, v30⟩ := l3_spec s inv.ctx pw.sums ((data.drop (16 * o)).take 48)
      (by rw [inv.mem, h12]; exact hload)
    have hdl : 48 ≤ (toB (data.drop (16 * o))).length := by rw [toB_length, List.length_drop]; omega
    have b0 := blkV_of data env.bytes o 3 0 (by decide) (by omega)
    have b1 := blkV_of data env.bytes o 3 1 (by decide) (by omega)
    have b2 := blkV_of data env.bytes o 3 2 (by decide) (by omega)
    simp only [Nat.reduceMul, List.drop_zero] at b0 b1 b2
    have hxl : loadR ((toB (data.drop (16 * o))).take 16) < 2 ^ 128 := loadR_lt (by rw [List.length_take]; omega)
    rw [b0, b1, b2, veor_y hy hxl, pw.h3, pw.h2, inv.v4, by3_eq h _ _ inv.hlt hy hdl] at v30
    refine ⟨s1, some (cmpFlags 3 3), ?_, inv.keep hk, v30, by rw [v30]; exact ghBy1_lt' h inv.hlt 3 _ _ hy (by omega)⟩
    show runC ghR (fuel + 1 + 40 + 1) _ s _ = _
    rw [runC_bcc_fall ghR .BLT (Or.inl rfl) 520 688 _ s _ (fuel + 1 + 40) (by rw [hc3]; rfl),
      run_seg 131 40 l3Code ghR_segments.2.2.2.1 segs_noCtl.2.2.2.1 (by decide) s s1 _ (fuel + 1) hrun,
      drop_at ghR_ctl.2.2.2.2.2.1]
    unfold brI
    exact runC_jmp ghR 684 928 _ _ s1 _ fuel ghR_targets.2.2.2
  · have hlt3 : r < 3 := by omega
    have e1 := fun f => runC_bcc_taken ghR .BLT (Or.inl rfl) 520 688 (ghR.drop (130 + 1)) (ghR.drop 172) s
      (cmpFlags r 3) f (by rw [hc3]; simp; omega) ghR_targets.2.2.1
    have e2 := fun f => runC_cmp ghR 688 1 13 r (ghR.drop 173) s (some (cmpFlags r 3)) f (by decide)
      (by rw [gpr_get hG 13 (by decide), h13])
    simp only [Int.reduceToNat] at e2
    have hceq := cond_beq r 1 (by omega) (by decide)
    have hclt := cond_blt r 1 (by omega) (by decide)
    by_cases h1 : r = 1
    · -- one block left: `loopBy1` once
      subst h1
      obtain ⟨s1, fl1, hrun, inv1, v1, hy1⟩ := loop1 M dbase tagp h data env 1 (by decide) o s (some (cmpFlags 1 1)) fuel inv
        h12 h13 hlen hy
      refine ⟨s1, fl1, ?_, inv1, v1, hy1⟩
      show runC ghR (fuel + 25 + 1 + 1 + 1) _ s _ = _
      rw [e1, drop_at ghR_ctl.2.2.2.2.2.2.1]
      unfold cmpI
      rw [e2, drop_at ghR_ctl.2.2.2.2.2.2.2.1]
      unfold brI
      rw [runC_bcc_taken ghR .BEQ (Or.inr (Or.inr rfl)) 692 828 _ (ghR.drop 207) s _ (fuel + 25) (by rw [hceq]; rfl)
        ghR_targets.1]
      exact hrun
    · have e3 := fun f => runC_bcc_fall ghR .BEQ (Or.inr (Or.inr rfl)) 692 828 (ghR.drop (173 + 1)) s (cmpFlags r 1) f
        (by rw [hceq]; simp; exact h1)
      by_cases h0 : r = 0
      · -- nothing left
        subst h0
        refine ⟨s, some (cmpFlags 0 1), ?_, inv, rfl, hy⟩
        show runC ghR (fuel + 1 + 1 + 1 + 1) _ s _ = _
        rw [e1, drop_at ghR_ctl.2.2.2.2.2.2.1]
        unfold cmpI
        rw [e2, drop_at ghR_ctl.2.2.2.2.2.2.2.1]
        unfold brI
        rw [e3, drop_at ghR_ctl.2.2.2.2.2.2.2.2.1]
        unfold brI
        exact runC_bcc_taken ghR .BLT (Or.inl rfl) 696 928 _ (ghR.drop 232) s _ fuel (by rw [hclt]; rfl) ghR_targets.2.2.2
      · -- two blocks left
        have h2 : r = 2 := by omega
        subst h2
        have hload := env.rd (16 * o) 32 (by omega)
        obtain ⟨s1, hrun, hk, v30⟩ := l2_spec s inv.ctx pw.sums ((data.drop (16 * o)).take 32)
          (by rw [inv.mem, h12]; exact hload)
        have hdl : 32 ≤ (toB (data.drop (16 * o))).length := by rw [toB_length, List.length_drop]; omega
        have b0 := blkV_of data env.bytes o 2 0 (by decide) (by omega)
        have b1 := blkV_of data env.bytes o 2 1 (by decide) (by omega)
        simp only [Nat.reduceMul, List.drop_zero] at b0 b1
        have hxl : loadR ((toB (data.drop (16 * o))).take 16) < 2 ^ 128 := loadR_lt (by rw [List.length_take]; omega)
        rw [b0, b1, veor_y hy hxl, pw.h2, inv.v4, by2_eq h _ _ inv.hlt hy hdl] at v30
        refine ⟨s1, some (cmpFlags 2 1), ?_, inv.keep hk, v30, by rw [v30]; exact ghBy1_lt' h inv.hlt 2 _ _ hy (by omega)⟩
        show runC ghR (fuel + 1 + 31 + 1 + 1 + 1 + 1) _ s _ = _
        rw [e1, drop_at ghR_ctl.2.2.2.2.2.2.1]
        unfold cmpI
        rw [e2, drop_at ghR_ctl.2.2.2.2.2.2.2.1]
        unfold brI
        rw [e3, drop_at ghR_ctl.2.2.2.2.2.2.2.2.1]
        unfold brI
        rw [runC_bcc_fall ghR .BLT (Or.inl rfl) 696 928 _ s _ (fuel + 1 + 31) (by rw [hclt]; rfl),
          run_seg 175 31 l2Code ghR_segments.2.2.2.2.1 segs_noCtl.2.2.2.2.1 (by decide) s s1 _ (fuel + 1) hrun,
          drop_at ghR_ctl.2.2.2.2.2.2.2.2.2.1]
        unfold brI
        exact runC_jmp ghR 824 928 _ _ s1 _ fuel ghR_targets.2.2.2

/-! ### the whole routine -/

theorem runCtl_gh (fuel : Nat) (s : State) :
    runCtl Gen.ListArm64Gcm.gHashBlocks Gen.ListArm64GcmArr.gHashBlocks_arr fuel s = runC ghR fuel ghR s none := by
  have hd := ghR_decode
  unfold runCtl
  cases hz : zipDecode Gen.ListArm64Gcm.gHashBlocks Gen.ListArm64GcmArr.gHashBlocks_arr with
  | error e => rw [hz] at hd; simp [Except.toOption] at hd
  | ok r =>
    rw [hz] at hd
    simp only [Except.toOption, Option.some.injEq] at hd
    subst hd
    rfl

theorem tailSteps_le (r : Nat) : tailSteps r ≤ 42 := by
  unfold tailSteps; split <;> omega

/-- the memory of `ghashState` -/
def gmem (h tag data : List Nat) : List Region :=
  [⟨"SBox", Gen.AsmData.arm64_SBox, false⟩, ⟨"FK", Gen.AsmData.arm64_FK, false⟩, ⟨"CK", Gen.AsmData.arm64_CK, false⟩,
   ⟨"h", h, false⟩, ⟨"tag", tag, true⟩, ⟨"data", data, false⟩]

theorem ghs_mem (g v h tag data : List Nat) (c : Nat) : (ghashState g v h tag data c).mem = gmem h tag data := rfl
theorem ghs_gpr (g v h tag data : List Nat) (c : Nat) : (ghashState g v h tag data c).gpr = g := rfl
theorem ghs_vec (g v h tag data : List Nat) (c : Nat) : (ghashState g v h tag data c).vec = v := rfl

def gframe (c : Nat) : List (String × Nat) := [("h", arg 0), ("tag", arg 1), ("data", arg 2), ("count", c)]
theorem ghs_frame (g v h tag data : List Nat) (c : Nat) : (ghashState g v h tag data c).frame = gframe c := rfl

theorem gframe_h (c : Nat) : lookup (gframe c) "h" = some (regionBase 3) := by
  simp [gframe, lookup, arg, nsyms]
theorem gframe_tag (c : Nat) : lookup (gframe c) "tag" = some (regionBase 4) := by
  simp [gframe, lookup, arg, nsyms]
theorem gframe_data (c : Nat) : lookup (gframe c) "data" = some (regionBase 5) := by
  simp [gframe, lookup, arg, nsyms]
theorem gframe_count (c : Nat) : lookup (gframe c) "count" = some c := by
  simp [gframe, lookup]

theorem gmem_env (h tag data : List Nat) (hdb : ∀ x ∈ data, x < 2 ^ 8) (hdl : data.length < 2 ^ 32) :
    DataEnv (gmem h tag data) (regionBase 5) data where
  rd := fun off len hlen =>
    read_region (gmem h tag data) 5 ⟨"data", data, false⟩ off len rfl hlen (by omega)
  bytes := hdb
  nowrap := by have : regionBase 5 = 25769803776 := by decide
               omega
  small := hdl

theorem tag_after (g' v' : List Nat) (h tag data bs : List Nat) (sy fr : List (String × Nat)) :
    regionBytes ⟨g', v', (gmem h tag data).set 4 ⟨"tag", bs, true⟩, sy, fr⟩ "tag" = some bs := by
  simp [regionBytes, gmem, List.find?]

/-- the run of the listing, in the reflected representation: the tag buffer receives the byte image (`storeR`) of
    the model's one-block-at-a-time hash of `count` blocks -/
theorem gHashBlocks_run (g v h tag data : List Nat) (count : Nat)
    (hG : g.length = 31) (hV : v.length = 32)
    (hh : h.length = 16) (ht : tag.length = 16) (hhb : ∀ x ∈ h, x < 2 ^ 8) (htb : ∀ x ∈ tag, x < 2 ^ 8)
    (hdb : ∀ x ∈ data, x < 2 ^ 8) (hc : 1 ≤ count) (hd : 16 * count ≤ data.length) (hdl : data.length < 2 ^ 32) :
    runGhash (ghFuel count) (ghashState g v h tag data count)
      = .ok ((storeR (ghBy1 (loadR (toB h)) count (loadR (toB tag)) (toB data))).map (·.toNat)) := by
  have env := gmem_env h tag data hdb hdl
  have hhB : (toB h).length = 16 := by rw [toB_length]; exact hh
  have htB : (toB tag).length = 16 := by rw [toB_length]; exact ht
  -- prologue
  obtain ⟨s1, hrun1, ctx1, m1, _, _, g11, g12, g13, v4, v30⟩ := gp_spec (ghashState g v h tag data count) hG hV
    (regionBase 3) (regionBase 4) (regionBase 5) count h tag (gframe_h count) (gframe_tag count) (gframe_data count)
    (gframe_count count)
    (by have := read_region (gmem h tag data) 3 ⟨"h", h, false⟩ 0 16 rfl (by simp only [hh]; omega) (by decide)
        rw [Nat.add_zero, List.drop_zero, List.take_of_length_le (Nat.le_of_eq hh)] at this; exact this)
    (by have := read_region (gmem h tag data) 4 ⟨"tag", tag, true⟩ 0 16 rfl (by simp only [ht]; omega) (by decide)
        rw [Nat.add_zero, List.drop_zero, List.take_of_length_le (Nat.le_of_eq ht)] at this; exact this)
  rw [List.take_of_length_le (Nat.le_of_eq hh), vrbit_loadR h hh hhb] at v4
  rw [List.take_of_length_le (Nat.le_of_eq ht), vrbit_loadR tag ht htb] at v30
  have inv1 : GInv (gmem h tag data) (regionBase 4) (loadR (toB h)) s1 := ⟨ctx1, m1, g11, v4, loadR_lt hhB⟩
  have hy1 : vreg s1 30 < 2 ^ 128 := by rw [v30]; exact loadR_lt htB
  have g12' : greg s1 12 = regionBase 5 + 16 * 0 := by rw [g12]; omega
  have hcnt : count < 2 ^ 63 := by omega
  -- the final store
  have hfin : ∀ (s2 : State) (fl2 : Option Flags) (F : Nat), GInv (gmem h tag data) (regionBase 4) (loadR (toB h)) s2 →
      vreg s2 30 = ghBy1 (loadR (toB h)) count (loadR (toB tag)) (toB data) → vreg s2 30 < 2 ^ 128 →
      ∃ s3, runC ghR (F + 1 + 2) (ghR.drop 232) s2 fl2 = .ok s3 ∧
        regionBytes s3 "tag" = some ((storeR (ghBy1 (loadR (toB h)) count (loadR (toB tag)) (toB data))).map (·.toNat)) := by
    intro s2 fl2 F inv2 v2 hy2
    have hw := write_region (gmem h tag data) 4 "tag" tag 0 (lanes 8 16 (vrbit (vreg s2 30))) rfl
      (by rw [SMGo.Proofs.ISAVal.lanes_length, ht]; decide) (by decide)
    rw [Nat.add_zero, List.take_zero, List.nil_append, SMGo.Proofs.ISAVal.lanes_length, Nat.zero_add,
      List.drop_of_length_le (Nat.le_of_eq ht), List.append_nil] at hw
    obtain ⟨s3, hrun3, hm3⟩ := ge_spec s2 inv2.ctx.lenG inv2.ctx.lenV _ (by rw [inv2.mem, inv2.g11]; exact hw)
    refine ⟨s3, ?_, ?_⟩
    · rw [run_seg 232 2 geCode ghR_segments.2.2.2.2.2.2.1 segs_noCtl.2.2.2.2.2.2 (by decide) s2 s3 fl2 (F + 1) hrun3,
        drop_at ghR_ctl.2.2.2.2.2.2.2.2.2.2.2.2]
      exact runC_ret ghR 936 _ s3 fl2 F
    · obtain ⟨g3, v3, m3, sy3, fr3⟩ := s3
      simp only at hm3
      subst hm3
      rw [tag_after, vrbit_store _ hy2, v2]
  -- the branch on count
  unfold runGhash
  rw [runCtl_gh]
  have e13 : ∀ F, runC ghR (F + 13) ghR (ghashState g v h tag data count) none = runC ghR F (ghR.drop 13) s1 none :=
    fun F => run_seg 0 13 gpCode ghR_segments.1 segs_noCtl.1 (by decide) _ s1 none F hrun1
  have ecmp := fun F => runC_cmp ghR 52 8 13 count (ghR.drop 14) s1 none F (by decide)
    (by rw [gpr_get ctx1.lenG 13 (by decide), g13])
  simp only [Int.reduceToNat] at ecmp
  have hblt := cond_blt count 8 hcnt (by decide)
  by_cases h8 : count < 8
  · -- one block at a time
    obtain ⟨s2, fl2, hrun2, inv2, v2, hy2⟩ := loop1 (gmem h tag data) (regionBase 5) (regionBase 4) (loadR (toB h)) data env
      count hc 0 s1 (some (cmpFlags count 8)) (5 * count + 182 + 1 + 2) inv1 g12' g13 (by omega) hy1
    rw [v30, Nat.mul_zero, List.drop_zero] at v2
    obtain ⟨s3, hrun3, htag⟩ := hfin s2 fl2 (5 * count + 182) inv2 v2 hy2
    have : ghFuel count = 5 * count + 182 + 1 + 2 + 25 * count + 1 + 1 + 13 := by unfold ghFuel; omega
    rw [this, e13, drop_at ghR_ctl.1]
    unfold cmpI
    rw [ecmp, drop_at ghR_ctl.2.1]
    unfold brI
    rw [runC_bcc_taken ghR .BLT (Or.inl rfl) 56 828 _ (ghR.drop 207) s1 _ _ (by rw [hblt]; simp; exact h8) ghR_targets.1,
      hrun2, hrun3]
    simp only [ok_bind, htag]
    rfl
  · -- the powers, four at a time, the rest
    obtain ⟨sq, hrunq, qg, qlv, qm, qsy, qfr, q4, q5, q12, q13, q30, qsums, qh2, qh3, qh4⟩ := q_spec s1 ctx1
    have invq : GInv (gmem h tag data) (regionBase 4) (loadR (toB h)) sq :=
      ⟨⟨by rw [qg]; exact ctx1.lenG, qlv, by rw [q4, q5]; exact ctx1.sum, by rw [q12]; exact ctx1.v12,
        by rw [q13]; exact ctx1.v13⟩, by rw [qm]; exact m1, by unfold greg; rw [qg]; exact g11, by rw [q4]; exact v4,
        loadR_lt hhB⟩
    have pwq : Pow4 sq := ⟨qsums, by rw [qh2, q4], by rw [qh3, q4], by rw [qh4, q4]⟩
    have hcount : count = 4 * (count / 4) + count % 4 := by omega
    have hk1 : 1 ≤ count / 4 := by omega
    have hr4 : count % 4 < 4 := Nat.mod_lt _ (by decide)
    have hts := tailSteps_le (count % 4)
    generalize hF : ghFuel count - (52 * (count / 4) + tailSteps (count % 4) + 81) = F
    have hfuel : ghFuel count = F + 1 + 2 + tailSteps (count % 4) + 52 * (count / 4) + 63 + 1 + 1 + 13 := by
      unfold ghFuel at hF ⊢; omega
    obtain ⟨s2, hrun2, inv2, pw2, g12_2, g13_2, v2, hy2⟩ := loop4 (gmem h tag data) (regionBase 5) (regionBase 4)
      (loadR (toB h)) data env (count / 4) hk1 (count % 4) 0 sq (some (cmpFlags count 8))
      (F + 1 + 2 + tailSteps (count % 4)) hr4 invq pwq (by unfold greg; rw [qg]; exact g12')
      (by unfold greg; rw [qg]; unfold greg at g13; rw [g13]; exact hcount) (by omega) (by rw [q30]; exact hy1)
    obtain ⟨s3, fl3, hrun3, inv3, v3, hy3⟩ := tail_spec (gmem h tag data) (regionBase 5) (regionBase 4) (loadR (toB h)) data env
      (count % 4) (0 + 4 * (count / 4)) s2 (F + 1 + 2) hr4 inv2 pw2 g12_2 g13_2 (by omega) hy2
    have vfin : vreg s3 30 = ghBy1 (loadR (toB h)) count (loadR (toB tag)) (toB data) := by
      rw [v3, v2, q30, v30, Nat.mul_zero, List.drop_zero, toB_drop, Nat.zero_add]
      conv => rhs; rw [hcount, ghBy1_add]
    obtain ⟨s4, hrun4, htag⟩ := hfin s3 fl3 F inv3 vfin hy3
    rw [hfuel, e13, drop_at ghR_ctl.1]
    unfold cmpI
    rw [ecmp, drop_at ghR_ctl.2.1]
    unfold brI
    rw [runC_bcc_fall ghR .BLT (Or.inl rfl) 56 828 _ s1 _ _ (by rw [hblt]; simp; omega),
      run_seg 15 63 qCode ghR_segments.2.1 segs_noCtl.2.1 (by decide) s1 sq _ _ hrunq, hrun2, hrun3, hrun4]
    simp only [ok_bind, htag]
    rfl

/-- **the arm64 listing of `gHashBlocks` computes the GHASH update of SP 800-38D**: for every `count ≥ 1`, every hash
    key H, every running value (tag) and `16·count` bytes of data, whatever the registers hold at entry, the run
    succeeds within `ghFuel count` steps and the tag buffer holds
    `Y' = (…((Y ⊕ X₁)•H ⊕ X₂)•H … ⊕ X_count)•H` (`ghFold`; `Spec.GCM.ghash H x = ghFold H 0 x`) -/
theorem gHashBlocks_eq_spec (g v h tag data : List Nat) (count : Nat)
    (hG : g.length = 31) (hV : v.length = 32)
    (hh : h.length = 16) (ht : tag.length = 16) (hhb : ∀ x ∈ h, x < 2 ^ 8) (htb : ∀ x ∈ tag, x < 2 ^ 8)
    (hdb : ∀ x ∈ data, x < 2 ^ 8) (hc : 1 ≤ count) (hd : 16 * count ≤ data.length) (hdl : data.length < 2 ^ 32) :
    runGhash (ghFuel count) (ghashState g v h tag data count)
      = .ok ((natToBlock (ghFold (blockToNat (toB h)) (blockToNat (toB tag)) ((toB data).take (16 * count)))).map (·.toNat)) := by
  rw [gHashBlocks_run g v h tag data count hG hV hh ht hhb htb hdb hc hd hdl]
  have hhB : (toB h).length = 16 := by rw [toB_length]; exact hh
  have htB : (toB tag).length = 16 := by rw [toB_length]; exact ht
  have hdB : 16 * count ≤ (toB data).length := by rw [toB_length]; exact hd
  have hyl := loadR_lt htB
  have hrepY : Rep (loadR (toB tag)) (blockToNat (toB tag)) :=
    ⟨hyl, by rw [loadR_eq htB, rev128_rev128 (blockToNat_lt htB)]⟩
  have hrep := ghBy1_rep gmulOK (blockToNat_lt hhB) (loadR_eq hhB) count (toB data) hrepY hdB
  rw [storeR_eq_natToBlock, hrep.2]

end SMGo.Proofs.ISAValArm64

#print axioms SMGo.Proofs.ISAValArm64.gHashBlocks_eq_spec
