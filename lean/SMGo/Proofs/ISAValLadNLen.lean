import SMGo.Proofs.ISAValLadN
set_option linter.unusedSimpArgs false
namespace SMGo.Proofs.ISAVal
open SMGo.Model.ISAVal SMGo.Model.GCM SMGo.Proofs.GCM SMGo.Proofs.ISATouch
open SMGo.Model.ISA (Reg Opd Instr)

/-- number of iterations of the class schedule on `len` bytes -/
def fuelNeed (len : Nat) : Nat :=
  len / 256 + (if len % 256 ≥ 128 then 5 else if len % 256 ≥ 64 then 4 else if len % 256 ≥ 32 then 3 else if len % 256 ≥ 16 then 2 else 1)

theorem fuelNeed_le (len : Nat) : fuelNeed len ≤ len / 256 + 5 := by
  unfold fuelNeed; (repeat' split) <;> omega

theorem fuelNeed_le16 (len : Nat) : fuelNeed len ≤ len / 16 + 1 := by
  unfold fuelNeed; (repeat' split) <;> omega

theorem fuelNeed_pos (len : Nat) : 1 ≤ fuelNeed len := by
  unfold fuelNeed; (repeat' split) <;> omega

theorem fuelNeed_step (len : Nat) (h : 16 ≤ len) : fuelNeed (len - 16 * classOf len) + 1 ≤ fuelNeed len := by
  unfold fuelNeed classOf
  by_cases h1 : 256 ≤ len
  · simp only [ge_iff_le, h1, if_true]
    have e1 : (len - 16 * 16) / 256 + 1 = len / 256 := by omega
    have e2 : (len - 16 * 16) % 256 = len % 256 := by omega
    rw [e2]; omega
  · simp only [ge_iff_le, h1, if_false]
    (repeat' split) <;> omega

theorem ladN_length (rk jb : List Nat) (h hf : Nat) : ∀ (fuel c y : Nat) (src : List Nat), fuelNeed src.length ≤ fuel →
    (ladN rk jb h hf fuel c y src).1.length = src.length := by
  intro fuel
  induction fuel with
  | zero => intro c y src hf0; have := fuelNeed_pos src.length; omega
  | succ f ih =>
    intro c y src hfu
    by_cases h16 : src.length < 16
    · rw [ladN_small rk jb h hf f c y src h16]
      show ((xorN (padTo16 src) (encB rk (ctrBlk jb (c + 1)))).take src.length).length = _
      rw [List.length_take, xorN_length, padTo16_length _ (by omega), encB_length]; omega
    · have hcf := class_facts src.length
      have hn0 : classOf src.length ≠ 0 := fun h0 => by have := hcf.2.1 h0; omega
      rw [ladN_class rk jb h hf f c y src _ rfl hn0]
      simp only []
      rw [List.length_append, xorN_length, ksN_length, List.length_take, ih _ _ _ (by
        rw [List.length_drop]; have := fuelNeed_step src.length (by omega); omega), List.length_drop]
      have := hcf.1 hn0
      omega

/-- more fuel than needed changes nothing -/
theorem ladN_fuel (rk jb : List Nat) (h hf : Nat) : ∀ (f1 f2 c y : Nat) (src : List Nat), fuelNeed src.length ≤ f1 → fuelNeed src.length ≤ f2 →
    ladN rk jb h hf f1 c y src = ladN rk jb h hf f2 c y src := by
  intro f1
  induction f1 with
  | zero => intro f2 c y src h1; have := fuelNeed_pos src.length; omega
  | succ f ih =>
    intro f2 c y src h1 h2
    obtain ⟨g, rfl⟩ : ∃ g, f2 = g + 1 := ⟨f2 - 1, by have := fuelNeed_pos src.length; omega⟩
    by_cases h16 : src.length < 16
    · rw [ladN_small rk jb h hf f c y src h16, ladN_small rk jb h hf g c y src h16]
    · have hcf := class_facts src.length
      have hn0 : classOf src.length ≠ 0 := fun h0 => by have := hcf.2.1 h0; omega
      have hs := fuelNeed_step src.length (by omega)
      rw [ladN_class rk jb h hf f c y src _ rfl hn0, ladN_class rk jb h hf g c y src _ rfl hn0,
        ih g _ _ _ (by rw [List.length_drop]; omega) (by rw [List.length_drop]; omega)]

end SMGo.Proofs.ISAVal
