import SMGo.Proofs.ISAValOpenCode
set_option linter.unusedSimpArgs false
namespace SMGo.Proofs.ISAVal
open SMGo.Model.ISAVal SMGo.Model.GCM SMGo.Proofs.GCM SMGo.Proofs.ISATouch
open SMGo.Model.ISA (Reg Opd Instr)

theorem kArgs1 : writesNone openArgs1Code [0, 1, 2, 3, 4, 5, 7, 8, 11, 12, 13, 15] (List.range 32) (List.range 8) = true := by decide +kernel
theorem kSMidHead : writesNone (sMidHeadCode.take 5) [0, 1, 2, 3, 4, 5, 6, 7, 8, 9, 10, 13, 14, 15] (List.range 32) (List.range 8) = true := by
  decide +kernel

set_option maxRecDepth 100000 in
set_option maxHeartbeats 2000000 in
/-- **`CalculateSMid` of `openAsm`** (instructions 1499 … 1645): the GHASH of the ciphertext (the input without its last `t` bytes)
    continues the GHASH of the additional data -/
theorem open_sMid (s5 : State) (pc : PCtx s5) (h : Nat) (gh : GhCtx h s5) (rk dst nonce inp ct aad : List Nat) (cp : Nat) (t : Nat)
    (b5 : List Nat) (hb5 : b5.length = 32) (hm5 : s5.mem = fmem "cipher" false rk dst nonce inp aad b5)
    (fC : lookup s5.frame "cipher" = some cp) (fCl : lookup s5.frame "cipherLen" = some ct.length)
    (fTs : lookup s5.frame "tagSize" = some t) (fTmp : lookup s5.frame "tmp" = some 94489280512)
    (hrk : rk.length = 32) (hnl : nonce.length < 2 ^ 32) (hal : aad.length < 2 ^ 32)
    (ht : t ≤ ct.length) (hcl : ct.length < 2 ^ 32) (hcb : ∀ x ∈ ct, x < 2 ^ 8)
    (hct : ∀ b, b.length = 32 → DataAt (fmem "cipher" false rk dst nonce inp aad b) cp ct) (hcp : cp + ct.length < 2 ^ 63) (y0 : Nat) (hy0 : vreg s5 21 = y0) (hy0lt : y0 < 2 ^ 128) :
    ∃ s6 N b6, N ≤ 34 * ((ct.length - t) / 16) + 160 ∧ Reach openR 1499 s5 1646 s6 N ∧
      s6.mem = fmem "cipher" false rk dst nonce inp aad b6 ∧ b6.length = 32 ∧ PCtx s6 ∧ GhCtx h s6 ∧
      vreg s6 21 = ghUpdN h y0 (ct.take (ct.length - t)) ∧ vreg s6 21 < 2 ^ 128 ∧
      KeepsM [0, 3, 4, 5, 7, 8, 13, 15] (bodyKeepV 21) (List.range 8) s5 s6 := by
  have os := open_slices'
  have hG := pc.lenG
  obtain ⟨nC, hnC⟩ : ∃ nC, nC = ct.length - t := ⟨_, rfl⟩
  rw [← hnC]
  let C := ct.take nC
  have hCl : C.length = nC := by show (ct.take nC).length = nC; rw [List.length_take]; omega
  have hCb : ∀ x ∈ C, x < 2 ^ 8 := fun x hx => hcb x (List.mem_of_mem_take hx)
  -- the arguments
  let a1 := setGreg s5 10 cp
  let a2 := setGreg a1 9 ct.length
  let a3 := setGreg a2 14 t
  have hG3 : a3.gpr.length = 16 := by simp [a3, a2, a1, hG]
  have g39 : greg a3 9 = ct.length := by
    show greg (setGreg a2 14 _) 9 = _
    rw [greg_setGreg_ne a2 14 _ 9 (by decide)]; exact greg_setGreg_eq a1 9 _ (by simp [a1, hG])
  have g314 : greg a3 14 = t := greg_setGreg_eq a2 14 _ (by simp [a2, a1, hG])
  have x4 := a_subq_rr a3 14 9 (by omega) (by omega) (by rw [g314]; omega) (by rw [g39]; omega)
  rw [g314, g39, show (ct.length + 2 ^ 64 - t) % 2 ^ 64 = nC from by omega] at x4
  let a4 := setFlags (setGreg a3 9 nC) (subF 8 ct.length t).2
  let a5 := setGreg a4 6 94489280512
  have hG4 : a4.gpr.length = 16 := (lenG_sf a3 9 _ _).trans hG3
  have hxa : execList openArgs1Code s5 = .ok a5 := by
    apply exec_step (a_movq_frame s5 "cipher" 56 10 _ fC (by rw [hG]; decide))
    apply exec_step (a_movq_frame a1 "cipherLen" 64 9 _ fCl (by simp [a1, hG]))
    apply exec_step (a_movq_frame a2 "tagSize" 16 14 _ fTs (by simp [a2, a1, hG]))
    apply exec_step x4
    apply exec_step (a_movq_frame a4 "tmp" 104 6 _ fTmp (by rw [hG4]; decide))
    rfl
  have ka := keeps_of_exec _ kArgs1 hxa
  have ra : Reach openR 1499 s5 1504 a5 5 := reach_seg os.args1 (by rfl) hxa
  have pa := pc.of_keeps ka pRegs_all
  have ga := gh.of_keeps ka ghRegs_all
  have g59 : greg a5 9 = nC := by
    show greg (setGreg a4 6 _) 9 = _
    rw [greg_setGreg_ne a4 6 _ 9 (by decide)]
    show greg (setFlags (setGreg a3 9 _) _) 9 = _
    rw [greg_setFlags, greg_setGreg_eq a3 9 _ (by omega)]
  have g510 : greg a5 10 = cp := by
    show greg (setGreg a4 6 _) 10 = _
    rw [greg_setGreg_ne a4 6 _ 10 (by decide)]
    show greg (setFlags (setGreg a3 9 _) _) 10 = _
    rw [greg_setFlags, greg_setGreg_ne a3 9 _ 10 (by decide)]
    show greg (setGreg a2 14 _) 10 = _
    rw [greg_setGreg_ne a2 14 _ 10 (by decide)]
    show greg (setGreg a1 9 _) 10 = _
    rw [greg_setGreg_ne a1 9 _ 10 (by decide)]; exact greg_setGreg_eq s5 10 _ (by rw [hG]; decide)
  have g56 : greg a5 6 = 94489280512 := greg_setGreg_eq a4 6 _ (by rw [hG4]; decide)
  have hG5 : a5.gpr.length = 16 := ka.lenG.trans hG
  -- block count and remainder, CMPQ len, $16
  let sb2 := setGreg a5 12 nC
  let sb3 := setGreg sb2 11 nC
  obtain ⟨f1, hf1⟩ := alu_and15 nC sb3.flags
  let sb4 := setFlags (setGreg sb3 11 (nC % 16)) f1
  obtain ⟨f2, hf2⟩ := alu_shr4 nC sb4.flags
  let sb5 := setFlags (setGreg sb4 12 (nC / 16)) f2
  let sb6 := setFlags sb5 (subF 8 nC 16).2
  have hG2 : sb2.gpr.length = 16 := by simp [sb2]; exact hG5
  have hG3' : sb3.gpr.length = 16 := by simp [sb3]; exact hG2
  have hG4' : sb4.gpr.length = 16 := (lenG_sf sb3 11 _ _).trans hG3'
  have hG5' : sb5.gpr.length = 16 := (lenG_sf sb4 12 _ _).trans hG4'
  have e311 : greg sb3 11 = nC := greg_setGreg_eq sb2 11 _ (by omega)
  have e412 : greg sb4 12 = nC := by
    show greg (setFlags (setGreg sb3 11 _) _) 12 = _
    rw [greg_setFlags, greg_setGreg_ne sb3 11 _ 12 (by decide)]
    show greg (setGreg sb2 11 _) 12 = _
    rw [greg_setGreg_ne sb2 11 _ 12 (by decide)]; exact greg_setGreg_eq a5 12 _ (by omega)
  have e59 : greg sb5 9 = nC := by
    show greg (setFlags (setGreg sb4 12 _) _) 9 = _
    rw [greg_setFlags, greg_setGreg_ne sb4 12 _ 9 (by decide)]
    show greg (setFlags (setGreg sb3 11 _) _) 9 = _
    rw [greg_setFlags, greg_setGreg_ne sb3 11 _ 9 (by decide)]
    show greg (setGreg sb2 11 _) 9 = _
    rw [greg_setGreg_ne sb2 11 _ 9 (by decide)]
    show greg (setGreg a5 12 _) 9 = _
    rw [greg_setGreg_ne a5 12 _ 9 (by decide)]; exact g59
  have hxb : execList (sMidHeadCode.take 5) a5 = .ok sb6 := by
    show execList [_, _, _, _, _] a5 = _
    apply exec_step (s1 := sb2) (by have := a_movq_rr a5 9 12 (by omega) (by omega); rw [g59] at this; exact this)
    apply exec_step (s1 := sb3) (by
      have := a_movq_rr sb2 9 11 (by omega) (by omega)
      rw [show greg sb2 9 = nC from by rw [greg_setGreg_ne a5 12 _ 9 (by decide)]; exact g59] at this
      exact this)
    apply exec_step (s1 := sb4) (a_alu_imm sb3 .ANDQ 15 11 _ f1 (by simp) (by omega) (by rw [e311]; exact hf1))
    apply exec_step (s1 := sb5) (a_alu_imm sb4 .SHRQ 4 12 _ f2 (by simp) (by omega) (by rw [e412]; exact hf2))
    apply exec_step (s1 := sb6) (by
      have := a_cmpq_imm sb5 16 9 (by omega)
      rw [e59, show imm64 16 = 16 from by decide +kernel] at this
      exact this)
    rfl
  have kb := keeps_of_exec _ kSMidHead hxb
  have sHd : Slice openR 1504 (sMidHeadCode.take 5) := Slice.left (a := sMidHeadCode.take 5) (b := [ins .JLT [.target 9314] 0]) os.head
  have sJ : Slice openR (1504 + 5) [ins .JLT [.target 9314] 0] := Slice.right (a := sMidHeadCode.take 5) (b := [ins .JLT [.target 9314] 0]) os.head
  have rb : Reach openR 1504 a5 1509 sb6 5 := reach_seg sHd (by rfl) hxb
  have pb := pa.of_keeps kb pRegs_all
  have gb := ga.of_keeps kb ghRegs_all
  have b12 : greg sb6 12 = nC / 16 := by
    show greg (setFlags (setFlags (setGreg sb4 12 _) _) _) 12 = _
    rw [greg_setFlags, greg_setFlags, greg_setGreg_eq sb4 12 _ (by omega)]
  have b11 : greg sb6 11 = nC % 16 := by
    show greg (setFlags (setFlags (setGreg sb4 12 _) _) _) 11 = _
    rw [greg_setFlags, greg_setFlags, greg_setGreg_ne sb4 12 _ 11 (by decide)]
    show greg (setFlags (setGreg sb3 11 _) _) 11 = _
    rw [greg_setFlags, greg_setGreg_eq sb3 11 _ (by omega)]
  have b10 : greg sb6 10 = cp := by rw [kb.g 10 (by decide)]; exact g510
  have b6 : greg sb6 6 = 94489280512 := by rw [kb.g 6 (by decide)]; exact g56
  have b21 : vreg sb6 21 = y0 := by rw [kb.v 21 (by decide), ka.v 21 (by decide)]; exact hy0
  have hmb : sb6.mem = fmem "cipher" false rk dst nonce inp aad b5 := by rw [kb.mem, ka.mem]; exact hm5
  have hdC : DataAt sb6.mem cp C := by
    rw [hmb]
    exact DataAt.take (hct b5 hb5) nC
  -- JL toRemain
  have hcnd : Model.ISAVal.cond .JLT sb6.flags = .ok (decide (nC < 16)) := cond_jlt nC 16 (by omega) (by decide)
  have rj := reach_jcc (r := openR) (k := 1504 + 5) (idx := 1578) sJ rfl (label_findPc open_labels (name := "SMid.toRemain") (by decide)) hcnd
  have kab : Keeps [0, 3, 4, 5, 7, 8, 13, 15] (bodyKeepV 21) (List.range 8) s5 sb6 :=
    (ka.mono (by decide) (by decide) (fun _ h => h)).trans (kb.mono (by decide) (by decide) (fun _ h => h))
  -- the whole blocks
  obtain ⟨sc, N1, hN1, rc, gcc, v21, lt21, g10c, m_c, kc⟩ : ∃ sc N1, N1 ≤ 34 * (nC / 16) + 5 ∧ Reach openR (1504 + 5) sb6 1578 sc N1 ∧
      GhCtx h sc ∧ vreg sc 21 = (if nC < 16 then y0 else ghAllN h (nC / 16) y0 C) ∧ vreg sc 21 < 2 ^ 128 ∧
      greg sc 10 = cp + 16 * (nC / 16) ∧ sc.mem = sb6.mem ∧
      Keeps [0, 3, 4, 5, 6, 7, 8, 11, 13, 15] (bodyKeepV 21) (List.range 8) sb6 sc := by
    by_cases hlt : nC < 16
    · simp only [hlt, decide_true, if_true] at rj
      refine ⟨sb6, 1, by omega, rj, gb, by rw [b21, if_pos hlt], by rw [b21]; exact hy0lt, by rw [b10]; omega, rfl, Keeps.rfl' _ _ _ _⟩
    · simp only [hlt, decide_false, Bool.false_eq_true, if_false] at rj
      obtain ⟨sc, N, hN, rc, gcc, v21, lt21, g8c, kc⟩ := ghLoops_reach openR 1510 10 12 21 8913 9133 9314 (Or.inr (Or.inr ⟨rfl, rfl, rfl⟩))
        os.loops (label_findPc open_labels (name := "SMid.loop4") (by decide)) (label_findPc open_labels (name := "SMid.loop1") (by decide))
        (label_findPc open_labels (name := "SMid.toRemain") (by decide)) h (nC / 16) sb6 cp y0 C gb
        b10 b12 b21 hy0lt (by omega) (by omega) (by omega) (by omega) hCb hdC
      refine ⟨sc, 1 + N, by omega, (rj.trans rc).cast rfl rfl, gcc, by rw [v21, if_neg hlt], lt21, g8c, kc.mem,
        kc.mono (by decide) (fun _ h => h) (fun _ h => h)⟩
  -- the remainder
  have mf := memFam_fmem "cipher" false rk dst nonce inp aad hrk hnl hal
  obtain ⟨s6, N2, b6', hN2, r2, m6, hb6, g6, v6, lt6, _, k6⟩ := rem_reach openR 1578 10 9626 9342 9368 9393 9420 9445 (Or.inr rfl) os.rem
    (label_findPc open_labels (name := "postArgs") (by decide)) (label_findPc open_labels (name := "SMid.copy8") (by decide))
    (label_findPc open_labels (name := "SMid.copy4") (by decide)) (label_findPc open_labels (name := "SMid.copy2") (by decide))
    (label_findPc open_labels (name := "SMid.copy1") (by decide)) (label_findPc open_labels (name := "SMid.copyEnd") (by decide))
    (fun b => fmem "cipher" false rk dst nonce inp aad b) 94489280512 mf.buf C cp
    (fun b hb => DataAt.take (hct b hb) nC) hCb (by decide)
    (by omega) h sc b5 (16 * (nC / 16)) 0 (nC % 16) _ (Or.inl rfl) gcc hb5 (by rw [m_c]; exact hmb)
    (by rw [kc.g 11 (by decide)]; exact b11) (by omega) g10c (by rw [kc.g 6 (by decide)]; exact b6) (by omega) rfl lt21
  have kAll : KeepsM [0, 3, 4, 5, 7, 8, 13, 15] (bodyKeepV 21) (List.range 8) s5 s6 :=
    (kab.toM.trans (kc.toM.mono (by decide) (fun _ h => h) (fun _ h => h))).trans (k6.mono (by decide) (fun _ h => h) (fun _ h => h))
  refine ⟨s6, 5 + 5 + N1 + N2, b6', by omega, (((ra.trans rb).trans rc).trans r2).cast rfl rfl, m6, hb6, pc.of_keepsM kAll pRegs_body21, g6, ?_, lt6,
    kAll⟩
  rw [v6, v21]
  unfold ghUpdN
  rw [hCl]
  by_cases h0 : nC % 16 = 0
  · rw [if_pos h0, if_pos h0]
  · rw [if_neg h0, if_neg h0]
    congr 4
    rw [List.take_of_length_le (by rw [List.length_drop]; omega)]

end SMGo.Proofs.ISAVal
