import SMGo.Proofs.ISAValFusedPrefix12
import SMGo.Proofs.ISAValSealPrefix12
import SMGo.Proofs.ISAValOpenPrefix
set_option linter.unusedSimpArgs false
namespace SMGo.Proofs.ISAVal
open SMGo.Model.ISAVal SMGo.Model.GCM SMGo.Proofs.GCM SMGo.Proofs.ISATouch
open SMGo.Model.ISA (Reg Opd Instr)

theorem open_copyLabels : SPreCopyLabels openR :=
  ⟨label_findPc open_labels (name := "SPre.copy8") (by decide), label_findPc open_labels (name := "SPre.copy4") (by decide),
   label_findPc open_labels (name := "SPre.copy2") (by decide), label_findPc open_labels (name := "SPre.copy1") (by decide),
   label_findPc open_labels (name := "SPre.copyEnd") (by decide)⟩

/-- **`openAsm`, instructions 0 … 1498, on its entry state**, for a 12-byte nonce and any additional data -/
theorem open_prefix12 (g v k rk : List Nat) (t : Nat) (dst nonce ct aad tmp : List Nat) (r0 : Nat)
    (hG : g.length = 16) (hV : v.length = 32) (hK : k.length = 8) (hrk : rk.length = 32) (hrkb : ∀ x ∈ rk, x < 2 ^ 32)
    (hn : nonce.length = 12) (hnb : ∀ x ∈ nonce, x < 2 ^ 8) (hab : ∀ x ∈ aad, x < 2 ^ 8) (hall : aad.length < 2 ^ 32)
    (htmp : tmp.length = 32) :
    ∃ s5 N, N ≤ 34 * (aad.length / 16) + 1400 ∧ Reach openR 0 (openState g v k rk t dst nonce ct aad tmp r0) 1499 s5 N ∧
      AfterPre (fun b => fmem "cipher" false rk dst nonce ct aad b) rk nonce aad (nonce ++ [0, 0, 0, 1])
        81604378624 94489280512 90194313216 s5 ∧ s5.frame = (openState g v k rk t dst nonce ct aad tmp r0).frame := by
  have e := fenv_of (openState g v k rk t dst nonce ct aad tmp r0) "cipher" false rk dst nonce ct aad tmp (open_mem ..) (open_syms ..)
    (by simp [openState, mkState, lookup]; rfl) (by simp [openState, mkState, lookup]; rfl) (by simp [openState, mkState, lookup])
    (by simp [openState, mkState, lookup]; rfl) (by simp [openState, mkState, lookup]; rfl) (by simp [openState, mkState, lookup])
    hrk (by omega) hall
  exact prefix_nonce12 openR open_prefix_slices ⟨open_lJ, open_sPreLabels, open_copyLabels⟩ _ hG hV hK rk nonce aad _ _ _ e _
    (memFam_fmem "cipher" false rk dst nonce ct aad hrk (by omega) hall) tmp htmp (open_mem ..) hrk hrkb hn hnb (by decide) hab
    (by omega) (by decide)

end SMGo.Proofs.ISAVal
