import SMGo.Proofs.ISAValGhashB4
namespace SMGo.Proofs.ISAVal
open SMGo.Model.ISAVal SMGo.Model.ISA SMGo.Model.GCM SMGo.Proofs.GCM

/-- `m` aggregated steps over the bytes `d` -/
def ghN4 (h : Nat) : Nat → Nat → List Nat → Nat
  | 0, y, _ => y
  | m + 1, y, d => ghN4 h m (ghStep4N h y (d.take 64)) (d.drop 64)

theorem seg_b4 : ((ghR.drop 98).take 33).map erasePc = b4Code := by decide +kernel
theorem seg_c0 : ((ghR.drop 132).take 1).map erasePc = [ins .CMPQ [G 2, .imm 0] 0] := by decide +kernel
theorem at_131 : ghR.drop 131 = ⟨811, .JGT, [.target 607], 0⟩ :: ghR.drop 132 := by decide +kernel
theorem at_133 : ghR.drop 133 = ⟨821, .JEQ, [.target 1008], 0⟩ :: ghR.drop 134 := by decide +kernel
theorem b4_nc : b4Code.all (fun i => !i.mn.isControl) = true := by decide +kernel

theorem ghN_lt (h : Nat) (hh : h < 2 ^ 128) : ∀ (n y : Nat) (d : List Nat), y < 2 ^ 128 → ghN h n y d < 2 ^ 128 := by
  intro n
  induction n with
  | zero => intro y d hy; exact hy
  | succ k ih => intro y d hy; exact ih _ _ (gmulR_lt hh (Nat.xor_lt_two_pow hy (rb128_lt _)))

/-- **`loopBy4` … (`loopBy1`) … `blocksEnd` … RET**: from the head of the by-4 loop with `4m + r` blocks left
    (`m ≥ 1`, `r < 4`): `m` aggregated steps, then `r` single steps, then the store -/
theorem ghLoop4 (mem : List Region) (tp h : Nat) (mem' : List Region) (htp : tp < 2 ^ 64) (r : Nat) (hr : r < 4) :
    ∀ (m : Nat) (s : State) (dp y : Nat) (d : List Nat), Ctx mem tp h s → Ctx4 h s → greg s 1 = dp → greg s 2 = 4 * m + r →
      vreg s 21 = y → y < 2 ^ 128 → 1 ≤ m → 4 * m + r < 2 ^ 63 → dp + 16 * (4 * m + r) < 2 ^ 64 →
      16 * (4 * m + r) ≤ d.length → (∀ x ∈ d, x < 2 ^ 8) →
      (∀ off n, off + n ≤ d.length → readMem mem (dp + off) n = .ok ((d.drop off).take n)) →
      writeMem mem tp (lanes 8 16 (rb128 (ghN h r (ghN4 h m y d) (d.drop (64 * m))))) = .ok mem' →
      ∃ s', runFrom ghR (34 * m + 2 + 30 * r + 8) (ghR.drop 98) s = .ok s' ∧ s'.mem = mem' := by
  intro m
  induction m with
  | zero => intro s dp y d _ _ _ _ _ _ h1; omega
  | succ k ih =>
    intro s dp y d ctx c4 hg1 hg2 hv21 hy _ hn63 hdp hd hdb hrd hwr
    have hblk : (d.take 64).length = 64 := by rw [List.length_take]; omega
    obtain ⟨s1, hrun, ctx1, c41, h1g1, h1g2, h1v21, h1lt, h1fl⟩ := ghB4_spec mem tp h s ctx c4 dp (4 * (k + 1) + r) y (d.take 64)
      hg1 hg2 hv21 hy (by omega) (by omega) hn63 (by have := hrd 0 64 (by omega); simpa using this) hblk
      (fun x hx => hdb x (List.mem_of_mem_take hx))
    have hy1 : ghStep4N h y (d.take 64) < 2 ^ 128 := by rw [← h1v21]; exact h1lt
    have hn4 : 4 * (k + 1) + r - 4 = 4 * k + r := by omega
    rw [hn4] at h1g2 h1fl
    rw [show 34 * (k + 1) + 2 + 30 * r + 8 = (34 * k + 2 + 30 * r + 8 + 1) + 33 from by omega,
      run_seg 98 33 b4Code (by decide) seg_b4 b4_nc s s1 hrun, show 98 + 33 = 131 from rfl, at_131,
      runFrom_jcc ghR _ _ s1 (34 * k + 2 + 30 * r + 8) 607 (decide (3 < 4 * k + r)) (Or.inr (Or.inl rfl)) rfl
        (by rw [h1fl]; exact cond_jgt (4 * k + r) 3 (by omega) (by decide))]
    by_cases hk : 1 ≤ k
    · -- more than three blocks left: back to the head of loopBy4
      have : 3 < 4 * k + r := by omega
      simp only [this, decide_true, if_true, ghR_targets.1]
      exact ih s1 (dp + 64) _ (d.drop 64) ctx1 c41 h1g1 h1g2 h1v21 hy1 hk (by omega) (by omega)
        (by rw [List.length_drop]; omega) (fun x hx => hdb x (List.mem_of_mem_drop hx))
        (by intro off n hoff
            rw [List.length_drop] at hoff
            rw [Nat.add_assoc, hrd (64 + off) n (by omega), List.drop_drop])
        (by rw [List.drop_drop, show 64 + 64 * k = 64 * (k + 1) from by omega]; exact hwr)
    · have hk0 : k = 0 := by omega
      subst hk0
      have : ¬ 3 < 4 * 0 + r := by omega
      simp only [this, decide_false, Bool.false_eq_true, if_false]
      -- CMPQ count, $0; JEQ blocksEnd
      have hrunC : execList [ins .CMPQ [G 2, .imm 0] 0] s1 = .ok (setFlags s1 (subF 8 (greg s1 2) (imm64 0)).2) := by
        apply exec_step
        · exact a_cmpq_imm s1 0 2 (by rw [ctx1.lenG]; decide)
        rfl
      have ctx2 := ctx1.same (Same.setFlags s1 (subF 8 (greg s1 2) (imm64 0)).2)
      rw [show 34 * 0 + 2 + 30 * r + 8 = (30 * r + 8 + 1) + 1 from by omega,
        run_seg 132 1 _ (by decide) seg_c0 (by decide) s1 _ hrunC, show 132 + 1 = 133 from rfl, at_133,
        runFrom_jcc ghR _ _ _ (30 * r + 8) 1008 (decide (r = 0)) (Or.inr (Or.inr rfl)) rfl
          (by rw [flags_setFlags, h1g2, imm64_0]; simpa using cond_jeq r 0 (by omega) (by decide))]
      simp only [ghN4] at hwr
      by_cases hr0 : r = 0
      · subst hr0
        simp only [decide_true, if_true, ghR_targets.2.2]
        simp only [ghN] at hwr
        obtain ⟨s3, hrun3, hmem3⟩ := ghE_spec mem tp h (setFlags s1 (subF 8 (greg s1 2) (imm64 0)).2) ctx2
          (ghStep4N h y (d.take 64)) mem' (by rw [vreg_setFlags]; exact h1v21) hy1 htp hwr
        rw [show 30 * 0 + 8 = 1 + 7 from rfl, run_seg 164 7 eCode (by decide) seg_e e_nc _ s3 hrun3,
          show 164 + 7 = 171 from rfl, at_171, runFrom_ret ghR _ _ s3 0 rfl rfl]
        exact ⟨s3, rfl, hmem3⟩
      · simp only [hr0, decide_false, Bool.false_eq_true, if_false]
        exact ghLoop1 mem tp h mem' htp r (setFlags s1 (subF 8 (greg s1 2) (imm64 0)).2) (dp + 64)
          (ghStep4N h y (d.take 64)) (d.drop 64) ctx2 (by rw [greg_setFlags]; exact h1g1)
          (by rw [greg_setFlags, h1g2]; omega) (by rw [vreg_setFlags]; exact h1v21) hy1 (by omega) (by omega) (by omega)
          (by rw [List.length_drop]; omega) (fun x hx => hdb x (List.mem_of_mem_drop hx))
          (by intro off hoff
              rw [List.length_drop] at hoff
              rw [Nat.add_assoc, hrd (64 + off) 16 (by omega), List.drop_drop])
          (by simpa using hwr)

end SMGo.Proofs.ISAVal
