import SMGo.Proofs.ISAValLadHash21
set_option linter.unusedSimpArgs false
namespace SMGo.Proofs.ISAVal
open SMGo.Model.ISAVal SMGo.Model.GCM SMGo.Proofs.GCM SMGo.Proofs.ISATouch
open SMGo.Model.ISA (Reg Opd Instr)

def x2ACode : List DInstr := fill2Code ++ (kern2Code ++ xs2Code)
def x1ACode : List DInstr := fill1Code ++ (kern1Code ++ xs1Code)

theorem fill2_writes : writesNone fill2Code (List.range 16) aKeepV (List.range 8) = true := by decide +kernel
theorem fill1_writes : writesNone fill1Code (List.range 16) aKeepV (List.range 8) = true := by decide +kernel
theorem xs2_writesM : writesNoneM xs2Code (List.range 16) (14 :: aKeepV) (List.range 8) = true := by decide +kernel
theorem xs1_writesM : writesNoneM xs1Code (List.range 16) (14 :: aKeepV) (List.range 8) = true := by decide +kernel

theorem ksN_two (rk jb : List Nat) (c : Nat) : ksN rk jb c 2 = encB rk (ctrBlk jb (c + 1)) ++ encB rk (ctrBlk jb (c + 2)) := by
  show encB rk (ctrBlk jb (c + 0 + 1)) ++ (encB rk (ctrBlk jb (c + 1 + 1)) ++ []) = _
  rw [List.append_nil]
theorem ksN_one (rk jb : List Nat) (c : Nat) : ksN rk jb c 1 = encB rk (ctrBlk jb (c + 1)) := by
  show encB rk (ctrBlk jb (c + 0 + 1)) ++ [] = _
  rw [List.append_nil]

theorem chunks2 (src : List Nat) (so : Nat) (hso : so + 32 ≤ src.length) :
    (src.drop so).take 32 = (src.drop (so + 0)).take 16 ++ (src.drop (so + 16)).take 16 := by
  apply List.ext_getElem
  · simp only [List.length_append, List.length_take, List.length_drop]; omega
  · intro i h1 h2
    simp only [List.length_take, List.length_drop] at h1
    simp only [List.getElem_take, List.getElem_drop, List.getElem_append, List.length_take, List.length_drop]
    split
    · rfl
    · congr 1; omega

set_option maxHeartbeats 1000000 in
/-- `loopX2` from `fillCounterX2` to the stores -/
theorem x2A_spec (s : State) (pc : PCtx s) (rk jb src : List Nat) (hrk : rk.length = 32) (hrkb : ∀ x ∈ rk, x < 2 ^ 32)
    (hjb : jb.length = 16) (hjbb : ∀ x ∈ jb, x < 2 ^ 8) (hsb : ∀ x ∈ src, x < 2 ^ 8)
    (Mf : List Nat → List Region) (dbase dlen sp : Nat) (bf : Buf Mf dbase dlen)
    (hrd : ∀ b i, b.length = dlen → i < 32 → readMem (Mf b) (73014444032 + 4 * i) 4 = .ok (lanes 8 4 (rk.getD i 0)))
    (b0 : List Nat) (hb0 : b0.length = dlen) (hm : s.mem = Mf b0) (c : Nat) (hsrc : SrcFrom (Mf b0) sp src (16 * c))
    (hctr : quadAt (vreg s 14) 0 = ctrW (Wblk jb 0) c) (h15 : greg s 15 = 73014444032)
    (h10 : greg s 10 = sp + 16 * c) (h13 : greg s 13 = dbase + 16 * c) (hso : 16 * c + 32 ≤ src.length) (hdo : 16 * c + 32 ≤ dlen)
    (hsp : sp + src.length < 2 ^ 63) (hdb : dbase + dlen < 2 ^ 63) :
    ∃ s', execList x2ACode s = .ok s' ∧
      s'.mem = Mf (spliceAt b0 (16 * c) (xorN ((src.drop (16 * c)).take 32) (ksN rk jb c 2))) ∧
      vreg s' 9 = unlanes 8 (xorN ((src.drop (16 * c + 0)).take 16) (encB rk (ctrBlk jb (c + 1)))) ∧
      vreg s' 8 = unlanes 8 (xorN ((src.drop (16 * c + 16)).take 16) (encB rk (ctrBlk jb (c + 2)))) ∧
      quadAt (vreg s' 14) 0 = ctrW (Wblk jb 0) (c + 2) ∧ greg s' 15 = 73014444032 ∧
      KeepsM aKeepG aKeepV (List.range 8) s s' := by
  obtain ⟨s1, hr1, q6, q7, q14⟩ := fill2_spec s pc.lenV pc.v16 (Wblk jb 0) (Wblk_qlt jb 0) c hctr
  have k1 := keeps_of_exec _ fill2_writes hr1
  obtain ⟨s2, hr2, lt9, o9, lt8, o8, g15, k2⟩ := kern2_spec s1 (k1.lenG.trans pc.lenG) (k1.lenV.trans pc.lenV)
    ((k1.v 10 (by decide)).trans pc.v10) ((k1.v 11 (by decide)).trans pc.v11) ((k1.v 12 (by decide)).trans pc.v12)
    _ _ q6 q7 rk hrk hrkb 73014444032 (by rw [k1.g 15 (by decide)]; exact h15) (by decide)
    (fun i hi => by rw [k1.mem, hm]; exact hrd b0 i hb0 hi)
  rw [encQ_ctr rk jb hrkb hjb hjbb] at o9 o8
  have hm2 : s2.mem = Mf b0 := by rw [k2.mem, k1.mem]; exact hm
  obtain ⟨s3, hr3, m3, r9, r8⟩ := xs2_spec s2 (k2.lenG.trans (k1.lenG.trans pc.lenG)) (k2.lenV.trans (k1.lenV.trans pc.lenV)) Mf dbase dlen bf src sp
    hsb b0 hb0 hm2 (16 * c) (16 * c) hsrc (by rw [k2.g 10 (by decide), k1.g 10 (by decide)]; exact h10)
    (by rw [k2.g 13 (by decide), k1.g 13 (by decide)]; exact h13) hso hdo hsp hdb _ _
    ⟨lt9, o9, encB_length _ _, encB_bytes _ _⟩ ⟨lt8, o8, encB_length _ _, encB_bytes _ _⟩
  have k3 := keepsM_of_exec _ xs2_writesM hr3
  refine ⟨s3, execList_append_ok hr1 (execList_append_ok hr2 hr3), ?_, r9, r8, ?_, ?_, ?_⟩
  · rw [m3, ksN_two, chunks2 src (16 * c) hso, xorN_append _ _ _ _ (by rw [encB_length, List.length_take, List.length_drop]; omega)]
  · rw [k3.v 14 (by decide), k2.v 14 (by decide)]; exact q14
  · rw [k3.g 15 (by decide)]; exact g15
  · exact ((k1.toM.mono (by decide) (fun _ h => h) (fun _ h => h)).trans (k2.toM.mono (by decide) (by decide) (fun _ h => h))).trans
      (k3.mono (by decide) (by decide) (fun _ h => h))

set_option maxHeartbeats 1000000 in
/-- `loopX1` from `fillCounterX1` to the store -/
theorem x1A_spec (s : State) (pc : PCtx s) (rk jb src : List Nat) (hrk : rk.length = 32) (hrkb : ∀ x ∈ rk, x < 2 ^ 32)
    (hjb : jb.length = 16) (hjbb : ∀ x ∈ jb, x < 2 ^ 8) (hsb : ∀ x ∈ src, x < 2 ^ 8)
    (Mf : List Nat → List Region) (dbase dlen sp : Nat) (bf : Buf Mf dbase dlen)
    (hrd : ∀ b i, b.length = dlen → i < 32 → readMem (Mf b) (73014444032 + 4 * i) 4 = .ok (lanes 8 4 (rk.getD i 0)))
    (b0 : List Nat) (hb0 : b0.length = dlen) (hm : s.mem = Mf b0) (c : Nat) (hsrc : SrcFrom (Mf b0) sp src (16 * c))
    (hctr : quadAt (vreg s 14) 0 = ctrW (Wblk jb 0) c) (h15 : greg s 15 = 73014444032)
    (h10 : greg s 10 = sp + 16 * c) (h13 : greg s 13 = dbase + 16 * c) (hso : 16 * c + 16 ≤ src.length) (hdo : 16 * c + 16 ≤ dlen)
    (hsp : sp + src.length < 2 ^ 63) (hdb : dbase + dlen < 2 ^ 63) :
    ∃ s', execList x1ACode s = .ok s' ∧
      s'.mem = Mf (spliceAt b0 (16 * c) (xorN ((src.drop (16 * c)).take 16) (ksN rk jb c 1))) ∧
      vreg s' 9 = unlanes 8 (xorN ((src.drop (16 * c)).take 16) (ksN rk jb c 1)) ∧
      quadAt (vreg s' 14) 0 = ctrW (Wblk jb 0) (c + 1) ∧ greg s' 15 = 73014444032 ∧
      KeepsM aKeepG aKeepV (List.range 8) s s' := by
  obtain ⟨s1, hr1, q6, q14⟩ := fill1_spec s pc.lenV pc.v16 (Wblk jb 0) (Wblk_qlt jb 0) c hctr
  have k1 := keeps_of_exec _ fill1_writes hr1
  obtain ⟨s2, hr2, lt9, o9, g15, k2⟩ := kern1_spec s1 (k1.lenG.trans pc.lenG) (k1.lenV.trans pc.lenV)
    ((k1.v 10 (by decide)).trans pc.v10) ((k1.v 11 (by decide)).trans pc.v11) ((k1.v 12 (by decide)).trans pc.v12)
    _ q6 rk hrk hrkb 73014444032 (by rw [k1.g 15 (by decide)]; exact h15) (by decide)
    (fun i hi => by rw [k1.mem, hm]; exact hrd b0 i hb0 hi)
  rw [encQ_ctr rk jb hrkb hjb hjbb] at o9
  have hm2 : s2.mem = Mf b0 := by rw [k2.mem, k1.mem]; exact hm
  obtain ⟨s3, hr3, m3, r9⟩ := xs1_spec s2 (k2.lenG.trans (k1.lenG.trans pc.lenG)) (k2.lenV.trans (k1.lenV.trans pc.lenV)) Mf dbase dlen bf src sp
    hsb b0 hb0 hm2 (16 * c) (16 * c) hsrc (by rw [k2.g 10 (by decide), k1.g 10 (by decide)]; exact h10)
    (by rw [k2.g 13 (by decide), k1.g 13 (by decide)]; exact h13) hso hdo hsp hdb _
    ⟨lt9, o9, encB_length _ _, encB_bytes _ _⟩
  have k3 := keepsM_of_exec _ xs1_writesM hr3
  refine ⟨s3, execList_append_ok hr1 (execList_append_ok hr2 hr3), ?_, ?_, ?_, ?_, ?_⟩
  · rw [m3, ksN_one]; rfl
  · rw [r9, ksN_one]; rfl
  · rw [k3.v 14 (by decide), k2.v 14 (by decide)]; exact q14
  · rw [k3.g 15 (by decide)]; exact g15
  · exact ((k1.toM.mono (by decide) (fun _ h => h) (fun _ h => h)).trans (k2.toM.mono (by decide) (by decide) (fun _ h => h))).trans
      (k3.mono (by decide) (by decide) (fun _ h => h))

end SMGo.Proofs.ISAVal
