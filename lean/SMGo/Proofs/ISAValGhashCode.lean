import SMGo.Proofs.ISAValGhashRun
namespace SMGo.Proofs.ISAVal
open SMGo.Model.ISAVal SMGo.Model.ISA

/-- the decoded listing of `gHashBlocks` (with its byte offsets: the branch targets refer to them) -/
def ghR : Routine := (Routine.ofListing Gen.ListAmd64Gcm.gHashBlocks).toOption.getD []

theorem ghR_ok : Routine.ofListing Gen.ListAmd64Gcm.gHashBlocks = .ok ghR := by
  have h : (Routine.ofListing Gen.ListAmd64Gcm.gHashBlocks).toOption = some ghR := by decide +kernel
  cases hr : Routine.ofListing Gen.ListAmd64Gcm.gHashBlocks with
  | error e => rw [hr] at h; simp [Except.toOption] at h
  | ok r => rw [hr] at h; simp only [Except.toOption, Option.some.injEq] at h; rw [h]

/-! ### the routine as a scheme -/

/-- prologue: arguments, H and tag loaded and bit-reflected, masks, GCM_POLY, H.lo ⊕ H.hi; `CMPQ count, $8` -/
def pCode : List DInstr :=
  [ins .MOVQ [.frame "h" 8, G 0] 0,
   ins .MOVQ [.frame "tag" 16, G 3] 0,
   ins .MOVQ [.frame "data" 24, G 1] 0,
   ins .MOVQ [.frame "count" 32, G 2] 0,
   ins .VMOVDQU32 [M 0 0, R 19] 16,
   ins .VMOVDQU32 [M 3 0, R 21] 16,
   ins .LEAQ [.sym "AND_MASK" 0, G 8] 0,
   ins .LEAQ [.sym "LOWER_MASK" 0, G 9] 0,
   ins .VBROADCASTI32X2 [M 8 0, R 22] 64,
   ins .VBROADCASTI32X4 [M 9 0, R 23] 64,
   ins .VPSLLQ [.imm 4, R 23, R 24] 64,
   ins .LEAQ [.sym "GCM_POLY" 0, G 8] 0,
   ins .VBROADCASTI32X2 [M 8 0, R 26] 64]
  ++ rbCode 16 19 1 2 ++ rbCode 16 21 1 2 ++
  [ins .VPSRLDQ [.imm 8, R 19, R 25] 16,
   ins .VPXORD [R 19, R 25, R 25] 16,
   ins .CMPQ [G 2, .imm 8] 0]

/-- `gHashBlocksLoopBy4Pre`: lane index vector, opmasks, H², H³, H⁴, the vector H⁴:H³:H²:H and its lo ⊕ hi -/
def qCode : List DInstr :=
  [ins .LEAQ [.sym "SHUFFLE_X_LANES" 0, G 8] 0,
   ins .VMOVDQU32 [M 8 0, R 31] 64,
   ins .MOVQ [.imm 12, G 8] 0,
   ins .MOVQ [.imm 240, G 9] 0,
   ins .KMOVW [G 8, K 1] 0,
   ins .KMOVW [G 9, K 2] 0]
  ++ mulRedCode 16 19 25 19 4 ++ mulRedCode 16 19 25 4 5 ++ mulRedCode 16 19 25 5 29 ++
  [ins .LEAQ [.sym "MERGE_H01" 0, G 8] 0,
   ins .LEAQ [.sym "MERGE_H23" 0, G 9] 0,
   ins .VMOVDQU32 [M 8 0, R 0] 32,
   ins .VMOVDQU32 [M 9 0, R 1] 64,
   ins .VPERMQ [R 5, R 0, K 1, R 29] 32,
   ins .VPERMQ [R 19, R 0, K 1, R 4] 32,
   ins .VPERMQ [R 4, R 1, K 2, R 29] 64,
   ins .VPSRLDQ [.imm 8, R 29, R 30] 64,
   ins .VPXORD [R 29, R 30, R 30] 64]

/-- body of `loopBy4` followed by `CMPQ count, $3` -/
def b4Code : List DInstr :=
  [ins .VMOVDQU32 [M 1 0, R 20] 64,
   ins .ADDQ [.imm 64, G 1] 0]
  ++ rbCode 64 20 0 1 ++
  [ins .VPXORD [R 21, R 20, R 20] 64]
  ++ mulRedCode 64 29 30 20 21 ++
  [ins .VPERMQ [.imm 78, R 21, R 0] 64,
   ins .VPXORD [R 21, R 0, R 0] 64,
   ins .VPERMQ [R 0, R 31, R 1] 64,
   ins .VPXORD [R 0, R 1, R 21] 16,
   ins .SUBQ [.imm 4, G 2] 0,
   ins .CMPQ [G 2, .imm 3] 0]

/-- body of `loopBy1` followed by `CMPQ count, $0` -/
def b1Code : List DInstr :=
  [ins .VMOVDQU32 [M 1 0, R 20] 16,
   ins .ADDQ [.imm 16, G 1] 0]
  ++ rbCode 16 20 0 1 ++
  [ins .VPXORD [R 21, R 20, R 20] 16]
  ++ mulRedCode 16 19 25 20 21 ++
  [ins .SUBQ [.imm 1, G 2] 0,
   ins .CMPQ [G 2, .imm 0] 0]

/-- `blocksEnd`: the tag reflected back and stored -/
def eCode : List DInstr := rbCode 16 21 1 2 ++ [ins .VMOVDQU32 [R 21, M 3 0] 16]

def jcc (mn : Mn) (pc : Nat) : DInstr := ins mn [.target pc] 0

/-- **the regenerated listing of `gHashBlocks` is this scheme** (byte offsets aside): prologue, `JLT loopBy1`,
    the powers, `loopBy4`, `JGT loopBy4`, `CMPQ $0; JEQ blocksEnd`, `loopBy1`, `JGT loopBy1`, `blocksEnd`, RET -/
theorem ghR_scheme :
    ghR.map erasePc = pCode ++ [jcc .JLT 827] ++ qCode ++ b4Code ++ [jcc .JGT 607, ins .CMPQ [G 2, .imm 0] 0, jcc .JEQ 1008]
      ++ b1Code ++ [jcc .JGT 827] ++ eCode ++ [ins .RET [] 0, ins .NOP [] 0] := by
  decide +kernel

theorem seg_lengths : pCode.length = 28 ∧ qCode.length = 69 ∧ b4Code.length = 33 ∧ b1Code.length = 29 ∧ eCode.length = 7 := by
  decide +kernel

/-- the three branch targets -/
theorem ghR_targets :
    findPc ghR 607 = some (ghR.drop 98) ∧ findPc ghR 827 = some (ghR.drop 134) ∧ findPc ghR 1008 = some (ghR.drop 164) := by
  decide +kernel

end SMGo.Proofs.ISAVal
