import SMGo.Proofs.ISAValLadXs8
set_option linter.unusedSimpArgs false
namespace SMGo.Proofs.ISAVal
open SMGo.Model.ISAVal SMGo.Model.GCM SMGo.Proofs.GCM SMGo.Proofs.ISATouch
open SMGo.Model.ISA (Reg Opd Instr)

/-- `loopX4`: xor with 64 input bytes, concatenation to one Z register, store -/
def xs4Code : List DInstr :=
  [ins .VMOVDQU32 [M 10 0, R 1] 16, ins .VMOVDQU32 [M 10 16, R 2] 16, ins .VMOVDQU32 [M 10 32, R 3] 16, ins .VMOVDQU32 [M 10 48, R 4] 16,
   ins .VPXORD [R 1, R 9, R 9] 16, ins .VPXORD [R 2, R 8, R 8] 16, ins .VPXORD [R 3, R 7, R 7] 16, ins .VPXORD [R 4, R 6, R 6] 16,
   ins .VMOVDQA64 [R 9, R 0] 16, ins .VMOVDQA64 [R 8, R 1] 16, ins .VMOVDQA64 [R 7, R 2] 16, ins .VMOVDQA64 [R 6, R 3] 16,
   ins .VALIGND [.imm 4, R 0, R 1, R 1] 32, ins .VPADDD [R 0, R 1, R 0] 32,
   ins .VALIGND [.imm 4, R 2, R 3, R 3] 32, ins .VPADDD [R 2, R 3, R 2] 32,
   ins .VALIGND [.imm 8, R 0, R 2, R 2] 64, ins .VPADDD [R 0, R 2, R 9] 64,
   ins .VMOVDQU32 [R 9, M 13 0] 64]

theorem catV_form32 (a b : Nat) (ha : a < 2 ^ (8 * 16)) (hb : b < 2 ^ (8 * 16)) :
    map2 32 (32 / 4) (fun x y => (y + x) % 2 ^ 32) (a % 2 ^ (8 * 16))
      ((((b % 2 ^ (8 * 16)) * 2 ^ (8 * 32) + (a % 2 ^ (8 * 16)) % 2 ^ (8 * 32)) >>> (32 * (imm64 4 % 256 % (32 / 4)))) % 2 ^ (8 * 32))
      = catV 32 a b := by
  rw [Nat.mod_eq_of_lt ha, Nat.mod_eq_of_lt hb, imm4_8]; rfl

theorem catV_form64' (a b : Nat) :
    map2 32 (64 / 4) (fun x y => (y + x) % 2 ^ 32) a
      (((b * 2 ^ (8 * 64) + a % 2 ^ (8 * 64)) >>> (32 * (imm64 8 % 256 % (64 / 4)))) % 2 ^ (8 * 64))
      = catV 64 a b := by
  rw [imm8_16]; rfl

set_option maxRecDepth 100000 in
set_option maxHeartbeats 1000000 in
theorem xs4_spec (s : State) (hG : s.gpr.length = 16) (hV : s.vec.length = 32) (Mf : List Nat → List Region) (dbase dlen : Nat)
    (bf : Buf Mf dbase dlen) (src : List Nat) (sp : Nat) (hsb : ∀ x ∈ src, x < 2 ^ 8)
    (b0 : List Nat) (hb0 : b0.length = dlen) (hm : s.mem = Mf b0) (so doff : Nat) (hsrc : SrcFrom (Mf b0) sp src so) (h10 : greg s 10 = sp + so) (h13 : greg s 13 = dbase + doff)
    (hso : so + 64 ≤ src.length) (hdo : doff + 64 ≤ dlen) (hsp : sp + src.length < 2 ^ 63) (hdb : dbase + dlen < 2 ^ 63)
    (ks : Nat → List Nat) (hks : ∀ r, r < 4 → vreg s (9 - r) < 2 ^ (8 * 16) ∧ lanes 8 16 (vreg s (9 - r)) = ks r ∧ (ks r).length = 16 ∧
      ∀ x ∈ ks r, x < 2 ^ 8) :
    ∃ s', execList xs4Code s = .ok s' ∧
      s'.mem = Mf (spliceAt b0 doff ((xorN ((src.drop (so + 0)).take 16) (ks 0) ++ xorN ((src.drop (so + 16)).take 16) (ks 1)) ++
        (xorN ((src.drop (so + 32)).take 16) (ks 2) ++ xorN ((src.drop (so + 48)).take 16) (ks 3)))) ∧
      vreg s' 9 = unlanes 8 ((xorN ((src.drop (so + 0)).take 16) (ks 0) ++ xorN ((src.drop (so + 16)).take 16) (ks 1)) ++
        (xorN ((src.drop (so + 32)).take 16) (ks 2) ++ xorN ((src.drop (so + 48)).take 16) (ks 3))) := by
  have h64 : validVl 64 = true := by decide
  have h32 : validVl 32 = true := by decide
  have h16 : validVl 16 = true := by decide
  obtain ⟨gpr, vec, k, fl, mem, syms, frame⟩ := s
  simp only at hG hV hm
  obtain ⟨a0, a1, a2, a3, a4, a5, a6, a7, a8, a9, a10, a11, a12, a13, a14, a15, rfl⟩ := list16 gpr hG
  obtain ⟨b0', b1, b2, b3, b4, b5, b6, b7, b8, b9, b10, b11, b12, b13, b14, b15, b16, b17, b18, b19, b20, b21, b22, b23, b24, b25, b26, b27, b28, b29, b30, b31, rfl⟩ := list32 vec hV
  simp only [greg, List.getD_cons_succ, List.getD_cons_zero] at h10 h13
  subst h10 h13 hm
  have k0 := hks 0 (by decide); have k1 := hks 1 (by decide); have k2 := hks 2 (by decide); have k3 := hks 3 (by decide)
  simp only [vreg, List.getD_cons_succ, List.getD_cons_zero, Nat.sub_zero, Nat.reduceSub] at k0 k1 k2 k3
  let c0 := (src.drop (so + 0)).take 16
  let c1 := (src.drop (so + 16)).take 16
  let c2 := (src.drop (so + 32)).take 16
  let c3 := (src.drop (so + 48)).take 16
  have hc : ∀ a, a + 16 ≤ 64 → ((src.drop (so + a)).take 16).length = 16 ∧ ∀ x ∈ (src.drop (so + a)).take 16, x < 2 ^ 8 := by
    intro a ha
    exact ⟨by rw [List.length_take, List.length_drop]; omega, fun x hx => hsb x (List.mem_of_mem_drop (List.mem_of_mem_take hx))⟩
  have hrd : ∀ a, a + 16 ≤ 64 → readMem (Mf b0) (sp + so + a) 16 = .ok ((src.drop (so + a)).take 16) := by
    intro a ha
    rw [Nat.add_assoc]; exact hsrc (so + a) 16 (by omega) (by omega)
  have x0 := vpxord_bytes 16 c0 (ks 0) b9 (by decide) (hc 0 (by omega)).1 (hc 0 (by omega)).2 k0.1 k0.2.1
  have x1 := vpxord_bytes 16 c1 (ks 1) b8 (by decide) (hc 16 (by omega)).1 (hc 16 (by omega)).2 k1.1 k1.2.1
  have x2 := vpxord_bytes 16 c2 (ks 2) b7 (by decide) (hc 32 (by omega)).1 (hc 32 (by omega)).2 k2.1 k2.2.1
  have x3 := vpxord_bytes 16 c3 (ks 3) b6 (by decide) (hc 48 (by omega)).1 (hc 48 (by omega)).2 k3.1 k3.2.1
  let o0 := xorN c0 (ks 0); let o1 := xorN c1 (ks 1); let o2 := xorN c2 (ks 2); let o3 := xorN c3 (ks 3)
  have ol : ∀ (c kk : List Nat), c.length = 16 → kk.length = 16 → (xorN c kk).length = 16 := by
    intro c kk h1 h2; rw [xorN_length, h1, h2]; rfl
  have l0 : o0.length = 16 := ol _ _ (hc 0 (by omega)).1 k0.2.2.1
  have l1 : o1.length = 16 := ol _ _ (hc 16 (by omega)).1 k1.2.2.1
  have l2 : o2.length = 16 := ol _ _ (hc 32 (by omega)).1 k2.2.2.1
  have l3 : o3.length = 16 := ol _ _ (hc 48 (by omega)).1 k3.2.2.1
  have ob0 : ∀ x ∈ o0, x < 2 ^ 8 := xorN_bytes _ _ (hc 0 (by omega)).2 k0.2.2.2
  have ob1 : ∀ x ∈ o1, x < 2 ^ 8 := xorN_bytes _ _ (hc 16 (by omega)).2 k1.2.2.2
  have ob2 : ∀ x ∈ o2, x < 2 ^ 8 := xorN_bytes _ _ (hc 32 (by omega)).2 k2.2.2.2
  have ob3 : ∀ x ∈ o3, x < 2 ^ 8 := xorN_bytes _ _ (hc 48 (by omega)).2 k3.2.2.2
  have ult : ∀ (o : List Nat), o.length = 16 → (∀ x ∈ o, x < 2 ^ 8) → unlanes 8 o < 2 ^ (8 * 16) := by
    intro o hl hb; have := unlanes_lt 8 o hb; rw [hl] at this; exact this
  have app_b : ∀ (x y : List Nat), (∀ b ∈ x, b < 2 ^ 8) → (∀ b ∈ y, b < 2 ^ 8) → ∀ b ∈ x ++ y, b < 2 ^ 8 := by
    intro x y hx hy b hb; rw [List.mem_append] at hb; rcases hb with h | h
    · exact hx b h
    · exact hy b h
  have cat01 := (catV_form32 (unlanes 8 o0) (unlanes 8 o1) (ult o0 l0 ob0) (ult o1 l1 ob1)).trans
    (catV_unlanes 32 o0 o1 (by decide) l0 l1 ob0 ob1)
  have cat23 := (catV_form32 (unlanes 8 o2) (unlanes 8 o3) (ult o2 l2 ob2) (ult o3 l3 ob3)).trans
    (catV_unlanes 32 o2 o3 (by decide) l2 l3 ob2 ob3)
  have catAll := (catV_form64' (unlanes 8 (o0 ++ o1)) (unlanes 8 (o2 ++ o3))).trans
    (catV_unlanes 64 (o0 ++ o1) (o2 ++ o3) (by decide) (by rw [List.length_append, l0, l1]) (by rw [List.length_append, l2, l3])
      (app_b _ _ ob0 ob1) (app_b _ _ ob2 ob3))
  have lnA : lanes 8 64 (unlanes 8 ((o0 ++ o1) ++ (o2 ++ o3))) = (o0 ++ o1) ++ (o2 ++ o3) :=
    lanes_unlanes 8 64 _ (app_b _ _ (app_b _ _ ob0 ob1) (app_b _ _ ob2 ob3)) (by simp only [List.length_append, l0, l1, l2, l3])
  apply Exists.intro
  apply And.intro
  · unfold xs4Code
    apply exec_step
    · exact execD_vmov_load (hvl := h16) (hb := by rfl) (hd := by simp)
        (hload := by rw [show (sp + so + 0 + imm64 0) % 2 ^ 64 = sp + so + 0 from ea_nat _ 0 (by omega)]; exact hrd 0 (by omega)) ..
    apply exec_step
    · exact execD_vmov_load (hvl := h16) (hb := by rfl) (hd := by simp)
        (hload := by rw [show (sp + so + 0 + imm64 16) % 2 ^ 64 = sp + so + 16 from ea_nat _ 16 (by omega)]; exact hrd 16 (by omega)) ..
    apply exec_step
    · exact execD_vmov_load (hvl := h16) (hb := by rfl) (hd := by simp)
        (hload := by rw [show (sp + so + 0 + imm64 32) % 2 ^ 64 = sp + so + 32 from ea_nat _ 32 (by omega)]; exact hrd 32 (by omega)) ..
    apply exec_step
    · exact execD_vmov_load (hvl := h16) (hb := by rfl) (hd := by simp)
        (hload := by rw [show (sp + so + 0 + imm64 48) % 2 ^ 64 = sp + so + 48 from ea_nat _ 48 (by omega)]; exact hrd 48 (by omega)) ..
    vstepv h16; vstepv h16; vstepv h16; vstepv h16
    simp only [List.set_cons_succ, List.set_cons_zero]
    rw [x0.2, x1.2, x2.2, x3.2]
    apply exec_step
    · exact execD_vmovreg (hmn := Or.inr rfl) (hvl := by rfl) (ha := by rfl) (hd := by simp) ..
    apply exec_step
    · exact execD_vmovreg (hmn := Or.inr rfl) (hvl := by rfl) (ha := by rfl) (hd := by simp) ..
    apply exec_step
    · exact execD_vmovreg (hmn := Or.inr rfl) (hvl := by rfl) (ha := by rfl) (hd := by simp) ..
    apply exec_step
    · exact execD_vmovreg (hmn := Or.inr rfl) (hvl := by rfl) (ha := by rfl) (hd := by simp) ..
    vstepv h32; vstepv h32
    simp only [List.set_cons_succ, List.set_cons_zero]
    rw [cat01]
    vstepv h32; vstepv h32
    simp only [List.set_cons_succ, List.set_cons_zero]
    rw [cat23]
    vstepv h64; vstepv h64
    simp only [List.set_cons_succ, List.set_cons_zero]
    rw [catAll]
    apply exec_step
    · exact execD_vmov_store (hvl := h64) (hb := by rfl) (ha := by rfl) (mem' := Mf (spliceAt b0 doff ((o0 ++ o1) ++ (o2 ++ o3))))
        (hstore := by rw [show (dbase + doff + 0 + imm64 0) % 2 ^ 64 = dbase + doff + 0 from ea_nat _ 0 (by omega), lnA, Nat.add_zero]
                      exact bf.wr b0 doff _ hb0 (by simp only [List.length_append, l0, l1, l2, l3]; omega)) ..
    exact execList_nil _
  refine ⟨rfl, ?_⟩
  simp only [vreg, List.getD_cons_succ, List.getD_cons_zero]
  rfl

end SMGo.Proofs.ISAVal
