/-
  Lemmas for property C14: `ScalarMixedMult_Unsafe` (the 6-3-14-4 comb for the base point
  interleaved with the signed 4-NAF digits of the second scalar) computes `[g]G + [s]P`.
-/
import SMGo.Proofs.CurveSem
import SMGo.Proofs.CurveBase
import SMGo.Proofs.CurveMult
import SMGo.Props.C20
namespace SMGo.Proofs.CurveMixed
open SMGo SMGo.Model.Curve SMGo.Proofs.CurveBits SMGo.Proofs.CurveSem SMGo.Proofs.CurveBase
  SMGo.Proofs.CurveMult SMGo.Proofs.UtilsNaf

variable {Γ : Type} {A : Type} [AddCommGroup A]
variable {G : GOps Γ} {ok : Γ → Prop} {okXY : List Nat → List Nat → Prop} {sem : Γ → A}

theorem idx_getD {α : Type} (l : List α) (i : Nat) (h : i < l.length) (d : α) :
    Outcome.idx l i = .ok (l.getD i d) := by
  simp [Outcome.idx, List.getElem?_eq_getElem h, List.getD_eq_getElem?_getD]

theorem idx_getElem {α : Type} (l : List α) (i : Nat) (h : i < l.length) :
    Outcome.idx l i = .ok l[i] := by
  simp [Outcome.idx, List.getElem?_eq_getElem h]

theorem ite_bind {α β : Type} (c : Prop) [Decidable c] (x y : Outcome α) (f : α → Outcome β) :
    (if c then x >>= f else y >>= f) = ((if c then x else y) >>= f) := by
  split <;> rfl

/-! ### the three parts of one iteration -/

/-- `if i < iterations { for j … { if bits > 0 { ret.Add(ret, table[j][bits-1]); skip = false } } }` -/
def combPart (G : GOps Γ) (gScalar : Bytes) (first : List Table) (i : Nat) (st : Γ × Bool) :
    Outcome (Γ × Bool) :=
  if i < 14 then
    (List.range 3).foldlM (fun (st : Γ × Bool) j => do
      let bits ← extractHigherBits gScalar (i + j * 14 + 4) 6 42
      if bits > 0 then
        let tb := first.getD j []
        let x ← Outcome.idx (tb.getD 0 []) (bits - 1)
        let y ← Outcome.idx (tb.getD 1 []) (bits - 1)
        pure (G.add st.1 (G.fromXY x y), false)
      else pure st) st
  else pure st

/-- the NAF digit `d` of the iteration -/
def digitPart (G : GOps Γ) (pre : List Γ) (d : Int) (st : Γ × Bool) : Outcome (Γ × Bool) := do
  let (ret, skip) := st
  if d = 0 then pure (ret, skip) else do
    let tmp ←
      if d > 0 then Outcome.idx pre ((d.toNat - 1) / 2)
      else (Outcome.idx pre (((-d).toNat - 1) / 2)).bind (fun q => .ok (G.negate q))
    if skip then pure (tmp, false) else pure (G.add ret tmp, false)

theorem mixedStep_eq (G : GOps Γ) (gScalar : Bytes) (first : List Table) (pre : List Γ) (naf : List Int)
    (st : Γ × Bool) (i : Nat) :
    mixedStep G gScalar first pre naf st i
      = (combPart G gScalar first i ((if !st.2 then G.double st.1 else st.1), st.2) >>= fun st1 =>
          Outcome.idx naf i >>= fun d => digitPart G pre d st1) := by
  obtain ⟨ret, skip⟩ := st
  unfold mixedStep combPart
  by_cases hi : i < 14
  · simp only [if_pos hi]; rfl
  · simp only [if_neg hi]; rfl

theorem pair_ite (b : Bool) (x y : Γ) :
    ((if !b then x else y), b) = (if !b then (x, b) else (y, b)) := by cases b <;> rfl

/-- the comb part adds `combRow i` times `g` (nothing for `i ≥ 14`) -/
theorem combPart_spec (S : Sem G ok okXY sem) {g : A} {first : List Table}
    (T : TableValid G okXY sem g first 6 3 14 4) (k : Bytes) (hk : k.length = 32)
    (i : Nat) (st : Γ × Bool) (v : A) (h : Inv ok sem st v) :
    ∃ st', combPart G k first i st = .ok st' ∧
      Inv ok sem st' (v + (if i < 14 then combRow (Bytes.toNatBE k) 6 3 14 4 i else 0) • g) := by
  unfold combPart
  by_cases hi : i < 14
  · rw [if_pos hi, if_pos hi]
    unfold combRow
    refine foldlM_range_inv _
      (fun m st' => Inv ok sem st' (v + sumN m (fun j => combMultiplier 6 3 14 4 j
          (combDigit (Bytes.toNatBE k) 6 42 (i + j * 14 + 4))) • g)) 3 st
      (by simpa using h) ?_
    intro j st1 hj h1
    have hx := extractHigherBits_eq k hk (i + j * 14 + 4) 6 42 (by decide)
      (fun t ht => by have := pos_lt 6 3 14 4 i j t hi hj ht; omega)
    have hlt := combDigit_lt (Bytes.toNatBE k) 6 42 (i + j * 14 + 4)
    simp only [hx, Outcome.bind_ok]
    rw [sumN_succ, add_nsmul, ← add_assoc]
    generalize combDigit (Bytes.toNatBE k) 6 42 (i + j * 14 + 4) = bits at hlt ⊢
    by_cases hb : bits > 0
    · rw [if_pos hb]
      have hlx := T.lenX j hj
      have hly := T.lenY j hj
      unfold subX at hlx
      unfold subY at hly
      rw [idx_getD _ (bits - 1) (by rw [hlx]; omega) [], idx_getD _ (bits - 1) (by rw [hly]; omega) []]
      simp only [Outcome.bind_ok, Outcome.pure_eq]
      refine ⟨_, rfl, ?_⟩
      have hv := T.val j hj bits hb hlt
      have hw := S.fromXY_ok _ _ (T.wf j hj (bits - 1) (by omega))
      unfold subX subY at hv hw
      rw [← hv]
      exact inv_add S st1 _ h1 _ hw
    · rw [if_neg hb]
      have : bits = 0 := by omega
      subst this
      rw [combMultiplier_zero, zero_nsmul, add_zero]
      exact ⟨st1, rfl, h1⟩
  · rw [if_neg hi, if_neg hi, zero_nsmul, add_zero]
    exact ⟨st, rfl, h⟩

/-- `if skip { ret.Set(tmp); skip = false } else { ret.Add(ret, tmp) }` -/
theorem inv_set_or_add (S : Sem G ok okXY sem) (st : Γ × Bool) (v : A) (h : Inv ok sem st v)
    (tmp : Γ) (ht : ok tmp) :
    Inv ok sem (if st.2 then (tmp, false) else (G.add st.1 tmp, false)) (v + sem tmp) := by
  have := inv_add_or_set S st v h tmp ht
  obtain ⟨ret, skip⟩ := st
  cases skip <;> simpa using this

/-- a digit of the signed 4-NAF: zero, or odd with absolute value below 16 -/
def DigitOk (d : Int) : Prop := d = 0 ∨ (d % 2 ≠ 0 ∧ d.natAbs < 16)

/-- the digit part adds `d` times `P`, with `pre = [P, 3P, …, 15P]` -/
theorem digitPart_spec (S : Sem G ok okXY sem) (x : A) (pre : List Γ) (hl : pre.length = 8)
    (hA : Arith G ok sem x 1 2 pre) (d : Int) (hd : DigitOk d)
    (st : Γ × Bool) (v : A) (h : Inv ok sem st v) :
    ∃ st', digitPart G pre d st = .ok st' ∧ Inv ok sem st' (v + d • x) := by
  unfold digitPart
  obtain ⟨ret, skip⟩ := st
  by_cases h0 : d = 0
  · simp only [if_pos h0]
    rw [h0, zero_zsmul, add_zero]
    exact ⟨_, rfl, h⟩
  · simp only [if_neg h0]
    rw [ite_bind]
    have hd' : d % 2 ≠ 0 ∧ d.natAbs < 16 := by
      rcases hd with hd | hd
      · exact absurd hd h0
      · exact hd
    suffices hs : ∃ tmp, (if d > 0 then Outcome.idx pre ((d.toNat - 1) / 2)
        else (Outcome.idx pre (((-d).toNat - 1) / 2)).bind (fun q => .ok (G.negate q))) = .ok tmp ∧
        ok tmp ∧ sem tmp = d • x by
      obtain ⟨tmp, e, ho, hs⟩ := hs
      rw [e]
      simp only [Outcome.bind_ok]
      have := inv_set_or_add S (ret, skip) v h tmp ho
      rw [hs] at this
      cases skip <;> exact ⟨_, rfl, this⟩
    by_cases hpos : d > 0
    · rw [if_pos hpos]
      have hi : (d.toNat - 1) / 2 < pre.length := by rw [hl]; omega
      obtain ⟨o1, s1⟩ := hA _ hi
      refine ⟨_, idx_getD pre _ hi G.infinity, o1, ?_⟩
      rw [s1]
      have e : 1 + (d.toNat - 1) / 2 * 2 = d.toNat := by omega
      rw [e, ← natCast_zsmul, Int.toNat_of_nonneg (by omega)]
    · rw [if_neg hpos]
      have hi : ((-d).toNat - 1) / 2 < pre.length := by rw [hl]; omega
      obtain ⟨o1, s1⟩ := hA _ hi
      obtain ⟨o2, s2⟩ := S.neg _ o1
      rw [idx_getD pre _ hi G.infinity]
      refine ⟨_, rfl, o2, ?_⟩
      rw [s2, s1]
      have e : 1 + ((-d).toNat - 1) / 2 * 2 = (-d).toNat := by omega
      rw [e, ← natCast_zsmul, Int.toNat_of_nonneg (by omega), neg_zsmul, neg_neg]

/-- the table `P, 3P, …, 15P` -/
theorem pre8_spec (S : Sem G ok okXY sem) (P : Γ) (hP : ok P) :
    ((List.range 7).foldl (fun (l : List Γ) _ => l ++ [G.add (l.getLastD P) (G.double P)]) [P]).length = 8 ∧
    Arith G ok sem (sem P) 1 2
      ((List.range 7).foldl (fun (l : List Γ) _ => l ++ [G.add (l.getLastD P) (G.double P)]) [P]) := by
  obtain ⟨o2, s2⟩ := S.double P hP
  have hA : Arith G ok sem (sem P) 1 2 [P] := by
    intro i hi
    have : i = 0 := by simp at hi; omega
    subst this
    refine ⟨hP, ?_⟩
    show sem P = (1 + 0 * 2) • sem P
    rw [Nat.zero_mul, Nat.add_zero, one_nsmul]
  exact build_spec S (sem P) 1 2 P (G.double P) o2 (by rw [s2, two_nsmul]) [P] (by simp) hA 7

/-! ### the main loop -/

/-- what iteration `i` contributes to the multiple of `g`, weighted -/
def gTerm (n i : Nat) : Nat := 2 ^ i * (if i < 14 then combRow n 6 3 14 4 i else 0)

set_option exponentiation.threshold 300 in
theorem mixedLoop_spec (S : Sem G ok okXY sem) {g : A} {first : List Table}
    (T : TableValid G okXY sem g first 6 3 14 4) (k : Bytes) (hk : k.length = 32)
    (x : A) (pre : List Γ) (hl : pre.length = 8) (hA : Arith G ok sem x 1 2 pre)
    (naf : List Int) (hn : naf.length = 257) (hd : ∀ i (h : i < naf.length), DigitOk naf[i]) :
    ∃ st', (List.range 257).foldlM (fun st ii => mixedStep G k first pre naf st (256 - ii)) (G.infinity, true)
        = .ok st' ∧ ok st'.1 ∧
      sem st'.1 = sumN 257 (gTerm (Bytes.toNatBE k)) • g + Spec.Utils.nafValue naf • x := by
  obtain ⟨st', e, a, b, hinv, ha, hb⟩ := foldlM_range_inv
    (fun st ii => mixedStep G k first pre naf st (256 - ii))
    (fun m st' => ∃ (a : Nat) (b : Int), Inv ok sem st' (a • g + b • x) ∧
      a * 2 ^ (257 - m) + sumN (257 - m) (gTerm (Bytes.toNatBE k)) = sumN 257 (gTerm (Bytes.toNatBE k)) ∧
      b = Spec.Utils.nafValue (naf.drop (257 - m)))
    257 (G.infinity, true)
    ⟨0, 0, by rw [zero_nsmul, zero_zsmul, add_zero]; exact inv_init S, by rw [Nat.zero_mul, Nat.zero_add], by
      rw [List.drop_of_length_le (by omega)]; rfl⟩
    (by
      intro m st1 hm ⟨a, b, h1, ha, hb⟩
      have hi : 256 - m < naf.length := by omega
      have h2 := inv_double S st1 _ h1
      rw [← pair_ite] at h2
      obtain ⟨st2, e2, h3⟩ := combPart_spec S T k hk (256 - m) _ _ h2
      obtain ⟨st3, e3, h4⟩ := digitPart_spec S x pre hl hA naf[256 - m] (hd _ hi) st2 _ h3
      refine ⟨st3, ?_, a + a + (if 256 - m < 14 then combRow (Bytes.toNatBE k) 6 3 14 4 (256 - m) else 0),
        naf[256 - m] + 2 * b, ?_, ?_, ?_⟩
      · rw [mixedStep_eq, e2, Outcome.bind_ok, idx_getElem naf _ hi, Outcome.bind_ok, e3]
      · refine h4.congr ?_
        rw [add_nsmul, add_nsmul, add_zsmul, Int.two_mul, add_zsmul]
        ac_rfl
      · rw [← ha]
        have e1 : 257 - m = (256 - m) + 1 := by omega
        have e3 : 257 - (m + 1) = 256 - m := by omega
        rw [e1, e3, sumN_succ, Nat.pow_succ]
        unfold gTerm
        generalize 2 ^ (256 - m) = P
        generalize (if 256 - m < 14 then combRow (Bytes.toNatBE k) 6 3 14 4 (256 - m) else 0) = R
        generalize sumN (256 - m) _ = Q
        rw [Nat.add_mul, Nat.add_mul, ← Nat.mul_assoc, Nat.mul_comm P R]
        omega
      · have e3 : 257 - (m + 1) = 256 - m := by omega
        rw [e3, List.drop_eq_getElem_cons hi, hb]
        have e4 : 256 - m + 1 = 257 - m := by omega
        rw [e4]; rfl)
  refine ⟨st', e, hinv.1, ?_⟩
  rw [hinv.2.1]
  simp only [Nat.sub_self, Nat.pow_zero, Nat.mul_one, sumN_zero, Nat.add_zero, List.drop_zero] at ha hb
  rw [ha, hb]

/-- only the 14 comb iterations contribute to the multiple of `g` -/
theorem gTerm_sum (n : Nat) :
    sumN 257 (gTerm n) = sumN 14 (fun i => 2 ^ i * combRow n 6 3 14 4 i) := by
  rw [sumN_zero_tail (n := 14) (by decide) (fun i hi => by unfold gTerm; rw [if_neg (by omega), Nat.mul_zero])]
  exact sumN_congr (fun i hi => by unfold gTerm; rw [if_pos hi])

/-! ### the whole routine -/

/-- the last step: the low 4 bits of gScalar from the remainder table -/
def mixedFinal (G : GOps Γ) (gScalar : Bytes) (second : Table) (ret : Γ) : Outcome Γ := do
  let bits ← extractLowerBits gScalar 4
  if bits > 0 then do
    let x ← Outcome.idx (second.getD 0 []) (bits - 1)
    let y ← Outcome.idx (second.getD 1 []) (bits - 1)
    pure (G.add ret (G.fromXY x y))
  else pure ret

theorem scalarMixedMult_eq (G : GOps Γ) (gScalar : Bytes) (P : Γ) (scalar : Bytes)
    (first : List Table) (second : Table) :
    scalarMixedMult G gScalar P scalar first second
      = (Model.Utils.decomposeNAF (some (List.replicate 257 0)) (some scalar) 257 4 >>= fun naf =>
          (List.range 257).foldlM (fun st ii => mixedStep G gScalar first
            ((List.range 7).foldl (fun (l : List Γ) _ => l ++ [G.add (l.getLastD P) (G.double P)]) [P])
            naf st (256 - ii)) (G.infinity, true) >>= fun st =>
          mixedFinal G gScalar second st.1) := rfl

theorem mixedFinal_spec (S : Sem G ok okXY sem) {g : A} {second : Table}
    (R : RemainderValid G okXY sem g second 4) (k : Bytes) (hk : k.length = 32)
    (ret : Γ) (hr : ok ret) :
    ∃ q, mixedFinal G k second ret = .ok q ∧ ok q ∧ sem q = sem ret + (Bytes.toNatBE k % 2 ^ 4) • g := by
  unfold mixedFinal
  rw [extractLowerBits_eq k hk 4 (by decide)]
  simp only [Outcome.bind_ok]
  have hlt : Bytes.toNatBE k % 2 ^ 4 < 2 ^ 4 := Nat.mod_lt _ (by decide)
  generalize Bytes.toNatBE k % 2 ^ 4 = bits at hlt ⊢
  by_cases hb : bits > 0
  · rw [if_pos hb]
    rw [idx_getD _ (bits - 1) (by rw [R.lenX]; omega) [], idx_getD _ (bits - 1) (by rw [R.lenY]; omega) []]
    simp only [Outcome.bind_ok, Outcome.pure_eq]
    have hw := S.fromXY_ok _ _ (R.wf (bits - 1) (by omega))
    obtain ⟨a1, a2⟩ := S.add ret _ hr hw
    refine ⟨_, rfl, a1, ?_⟩
    rw [a2, R.val bits hb hlt]
  · rw [if_neg hb]
    have : bits = 0 := by omega
    subst this
    exact ⟨ret, rfl, hr, by rw [zero_nsmul, add_zero]⟩

theorem digits_ok_of_digitsOk (ds : List Int) (h : Spec.Utils.digitsOk 4 ds = true) :
    ∀ i (hi : i < ds.length), DigitOk ds[i] := by
  intro i hi
  unfold Spec.Utils.digitsOk at h
  rw [List.all_eq_true] at h
  have := h ds[i] (List.getElem_mem hi)
  unfold DigitOk
  simp only [Bool.or_eq_true, beq_iff_eq, Bool.and_eq_true, bne_iff_ne, ne_eq, decide_eq_true_eq] at this
  rcases this with h0 | ⟨h1, h2⟩
  · exact Or.inl h0
  · exact Or.inr ⟨h1, by simpa using h2⟩

theorem scalarMixedMult_spec (S : Sem G ok okXY sem) {g : A} {first : List Table} {second : Table}
    (T : TableValid G okXY sem g first 6 3 14 4) (R : RemainderValid G okXY sem g second 4)
    (gScalar : Bytes) (hg : gScalar.length = 32) (P : Γ) (hP : ok P) (scalar : Bytes) (hs : scalar.length = 32) :
    ∃ q, scalarMixedMult G gScalar P scalar first second = .ok q ∧ ok q ∧
      sem q = Bytes.toNatBE gScalar • g + Bytes.toNatBE scalar • sem P := by
  obtain ⟨ds, hnaf, hlen, hdig, _, hval⟩ := Props.C20.naf_spec scalar hs 4 (by decide)
  obtain ⟨hl, hA⟩ := pre8_spec S P hP
  rw [scalarMixedMult_eq]
  generalize (List.range 7).foldl (fun (l : List Γ) _ => l ++ [G.add (l.getLastD P) (G.double P)]) [P] = pre
    at hl hA ⊢
  have hnaf' : Model.Utils.decomposeNAF (some (List.replicate 257 0)) (some scalar) 257 4 = .ok ds := hnaf
  rw [hnaf', Outcome.bind_ok]
  obtain ⟨st', e, hok, hsem⟩ := mixedLoop_spec S T gScalar hg (sem P) pre hl hA ds hlen
    (digits_ok_of_digitsOk ds hdig)
  rw [e, Outcome.bind_ok]
  obtain ⟨q, eq, hq, hsq⟩ := mixedFinal_spec S R gScalar hg st'.1 hok
  refine ⟨q, eq, hq, ?_⟩
  have hpart := comb_partition (Bytes.toNatBE gScalar) 6 3 14 4 (toNatBE_lt_256 gScalar hg)
  rw [hsq, hsem, gTerm_sum, hval, natCast_zsmul, add_right_comm, ← add_nsmul, hpart]

/-- a second scalar shorter than 32 bytes makes the recoding index out of range: a panic -/
theorem scalarMixedMult_short (G : GOps Γ) (gScalar : Bytes) (P : Γ) (scalar : Bytes)
    (first : List Table) (second : Table) (hs : scalar.length < 32) :
    scalarMixedMult G gScalar P scalar first second = .panic := by
  rw [scalarMixedMult_eq]
  have h := Props.C20.naf_short_input_panics (List.replicate 257 0) scalar hs 4 (by decide)
  have h' : Model.Utils.decomposeNAF (some (List.replicate 257 0)) (some scalar) 257 4 = .panic := h
  rw [h']
  rfl

end SMGo.Proofs.CurveMixed
