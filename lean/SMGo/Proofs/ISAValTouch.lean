/-
  The registers, flags and memory that one instruction of the value semantics (`SMGo.Model.ISAVal.execD`, `stepD`)
  touches: `touchesOf`, a definition parallel to `execD` (same case structure), proved to be a sound footprint of
  `execD` in SMGo/Proofs/ISAValTouchSound.lean, and compared with the role table of property C09
  (`SMGo.Model.ISA.effOf`) on every instruction instance of the amd64 listings in SMGo/Proofs/ISAValRoles.lean.
-/
import SMGo.Model.ISAVal
import SMGo.Model.ISA
namespace SMGo.Proofs.ISATouch
open SMGo.Model.ISAVal SMGo.Model.ISA

/-- footprint of one decoded instruction under `execD` / `stepD` -/
structure Touch where
  /-- registers whose value can influence a written register, the flags, a stored value or a frame slot -/
  reads : List Reg := []
  /-- registers that can change -/
  writes : List Reg := []
  rf : Bool := false
  wf : Bool := false
  /-- the memory operand: base, index, scale, displacement -/
  mem : Option (Reg × Option Reg × Nat × Int) := none
  /-- bytes covered by the memory operand -/
  width : Nat := 0
  load : Bool := false
  store : Bool := false
  /-- frame slots read / written -/
  fload : List String := []
  fstore : List String := []
  /-- symbols whose address is taken -/
  syms : List String := []
deriving Repr, DecidableEq

def memT (b : Reg) (i : Option Reg) (sc : Nat) (d : Int) : Option (Reg × Option Reg × Nat × Int) := some (b, i, sc, d)

def tVec3 (mn : Mn) (ops : List Opd) : Option Touch :=
  match ops with
  | [.reg (.vec a), .reg (.vec b), .reg (.vec d)] => some { reads := [.vec a, .vec b], writes := [.vec d] }
  | [.reg (.vec a), .reg (.vec b), .reg (.k k), .reg (.vec d)] =>
    if mn = .VPSHUFB ∨ mn = .VPERMQ then some { reads := [.vec a, .vec b, .k k, .vec d], writes := [.vec d] } else none
  | _ => none

def tVecImm (ops : List Opd) : Option Touch :=
  match ops with
  | [.imm _, .reg (.vec a), .reg (.vec d)] => some { reads := [.vec a], writes := [.vec d] }
  | _ => none

def tVecImm2 (ops : List Opd) : Option Touch :=
  match ops with
  | [.imm _, .reg (.vec a), .reg (.vec b), .reg (.vec d)] => some { reads := [.vec a, .vec b], writes := [.vec d] }
  | _ => none

def tVmovdqu32 (vl : Nat) (ops : List Opd) : Option Touch :=
  match ops with
  | [.mem base idx sc disp, .reg (.vec d)] =>
    some { writes := [.vec d], mem := memT base idx sc disp, width := vl, load := true }
  | [.mem base idx sc disp, .reg (.k k), .reg (.vec d)] =>
    some { reads := [.k k, .vec d], writes := [.vec d], mem := memT base idx sc disp, width := vl, load := true }
  | [.reg (.vec a), .mem base idx sc disp] =>
    some { reads := [.vec a], mem := memT base idx sc disp, width := vl, store := true }
  | [.reg (.vec a), .reg (.k k), .mem base idx sc disp] =>
    some { reads := [.vec a, .k k], mem := memT base idx sc disp, width := vl, store := true }
  | _ => none

def tVmovReg (ops : List Opd) : Option Touch :=
  match ops with
  | [.reg (.vec a), .reg (.vec d)] => some { reads := [.vec a], writes := [.vec d] }
  | _ => none

def tBroadcastD (ops : List Opd) : Option Touch :=
  match ops with
  | [.reg (.vec a), .reg (.vec d)] => some { reads := [.vec a], writes := [.vec d] }
  | [.reg (.gpr a), .reg (.vec d)] => some { reads := [.gpr a], writes := [.vec d] }
  | _ => none

def tBroadcastMem (w : Nat) (ops : List Opd) : Option Touch :=
  match ops with
  | [.mem base idx sc disp, .reg (.vec d)] =>
    some { writes := [.vec d], mem := memT base idx sc disp, width := w, load := true }
  | _ => none

def tPsllo (ops : List Opd) : Option Touch :=
  match ops with
  | [.imm _, .reg (.vec d)] => some { reads := [.vec d], writes := [.vec d] }
  | _ => none

def tKmovw (ops : List Opd) : Option Touch :=
  match ops with
  | [.reg (.gpr a), .reg (.k d)] => some { reads := [.gpr a], writes := [.k d] }
  | _ => none

def tLeaq (ops : List Opd) : Option Touch :=
  match ops with
  | [.sym name _, .reg (.gpr d)] => some { writes := [.gpr d], syms := [name] }
  | _ => none

def tMov (mn : Mn) (ops : List Opd) : Option Touch :=
  let w := aluWidth mn
  match ops with
  | [.mem base idx sc disp, .reg (.vec d)] =>
    if mn = .MOVL then some { reads := [.vec d], writes := [.vec d], mem := memT base idx sc disp, width := 4, load := true }
    else none
  | [.reg (.gpr a), .reg (.vec d)] =>
    if mn = .MOVQ then some { reads := [.gpr a, .vec d], writes := [.vec d] } else none
  | [.frame name _, .reg (.gpr d)] =>
    if mn = .MOVQ then some { writes := [.gpr d], fload := [name] } else none
  | [.imm _, .frame name _] =>
    if mn = .MOVQ then some { fstore := [name] } else none
  | [.reg (.gpr a), .frame name _] =>
    if mn = .MOVQ then some { reads := [.gpr a], fstore := [name] }
    else if mn = .MOVL then some { reads := [.gpr a], fstore := [name] }
    else none
  | [.imm _, .reg (.gpr d)] =>
    if mn = .MOVQ then some { writes := [.gpr d] }
    else if mn = .MOVL then some { writes := [.gpr d] }
    else none
  | [.reg (.gpr a), .reg (.gpr d)] =>
    if mn = .MOVQ then some { reads := [.gpr a], writes := [.gpr d] } else none
  | [.mem base idx sc disp, .reg (.gpr d)] =>
    -- 8- and 4-byte loads replace the register; 1- and 2-byte loads keep the other bits
    some { reads := if w = 8 ∨ w = 4 then [] else [.gpr d], writes := [.gpr d], mem := memT base idx sc disp,
           width := w, load := true }
  | [.reg (.gpr a), .mem base idx sc disp] =>
    some { reads := [.gpr a], mem := memT base idx sc disp, width := w, store := true }
  | [.imm _, .mem base idx sc disp] =>
    if mn = .MOVQ ∨ mn = .MOVB then some { mem := memT base idx sc disp, width := w, store := true } else none
  | _ => none

def tAlu (mn : Mn) (ops : List Opd) : Option Touch :=
  let w := aluWidth mn
  match ops with
  | [.imm v, .reg (.gpr d)] =>
    if mn = .ADDQ ∨ mn = .SUBQ ∨ mn = .ANDQ then some { reads := [.gpr d], writes := [.gpr d], wf := true }
    else if mn = .SHLQ ∨ mn = .SHRQ then
      -- a shift by 0 leaves the flags alone: not a footprint of the form "flags written"
      if imm64 v % 64 = 0 then none else some { reads := [.gpr d], writes := [.gpr d], wf := true }
    else none
  | [.reg (.gpr a), .reg (.gpr d)] =>
    if mn = .ADDQ ∨ mn = .SUBQ ∨ mn = .ORB then some { reads := [.gpr a, .gpr d], writes := [.gpr d], wf := true }
    else none
  | [.mem base idx sc disp, .reg (.gpr d)] =>
    if mn = .ORB ∨ mn = .ORQ then
      some { reads := [.gpr d], writes := [.gpr d], wf := true, mem := memT base idx sc disp, width := w, load := true }
    else none
  | [.reg (.gpr a), .mem base idx sc disp] =>
    if mn = .XORB ∨ mn = .XORQ then
      some { reads := [.gpr a], wf := true, mem := memT base idx sc disp, width := w, load := true, store := true }
    else none
  | _ => none

def tCmpq (ops : List Opd) : Option Touch :=
  match ops with
  | [.reg (.gpr a), .imm _] => some { reads := [.gpr a], wf := true }
  | [.reg (.gpr a), .reg (.gpr b)] => some { reads := [.gpr a, .gpr b], wf := true }
  | _ => none

/-- the footprint of a decoded instruction; `none` = `stepD` fails on it (or, for a shift by 0, the footprint is
    not expressible) -/
def touchesOf (i : DInstr) : Option Touch :=
  match i.mn with
  | .VPXORD | .VPANDD | .VPADDD | .VPSHUFB | .VPUNPCKLDQ | .VPUNPCKHDQ | .VPUNPCKLQDQ | .VPUNPCKHQDQ => tVec3 i.mn i.ops
  | .VPROLD | .VPSLLDQ | .VPSRLDQ | .VPSRLW | .VPSLLQ => tVecImm i.ops
  | .VPERMQ =>
    match i.ops with
    | .imm _ :: _ => tVecImm i.ops
    | _ => tVec3 i.mn i.ops
  | .VGF2P8AFFINEQB | .VGF2P8AFFINEINVQB | .VPCLMULQDQ | .VALIGND => tVecImm2 i.ops
  | .VMOVDQU32 => tVmovdqu32 i.vw i.ops
  | .VMOVDQA64 | .VMOVAPD => tVmovReg i.ops
  | .VPBROADCASTD => tBroadcastD i.ops
  | .VBROADCASTI32X2 => tBroadcastMem 8 i.ops
  | .VBROADCASTI32X4 => tBroadcastMem 16 i.ops
  | .PSLLO => tPsllo i.ops
  | .KMOVW => tKmovw i.ops
  | .LEAQ => tLeaq i.ops
  | .MOVQ | .MOVL | .MOVW | .MOVB => tMov i.mn i.ops
  | .ADDQ | .SUBQ | .ANDQ | .ORQ | .XORQ | .ORB | .XORB | .SHLQ | .SHRQ => tAlu i.mn i.ops
  | .CMPQ => tCmpq i.ops
  | .NOP => match i.ops with | [] => some {} | _ => none
  | .JMP => match i.ops with | [.target _] => some {} | _ => none
  | .RET => match i.ops with | [] => some {} | _ => none
  | .JEQ | .JNE | .JLT | .JGE | .JGT | .JLE => match i.ops with | [.target _] => some { rf := true } | _ => none

/-! ### comparison with the role table of C09 -/

def subList (a b : List Reg) : Bool := a.all (fun r => b.contains r)

def memEq (m : Option (Reg × Option Reg × Nat × Int)) (e : Option MemRef) : Bool :=
  match m, e with
  | none, none => true
  | some (b, i, sc, d), some r => decide (r.base = b ∧ r.index = i ∧ r.scale = sc ∧ r.disp = d)
  | _, _ => false

/-- is `.frame name off` / `.sym name off` among the operands, for each name? (the value semantics identifies slots
    by name, the role table by offset) -/
def frameOffs (ops : List Opd) (names : List String) : List Nat :=
  ops.filterMap (fun o => match o with | .frame n off => if names.contains n then some off else none | _ => none)

def symNames (ops : List Opd) : List String :=
  ops.filterMap (fun o => match o with | .sym n _ => some n | _ => none)

/-- the footprint of the value semantics against the footprint of the role table:
    * everything read / written / loaded / stored by the value semantics is listed by the role table;
    * conversely a register (the flags) that the role table lists as WRITTEN is really overwritten, or else is also
      listed as read (a register wrongly listed as written would be declared public by the taint transfer while
      keeping its old value);
    * same memory operand, same control transfer. -/
def within (i : Instr) (t : Touch) (e : Eff) : Bool :=
  subList t.reads e.reads && subList t.writes e.writes
  && e.writes.all (fun r => t.writes.contains r || e.reads.contains r)
  && (!t.rf || e.rf) && (!t.wf || e.wf) && (!e.wf || t.wf || e.rf)
  && memEq t.mem e.mem && (!t.load || e.load) && (!t.store || e.store) && !e.post
  && (frameOffs i.ops t.fload).all (fun o => e.frameLoads.contains o)
  && (frameOffs i.ops t.fstore).all (fun o => e.frameStores.contains o)
  && (t.fload.isEmpty || !e.frameLoads.isEmpty) && (t.fstore.isEmpty || !e.frameStores.isEmpty)
  && t.syms.all (fun n => (e.symAddrs.map (·.1)).contains n || (e.syms.map (·.1)).contains n)
  -- control flow: same kind of transfer, same target
  && (match Mn.ofString i.mn with
      | some .JMP => e.kind == .jmp
      | some .RET => e.kind == .ret
      | some mn => if mn.isControl then e.kind == .jcc else e.kind == .seq
      | none => false)
  && (match i.ops with | [.target p] => e.target == some p | _ => true)

/-- the check of one instruction instance -/
def roleOk (i : Instr) : Bool :=
  match decode i, effOf i with
  | .ok d, some e => match touchesOf d with | some t => within i t e | none => false
  | _, _ => false

end SMGo.Proofs.ISATouch
