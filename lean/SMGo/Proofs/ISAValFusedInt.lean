import SMGo.Proofs.ISAValFusedLoops
set_option linter.unusedSimpArgs false
namespace SMGo.Proofs.ISAVal
open SMGo.Model.ISAVal SMGo.Model.GCM SMGo.Proofs.GCM SMGo.Proofs.ISATouch
open SMGo.Model.ISA (Reg Opd Instr)

theorem a_movq_rr (s : State) (a d : Nat) (ha : a < s.gpr.length) (hd : d < s.gpr.length) :
    execD s (ins .MOVQ [G a, G d] 0) = .ok (setGreg s d (greg s a)) := by
  obtain ⟨g, v, k, fl, mem, syms, frame⟩ := s
  have hga := getElem?_getD g a ha
  have hd' : d < g.length := hd
  simp only [execD, ins, G, exMov, getG, hga, ok_bind, setG, if_pos hd', setGreg, greg]
  rfl

theorem a_alu_imm (s : State) (mn : Mn) (imm : Int) (d r : Nat) (f : Flags)
    (hmn : mn = .ADDQ ∨ mn = .SUBQ ∨ mn = .ANDQ ∨ mn = .SHLQ ∨ mn = .SHRQ) (hd : d < s.gpr.length)
    (halu : alu mn 8 (imm64 imm) (greg s d) s.flags = .ok (r, f)) :
    execD s (ins mn [.imm imm, G d] 0) = .ok (setFlags (setGreg s d r) f) := by
  obtain ⟨g, v, k, fl, mem, syms, frame⟩ := s
  have hgd := getElem?_getD g d hd
  have hd' : d < g.length := hd
  simp only [greg] at halu
  have e : g.getD d 0 = g[d] := by simp [List.getD_eq_getElem?_getD, hd']
  rw [e] at halu
  rcases hmn with rfl | rfl | rfl | rfl | rfl <;>
    simp [execD, ins, G, exAlu, getG, hgd, halu, withFlags, setG, hd', setGreg, setFlags, Except.map]

/-- `ANDQ $15` and `SHRQ $4`: remainder and quotient by 16 -/
theorem alu_and15 (x : Nat) (fl : Flags) : ∃ f, alu .ANDQ 8 (imm64 15) x fl = .ok (x % 16, f) := by
  have e : x &&& 15 = x % 16 := by
    have := Nat.and_two_pow_sub_one_eq_mod x 4
    simpa using this
  simp only [alu, show imm64 15 = 15 from by decide +kernel, e]
  exact ⟨_, rfl⟩
theorem alu_shr4 (x : Nat) (fl : Flags) : ∃ f, alu .SHRQ 8 (imm64 4) x fl = .ok (x / 16, f) := by
  simp only [alu, show imm64 4 % 64 = 4 from by decide +kernel]
  rw [if_neg (by decide), Nat.shiftRight_eq_div_pow]
  exact ⟨_, rfl⟩
theorem alu_shl3 (x : Nat) (fl : Flags) (hx : x < 2 ^ 61) : ∃ f, alu .SHLQ 8 (imm64 3) x fl = .ok (8 * x, f) := by
  simp only [alu, show imm64 3 % 64 = 3 from by decide +kernel]
  rw [if_neg (by decide), Nat.shiftLeft_eq, Nat.mod_eq_of_lt (by omega), Nat.mul_comm]
  exact ⟨_, rfl⟩

end SMGo.Proofs.ISAVal
