/-
  Lemmas for property C04, part 2: the buffering of `Write` (the 64-byte buffer `x` with stale bytes,
  `nx`, the two phases "fill and flush the buffer" / "absorb whole blocks and keep the rest")
  maintains, for every way of chunking the message, the chaining value of the specification over the
  full blocks written so far and the unprocessed tail.
-/
import SMGo.Proofs.SM3Compress
namespace SMGo.Proofs.SM3
open SMGo.Spec.SM3 (blocks CF IV)
open SMGo.Model.SM3 (St)

/-! ### `blocks` -/

theorem blocks_short {m : Bytes} (h : m.length < 64) : blocks m = [] := by
  rw [blocks]; simp [h]

theorem blocks_long {m : Bytes} (h : 64 ≤ m.length) : blocks m = m.take 64 :: blocks (m.drop 64) := by
  rw [blocks]; simp [Nat.not_lt.mpr h]

theorem blocks_single {b : Bytes} (h : b.length = 64) : blocks b = [b] := by
  rw [blocks_long (by omega), blocks_short (by simp [h]), List.take_of_length_le (by omega)]

theorem blocks_append (a b : Bytes) (ha : a.length % 64 = 0) : blocks (a ++ b) = blocks a ++ blocks b := by
  fun_induction blocks a with
  | case1 a hlt =>
    have : a = [] := List.eq_nil_of_length_eq_zero (by omega)
    subst this; simp
  | case2 a hge ih =>
    have h64 : 64 ≤ a.length := by omega
    rw [blocks_long (by simp; omega), List.take_append_of_le_length h64,
      List.drop_append_of_le_length h64, ih (by simp; omega)]
    simp

/-- the chaining value after the full blocks of `pre` -/
def chain (pre : Bytes) : List W32 := (blocks pre).foldl CF IV

theorem chain_append_block (pre blk : Bytes) (hp : pre.length % 64 = 0) (hb : blk.length = 64) :
    chain (pre ++ blk) = CF (chain pre) blk := by
  simp [chain, blocks_append pre blk hp, blocks_single hb, List.foldl_append]

/-- splitting off the whole blocks -/
theorem blocks_take_whole (d : Bytes) : blocks (d.take (d.length / 64 * 64)) = blocks d := by
  have h1 : ((d.take (d.length / 64 * 64)).length) % 64 = 0 := by simp; omega
  have h2 := blocks_append (d.take (d.length / 64 * 64)) (d.drop (d.length / 64 * 64)) h1
  rw [List.take_append_drop, blocks_short (m := d.drop (d.length / 64 * 64)) (by simp; omega)] at h2
  rw [h2]; simp

/-! ### the block loop of `Write` -/

theorem absorb_eq (h : List W32) (d : Bytes) :
    Model.SM3.absorb ttGen h d = ((blocks d).foldl CF h, d.drop (d.length / 64 * 64)) := by
  fun_induction Model.SM3.absorb ttGen h d with
  | case1 h d hlt =>
    rw [blocks_short hlt]
    have : d.length / 64 * 64 = 0 := by omega
    simp [this]
  | case2 h d hge ih =>
    have h64 : 64 ≤ d.length := by omega
    rw [ih, blocks_long h64, List.foldl_cons, cf_take, cf_eq_CF _ _ (by simp; omega), List.drop_drop]
    have : 64 + (d.drop 64).length / 64 * 64 = d.length / 64 * 64 := by simp; omega
    rw [this]

/-! ### the two phases of `Write` -/

/-- `if sm3.nx > 0 { … }`: fill the buffer, compress it when it is full -/
def phase1 (tt : List W32) (s : St) (data : Bytes) : St × Bytes :=
  if s.nx > 0 then
    let (x, cnt) := Model.SM3.copyInto s.x s.nx data
    let s := { s with x := x, nx := s.nx + cnt }
    let data := data.drop cnt
    if s.nx = 64 then ({ s with h := Model.SM3.cf tt s.h s.x, nx := 0 }, data) else (s, data)
  else (s, data)

/-- `if sm3.nx == 0 { … }`: whole blocks straight from `data`, the rest into the buffer -/
def phase2 (tt : List W32) (s : St) (data : Bytes) : St :=
  if s.nx = 0 then
    let (h, rest) := Model.SM3.absorb tt s.h data
    let s := { s with h := h }
    if rest.length > 0 then
      let (x, cnt) := Model.SM3.copyInto s.x 0 rest
      { s with x := x, nx := cnt }
    else s
  else s

theorem write_eq (tt : List W32) (s : St) (d : Bytes) :
    Model.SM3.write tt s d =
      (phase2 tt (phase1 tt { s with len := (s.len + d.length) % 2 ^ 64 } d).1
                 (phase1 tt { s with len := (s.len + d.length) % 2 ^ 64 } d).2, d.length) := rfl

/-- buffer invariant: `pre` (whole blocks) has been compressed into `h`, `tail` sits in `x[0:nx]`.
    `tail` may fill the buffer completely (this happens inside `checkSum`). -/
structure Buf (st : St) (pre tail : Bytes) : Prop where
  h : st.h = chain pre
  pre64 : pre.length % 64 = 0
  xlen : st.x.length = 64
  nx : st.nx = tail.length
  tail64 : tail.length ≤ 64
  x : st.x.take st.nx = tail

theorem phase1_buf {st : St} {pre tail : Bytes} (hb : Buf st pre tail) (d : Bytes) :
    ∃ pre' tail', Buf (phase1 ttGen st d).1 pre' tail' ∧ tail'.length < 64
      ∧ pre ++ tail ++ d = pre' ++ tail' ++ (phase1 ttGen st d).2
      ∧ (tail'.length ≠ 0 → (phase1 ttGen st d).2 = [])
      ∧ (phase1 ttGen st d).1.len = st.len := by
  obtain ⟨hh, hp, hx, hn, ht, hxt⟩ := hb
  unfold phase1
  by_cases h0 : st.nx > 0
  · rw [if_pos h0]
    simp only [Model.SM3.copyInto, hx]
    by_cases hfull : st.nx + min (64 - st.nx) d.length = 64
    · rw [if_pos hfull]
      have hcnt : min (64 - st.nx) d.length = 64 - st.nx := by omega
      have hdrop : st.x.drop (st.nx + min (64 - st.nx) d.length) = [] := by
        rw [hfull]; exact List.drop_of_length_le (by omega)
      rw [hdrop, hxt, hcnt]
      have hblk : (tail ++ d.take (64 - st.nx) ++ []).length = 64 := by simp; omega
      refine ⟨pre ++ (tail ++ d.take (64 - st.nx)), [], ⟨?_, ?_, hx ▸ hblk, rfl, by simp, by simp⟩,
        by simp, by simp, by simp, rfl⟩
      · simp only
        rw [cf_eq_CF _ _ hblk, hh, chain_append_block pre _ hp (by simpa using hblk)]
        simp
      · simp; omega
    · rw [if_neg hfull]
      have hcnt : min (64 - st.nx) d.length = d.length := by omega
      rw [hcnt, hxt, List.take_of_length_le (Nat.le_refl _), List.drop_of_length_le (Nat.le_refl _)]
      refine ⟨pre, tail ++ d, ⟨hh, hp, by simp; omega, by simp; omega, by simp; omega, ?_⟩,
        by simp; omega, by simp, by simp, rfl⟩
      simp only
      rw [List.take_append_of_le_length (by simp; omega), List.take_of_length_le (by simp; omega)]
  · rw [if_neg h0]
    have : tail = [] := List.eq_nil_of_length_eq_zero (by omega)
    subst this
    exact ⟨pre, [], ⟨hh, hp, hx, hn, ht, hxt⟩, by simp, by simp, by simp, rfl⟩

theorem phase2_buf {st : St} {pre tail : Bytes} (hb : Buf st pre tail) (d : Bytes)
    (ht : tail.length < 64) (hd : tail.length ≠ 0 → d = []) :
    ∃ pre' tail', Buf (phase2 ttGen st d) pre' tail' ∧ tail'.length < 64
      ∧ pre ++ tail ++ d = pre' ++ tail' ∧ (phase2 ttGen st d).len = st.len := by
  obtain ⟨hh, hp, hx, hn, _, hxt⟩ := hb
  unfold phase2
  by_cases h0 : st.nx = 0
  · rw [if_pos h0]
    have : tail = [] := List.eq_nil_of_length_eq_zero (by omega)
    subst this
    simp only [absorb_eq, Model.SM3.copyInto, hx]
    have hpre : (pre ++ d.take (d.length / 64 * 64)).length % 64 = 0 := by simp; omega
    have hchain : List.foldl CF st.h (blocks d) = chain (pre ++ d.take (d.length / 64 * 64)) := by
      rw [chain, blocks_append _ _ hp, blocks_take_whole, List.foldl_append, hh, chain]
    have hrl : (d.drop (d.length / 64 * 64)).length < 64 := by simp; omega
    by_cases hr : (d.drop (d.length / 64 * 64)).length > 0
    · rw [if_pos hr]
      have hcnt : min (64 - 0) (d.drop (d.length / 64 * 64)).length = (d.drop (d.length / 64 * 64)).length := by
        omega
      refine ⟨pre ++ d.take (d.length / 64 * 64), d.drop (d.length / 64 * 64),
        ⟨hchain, hpre, ?_, hcnt, by omega, ?_⟩, hrl, by simp, rfl⟩
      · simp only [List.take_zero, List.nil_append, Nat.zero_add, List.length_append,
          List.length_drop]
        simp at hrl hr ⊢; omega
      · simp only [hcnt, List.take_zero, List.nil_append, Nat.zero_add]
        generalize d.drop (d.length / 64 * 64) = r
        rw [List.take_length, List.take_append_of_le_length (Nat.le_refl _), List.take_length]
    · rw [if_neg hr]
      have hnil : d.drop (d.length / 64 * 64) = [] := List.eq_nil_of_length_eq_zero (by omega)
      refine ⟨pre ++ d.take (d.length / 64 * 64), [], ⟨hchain, hpre, hx, h0, by simp, by simp [h0]⟩,
        by simp, ?_, rfl⟩
      have := List.take_append_drop (d.length / 64 * 64) d
      rw [hnil] at this
      simp at this ⊢
      exact this.symm
  · rw [if_neg h0]
    have hd' := hd (by omega)
    subst hd'
    exact ⟨pre, tail, ⟨hh, hp, hx, hn, by omega, hxt⟩, ht, by simp, rfl⟩

/-- `Write` on a state whose buffer holds `tail` (possibly a full block) after the blocks `pre` -/
theorem write_buf {st : St} {pre tail : Bytes} (hb : Buf st pre tail) (d : Bytes) :
    ∃ pre' tail', Buf (Model.SM3.write ttGen st d).1 pre' tail' ∧ tail'.length < 64
      ∧ pre ++ tail ++ d = pre' ++ tail'
      ∧ (Model.SM3.write ttGen st d).1.len = (st.len + d.length) % 2 ^ 64
      ∧ (Model.SM3.write ttGen st d).2 = d.length := by
  rw [write_eq]
  have hb0 : Buf { st with len := (st.len + d.length) % 2 ^ 64 } pre tail :=
    ⟨hb.h, hb.pre64, hb.xlen, hb.nx, hb.tail64, hb.x⟩
  obtain ⟨pre1, tail1, hb1, ht1, e1, hd1, l1⟩ := phase1_buf hb0 d
  obtain ⟨pre2, tail2, hb2, ht2, e2, l2⟩ := phase2_buf hb1 _ ht1 hd1
  exact ⟨pre2, tail2, hb2, ht2, by rw [e1, e2], by rw [l2, l1], rfl⟩

/-! ### the invariant in terms of the bytes written so far -/

/-- the state of a hash value into which `data` has been written since the last `Reset` -/
def Inv (st : St) (data : Bytes) : Prop :=
  st.h = (blocks data).foldl CF IV ∧ st.x.length = 64
    ∧ st.x.take st.nx = data.drop (data.length / 64 * 64) ∧ st.nx = data.length % 64
    ∧ st.len = data.length % 2 ^ 64

theorem split_unique {data pre tail : Bytes} (e : data = pre ++ tail) (hp : pre.length % 64 = 0)
    (ht : tail.length < 64) :
    pre = data.take (data.length / 64 * 64) ∧ tail = data.drop (data.length / 64 * 64)
      ∧ blocks data = blocks pre := by
  subst e
  have hk : (pre ++ tail).length / 64 * 64 = pre.length := by simp; omega
  rw [hk, blocks_append _ _ hp, blocks_short ht]
  simp

theorem Inv.buf {st : St} {data : Bytes} (h : Inv st data) :
    Buf st (data.take (data.length / 64 * 64)) (data.drop (data.length / 64 * 64)) := by
  obtain ⟨hh, hx, hxt, hn, _⟩ := h
  refine ⟨?_, by simp; omega, hx, by simp; omega, by simp; omega, hxt⟩
  rw [hh, chain, blocks_take_whole]

theorem Inv.of_buf {st : St} {data pre tail : Bytes} (hb : Buf st pre tail) (ht : tail.length < 64)
    (e : data = pre ++ tail) (hl : st.len = data.length % 2 ^ 64) : Inv st data := by
  obtain ⟨e1, e2, e3⟩ := split_unique e hb.pre64 ht
  refine ⟨by rw [hb.h, chain, e3], hb.xlen, by rw [hb.x, e2], ?_, hl⟩
  rw [hb.nx, e]; simp; have := hb.pre64; omega

/-- (iii) `Write` maintains the invariant, whatever the chunking, and consumes all its bytes -/
theorem write_inv {st : St} {data : Bytes} (h : Inv st data) (d : Bytes) :
    Inv (Model.SM3.write ttGen st d).1 (data ++ d) ∧ (Model.SM3.write ttGen st d).2 = d.length := by
  obtain ⟨pre', tail', hb', ht', e, hl, hn⟩ := write_buf h.buf d
  rw [List.take_append_drop] at e
  refine ⟨Inv.of_buf hb' ht' e ?_, hn⟩
  rw [hl, h.2.2.2.2]; simp

theorem reset_inv (st : St) (hx : st.x.length = 64) : Inv (Model.SM3.reset st) [] := by
  refine ⟨?_, hx, by simp [Model.SM3.reset], rfl, rfl⟩
  rw [blocks_short (by simp)]; rfl

theorem new_inv : Inv (Model.SM3.reset Model.SM3.zero) [] := reset_inv _ (by simp [Model.SM3.zero])

end SMGo.Proofs.SM3
