/-
  Refinement: the SCALAR-field Fermat inversion of the generated program (SMGo/Gen/CTIRProg.lean):
    `fn_58` fiat.sm2ScalarFermatInvert_FiatAC  and  `fn_57` (*SM2ScalarElement).Invert
  vs  `Model.Field.invert S x` (= `AddChain.run` of the generated chain `SMGo.Gen.AddChain.scalarInverse`) for a scalar
  field `S : FieldOps β` with limb encoding `encS`.

  The machinery of SMGo/Proofs/CTIRRefinePointB.lean (`Item`, `Item.ops`, `opStep`, `fuelItems`, …) is re-instantiated
  over a `Layout` (number of registers, register ↦ variable, the function numbers of the squaring and of the
  multiplication, the first loop-counter variable): `items_okL` is the generic correspondence "the statements of a
  checked item list maintain `RegInvL` against the fold of the model's operations".  For `fn_58`: 12 registers
  (0 = x = variable 1, 1 = z = variable 0, 2..11 = t0..t9 = variables 3..12), sm2ScalarSquare = 54, sm2ScalarMul = 52,
  31 counted loops with the counters 13..43; the chain has 253 squarings and 41 multiplications.

  FINDINGS: no difference between the generated chain and the IR: `fn_58_body` (by `rfl`) and `scalarInverse_items`
  (by `decide`) exhibit both as images of the one list `scalarChainItems` (81 items, extracted from the IR text).
  None of the registers `z`, `t0`..`t9` is read before it is written (`scalarChainItems_chk`), so neither the old
  limbs of `z` nor the encoding of zero enter the result; the destination limbs must be four limbs below 2^64
  (`Out4`), as the Fiat primitives demand (CTIRRefineFiat.lean).
-/
import SMGo.Proofs.CTIRRefinePointB
open SMGo SMGo.Model.CTIR SMGo.Gen.CTIRProg SMGo.Proofs.CTIRRefineUtils SMGo.Proofs.CTIRRefineField
open SMGo.Proofs.CTIRRefinePointB
open SMGo.Model.AddChain (Op)
set_option linter.unusedSimpArgs false
set_option linter.unusedVariables false

namespace SMGo.Proofs.CTIRRefineScalarInv

/-! ## The generic correspondence over a layout -/

/-- where the registers of a chain live in the IR function, and which functions it calls -/
structure Layout where
  /-- number of registers -/
  n : Nat
  /-- register ↦ variable -/
  vr : Nat → Nat
  /-- function numbers of the squaring and of the multiplication -/
  fsq : Nat
  fmul : Nat
  /-- loop counters are the variables `≥ cmin` -/
  cmin : Nat
  inj : ∀ i, i < n → ∀ d, d < n → vr i = vr d → i = d
  lt : ∀ i, i < n → vr i < cmin

def sqStmtL (L : Layout) (d s : Nat) : Stmt := .call [L.vr d] L.fsq [(.var (L.vr d)), (.var (L.vr s))]
def mulStmtL (L : Layout) (d a b : Nat) : Stmt := .call [L.vr d] L.fmul [(.var (L.vr d)), (.var (L.vr a)), (.var (L.vr b))]
def sqLoopL (L : Layout) (c hi d : Nat) : Stmt := .loop (loopCond c hi) (sqStmtL L d d) (loopPost c)

def stmtsL (L : Layout) : Item → List Stmt
  | .sq d s => [sqStmtL L d s]
  | .mul d a b => [mulStmtL L d a b]
  | .loop c lo hi d => [.assign c [] (.lit (lo : Int)), sqLoopL L c hi d]

/-- the definedness check for `n` registers and loop counters `≥ cmin` -/
def chkL (n cmin : Nat) : List Nat → List Item → Bool
  | _, [] => true
  | D, .sq d s :: r => decide (d < n) && decide (s < n) && decide (s ∈ D) && chkL n cmin (d :: D) r
  | D, .mul d a b :: r =>
    decide (d < n) && decide (a < n) && decide (b < n) && decide (a ∈ D) && decide (b ∈ D) && chkL n cmin (d :: D) r
  | D, .loop c lo hi d :: r =>
    decide (cmin ≤ c) && decide (lo ≤ hi) && decide (hi < 9223372036854775808) && decide (d < n) && decide (d ∈ D) &&
      chkL n cmin D r

section Generic
variable {β : Type} {P : Prog} {G : Nat → Val} {X : Oracle}

/-- the variables of the defined registers hold the encodings of the model's registers; all register variables
    hold four limbs below 2^64 -/
structure RegInvL (L : Layout) (enc : β → List Nat) (zero : β) (env : Env) (regs : List β) (D : List Nat) : Prop where
  val : ∀ i, i < L.n → i ∈ D → env (L.vr i) = limbsV (enc (regs.getD i zero))
  arr : ∀ i, i < L.n → ∃ o, env (L.vr i) = limbsV o ∧ Out4 o

theorem RegInvL.mono {L : Layout} {enc : β → List Nat} {zero : β} {env : Env} {regs : List β} {D D' : List Nat}
    (h : RegInvL L enc zero env regs D) (hD : ∀ i, i ∈ D' → i ∈ D) : RegInvL L enc zero env regs D' :=
  ⟨fun i hi hm => h.val i hi (hD i hm), h.arr⟩

theorem RegInvL.frame {L : Layout} {enc : β → List Nat} {zero : β} {env : Env} {regs : List β} {D : List Nat}
    (h : RegInvL L enc zero env regs D) (c : Nat) (v : Val) (hc : L.cmin ≤ c) : RegInvL L enc zero (env.set c v) regs D := by
  have hne : ∀ i, i < L.n → L.vr i ≠ c := fun i hi => by have := L.lt i hi; omega
  refine ⟨fun i hi hm => ?_, fun i hi => ?_⟩
  · rw [Env.set_other _ _ (hne i hi)]; exact h.val i hi hm
  · rw [Env.set_other _ _ (hne i hi)]; exact h.arr i hi

theorem RegInvL.write {L : Layout} {enc : β → List Nat} {zero : β} {env : Env} {regs : List β} {D : List Nat}
    (h : RegInvL L enc zero env regs D) (hlen : regs.length = L.n) (d : Nat) (hd : d < L.n) (v : β) (hv : Out4 (enc v)) :
    RegInvL L enc zero (env.set (L.vr d) (limbsV (enc v))) (regs.set d v) (d :: D) := by
  refine ⟨fun i hi hm => ?_, fun i hi => ?_⟩
  · by_cases hid : i = d
    · subst hid
      rw [Env.set_same, List.getD_eq_getElem?_getD, List.getElem?_set_self (by omega)]
      rfl
    · have hvr : L.vr i ≠ L.vr d := fun e => hid (L.inj i hi d hd e)
      rw [Env.set_other _ _ hvr, List.getD_eq_getElem?_getD, List.getElem?_set_ne (Ne.symm hid), ← List.getD_eq_getElem?_getD]
      exact h.val i hi (by
        rcases List.mem_cons.mp hm with e | e
        · exact absurd e hid
        · exact e)
  · by_cases hid : i = d
    · subst hid
      exact ⟨_, Env.set_same _ _ _, hv⟩
    · have hvr : L.vr i ≠ L.vr d := fun e => hid (L.inj i hi d hd e)
      rw [Env.set_other _ _ hvr]
      exact h.arr i hi

variable {L : Layout} {F : Model.Field.FieldOps β} {enc : β → List Nat} {Fsq Fmul : Nat}

theorem step_sqL (henc : ∀ e, Out4 (enc e))
    (hsq : ∀ o a, Out4 o → Computes P G X L.fsq Fsq [limbsV o, limbsV (enc a)] [limbsV (enc (F.square a))])
    {env : Env} {regs : List β} {D : List Nat} {d s : Nat} (h : RegInvL L enc F.zero env regs D) (hlen : regs.length = L.n)
    (hd : d < L.n) (hs : s < L.n) (hD : s ∈ D) :
    EvIn P G X (Fsq + 1) env (sqStmtL L d s) (env.set (L.vr d) (limbsV (enc (F.square (regs.getD s F.zero))))) .norm ∧
      RegInvL L enc F.zero (env.set (L.vr d) (limbsV (enc (F.square (regs.getD s F.zero))))) (opStep F regs (.sq d s)) (d :: D) := by
  obtain ⟨o, ho, ho4⟩ := h.arr d hd
  refine ⟨(hsq o (regs.getD s F.zero) ho4).call ?_ rfl, h.write hlen d hd _ (henc _)⟩
  simp only [evalVs_cons, evalVs_nil, evalV_var, ho, h.val s hs hD]

theorem step_mulL (henc : ∀ e, Out4 (enc e))
    (hmul : ∀ o a b, Out4 o → Computes P G X L.fmul Fmul [limbsV o, limbsV (enc a), limbsV (enc b)] [limbsV (enc (F.mul a b))])
    {env : Env} {regs : List β} {D : List Nat} {d a b : Nat} (h : RegInvL L enc F.zero env regs D) (hlen : regs.length = L.n)
    (hd : d < L.n) (ha : a < L.n) (hb : b < L.n) (hDa : a ∈ D) (hDb : b ∈ D) :
    EvIn P G X (Fmul + 1) env (mulStmtL L d a b)
        (env.set (L.vr d) (limbsV (enc (F.mul (regs.getD a F.zero) (regs.getD b F.zero))))) .norm ∧
      RegInvL L enc F.zero (env.set (L.vr d) (limbsV (enc (F.mul (regs.getD a F.zero) (regs.getD b F.zero)))))
        (opStep F regs (.mul d a b)) (d :: D) := by
  obtain ⟨o, ho, ho4⟩ := h.arr d hd
  refine ⟨(hmul o (regs.getD a F.zero) (regs.getD b F.zero) ho4).call ?_ rfl, h.write hlen d hd _ (henc _)⟩
  simp only [evalVs_cons, evalVs_nil, evalV_var, ho, h.val a ha hDa, h.val b hb hDb]

/-- a loop of `n` squarings of register `d` = `n` operations `.sq d d` -/
theorem sq_loopL (henc : ∀ e, Out4 (enc e))
    (hsq : ∀ o a, Out4 o → Computes P G X L.fsq Fsq [limbsV o, limbsV (enc a)] [limbsV (enc (F.square a))])
    {D : List Nat} {c hi d : Nat} (hc : L.cmin ≤ c) (hd : d < L.n) (hhi : hi < 9223372036854775808) (hD : d ∈ D) :
    ∀ (n i : Nat) (env : Env) (regs : List β), RegInvL L enc F.zero env regs D → regs.length = L.n →
      env c = .int (i : Int) → i + n = hi →
      ∃ env', EvIn P G X ((Fsq + 3) * n + 1) env (sqLoopL L c hi d) env' .norm ∧
        RegInvL L enc F.zero env' ((List.replicate n (Op.sq d d)).foldl (opStep F) regs) D := by
  intro n
  induction n with
  | zero =>
    intro i env regs h hlen hci hin
    have hcv := loop_cond_val (G := G) (hi := hi) hci
    rw [if_neg (by omega)] at hcv
    exact ⟨env, EvIn.loop_exit hcv rfl, h⟩
  | succ n ih =>
    intro i env regs h hlen hci hin
    have hcv := loop_cond_val (G := G) (hi := hi) hci
    rw [if_pos (by omega)] at hcv
    obtain ⟨hbody, h1⟩ := step_sqL (P := P) (G := G) (X := X) henc hsq h hlen hd hd hD
    have hne : c ≠ L.vr d := by have := L.lt d hd; omega
    have s : evalV G (env.set (L.vr d) (limbsV (enc (F.square (regs.getD d F.zero))))) (.op2 (.add .i64) (.var c) (.lit 1))
        = some (.int ((i + 1 : Nat) : Int)) := by
      simp only [evalV_op2, evalV_var, evalV_lit, Env.set_other _ _ hne, hci, evalOp2, Option.map_some]
      rw [norm_i64_small (by omega) (by omega)]
      rfl
    have hpost := EvIn.assign (P := P) (X := X) (x := c) s
    have h2 := ((h1.mono (D' := D) (fun j hj => List.mem_cons_of_mem _ hj)).frame c (.int ((i + 1 : Nat) : Int)) hc)
    obtain ⟨env', hl, h'⟩ := ih (i + 1) _ _ h2 (by rw [opStep_length]; exact hlen) (Env.set_same _ _ _) (by omega)
    refine ⟨env', ?_, ?_⟩
    · exact (EvIn.loop_round hcv rfl hbody (Or.inl rfl) hpost hl).mono (by rw [Nat.mul_add]; omega)
    · rw [List.replicate_succ, List.foldl_cons]; exact h'

/-- **the correspondence** over a layout -/
theorem items_okL (henc : ∀ e, Out4 (enc e))
    (hsq : ∀ o a, Out4 o → Computes P G X L.fsq Fsq [limbsV o, limbsV (enc a)] [limbsV (enc (F.square a))])
    (hmul : ∀ o a b, Out4 o → Computes P G X L.fmul Fmul [limbsV o, limbsV (enc a), limbsV (enc b)] [limbsV (enc (F.mul a b))]) :
    ∀ (items : List Item) (env : Env) (regs : List β) (D : List Nat),
      RegInvL L enc F.zero env regs D → regs.length = L.n → chkL L.n L.cmin D items = true →
      ∃ env', Pre P G X (fuelItems Fsq Fmul items) env (items.flatMap (stmtsL L)) env' ∧
        RegInvL L enc F.zero env' ((items.flatMap Item.ops).foldl (opStep F) regs) (defd D items) := by
  intro items
  induction items with
  | nil => intro env regs D h _ _; exact ⟨env, Pre.nil env, h⟩
  | cons it items ih =>
    intro env regs D h hlen hchk
    rw [List.flatMap_cons, List.flatMap_cons, List.foldl_append]
    cases it with
    | sq d s =>
      simp only [chkL, Bool.and_eq_true, decide_eq_true_eq] at hchk
      obtain ⟨⟨⟨hd, hs⟩, hD⟩, hrest⟩ := hchk
      obtain ⟨c1, h1⟩ := step_sqL (P := P) (G := G) (X := X) henc hsq h hlen hd hs hD
      obtain ⟨env', p', h'⟩ := ih _ _ _ h1 (by rw [opStep_length]; exact hlen) hrest
      exact ⟨env', (Pre.append (Pre.cons c1 (Pre.nil _)) p').mono (by simp only [fuelItems, itemFuel]; omega), h'⟩
    | mul d a b =>
      simp only [chkL, Bool.and_eq_true, decide_eq_true_eq] at hchk
      obtain ⟨⟨⟨⟨⟨hd, ha⟩, hb⟩, hDa⟩, hDb⟩, hrest⟩ := hchk
      obtain ⟨c1, h1⟩ := step_mulL (P := P) (G := G) (X := X) henc hmul h hlen hd ha hb hDa hDb
      obtain ⟨env', p', h'⟩ := ih _ _ _ h1 (by rw [opStep_length]; exact hlen) hrest
      exact ⟨env', (Pre.append (Pre.cons c1 (Pre.nil _)) p').mono (by simp only [fuelItems, itemFuel]; omega), h'⟩
    | loop c lo hi d =>
      simp only [chkL, Bool.and_eq_true, decide_eq_true_eq] at hchk
      obtain ⟨⟨⟨⟨⟨hc, hlo⟩, hhi⟩, hd⟩, hD⟩, hrest⟩ := hchk
      have c0 : EvIn P G X 1 env (.assign c [] (.lit (lo : Int))) (env.set c (.int (lo : Int))) .norm := EvIn.assign rfl
      obtain ⟨env1, hl, h1⟩ := sq_loopL (P := P) (G := G) (X := X) henc hsq hc hd hhi hD (hi - lo) lo _ regs
        (h.frame c (.int (lo : Int)) hc) hlen (Env.set_same _ _ _) (by omega)
      obtain ⟨env', p', h'⟩ := ih _ _ _ h1 (by rw [foldl_opStep_length]; exact hlen) hrest
      exact ⟨env', (Pre.append (Pre.cons c0 (Pre.cons hl (Pre.nil _))) p').mono (by simp only [fuelItems, itemFuel]; omega), h'⟩

/-- `var t = new([4]uint64)` for a list of variables -/
def zeroVars (env : Env) : List Nat → Env
  | [] => env
  | v :: vs => zeroVars (env.set v (limbsV [0, 0, 0, 0])) vs

def zeroStmts (vs : List Nat) : List Stmt := vs.map (fun v => Stmt.assign v [] (.mk (.lit 4) (.lit 0)))

theorem pre_zeroVars : ∀ (vs : List Nat) (env : Env), Pre P G X (2 * vs.length) env (zeroStmts vs) (zeroVars env vs) := by
  intro vs
  induction vs with
  | nil => intro env; exact Pre.nil env
  | cons v vs ih =>
    intro env
    exact (Pre.cons (EvIn.assign (evalV_mk4 _)) (ih _)).mono (by simp only [List.length_cons]; omega)

end Generic


/-! ## The scalar chain -/

/-- the layout of `fn_58`: x = variable 1, z = variable 0, t0..t9 = variables 3..12; counters from 13 -/
def scalarLayout : Layout where
  n := 12
  vr := fun i => if i = 0 then 1 else if i = 1 then 0 else i + 1
  fsq := 54
  fmul := 52
  cmin := 13
  inj := by decide
  lt := by decide

/-- sm2ScalarFermatInvert_FiatAC as a list of items (extracted from the text of `fn_58`) -/
def scalarChainItems : List Item :=
  [.sq 4 0, .mul 5 0 4, .mul 6 0 5, .mul 2 0 6, .mul 3 4 2, .mul 1 4 3, .mul 6 6 1, .mul 8 4 6,
   .sq 4 8, .mul 7 0 4, .sq 4 7, .mul 4 0 4, .sq 9 4, .sq 10 9, .loop 13 1 6 10, .mul 9 9 10,
   .sq 10 9, .loop 14 1 5 10, .mul 10 4 10, .loop 15 0 13 10, .mul 9 9 10, .mul 9 0 9, .sq 10 9, .sq 9 10,
   .loop 16 1 2 9, .sq 11 9, .loop 17 1 32 11, .mul 11 9 11, .loop 18 0 29 11, .mul 10 10 11, .loop 19 0 33 10, .mul 9 9 10,
   .mul 9 3 9, .loop 20 0 4 9, .mul 9 3 9, .loop 21 0 3 9, .mul 9 0 9, .loop 22 0 11 9, .mul 8 8 9, .loop 23 0 6 8,
   .mul 7 7 8, .loop 24 0 5 7, .mul 7 6 7, .loop 25 0 3 7, .mul 7 5 7, .loop 26 0 3 7, .mul 7 0 7, .loop 27 0 7 7,
   .mul 7 3 7, .loop 28 0 5 7, .mul 7 5 7, .loop 29 0 9 7, .mul 7 2 7, .loop 30 0 5 7, .mul 7 2 7, .loop 31 0 5 7,
   .mul 7 6 7, .loop 32 0 5 7, .mul 7 1 7, .loop 33 0 4 7, .mul 6 6 7, .loop 34 0 2 6, .mul 5 5 6, .loop 35 0 7 5,
   .mul 4 4 5, .loop 36 0 2 4, .mul 4 0 4, .loop 37 0 10 4, .mul 4 1 4, .loop 38 0 5 4, .mul 4 3 4, .loop 39 0 5 4,
   .mul 3 3 4, .loop 40 0 4 3, .mul 3 2 3, .loop 41 0 4 3, .mul 2 2 3, .loop 42 0 9 2, .mul 1 1 2, .loop 43 0 5 1,
   .mul 1 0 1]

/-- the temporaries `t0..t9` -/
def scalarTemps : List Nat := [3, 4, 5, 6, 7, 8, 9, 10, 11, 12]

set_option maxRecDepth 100000 in
/-- the IR function is the image of `scalarChainItems` -/
theorem fn_58_body : fn_58.body =
    seqs ((zeroStmts scalarTemps ++ scalarChainItems.flatMap (stmtsL scalarLayout)) ++ [.ret [(.var 0)]]) := rfl

set_option maxRecDepth 100000 in
/-- the generated addition chain is the image of `scalarChainItems` -/
theorem scalarInverse_items : SMGo.Gen.AddChain.scalarInverse = scalarChainItems.flatMap Item.ops := by decide

/-- no register is read before it is written; loop counters are fresh; bounds are ordered and fit a Go `int` -/
theorem scalarChainItems_chk : chkL 12 13 [0] scalarChainItems = true := by decide
theorem scalarChainItems_defd : 1 ∈ defd [0] scalarChainItems := by decide

theorem fn_57_body : fn_57.body = seqs ([.call [3] 58 [(.idxc (.var 0) 0), (.idxc (.var 1) 0)], .assign 0 [.c 0] (.var 3)]
    ++ [.seq (.ret [(.var 0), (.var 0)]) .panic]) := rfl

/-- the program contains the generated scalar inversion functions -/
structure HasScalarInv (P : Prog) : Prop where
  h57 : P[57]? = some fn_57
  h58 : P[58]? = some fn_58

theorem prog_hasScalarInv : HasScalarInv prog := ⟨rfl, rfl⟩

/-- fuel for sm2ScalarFermatInvert_FiatAC given the fuels of sm2ScalarSquare and sm2ScalarMul -/
def fuelChainN (Fsq Fmul : Nat) : Nat := fuelItems Fsq Fmul scalarChainItems + 30

/-- the fuel in closed form: 253 squarings, 41 multiplications -/
theorem fuelChainN_eq (Fsq Fmul : Nat) : fuelChainN Fsq Fmul = 253 * Fsq + 41 * Fmul + 986 := by
  simp only [fuelChainN, scalarChainItems, fuelItems, itemFuel]
  omega

/-- fuel for (*SM2ScalarElement).Invert -/
def fuelScalarInvert (Fsq Fmul : Nat) : Nat := fuelChainN Fsq Fmul + 8

section Scalar
variable {β : Type} {P : Prog} {G : Nat → Val} {X : Oracle} {S : Model.Field.FieldOps β} {encS : β → List Nat} {Fsq Fmul : Nat}

theorem scalar_invert_eq (S : Model.Field.FieldOps β) (x : β) (hc : S.chain = SMGo.Gen.AddChain.scalarInverse)
    (hr : S.chainRegs = SMGo.Gen.AddChain.scalarInverse_regs) :
    Model.Field.invert S x =
      ((scalarChainItems.flatMap Item.ops).foldl (opStep S) (x :: List.replicate 11 S.zero)).getD 1 S.zero := by
  unfold Model.Field.invert SMGo.Model.AddChain.run
  rw [hc, hr, scalarInverse_items]
  rfl

/-- **sm2ScalarFermatInvert_FiatAC = `Model.Field.invert`** for the scalar field, for any old contents `z0` (four
    limbs below 2^64) of the destination.  `hsq`, `hmul`: the Fiat primitives sm2ScalarSquare (54) and sm2ScalarMul (52)
    compute `S.square`, `S.mul` on encodings into any destination of four limbs below 2^64; `henc`: encodings are four
    limbs below 2^64; `hchain`, `hregs`: the chain of `S` is the generated `scalarInverse`. -/
theorem scalarFermatInvert_computes (hi : HasScalarInv P) (henc : ∀ e, Out4 (encS e))
    (hsq : ∀ o a, Out4 o → Computes P G X f_fiat_sm2ScalarSquare Fsq [limbsV o, limbsV (encS a)] [limbsV (encS (S.square a))])
    (hmul : ∀ o a b, Out4 o →
      Computes P G X f_fiat_sm2ScalarMul Fmul [limbsV o, limbsV (encS a), limbsV (encS b)] [limbsV (encS (S.mul a b))])
    (hchain : S.chain = SMGo.Gen.AddChain.scalarInverse) (hregs : S.chainRegs = SMGo.Gen.AddChain.scalarInverse_regs)
    (z0 : List Nat) (hz0 : Out4 z0) (x : β) :
    Computes P G X f_fiat_sm2ScalarFermatInvert_FiatAC (fuelChainN Fsq Fmul) [limbsV z0, limbsV (encS x)]
      [limbsV (encS (Model.Field.invert S x))] := by
  let e0 : Env := Env.ofList [limbsV z0, limbsV (encS x)]
  have hpro := pre_zeroVars (P := P) (G := G) (X := X) scalarTemps e0
  have h0 : RegInvL scalarLayout encS S.zero (zeroVars e0 scalarTemps) (x :: List.replicate 11 S.zero) [0] := by
    refine ⟨fun i hi hm => ?_, fun i hi => ?_⟩
    · have : i = 0 := by simpa using hm
      subst this
      rfl
    · have hi' : i < 12 := hi
      have : i = 0 ∨ i = 1 ∨ i = 2 ∨ i = 3 ∨ i = 4 ∨ i = 5 ∨ i = 6 ∨ i = 7 ∨ i = 8 ∨ i = 9 ∨ i = 10 ∨ i = 11 := by omega
      rcases this with rfl | rfl | rfl | rfl | rfl | rfl | rfl | rfl | rfl | rfl | rfl | rfl
      · exact ⟨encS x, rfl, henc x⟩
      · exact ⟨z0, rfl, hz0⟩
      all_goals exact ⟨[0, 0, 0, 0], rfl, out4_zeros⟩
  obtain ⟨env', p', h'⟩ := items_okL (L := scalarLayout) (P := P) (G := G) (X := X) henc hsq hmul scalarChainItems _ _ [0] h0 rfl
    scalarChainItems_chk
  have hz := h'.val 1 (by decide) scalarChainItems_defd
  rw [← scalar_invert_eq S x hchain hregs] at hz
  have sr : evalVs G env' [(.var 0)] = some [limbsV (encS (Model.Field.invert S x))] := by
    simp only [evalVs_cons, evalVs_nil, evalV_var]
    rw [← hz]
    rfl
  refine Computes.of_body hi.h58 rfl rfl (env' := env') ?_
  rw [fn_58_body]
  exact ((Pre.append hpro p' _).1 _ _ _ (EvIn.ret sr)).mono (by simp only [fuelChainN, scalarTemps, List.length_cons, List.length_nil]; omega)

/-- **(*SM2ScalarElement).Invert = `Model.Field.invert`** (receiver with any old limbs `z0`, four limbs below 2^64):
    returns the new receiver and the pointer result -/
theorem scalarInvert_computes (hi : HasScalarInv P) (henc : ∀ e, Out4 (encS e))
    (hsq : ∀ o a, Out4 o → Computes P G X f_fiat_sm2ScalarSquare Fsq [limbsV o, limbsV (encS a)] [limbsV (encS (S.square a))])
    (hmul : ∀ o a b, Out4 o →
      Computes P G X f_fiat_sm2ScalarMul Fmul [limbsV o, limbsV (encS a), limbsV (encS b)] [limbsV (encS (S.mul a b))])
    (hchain : S.chain = SMGo.Gen.AddChain.scalarInverse) (hregs : S.chainRegs = SMGo.Gen.AddChain.scalarInverse_regs)
    (z0 : List Nat) (hz0 : Out4 z0) (x : β) :
    Computes P G X f_fiat_SM2ScalarElement_Invert (fuelScalarInvert Fsq Fmul) [elemV z0, elemV (encS x)]
      [elemV (encS (Model.Field.invert S x)), elemV (encS (Model.Field.invert S x))] := by
  let r := encS (Model.Field.invert S x)
  let e0 : Env := Env.ofList [elemV z0, elemV (encS x)]
  let e1 := e0.set 3 (limbsV r)
  let e2 := e1.set 0 (elemV r)
  have c1 : EvIn P G X (fuelChainN Fsq Fmul + 1) e0 (.call [3] 58 [(.idxc (.var 0) 0), (.idxc (.var 1) 0)]) e1 .norm := by
    refine (scalarFermatInvert_computes hi henc hsq hmul hchain hregs z0 hz0 x).call ?_ rfl
    have q0 : evalV G e0 (.idxc (.var 0) 0) = some (limbsV z0) := evalV_field0 rfl
    have q1 : evalV G e0 (.idxc (.var 1) 0) = some (limbsV (encS x)) := evalV_field0 rfl
    simp only [evalVs_cons, evalVs_nil, q0, q1]
  have c2 : EvIn P G X 1 e1 (.assign 0 [.c 0] (.var 3)) e2 .norm := by
    have s : evalV G e1 (.var 3) = some (limbsV r) := by simp [e1, Env.set]
    have g0 : e1 0 = .arr [limbsV z0] := by simp [e1, e0, Env.set, Env.ofList, elemV]
    exact EvIn.assignPath s (ks := [0]) (by simp [pathV_c]) (by rw [g0, updPath_c1 _ _ _ (by simp)]; rfl)
  have sr : evalVs G e2 [(.var 0), (.var 0)] = some [elemV r, elemV r] := by simp [evalVs_cons, e2, Env.set]
  refine Computes.of_body hi.h57 rfl rfl (env' := e2) ?_
  rw [fn_57_body]
  exact ((Pre.cons c1 (Pre.cons c2 (Pre.nil _)) _).1 _ _ _ (EvIn.seq_stop (EvIn.ret sr) (by simp))).mono
    (by simp only [fuelScalarInvert]; omega)

end Scalar

section Runs
variable {β : Type} {G : Nat → Val} {X : Oracle} {S : Model.Field.FieldOps β} {encS : β → List Nat} {Fsq Fmul : Nat}

/-- **sm2ScalarFermatInvert_FiatAC**, as a run of the generated program -/
theorem ir_scalarFermatInvert (henc : ∀ e, Out4 (encS e))
    (hsq : ∀ o a, Out4 o → Computes prog G X f_fiat_sm2ScalarSquare Fsq [limbsV o, limbsV (encS a)] [limbsV (encS (S.square a))])
    (hmul : ∀ o a b, Out4 o →
      Computes prog G X f_fiat_sm2ScalarMul Fmul [limbsV o, limbsV (encS a), limbsV (encS b)] [limbsV (encS (S.mul a b))])
    (hchain : S.chain = SMGo.Gen.AddChain.scalarInverse) (hregs : S.chainRegs = SMGo.Gen.AddChain.scalarInverse_regs)
    (z0 : List Nat) (hz0 : Out4 z0) (x : β) :
    ∀ f, fuelChainN Fsq Fmul ≤ f →
      runV prog G X f f_fiat_sm2ScalarFermatInvert_FiatAC [limbsV z0, limbsV (encS x)]
        = .ret [limbsV (encS (Model.Field.invert S x))] :=
  (scalarFermatInvert_computes prog_hasScalarInv henc hsq hmul hchain hregs z0 hz0 x).runV

/-- **(*SM2ScalarElement).Invert**, as a run of the generated program -/
theorem ir_scalarInvert (henc : ∀ e, Out4 (encS e))
    (hsq : ∀ o a, Out4 o → Computes prog G X f_fiat_sm2ScalarSquare Fsq [limbsV o, limbsV (encS a)] [limbsV (encS (S.square a))])
    (hmul : ∀ o a b, Out4 o →
      Computes prog G X f_fiat_sm2ScalarMul Fmul [limbsV o, limbsV (encS a), limbsV (encS b)] [limbsV (encS (S.mul a b))])
    (hchain : S.chain = SMGo.Gen.AddChain.scalarInverse) (hregs : S.chainRegs = SMGo.Gen.AddChain.scalarInverse_regs)
    (z0 : List Nat) (hz0 : Out4 z0) (x : β) :
    ∀ f, fuelScalarInvert Fsq Fmul ≤ f →
      runV prog G X f f_fiat_SM2ScalarElement_Invert [elemV z0, elemV (encS x)]
        = .ret [elemV (encS (Model.Field.invert S x)), elemV (encS (Model.Field.invert S x))] :=
  (scalarInvert_computes prog_hasScalarInv henc hsq hmul hchain hregs z0 hz0 x).runV

end Runs

#print axioms items_okL
#print axioms fn_58_body
#print axioms scalarInverse_items
#print axioms scalarFermatInvert_computes
#print axioms scalarInvert_computes
#print axioms ir_scalarFermatInvert
#print axioms ir_scalarInvert

end SMGo.Proofs.CTIRRefineScalarInv
