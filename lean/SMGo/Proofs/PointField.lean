/-
  C15, field layer: the instance `Model.SM2.Fp = montOps pParams` (Montgomery residues as natural
  numbers) against the prime field `ZMod p`.  The *value* of a residue `e` is
  `val e = e · R⁻¹ (mod p)`; `mul/add/sub/opp/square` are the field operations on values, results
  are reduced, and the wrappers `bytes / equal / isZero / toNat / invert / setBytes` are expressed
  through `val`.
-/
import SMGo.Model.SM2Inst
import SMGo.Proofs.CurveGroupTwoTorsion
import SMGo.Proofs.AddChainInv
import SMGo.Proofs.FiatWrappers

namespace SMGo.Proofs.PointField
open SMGo SMGo.Spec.SM2 SMGo.Model SMGo.Model.Field
open SMGo.Proofs.ModArith SMGo.Proofs.Prime
open SMGo.Proofs.CurveGroup (p_pos two_lt_p cast_inj)

/-- `R⁻¹ mod p` of the model (never evaluated outside the kernel) -/
def rinv : Nat := SM2.pParams.rinv
theorem rinv_def : rinv = SM2.pParams.rinv := rfl
attribute [irreducible] rinv

theorem pm : SM2.pParams.m = p := AddChainExp.pParams_m

theorem p_lt : p < 2 ^ 256 := by decide
theorem one_lt_p : 1 < p := by decide

theorem rinv_nat : (R * rinv) % p = 1 := by rw [rinv_def]; exact AddChainExp.rinv_p

/-- R · R⁻¹ = 1 in F_p -/
theorem R_mul_rinv : ((R : Nat) : ZMod p) * (rinv : ZMod p) = 1 := by
  have : ((R * rinv : Nat) : ZMod p) = ((1 : Nat) : ZMod p) := by
    rw [ZMod.natCast_eq_natCast_iff', rinv_nat, Nat.mod_eq_of_lt one_lt_p]
  simpa using this

theorem rinv_ne_zero : (rinv : ZMod p) ≠ 0 := right_ne_zero_of_mul_eq_one R_mul_rinv

/-- the field element a Montgomery residue stands for -/
def val (e : Nat) : ZMod p := (e : ZMod p) * (rinv : ZMod p)

/-! ### the operations, unfolded -/

theorem Fp_modulus : SM2.Fp.modulus = p := pm
theorem Fp_zero : SM2.Fp.zero = 0 := rfl
theorem Fp_setOne : SM2.Fp.setOne = R % p := by
  show R % SM2.pParams.m = _; rw [pm]
theorem Fp_mul (a b : Nat) : SM2.Fp.mul a b = a * b * rinv % p := by
  show a * b * SM2.pParams.rinv % SM2.pParams.m = _; rw [pm, rinv_def]
theorem Fp_square (a : Nat) : SM2.Fp.square a = a * a * rinv % p := by
  show a * a * SM2.pParams.rinv % SM2.pParams.m = _; rw [pm, rinv_def]
theorem Fp_add (a b : Nat) : SM2.Fp.add a b = (a + b) % p := by
  show (a + b) % SM2.pParams.m = _; rw [pm]
theorem Fp_sub (a b : Nat) : SM2.Fp.sub a b = (a + p - b % p) % p := by
  show (a + SM2.pParams.m - b % SM2.pParams.m) % SM2.pParams.m = _; rw [pm]
theorem Fp_opp (a : Nat) : SM2.Fp.opp a = (p - a % p) % p := by
  show (SM2.pParams.m - a % SM2.pParams.m) % SM2.pParams.m = _; rw [pm]
theorem Fp_fromMontgomery (a : Nat) : SM2.Fp.fromMontgomery a = a * rinv % p := by
  show a * SM2.pParams.rinv % SM2.pParams.m = _; rw [pm, rinv_def]
theorem Fp_toMontgomery (a : Nat) : SM2.Fp.toMontgomery a = a * R % p := by
  show a * R % SM2.pParams.m = _; rw [pm]
theorem Fp_ofRaw (l : List Nat) : SM2.Fp.ofRaw l = limbsToNat l := rfl
theorem Fp_raw (v : Nat) : SM2.Fp.raw v = natToLimbs v := rfl

/-! ### results are reduced -/

theorem mul_lt (a b : Nat) : SM2.Fp.mul a b < p := by rw [Fp_mul]; exact Nat.mod_lt _ p_pos
theorem square_lt (a : Nat) : SM2.Fp.square a < p := by rw [Fp_square]; exact Nat.mod_lt _ p_pos
theorem add_lt (a b : Nat) : SM2.Fp.add a b < p := by rw [Fp_add]; exact Nat.mod_lt _ p_pos
theorem sub_lt (a b : Nat) : SM2.Fp.sub a b < p := by rw [Fp_sub]; exact Nat.mod_lt _ p_pos
theorem opp_lt (a : Nat) : SM2.Fp.opp a < p := by rw [Fp_opp]; exact Nat.mod_lt _ p_pos
theorem setOne_lt : SM2.Fp.setOne < p := by rw [Fp_setOne]; exact Nat.mod_lt _ p_pos
theorem zero_lt : SM2.Fp.zero < p := p_pos
theorem toMontgomery_lt (a : Nat) : SM2.Fp.toMontgomery a < p := by
  rw [Fp_toMontgomery]; exact Nat.mod_lt _ p_pos

/-! ### the operations are the field operations on values -/

theorem val_mul (a b : Nat) : val (SM2.Fp.mul a b) = val a * val b := by
  rw [Fp_mul]; unfold val; push_cast [ZMod.natCast_mod]; ring

theorem val_square (a : Nat) : val (SM2.Fp.square a) = val a * val a := by
  rw [Fp_square]; unfold val; push_cast [ZMod.natCast_mod]; ring

theorem val_add (a b : Nat) : val (SM2.Fp.add a b) = val a + val b := by
  rw [Fp_add]; unfold val; push_cast [ZMod.natCast_mod]; ring

theorem val_sub (a b : Nat) : val (SM2.Fp.sub a b) = val a - val b := by
  rw [Fp_sub]; unfold val
  have h : b % p ≤ a + p := Nat.le_trans (Nat.le_of_lt (Nat.mod_lt _ p_pos)) (Nat.le_add_left _ _)
  rw [ZMod.natCast_mod, Nat.cast_sub h]
  push_cast [ZMod.natCast_mod, ZMod.natCast_self]
  ring

theorem val_opp (a : Nat) : val (SM2.Fp.opp a) = - val a := by
  rw [Fp_opp]; unfold val
  have h : a % p ≤ p := Nat.le_of_lt (Nat.mod_lt _ p_pos)
  rw [ZMod.natCast_mod, Nat.cast_sub h]
  push_cast [ZMod.natCast_mod, ZMod.natCast_self]
  ring

theorem val_zero : val SM2.Fp.zero = 0 := by rw [Fp_zero]; unfold val; simp

theorem val_zero' : val 0 = 0 := by unfold val; simp

theorem val_setOne : val SM2.Fp.setOne = 1 := by
  rw [Fp_setOne]; unfold val; rw [ZMod.natCast_mod]; exact R_mul_rinv

theorem val_toMontgomery (v : Nat) : val (SM2.Fp.toMontgomery v) = (v : ZMod p) := by
  rw [Fp_toMontgomery]; unfold val
  push_cast [ZMod.natCast_mod]
  rw [mul_assoc, R_mul_rinv, mul_one]

/-- the plain representative, as a cast -/
theorem cast_fromMontgomery (a : Nat) : ((a * rinv % p : Nat) : ZMod p) = val a := by
  unfold val; push_cast [ZMod.natCast_mod]; rfl

theorem fromMontgomery_lt (a : Nat) : a * rinv % p < p := Nat.mod_lt _ p_pos

/-- the plain representative is the canonical value of `val` -/
theorem fromMontgomery_eq_val (a : Nat) : a * rinv % p = (val a).val := by
  rw [← cast_fromMontgomery, ZMod.val_cast_of_lt (fromMontgomery_lt a)]

theorem fromMontgomery_eq_iff (a b : Nat) : a * rinv % p = b * rinv % p ↔ val a = val b := by
  unfold val
  rw [← ZMod.natCast_eq_natCast_iff']
  push_cast
  rfl

/-- the cast back: `e = val e · R` -/
theorem cast_eq_val_mul_R (e : Nat) : (e : ZMod p) = val e * ((R : Nat) : ZMod p) := by
  unfold val
  rw [mul_assoc, mul_comm (rinv : ZMod p), R_mul_rinv, mul_one]

/-- `val` is injective on reduced residues -/
theorem val_inj {a b : Nat} (ha : a < p) (hb : b < p) (h : val a = val b) : a = b := by
  apply (cast_inj ha hb).mp
  rw [cast_eq_val_mul_R a, cast_eq_val_mul_R b, h]

theorem val_eq_zero {a : Nat} (ha : a < p) : val a = 0 ↔ a = 0 := by
  constructor
  · intro h; exact val_inj ha p_pos (by rw [h, val_zero'])
  · rintro rfl; exact val_zero'

/-- a reduced residue is determined by its value: `toMontgomery` of the canonical value -/
theorem eq_toMontgomery {a : Nat} (ha : a < p) : a = SM2.Fp.toMontgomery ((val a).val) := by
  apply val_inj ha (toMontgomery_lt _)
  rw [val_toMontgomery, ZMod.natCast_zmod_val]

/-! ### wrappers -/

theorem bytes_eq (e : Nat) : Field.bytes SM2.Fp e = Bytes.ofNatBE 32 (e * rinv % p) := by
  have := FiatWrappers.bytes_montOps SM2.pParams e
  rw [pm, ← rinv_def] at this
  exact this

theorem lt_256_32 {v : Nat} (h : v < p) : v < 256 ^ 32 := by
  rw [FiatWrappers.pow_256_32]; exact Nat.lt_trans h p_lt

theorem bytes_inj (a b : Nat) : Field.bytes SM2.Fp a = Field.bytes SM2.Fp b ↔ val a = val b := by
  rw [bytes_eq, bytes_eq, ← fromMontgomery_eq_iff]
  constructor
  · intro h
    have := congrArg Bytes.toNatBE h
    rwa [FiatWrappers.toNatBE_ofNatBE _ _ (lt_256_32 (fromMontgomery_lt a)),
      FiatWrappers.toNatBE_ofNatBE _ _ (lt_256_32 (fromMontgomery_lt b))] at this
  · intro h; rw [h]

theorem equal_eq_one (a b : Nat) : Field.equal SM2.Fp a b = 1 ↔ val a = val b := by
  unfold Field.equal
  rw [← bytes_inj]
  by_cases h : Field.bytes SM2.Fp a = Field.bytes SM2.Fp b <;> simp [h]

theorem isZero_eq_one (a : Nat) : Field.isZero SM2.Fp a = 1 ↔ val a = 0 := by
  unfold Field.isZero
  rw [← val_zero, ← bytes_inj]
  by_cases h : Field.bytes SM2.Fp a = Field.bytes SM2.Fp SM2.Fp.zero <;> simp [h]

theorem toNat_eq (e : Nat) : Field.toNat SM2.Fp e = e * rinv % p := by
  unfold Field.toNat
  rw [bytes_eq, FiatWrappers.toNatBE_ofNatBE _ _ (lt_256_32 (fromMontgomery_lt e))]

theorem cast_toNat (e : Nat) : ((Field.toNat SM2.Fp e : Nat) : ZMod p) = val e := by
  rw [toNat_eq, cast_fromMontgomery]

theorem toNat_lt (e : Nat) : Field.toNat SM2.Fp e < p := by
  rw [toNat_eq]; exact fromMontgomery_lt e

/-- `Invert` (the regenerated addition chain, exponent p − 2) is the field inverse on values -/
theorem val_invert (z : Nat) : val (Field.invert SM2.Fp z) = (val z)⁻¹ := by
  have h := AddChainExp.fromMontgomery_invert_Fp z
  rw [Fp_fromMontgomery, Fp_fromMontgomery] at h
  have h2 := congrArg (fun n : Nat => (n : ZMod p)) h
  rw [cast_fromMontgomery, ZMod.natCast_mod, Nat.cast_pow, cast_fromMontgomery] at h2
  rw [h2, zmod_pow_sub_two two_lt_p]

/-- `SetBytes` of the coordinate field -/
theorem setBytes_eq (v : Bytes) :
    Field.setBytes SM2.Fp v =
      if v.length = 32 ∧ Bytes.toNatBE v < p then .ok (SM2.Fp.toMontgomery (Bytes.toNatBE v)) else .err := by
  have h := FiatWrappers.setBytes_spec SM2.pParams (by rw [pm]; exact one_lt_p)
    (by rw [pm]; exact Nat.le_of_lt p_lt) (by rw [pm]; exact AddChainExp.rinv_p) v
  rw [pm] at h
  rw [Fp_toMontgomery]
  exact h

end SMGo.Proofs.PointField
