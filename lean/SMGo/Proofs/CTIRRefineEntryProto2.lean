/-
  Refinement, the remaining entry points of /repo/sm2/sm2.go in the extended program `SMGo.Gen.CTIRProgProto.prog`:
    `fn_108` sm2.CheckOnCurve, `fn_109` sm2.SignZa, `fn_110` sm2.Sign, `fn_111` sm2.VerifyZa, `fn_112` sm2.Verify
  against `Model.SM2.checkOnCurve`, `signZa`, `sign`, `verifyZa`, `verify` on `Model.SM2.ctxFiat`, CLOSED on
  `CTIRProgProto.prog` / `CTIRProgProto.globals`; and the hypothesis-free statement for ScalarMixedMult_Unsafe (100).

  The five functions are thin wrappers: a few assignments, the external `sm3.Sum` (12), calls of 33, 105, 106, 98, 107 and
  of each other.  §1 is the small toolkit (`FnEnds`: the outcome of a callee as `Computes` / `CalleeFails`; tail calls);
  §2 transfers the statements about `CTIRProg.prog` on `CTIRProg.globals` (CTIRRefineEntry) to the extended program on
  its own globals (`runV_GP`: the 100 functions of `CTIRProg.prog` read no global ≥ 19, checked by the kernel through
  the renaming theorem with a map of globals that clamps); §3–§7 the five bodies, statement by statement (style of
  CTIRRefineVerify: `Ends`); §8 the closed statements; §9 ScalarMixedMult_Unsafe.

  Model / IR DISAGREEMENTS: none found.  (`sm2.Sign` / `sm2.Verify` on a refusal of ZA: model `.err` resp. `.ok false`,
  IR `(nil, nil, err)` resp. `(false, err)`; `sm2.CheckOnCurve` does not evaluate `y` when `x` is refused: same verdict.)
-/
import SMGo.Proofs.CTIRRefineEntryProto
open SMGo SMGo.Model.CTIR SMGo.Gen.CTIRProg SMGo.Proofs.CTIRRefineUtils SMGo.Proofs.CTIRRefineField
open SMGo.Proofs.CTIRRefineClosed SMGo.Proofs.CTIRRefineEntry SMGo.Proofs.CTIRRefineEntryProto
open SMGo.Proofs.CTIRRefineComb (CalleeFails Fails nilPointV)
open SMGo.Proofs.CTIRRefineVerify (Ends)
open SMGo.Proofs.CTIRRefineRename (Renames renF)
set_option linter.unusedSimpArgs false
set_option linter.unusedVariables false

namespace SMGo.Proofs.CTIRRefineEntryProto2

/-! ## 1. Toolkit: the outcome of a callee, tail calls -/

section Toolkit
variable {P : Prog} {G : Nat → Val} {O : Oracle}

/-- how function `g` ends on `args`, against a specification: `none` = it fails (panics or is stuck), `some Q` = it
    returns, with any fuel ≥ `K`, values satisfying `Q` -/
def FnEnds (P : Prog) (G : Nat → Val) (O : Oracle) (K g : Nat) (args : List Val) : Option (List Val → Prop) → Prop
  | none => CalleeFails P G O g args
  | some Q => ∃ vs, Q vs ∧ Computes P G O g K args vs

theorem FnEnds.of_body {K g : Nat} {args : List Val} {fn : Fn} {spec : Option (List Val → Prop)} (hg : P[g]? = some fn)
    (hs : fn.stub = false) (hn : args.length = fn.nparams) (h : Ends P G O K (Env.ofList args) fn.body spec) :
    FnEnds P G O K g args spec := by
  cases spec with
  | none => exact CTIRRefineVerify.calleeFails_of_body hg hs hn h
  | some Q => obtain ⟨env', vs, hq, he⟩ := h; exact ⟨vs, hq, Computes.of_body hg hs hn he⟩

theorem FnEnds.mono {K K' g : Nat} {args : List Val} {spec : Option (List Val → Prop)} (h : FnEnds P G O K g args spec)
    (hK : K ≤ K') : FnEnds P G O K' g args spec := by
  cases spec with
  | none => exact h
  | some Q => obtain ⟨vs, hq, hc⟩ := h; exact ⟨vs, hq, hc.mono hK⟩

/-- run level -/
theorem FnEnds.runV_some {K g : Nat} {args : List Val} {Q : List Val → Prop} (h : FnEnds P G O K g args (some Q)) :
    ∃ vs, Q vs ∧ ∀ f, K ≤ f → runV P G O f g args = .ret vs := by
  obtain ⟨vs, hq, hc⟩ := h; exact ⟨vs, hq, hc.runV⟩

theorem FnEnds.runV_none {K g : Nat} {args : List Val} (h : FnEnds P G O K g args none) :
    (∃ F, ∀ f, F ≤ f → runV P G O f g args = .panic) ∨ (∀ f, runV P G O f g args = .stuck) :=
  CTIRRefineWrap.runV_of_calleeFails h

/-- a call whose results are returned at once: `a, b, c := g(args); return a, b, c` -/
theorem Ends.tail3 {env : Env} {x y z g K : Nat} {args : List Expr} {vs : List Val} {spec : Option (List Val → Prop)}
    (ha : evalVs G env args = some vs) (hxy : x ≠ y) (hxz : x ≠ z) (hyz : y ≠ z) (h : FnEnds P G O K g vs spec)
    (h3 : ∀ Q, spec = some Q → ∀ rs, Q rs → ∃ a b c, rs = [a, b, c]) :
    Ends P G O (K + 4) env (seqs [.call [x, y, z] g args, .ret [(.var x), (.var y), (.var z)], .panic]) spec := by
  cases spec with
  | none => exact Fails.seq_left (Fails.call ha h)
  | some Q =>
    obtain ⟨rs, hq, hc⟩ := h
    obtain ⟨a, b, c, rfl⟩ := h3 Q rfl rs hq
    have c1 := hc.call (env := env) (lhs := [x, y, z]) ha (env1 := ((env.set x a).set y b).set z c) rfl
    have r : evalVs G (((env.set x a).set y b).set z c) [(.var x), (.var y), (.var z)] = some [a, b, c] := by
      simp only [evalVs_cons, evalVs_nil, evalV_var, Env.set, if_neg hxy, if_neg hxz, if_neg hyz, ↓reduceIte]
    exact ⟨_, _, hq, (EvIn.seq c1 (EvIn.seq_stop (EvIn.ret r) (by simp))).mono (by omega)⟩

/-- `a, b := g(args); return a, b` -/
theorem Ends.tail2 {env : Env} {x y g K : Nat} {args : List Expr} {vs : List Val} {spec : Option (List Val → Prop)}
    (ha : evalVs G env args = some vs) (hxy : x ≠ y) (h : FnEnds P G O K g vs spec)
    (h2 : ∀ Q, spec = some Q → ∀ rs, Q rs → ∃ a b, rs = [a, b]) :
    Ends P G O (K + 4) env (seqs [.call [x, y] g args, .ret [(.var x), (.var y)], .panic]) spec := by
  cases spec with
  | none => exact Fails.seq_left (Fails.call ha h)
  | some Q =>
    obtain ⟨rs, hq, hc⟩ := h
    obtain ⟨a, b, rfl⟩ := h2 Q rfl rs hq
    have c1 := hc.call (env := env) (lhs := [x, y]) ha (env1 := (env.set x a).set y b) rfl
    have r : evalVs G ((env.set x a).set y b) [(.var x), (.var y)] = some [a, b] := by
      simp only [evalVs_cons, evalVs_nil, evalV_var, Env.set, if_neg hxy, ↓reduceIte]
    exact ⟨_, _, hq, (EvIn.seq c1 (EvIn.seq_stop (EvIn.ret r) (by simp))).mono (by omega)⟩

end Toolkit

/-! ## 2. From `CTIRProg.prog` on `CTIRProg.globals` to the extended program on its globals -/

/-- the map of globals that keeps 0 … 18 and sends everything else to an unused number -/
def γ19 (k : Nat) : Nat := if k < 19 then k else 20

set_option maxRecDepth 1000000 in
/-- no function of `CTIRProg.prog` mentions a global ≥ 19 (kernel evaluation of the renaming) -/
theorem ren19 : prog.map (renF id γ19) = prog := by kernel_rfl

theorem renames19 : Renames prog prog id γ19 (List.range prog.length) := by
  intro g hg
  obtain ⟨fn, h1, _, h3⟩ := CTIRRefineRename.renames_append prog [] CTIRRefineRename.prog_closed g hg
  refine ⟨fn, h1, ?_, h3⟩
  have e : (prog.map (renF id γ19))[g]? = some (renF id γ19 fn) := by rw [List.getElem?_map, h1]; rfl
  rw [ren19] at e
  exact e

theorem globals_clamp : (fun i => GP (γ19 i)) = globals := by
  funext i
  by_cases h : i < 19
  · simp only [γ19, if_pos h]; exact gp i h
  · simp only [γ19, if_neg h]
    have e : globals i = .int 0 := by
      unfold globals mkG
      rw [List.getD_eq_getElem?_getD, List.getElem?_eq_none (by simp only [List.length_cons, List.length_nil]; omega)]
      rfl
    rw [e]; rfl

theorem prog_length : prog.length = 100 := rfl

/-- **the runs of the functions of `CTIRProg.prog` on `CTIRProg.globals` are their runs in the extended program on
    `CTIRProgProto.globals`**, at every fuel, for every oracle -/
theorem runV_GP {X : Oracle} {g : Nat} (hg : g < 100) (f : Nat) (args : List Val) :
    runV PX GP X f g args = runV prog globals X f g args := by
  rw [CTIRRefineRename.runV_proto_of_prog hg]
  have h := CTIRRefineRename.runV_ren (G' := GP) (X := X) renames19 (g := g) (List.mem_range.mpr (by rw [prog_length]; exact hg)) f args
  rw [globals_clamp] at h
  exact h

/-! ## 3. The specifications of the results, by the outcome of the model -/

/-- Sign / SignZa / SignHashed: `(r, s, nil)`, or `(nil, nil, err)` with a non-nil error, or a failure -/
def sSpec : Outcome ((Bytes × Bytes) × Nat) → Option (List Val → Prop)
  | .ok ((r, s), _) => some (fun vs => vs = [bytesV r, bytesV s, .int 0])
  | .err => some (fun vs => ∃ code : Int, code ≠ 0 ∧ vs = [bytesV [], bytesV [], .int code])
  | .panic => none

theorem sSpec_three (o : Outcome ((Bytes × Bytes) × Nat)) :
    ∀ Q, sSpec o = some Q → ∀ rs, Q rs → ∃ a b c, rs = [a, b, c] := by
  intro Q hQ rs hq
  match o, hQ with
  | .ok ((r, s), _), hQ => cases hQ; exact ⟨_, _, _, hq⟩
  | .err, hQ => cases hQ; obtain ⟨code, _, rfl⟩ := hq; exact ⟨_, _, _, rfl⟩

/-- ZA: `(za, nil)` or `(nil, err)`; the model does not panic -/
def zSpec : Outcome Bytes → Option (List Val → Prop)
  | .ok z => some (fun vs => vs = [bytesV z, .int 0])
  | .err => some (fun vs => vs = [.arr [], .int 1])
  | .panic => some (fun _ => False)

abbrev vSpec := CTIRRefineVerify.vSpec

theorem vSpec_two (o : Outcome Bool) : ∀ Q, vSpec o = some Q → ∀ rs, Q rs → ∃ a b, rs = [a, b] := by
  intro Q hQ rs hq
  match o, hQ with
  | .ok b, hQ => cases hQ; obtain ⟨e', _, _, rfl⟩ := hq; exact ⟨_, _, rfl⟩
  | .err, hQ => cases hQ; exact hq.elim

/-! ## 4. `sm2.SignZa` (`fn_109`) and `sm2.VerifyZa` (`fn_111`): hash, then the tail call -/

section Bodies
variable {P : Prog} {G : Nat → Val} {O : Oracle}
open SMGo.Gen.CTIRProgProto (fn_108 fn_109 fn_110 fn_111 fn_112)

theorem mk00 (env : Env) : evalV G env (.mk (.lit 0) (.lit 0)) = some (bytesV []) := rfl

def szPre : List Stmt := [.assign 4 [] (.mk (.lit 0) (.lit 0)),
    .assign 5 [] (.mk (.lit 0) (.lit 0)),
    .assign 6 [] (.lit 0),
    .assign 8 [] (.mk (.lit 0) (.lit 0)),
    .assign 8 [] (.cat (.var 8) (.var 2)),
    .assign 8 [] (.cat (.var 8) (.var 3)),
    .ext [9] 12 false [(.var 8)],
    .assign 10 [] (.var 9)]

def szTail : Stmt := seqs [.call [11, 12, 13] 98 [(.var 0), (.var 1), (.var 10)], .ret [(.var 11), (.var 12), (.var 13)], .panic]

theorem fn_109_body : fn_109.body = seqs (szPre ++ [szTail]) := rfl

/-- **the body of SignZa**: whatever SignHashed (98) does on `(rand, priv, SM3(za ‖ msg))`, SignZa does on
    `(rand, priv, za, msg)`; `hSum`: the external `sm3.Sum` hashes the bytes written -/
theorem signZa_body (hSum : ∀ m : Bytes, O 12 [bytesV m] = [bytesV (Spec.SM3.hash m)]) (rd : Val) (priv za msg : Bytes)
    {K : Nat} {spec : Option (List Val → Prop)}
    (h98 : FnEnds P G O K 98 [rd, bytesV priv, bytesV (Spec.SM3.hash (za ++ msg))] spec)
    (h3 : ∀ Q, spec = some Q → ∀ rs, Q rs → ∃ a b c, rs = [a, b, c]) :
    Ends P G O (K + 30) (Env.ofList [rd, bytesV priv, bytesV za, bytesV msg]) fn_109.body spec := by
  let e0 : Env := Env.ofList [rd, bytesV priv, bytesV za, bytesV msg]
  let e1 := e0.set 4 (bytesV [])
  let e2 := e1.set 5 (bytesV [])
  let e3 := e2.set 6 (.int 0)
  let e4 := e3.set 8 (bytesV [])
  let e5 := e4.set 8 (bytesV ([] ++ za))
  let e6 := e5.set 8 (bytesV (([] ++ za) ++ msg))
  let e7 := e6.set 9 (bytesV (Spec.SM3.hash (za ++ msg)))
  let e8 := e7.set 10 (bytesV (Spec.SM3.hash (za ++ msg)))
  have c1 : EvIn P G O 1 e0 (.assign 4 [] (.mk (.lit 0) (.lit 0))) e1 .norm := EvIn.assign (mk00 _)
  have c2 : EvIn P G O 1 e1 (.assign 5 [] (.mk (.lit 0) (.lit 0))) e2 .norm := EvIn.assign (mk00 _)
  have c3 : EvIn P G O 1 e2 (.assign 6 [] (.lit 0)) e3 .norm := EvIn.assign rfl
  have c4 : EvIn P G O 1 e3 (.assign 8 [] (.mk (.lit 0) (.lit 0))) e4 .norm := EvIn.assign (mk00 _)
  have c5 : EvIn P G O 1 e4 (.assign 8 [] (.cat (.var 8) (.var 2))) e5 .norm :=
    EvIn.assign (CTIRRefineVerify.evalV_catB (CTIRRefineVerify.evar rfl) (CTIRRefineVerify.evar rfl))
  have c6 : EvIn P G O 1 e5 (.assign 8 [] (.cat (.var 8) (.var 3))) e6 .norm :=
    EvIn.assign (CTIRRefineVerify.evalV_catB (CTIRRefineVerify.evar rfl) (CTIRRefineVerify.evar rfl))
  have c7 : EvIn P G O 1 e6 (.ext [9] 12 false [(.var 8)]) e7 .norm := by
    refine CTIRRefineVerify.ext1 (vs := [bytesV (([] ++ za) ++ msg)]) ?_ ?_
    · simp only [evalVs_cons, evalVs_nil, evalV_var]; rfl
    · rw [hSum]; rfl
  have c8 : EvIn P G O 1 e7 (.assign 10 [] (.var 9)) e8 .norm := EvIn.assign (CTIRRefineVerify.evar rfl)
  have hp : Pre P G O 16 e0 szPre e8 :=
    Pre.cons c1 (Pre.cons c2 (Pre.cons c3 (Pre.cons c4 (Pre.cons c5 (Pre.cons c6 (Pre.cons c7 (Pre.cons c8 (Pre.nil _))))))))
  have ha : evalVs G e8 [(.var 0), (.var 1), (.var 10)] = some [rd, bytesV priv, bytesV (Spec.SM3.hash (za ++ msg))] := by
    simp only [evalVs_cons, evalVs_nil, evalV_var]; rfl
  rw [fn_109_body]
  exact (Ends.pre hp (Ends.tail3 ha (by decide) (by decide) (by decide) h98 h3)).mono (by omega)

def vzPre : List Stmt := [.assign 7 [] (.mk (.lit 0) (.lit 0)),
    .assign 7 [] (.cat (.var 7) (.var 2)),
    .assign 7 [] (.cat (.var 7) (.var 3)),
    .ext [8] 12 false [(.var 7)],
    .assign 9 [] (.var 8)]

def vzTail : Stmt := seqs [.call [10, 11] 107 [(.var 0), (.var 1), (.var 9), (.var 4), (.var 5)], .ret [(.var 10), (.var 11)], .panic]

theorem fn_111_body : fn_111.body = seqs (vzPre ++ [vzTail]) := rfl

/-- **the body of VerifyZa**: whatever VerifyHashed (107) does on `(pubx, puby, SM3(za ‖ msg), r, s)` -/
theorem verifyZa_body (hSum : ∀ m : Bytes, O 12 [bytesV m] = [bytesV (Spec.SM3.hash m)]) (pubx puby za msg r s : Bytes)
    {K : Nat} {spec : Option (List Val → Prop)}
    (h107 : FnEnds P G O K 107 [bytesV pubx, bytesV puby, bytesV (Spec.SM3.hash (za ++ msg)), bytesV r, bytesV s] spec)
    (h2 : ∀ Q, spec = some Q → ∀ rs, Q rs → ∃ a b, rs = [a, b]) :
    Ends P G O (K + 30) (Env.ofList [bytesV pubx, bytesV puby, bytesV za, bytesV msg, bytesV r, bytesV s]) fn_111.body spec := by
  let e0 : Env := Env.ofList [bytesV pubx, bytesV puby, bytesV za, bytesV msg, bytesV r, bytesV s]
  let e1 := e0.set 7 (bytesV [])
  let e2 := e1.set 7 (bytesV ([] ++ za))
  let e3 := e2.set 7 (bytesV (([] ++ za) ++ msg))
  let e4 := e3.set 8 (bytesV (Spec.SM3.hash (za ++ msg)))
  let e5 := e4.set 9 (bytesV (Spec.SM3.hash (za ++ msg)))
  have c1 : EvIn P G O 1 e0 (.assign 7 [] (.mk (.lit 0) (.lit 0))) e1 .norm := EvIn.assign (mk00 _)
  have c2 : EvIn P G O 1 e1 (.assign 7 [] (.cat (.var 7) (.var 2))) e2 .norm :=
    EvIn.assign (CTIRRefineVerify.evalV_catB (CTIRRefineVerify.evar rfl) (CTIRRefineVerify.evar rfl))
  have c3 : EvIn P G O 1 e2 (.assign 7 [] (.cat (.var 7) (.var 3))) e3 .norm :=
    EvIn.assign (CTIRRefineVerify.evalV_catB (CTIRRefineVerify.evar rfl) (CTIRRefineVerify.evar rfl))
  have c4 : EvIn P G O 1 e3 (.ext [8] 12 false [(.var 7)]) e4 .norm := by
    refine CTIRRefineVerify.ext1 (vs := [bytesV (([] ++ za) ++ msg)]) ?_ ?_
    · simp only [evalVs_cons, evalVs_nil, evalV_var]; rfl
    · rw [hSum]; rfl
  have c5 : EvIn P G O 1 e4 (.assign 9 [] (.var 8)) e5 .norm := EvIn.assign (CTIRRefineVerify.evar rfl)
  have hp : Pre P G O 10 e0 vzPre e5 := Pre.cons c1 (Pre.cons c2 (Pre.cons c3 (Pre.cons c4 (Pre.cons c5 (Pre.nil _)))))
  have ha : evalVs G e5 [(.var 0), (.var 1), (.var 9), (.var 4), (.var 5)]
      = some [bytesV pubx, bytesV puby, bytesV (Spec.SM3.hash (za ++ msg)), bytesV r, bytesV s] := by
    simp only [evalVs_cons, evalVs_nil, evalV_var]; rfl
  rw [fn_111_body]
  exact (Ends.pre hp (Ends.tail2 ha (by decide) h107 h2)).mono (by omega)

end Bodies


/-! ## 5. `sm2.Sign` (`fn_110`) and `sm2.Verify` (`fn_112`): ZA, the error test, then the tail call -/

section Bodies2
variable {P : Prog} {G : Nat → Val} {O : Oracle}
open SMGo.Gen.CTIRProgProto (fn_108 fn_110 fn_112)

theorem ne0 {env : Env} {v : Nat} {n : Int} (h : env v = .int n) :
    evalV G env (.op2 .ne (.var v) (.lit 0)) = some (.int (ofBool (n != 0))) := CTIRRefineKeys.ne0_val h

def sgPre : List Stmt := [.assign 6 [] (.mk (.lit 0) (.lit 0)),
    .assign 7 [] (.mk (.lit 0) (.lit 0)),
    .assign 8 [] (.lit 0),
    .assign 10 [] (.mk (.lit 0) (.lit 0)),
    .call [11, 12] 106 [(.var 0), (.var 1), (.var 2)],
    .assign 10 [] (.var 11),
    .assign 8 [] (.var 12)]

def sgIte : Stmt := .ite (.op2 .ne (.var 8) (.lit 0)) (.ret [(.var 6), (.var 7), (.var 8)]) .skip
def sgTail : Stmt := seqs [.call [13, 14, 15] 109 [(.var 3), (.var 4), (.var 10), (.var 5)], .ret [(.var 13), (.var 14), (.var 15)], .panic]

theorem fn_110_body_a : fn_110.body = seqs (sgPre ++ [.seq sgIte sgTail]) := rfl
theorem fn_110_body_b : fn_110.body = seqs ((sgPre ++ [sgIte]) ++ [sgTail]) := rfl

/-- the common prefix of Sign, given what ZA (106) returns -/
theorem sign_pre {Kz : Nat} (idb pubx puby : Bytes) (rd : Val) (priv msg : Bytes) (zv : Val) (code : Int)
    (h106 : Computes P G O 106 Kz [bytesV idb, bytesV pubx, bytesV puby] [zv, .int code]) :
    ∃ env, Pre P G O (Kz + 20) (Env.ofList [bytesV idb, bytesV pubx, bytesV puby, rd, bytesV priv, bytesV msg]) sgPre env ∧
      env 3 = rd ∧ env 4 = bytesV priv ∧ env 5 = bytesV msg ∧ env 6 = bytesV [] ∧ env 7 = bytesV [] ∧
      env 8 = .int code ∧ env 10 = zv := by
  let e0 : Env := Env.ofList [bytesV idb, bytesV pubx, bytesV puby, rd, bytesV priv, bytesV msg]
  let e1 := e0.set 6 (bytesV [])
  let e2 := e1.set 7 (bytesV [])
  let e3 := e2.set 8 (.int 0)
  let e4 := e3.set 10 (bytesV [])
  let e5 := (e4.set 11 zv).set 12 (.int code)
  let e6 := e5.set 10 zv
  let e7 := e6.set 8 (.int code)
  have c1 : EvIn P G O 1 e0 (.assign 6 [] (.mk (.lit 0) (.lit 0))) e1 .norm := EvIn.assign (mk00 _)
  have c2 : EvIn P G O 1 e1 (.assign 7 [] (.mk (.lit 0) (.lit 0))) e2 .norm := EvIn.assign (mk00 _)
  have c3 : EvIn P G O 1 e2 (.assign 8 [] (.lit 0)) e3 .norm := EvIn.assign rfl
  have c4 : EvIn P G O 1 e3 (.assign 10 [] (.mk (.lit 0) (.lit 0))) e4 .norm := EvIn.assign (mk00 _)
  have c5 : EvIn P G O (Kz + 1) e4 (.call [11, 12] 106 [(.var 0), (.var 1), (.var 2)]) e5 .norm := by
    refine h106.call ?_ rfl
    simp only [evalVs_cons, evalVs_nil, evalV_var]; rfl
  have c6 : EvIn P G O 1 e5 (.assign 10 [] (.var 11)) e6 .norm := EvIn.assign (CTIRRefineVerify.evar rfl)
  have c7 : EvIn P G O 1 e6 (.assign 8 [] (.var 12)) e7 .norm := EvIn.assign (CTIRRefineVerify.evar rfl)
  exact ⟨e7, (Pre.cons c1 (Pre.cons c2 (Pre.cons c3 (Pre.cons c4 (Pre.cons c5 (Pre.cons c6 (Pre.cons c7 (Pre.nil _)))))))).mono
    (by omega), rfl, rfl, rfl, rfl, rfl, rfl, rfl⟩

/-- **the body of Sign, ZA succeeds**: whatever SignZa (109) does on `(rand, priv, za, msg)` -/
theorem sign_body_ok {Kz K : Nat} (idb pubx puby : Bytes) (rd : Val) (priv msg z : Bytes)
    (h106 : Computes P G O 106 Kz [bytesV idb, bytesV pubx, bytesV puby] [bytesV z, .int 0])
    {spec : Option (List Val → Prop)} (h109 : FnEnds P G O K 109 [rd, bytesV priv, bytesV z, bytesV msg] spec)
    (h3 : ∀ Q, spec = some Q → ∀ rs, Q rs → ∃ a b c, rs = [a, b, c]) :
    Ends P G O (Kz + K + 40) (Env.ofList [bytesV idb, bytesV pubx, bytesV puby, rd, bytesV priv, bytesV msg]) fn_110.body spec := by
  obtain ⟨env, hp, g3, g4, g5, g6, g7, g8, g10⟩ := sign_pre idb pubx puby rd priv msg (bytesV z) 0 h106
  have ci : EvIn P G O 2 env sgIte env .norm := EvIn.ite (ne0 g8) (CTIRRefineVerify.asBool_ofBool _) (EvIn.skip _)
  have hp2 := Pre.append hp (Pre.cons ci (Pre.nil _))
  have ha : evalVs G env [(.var 3), (.var 4), (.var 10), (.var 5)] = some [rd, bytesV priv, bytesV z, bytesV msg] := by
    simp only [evalVs_cons, evalVs_nil, evalV_var, g3, g4, g5, g10]
  rw [fn_110_body_b]
  exact (Ends.pre hp2 (Ends.tail3 ha (by decide) (by decide) (by decide) h109 h3)).mono (by omega)

/-- **the body of Sign, ZA refuses** (`len(id) ≥ 8192`): `(nil, nil, err)` -/
theorem sign_body_err {Kz : Nat} (idb pubx puby : Bytes) (rd : Val) (priv msg : Bytes)
    (h106 : Computes P G O 106 Kz [bytesV idb, bytesV pubx, bytesV puby] [.arr [], .int 1]) :
    Ends P G O (Kz + 40) (Env.ofList [bytesV idb, bytesV pubx, bytesV puby, rd, bytesV priv, bytesV msg]) fn_110.body
      (some (fun vs => vs = [bytesV [], bytesV [], .int 1])) := by
  obtain ⟨env, hp, g3, g4, g5, g6, g7, g8, g10⟩ := sign_pre idb pubx puby rd priv msg (.arr []) 1 h106
  have hr : evalVs G env [(.var 6), (.var 7), (.var 8)] = some [bytesV [], bytesV [], .int 1] := by
    simp only [evalVs_cons, evalVs_nil, evalV_var, g6, g7, g8]
  rw [fn_110_body_a]
  have h1 : Ends P G O 1 env (.ret [(.var 6), (.var 7), (.var 8)]) (some (fun vs => vs = [bytesV [], bytesV [], .int 1])) :=
    Ends.ret hr rfl
  have h2 : Ends P G O 2 env sgIte (some (fun vs => vs = [bytesV [], bytesV [], .int 1])) :=
    Ends.ite (d := true) (ne0 g8) (CTIRRefineVerify.asBool_ofBool _) h1
  have h3 : Ends P G O 3 env (.seq sgIte sgTail) (some (fun vs => vs = [bytesV [], bytesV [], .int 1])) := Ends.seq_stop h2
  exact (Ends.pre hp h3).mono (by omega)

def vfPre : List Stmt := [.call [7, 8] 106 [(.var 0), (.var 1), (.var 2)],
    .assign 9 [] (.var 7),
    .assign 10 [] (.var 8)]

def vfIte : Stmt := .ite (.op2 .ne (.var 10) (.lit 0)) (.ret [(.lit 0), (.var 10)]) .skip
def vfTail : Stmt := seqs [.call [11, 12] 111 [(.var 1), (.var 2), (.var 9), (.var 3), (.var 4), (.var 5)], .ret [(.var 11), (.var 12)], .panic]

theorem fn_112_body_a : fn_112.body = seqs (vfPre ++ [.seq vfIte vfTail]) := rfl
theorem fn_112_body_b : fn_112.body = seqs ((vfPre ++ [vfIte]) ++ [vfTail]) := rfl

theorem verify_pre {Kz : Nat} (idb pubx puby msg r s : Bytes) (zv : Val) (code : Int)
    (h106 : Computes P G O 106 Kz [bytesV idb, bytesV pubx, bytesV puby] [zv, .int code]) :
    ∃ env, Pre P G O (Kz + 10) (Env.ofList [bytesV idb, bytesV pubx, bytesV puby, bytesV msg, bytesV r, bytesV s]) vfPre env ∧
      env 1 = bytesV pubx ∧ env 2 = bytesV puby ∧ env 3 = bytesV msg ∧ env 4 = bytesV r ∧ env 5 = bytesV s ∧
      env 9 = zv ∧ env 10 = .int code := by
  let e0 : Env := Env.ofList [bytesV idb, bytesV pubx, bytesV puby, bytesV msg, bytesV r, bytesV s]
  let e1 := (e0.set 7 zv).set 8 (.int code)
  let e2 := e1.set 9 zv
  let e3 := e2.set 10 (.int code)
  have c1 : EvIn P G O (Kz + 1) e0 (.call [7, 8] 106 [(.var 0), (.var 1), (.var 2)]) e1 .norm := by
    refine h106.call ?_ rfl
    simp only [evalVs_cons, evalVs_nil, evalV_var]; rfl
  have c2 : EvIn P G O 1 e1 (.assign 9 [] (.var 7)) e2 .norm := EvIn.assign (CTIRRefineVerify.evar rfl)
  have c3 : EvIn P G O 1 e2 (.assign 10 [] (.var 8)) e3 .norm := EvIn.assign (CTIRRefineVerify.evar rfl)
  exact ⟨e3, (Pre.cons c1 (Pre.cons c2 (Pre.cons c3 (Pre.nil _)))).mono (by omega), rfl, rfl, rfl, rfl, rfl, rfl, rfl⟩

/-- **the body of Verify, ZA succeeds**: whatever VerifyZa (111) does on `(pubx, puby, za, msg, r, s)` -/
theorem verify_body_ok {Kz K : Nat} (idb pubx puby msg r s z : Bytes)
    (h106 : Computes P G O 106 Kz [bytesV idb, bytesV pubx, bytesV puby] [bytesV z, .int 0])
    {spec : Option (List Val → Prop)}
    (h111 : FnEnds P G O K 111 [bytesV pubx, bytesV puby, bytesV z, bytesV msg, bytesV r, bytesV s] spec)
    (h2 : ∀ Q, spec = some Q → ∀ rs, Q rs → ∃ a b, rs = [a, b]) :
    Ends P G O (Kz + K + 30) (Env.ofList [bytesV idb, bytesV pubx, bytesV puby, bytesV msg, bytesV r, bytesV s]) fn_112.body spec := by
  obtain ⟨env, hp, g1, g2, g3, g4, g5, g9, g10⟩ := verify_pre idb pubx puby msg r s (bytesV z) 0 h106
  have ci : EvIn P G O 2 env vfIte env .norm := EvIn.ite (ne0 g10) (CTIRRefineVerify.asBool_ofBool _) (EvIn.skip _)
  have hp2 := Pre.append hp (Pre.cons ci (Pre.nil _))
  have ha : evalVs G env [(.var 1), (.var 2), (.var 9), (.var 3), (.var 4), (.var 5)]
      = some [bytesV pubx, bytesV puby, bytesV z, bytesV msg, bytesV r, bytesV s] := by
    simp only [evalVs_cons, evalVs_nil, evalV_var, g1, g2, g3, g4, g5, g9]
  rw [fn_112_body_b]
  exact (Ends.pre hp2 (Ends.tail2 ha (by decide) h111 h2)).mono (by omega)

/-- **the body of Verify, ZA refuses**: `(false, err)` -/
theorem verify_body_err {Kz : Nat} (idb pubx puby msg r s : Bytes)
    (h106 : Computes P G O 106 Kz [bytesV idb, bytesV pubx, bytesV puby] [.arr [], .int 1]) :
    Ends P G O (Kz + 30) (Env.ofList [bytesV idb, bytesV pubx, bytesV puby, bytesV msg, bytesV r, bytesV s]) fn_112.body
      (some (fun vs => vs = [.int 0, .int 1])) := by
  obtain ⟨env, hp, g1, g2, g3, g4, g5, g9, g10⟩ := verify_pre idb pubx puby msg r s (.arr []) 1 h106
  have hr : evalVs G env [(.lit 0), (.var 10)] = some [.int 0, .int 1] := by
    simp only [evalVs_cons, evalVs_nil, evalV_var, evalV_lit, g10]
  rw [fn_112_body_a]
  have h1 : Ends P G O 1 env (.ret [(.lit 0), (.var 10)]) (some (fun vs => vs = [.int 0, .int 1])) := Ends.ret hr rfl
  have h2 : Ends P G O 2 env vfIte (some (fun vs => vs = [.int 0, .int 1])) :=
    Ends.ite (d := true) (ne0 g10) (CTIRRefineVerify.asBool_ofBool _) h1
  have h3 : Ends P G O 3 env (.seq vfIte vfTail) (some (fun vs => vs = [.int 0, .int 1])) := Ends.seq_stop h2
  exact (Ends.pre hp h3).mono (by omega)

end Bodies2


/-! ## 6. `sm2.CheckOnCurve` (`fn_108`) -/

section Bodies3
variable {P : Prog} {G : Nat → Val} {O : Oracle}
open SMGo.Gen.CTIRProgProto (fn_108)
open SMGo.Proofs.CTIRRefinePointA (mkE evalV_mkE)

def ccA : List Stmt := [.assign 3 [] mkE, .assign 4 [] mkE, .assign 5 [] (.lit 0),
    .call [2, 6, 7] 33 [mkE, (.var 0)], .assign 3 [] (.var 6), .assign 5 [] (.var 7)]
def ccIte : Stmt := .ite (.op2 .ne (.var 5) (.lit 0)) (.ret [(.lit 0)]) .skip
def ccB : List Stmt := [.call [2, 8, 9] 33 [mkE, (.var 1)], .assign 4 [] (.var 8), .assign 5 [] (.var 9)]
def ccC : List Stmt := [.call [10] 105 [(.var 3), (.var 4)]]
def ccRet : Stmt := .seq (.ret [(.op2 .eq (.var 10) (.lit 0))]) .panic

theorem fn_108_body_a : fn_108.body = seqs (ccA ++ [.seq ccIte (seqs (ccB ++ [.seq ccIte (seqs (ccC ++ [ccRet]))]))]) := rfl
theorem fn_108_body_b : fn_108.body = seqs (((ccA ++ [ccIte]) ++ ccB) ++ [.seq ccIte (seqs (ccC ++ [ccRet]))]) := rfl
theorem fn_108_body_c : fn_108.body = seqs (((((ccA ++ [ccIte]) ++ ccB) ++ [ccIte]) ++ ccC) ++ [ccRet]) := rfl

theorem cc_A {Fsb : Nat} (x y : Bytes) (r0 r1 : Val) (c : Int)
    (h : Computes P G O 33 Fsb [elemV [0, 0, 0, 0], bytesV x] [r0, r1, .int c]) :
    ∃ env, Pre P G O (Fsb + 12) (Env.ofList [bytesV x, bytesV y]) ccA env ∧ env 1 = bytesV y ∧ env 3 = r1 ∧ env 5 = .int c := by
  let e0 : Env := Env.ofList [bytesV x, bytesV y]
  let e1 := e0.set 3 (elemV [0, 0, 0, 0])
  let e2 := e1.set 4 (elemV [0, 0, 0, 0])
  let e3 := e2.set 5 (.int 0)
  let e4 := ((e3.set 2 r0).set 6 r1).set 7 (.int c)
  let e5 := e4.set 3 r1
  let e6 := e5.set 5 (.int c)
  have c1 : EvIn P G O 1 e0 (.assign 3 [] mkE) e1 .norm := EvIn.assign (evalV_mkE _)
  have c2 : EvIn P G O 1 e1 (.assign 4 [] mkE) e2 .norm := EvIn.assign (evalV_mkE _)
  have c3 : EvIn P G O 1 e2 (.assign 5 [] (.lit 0)) e3 .norm := EvIn.assign rfl
  have c4 : EvIn P G O (Fsb + 1) e3 (.call [2, 6, 7] 33 [mkE, (.var 0)]) e4 .norm := by
    refine h.call ?_ rfl
    simp only [evalVs_cons, evalVs_nil, evalV_mkE, evalV_var]; rfl
  have c5 : EvIn P G O 1 e4 (.assign 3 [] (.var 6)) e5 .norm := EvIn.assign (CTIRRefineVerify.evar rfl)
  have c6 : EvIn P G O 1 e5 (.assign 5 [] (.var 7)) e6 .norm := EvIn.assign (CTIRRefineVerify.evar rfl)
  exact ⟨e6, (Pre.cons c1 (Pre.cons c2 (Pre.cons c3 (Pre.cons c4 (Pre.cons c5 (Pre.cons c6 (Pre.nil _))))))).mono (by omega),
    rfl, rfl, rfl⟩

theorem cc_B {Fsb : Nat} {env : Env} (y : Bytes) (r0 r1 : Val) (c : Int) (h1 : env 1 = bytesV y)
    (h : Computes P G O 33 Fsb [elemV [0, 0, 0, 0], bytesV y] [r0, r1, .int c]) :
    ∃ env', Pre P G O (Fsb + 6) env ccB env' ∧ env' 3 = env 3 ∧ env' 4 = r1 ∧ env' 5 = .int c := by
  let e1 := ((env.set 2 r0).set 8 r1).set 9 (.int c)
  let e2 := e1.set 4 r1
  let e3 := e2.set 5 (.int c)
  have c1 : EvIn P G O (Fsb + 1) env (.call [2, 8, 9] 33 [mkE, (.var 1)]) e1 .norm := by
    refine h.call ?_ rfl
    simp only [evalVs_cons, evalVs_nil, evalV_mkE, evalV_var, h1]
  have c2 : EvIn P G O 1 e1 (.assign 4 [] (.var 8)) e2 .norm := EvIn.assign (CTIRRefineVerify.evar rfl)
  have c3 : EvIn P G O 1 e2 (.assign 5 [] (.var 9)) e3 .norm := EvIn.assign (CTIRRefineVerify.evar rfl)
  exact ⟨e3, (Pre.cons c1 (Pre.cons c2 (Pre.cons c3 (Pre.nil _)))).mono (by omega), rfl, rfl, rfl⟩

theorem cc_ite_skip {env : Env} (h5 : env 5 = .int 0) : EvIn P G O 2 env ccIte env .norm :=
  EvIn.ite (ne0 h5) (CTIRRefineVerify.asBool_ofBool _) (EvIn.skip _)

theorem cc_ite_ret {env : Env} {rest : Stmt} (h5 : env 5 = .int 1) :
    Ends P G O 3 env (.seq ccIte rest) (some (fun vs => vs = [.int 0])) := by
  have h1 : Ends P G O 1 env (.ret [(.lit 0)]) (some (fun vs => vs = [.int 0])) := Ends.ret rfl rfl
  have h2 : Ends P G O 2 env ccIte (some (fun vs => vs = [.int 0])) :=
    Ends.ite (d := true) (ne0 h5) (CTIRRefineVerify.asBool_ofBool _) h1
  exact Ends.seq_stop h2

theorem eq0_val {env : Env} {v : Nat} {n : Int} (h : env v = .int n) :
    evalV G env (.op2 .eq (.var v) (.lit 0)) = some (.int (ofBool (n == 0))) := by
  simp only [evalV_op2, evalV_var, evalV_lit, h, evalOp2, Option.map_some]

/-- **the body of `sm2.CheckOnCurve`** against `Model.SM2.checkOnCurve`, modulo the element SetBytes (33, on a fresh
    element, by the outcome of the model; the model does not panic) and Sm2CheckOnCurve (105) -/
theorem checkOnCurve_body {α β : Type} (X : Model.SM2.Ctx α β) (enc : α → List Nat) {Fsb Fcoc : Nat}
    (hs : ∀ v : Bytes,
      (∀ e, Model.Field.setBytes X.C.F v = .ok e →
        Computes P G O 33 Fsb [elemV [0, 0, 0, 0], bytesV v] [elemV (enc e), elemV (enc e), .int 0]) ∧
      (Model.Field.setBytes X.C.F v = .err →
        Computes P G O 33 Fsb [elemV [0, 0, 0, 0], bytesV v] [elemV [0, 0, 0, 0], elemV [0, 0, 0, 0], .int 1]) ∧
      Model.Field.setBytes X.C.F v ≠ .panic)
    (hc : ∀ a b : α, Computes P G O 105 Fcoc [elemV (enc a), elemV (enc b)]
      [.int (if Model.Point.checkOnCurve X.C a b then 0 else 1)])
    (x y : Bytes) :
    Ends P G O (2 * Fsb + Fcoc + 40) (Env.ofList [bytesV x, bytesV y]) fn_108.body
      (some (fun vs => vs = [.int (if Model.SM2.checkOnCurve X x y then 1 else 0)])) := by
  obtain ⟨hxo, hxe, hxp⟩ := hs x
  obtain ⟨hyo, hye, hyp⟩ := hs y
  cases hx : Model.Field.setBytes X.C.F x with
  | panic => exact absurd hx hxp
  | err =>
    have hm : Model.SM2.checkOnCurve X x y = false := by simp only [Model.SM2.checkOnCurve, hx]
    obtain ⟨env, hp, g1, g3, g5⟩ := cc_A x y _ _ 1 (hxe hx)
    rw [fn_108_body_a, hm]
    exact (Ends.pre hp (cc_ite_ret g5)).mono (by omega)
  | ok xe =>
    obtain ⟨env, hp, g1, g3, g5⟩ := cc_A x y _ _ 0 (hxo xe hx)
    have hpA := Pre.append hp (Pre.cons (cc_ite_skip g5) (Pre.nil _))
    cases hy : Model.Field.setBytes X.C.F y with
    | panic => exact absurd hy hyp
    | err =>
      have hm : Model.SM2.checkOnCurve X x y = false := by simp only [Model.SM2.checkOnCurve, hx, hy]
      obtain ⟨env', hpB, k3, k4, k5⟩ := cc_B y _ _ 1 g1 (hye hy)
      rw [fn_108_body_b, hm]
      exact (Ends.pre (Pre.append hpA hpB) (cc_ite_ret k5)).mono (by omega)
    | ok ye =>
      have hm : Model.SM2.checkOnCurve X x y = Model.Point.checkOnCurve X.C xe ye := by
        simp only [Model.SM2.checkOnCurve, hx, hy]
      obtain ⟨env', hpB, k3, k4, k5⟩ := cc_B y _ _ 0 g1 (hyo ye hy)
      have hpAB := Pre.append (Pre.append hpA hpB) (Pre.cons (cc_ite_skip k5) (Pre.nil _))
      let e2 := env'.set 10 (.int (if Model.Point.checkOnCurve X.C xe ye then 0 else 1))
      have cC : EvIn P G O (Fcoc + 1) env' (.call [10] 105 [(.var 3), (.var 4)]) e2 .norm := by
        refine (hc xe ye).call ?_ rfl
        simp only [evalVs_cons, evalVs_nil, evalV_var, k3, k4, g3]
      have hpC := Pre.append hpAB (Pre.cons cC (Pre.nil _))
      have hr : evalVs G e2 [(.op2 .eq (.var 10) (.lit 0))]
          = some [.int (if Model.Point.checkOnCurve X.C xe ye then 1 else 0)] := by
        have g10 : e2 10 = .int (if Model.Point.checkOnCurve X.C xe ye then 0 else 1) := rfl
        simp only [evalVs_cons, evalVs_nil, eq0_val g10]
        cases Model.Point.checkOnCurve X.C xe ye <;> rfl
      rw [fn_108_body_c, hm]
      have h1 : Ends P G O 2 e2 ccRet (some (fun vs => vs = [.int (if Model.Point.checkOnCurve X.C xe ye then 1 else 0)])) :=
        Ends.seq_stop (Ends.ret hr rfl)
      exact (Ends.pre hpC h1).mono (by omega)

end Bodies3


/-! ## 7. The callees in the extended program, as `FnEnds` facts -/

section Glue
variable {O : Oracle}
open SMGo.Model.SM2 (ctxFiat Script avail)
open SMGo.Proofs.CTIRRefineSign (BigOk ReaderOk)

theorem FnEnds.weaken {P : Prog} {G : Nat → Val} {K g : Nat} {args : List Val} {Q Q' : List Val → Prop}
    (h : FnEnds P G O K g args (some Q)) (hq : ∀ vs, Q vs → Q' vs) : FnEnds P G O K g args (some Q') := by
  obtain ⟨vs, h1, h2⟩ := h; exact ⟨vs, hq vs h1, h2⟩

theorem PX_98 : PX[98]? = some fn_98 := rfl
theorem PX_106 : PX[106]? = some SMGo.Gen.CTIRProgProto.fn_106 := rfl
theorem PX_108 : PX[108]? = some SMGo.Gen.CTIRProgProto.fn_108 := rfl
theorem PX_109 : PX[109]? = some SMGo.Gen.CTIRProgProto.fn_109 := rfl
theorem PX_110 : PX[110]? = some SMGo.Gen.CTIRProgProto.fn_110 := rfl
theorem PX_111 : PX[111]? = some SMGo.Gen.CTIRProgProto.fn_111 := rfl
theorem PX_112 : PX[112]? = some SMGo.Gen.CTIRProgProto.fn_112 := rfl

/-- SignHashed (98) in the extended program on its globals, against `signHashed ctxFiat` -/
theorem signHashed_fnEnds (hB : BigOk O) {rd : Val} {sc : Nat → Script} (hR : ReaderOk O rd sc) {priv : Bytes}
    (hlen : priv.length < 2 ^ 63) (e : Bytes) :
    FnEnds PX GP O (fuelSign4 (avail (sc 0))) 98 [rd, bytesV priv, bytesV e] (sSpec (Model.SM2.signHashed ctxFiat (sc 0) priv e)) := by
  have key := ir_signHashed_ctxFiat hB hR (priv := priv) (e := e) hlen
  cases h : Model.SM2.signHashed ctxFiat (sc 0) priv e with
  | ok res =>
    obtain ⟨⟨r, s⟩, n⟩ := res
    rw [h] at key
    exact ⟨_, rfl, CTIRRefineWrap.computes_of_runV PX_98 rfl rfl (fun f hf => by rw [runV_GP (by decide)]; exact key f hf)⟩
  | err =>
    rw [h] at key
    obtain ⟨code, hc, hk⟩ := key
    exact ⟨_, ⟨code, hc, rfl⟩, CTIRRefineWrap.computes_of_runV PX_98 rfl rfl (fun f hf => by rw [runV_GP (by decide)]; exact hk f hf)⟩
  | panic =>
    rw [h] at key
    refine CTIRRefineWrap.calleeFails_of_runV PX_98 rfl rfl ?_
    rcases key with ⟨F, hk⟩ | hk
    · exact Or.inl ⟨F, fun f hf => by rw [runV_GP (by decide)]; exact hk f hf⟩
    · exact Or.inr (fun f => by rw [runV_GP (by decide)]; exact hk f)

/-- VerifyHashed (107), against `verifyHashed ctxFiat` -/
theorem verifyHashed_fnEnds (hO : OracleOk O) (pubx puby e r s : Bytes) :
    FnEnds PX GP O fuelVerify4 107 [bytesV pubx, bytesV puby, bytesV e, bytesV r, bytesV s]
      (vSpec (Model.SM2.verifyHashed ctxFiat pubx puby e r s)) := by
  have key := ir_verifyHashed_ctxFiat hO pubx puby e r s
  cases h : Model.SM2.verifyHashed ctxFiat pubx puby e r s with
  | ok b =>
    rw [h] at key
    obtain ⟨e', h1, h2, hk⟩ := key
    exact ⟨_, ⟨e', h1, h2, rfl⟩, CTIRRefineWrap.computes_of_runV CTIRRefineVerify.PX_107 rfl rfl hk⟩
  | err => rw [h] at key; exact key.elim
  | panic => rw [h] at key; exact CTIRRefineWrap.calleeFails_of_runV CTIRRefineVerify.PX_107 rfl rfl key

/-- ZA (106), against `za ctxFiat`: the two `Computes` forms -/
theorem za_computes (hSum : ∀ m : Bytes, O 12 [bytesV m] = [bytesV (Spec.SM3.hash m)]) (idb pubx puby : Bytes)
    (hlen : idb.length < 2 ^ 60) :
    (∀ z, Model.SM2.za ctxFiat idb pubx puby = .ok z →
      Computes PX GP O 106 CTIRRefineZA.fuelZA [bytesV idb, bytesV pubx, bytesV puby] [bytesV z, .int 0]) ∧
    (Model.SM2.za ctxFiat idb pubx puby = .err →
      Computes PX GP O 106 CTIRRefineZA.fuelZA [bytesV idb, bytesV pubx, bytesV puby] [.arr [], .int 1]) ∧
    Model.SM2.za ctxFiat idb pubx puby ≠ .panic := by
  have key := ir_ZA_ctxFiat hSum idb pubx puby hlen
  refine ⟨fun z h => ?_, fun h => ?_, fun h => ?_⟩
  · rw [h] at key; exact CTIRRefineWrap.computes_of_runV PX_106 rfl rfl key
  · rw [h] at key; exact CTIRRefineWrap.computes_of_runV PX_106 rfl rfl key
  · rw [h] at key; exact key

/-! ### the model: the hash step -/

theorem ctxFiat_sm3 : ∀ ops, Model.SM3.run ctxFiat.tt ops = Spec.SM3.runHistory ops := SMGo.Proofs.SM3.run_eq_runHistory

theorem signZa_ctxFiat (sc : Script) (priv za msg : Bytes) :
    Model.SM2.signZa ctxFiat sc priv za msg = Model.SM2.signHashed ctxFiat sc priv (Spec.SM3.hash (za ++ msg)) :=
  SMGo.Proofs.SM2ZA.signZa_eq ctxFiat ctxFiat_sm3 sc priv za msg

theorem verifyZa_ctxFiat (pubx puby za msg r s : Bytes) :
    Model.SM2.verifyZa ctxFiat pubx puby za msg r s
      = Model.SM2.verifyHashed ctxFiat pubx puby (Spec.SM3.hash (za ++ msg)) r s :=
  SMGo.Proofs.SM2ZA.verifyZa_eq ctxFiat ctxFiat_sm3 pubx puby za msg r s

/-- SignZa (109) -/
theorem signZa_fnEnds (hB : BigOk O) (hSum : ∀ m : Bytes, O 12 [bytesV m] = [bytesV (Spec.SM3.hash m)]) {rd : Val}
    {sc : Nat → Script} (hR : ReaderOk O rd sc) {priv : Bytes} (hlen : priv.length < 2 ^ 63) (za msg : Bytes) :
    FnEnds PX GP O (fuelSign4 (avail (sc 0)) + 30) 109 [rd, bytesV priv, bytesV za, bytesV msg]
      (sSpec (Model.SM2.signZa ctxFiat (sc 0) priv za msg)) := by
  rw [signZa_ctxFiat]
  exact FnEnds.of_body PX_109 rfl rfl
    (signZa_body hSum rd priv za msg (signHashed_fnEnds hB hR hlen _) (sSpec_three _))

/-- VerifyZa (111) -/
theorem verifyZa_fnEnds (hO : OracleOk O) (hSum : ∀ m : Bytes, O 12 [bytesV m] = [bytesV (Spec.SM3.hash m)])
    (pubx puby za msg r s : Bytes) :
    FnEnds PX GP O (fuelVerify4 + 30) 111 [bytesV pubx, bytesV puby, bytesV za, bytesV msg, bytesV r, bytesV s]
      (vSpec (Model.SM2.verifyZa ctxFiat pubx puby za msg r s)) := by
  rw [verifyZa_ctxFiat]
  exact FnEnds.of_body PX_111 rfl rfl
    (verifyZa_body hSum pubx puby za msg r s (verifyHashed_fnEnds hO _ _ _ _ _) (vSpec_two _))

/-- Sign (110) -/
theorem sign_fnEnds (hB : BigOk O) (hSum : ∀ m : Bytes, O 12 [bytesV m] = [bytesV (Spec.SM3.hash m)]) {rd : Val}
    {sc : Nat → Script} (hR : ReaderOk O rd sc) (idb pubx puby : Bytes) (hid : idb.length < 2 ^ 60) {priv : Bytes}
    (hlen : priv.length < 2 ^ 63) (msg : Bytes) :
    FnEnds PX GP O (fuelSign4 (avail (sc 0)) + 110) 110 [bytesV idb, bytesV pubx, bytesV puby, rd, bytesV priv, bytesV msg]
      (sSpec (Model.SM2.sign ctxFiat idb pubx puby (sc 0) priv msg)) := by
  obtain ⟨hzo, hze, hzp⟩ := za_computes hSum idb pubx puby hid
  have hm : Model.SM2.sign ctxFiat idb pubx puby (sc 0) priv msg
      = (Model.SM2.za ctxFiat idb pubx puby >>= fun z => Model.SM2.signZa ctxFiat (sc 0) priv z msg) := rfl
  rw [hm]
  cases hz : Model.SM2.za ctxFiat idb pubx puby with
  | panic => exact absurd hz hzp
  | err =>
    have h := FnEnds.of_body PX_110 rfl rfl (sign_body_err (P := PX) (G := GP) (O := O) idb pubx puby rd priv msg (hze hz))
    exact (FnEnds.weaken h (fun vs hv => ⟨1, by decide, hv⟩)).mono (by unfold CTIRRefineZA.fuelZA; omega)
  | ok z =>
    have h := FnEnds.of_body PX_110 rfl rfl (sign_body_ok (P := PX) (G := GP) (O := O) idb pubx puby rd priv msg z (hzo z hz)
      (signZa_fnEnds hB hSum hR hlen z msg) (sSpec_three _))
    exact h.mono (by unfold CTIRRefineZA.fuelZA; omega)

/-- Verify (112) -/
theorem verify_fnEnds (hO : OracleOk O) (hSum : ∀ m : Bytes, O 12 [bytesV m] = [bytesV (Spec.SM3.hash m)])
    (idb pubx puby : Bytes) (hid : idb.length < 2 ^ 60) (msg r s : Bytes) :
    FnEnds PX GP O (fuelVerify4 + 100) 112 [bytesV idb, bytesV pubx, bytesV puby, bytesV msg, bytesV r, bytesV s]
      (vSpec (Model.SM2.verify ctxFiat idb pubx puby msg r s)) := by
  obtain ⟨hzo, hze, hzp⟩ := za_computes hSum idb pubx puby hid
  unfold Model.SM2.verify
  cases hz : Model.SM2.za ctxFiat idb pubx puby with
  | panic => exact absurd hz hzp
  | err =>
    have h := FnEnds.of_body PX_112 rfl rfl (verify_body_err (P := PX) (G := GP) (O := O) idb pubx puby msg r s (hze hz))
    exact (FnEnds.weaken h (fun vs hv => ⟨1, Or.inr rfl, fun hb => Bool.noConfusion hb, hv⟩)).mono (by unfold CTIRRefineZA.fuelZA; omega)
  | ok z =>
    have h := FnEnds.of_body PX_112 rfl rfl (verify_body_ok (P := PX) (G := GP) (O := O) idb pubx puby msg r s z (hzo z hz)
      (verifyZa_fnEnds hO hSum pubx puby z msg r s) (vSpec_two _))
    exact h.mono (by unfold CTIRRefineZA.fuelZA; omega)

end Glue


/-! ## 8. The closed statements

  `PX` = `CTIRProgProto.prog`, `GP` = `CTIRProgProto.globals`; model context `Model.SM2.ctxFiat`.
  Hypotheses left: Go-type bounds (`id.length < 2^60`, `priv.length < 2^63`) and, in the variants for a general oracle,
  `OracleOk` / `BigOk` / `ReaderOk` / `hSum` (all satisfied by `protoOracle tape`, with the scripted reader
  `CTIRRefineSign.readerOracle (protoOracle tape) s` for the signing functions: the `_proto` variants have none). -/

section Closed
open SMGo.Model.SM2 (ctxFiat Script avail)
open SMGo.Proofs.CTIRRefineSign (BigOk ReaderOk)

/-! ### CheckOnCurve -/

theorem setBytes_mapO (v : Bytes) :
    CTIRRefineScalar.mapO Subtype.val (Model.Field.setBytes ctx4.C.F v) = Model.Field.setBytes ctxFiat.C.F v :=
  CTIRRefineScalar.scalarSetBytes_map fiatP4 Model.SM2.fiatP Subtype.val rfl
    (fun b hb => by rw [fiatP4_toMontgomery_val, fiatP4_fromBytesLE_val b hb]) v

/-- **`checkOnCurve` over `ctx4` is `checkOnCurve` over `ctxFiat`** -/
theorem checkOnCurve_ctx4 (x y : Bytes) : Model.SM2.checkOnCurve ctx4 x y = Model.SM2.checkOnCurve ctxFiat x y := by
  unfold Model.SM2.checkOnCurve
  rw [← setBytes_mapO x, ← setBytes_mapO y]
  cases Model.Field.setBytes ctx4.C.F x <;> cases Model.Field.setBytes ctx4.C.F y <;> rfl

/-- fuel of `sm2.CheckOnCurve` -/
def fuelCheck : Nat :=
  2 * fuelEsb + CTIRRefineVerify.fuelCoc (CTIRRefinePointA.fuelW CTIRRefineFiat.fuelFiat) (CTIRRefinePointA.fuelW CTIRRefineFiat.fuelFiat)
    (CTIRRefinePointA.fuelW CTIRRefineFiat.fuelFiat) (CTIRRefinePointA.fuelW CTIRRefineFiat.fuelFiat) fuelEq + 40

/-- **`sm2.CheckOnCurve` of the extended program = `Model.SM2.checkOnCurve Model.SM2.ctxFiat`**: any oracle (the
    function uses no external), ANY two byte strings; NO hypothesis -/
theorem ir_checkOnCurve_ctxFiat_proto {O : Oracle} (x y : Bytes) :
    ∀ f, fuelCheck ≤ f →
      runV PX GP O f 108 [bytesV x, bytesV y] = .ret [.int (if Model.SM2.checkOnCurve ctxFiat x y then 1 else 0)] := by
  have hb := checkOnCurve_body (P := PX) (G := GP) (O := O) ctx4 encL (Fsb := fuelEsb) (fun v => esb4 v)
    (psbCallees4 (O := O)).coc x y
  obtain ⟨vs, hq, hc⟩ := FnEnds.of_body PX_108 rfl rfl hb
  rw [hq, checkOnCurve_ctx4] at hc
  exact hc.runV

/-! ### VerifyZa, Verify -/

/-- from the specification form to the run-level `match` -/
theorem vSpec_run {P : Prog} {G : Nat → Val} {O : Oracle} {K g : Nat} {args : List Val} (o : Outcome Bool)
    (h : FnEnds P G O K g args (vSpec o)) :
    (∀ b, o = .ok b → ∃ e' : Int, (e' = 0 ∨ e' = 1) ∧ (b = true → e' = 0) ∧
      ∀ f, K ≤ f → runV P G O f g args = .ret [.int (if b then 1 else 0), .int e']) ∧
    (o ≠ .err) ∧
    (o = .panic → (∃ F, ∀ f, F ≤ f → runV P G O f g args = .panic) ∨ (∀ f, runV P G O f g args = .stuck)) := by
  cases o with
  | ok b =>
    obtain ⟨vs, ⟨e', h1, h2, rfl⟩, hc⟩ := h
    refine ⟨?_, ?_, ?_⟩
    · intro b' hb
      cases hb
      exact ⟨e', h1, h2, hc.runV⟩
    · intro hh; cases hh
    · intro hh; cases hh
  | err => obtain ⟨vs, hf, _⟩ := h; exact hf.elim
  | panic =>
    refine ⟨?_, ?_, ?_⟩
    · intro b hb; cases hb
    · intro hh; cases hh
    · intro _; exact FnEnds.runV_none h

/-- **`sm2.VerifyZa` of the extended program = `Model.SM2.verifyZa Model.SM2.ctxFiat`** -/
theorem ir_verifyZa_ctxFiat {O : Oracle} (hO : OracleOk O) (hSum : ∀ m : Bytes, O 12 [bytesV m] = [bytesV (Spec.SM3.hash m)])
    (pubx puby za msg r s : Bytes) :
    match Model.SM2.verifyZa ctxFiat pubx puby za msg r s with
    | .ok b => ∃ e' : Int, (e' = 0 ∨ e' = 1) ∧ (b = true → e' = 0) ∧
        ∀ f, fuelVerify4 + 30 ≤ f →
          runV PX GP O f 111 [bytesV pubx, bytesV puby, bytesV za, bytesV msg, bytesV r, bytesV s]
            = .ret [.int (if b then 1 else 0), .int e']
    | .err => False
    | .panic => (∃ F, ∀ f, F ≤ f →
          runV PX GP O f 111 [bytesV pubx, bytesV puby, bytesV za, bytesV msg, bytesV r, bytesV s] = .panic) ∨
        (∀ f, runV PX GP O f 111 [bytesV pubx, bytesV puby, bytesV za, bytesV msg, bytesV r, bytesV s] = .stuck) := by
  obtain ⟨a, b, c⟩ := vSpec_run _ (verifyZa_fnEnds hO hSum pubx puby za msg r s)
  cases h : Model.SM2.verifyZa ctxFiat pubx puby za msg r s with
  | ok v => exact a v h
  | err => exact b h
  | panic => exact c h

/-- the same with the executable oracle: NO hypothesis -/
theorem ir_verifyZa_ctxFiat_proto (tape : Nat → Nat → Nat) (pubx puby za msg r s : Bytes) :
    match Model.SM2.verifyZa ctxFiat pubx puby za msg r s with
    | .ok b => ∃ e' : Int, (e' = 0 ∨ e' = 1) ∧ (b = true → e' = 0) ∧
        ∀ f, fuelVerify4 + 30 ≤ f →
          runV PX GP (Model.CTIRProto.protoOracle tape) f 111 [bytesV pubx, bytesV puby, bytesV za, bytesV msg, bytesV r, bytesV s]
            = .ret [.int (if b then 1 else 0), .int e']
    | .err => False
    | .panic => (∃ F, ∀ f, F ≤ f →
          runV PX GP (Model.CTIRProto.protoOracle tape) f 111 [bytesV pubx, bytesV puby, bytesV za, bytesV msg, bytesV r, bytesV s] = .panic) ∨
        (∀ f, runV PX GP (Model.CTIRProto.protoOracle tape) f 111 [bytesV pubx, bytesV puby, bytesV za, bytesV msg, bytesV r, bytesV s] = .stuck) :=
  ir_verifyZa_ctxFiat (protoOracle_oracleOk tape) (CTIRRefineZA.protoOracle_sum tape) pubx puby za msg r s

/-- **`sm2.Verify` of the extended program = `Model.SM2.verify Model.SM2.ctxFiat`**; `id` shorter than 2^60 bytes -/
theorem ir_verify_ctxFiat {O : Oracle} (hO : OracleOk O) (hSum : ∀ m : Bytes, O 12 [bytesV m] = [bytesV (Spec.SM3.hash m)])
    (idb pubx puby msg r s : Bytes) (hid : idb.length < 2 ^ 60) :
    match Model.SM2.verify ctxFiat idb pubx puby msg r s with
    | .ok b => ∃ e' : Int, (e' = 0 ∨ e' = 1) ∧ (b = true → e' = 0) ∧
        ∀ f, fuelVerify4 + 100 ≤ f →
          runV PX GP O f 112 [bytesV idb, bytesV pubx, bytesV puby, bytesV msg, bytesV r, bytesV s]
            = .ret [.int (if b then 1 else 0), .int e']
    | .err => False
    | .panic => (∃ F, ∀ f, F ≤ f →
          runV PX GP O f 112 [bytesV idb, bytesV pubx, bytesV puby, bytesV msg, bytesV r, bytesV s] = .panic) ∨
        (∀ f, runV PX GP O f 112 [bytesV idb, bytesV pubx, bytesV puby, bytesV msg, bytesV r, bytesV s] = .stuck) := by
  obtain ⟨a, b, c⟩ := vSpec_run _ (verify_fnEnds hO hSum idb pubx puby hid msg r s)
  cases h : Model.SM2.verify ctxFiat idb pubx puby msg r s with
  | ok v => exact a v h
  | err => exact b h
  | panic => exact c h

/-- the same with the executable oracle: NO hypothesis but the bound on `id` -/
theorem ir_verify_ctxFiat_proto (tape : Nat → Nat → Nat) (idb pubx puby msg r s : Bytes) (hid : idb.length < 2 ^ 60) :
    match Model.SM2.verify ctxFiat idb pubx puby msg r s with
    | .ok b => ∃ e' : Int, (e' = 0 ∨ e' = 1) ∧ (b = true → e' = 0) ∧
        ∀ f, fuelVerify4 + 100 ≤ f →
          runV PX GP (Model.CTIRProto.protoOracle tape) f 112 [bytesV idb, bytesV pubx, bytesV puby, bytesV msg, bytesV r, bytesV s]
            = .ret [.int (if b then 1 else 0), .int e']
    | .err => False
    | .panic => (∃ F, ∀ f, F ≤ f →
          runV PX GP (Model.CTIRProto.protoOracle tape) f 112 [bytesV idb, bytesV pubx, bytesV puby, bytesV msg, bytesV r, bytesV s] = .panic) ∨
        (∀ f, runV PX GP (Model.CTIRProto.protoOracle tape) f 112 [bytesV idb, bytesV pubx, bytesV puby, bytesV msg, bytesV r, bytesV s] = .stuck) :=
  ir_verify_ctxFiat (protoOracle_oracleOk tape) (CTIRRefineZA.protoOracle_sum tape) idb pubx puby msg r s hid

/-! ### SignZa, Sign -/

theorem sSpec_run {P : Prog} {G : Nat → Val} {O : Oracle} {K g : Nat} {args : List Val} (o : Outcome ((Bytes × Bytes) × Nat))
    (h : FnEnds P G O K g args (sSpec o)) :
    (∀ r s n, o = .ok ((r, s), n) → ∀ f, K ≤ f → runV P G O f g args = .ret [bytesV r, bytesV s, .int 0]) ∧
    (o = .err → ∃ code : Int, code ≠ 0 ∧ ∀ f, K ≤ f → runV P G O f g args = .ret [bytesV [], bytesV [], .int code]) ∧
    (o = .panic → (∃ F, ∀ f, F ≤ f → runV P G O f g args = .panic) ∨ (∀ f, runV P G O f g args = .stuck)) := by
  match o, h with
  | .ok ((r, s), n), h =>
    obtain ⟨vs, rfl, hc⟩ := h
    refine ⟨?_, ?_, ?_⟩
    · intro r' s' n' hh
      cases hh
      exact hc.runV
    · intro hh; cases hh
    · intro hh; cases hh
  | .err, h =>
    obtain ⟨vs, ⟨code, hcode, rfl⟩, hc⟩ := h
    refine ⟨?_, ?_, ?_⟩
    · intro r s n hh; cases hh
    · intro _; exact ⟨code, hcode, hc.runV⟩
    · intro hh; cases hh
  | .panic, h =>
    refine ⟨?_, ?_, ?_⟩
    · intro r s n hh; cases hh
    · intro hh; cases hh
    · intro _; exact FnEnds.runV_none h

/-- **`sm2.SignZa` of the extended program = `Model.SM2.signZa Model.SM2.ctxFiat`**; `rd` the reader value, `sc p` the
    script at reader position `p` -/
theorem ir_signZa_ctxFiat {O : Oracle} (hB : BigOk O) (hSum : ∀ m : Bytes, O 12 [bytesV m] = [bytesV (Spec.SM3.hash m)])
    {rd : Val} {sc : Nat → Script} (hR : ReaderOk O rd sc) {priv : Bytes} (hlen : priv.length < 2 ^ 63) (za msg : Bytes) :
    match Model.SM2.signZa ctxFiat (sc 0) priv za msg with
    | .ok ((r, s), _) => ∀ f, fuelSign4 (avail (sc 0)) + 30 ≤ f →
        runV PX GP O f 109 [rd, bytesV priv, bytesV za, bytesV msg] = .ret [bytesV r, bytesV s, .int 0]
    | .err => ∃ code : Int, code ≠ 0 ∧ ∀ f, fuelSign4 (avail (sc 0)) + 30 ≤ f →
        runV PX GP O f 109 [rd, bytesV priv, bytesV za, bytesV msg] = .ret [bytesV [], bytesV [], .int code]
    | .panic => (∃ F, ∀ f, F ≤ f → runV PX GP O f 109 [rd, bytesV priv, bytesV za, bytesV msg] = .panic) ∨
        (∀ f, runV PX GP O f 109 [rd, bytesV priv, bytesV za, bytesV msg] = .stuck) := by
  obtain ⟨a, b, c⟩ := sSpec_run _ (signZa_fnEnds hB hSum hR hlen za msg)
  cases h : Model.SM2.signZa ctxFiat (sc 0) priv za msg with
  | ok res => obtain ⟨⟨r, s⟩, n⟩ := res; exact a r s n h
  | err => exact b h
  | panic => exact c h

/-- **`sm2.Sign` of the extended program = `Model.SM2.sign Model.SM2.ctxFiat`** -/
theorem ir_sign_ctxFiat {O : Oracle} (hB : BigOk O) (hSum : ∀ m : Bytes, O 12 [bytesV m] = [bytesV (Spec.SM3.hash m)])
    {rd : Val} {sc : Nat → Script} (hR : ReaderOk O rd sc) (idb pubx puby : Bytes) (hid : idb.length < 2 ^ 60)
    {priv : Bytes} (hlen : priv.length < 2 ^ 63) (msg : Bytes) :
    match Model.SM2.sign ctxFiat idb pubx puby (sc 0) priv msg with
    | .ok ((r, s), _) => ∀ f, fuelSign4 (avail (sc 0)) + 110 ≤ f →
        runV PX GP O f 110 [bytesV idb, bytesV pubx, bytesV puby, rd, bytesV priv, bytesV msg] = .ret [bytesV r, bytesV s, .int 0]
    | .err => ∃ code : Int, code ≠ 0 ∧ ∀ f, fuelSign4 (avail (sc 0)) + 110 ≤ f →
        runV PX GP O f 110 [bytesV idb, bytesV pubx, bytesV puby, rd, bytesV priv, bytesV msg] = .ret [bytesV [], bytesV [], .int code]
    | .panic => (∃ F, ∀ f, F ≤ f →
          runV PX GP O f 110 [bytesV idb, bytesV pubx, bytesV puby, rd, bytesV priv, bytesV msg] = .panic) ∨
        (∀ f, runV PX GP O f 110 [bytesV idb, bytesV pubx, bytesV puby, rd, bytesV priv, bytesV msg] = .stuck) := by
  obtain ⟨a, b, c⟩ := sSpec_run _ (sign_fnEnds hB hSum hR idb pubx puby hid hlen msg)
  cases h : Model.SM2.sign ctxFiat idb pubx puby (sc 0) priv msg with
  | ok res => obtain ⟨⟨r, s⟩, n⟩ := res; exact a r s n h
  | err => exact b h
  | panic => exact c h

/-- the scripted reader over the executable oracle: every external other than 11 is that of `protoOracle` -/
theorem readerOracle_sum (tape : Nat → Nat → Nat) (s : Script) (m : Bytes) :
    CTIRRefineSign.readerOracle (Model.CTIRProto.protoOracle tape) s 12 [bytesV m] = [bytesV (Spec.SM3.hash m)] := by
  have e : CTIRRefineSign.readerOracle (Model.CTIRProto.protoOracle tape) s 12 [bytesV m]
      = Model.CTIRProto.protoOracle tape 12 [bytesV m] := rfl
  rw [e, CTIRRefineZA.protoOracle_sum]

/-- **SignZa, executable oracle with the scripted reader `s`**: NO hypothesis but `priv.length < 2^63` -/
theorem ir_signZa_ctxFiat_proto (tape : Nat → Nat → Nat) (s : Script) (rd : Val) {priv : Bytes} (hlen : priv.length < 2 ^ 63)
    (za msg : Bytes) :
    match Model.SM2.signZa ctxFiat s priv za msg with
    | .ok ((r, sg), _) => ∀ f, fuelSign4 (avail s) + 30 ≤ f →
        runV PX GP (CTIRRefineSign.readerOracle (Model.CTIRProto.protoOracle tape) s) f 109 [rd, bytesV priv, bytesV za, bytesV msg]
          = .ret [bytesV r, bytesV sg, .int 0]
    | .err => ∃ code : Int, code ≠ 0 ∧ ∀ f, fuelSign4 (avail s) + 30 ≤ f →
        runV PX GP (CTIRRefineSign.readerOracle (Model.CTIRProto.protoOracle tape) s) f 109 [rd, bytesV priv, bytesV za, bytesV msg]
          = .ret [bytesV [], bytesV [], .int code]
    | .panic => (∃ F, ∀ f, F ≤ f →
          runV PX GP (CTIRRefineSign.readerOracle (Model.CTIRProto.protoOracle tape) s) f 109 [rd, bytesV priv, bytesV za, bytesV msg] = .panic) ∨
        (∀ f, runV PX GP (CTIRRefineSign.readerOracle (Model.CTIRProto.protoOracle tape) s) f 109 [rd, bytesV priv, bytesV za, bytesV msg] = .stuck) := by
  obtain ⟨a, b, c⟩ := sSpec_run _ (signZa_fnEnds (CTIRRefineSign.readerOracle_bigOk (protoOracle_bigOk tape) s)
    (readerOracle_sum tape s) (CTIRRefineSign.readerOracle_ok (Model.CTIRProto.protoOracle tape) rd s) hlen za msg)
  have e0 : CTIRRefineSign.scAt s 0 = s := rfl
  rw [e0] at a b c
  cases h : Model.SM2.signZa ctxFiat s priv za msg with
  | ok res => obtain ⟨⟨r, sg⟩, n⟩ := res; exact a r sg n h
  | err => exact b h
  | panic => exact c h

/-- **Sign, executable oracle with the scripted reader `s`**: NO hypothesis but the two Go-type bounds -/
theorem ir_sign_ctxFiat_proto (tape : Nat → Nat → Nat) (s : Script) (rd : Val) (idb pubx puby : Bytes)
    (hid : idb.length < 2 ^ 60) {priv : Bytes} (hlen : priv.length < 2 ^ 63) (msg : Bytes) :
    match Model.SM2.sign ctxFiat idb pubx puby s priv msg with
    | .ok ((r, sg), _) => ∀ f, fuelSign4 (avail s) + 110 ≤ f →
        runV PX GP (CTIRRefineSign.readerOracle (Model.CTIRProto.protoOracle tape) s) f 110
          [bytesV idb, bytesV pubx, bytesV puby, rd, bytesV priv, bytesV msg] = .ret [bytesV r, bytesV sg, .int 0]
    | .err => ∃ code : Int, code ≠ 0 ∧ ∀ f, fuelSign4 (avail s) + 110 ≤ f →
        runV PX GP (CTIRRefineSign.readerOracle (Model.CTIRProto.protoOracle tape) s) f 110
          [bytesV idb, bytesV pubx, bytesV puby, rd, bytesV priv, bytesV msg] = .ret [bytesV [], bytesV [], .int code]
    | .panic => (∃ F, ∀ f, F ≤ f →
          runV PX GP (CTIRRefineSign.readerOracle (Model.CTIRProto.protoOracle tape) s) f 110
            [bytesV idb, bytesV pubx, bytesV puby, rd, bytesV priv, bytesV msg] = .panic) ∨
        (∀ f, runV PX GP (CTIRRefineSign.readerOracle (Model.CTIRProto.protoOracle tape) s) f 110
            [bytesV idb, bytesV pubx, bytesV puby, rd, bytesV priv, bytesV msg] = .stuck) := by
  obtain ⟨a, b, c⟩ := sSpec_run _ (sign_fnEnds (CTIRRefineSign.readerOracle_bigOk (protoOracle_bigOk tape) s)
    (readerOracle_sum tape s) (CTIRRefineSign.readerOracle_ok (Model.CTIRProto.protoOracle tape) rd s) idb pubx puby hid hlen msg)
  have e0 : CTIRRefineSign.scAt s 0 = s := rfl
  rw [e0] at a b c
  cases h : Model.SM2.sign ctxFiat idb pubx puby s priv msg with
  | ok res => obtain ⟨⟨r, sg⟩, n⟩ := res; exact a r sg n h
  | err => exact b h
  | panic => exact c h

end Closed

/-! ## 9. ScalarMixedMult_Unsafe (function 100), hypothesis-free -/

section Mixed
open SMGo.Model.SM2 (pointCtxFiat ctxFiat)

/-- **ScalarMixedMult_Unsafe of the extended program = `Model.Curve.scalarMixedMult (pointOps pointCtx4)`** on the generated
    6-3-14 tables: generated globals, ANY oracle (the function uses no external), any scalars, any point of `Limbs`.
    NO hypothesis.  (The closed form of C14.) -/
theorem ir_scalarMixedMult_fiat_proto {O : Oracle} (g : Bytes) (Pt : Model.Point.Pt Limbs) (k : Bytes) :
    match Model.Curve.scalarMixedMult (Model.Curve.pointOps pointCtx4) g Pt k Gen.SM2Tables.sm2Precomputed_6_3_14
        Gen.SM2Tables.sm2Precomputed_6_3_14_Remainder with
    | .ok r => ∀ f, fuelMm ≤ f →
        runV PX GP O f 100 [bytesV g, CTIRRefinePointB.ptV encL Pt, bytesV k] = .ret [CTIRRefinePointB.ptV encL r, .int 0]
    | .panic => (∃ F, ∀ f, F ≤ f → runV PX GP O f 100 [bytesV g, CTIRRefinePointB.ptV encL Pt, bytesV k] = .panic) ∨
        (∀ f, runV PX GP O f 100 [bytesV g, CTIRRefinePointB.ptV encL Pt, bytesV k] = .stuck)
    | .err => False := by
  obtain ⟨a, b, c⟩ := mm4 (O := O) g Pt k
  cases h : Model.Curve.scalarMixedMult (Model.Curve.pointOps pointCtx4) g Pt k Gen.SM2Tables.sm2Precomputed_6_3_14
      Gen.SM2Tables.sm2Precomputed_6_3_14_Remainder with
  | ok r => exact (a r h).runV
  | err => exact c h
  | panic => exact CTIRRefineWrap.runV_of_calleeFails (b h)

/-- **the same against `Model.SM2.pointCtxFiat`** (carrier `List Nat`), for a point with `Out4` coordinates; the result
    has `Out4` coordinates -/
theorem ir_scalarMixedMult_pointCtxFiat_proto {O : Oracle} (g : Bytes) (Pt : Model.Point.Pt (List Nat)) (hPt : Out4Pt Pt)
    (k : Bytes) :
    match Model.Curve.scalarMixedMult (Model.Curve.pointOps pointCtxFiat) g Pt k Gen.SM2Tables.sm2Precomputed_6_3_14
        Gen.SM2Tables.sm2Precomputed_6_3_14_Remainder with
    | .ok r => Out4Pt r ∧ ∀ f, fuelMm ≤ f →
        runV PX GP O f 100 [bytesV g, CTIRRefinePointB.ptV id Pt, bytesV k] = .ret [CTIRRefinePointB.ptV id r, .int 0]
    | .panic => (∃ F, ∀ f, F ≤ f → runV PX GP O f 100 [bytesV g, CTIRRefinePointB.ptV id Pt, bytesV k] = .panic) ∨
        (∀ f, runV PX GP O f 100 [bytesV g, CTIRRefinePointB.ptV id Pt, bytesV k] = .stuck)
    | .err => False := by
  obtain ⟨a, b, c⟩ := mm4 (O := O) g (liftPt Pt hPt) k
  have tr := mixedMult_val g (liftPt Pt hPt) k
  rw [valPt_liftPt] at tr
  cases h4 : Model.Curve.scalarMixedMult (Model.Curve.pointOps pointCtx4) g (liftPt Pt hPt) k ctx4.first ctx4.second with
  | ok r4 =>
    cases hL : Model.Curve.scalarMixedMult (Model.Curve.pointOps pointCtxFiat) g Pt k Gen.SM2Tables.sm2Precomputed_6_3_14
        Gen.SM2Tables.sm2Precomputed_6_3_14_Remainder with
    | ok r =>
      have tr' : SMGo.Proofs.FiatCompose.ORel (fun p r => r = valPt p) (Outcome.ok r4) (Outcome.ok r) := by
        rw [← h4, ← hL]; exact tr
      have hr : r = valPt r4 := tr'
      subst hr
      exact ⟨out4Pt_valPt r4, (a r4 h4).runV⟩
    | err =>
      have tr' : SMGo.Proofs.FiatCompose.ORel (fun p r => r = valPt p) (Outcome.ok r4) (Outcome.err) := by
        rw [← h4, ← hL]; exact tr
      exact tr'.elim
    | panic =>
      have tr' : SMGo.Proofs.FiatCompose.ORel (fun p r => r = valPt p) (Outcome.ok r4) (Outcome.panic) := by
        rw [← h4, ← hL]; exact tr
      exact tr'.elim
  | err => exact absurd h4 c
  | panic =>
    cases hL : Model.Curve.scalarMixedMult (Model.Curve.pointOps pointCtxFiat) g Pt k Gen.SM2Tables.sm2Precomputed_6_3_14
        Gen.SM2Tables.sm2Precomputed_6_3_14_Remainder with
    | ok r =>
      have tr' : SMGo.Proofs.FiatCompose.ORel (fun p r => r = valPt p) (Outcome.panic) (Outcome.ok r) := by
        rw [← h4, ← hL]; exact tr
      exact tr'.elim
    | err =>
      have tr' : SMGo.Proofs.FiatCompose.ORel (fun p r => r = valPt p) (Outcome.panic) (Outcome.err) := by
        rw [← h4, ← hL]; exact tr
      exact tr'.elim
    | panic => exact CTIRRefineWrap.runV_of_calleeFails (b h4)

end Mixed

/-! ### The fuels as numbers -/

theorem fuelMm_eq : fuelMm = 49893848 := by decide
theorem fuelCheck_eq : fuelCheck = 15177 := by decide
theorem fuelVerifyZa_eq : fuelVerify4 + 30 = 49926337 := by decide
theorem fuelVerifyFn_eq : fuelVerify4 + 100 = 49926407 := by decide
/-- SignZa / Sign for a reader script delivering `a` bytes -/
theorem fuelSignZa_eq (a : Nat) : SMGo.Proofs.CTIRRefineEntry.fuelSign4 a + 30 = 2797095 * (a / 32 + 1) + 653 := by
  rw [SMGo.Proofs.CTIRRefineEntry.fuelSign4_eq]
theorem fuelSignFn_eq (a : Nat) : SMGo.Proofs.CTIRRefineEntry.fuelSign4 a + 110 = 2797095 * (a / 32 + 1) + 733 := by
  rw [SMGo.Proofs.CTIRRefineEntry.fuelSign4_eq]

#print axioms runV_GP
#print axioms signZa_body
#print axioms verifyZa_body
#print axioms sign_body_ok
#print axioms verify_body_ok
#print axioms checkOnCurve_body
#print axioms ir_checkOnCurve_ctxFiat_proto
#print axioms ir_verifyZa_ctxFiat
#print axioms ir_verifyZa_ctxFiat_proto
#print axioms ir_verify_ctxFiat
#print axioms ir_verify_ctxFiat_proto
#print axioms ir_signZa_ctxFiat
#print axioms ir_signZa_ctxFiat_proto
#print axioms ir_sign_ctxFiat
#print axioms ir_sign_ctxFiat_proto
#print axioms ir_scalarMixedMult_fiat_proto
#print axioms ir_scalarMixedMult_pointCtxFiat_proto

end SMGo.Proofs.CTIRRefineEntryProto2
