/-
  `CurveFacts Model.SM2.ctx`: the hypothesis bundle of the protocol theorems (C01, C02, C03, C12, C13,
  C19), discharged for the instance regenerated from the source.  Nothing new is proved about the
  layers here; every field is assembled from the property theorems below sm2.go:
    * C18 (`Proofs/TablesAll.lean`): every entry of the 6-3-14-4 comb tables is the stated multiple of G;
    * C14 (`Props/C14.lean`): the comb / mixed multiplication schedules over valid tables;
    * C15 (`Props/C15.lean`): the point layer (`Rep`, encodings, affine conversion, `Sem` instance);
    * C16 (`Props/C16.lean`): field decoding, byte conversion, inversion by the addition chains;
    * C04 (`Props/C04.lean`, via C13): the SM3 model;
    * primality of n (`Proofs/Prime.lean`) for the uniqueness of inverses.
-/
import SMGo.Proofs.SM2Facts
import SMGo.Model.SM2Inst
import SMGo.Proofs.TablesAll
import SMGo.Proofs.ModArith
import SMGo.Proofs.Prime
import SMGo.Proofs.SM2SignBytes
import SMGo.Props.C04
import SMGo.Props.C12
import SMGo.Props.C13
import SMGo.Props.C14
import SMGo.Props.C15
import SMGo.Props.C16
import SMGo.Props.C18
namespace SMGo.Proofs.SM2FactsInst
open SMGo SMGo.Model SMGo.Model.SM2 SMGo.Proofs.SM2Facts
open SMGo.Proofs.CurveGroup (Valid toPoint)
open SMGo.Proofs.PointRep (Rep)
open SMGo.Proofs.PointSem (ok okXY sem limbsOk xyPoint)
open SMGo.Proofs.CurveSem (Sem TableValid RemainderValid subX subY)
open SMGo.Proofs.CurveBits (combMultiplier)
open SMGo.Proofs.Tables (EntryOK FirstValid SecondValid entryAffine)
open SMGo.Model.Point (Pt)

/-! ### unfolding the context (projections of the structure literal; no table or parameter is unfolded) -/

theorem ctx_C : ctx.C = pointCtx := rfl
theorem ctx_S : ctx.S = Fn := rfl
theorem ctx_first : ctx.first = Gen.SM2Tables.sm2Precomputed_6_3_14 := rfl
theorem ctx_second : ctx.second = Gen.SM2Tables.sm2Precomputed_6_3_14_Remainder := rfl

theorem scalarBaseMult_unfold {α β : Type} (X : Ctx α β) (k : Bytes) :
    scalarBaseMult X k = Curve.scalarBaseMult (Curve.pointOps X.C) k X.first X.second 6 3 14 4 := rfl

/-! ### C18 → C14: the generated tables are valid tables of the group-level schedules -/

theorem getD_lt_of_all {l : List Nat} {B : Nat} (hB : 0 < B) (h : ∀ v ∈ l, v < B) (i : Nat) :
    l.getD i 0 < B := by
  rw [List.getD_eq_getElem?_getD]
  by_cases hi : i < l.length
  · rw [List.getElem?_eq_getElem hi, Option.getD_some]; exact h _ (List.getElem_mem hi)
  · rw [List.getElem?_eq_none (by omega), Option.getD_none]; exact hB

theorem limbsOk_of_all {l : List Nat} (h : ∀ v ∈ l, v < 2 ^ 64) : limbsOk l :=
  ⟨getD_lt_of_all (by decide) h 0, getD_lt_of_all (by decide) h 1, getD_lt_of_all (by decide) h 2,
    getD_lt_of_all (by decide) h 3⟩

/-- the point a raw entry stands for in the point layer (C15) is the point C18 speaks about -/
theorem xyPoint_eq_entryAffine (x y : List Nat) : xyPoint x y = entryAffine x y := by
  rw [Tables.entryAffine_eq_model, PointField.Fp_ofRaw, PointField.Fp_ofRaw]
  rfl

/-- one entry: what C18 proves (`EntryOK x y m`) is what C14 needs (`okXY`, and `sem = [m]G`) -/
theorem entry_ok {x y : List Nat} {m : Nat} (h : EntryOK x y m) :
    okXY x y ∧ sem (Point.fromXY pointCtx x y) = m • toPoint Spec.SM2.G := by
  have hv : Valid (xyPoint x y) := by
    rw [xyPoint_eq_entryAffine, h.val]
    exact CurveGroup.smul_valid m CurveGroup.G_valid
  obtain ⟨h1, _, h3⟩ := Props.C15.okXY_of_valid (limbsOk_of_all h.limbsX) (limbsOk_of_all h.limbsY)
    h.canonX h.canonY hv
  refine ⟨h1, ?_⟩
  rw [h3, xyPoint_eq_entryAffine, h.val, CurveGroup.toPoint_smul m CurveGroup.G_valid]

theorem tableValid_of_firstValid {first : List Curve.Table} {w s it r : Nat}
    (h : FirstValid first w s it r) :
    TableValid (Curve.pointOps pointCtx) okXY sem (toPoint Spec.SM2.G) first w s it r where
  lenX := fun j hj => (h.2 j hj).2.1
  lenY := fun j hj => (h.2 j hj).2.2.1
  wf := by
    intro j hj i hi
    have h2 : i + 1 < 2 ^ w := by omega
    have e := (h.2 j hj).2.2.2 (i + 1) (Nat.le_add_left 1 i) h2
    rw [Nat.add_sub_cancel] at e
    exact (entry_ok e).1
  val := fun j hj idx h1 h2 => (entry_ok ((h.2 j hj).2.2.2 idx h1 h2)).2

theorem remainderValid_of_secondValid {second : Curve.Table} {r : Nat} (h : SecondValid second r) :
    RemainderValid (Curve.pointOps pointCtx) okXY sem (toPoint Spec.SM2.G) second r where
  lenX := h.2.1
  lenY := h.2.2.1
  wf := by
    intro i hi
    have h2 : i + 1 < 2 ^ r := by omega
    have e := h.2.2.2 (i + 1) (Nat.le_add_left 1 i) h2
    rw [Nat.add_sub_cancel] at e
    exact (entry_ok e).1
  val := fun idx h1 h2 => (entry_ok (h.2.2.2 idx h1 h2)).2

/-- the first table of the regenerated context is a valid 6-3-14-4 comb table for G -/
theorem ctx_first_valid :
    TableValid (Curve.pointOps pointCtx) okXY sem (toPoint Spec.SM2.G) ctx.first 6 3 14 4 :=
  tableValid_of_firstValid Tables.first_6_3_14_valid

/-- the remainder table of the regenerated context holds [1]G … [15]G -/
theorem ctx_second_valid :
    RemainderValid (Curve.pointOps pointCtx) okXY sem (toPoint Spec.SM2.G) ctx.second 4 :=
  remainderValid_of_secondValid Tables.second_6_3_14_valid

/-! ### C14 + C15 + C18: the scalar multiplications of the context -/

theorem ctx_baseMult (k : Bytes) (hk : k.length = 32) :
    ∃ P, scalarBaseMult ctx k = .ok P ∧ Rep P (Spec.SM2.smul (Bytes.toNatBE k) Spec.SM2.G) := by
  rw [scalarBaseMult_unfold, ctx_C]
  exact Props.C15.baseMult_rep ctx_first_valid ctx_second_valid k hk

theorem ctx_baseMult_len (k : Bytes) (hk : k.length ≠ 32) : scalarBaseMult ctx k = .err := by
  rw [scalarBaseMult_unfold, ctx_C]
  exact Props.C14.baseMult_len_err _ _ _ 6 3 14 4 (by decide) (by decide) (by decide)
    (ctx_first_valid.lenX 0 (by decide)) k hk

theorem ctx_mixedMult (g s : Bytes) (P : Pt Nat) (Q : Spec.SM2.Point) (hg : g.length = 32)
    (hs : s.length = 32) (hP : Rep P Q) :
    ∃ R, Curve.scalarMixedMult (Curve.pointOps ctx.C) g P s ctx.first ctx.second = .ok R ∧
      Rep R (Spec.SM2.add (Spec.SM2.smul (Bytes.toNatBE g) Spec.SM2.G)
        (Spec.SM2.smul (Bytes.toNatBE s) Q)) := by
  rw [ctx_C]
  exact Props.C15.mixedMult_rep ctx_first_valid ctx_second_valid g s hg hs hP

/-! ### C15: validity, affine conversion, encodings -/

theorem validPt_of_valid {Q : Spec.SM2.Point} (h : Valid Q) : ValidPt Q := by
  rcases Q with _ | ⟨x, y⟩
  · trivial
  · exact h

theorem affX_eq (Q : Spec.SM2.Point) : affX Q = PointEnc.affX Q := by
  rcases Q with _ | ⟨x, y⟩ <;> rfl

theorem ctx_setBytes (b : Bytes) :
    match Spec.SM2.parsePoint b with
    | some Q => ∃ P, Point.setBytes ctx.C b = .ok P ∧ Rep P Q
    | none => Point.setBytes ctx.C b = .err := by
  rw [ctx_C]
  have h := Props.C15.setBytes_spec b
  generalize Spec.SM2.parsePoint b = o at h ⊢
  cases o with
  | none => exact h
  | some Q => obtain ⟨P, h1, _, h3⟩ := h; exact ⟨P, h1, h3⟩

/-! ### C16: coordinate-field decoding and the curve equation -/

theorem ctx_fieldSetBytes (v : Bytes) :
    (v.length = 32 ∧ Bytes.toNatBE v < Spec.SM2.p → ∃ e, Field.setBytes Fp v = .ok e) ∧
    (¬ (v.length = 32 ∧ Bytes.toNatBE v < Spec.SM2.p) → Field.setBytes Fp v = .err) := by
  constructor
  · intro h; exact ⟨_, by rw [Props.C16.setBytes_Fp_spec, if_pos h]⟩
  · intro h; rw [Props.C16.setBytes_Fp_spec, if_neg h]

theorem setBytes_Fp_ok {v : Bytes} {e : Nat} (h : Field.setBytes Fp v = .ok e) :
    e = Fp.toMontgomery (Bytes.toNatBE v) := by
  rw [Props.C16.setBytes_Fp_spec] at h
  split at h
  · injection h with h; rw [← h, PointField.Fp_toMontgomery]
  · cases h

theorem ctx_checkOnCurve (x y : Bytes) (xe ye : Nat) (hx : Field.setBytes Fp x = .ok xe)
    (hy : Field.setBytes Fp y = .ok ye) :
    Point.checkOnCurve pointCtx xe ye = Spec.SM2.onCurve (Bytes.toNatBE x) (Bytes.toNatBE y) := by
  rw [setBytes_Fp_ok hx, setBytes_Fp_ok hy, PointEnc.checkOnCurve_toMontgomery]

/-! ### C16: scalar-field decoding and inversion -/

theorem fromMontgomery_montOps (P : Field.MontParams) (a : Nat) :
    (Field.montOps P).fromMontgomery a = a * P.rinv % P.m := rfl

theorem Fn_eq : Fn = Field.montOps nParams := rfl

/-- leaving the Montgomery domain undoes entering it (mod n) -/
theorem Fn_fromMontgomery_toMont (v : Nat) (hv : v < Spec.SM2.n) :
    Fn.fromMontgomery (v * Field.R % Spec.SM2.n) = v := by
  have h := FiatWrappers.mont_cancel nParams Props.C16.Fn_params.2.2 v
  rw [Fn_eq, fromMontgomery_montOps, ← AddChainExp.nParams_m, h, AddChainExp.nParams_m,
    Nat.mod_eq_of_lt hv]

/-- inverses modulo n are unique among reduced residues -/
theorem inv_unique {n w i v : Nat} (hn : 1 < n) (hw : w < n) (hi : i < n) (h1 : w * v % n = 1)
    (h2 : i * v % n = 1) : w = i := by
  have e1 : w * v ≡ 1 [MOD n] := by unfold Nat.ModEq; rw [h1, Nat.mod_eq_of_lt hn]
  have e2 : i * v ≡ 1 [MOD n] := by unfold Nat.ModEq; rw [h2, Nat.mod_eq_of_lt hn]
  have h : w ≡ i [MOD n] := calc
    w = w * 1 := (Nat.mul_one w).symm
    _ ≡ w * (i * v) [MOD n] := Nat.ModEq.mul_left w e2.symm
    _ = i * (w * v) := by rw [Nat.mul_left_comm]
    _ ≡ i * 1 [MOD n] := Nat.ModEq.mul_left i e1
    _ = i := Nat.mul_one i
  exact Nat.ModEq.eq_of_lt_of_lt h hw hi

theorem n_lt_256_32 {v : Nat} (h : v < Spec.SM2.n) : v < 256 ^ 32 :=
  Nat.lt_trans h (by decide)

/-- for 1 ≤ v < n: the 32-byte encoding `v.FillBytes(buf)` decodes to the Montgomery form of v, and `Invert` followed by
    `ToBigInt` is the specification's inverse of v modulo n -/
theorem ctx_scalarInv (v : Nat) (h1 : 1 ≤ v) (hv : v < Spec.SM2.n) :
    ∃ e, Field.scalarSetBytes Fn (Bytes.ofNatBE 32 v) = .ok e ∧
      Field.toNat Fn (Field.invert Fn e) = Spec.SM2.invMod v Spec.SM2.n := by
  have hlen : (Bytes.ofNatBE 32 v).length = 32 := FiatWrappers.ofNatBE_length 32 v
  have hval : Bytes.toNatBE (Bytes.ofNatBE 32 v) = v :=
    FiatWrappers.toNatBE_ofNatBE 32 v (n_lt_256_32 hv)
  have hn1 : 1 < Spec.SM2.n := by decide
  refine ⟨v * Field.R % Spec.SM2.n, ?_, ?_⟩
  · rw [Props.C16.scalarSetBytes_eq_setBytes,
      Props.C16.setBytes_Fn_spec, if_pos ⟨hlen, by rw [hval]; exact hv⟩, hval]
  · have hb := Props.C16.bytes_spec (Field.invert Fn (v * Field.R % Spec.SM2.n))
    have hfm := Fn_fromMontgomery_toMont v hv
    have hinv := Props.C16.invert_Fn_plain Prime.n_prime (v * Field.R % Spec.SM2.n)
      (by rw [hfm]; omega)
    rw [hfm] at hinv
    have hlt : Fn.fromMontgomery (Field.invert Fn (v * Field.R % Spec.SM2.n)) < Spec.SM2.n := by
      rw [← hb.2.2.2.2.1]; exact hb.2.2.2.2.2
    have hs := ModArith.invMod_spec' Prime.n_prime (Nat.not_dvd_of_pos_of_lt h1 hv)
    unfold Field.toNat
    rw [hb.2.2.2.2.1]
    exact inv_unique hn1 hlt (ModArith.invMod_lt v Spec.SM2.n (by omega)) hinv hs

/-! ### the bundle -/

/-- **the regenerated instance satisfies every hypothesis of the protocol theorems** -/
def ctx_facts : CurveFacts ctx where
  rep := Rep
  rep_valid := fun _ _ h => validPt_of_valid h.valid
  n_eq := Props.C12.ctx_n
  modulus_eq := PointField.Fp_modulus
  baseMult := ctx_baseMult
  baseMult_len := ctx_baseMult_len
  mixedMult := ctx_mixedMult
  affineX := fun P Q h => by rw [affX_eq]; exact (Props.C15.getAffineX_rep h).2
  bytesUnsafe := fun P Q h => (Props.C15.bytes_rep h).2
  affineXSafe := fun P Q h => by rw [affX_eq]; exact (Props.C15.getAffineX_rep h).1
  bytesSafe := fun P Q h => (Props.C15.bytes_rep h).1
  setBytes := ctx_setBytes
  fieldSetBytes := ctx_fieldSetBytes
  checkOnCurve := ctx_checkOnCurve
  scalarInv := ctx_scalarInv
  zBytes_eq := Props.C13.ctx_zBytes
  sm3 := Props.C13.ctx_sm3

end SMGo.Proofs.SM2FactsInst

open SMGo.Proofs.SM2FactsInst
#print axioms ctx_first_valid
#print axioms ctx_second_valid
#print axioms ctx_scalarInv
#print axioms ctx_facts
