import SMGo.Proofs.ISAValOpenCmp1
set_option linter.unusedSimpArgs false
namespace SMGo.Proofs.ISAVal
open SMGo.Model.ISAVal SMGo.Model.GCM SMGo.Proofs.GCM SMGo.Proofs.ISATouch
open SMGo.Model.ISA (Reg Opd Instr)

/-- one iteration of a loop of `constantTimeCompare`: `w` bytes of the received tag are xored into the expected tag (in place),
    the result is ORed into the accumulator `A` -/
def cmpIterCode (w A : Nat) (ci : Int) : List DInstr :=
  [ins (movOf w) [M 10 0, G 13] 0, ins (xorOf w) [G 13, M 0 0] 0, ins (orOf w) [M 0 0, G A] 0,
   ins .ADDQ [.imm ci, G 10] 0, ins .ADDQ [.imm ci, G 0] 0, ins .SUBQ [.imm ci, G 14] 0]

def CmpInst (w A : Nat) (ci : Int) : Prop := (w = 8 ∧ A = 1 ∧ ci = 8) ∨ (w = 1 ∧ A = 2 ∧ ci = 1)

def cmpKeepG : List Nat := [3, 4, 5, 6, 7, 8, 9, 11, 12, 15]

theorem mergeG_small (w old v : Nat) (hw : w = 8 ∨ w = 1) (ho : old < 2 ^ (8 * w)) (hv : v < 2 ^ (8 * w)) : mergeG w old v = v := by
  unfold mergeG
  rcases hw with rfl | rfl
  · simp only [if_true]; exact Nat.mod_eq_of_lt hv
  · simp only [show (1 : Nat) ≠ 8 from by decide, show (1 : Nat) ≠ 4 from by decide, if_false]
    rw [Nat.mod_eq_of_lt ho, Nat.mod_eq_of_lt hv]; omega

set_option maxHeartbeats 1000000 in
theorem cmp_iter (w A : Nat) (ci : Int) (hi : CmpInst w A ci) (s : State) (hG : s.gpr.length = 16)
    (Mf : List Nat → List Region) (ebase : Nat) (bf : Buf Mf ebase 16) (x : List Nat) (xp : Nat)
    (hx : ∀ e, e.length = 16 → DataAt (Mf e) xp x) (hxb : ∀ b ∈ x, b < 2 ^ 8) (hxp : xp + x.length < 2 ^ 63) (heb : ebase + 16 < 2 ^ 63)
    (e : List Nat) (he : e.length = 16) (hm : s.mem = Mf e) (so n a : Nat) (h10 : greg s 10 = xp + so) (h0 : greg s 0 = ebase + so)
    (h14 : greg s 14 = n) (hn : w ≤ n) (hn63 : n < 2 ^ 63) (hA : greg s A = a) (ha : a < 2 ^ (8 * w)) (hso : so + w ≤ x.length)
    (hso16 : so + w ≤ 16) (hEb : ∀ b ∈ (e.drop so).take w, b < 2 ^ 8) :
    ∃ s', execList (cmpIterCode w A ci) s = .ok s' ∧ s'.mem = Mf (spliceAt e so (xorN ((e.drop so).take w) ((x.drop so).take w))) ∧
      greg s' 10 = xp + (so + w) ∧ greg s' 0 = ebase + (so + w) ∧ greg s' 14 = n - w ∧
      greg s' A = a ||| unlanes 8 (xorN ((e.drop so).take w) ((x.drop so).take w)) ∧ RegsKeep cmpKeepG s s' ∧
      (∀ m, m ∈ [1, 2] → m ≠ A → greg s' m = greg s m) := by
  have hw : w = 8 ∨ w = 1 := by rcases hi with ⟨rfl, _, _⟩ | ⟨rfl, _, _⟩ <;> simp
  have hAr : A = 1 ∨ A = 2 := by rcases hi with ⟨_, rfl, _⟩ | ⟨_, rfl, _⟩ <;> simp
  have hci : imm64 ci = w := by rcases hi with ⟨rfl, _, rfl⟩ | ⟨rfl, _, rfl⟩ <;> decide +kernel
  have hisW : isW w := by rcases hw with rfl | rfl <;> simp [isW]
  have hw8 : w ≤ 8 := by rcases hw with rfl | rfl <;> omega
  have hw0 : 0 < w := by rcases hw with rfl | rfl <;> omega
  let X := (x.drop so).take w
  let E := (e.drop so).take w
  have hXl : X.length = w := by show ((x.drop so).take w).length = w; rw [List.length_take, List.length_drop]; omega
  have hEl : E.length = w := by show ((e.drop so).take w).length = w; rw [List.length_take, List.length_drop]; omega
  have hXb : ∀ b ∈ X, b < 2 ^ 8 := fun b hb => hxb b (List.mem_of_mem_drop (List.mem_of_mem_take hb))
  have hUX : unlanes 8 X < 2 ^ (8 * w) := by have := unlanes_lt 8 X hXb; rw [hXl] at this; exact this
  have hUE : unlanes 8 E < 2 ^ (8 * w) := by have := unlanes_lt 8 E hEb; rw [hEl] at this; exact this
  -- MOV (x), G13
  have x1 := a_mov_load_gpr s w 10 13 hisW X (by omega) (by omega)
    (by rw [h10, ea00 _ (by omega), hm]; exact hx e he so w hso)
  let s1 := setGreg s 13 (mergeG w (greg s 13) (unlanes 8 X))
  have hG1 : s1.gpr.length = 16 := by simp [s1]; exact hG
  have g113 : greg s1 13 % 2 ^ (8 * w) = unlanes 8 X := by
    rw [show greg s1 13 = mergeG w (greg s 13) (unlanes 8 X) from greg_setGreg_eq s 13 _ (by omega)]
    unfold mergeG
    rcases hw with rfl | rfl
    · simp only [if_true, Nat.mod_mod]; exact Nat.mod_eq_of_lt hUX
    · simp only [show (1 : Nat) ≠ 8 from by decide, show (1 : Nat) ≠ 4 from by decide, if_false]
      rw [Nat.mod_eq_of_lt hUX]
      have : (greg s 13 - greg s 13 % 2 ^ (8 * 1)) % 2 ^ (8 * 1) = 0 := by omega
      omega
  have g10' : greg s1 0 = ebase + so := by rw [greg_setGreg_ne s 13 _ 0 (by decide)]; exact h0
  -- XOR G13, (e)
  have hO : lanes 8 w (unlanes 8 E ^^^ unlanes 8 X) = xorN E X := by
    rw [lanes8_xor, lanes_unlanes 8 w E hEb hEl, lanes_unlanes 8 w X hXb hXl]
  let e1 := spliceAt e so (xorN E X)
  have x2 := a_xor_store s1 w 13 0 hw E (Mf e1) (by omega) (by omega)
    (by rw [g10', ea00 _ (by omega)]; show readMem s.mem _ _ = _; rw [hm]; exact bf.rd e so w he hso16)
    (by rw [g10', ea00 _ (by omega), g113, hO]; show writeMem s.mem _ _ = _; rw [hm]
        exact bf.wr e so (xorN E X) he (by rw [xorN_length, hEl, hXl, Nat.min_self]; exact hso16))
  rw [g113] at x2
  let s2 := setFlags (setMem s1 (Mf e1)) (logicFlags w (unlanes 8 E ^^^ unlanes 8 X))
  have hG2 : s2.gpr.length = 16 := hG1
  have he1 : e1.length = 16 := by
    show (spliceAt e so _).length = 16
    rw [spliceAt_length _ _ _ (by rw [xorN_length, hEl, hXl, Nat.min_self, he]; exact hso16)]; exact he
  have hrd1 : (e1.drop so).take w = xorN E X := by
    have := spliceAt_read e so (xorN E X) (by rw [xorN_length, hEl, hXl, Nat.min_self, he]; exact hso16)
    rw [xorN_length, hEl, hXl, Nat.min_self] at this; exact this
  -- OR (e), A
  have g2A : greg s2 A = a := by
    show greg s1 A = a
    rw [greg_setGreg_ne s 13 _ A (by rcases hAr with rfl | rfl <;> decide)]; exact hA
  have x3 := a_or_load s2 w 0 A hw (xorN E X) (by omega) (by rcases hAr with rfl | rfl <;> omega)
    (by rw [show greg s2 0 = ebase + so from g10', ea00 _ (by omega)]; show readMem (Mf e1) _ _ = _
        rw [bf.rd e1 so w he1 hso16, hrd1])
  have hOl : unlanes 8 (xorN E X) < 2 ^ (8 * w) := by
    have := unlanes_lt 8 (xorN E X) (xorN_bytes _ _ hEb hXb)
    rw [xorN_length, hEl, hXl, Nat.min_self] at this; exact this
  rw [g2A, Nat.mod_eq_of_lt ha, mergeG_small w a _ hw ha (Nat.or_lt_two_pow ha hOl)] at x3
  let s3 := setFlags (setGreg s2 A (a ||| unlanes 8 (xorN E X))) (logicFlags w (a ||| unlanes 8 (xorN E X)))
  have hG3 : s3.gpr.length = 16 := (lenG_sf s2 A _ _).trans hG2
  have x4 := a_addq_imm s3 ci 10 (by omega)
  let s4 := setFlags (setGreg s3 10 (addF 8 (greg s3 10) (imm64 ci)).1) (addF 8 (greg s3 10) (imm64 ci)).2
  have hG4 : s4.gpr.length = 16 := (lenG_sf s3 10 _ _).trans hG3
  have x5 := a_addq_imm s4 ci 0 (by omega)
  let s5 := setFlags (setGreg s4 0 (addF 8 (greg s4 0) (imm64 ci)).1) (addF 8 (greg s4 0) (imm64 ci)).2
  have hG5 : s5.gpr.length = 16 := (lenG_sf s4 0 _ _).trans hG4
  have x6 := a_subq_imm s5 ci 14 (by omega)
  let s6 := setFlags (setGreg s5 14 (subF 8 (greg s5 14) (imm64 ci)).1) (subF 8 (greg s5 14) (imm64 ci)).2
  have hex : execList (cmpIterCode w A ci) s = .ok s6 := by
    unfold cmpIterCode
    apply exec_step x1
    apply exec_step x2
    apply exec_step x3
    apply exec_step x4
    apply exec_step x5
    apply exec_step x6
    exact execList_nil _
  have hA10 : A ≠ 10 ∧ A ≠ 0 ∧ A ≠ 14 ∧ A ≠ 13 := by rcases hAr with rfl | rfl <;> decide
  -- register values
  have r3 : ∀ m, m ≠ A → m ≠ 13 → greg s3 m = greg s m := by
    intro m hmA hm13
    show greg (setFlags (setGreg s2 A _) _) m = _
    rw [greg_setFlags, greg_setGreg_ne s2 A _ m hmA]
    show greg s1 m = _
    exact greg_setGreg_ne s 13 _ m hm13
  have e310 : greg s3 10 = xp + so := (r3 10 (Ne.symm hA10.1) (by decide)).trans h10
  have e40 : greg s4 0 = ebase + so := by
    show greg (setFlags (setGreg s3 10 _) _) 0 = _
    rw [greg_setFlags, greg_setGreg_ne s3 10 _ 0 (by decide)]; exact (r3 0 (Ne.symm hA10.2.1) (by decide)).trans h0
  have e514 : greg s5 14 = n := by
    show greg (setFlags (setGreg s4 0 _) _) 14 = _
    rw [greg_setFlags, greg_setGreg_ne s4 0 _ 14 (by decide)]
    show greg (setFlags (setGreg s3 10 _) _) 14 = _
    rw [greg_setFlags, greg_setGreg_ne s3 10 _ 14 (by decide)]; exact (r3 14 (Ne.symm hA10.2.2.1) (by decide)).trans h14
  have rest : ∀ m, m ≠ 10 → m ≠ 0 → m ≠ 14 → greg s6 m = greg s3 m := by
    intro m h1 h2 h3
    show greg (setFlags (setGreg s5 14 _) _) m = _
    rw [greg_setFlags, greg_setGreg_ne s5 14 _ m h3]
    show greg (setFlags (setGreg s4 0 _) _) m = _
    rw [greg_setFlags, greg_setGreg_ne s4 0 _ m h2]
    show greg (setFlags (setGreg s3 10 _) _) m = _
    rw [greg_setFlags, greg_setGreg_ne s3 10 _ m h1]
  refine ⟨s6, hex, rfl, ?_, ?_, ?_, ?_, ?_, ?_⟩
  · show greg (setFlags (setGreg s5 14 _) _) 10 = _
    rw [greg_setFlags, greg_setGreg_ne s5 14 _ 10 (by decide)]
    show greg (setFlags (setGreg s4 0 _) _) 10 = _
    rw [greg_setFlags, greg_setGreg_ne s4 0 _ 10 (by decide)]
    show greg (setFlags (setGreg s3 10 _) _) 10 = _
    rw [greg_setFlags, greg_setGreg_eq s3 10 _ (by omega), addF_fst, e310, hci]; omega
  · show greg (setFlags (setGreg s5 14 _) _) 0 = _
    rw [greg_setFlags, greg_setGreg_ne s5 14 _ 0 (by decide)]
    show greg (setFlags (setGreg s4 0 _) _) 0 = _
    rw [greg_setFlags, greg_setGreg_eq s4 0 _ (by omega), addF_fst, e40, hci]; omega
  · show greg (setFlags (setGreg s5 14 _) _) 14 = _
    rw [greg_setFlags, greg_setGreg_eq s5 14 _ (by omega), subF_fst, e514, hci]; omega
  · rw [rest A hA10.1 hA10.2.1 hA10.2.2.1]
    show greg (setFlags (setGreg s2 A _) _) A = _
    rw [greg_setFlags, greg_setGreg_eq s2 A _ (by rcases hAr with rfl | rfl <;> omega)]
  · refine ⟨(lenG_sf s5 14 _ _).trans (hG5.trans hG.symm), ?_, rfl, rfl, rfl, rfl⟩
    intro m hm'
    have hm2 : m ≠ 10 ∧ m ≠ 0 ∧ m ≠ 14 ∧ m ≠ 13 ∧ m ≠ 1 ∧ m ≠ 2 := by
      simp only [cmpKeepG, List.mem_cons, List.not_mem_nil, or_false] at hm'
      omega
    rw [rest m hm2.1 hm2.2.1 hm2.2.2.1]
    exact r3 m (by rcases hAr with rfl | rfl <;> omega) hm2.2.2.2.1
  · intro m hm' hmA
    simp only [List.mem_cons, List.not_mem_nil, or_false] at hm'
    rw [rest m (by rcases hm' with rfl | rfl <;> decide) (by rcases hm' with rfl | rfl <;> decide) (by rcases hm' with rfl | rfl <;> decide)]
    exact r3 m hmA (by rcases hm' with rfl | rfl <;> decide)

end SMGo.Proofs.ISAVal
