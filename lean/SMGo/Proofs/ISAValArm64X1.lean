/-
  The arm64 listing of `cryptoBlockAsm` (sm4/asm_arm64.s) by symbolic execution of the arm64 value interpreter
  (UNVALIDATED transcription of the Arm ARM): key load + `subRoundX4` = one SM4 round on word element 0, the
  32-round invariant, the prologue (loadSBox, pointers, CONST, four words of input, REV32) and the epilogue
  (REV32, four single-element stores in reverse order).
-/
import SMGo.Proofs.ISAValArm64Round
namespace SMGo.Proofs.ISAValArm64
open SMGo.Model.ISAValArm64 SMGo.Model.ISA
open SMGo.Model.ISAVal (lane lanes unlanes map1 map2 rotl32 Region readMem writeMem lookup regionBase)
open SMGo.Proofs.ISAVal (lane_lt tauN LN TN roundF list32 list16 stepN iterN beWord beBytes lane_map1 lanes84
  lanes_unlanes unlanes_cons unlanes_nil lane32_list4 exists_cons_of_length_succ)

/-! ### register-file bookkeeping -/

theorem getD_set_ne (l : List Nat) (m n x : Nat) (h : n ≠ m) : (l.set m x).getD n 0 = l.getD n 0 := by
  simp only [List.getD_eq_getElem?_getD, List.getElem?_set_ne (Ne.symm h)]

theorem getD_set_eq (l : List Nat) (m x : Nat) (h : m < l.length) : (l.set m x).getD m 0 = x := by
  simp [List.getD_eq_getElem?_getD, List.getElem?_set_self h]

theorem getD_of_getElem? {l : List Nat} {n x : Nat} (h : l[n]? = some x) : l.getD n 0 = x := by
  simp [List.getD_eq_getElem?_getD, h]

theorem getElem?_of_lt (l : List Nat) (n : Nat) (h : n < l.length) : l[n]? = some (l.getD n 0) := by
  simp [List.getD_eq_getElem?_getD, List.getElem?_eq_getElem h]

/-! ### the round-key load of the one-block kernel: `VLD1.P 4(R10), V12.S[0]` -/

def keyLoadCode : List DInstr := [ins .VLD1P [M 10 4, R 12] [.none, .S 0]]

theorem keyLoad_spec (s : State) (hG : s.gpr.length = 31) (hV : s.vec.length = 32) (bs : List Nat)
    (hload : readMem s.mem (greg s 10) 4 = .ok bs) :
    execList keyLoadCode s = .ok { s with gpr := s.gpr.set 10 ((greg s 10 + 4) % 2 ^ 64),
                                          vec := s.vec.set 12 (setLaneS 0 (vreg s 12) (unlanes 8 bs)) } := by
  obtain ⟨gpr, vec, mem, syms, frame⟩ := s
  simp only at hG hV hload
  unfold keyLoadCode
  apply exec_step
  · exact execD_ld1p_lane (b := 10) (d := 12) (i := 0) (gb := gpr.getD 10 0) (dv := vec.getD 12 0) (bs := bs)
      (hi := by decide) (hb := getElem?_of_lt gpr 10 (by omega)) (hdv := getElem?_of_lt vec 12 (by omega))
      (hload := hload) ..
  rfl

/-- one round of `cryptoBlockAsm`: `loadRoundKeyX1` and `subRoundX4(A, B, C, D)` -/
def roundCode (A B C D : Nat) : List DInstr := keyLoadCode ++ subRoundCode A B C D

/-- the register holding word `j` of the sliding window before round `i` -/
def sreg (i j : Nat) : Nat := (i + j) % 4

theorem sreg_perm (i : Nat) :
    (sreg i 0 = 0 ∧ sreg i 1 = 1 ∧ sreg i 2 = 2 ∧ sreg i 3 = 3) ∨ (sreg i 0 = 1 ∧ sreg i 1 = 2 ∧ sreg i 2 = 3 ∧ sreg i 3 = 0) ∨
    (sreg i 0 = 2 ∧ sreg i 1 = 3 ∧ sreg i 2 = 0 ∧ sreg i 3 = 1) ∨ (sreg i 0 = 3 ∧ sreg i 1 = 0 ∧ sreg i 2 = 1 ∧ sreg i 3 = 2) := by
  unfold sreg; omega

theorem sreg_lt (i j : Nat) : sreg i j < 4 := by unfold sreg; omega
theorem sreg_succ (i j : Nat) : sreg (i + 1) j = sreg i (j + 1) := by unfold sreg; omega
theorem sreg_succ3 (i : Nat) : sreg (i + 1) 3 = sreg i 0 := by unfold sreg; omega

/-- the state between two rounds of `cryptoBlockAsm` -/
structure Ready (mem : List Region) (syms frame : List (String × Nat)) (rkBase dstp : Nat)
    (i : Nat) (X : Nat × Nat × Nat × Nat) (s : State) : Prop where
  lenG : s.gpr.length = 31
  lenV : s.vec.length = 32
  hmem : s.mem = mem
  hsyms : s.syms = syms
  hframe : s.frame = frame
  g10 : greg s 10 = rkBase + 4 * i
  g11 : greg s 11 = dstp
  tab : s.vec.drop 15 = tabs
  x0 : lane 32 0 (vreg s (sreg i 0)) = X.1
  x1 : lane 32 0 (vreg s (sreg i 1)) = X.2.1
  x2 : lane 32 0 (vreg s (sreg i 2)) = X.2.2.1
  x3 : lane 32 0 (vreg s (sreg i 3)) = X.2.2.2

def roundI (i : Nat) : List DInstr := roundCode (sreg i 0) (sreg i 1) (sreg i 2) (sreg i 3)

theorem ready_step (mem : List Region) (syms frame : List (String × Nat)) (rkBase dstp i : Nat)
    (X : Nat × Nat × Nat × Nat) (s : State) (bs : List Nat)
    (hb : rkBase + 4 * i + 4 < 2 ^ 64) (hrk : readMem mem (rkBase + 4 * i) 4 = .ok bs) (hbs : unlanes 8 bs < 2 ^ 32)
    (h : Ready mem syms frame rkBase dstp i X s) :
    ∃ s', execList (roundI i) s = .ok s' ∧ Ready mem syms frame rkBase dstp (i + 1) (stepN X (unlanes 8 bs)) s' := by
  have hk := keyLoad_spec s h.lenG h.lenV bs (by rw [h.hmem, h.g10]; exact hrk)
  generalize hs1 : ({ s with gpr := s.gpr.set 10 ((greg s 10 + 4) % 2 ^ 64),
                             vec := s.vec.set 12 (setLaneS 0 (vreg s 12) (unlanes 8 bs)) } : State) = s1 at hk
  have hv1 : s1.vec = s.vec.set 12 (setLaneS 0 (vreg s 12) (unlanes 8 bs)) := by rw [← hs1]
  have hg1 : s1.gpr = s.gpr.set 10 ((greg s 10 + 4) % 2 ^ 64) := by rw [← hs1]
  have hm1 : s1.mem = s.mem := by rw [← hs1]
  have hsy1 : s1.syms = s.syms := by rw [← hs1]
  have hf1 : s1.frame = s.frame := by rw [← hs1]
  have hne : ∀ n, n ≠ 12 → vreg s1 n = vreg s n := fun n hn => by
    unfold vreg; rw [hv1]; exact getD_set_ne _ _ _ _ hn
  have h12 : lane 32 0 (vreg s1 12) = unlanes 8 bs := by
    unfold vreg; rw [hv1, getD_set_eq _ _ _ (by rw [h.lenV]; decide)]
    exact lane0_setLaneS0 _ _ hbs
  have htab1 : s1.vec.drop 15 = tabs := by
    rw [hv1, List.drop_set_of_lt (by decide)]; exact h.tab
  obtain ⟨s', hrun, hp⟩ := subRound_spec (sreg i 0) (sreg i 1) (sreg i 2) (sreg i 3) (sreg_perm i) s1
    (by rw [hv1, List.length_set]; exact h.lenV) htab1
  have hlt := fun j => sreg_lt i j
  refine ⟨s', execList_append_ok hk hrun, ?_⟩
  constructor
  · rw [hp.gpr, hg1, List.length_set]; exact h.lenG
  · exact hp.lenV
  · rw [hp.mem, hm1, h.hmem]
  · rw [hp.syms, hsy1, h.hsyms]
  · rw [hp.frame, hf1, h.hframe]
  · unfold greg; rw [hp.gpr, hg1, getD_set_eq _ _ _ (by rw [h.lenG]; decide)]
    rw [h.g10, Nat.mod_eq_of_lt (by omega)]; omega
  · unfold greg; rw [hp.gpr, hg1, getD_set_ne _ _ _ _ (by decide)]; exact h.g11
  · rw [hp.tab]; exact htab1
  · rw [sreg_succ, hp.vB, hne _ (by have := hlt 1; omega)]; exact h.x1
  · rw [sreg_succ, hp.vC, hne _ (by have := hlt 2; omega)]; exact h.x2
  · rw [sreg_succ, hp.vD, hne _ (by have := hlt 3; omega)]; exact h.x3
  · rw [sreg_succ3, hp.vA 0 (by decide), hne _ (by have := hlt 0; omega), hne _ (by have := hlt 1; omega),
      hne _ (by have := hlt 2; omega), hne _ (by have := hlt 3; omega), h12, h.x0, h.x1, h.x2, h.x3]
    rfl

/-- rounds 0 .. n-1 -/
def roundsCode : Nat → List DInstr
  | 0 => []
  | n + 1 => roundsCode n ++ roundI n

theorem ready_rounds (mem : List Region) (syms frame : List (String × Nat)) (rkBase dstp : Nat)
    (kb : Nat → List Nat) (hbase : rkBase + 4 * 32 < 2 ^ 64)
    (hrk : ∀ i, i < 32 → readMem mem (rkBase + 4 * i) 4 = .ok (kb i))
    (hkb : ∀ i, i < 32 → unlanes 8 (kb i) < 2 ^ 32)
    (X : Nat × Nat × Nat × Nat) (s : State) (h : Ready mem syms frame rkBase dstp 0 X s) (n : Nat) (hn : n ≤ 32) :
    ∃ s', execList (roundsCode n) s = .ok s' ∧
      Ready mem syms frame rkBase dstp n (iterN (fun i => unlanes 8 (kb i)) X n) s' := by
  induction n with
  | zero => exact ⟨s, rfl, h⟩
  | succ n ih =>
    obtain ⟨s1, hrun1, hr1⟩ := ih (by omega)
    obtain ⟨s2, hrun2, hr2⟩ := ready_step mem syms frame rkBase dstp n _ s1 (kb n) (by omega) (hrk n (by omega))
      (hkb n (by omega)) hr1
    exact ⟨s2, execList_append_ok hrun1 hrun2, hr2⟩

/-! ### prologue -/

def nn : List Arr := [.none, .none]
def r2 : List Arr := [.B16, .B16]

def proCode : List DInstr :=
  [ins .MOVD [.symAddr "SBox" 0, G 0] nn,
   ins .VLD1P [M 0 64, L4 16 17 18 19] [.none, .B16],
   ins .VLD1P [M 0 64, L4 20 21 22 23] [.none, .B16],
   ins .VLD1P [M 0 64, L4 24 25 26 27] [.none, .B16],
   ins .VLD1P [M 0 64, L4 28 29 30 31] [.none, .B16],
   ins .MOVD [.frame "rk" 0, G 10] nn,
   ins .MOVD [.frame "dst" 8, G 11] nn,
   ins .MOVD [.frame "src" 16, G 12] nn,
   ins .VMOVI [.imm 64, R 15] [.none, .B16],
   ins .VLD1P [M 12 4, R 0] [.none, .S 0],
   ins .VLD1P [M 12 4, R 1] [.none, .S 0],
   ins .VLD1P [M 12 4, R 2] [.none, .S 0],
   ins .VLD1P [M 12 4, R 3] [.none, .S 0],
   ins .VREV32 [R 0, R 0] r2,
   ins .VREV32 [R 1, R 1] r2,
   ins .VREV32 [R 2, R 2] r2,
   ins .VREV32 [R 3, R 3] r2]

/-- the quarter `q` of `SBox<>`: what one `VLD1.P 64(R0), [four registers]` reads -/
def sbQuarter (q : Nat) : List Nat := (Gen.AsmData.arm64_SBox.drop (64 * q)).take 64

theorem tabs_loaded :
    [vmovi8 (Int.toNat 64),
     unlanes 8 ((sbQuarter 0).take 16), unlanes 8 (((sbQuarter 0).drop 16).take 16),
     unlanes 8 (((sbQuarter 0).drop 32).take 16), unlanes 8 (((sbQuarter 0).drop 48).take 16),
     unlanes 8 ((sbQuarter 1).take 16), unlanes 8 (((sbQuarter 1).drop 16).take 16),
     unlanes 8 (((sbQuarter 1).drop 32).take 16), unlanes 8 (((sbQuarter 1).drop 48).take 16),
     unlanes 8 ((sbQuarter 2).take 16), unlanes 8 (((sbQuarter 2).drop 16).take 16),
     unlanes 8 (((sbQuarter 2).drop 32).take 16), unlanes 8 (((sbQuarter 2).drop 48).take 16),
     unlanes 8 ((sbQuarter 3).take 16), unlanes 8 (((sbQuarter 3).drop 16).take 16),
     unlanes 8 (((sbQuarter 3).drop 32).take 16), unlanes 8 (((sbQuarter 3).drop 48).take 16)] = tabs := by
  decide +kernel

/-- REV32 on word element 0 -/
theorem lane0_vrev32 (v : Nat) :
    lane 32 0 (vrev32 v) = unlanes 8 [lane 8 3 v, lane 8 2 v, lane 8 1 v, lane 8 0 v] := by
  unfold vrev32
  rw [lane_map1 32 4 0 v _ (by decide)]
  · simp only [lanes84, List.reverse_cons, List.reverse_nil, List.nil_append, List.cons_append,
      lane8_lane32 _ v (by decide : 0 < 4), lane8_lane32 _ v (by decide : 1 < 4), lane8_lane32 _ v (by decide : 2 < 4),
      lane8_lane32 _ v (by decide : 3 < 4)]
  · intro x _
    have h0 := lane_lt 8 0 x; have h1 := lane_lt 8 1 x; have h2 := lane_lt 8 2 x; have h3 := lane_lt 8 3 x
    simp only [lanes84, List.reverse_cons, List.reverse_nil, List.nil_append, List.cons_append, unlanes_cons, unlanes_nil]
    omega

/-- a little-endian word loaded into element 0, then REV32: the big-endian word -/
theorem lane0_rev_load (old a b c d : Nat) (ha : a < 256) (hb : b < 256) (hc : c < 256) (hd : d < 256) :
    lane 32 0 (vrev32 (setLaneS 0 old (unlanes 8 [a, b, c, d]))) = beWord a b c d := by
  have hlt : unlanes 8 [a, b, c, d] < 2 ^ 32 := by simp only [unlanes_cons, unlanes_nil]; omega
  have h0 : lane 32 0 (setLaneS 0 old (unlanes 8 [a, b, c, d])) = unlanes 8 [a, b, c, d] := lane0_setLaneS0 _ _ hlt
  have hb4 : ∀ x ∈ [a, b, c, d], x < 2 ^ 8 := by
    intro x hx; simp at hx; rcases hx with rfl | rfl | rfl | rfl <;> assumption
  have e := fun j (hj : j < 4) => (lane8_lane32 j (setLaneS 0 old (unlanes 8 [a, b, c, d])) hj).symm
  rw [lane0_vrev32, e 0 (by decide), e 1 (by decide), e 2 (by decide), e 3 (by decide), h0,
    SMGo.Proofs.ISAVal.lane_unlanes 8 _ hb4 0 (by simp), SMGo.Proofs.ISAVal.lane_unlanes 8 _ hb4 1 (by simp),
    SMGo.Proofs.ISAVal.lane_unlanes 8 _ hb4 2 (by simp), SMGo.Proofs.ISAVal.lane_unlanes 8 _ hb4 3 (by simp)]
  rfl

attribute [local irreducible] execD

macro "pstep" : tactic => `(tactic|
  (apply exec_step
   · first
     | exact execD_vrev32 (hn := by rfl) (hd0 := by rfl) ..
     | exact execD_movd_frame (hs := by assumption) (hd0 := by rfl) ..
     | exact execD_vmovi (hi := by decide) (hd0 := by rfl) ..
   simp only [List.set_cons_succ, List.set_cons_zero]))

set_option maxRecDepth 10000 in
theorem prologue_spec (s : State) (hG : s.gpr.length = 31) (hV : s.vec.length = 32)
    (aSrc aRk aDst : Nat)
    (s0 s1 s2 s3 s4 s5 s6 s7 s8 s9 s10 s11 s12 s13 s14 s15 : Nat)
    (hb : ∀ x ∈ [s0, s1, s2, s3, s4, s5, s6, s7, s8, s9, s10, s11, s12, s13, s14, s15], x < 2 ^ 8)
    (hS : lookup s.syms "SBox" = some 4294967296)
    (hS0 : readMem s.mem 4294967296 64 = .ok (sbQuarter 0))
    (hS1 : readMem s.mem 4294967360 64 = .ok (sbQuarter 1))
    (hS2 : readMem s.mem 4294967424 64 = .ok (sbQuarter 2))
    (hS3 : readMem s.mem 4294967488 64 = .ok (sbQuarter 3))
    (hSrc : lookup s.frame "src" = some aSrc) (hSrc' : aSrc + 16 < 2 ^ 64)
    (hI0 : readMem s.mem aSrc 4 = .ok [s0, s1, s2, s3])
    (hI1 : readMem s.mem (aSrc + 4) 4 = .ok [s4, s5, s6, s7])
    (hI2 : readMem s.mem (aSrc + 8) 4 = .ok [s8, s9, s10, s11])
    (hI3 : readMem s.mem (aSrc + 12) 4 = .ok [s12, s13, s14, s15])
    (hRk : lookup s.frame "rk" = some aRk) (hDst : lookup s.frame "dst" = some aDst) :
    ∃ s', execList proCode s = .ok s' ∧
      Ready s.mem s.syms s.frame aRk aDst 0
        (beWord s0 s1 s2 s3, beWord s4 s5 s6 s7, beWord s8 s9 s10 s11, beWord s12 s13 s14 s15) s' := by
  obtain ⟨gpr, vec, mem, syms, frame⟩ := s
  simp only at hG hV hS hS0 hS1 hS2 hS3 hSrc hI0 hI1 hI2 hI3 hRk hDst
  obtain ⟨a0, a1, a2, a3, a4, a5, a6, a7, a8, a9, a10, a11, a12, a13, a14, a15, a16, a17, a18, a19, a20, a21, a22, a23, a24, a25, a26, a27, a28, a29, a30, rfl⟩ := list31 gpr hG
  obtain ⟨b0, b1, b2, b3, b4, b5, b6, b7, b8, b9, b10, b11, b12, b13, b14, b15, b16, b17, b18, b19, b20, b21, b22, b23, b24, b25, b26, b27, b28, b29, b30, b31, rfl⟩ := list32 vec hV
  have e1 : (aSrc + 4) % 2 ^ 64 = aSrc + 4 := Nat.mod_eq_of_lt (by omega)
  have e2 : (aSrc + 4 + 4) % 2 ^ 64 = aSrc + 8 := by rw [Nat.mod_eq_of_lt (by omega)]
  have e3 : (aSrc + 8 + 4) % 2 ^ 64 = aSrc + 12 := by rw [Nat.mod_eq_of_lt (by omega)]
  apply Exists.intro
  apply And.intro
  · unfold proCode
    apply exec_step
    · exact execD_movd_sym (hs := hS) (hd0 := by rfl) ..
    simp only [List.set_cons_succ, List.set_cons_zero, Nat.add_zero]
    apply exec_step
    · exact execD_ld1p_four (bs := sbQuarter 0) (hc := by decide) (hb := by rfl)
        (e0 := by rfl) (e1 := by rfl) (e2 := by rfl) (e3 := by rfl) (hload := hS0) ..
    simp only [List.set_cons_succ, List.set_cons_zero, Nat.reduceAdd, Nat.reducePow, Nat.reduceMod]
    apply exec_step
    · exact execD_ld1p_four (bs := sbQuarter 1) (hc := by decide) (hb := by rfl)
        (e0 := by rfl) (e1 := by rfl) (e2 := by rfl) (e3 := by rfl) (hload := hS1) ..
    simp only [List.set_cons_succ, List.set_cons_zero, Nat.reduceAdd, Nat.reducePow, Nat.reduceMod]
    apply exec_step
    · exact execD_ld1p_four (bs := sbQuarter 2) (hc := by decide) (hb := by rfl)
        (e0 := by rfl) (e1 := by rfl) (e2 := by rfl) (e3 := by rfl) (hload := hS2) ..
    simp only [List.set_cons_succ, List.set_cons_zero, Nat.reduceAdd, Nat.reducePow, Nat.reduceMod]
    apply exec_step
    · exact execD_ld1p_four (bs := sbQuarter 3) (hc := by decide) (hb := by rfl)
        (e0 := by rfl) (e1 := by rfl) (e2 := by rfl) (e3 := by rfl) (hload := hS3) ..
    simp only [List.set_cons_succ, List.set_cons_zero, Nat.reduceAdd, Nat.reducePow, Nat.reduceMod]
    pstep; pstep; pstep; pstep
    apply exec_step
    · exact execD_ld1p_lane (bs := [s0, s1, s2, s3]) (hi := by decide) (hb := by rfl) (hdv := by rfl) (hload := hI0) ..
    simp only [List.set_cons_succ, List.set_cons_zero, e1]
    apply exec_step
    · exact execD_ld1p_lane (bs := [s4, s5, s6, s7]) (hi := by decide) (hb := by rfl) (hdv := by rfl) (hload := hI1) ..
    simp only [List.set_cons_succ, List.set_cons_zero, e2]
    apply exec_step
    · exact execD_ld1p_lane (bs := [s8, s9, s10, s11]) (hi := by decide) (hb := by rfl) (hdv := by rfl) (hload := hI2) ..
    simp only [List.set_cons_succ, List.set_cons_zero, e3]
    apply exec_step
    · exact execD_ld1p_lane (bs := [s12, s13, s14, s15]) (hi := by decide) (hb := by rfl) (hdv := by rfl) (hload := hI3) ..
    simp only [List.set_cons_succ, List.set_cons_zero]
    pstep; pstep; pstep; pstep
    exact execList_nil _
  · have h := fun x hx => hb x hx
    simp only [List.mem_cons, List.not_mem_nil, or_false] at h
    constructor
    · rfl
    · rfl
    · rfl
    · rfl
    · rfl
    · simp only [greg, List.getD_cons_succ, List.getD_cons_zero, Nat.mul_zero, Nat.add_zero]
    · simp only [greg, List.getD_cons_succ, List.getD_cons_zero]
    · simp only [List.drop_succ_cons, List.drop_zero]
      exact tabs_loaded
    · simp only [vreg, sreg, Nat.zero_add, Nat.reduceMod, List.getD_cons_succ, List.getD_cons_zero]
      exact lane0_rev_load _ _ _ _ _ (h s0 (by simp)) (h s1 (by simp)) (h s2 (by simp)) (h s3 (by simp))
    · simp only [vreg, sreg, Nat.zero_add, Nat.reduceMod, List.getD_cons_succ, List.getD_cons_zero]
      exact lane0_rev_load _ _ _ _ _ (h s4 (by simp)) (h s5 (by simp)) (h s6 (by simp)) (h s7 (by simp))
    · simp only [vreg, sreg, Nat.zero_add, Nat.reduceMod, List.getD_cons_succ, List.getD_cons_zero]
      exact lane0_rev_load _ _ _ _ _ (h s8 (by simp)) (h s9 (by simp)) (h s10 (by simp)) (h s11 (by simp))
    · simp only [vreg, sreg, Nat.zero_add, Nat.reduceMod, List.getD_cons_succ, List.getD_cons_zero]
      exact lane0_rev_load _ _ _ _ _ (h s12 (by simp)) (h s13 (by simp)) (h s14 (by simp)) (h s15 (by simp))

/-! ### epilogue -/

def epiCode : List DInstr :=
  [ins .VREV32 [R 0, R 0] r2,
   ins .VREV32 [R 1, R 1] r2,
   ins .VREV32 [R 2, R 2] r2,
   ins .VREV32 [R 3, R 3] r2,
   ins .VST1P [R 3, M 11 4] [.S 0, .none],
   ins .VST1P [R 2, M 11 4] [.S 0, .none],
   ins .VST1P [R 1, M 11 4] [.S 0, .none],
   ins .VST1P [R 0, M 11 4] [.S 0, .none]]

/-- the four bytes stored by `VST1.P V.S[0]` after REV32: the word, most significant byte first -/
theorem store_bytes (v : Nat) : lanes 8 4 (lane 32 0 (vrev32 v)) = beBytes (lane 32 0 v) := by
  rw [lane0_vrev32, lanes_unlanes 8 4 _ (by
    intro x hx; simp at hx; rcases hx with rfl | rfl | rfl | rfl <;> exact lane_lt _ _ _) rfl]
  simp only [beBytes, lane8_lane32 _ v (by decide : 0 < 4), lane8_lane32 _ v (by decide : 1 < 4),
    lane8_lane32 _ v (by decide : 2 < 4), lane8_lane32 _ v (by decide : 3 < 4)]

set_option maxRecDepth 10000 in
theorem epilogue_spec (mem : List Region) (syms frame : List (String × Nat)) (rkBase dstp : Nat)
    (X : Nat × Nat × Nat × Nat) (s : State) (m1 m2 m3 m4 : List Region)
    (h : Ready mem syms frame rkBase dstp 32 X s) (hd : dstp + 16 < 2 ^ 64)
    (hw0 : writeMem mem dstp (beBytes X.2.2.2) = .ok m1)
    (hw1 : writeMem m1 (dstp + 4) (beBytes X.2.2.1) = .ok m2)
    (hw2 : writeMem m2 (dstp + 8) (beBytes X.2.1) = .ok m3)
    (hw3 : writeMem m3 (dstp + 12) (beBytes X.1) = .ok m4) :
    ∃ s', execList epiCode s = .ok s' ∧ s'.mem = m4 := by
  obtain ⟨hG, hV, hmem, -, -, -, hg11, -, hx0, hx1, hx2, hx3⟩ := h
  obtain ⟨gpr, vec, mem0, syms0, frame0⟩ := s
  simp only at hG hV hmem
  obtain ⟨a0, a1, a2, a3, a4, a5, a6, a7, a8, a9, a10, a11, a12, a13, a14, a15, a16, a17, a18, a19, a20, a21, a22, a23, a24, a25, a26, a27, a28, a29, a30, rfl⟩ := list31 gpr hG
  obtain ⟨b0, b1, b2, b3, b4, b5, b6, b7, b8, b9, b10, b11, b12, b13, b14, b15, b16, b17, b18, b19, b20, b21, b22, b23, b24, b25, b26, b27, b28, b29, b30, b31, rfl⟩ := list32 vec hV
  simp only [greg, vreg, sreg, Nat.reduceAdd, Nat.reduceMod, List.getD_cons_succ, List.getD_cons_zero] at hg11 hx0 hx1 hx2 hx3
  subst hmem hg11
  rw [← hx3, ← store_bytes] at hw0
  rw [← hx2, ← store_bytes] at hw1
  rw [← hx1, ← store_bytes] at hw2
  rw [← hx0, ← store_bytes] at hw3
  have e1 : (a11 + 4) % 2 ^ 64 = a11 + 4 := Nat.mod_eq_of_lt (by omega)
  have e2 : (a11 + 4 + 4) % 2 ^ 64 = a11 + 8 := by rw [Nat.mod_eq_of_lt (by omega)]
  have e3 : (a11 + 8 + 4) % 2 ^ 64 = a11 + 12 := by rw [Nat.mod_eq_of_lt (by omega)]
  apply Exists.intro
  apply And.intro
  · unfold epiCode
    pstep; pstep; pstep; pstep
    apply exec_step
    · exact execD_st1p_lane (hi := by decide) (hb := by rfl) (hn := by rfl) (hstore := hw0) ..
    simp only [List.set_cons_succ, List.set_cons_zero, e1]
    apply exec_step
    · exact execD_st1p_lane (hi := by decide) (hb := by rfl) (hn := by rfl) (hstore := hw1) ..
    simp only [List.set_cons_succ, List.set_cons_zero, e2]
    apply exec_step
    · exact execD_st1p_lane (hi := by decide) (hb := by rfl) (hn := by rfl) (hstore := hw2) ..
    simp only [List.set_cons_succ, List.set_cons_zero, e3]
    apply exec_step
    · exact execD_st1p_lane (hi := by decide) (hb := by rfl) (hn := by rfl) (hstore := hw3) ..
    exact execList_nil _
  · rfl

end SMGo.Proofs.ISAValArm64
