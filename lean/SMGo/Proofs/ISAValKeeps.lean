/-
  Frame conditions for straight-line blocks, for free: `Keeps G V K s s'` (the general registers in `G`, the vector
  registers in `V`, the opmask registers in `K`, memory, symbols and the argument frame are the same in `s'` as in
  `s`) follows from the footprints (`touchesOf`, proved sound in ISAValTouchSound) of the instructions of the block,
  by evaluation of `writesNone` on the block.
-/
import SMGo.Proofs.ISAValTouchStore
import SMGo.Proofs.ISAValGhashAbs
namespace SMGo.Proofs.ISAVal
open SMGo.Model.ISAVal SMGo.Proofs.ISATouch
open SMGo.Model.ISA (Reg Opd Instr)

/-- what a block leaves alone -/
structure Keeps (G V K : List Nat) (s s' : State) : Prop where
  lenG : s'.gpr.length = s.gpr.length
  lenV : s'.vec.length = s.vec.length
  lenK : s'.kreg.length = s.kreg.length
  g : ∀ n, n ∈ G → greg s' n = greg s n
  v : ∀ n, n ∈ V → vreg s' n = vreg s n
  k : ∀ n, n ∈ K → kregD s' n = kregD s n
  mem : s'.mem = s.mem
  syms : s'.syms = s.syms
  frame : s'.frame = s.frame

theorem Keeps.rfl' (G V K : List Nat) (s : State) : Keeps G V K s s :=
  ⟨rfl, rfl, rfl, fun _ _ => rfl, fun _ _ => rfl, fun _ _ => rfl, rfl, rfl, rfl⟩

theorem Keeps.trans {G V K : List Nat} {a b c : State} (h1 : Keeps G V K a b) (h2 : Keeps G V K b c) : Keeps G V K a c :=
  ⟨h2.lenG.trans h1.lenG, h2.lenV.trans h1.lenV, h2.lenK.trans h1.lenK,
   fun n hn => (h2.g n hn).trans (h1.g n hn), fun n hn => (h2.v n hn).trans (h1.v n hn),
   fun n hn => (h2.k n hn).trans (h1.k n hn), h2.mem.trans h1.mem, h2.syms.trans h1.syms, h2.frame.trans h1.frame⟩

theorem Keeps.mono {G V K G' V' K' : List Nat} {s s' : State} (h : Keeps G V K s s')
    (hG : ∀ n, n ∈ G' → n ∈ G) (hV : ∀ n, n ∈ V' → n ∈ V) (hK : ∀ n, n ∈ K' → n ∈ K) : Keeps G' V' K' s s' :=
  ⟨h.lenG, h.lenV, h.lenK, fun n hn => h.g n (hG n hn), fun n hn => h.v n (hV n hn), fun n hn => h.k n (hK n hn),
   h.mem, h.syms, h.frame⟩

/-- no instruction of the block writes a register of `G`, `V`, `K`, memory or a frame slot -/
def leaves (G V K : List Nat) (d : DInstr) : Bool :=
  match touchesOf d with
  | some t =>
    t.writes.all (fun r => match r with
      | .gpr n => !G.contains n
      | .vec n => !V.contains n
      | .k n => !K.contains n) && !t.store && t.fstore.isEmpty
  | none => false

def writesNone (code : List DInstr) (G V K : List Nat) : Bool := code.all (leaves G V K)

theorem rv_greg {s s' : State} {n : Nat} (h : rv s' (.gpr n) = rv s (.gpr n)) : greg s' n = greg s n := by
  unfold greg; unfold rv at h
  simp only [List.getD_eq_getElem?_getD]
  rw [show s'.gpr[n]? = s.gpr[n]? from h]
theorem rv_vreg {s s' : State} {n : Nat} (h : rv s' (.vec n) = rv s (.vec n)) : vreg s' n = vreg s n := by
  unfold vreg; unfold rv at h
  simp only [List.getD_eq_getElem?_getD]
  rw [show s'.vec[n]? = s.vec[n]? from h]
theorem rv_kreg {s s' : State} {n : Nat} (h : rv s' (.k n) = rv s (.k n)) : kregD s' n = kregD s n := by
  unfold kregD; unfold rv at h
  simp only [List.getD_eq_getElem?_getD]
  rw [show s'.kreg[n]? = s.kreg[n]? from h]

theorem keeps_step {G V K : List Nat} {d : DInstr} {s s' : State} (hl : leaves G V K d = true) (h : execD s d = .ok s') :
    Keeps G V K s s' := by
  unfold leaves at hl
  cases ht : touchesOf d with
  | none => rw [ht] at hl; cases hl
  | some t =>
    rw [ht] at hl
    simp only [Bool.and_eq_true, Bool.not_eq_true', List.isEmpty_iff, List.all_eq_true] at hl
    obtain ⟨⟨hw, hst⟩, hfs⟩ := hl
    have f := touches_frame ht h
    refine ⟨f.lenG, f.lenV, f.lenK, ?_, ?_, ?_, f.mem hst, f.syms, f.frame hfs⟩
    · intro n hn
      apply rv_greg
      apply f.regs
      intro hr
      have := hw _ hr
      simp only [Bool.not_eq_true'] at this
      rw [List.contains_iff_mem.mpr hn] at this; cases this
    · intro n hn
      apply rv_vreg
      apply f.regs
      intro hr
      have := hw _ hr
      simp only [Bool.not_eq_true'] at this
      rw [List.contains_iff_mem.mpr hn] at this; cases this
    · intro n hn
      apply rv_kreg
      apply f.regs
      intro hr
      have := hw _ hr
      simp only [Bool.not_eq_true'] at this
      rw [List.contains_iff_mem.mpr hn] at this; cases this

/-- **frame condition of a straight-line block, by evaluation of `writesNone`** -/
theorem keeps_of_exec {G V K : List Nat} (code : List DInstr) {s s' : State} (hw : writesNone code G V K = true)
    (h : execList code s = .ok s') : Keeps G V K s s' := by
  induction code generalizing s with
  | nil => cases h; exact Keeps.rfl' _ _ _ _
  | cons d rest ih =>
    unfold writesNone at hw
    rw [List.all_cons, Bool.and_eq_true] at hw
    unfold execList at h
    cases hx : execD s d with
    | error e => rw [hx] at h; cases h
    | ok s1 =>
      rw [hx] at h
      exact (keeps_step hw.1 hx).trans (ih hw.2 h)

end SMGo.Proofs.ISAVal
