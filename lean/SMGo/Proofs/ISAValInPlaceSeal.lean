import SMGo.Proofs.ISAValSealAny
import SMGo.Model.ISAValGcmInPlace
set_option linter.unusedSimpArgs false
namespace SMGo.Proofs.ISAVal
open SMGo SMGo.Model.ISAVal SMGo.Model.GCM SMGo.Proofs.GCM SMGo.Spec.GCM SMGo.Proofs.ISATouch
open SMGo.Model.ISA (Reg Opd Instr)

/-! ### the ladder memory when the input lies in the destination buffer -/

theorem spliceAt_drop_beyond (dc : List Nat) (o : Nat) (bs : List Nat) (off : Nat) (h : o + bs.length ≤ off) (hl : o ≤ dc.length) :
    (spliceAt dc o bs).drop off = dc.drop off := by
  unfold spliceAt
  have h1 : (dc.take o ++ bs).length = o + bs.length := by rw [List.length_append, List.length_take, Nat.min_eq_left hl]
  rw [List.drop_append, h1, List.drop_eq_nil_of_le (by rw [h1]; exact h), List.nil_append, List.drop_drop]
  congr 1; omega

theorem drop_take_left' (a b : List Nat) (off n : Nat) (h : off + n ≤ a.length) : ((a ++ b).drop off).take n = (a.drop off).take n := by
  rw [List.drop_append_of_le_length (by omega), List.take_append_of_le_length (by rw [List.length_drop]; omega)]

/-- **the two-buffer family with the input INSIDE the destination buffer** (`sp` = the destination pointer): what lies beyond the
    bytes just written is still the input -/
theorem ladMem_inplace (nm : String) (w : Bool) (rk nonce inp aad src : List Nat) (dlen : Nat) (hrk : rk.length = 32) (hdl : dlen < 2 ^ 32)
    (hil : inp.length < 2 ^ 32) (hsl : src.length ≤ dlen) :
    LadMem (fun d t => fmem nm w rk d nonce inp aad t) 77309411328 dlen 94489280512 rk src 77309411328 := by
  have lm0 := ladMem_fmem nm w rk nonce inp aad dlen hrk hdl hil
  refine ⟨lm0.m2, lm0.rk, ?_⟩
  intro dc tc o n bs hdc htc hbs hle hsrc off m h1 h2
  have hsl' : (spliceAt dc o bs).length = dc.length := spliceAt_length _ _ _ (by omega)
  show readMem (fmem nm w rk (spliceAt dc o bs) nonce inp aad tc) _ _ = _
  rw [fmem_read_dst nm w rk _ nonce inp aad tc off m (by rw [hsl']; omega) (by omega),
    spliceAt_drop_beyond dc o bs off (by omega) (by omega),
    ← fmem_read_dst nm w rk dc nonce inp aad tc off m (by omega) (by omega)]
  exact hsrc off m (by omega) h2

/-- at entry the destination buffer starts with the input -/
theorem srcFrom_inplace (nm : String) (w : Bool) (rk nonce inp aad src rest tc : List Nat) (hdl : (src ++ rest).length < 2 ^ 32) :
    SrcFrom (fmem nm w rk (src ++ rest) nonce inp aad tc) 77309411328 src 0 := by
  intro off n _ hn
  rw [fmem_read_dst nm w rk _ nonce inp aad tc off n (by rw [List.length_append]; omega) (by rw [List.length_append] at hdl; omega),
    drop_take_left' src rest off n hn]

/-! ### `sealAsm` in place -/

theorem sealIP_mem (g v k rk : List Nat) (t : Nat) (pt tl nonce ur aad tmp : List Nat) :
    (sealStateInPlace g v k rk t pt tl nonce ur aad tmp).mem = fmem "plaintext" false rk (pt ++ tl) nonce ur aad tmp := rfl
theorem sealIP_syms (g v k rk : List Nat) (t : Nat) (pt tl nonce ur aad tmp : List Nat) :
    (sealStateInPlace g v k rk t pt tl nonce ur aad tmp).syms = symTab := rfl

theorem sealIP_frame (g v k rk : List Nat) (t : Nat) (pt tl nonce ur aad tmp : List Nat) :
    SealFrame (sealStateInPlace g v k rk t pt tl nonce ur aad tmp).frame t 77309411328 pt.length aad.length :=
  ⟨by simp [sealStateInPlace, mkState, lookup]; rfl, by simp [sealStateInPlace, mkState, lookup]; rfl,
   by simp [sealStateInPlace, mkState, lookup], by simp [sealStateInPlace, mkState, lookup], by simp [sealStateInPlace, mkState, lookup],
   by simp [sealStateInPlace, mkState, lookup]; rfl⟩

/-- `sealAsm`, instructions 0 … 1498, on the in-place entry state -/
theorem sealIP_prefix (g v k rk : List Nat) (t : Nat) (pt tl nonce ur aad tmp : List Nat)
    (hG : g.length = 16) (hV : v.length = 32) (hK : k.length = 8) (hrk : rk.length = 32) (hrkb : ∀ x ∈ rk, x < 2 ^ 32)
    (hnl : nonce.length < 2 ^ 32) (hnb : ∀ x ∈ nonce, x < 2 ^ 8) (hab : ∀ x ∈ aad, x < 2 ^ 8) (hall : aad.length < 2 ^ 32)
    (htmp : tmp.length = 32) :
    ∃ s5 N, N ≤ 34 * (nonce.length / 16) + 34 * (aad.length / 16) + 1700 ∧
      Reach sealR 0 (sealStateInPlace g v k rk t pt tl nonce ur aad tmp) 1499 s5 N ∧
      AfterPre (fun b => fmem "plaintext" false rk (pt ++ tl) nonce ur aad b) rk nonce aad (j0N rk nonce)
        81604378624 94489280512 90194313216 s5 ∧ s5.frame = (sealStateInPlace g v k rk t pt tl nonce ur aad tmp).frame := by
  have e := fenv_of (sealStateInPlace g v k rk t pt tl nonce ur aad tmp) "plaintext" false rk (pt ++ tl) nonce ur aad tmp (sealIP_mem ..)
    (sealIP_syms ..)
    (by simp [sealStateInPlace, mkState, lookup]; rfl) (by simp [sealStateInPlace, mkState, lookup]; rfl)
    (by simp [sealStateInPlace, mkState, lookup]) (by simp [sealStateInPlace, mkState, lookup]; rfl)
    (by simp [sealStateInPlace, mkState, lookup]; rfl) (by simp [sealStateInPlace, mkState, lookup])
    hrk hnl hall
  exact prefix_any sealR seal_prefix_slices ⟨seal_lJ, seal_sPreLabels, seal_copyLabels⟩ seal_j0Labels _ hG hV hK rk nonce aad _ _ _ e _
    (memFam_fmem "plaintext" false rk (pt ++ tl) nonce ur aad hrk hnl hall) tmp htmp (sealIP_mem ..) hrk hrkb hnb (by omega) (by omega) hab
    (by omega) (by decide)

/-- **`sealAsm` called IN PLACE = SP 800-38D Algorithm 4 over SM4**: the array that held plaintext ‖ (spare capacity of `tagSize`
    bytes) holds ciphertext ‖ tag afterwards; every nonce length -/
theorem sealAsm_inplace_run (g v k rk : List Nat) (t : Nat) (pt tl nonce ur aad tmp : List Nat)
    (hG : g.length = 16) (hV : v.length = 32) (hK : k.length = 8) (hrk : rk.length = 32) (hrkb : ∀ x ∈ rk, x < 2 ^ 32)
    (hnl : nonce.length < 2 ^ 32) (hnb : ∀ x ∈ nonce, x < 2 ^ 8) (hab : ∀ x ∈ aad, x < 2 ^ 8) (hall : aad.length < 2 ^ 32)
    (hpb : ∀ x ∈ pt, x < 2 ^ 8) (ht : t ≤ 16) (htl : tl.length = t) (hdl32 : pt.length + t < 2 ^ 32)
    (htmp : tmp.length = 32) (hur : ur.length < 2 ^ 32) (fuel : Nat)
    (hfuel : 34 * (nonce.length / 16) + 34 * (aad.length / 16) + 700 * (pt.length / 256) + 6500 < fuel) :
    runSeal fuel (sealStateInPlace g v k rk t pt tl nonce ur aad tmp)
      = .ok ((sealGCM (encE rk) t (toB nonce) (toB pt) (toB aad)).map (·.toNat)) := by
  have hdl : (pt ++ tl).length = pt.length + t := by rw [List.length_append, htl]
  obtain ⟨s5, N5, hN5, r5, ap, hf5⟩ := sealIP_prefix g v k rk t pt tl nonce ur aad tmp hG hV hK hrk hrkb hnl hnb hab hall htmp
  obtain ⟨s', N, hN, r6, hd⟩ := seal_after_prefix_gen rk t (pt ++ tl) nonce ur pt aad 77309411328 hrk hrkb hall hpb (by omega) ht
    (by omega) (by omega) _ (j0N_length rk nonce) (j0N_bytes rk nonce hnb) s5 ap (by rw [hf5]; exact sealIP_frame ..)
    (ladMem_inplace "plaintext" false rk nonce ur aad pt (pt ++ tl).length hrk (by omega) hur (by omega))
    (fun b _ => srcFrom_inplace "plaintext" false rk nonce ur aad pt tl b (by omega)) (by omega)
    (pt.length / 16 + 1) (fuelNeed_le16 _)
  have hrun := run_of_reach (r5.trans r6) seal_slices'.ret fuel (by omega)
  unfold runSeal run
  rw [sealR_ok]
  simp only [bind, Except.bind]
  rw [hrun]
  simp only [hd]
  have hl : (sealOutJ rk (j0N rk nonce) pt aad t (pt.length / 16 + 1)).length = pt.length + t := by
    unfold sealOutJ
    simp only []
    rw [List.length_append, ladN_length _ _ _ _ _ _ _ _ (fuelNeed_le16 _), List.length_take, lanes_length]
    omega
  have hb : ∀ x ∈ sealOutJ rk (j0N rk nonce) pt aad t (pt.length / 16 + 1), x < 2 ^ 8 := by
    intro x hx
    unfold sealOutJ at hx
    simp only [List.mem_append] at hx
    rcases hx with h' | h'
    · exact ladN_bytes _ _ _ _ _ _ _ _ hpb x h'
    · exact mem_lanes_lt 8 16 _ x (List.mem_of_mem_take h')
  have hsp : spliceAt (pt ++ tl) 0 (sealOutJ rk (j0N rk nonce) pt aad t (pt.length / 16 + 1))
      = sealOutJ rk (j0N rk nonce) pt aad t (pt.length / 16 + 1) := by
    unfold spliceAt
    rw [List.take_zero, List.nil_append, Nat.zero_add, List.drop_eq_nil_of_le (by rw [hl, hdl]; exact Nat.le_refl _), List.append_nil]
  rw [hsp, ← toNat_toB _ hb, sealOutJ_eq rk _ nonce pt aad t _ (j0N_length rk nonce) (j0N_bytes rk nonce hnb) (j0N_model rk nonce hnb) hpb hab
    (fuelNeed_le16 _), seal_eq_spec (encE_length rk)]
  rfl

end SMGo.Proofs.ISAVal
#print axioms SMGo.Proofs.ISAVal.sealAsm_inplace_run
