/-
  Setting of property C14: an abstract commutative group `A`, an interpretation `sem : Γ → A` of the
  points of the model (on a domain `ok` of well-formed points), and what it means for the
  precomputed tables of a `w`-`s`-`it`-`r` comb to be valid for a generator `g : A`.

  The hypotheses (`Sem`, `TableValid`, `RemainderValid`) are discharged for the concrete point model
  elsewhere; here they are the only facts used about the point operations.  `ok` is the domain on
  which the point operations behave (e.g. "coordinates well-formed and on the curve"), `okXY` the
  well-formedness of a raw table entry.  Taking both to be `fun _ => True` gives the plain
  homomorphism reading.
-/
import Mathlib.Algebra.Group.Basic
import SMGo.Model.Curve
import SMGo.Proofs.CurveBits
namespace SMGo.Proofs.CurveSem
open SMGo SMGo.Model.Curve SMGo.Proofs.CurveBits

variable {Γ : Type} {A : Type} [AddCommGroup A]

/-- the point operations compute in the group `A` through `sem`, on the domain `ok` -/
structure Sem (G : GOps Γ) (ok : Γ → Prop) (okXY : List Nat → List Nat → Prop) (sem : Γ → A) : Prop where
  inf_ok : ok G.infinity
  inf : sem G.infinity = 0
  add : ∀ x y, ok x → ok y → ok (G.add x y) ∧ sem (G.add x y) = sem x + sem y
  double : ∀ x, ok x → ok (G.double x) ∧ sem (G.double x) = sem x + sem x
  neg : ∀ x, ok x → ok (G.negate x) ∧ sem (G.negate x) = - sem x
  fromXY_ok : ∀ x y, okXY x y → ok (G.fromXY x y)
  /-- `MultiSelectXY` on a fresh point: entry `bits - 1` of an x/y table of `w` well-formed entries,
      the point at infinity for `bits = 0` -/
  selectXY : ∀ (t : Table) (w bits : Nat),
      (t.getD 0 []).length = w → (t.getD 1 []).length = w →
      (∀ i, i < w → okXY ((t.getD 0 []).getD i []) ((t.getD 1 []).getD i [])) →
      bits ≤ w → w ≤ 255 →
      ∃ q, G.selectXY t w bits = .ok q ∧ ok q ∧
        sem q = if bits = 0 then 0
                else sem (G.fromXY ((t.getD 0 []).getD (bits - 1) []) ((t.getD 1 []).getD (bits - 1) []))
  /-- `MultiSelectXYZ` on a fresh point over `TransformPrecomputed` of 15 points -/
  selectXYZ : ∀ (pts : List Γ) (bits : Nat), pts.length = 15 → (∀ i, i < 15 → ok (pts.getD i G.infinity)) →
      bits ≤ 15 →
      ∃ q, G.selectXYZ (G.transform pts) 15 bits = .ok q ∧ ok q ∧
        sem q = if bits = 0 then 0 else sem (pts.getD (bits - 1) G.infinity)

/-- x- and y-lists of sub-table `j` -/
def subX (first : List Table) (j : Nat) : List (List Nat) := (first.getD j []).getD 0 []
def subY (first : List Table) (j : Nat) : List (List Nat) := (first.getD j []).getD 1 []

/-- validity of the first table of a `w`-`s`-`it`-`r` comb for the generator `g`:
    entry `idx - 1` of sub-table `j` is `[combMultiplier w s it r j idx] g` -/
structure TableValid (G : GOps Γ) (okXY : List Nat → List Nat → Prop) (sem : Γ → A) (g : A)
    (first : List Table) (w s it r : Nat) : Prop where
  lenX : ∀ j, j < s → (subX first j).length = 2 ^ w - 1
  lenY : ∀ j, j < s → (subY first j).length = 2 ^ w - 1
  wf : ∀ j, j < s → ∀ i, i < 2 ^ w - 1 → okXY ((subX first j).getD i []) ((subY first j).getD i [])
  val : ∀ j, j < s → ∀ idx, 1 ≤ idx → idx < 2 ^ w →
      sem (G.fromXY ((subX first j).getD (idx - 1) []) ((subY first j).getD (idx - 1) []))
        = combMultiplier w s it r j idx • g

/-- validity of the remainder table: entry `idx - 1` is `[idx] g`, for `1 ≤ idx < 2^r` -/
structure RemainderValid (G : GOps Γ) (okXY : List Nat → List Nat → Prop) (sem : Γ → A) (g : A)
    (second : Table) (r : Nat) : Prop where
  lenX : (second.getD 0 []).length = 2 ^ r - 1
  lenY : (second.getD 1 []).length = 2 ^ r - 1
  wf : ∀ i, i < 2 ^ r - 1 → okXY ((second.getD 0 []).getD i []) ((second.getD 1 []).getD i [])
  val : ∀ idx, 1 ≤ idx → idx < 2 ^ r →
      sem (G.fromXY ((second.getD 0 []).getD (idx - 1) []) ((second.getD 1 []).getD (idx - 1) []))
        = idx • g

/-! ### loop invariants -/

/-- a loop over `0..n-1` in `Outcome` that preserves an invariant does not fail -/
theorem foldlM_range_inv {σ : Type} (f : σ → Nat → Outcome σ) (P : Nat → σ → Prop) (n : Nat) (init : σ)
    (h0 : P 0 init)
    (hstep : ∀ m s, m < n → P m s → ∃ s', f s m = .ok s' ∧ P (m + 1) s') :
    ∃ s', (List.range n).foldlM f init = .ok s' ∧ P n s' := by
  induction n with
  | zero => exact ⟨init, rfl, h0⟩
  | succ n ih =>
    obtain ⟨s1, e1, p1⟩ := ih (fun m s hm hp => hstep m s (Nat.lt_succ_of_lt hm) hp)
    obtain ⟨s2, e2, p2⟩ := hstep n s1 (Nat.lt_succ_self n) p1
    refine ⟨s2, ?_, p2⟩
    rw [List.range_succ, List.foldlM_append, e1]
    simp only [Outcome.bind_ok, List.foldlM_cons, List.foldlM_nil, e2, Outcome.pure_eq]

/-- the same for a loop over a list; the invariant sees the prefix consumed so far -/
theorem foldlM_list_inv {σ β : Type} (f : σ → β → Outcome σ) (P : List β → σ → Prop) (l : List β) (init : σ)
    (h0 : P [] init)
    (hstep : ∀ pre b s, P pre s → ∃ s', f s b = .ok s' ∧ P (pre ++ [b]) s') :
    ∃ s', l.foldlM f init = .ok s' ∧ P l s' := by
  suffices h : ∀ (l pre : List β) (init : σ), P pre init → ∃ s', l.foldlM f init = .ok s' ∧ P (pre ++ l) s' by
    simpa using h l [] init h0
  intro l
  induction l with
  | nil => intro pre init hp; exact ⟨init, rfl, by simpa using hp⟩
  | cons b l ih =>
    intro pre init hp
    obtain ⟨s1, e1, p1⟩ := hstep pre b init hp
    obtain ⟨s2, e2, p2⟩ := ih (pre ++ [b]) s1 p1
    refine ⟨s2, ?_, by simpa using p2⟩
    rw [List.foldlM_cons, e1]
    simpa using e2

/-- state of the accumulating loops: the accumulator denotes `v`; while the `skip` flag is still
    set nothing has been accumulated -/
def Inv (ok : Γ → Prop) (sem : Γ → A) (st : Γ × Bool) (v : A) : Prop :=
  ok st.1 ∧ sem st.1 = v ∧ (st.2 = true → v = 0)

variable {G : GOps Γ} {ok : Γ → Prop} {okXY : List Nat → List Nat → Prop} {sem : Γ → A}

theorem inv_init (S : Sem G ok okXY sem) : Inv ok sem (G.infinity, true) (0 : A) :=
  ⟨S.inf_ok, S.inf, fun _ => rfl⟩

/-- `if !skip { ret.Double(ret) }` -/
theorem inv_double (S : Sem G ok okXY sem) (st : Γ × Bool) (v : A) (h : Inv ok sem st v) :
    Inv ok sem (if !st.2 then (G.double st.1, st.2) else st) (v + v) := by
  obtain ⟨ret, skip⟩ := st
  obtain ⟨h1, h2, h3⟩ := h
  cases skip with
  | true =>
    have hv : v = 0 := h3 rfl
    simp only [Bool.not_true, Bool.false_eq_true, if_false]
    exact ⟨h1, by rw [h2, hv, add_zero], fun _ => by rw [hv, add_zero]⟩
  | false =>
    simp only [Bool.not_false, if_true]
    obtain ⟨d1, d2⟩ := S.double ret h1
    exact ⟨d1, by rw [d2, h2], fun h => by cases h⟩

/-- `if !skip { ret.Add(ret, tmp) } else { ret.Set(tmp); skip = false }` -/
theorem inv_add_or_set (S : Sem G ok okXY sem) (st : Γ × Bool) (v : A) (h : Inv ok sem st v)
    (tmp : Γ) (ht : ok tmp) :
    Inv ok sem (if !st.2 then (G.add st.1 tmp, false) else (tmp, false)) (v + sem tmp) := by
  obtain ⟨ret, skip⟩ := st
  obtain ⟨h1, h2, h3⟩ := h
  cases skip with
  | true =>
    have hv : v = 0 := h3 rfl
    simp only [Bool.not_true, Bool.false_eq_true, if_false]
    exact ⟨ht, by rw [hv, zero_add], fun h => by cases h⟩
  | false =>
    simp only [Bool.not_false, if_true]
    obtain ⟨d1, d2⟩ := S.add ret tmp h1 ht
    exact ⟨d1, by rw [d2, h2], fun h => by cases h⟩

/-- `ret.Add(ret, tmp); skip = false` (whatever the flag was) -/
theorem inv_add (S : Sem G ok okXY sem) (st : Γ × Bool) (v : A) (h : Inv ok sem st v)
    (tmp : Γ) (ht : ok tmp) :
    Inv ok sem (G.add st.1 tmp, false) (v + sem tmp) := by
  obtain ⟨h1, h2, _⟩ := h
  obtain ⟨d1, d2⟩ := S.add st.1 tmp h1 ht
  exact ⟨d1, by rw [d2, h2], fun h => by cases h⟩

theorem Inv.congr {st : Γ × Bool} {v v' : A} (h : Inv ok sem st v) (e : v = v') : Inv ok sem st v' := e ▸ h

end SMGo.Proofs.CurveSem
