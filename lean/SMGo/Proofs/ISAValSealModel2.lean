import SMGo.Proofs.ISAValSealModel
set_option linter.unusedSimpArgs false
namespace SMGo.Proofs.ISAVal
open SMGo SMGo.Model.ISAVal SMGo.Model.GCM SMGo.Proofs.GCM SMGo.Spec.GCM SMGo.Proofs.ISATouch
open SMGo.Model.ISA (Reg Opd Instr)

theorem toB_be64N (n : Nat) : toB (be64N n) = be64 n := by
  unfold be64N be64 Bytes.ofNatBE toB lane
  simp [List.range, List.range.loop, Nat.shiftRight_eq_div_pow]

theorem be64N_bytes (n : Nat) : ∀ x ∈ be64N n, x < 2 ^ 8 := by
  intro x hx
  simp only [be64N, List.mem_cons, List.not_mem_nil, or_false] at hx
  rcases hx with rfl | rfl | rfl | rfl | rfl | rfl | rfl | rfl <;> exact lane_lt 8 _ _

/-- `CalculateSPost` of the listing is `finishTag` of the model -/
theorem tagN_eq (rk jb : List Nat) (hB : Bytes) (y a c t : Nat) (hy : y < 2 ^ 128) (hh : loadR hB < 2 ^ 128) :
    toB ((lanes 8 16 (tagN (loadR hB) y (unlanes 8 (encB rk jb)) a c)).take t)
      = finishTag (hPowers hB) y (encE rk (toB jb)) a c t := by
  unfold tagN finishTag
  simp only []
  have hlb : (be64N (8 * a) ++ be64N (8 * c)).length = 16 := by simp [be64N]
  have hbb : ∀ x ∈ be64N (8 * a) ++ be64N (8 * c), x < 2 ^ 8 := by
    intro x hx; rw [List.mem_append] at hx
    rcases hx with h | h
    · exact be64N_bytes _ x h
    · exact be64N_bytes _ x h
  rw [rb128_loadR _ hlb hbb, toB_append, toB_be64N, toB_be64N]
  have hy' : gmulR (loadR hB) (y ^^^ loadR (be64 (8 * a) ++ be64 (8 * c))) < 2 ^ 128 :=
    gmulR_lt hh (Nat.xor_lt_two_pow hy (loadR_lt (by rw [List.length_append, be64_length, be64_length])))
  rw [toB_take, lanes8_xor, store_eq _ hy', lanes_unlanes 8 16 _ (encB_bytes _ _) (encB_length _ _),
    toB_xorN _ _ (by
      intro x hx
      rw [List.mem_map] at hx
      obtain ⟨b, _, rfl⟩ := hx
      exact b.toNat_lt) (encB_bytes _ _), toB_toNat, toB_encB]
  rfl

end SMGo.Proofs.ISAVal
