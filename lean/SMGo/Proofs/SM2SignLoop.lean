/-
  Lemmas for property C02: `TestPrivateKey` is exact on every length, one iteration of the signing
  loop of `SignHashed` does to its 32-byte candidate exactly what GM/T 0003.2 §6.1 (`Spec.SM2.signWith`)
  says, and the loop as a whole is `Spec.SM2.signStream` on the candidates of the randomness script.
-/
import SMGo.Proofs.SM2Facts
import SMGo.Proofs.SM2SignBytes
import SMGo.Proofs.SM2SignAlgebra
import SMGo.Proofs.CurveGroup
import SMGo.Proofs.UtilsCmp

namespace SMGo.Proofs.SM2SignLoop
open SMGo SMGo.Model SMGo.Model.SM2 SMGo.Proofs.SM2Facts SMGo.Proofs.SM2SignBytes
open SMGo.Proofs.SM2SignAlgebra

variable {α β : Type} {X : Ctx α β}

/-! ### the constants `nBytes`, `nMinus1Bytes` -/

theorem nBytes_eq (F : CurveFacts X) : nBytes X = Bytes.ofNatMin Spec.SM2.n := by
  unfold nBytes; rw [F.n_eq]

theorem nBytes_length (F : CurveFacts X) : (nBytes X).length = 32 := by
  rw [nBytes_eq F]
  have h1 := ofNatMin_length_le Spec.SM2.n 32 (by decide)
  have h2 := ofNatMin_length_gt Spec.SM2.n 31 (by decide)
  omega

theorem nBytes_value (F : CurveFacts X) : Bytes.toNatBE (nBytes X) = Spec.SM2.n := by
  rw [nBytes_eq F, toNatBE_ofNatMin]

theorem nMinus1Bytes_length (F : CurveFacts X) : (nMinus1Bytes X).length = 32 := by
  unfold nMinus1Bytes; rw [F.n_eq]
  have h1 := ofNatMin_length_le (Spec.SM2.n - 1) 32 (by decide)
  have h2 := ofNatMin_length_gt (Spec.SM2.n - 1) 31 (by decide)
  omega

theorem nMinus1Bytes_value (F : CurveFacts X) : Bytes.toNatBE (nMinus1Bytes X) = Spec.SM2.n - 1 := by
  unfold nMinus1Bytes; rw [F.n_eq, toNatBE_ofNatMin]

/-- `ConstantTimeCmp(a, b, 32)` on two 32-byte strings (C20) -/
theorem cmp32 (a b : Bytes) (ha : a.length = 32) (hb : b.length = 32) :
    Utils.constantTimeCmp (some a) (some b) 32 = .ok (Spec.Utils.lexCmp a b) := by
  have := UtilsCmp.cmp_ok a b 32 (by omega) (by omega)
  rw [List.take_of_length_le (by omega), List.take_of_length_le (by omega)] at this
  exact this

/-! ### `TestPrivateKey` -/

/-- `TestPrivateKey` on every byte string: the length excess for keys longer than 32 bytes, otherwise
    0 exactly for the values in [1, n-2] (shorter keys are read as big-endian numbers) and -1 else -/
theorem testPrivateKey_spec (F : CurveFacts X) (priv : Bytes) :
    testPrivateKey X priv = .ok (if priv.length > 32 then (priv.length : Int) - 32
      else if Spec.SM2.validKey (Bytes.toNatBE priv) then 0 else -1) := by
  unfold testPrivateKey
  simp only []
  by_cases h1 : priv.length > 32
  · rw [if_pos (by omega), if_pos h1]
  · rw [if_neg (by omega), if_neg h1]
    by_cases hz : priv.all (· == 0) = true
    · rw [if_pos hz]
      have h0 := (all_zero_iff priv).mp hz
      have : Spec.SM2.validKey (Bytes.toNatBE priv) = false := by
        rw [h0]; rfl
      rw [this]; rfl
    · rw [if_neg hz]
      have hne : Bytes.toNatBE priv ≠ 0 := fun h => hz ((all_zero_iff priv).mpr h)
      by_cases h2 : priv.length < 32
      · rw [if_pos (by omega)]
        have hlt := toNatBE_lt priv
        have hpow : 256 ^ priv.length ≤ 256 ^ 31 := Nat.pow_le_pow_right (by decide) (by omega)
        have hv : Spec.SM2.validKey (Bytes.toNatBE priv) = true := by
          rw [validKey_iff]
          have := n_ge_pow
          omega
        rw [hv]; rfl
      · rw [if_neg (by omega)]
        have hl : priv.length = 32 := by omega
        rw [cmp32 priv _ hl (nMinus1Bytes_length F)]
        simp only [Outcome.bind_ok, Outcome.pure_eq]
        have hiff := UtilsCmp.lexCmp_lt_iff_toNat priv (nMinus1Bytes X)
          (by rw [hl, nMinus1Bytes_length F])
        rw [nMinus1Bytes_value F] at hiff
        by_cases hc : Spec.Utils.lexCmp priv (nMinus1Bytes X) = -1
        · rw [if_pos hc]
          have hv : Spec.SM2.validKey (Bytes.toNatBE priv) = true := by
            rw [validKey_iff]
            have := hiff.mp hc
            omega
          rw [hv]; rfl
        · rw [if_neg hc]
          have hv : Spec.SM2.validKey (Bytes.toNatBE priv) = false := by
            rw [Bool.eq_false_iff, Ne, validKey_iff]
            intro hv
            apply hc
            apply hiff.mpr
            have : 2 ≤ Spec.SM2.n := by decide
            omega
          rw [hv]; rfl

/-- accepted (result 0) exactly for keys of at most 32 bytes with value in [1, n-2] -/
theorem testPrivateKey_zero_iff (F : CurveFacts X) (priv : Bytes) :
    testPrivateKey X priv = .ok 0 ↔ priv.length ≤ 32 ∧ Spec.SM2.validKey (Bytes.toNatBE priv) = true := by
  rw [testPrivateKey_spec F]
  by_cases h1 : priv.length > 32
  · rw [if_pos h1]
    constructor
    · intro h
      have : (priv.length : Int) - 32 = 0 := by injection h
      omega
    · intro h; omega
  · rw [if_neg h1]
    cases hv : Spec.SM2.validKey (Bytes.toNatBE priv)
    · simp
    · simp; omega

/-! ### one candidate -/

theorem signLoop_succ (priv e : Bytes) (fuel : Nat) (sc : Script) :
    signLoop X priv e (fuel + 1) sc =
      match readFull sc 32 [] with
      | (none, _) => .err
      | (some K, sc') =>
        match Utils.constantTimeCmp (some K) (some (nBytes X)) 32 with
        | .ok c =>
          if c ≥ 0 ∨ K.all (· == 0) then signLoop X priv e fuel sc' else
          match scalarBaseMult X K with
          | .ok kG =>
            let x := Point.getAffineX X.C kG
            let eInt := Bytes.toNatBE e
            let rInt := (x + eInt) % X.n
            if rInt = 0 then signLoop X priv e fuel sc' else
            let k := Bytes.toNatBE K
            let rkInt := rInt + k
            match fillBytes 33 rkInt with
            | .ok rkBuf =>
              match Utils.constantTimeCmp (some rkBuf) (some (nBytes33 X)) 33 with
              | .ok c33 =>
                if c33 = 0 then signLoop X priv e fuel sc' else
                let dInt := Bytes.toNatBE priv
                let d1Int := dInt + 1
                match fillBytes 32 d1Int with
                | .ok buf =>
                  match Field.scalarSetBytes X.S buf with
                  | .ok d1 =>
                    let d1Inv := Field.invert X.S d1
                    let sInt := (rkInt * Field.toNat X.S d1Inv + (X.n - rInt % X.n)) % X.n
                    if sInt = 0 then signLoop X priv e fuel sc' else
                    .ok ((ensure32 rInt, ensure32 sInt), sc')
                  | _ => .panic
                | _ => .panic
              | _ => .panic
            | _ => .panic
          | .err => .err
          | .panic => .panic
        | _ => .panic := by
  rw [signLoop]; rfl

/-- the out-of-range test of the code (`ConstantTimeCmp(K, nBytes, 32) >= 0`, then the zero
    accumulator) is the standard's `k ∉ [1, n-1]` -/
theorem range_test (F : CurveFacts X) (K : Bytes) (hK : K.length = 32) :
    (Spec.Utils.lexCmp K (nBytes X) ≥ 0 ∨ K.all (· == 0) = true)
      ↔ (Bytes.toNatBE K = 0 ∨ Bytes.toNatBE K ≥ Spec.SM2.n) := by
  have hiff := UtilsCmp.lexCmp_lt_iff_toNat K (nBytes X) (by rw [hK, nBytes_length F])
  rw [nBytes_value F] at hiff
  rw [all_zero_iff]
  have hr := UtilsCmp.lexCmp_range K (nBytes X)
  constructor
  · rintro (h | h)
    · right
      have : ¬ Spec.Utils.lexCmp K (nBytes X) = -1 := by omega
      have := mt hiff.mpr this
      omega
    · left; exact h
  · rintro (h | h)
    · right; exact h
    · left
      have : ¬ Spec.Utils.lexCmp K (nBytes X) = -1 := fun hc => by have := hiff.mp hc; omega
      omega

theorem nBytes33_length (F : CurveFacts X) : (nBytes33 X).length = 33 := by
  unfold nBytes33; rw [List.length_cons, nBytes_length F]

theorem nBytes33_value (F : CurveFacts X) : Bytes.toNatBE (nBytes33 X) = Spec.SM2.n := by
  unfold nBytes33; rw [UtilsCmp.toNatBE_cons, nBytes_value F]; simp

/-- `nBytes33` is the 33-byte encoding of n -/
theorem nBytes33_eq (F : CurveFacts X) : nBytes33 X = Bytes.ofNatBE 33 Spec.SM2.n := by
  have := ofNatBE_toNatBE (nBytes33 X)
  rw [nBytes33_length F, nBytes33_value F] at this
  exact this.symm

/-- `FillBytes` of a value that fits -/
theorem fillBytes_fits (len v : Nat) (h : v < 256 ^ len) : fillBytes len v = .ok (Bytes.ofNatBE len v) := by
  unfold fillBytes; rw [if_pos h]

/-- the code's test for r + k = n: `ConstantTimeCmp` of the two 33-byte encodings is 0 exactly when
    the values agree -/
theorem rk_test (F : CurveFacts X) (v : Nat) (hv : v < 256 ^ 33) :
    ∃ c, Utils.constantTimeCmp (some (Bytes.ofNatBE 33 v)) (some (nBytes33 X)) 33 = .ok c ∧
      (c = 0 ↔ v = Spec.SM2.n) := by
  have hl1 : (Bytes.ofNatBE 33 v).length = 33 := ofNatBE_length 33 v
  have hl2 := nBytes33_length F
  have hc := UtilsCmp.cmp_ok (Bytes.ofNatBE 33 v) (nBytes33 X) 33 (by omega) (by omega)
  rw [List.take_of_length_le (by omega), List.take_of_length_le (by omega)] at hc
  refine ⟨_, hc, ?_⟩
  rw [UtilsCmp.lexCmp_eq_zero]
  constructor
  · intro h
    have := congrArg Bytes.toNatBE h
    rw [toNatBE_ofNatBE 33 v hv, nBytes33_value F] at this
    exact this
  · rintro rfl
    exact (nBytes33_eq F).symm

/-- for 0 < k < n the point [k]G is finite -/
theorem smul_G_some {k : Nat} (h0 : k ≠ 0) (hk : k < Spec.SM2.n) :
    ∃ x y, Spec.SM2.smul k Spec.SM2.G = some (x, y) := by
  cases h : Spec.SM2.smul k Spec.SM2.G with
  | none =>
    have hd := (CurveGroup.smul_G_eq_none_iff k).mp h
    have := Nat.le_of_dvd (by omega) hd
    omega
  | some q => exact ⟨q.1, q.2, rfl⟩

/-- One iteration of the loop of `SignHashed`, for a valid key: having read the candidate `K`, the
    code returns the standard's (r, s) for the nonce k = K, as 32 big-endian bytes each, exactly when
    the standard accepts k, and otherwise goes on to the next iteration. -/
theorem signLoop_step (F : CurveFacts X) (priv e : Bytes)
    (hv : Spec.SM2.validKey (Bytes.toNatBE priv) = true)
    (fuel : Nat) (sc sc' : Script) (K : Bytes) (hread : readFull sc 32 [] = (some K, sc'))
    (hK : K.length = 32) :
    signLoop X priv e (fuel + 1) sc =
      match Spec.SM2.signWith (Bytes.toNatBE priv) (Bytes.toNatBE e) (Bytes.toNatBE K) with
      | some (r, s) => .ok ((Bytes.ofNatBE 32 r, Bytes.ofNatBE 32 s), sc')
      | none => signLoop X priv e fuel sc' := by
  rw [signLoop_succ, hread]
  simp only []
  rw [cmp32 K _ hK (nBytes_length F)]
  simp only []
  have hrange := range_test F K hK
  obtain ⟨hd1, hd2⟩ := (validKey_iff _).mp hv
  have hn2 : 2 ≤ Spec.SM2.n := by decide
  unfold Spec.SM2.signWith
  by_cases hr : Bytes.toNatBE K = 0 ∨ Bytes.toNatBE K ≥ Spec.SM2.n
  · rw [if_pos (hrange.mpr hr), if_pos hr]
  · rw [if_neg (mt hrange.mp hr), if_neg hr]
    have hk0 : Bytes.toNatBE K ≠ 0 := fun h => hr (Or.inl h)
    have hkn : Bytes.toNatBE K < Spec.SM2.n := by
      rcases Nat.lt_or_ge (Bytes.toNatBE K) Spec.SM2.n with h | h
      · exact h
      · exact absurd (Or.inr h) hr
    obtain ⟨P, hP, hrep⟩ := F.baseMult K hK
    obtain ⟨x1, y1, hxy⟩ := smul_G_some hk0 hkn
    rw [hP, hxy]
    rw [hxy] at hrep
    have hx : Point.getAffineX X.C P = x1 := by rw [F.affineXSafe P _ hrep]; rfl
    simp only []
    rw [hx, F.n_eq, Nat.add_comm x1 (Bytes.toNatBE e)]
    by_cases hr0 : (Bytes.toNatBE e + x1) % Spec.SM2.n = 0
    · rw [if_pos hr0, if_pos (Or.inl hr0)]
    · rw [if_neg hr0]
      have hrlt' : (Bytes.toNatBE e + x1) % Spec.SM2.n < Spec.SM2.n := Nat.mod_lt _ n_pos
      have hfit : (Bytes.toNatBE e + x1) % Spec.SM2.n + Bytes.toNatBE K < 256 ^ 33 := by
        have h32 := n_lt_pow
        have : (256 : Nat) ^ 33 = 256 * 256 ^ 32 := by decide
        omega
      obtain ⟨c33, hc33, hrk⟩ := rk_test F ((Bytes.toNatBE e + x1) % Spec.SM2.n + Bytes.toNatBE K) hfit
      rw [fillBytes_fits 33 _ hfit]
      simp only []
      rw [hc33]
      simp only []
      by_cases hrkn : (Bytes.toNatBE e + x1) % Spec.SM2.n + Bytes.toNatBE K = Spec.SM2.n
      · rw [if_pos (hrk.mpr hrkn), if_pos (Or.inr hrkn)]
      · rw [if_neg (mt hrk.mp hrkn), if_neg (by rintro (h | h); exact hr0 h; exact hrkn h)]
        obtain ⟨d1, hd1e, hinv⟩ := F.scalarInv (Bytes.toNatBE priv + 1) (by omega) (by omega)
        rw [fillBytes_fits 32 (Bytes.toNatBE priv + 1) (Nat.lt_trans (by omega) n_lt_pow)]
        simp only []
        rw [hd1e]
        simp only []
        rw [hinv, s_code_eq_spec _ _ _ (by omega)]
        have hrlt : (Bytes.toNatBE e + x1) % Spec.SM2.n < 256 ^ 32 :=
          Nat.lt_trans (Nat.mod_lt _ n_pos) n_lt_pow
        by_cases hs0 : Spec.SM2.invMod (1 + Bytes.toNatBE priv) Spec.SM2.n *
            ((Bytes.toNatBE K + (Spec.SM2.n - (Bytes.toNatBE e + x1) % Spec.SM2.n * Bytes.toNatBE priv % Spec.SM2.n))
              % Spec.SM2.n) % Spec.SM2.n = 0
        · rw [if_pos hs0, if_pos hs0]
        · rw [if_neg hs0, if_neg hs0, ensure32_eq _ hrlt,
            ensure32_eq _ (Nat.lt_trans (Nat.mod_lt _ n_pos) n_lt_pow)]

/-- the standard's rejection rules, one by one: with r = (e + x1) mod n for [k]G = (x1, y1) and
    s = (1+d)⁻¹·(k − r·d) mod n, a candidate k is skipped exactly when k ∉ [1, n-1], r = 0, r + k = n or s = 0 -/
theorem signWith_none_iff (d e k : Nat) :
    Spec.SM2.signWith d e k = none ↔
      (k = 0 ∨ k ≥ Spec.SM2.n) ∨
      ∃ x1 y1, Spec.SM2.smul k Spec.SM2.G = some (x1, y1) ∧
        ((e + x1) % Spec.SM2.n = 0 ∨ (e + x1) % Spec.SM2.n + k = Spec.SM2.n ∨
          Spec.SM2.invMod (1 + d) Spec.SM2.n *
            ((k + (Spec.SM2.n - (e + x1) % Spec.SM2.n * d % Spec.SM2.n)) % Spec.SM2.n) % Spec.SM2.n = 0) := by
  unfold Spec.SM2.signWith
  by_cases hr : k = 0 ∨ k ≥ Spec.SM2.n
  · rw [if_pos hr]; exact ⟨fun _ => Or.inl hr, fun _ => rfl⟩
  · rw [if_neg hr]
    obtain ⟨x1, y1, hxy⟩ := smul_G_some (fun h => hr (Or.inl h))
      (by rcases Nat.lt_or_ge k Spec.SM2.n with h | h; exact h; exact absurd (Or.inr h) hr)
    rw [hxy]
    simp only []
    constructor
    · intro h
      right
      refine ⟨x1, y1, rfl, ?_⟩
      by_cases h1 : (e + x1) % Spec.SM2.n = 0 ∨ (e + x1) % Spec.SM2.n + k = Spec.SM2.n
      · rcases h1 with h1 | h1
        · exact Or.inl h1
        · exact Or.inr (Or.inl h1)
      · rw [if_neg h1] at h
        by_cases h2 : Spec.SM2.invMod (1 + d) Spec.SM2.n *
            ((k + (Spec.SM2.n - (e + x1) % Spec.SM2.n * d % Spec.SM2.n)) % Spec.SM2.n) % Spec.SM2.n = 0
        · exact Or.inr (Or.inr h2)
        · rw [if_neg h2] at h; cases h
    · rintro (h | ⟨x1', y1', hq, h⟩)
      · exact absurd h hr
      · injection hq with hq
        injection hq with hx _
        subst hx
        rcases h with h | h | h
        · rw [if_pos (Or.inl h)]
        · rw [if_pos (Or.inr h)]
        · by_cases h1 : (e + x1) % Spec.SM2.n = 0 ∨ (e + x1) % Spec.SM2.n + k = Spec.SM2.n
          · rw [if_pos h1]
          · rw [if_neg h1, if_pos h]

/-! ### the loop -/

/-- The signing loop on a script: it answers for the first candidate the standard accepts
    (`Spec.SM2.signStream`), having consumed exactly the candidates up to and including that one, and
    fails exactly when the script runs out (error or end of data) before an acceptable candidate. -/
theorem signLoop_spec (F : CurveFacts X) (priv e : Bytes)
    (hv : Spec.SM2.validKey (Bytes.toNatBE priv) = true) :
    ∀ (fuel : Nat) (sc : Script) (j0 : Nat), avail sc / 32 < fuel →
      match Spec.SM2.signStream (Bytes.toNatBE priv) (Bytes.toNatBE e)
          ((Spec.SM2.candidates sc []).map Bytes.toNatBE) j0 with
      | some (j, r, s) => ∃ sc', signLoop X priv e fuel sc
            = .ok ((Bytes.ofNatBE 32 r, Bytes.ofNatBE 32 s), sc') ∧
          avail sc + 32 * j0 = avail sc' + 32 * (j + 1)
      | none => signLoop X priv e fuel sc = .err := by
  intro fuel
  induction fuel with
  | zero => intro sc j0 h; omega
  | succ fuel ih =>
    intro sc j0 hf
    have hrf := readFull32 sc
    cases hread : readFull sc 32 [] with
    | mk o sc' =>
      rw [hread] at hrf
      cases o with
      | none =>
        simp only [] at hrf
        rw [hrf]
        simp only [List.map_nil, Spec.SM2.signStream]
        rw [signLoop_succ, hread]
      | some K =>
        obtain ⟨hK, hcand, havail⟩ := hrf
        rw [hcand, List.map_cons, signLoop_step F priv e hv fuel sc sc' K hread hK]
        simp only [Spec.SM2.signStream]
        cases hsw : Spec.SM2.signWith (Bytes.toNatBE priv) (Bytes.toNatBE e) (Bytes.toNatBE K) with
        | some rs =>
          obtain ⟨r, s⟩ := rs
          simp only []
          exact ⟨sc', rfl, by omega⟩
        | none =>
          simp only []
          have := ih sc' (j0 + 1) (by omega)
          revert this
          cases Spec.SM2.signStream (Bytes.toNatBE priv) (Bytes.toNatBE e)
              ((Spec.SM2.candidates sc' []).map Bytes.toNatBE) (j0 + 1) with
          | none => exact id
          | some t =>
            obtain ⟨j, r, s⟩ := t
            simp only []
            rintro ⟨sc'', h1, h2⟩
            exact ⟨sc'', h1, by omega⟩

/-- `SignHashed` against the byte-level statement of the standard, for every key, digest of any
    length and randomness script -/
theorem signHashed_eq (F : CurveFacts X) (sc : Script) (priv e : Bytes) :
    signHashed X sc priv e =
      (match Spec.SM2.signBytes priv e sc with
       | some (r, s, c) => .ok ((r, s), c)
       | none => .err) := by
  unfold signHashed Spec.SM2.signBytes
  rw [testPrivateKey_spec F]
  simp only [Outcome.bind_ok]
  by_cases h1 : priv.length > 32
  · rw [if_pos h1, if_pos (by omega), if_pos (Or.inl h1)]
  · rw [if_neg h1]
    cases hv : Spec.SM2.validKey (Bytes.toNatBE priv) with
    | false => simp
    | true =>
      simp only [if_true, ne_eq, not_true_eq_false, if_false, Bool.not_true, Bool.false_eq_true,
        or_false, h1]
      have := signLoop_spec F priv e hv (avail sc / 32 + 1) sc 0 (by omega)
      revert this
      cases Spec.SM2.signStream (Bytes.toNatBE priv) (Bytes.toNatBE e)
          ((Spec.SM2.candidates sc []).map Bytes.toNatBE) 0 with
      | none =>
        simp only []
        intro h; rw [h]; rfl
      | some t =>
        obtain ⟨j, r, s⟩ := t
        simp only []
        rintro ⟨sc', h1, h2⟩
        rw [h1]
        simp only [Outcome.bind_ok, Outcome.pure_eq]
        have : avail sc - avail sc' = 32 * (j + 1) := by omega
        rw [this]

end SMGo.Proofs.SM2SignLoop
