/-
  The generated `Write` (`Gen.SM3Code.SM3.Write`, translated from sm3.go by `translate gosm3`) equals the
  hand-written model `Model.SM3.write` on every well-formed value and every input, and never panics.

  Encoding of the struct: `dec`, field by field — `h`, `x` by `Array.toList`, `nx : Int` by `Int.toNat`
  (the Go `int` is never negative: part of `WF`), `len : BitVec 64` by `BitVec.toNat`.
-/
import SMGo.Proofs.SM3GenCf
import SMGo.Proofs.SM3Write
set_option linter.unusedSimpArgs false
namespace SMGo.Proofs.SM3Gen
open SMGo SMGo.Go

local notation "ttGen" => (List.map (BitVec.ofNat 32) Gen.SM3Const.tt : List W32)

/-- the model state a generated struct value stands for -/
def dec (s : Gen.SM3Code.SM3) : Model.SM3.St :=
  { h := s.h.toList, x := s.x.toList, nx := s.nx.toNat, len := s.len.toNat }

/-- what Go's types guarantee ([8]uint32, [64]byte) and the range of `nx` that the methods maintain -/
structure WF (s : Gen.SM3Code.SM3) : Prop where
  h8 : s.h.size = 8
  x64 : s.x.size = 64
  nx0 : 0 ≤ s.nx
  nx64 : s.nx ≤ 64

theorem dec_injective {s t : Gen.SM3Code.SM3} (hs : 0 ≤ s.nx) (ht : 0 ≤ t.nx) (h : dec s = dec t) : s = t := by
  obtain ⟨h1, x1, n1, l1⟩ := s
  obtain ⟨h2, x2, n2, l2⟩ := t
  simp only [dec, Model.SM3.St.mk.injEq] at h
  obtain ⟨e1, e2, e3, e4⟩ := h
  have a1 : h1 = h2 := Array.ext' e1
  have a2 : x1 = x2 := Array.ext' e2
  have a3 : n1 = n2 := by simp only at hs ht; omega
  have a4 : l1 = l2 := BitVec.eq_of_toNat_eq e4
  subst a1 a2 a3 a4
  rfl

theorem model_cf_length (tt h : List W32) (m : Bytes) (hh : h.length = 8) : (Model.SM3.cf tt h m).length = 8 := by
  simp [Model.SM3.cf, Model.SM3.Regs.toList, hh]

theorem absorb_short (tt h : List W32) (d : Bytes) (hd : d.length < 64) : Model.SM3.absorb tt h d = (h, d) := by
  rw [Model.SM3.absorb]; simp [hd]

theorem absorb_long (tt h : List W32) (d : Bytes) (hd : 64 ≤ d.length) :
    Model.SM3.absorb tt h d = Model.SM3.absorb tt (Model.SM3.cf tt h d) (d.drop 64) := by
  rw [Model.SM3.absorb]; simp [show ¬ d.length < 64 by omega]

theorem absorb_rest_length (tt h : List W32) (d : Bytes) : (Model.SM3.absorb tt h d).2.length < 64 := by
  fun_induction Model.SM3.absorb tt h d with
  | case1 h d hlt => exact hlt
  | case2 h d hge ih => exact ih

theorem absorb_h_length (tt h : List W32) (d : Bytes) (hh : h.length = 8) :
    (Model.SM3.absorb tt h d).1.length = 8 := by
  fun_induction Model.SM3.absorb tt h d with
  | case1 h d hlt => exact hh
  | case2 h d hge ih => exact ih (model_cf_length _ _ _ hh)

/-- the block loop `for len(data) >= BlockSize { sm3.cf(data[:BlockSize]); data = data[BlockSize:] }` with its
    fuel: for any body `f` that behaves like the generated one, enough fuel gives the model's `absorb` -/
theorem absorb_forIn (f : Nat → Gen.SM3Code.SM3 × Array UInt8 → Res (ForInStep (Gen.SM3Code.SM3 × Array UInt8)))
    (h1 : ∀ i s d, d.size < 64 → f i (s, d) = .ok (.done (s, d)))
    (h2 : ∀ i s d, 64 ≤ d.size → s.h.size = 8 → f i (s, d) =
      .ok (.yield ({ s with h := (Model.SM3.cf ttGen s.h.toList d.toList).toArray }, (d.toList.drop 64).toArray)))
    (n a : Nat) (s : Gen.SM3Code.SM3) (d : Array UInt8) (hs : s.h.size = 8) (hn : d.size / 64 < n) :
    forIn (List.range' a n) (s, d) f =
      .ok ({ s with h := (Model.SM3.absorb ttGen s.h.toList d.toList).1.toArray },
           (Model.SM3.absorb ttGen s.h.toList d.toList).2.toArray) := by
  induction n generalizing a s d with
  | zero => omega
  | succ n ih =>
    rw [List.range'_succ, List.forIn_cons]
    by_cases hd : d.size < 64
    · rw [h1 a s d hd, Res.bind_ok, absorb_short _ _ _ (by simpa using hd)]
      simp
    · have hd' : 64 ≤ d.size := by omega
      rw [h2 a s d hd' hs, Res.bind_ok]
      dsimp only
      rw [ih (a + 1) _ _ (by simp [model_cf_length, hs]) (by simp; omega),
        absorb_long _ _ d.toList (by simpa using hd')]

/-- the loop inside a `do` block -/
theorem bind_absorb_forIn {β : Type}
    (f : Nat → Gen.SM3Code.SM3 × Array UInt8 → Res (ForInStep (Gen.SM3Code.SM3 × Array UInt8)))
    (k : Gen.SM3Code.SM3 × Array UInt8 → Res β) (r : Res β) (s : Gen.SM3Code.SM3) (d : Array UInt8)
    (h1 : ∀ i s d, d.size < 64 → f i (s, d) = .ok (.done (s, d)))
    (h2 : ∀ i s d, 64 ≤ d.size → s.h.size = 8 → f i (s, d) =
      .ok (.yield ({ s with h := (Model.SM3.cf ttGen s.h.toList d.toList).toArray }, (d.toList.drop 64).toArray)))
    (hs : s.h.size = 8)
    (hk : k ({ s with h := (Model.SM3.absorb ttGen s.h.toList d.toList).1.toArray },
           (Model.SM3.absorb ttGen s.h.toList d.toList).2.toArray) = r) :
    (forIn [0:d.size + 1] (s, d) f >>= k) = r := by
  rw [Std.Legacy.Range.forIn_eq_forIn_range']
  have hsz : ([0:d.size + 1] : Std.Legacy.Range).size = d.size + 1 := by simp [Std.Legacy.Range.size]
  rw [hsz]
  show (forIn (List.range' 0 (d.size + 1)) (s, d) f >>= k) = r
  rw [absorb_forIn f h1 h2 (d.size + 1) 0 s d hs (by omega), Res.bind_ok]
  exact hk

theorem take_drop_len {α : Type} (l : List α) (k : Nat) : List.take (l.length - k) (List.drop k l) = List.drop k l :=
  List.take_of_length_le (by simp)

/-- `Write`: on every well-formed value and every `data`, no panic, `n = len(data)`, `err = nil`, the new
    value is well-formed and stands for the model's `write` -/
theorem write_eq_model (s : Gen.SM3Code.SM3) (data : Array UInt8) (hwf : WF s) :
    ∃ s', Gen.SM3Code.SM3.Write s data = .ok (s', (data.size : Int), none)
      ∧ dec s' = (Model.SM3.write ttGen (dec s) data.toList).1 ∧ WF s' := by
  unfold Gen.SM3Code.SM3.Write
  extract_lets sm3 data' n err n' sm3' jp jp2
  -- the second phase, from any well-formed value
  have hjp2 : ∀ (r : Unit) (t : Gen.SM3Code.SM3) (d : Array UInt8), WF t →
      ∃ s', jp2 r t d = .ok (s', (data.size : Int), none)
        ∧ dec s' = Proofs.SM3.phase2 ttGen (dec t) d.toList ∧ WF s' := by
    intro r t d ht
    simp only [jp2]
    by_cases hnx : t.nx = 0
    · rw [if_pos hnx]
      rw [bind_absorb_forIn _ _ _ t d ?h1 ?h2 ht.h8 rfl]
      case h1 =>
        intro i s d hd
        have : ¬ len d ≥ 64 := by simp only [len]; omega
        simp only [this, not_false_eq_true, if_true, Res.pure_eq]
      case h2 =>
        intro i s d hd hs
        have : len d ≥ 64 := by simp only [len]; omega
        simp only [this, not_true_eq_false, if_false]
        rw [slice_ok d 0 64 (by omega) (by omega) (by omega), Res.bind_ok,
          cf_eq _ _ hs (by simp only [List.size_toArray, List.length_take, List.length_drop, Array.length_toList]; omega),
          Res.bind_ok, slice_ok d 64 (len d) (by omega) (by simp only [len]; omega) (by simp [len]), Res.bind_ok]
        have e1 : List.take ((64 : Int).toNat - (0 : Int).toNat) (List.drop (0 : Int).toNat d.toList) = d.toList.take 64 := by
          simp
        have e2 : List.take ((len d).toNat - (64 : Int).toNat) (List.drop (64 : Int).toNat d.toList) = d.toList.drop 64 := by
          simpa [len] using take_drop_len d.toList 64
        rw [e1, e2, List.toList_toArray, ← Proofs.SM3.cf_take]
        rfl
      have hr := absorb_rest_length ttGen t.h.toList d.toList
      have hl := absorb_h_length ttGen t.h.toList d.toList (by simpa using ht.h8)
      have hph : Proofs.SM3.phase2 ttGen (dec t) d.toList =
          (let ab := Model.SM3.absorb ttGen t.h.toList d.toList
           if ab.2.length > 0 then
             { dec t with h := ab.1, x := (Model.SM3.copyInto t.x.toList 0 ab.2).1, nx := (Model.SM3.copyInto t.x.toList 0 ab.2).2 }
           else { dec t with h := ab.1 }) := by
        have : (dec t).nx = 0 := by simp [dec, hnx]
        simp only [Proofs.SM3.phase2, this, if_true]
        rfl
      rw [hph]
      generalize Model.SM3.absorb ttGen t.h.toList d.toList = ab at hr hl ⊢
      obtain ⟨abh, abr⟩ := ab
      dsimp only at hr hl ⊢
      have c1 : ¬ len abr.toArray ≥ 64 := by simp only [len, List.size_toArray]; omega
      rw [if_neg c1]
      by_cases hz : abr.length > 0
      · have c2 : len abr.toArray > 0 := by simp only [len, List.size_toArray]; omega
        rw [if_pos c2, if_pos hz, copyAt_ok _ _ _ _ (by omega) (by simp [len]) (by simp [len]), Res.bind_ok]
        simp only [jp, Res.pure_eq]
        refine ⟨_, rfl, ?_, ?_⟩
        · simp [dec, Model.SM3.copyInto, len]
        · have hx := ht.x64
          refine ⟨by simpa using hl, ?_, ?_, ?_⟩
          · simp only [len, List.size_toArray, List.length_append, List.length_take, List.length_drop,
              Array.length_toList, hx, Int.toNat_natCast, Int.toNat_zero]
            omega
          · simp
          · simp only [len, hx, Int.toNat_natCast, Int.toNat_zero, List.size_toArray]; omega
      · have c2 : ¬ len abr.toArray > 0 := by simp only [len, List.size_toArray]; omega
        rw [if_neg c2, if_neg hz]
        simp only [jp, Res.pure_eq]
        refine ⟨_, rfl, ?_, ?_⟩
        · simp [dec]
        · exact ⟨by simpa using hl, ht.x64, ht.nx0, ht.nx64⟩
    · rw [if_neg hnx]
      refine ⟨t, rfl, ?_, ht⟩
      have : (dec t).nx ≠ 0 := by have := ht.nx0; simp only [dec]; omega
      simp [Proofs.SM3.phase2, this]
  clear_value jp2
  -- the first phase: reduce to a call of the second
  have hlen : (dec sm3') = { dec s with len := ((dec s).len + data.toList.length) % 2 ^ 64 } := by
    simp only [sm3', sm3, n', data', dec, len, u64OfInt, BitVec.toNat_add, BitVec.toNat_ofInt]
    simp
    omega
  have hwf' : WF sm3' := ⟨hwf.h8, hwf.x64, hwf.nx0, hwf.nx64⟩
  rw [Proofs.SM3.write_eq, ← hlen]
  have hsm3' : sm3'.nx = s.nx ∧ sm3'.x = s.x ∧ sm3'.h = s.h := ⟨rfl, rfl, rfl⟩
  clear_value sm3'
  have hdata' : data' = data := rfl
  clear_value data'
  subst hdata'
  suffices h : ∃ t d, WF t ∧ (dec t, d.toList) = Proofs.SM3.phase1 ttGen (dec sm3') data'.toList ∧
      (if sm3'.nx > 0 then do
          let t'1 ← copyAt sm3'.x sm3'.nx (len sm3'.x) data'
          let __do_lift ← slice data' t'1.snd (len data')
          if sm3'.nx + t'1.snd = 64 then do
              let __do_lift_1 ← slice t'1.fst 0 (len t'1.fst)
              let t'2 ← Gen.SM3Code.SM3.cf { h := sm3'.h, x := t'1.fst, nx := sm3'.nx + t'1.snd, len := sm3'.len } __do_lift_1
              jp2 () { h := t'2.h, x := t'2.x, nx := 0, len := t'2.len } __do_lift
            else jp2 () { h := sm3'.h, x := t'1.fst, nx := sm3'.nx + t'1.snd, len := sm3'.len } __do_lift
        else jp2 () sm3' data') = jp2 () t d by
    obtain ⟨t, d, ht, hp, he⟩ := h
    obtain ⟨s', e1, e2, e3⟩ := hjp2 () t d ht
    refine ⟨s', ?_, ?_, e3⟩
    · rw [← e1, ← he]
    · rw [e2, ← hp]
  obtain ⟨en, ex, eh⟩ := hsm3'
  have hx := hwf'.x64
  have hn0 := hwf'.nx0
  have hn64 := hwf'.nx64
  by_cases hpos : sm3'.nx > 0
  · rw [if_pos hpos]
    have hpos' : (dec sm3').nx > 0 := by simp only [dec]; omega
    rw [copyAt_ok _ _ _ _ hn0 (by simp only [len]; omega) (by simp [len]), Res.bind_ok]
    dsimp only
    generalize hcnt : min ((len sm3'.x).toNat - sm3'.nx.toNat) data'.size = cnt
    have hcnt' : cnt = min (64 - sm3'.nx.toNat) data'.size := by rw [← hcnt]; simp [len, hx]
    rw [slice_ok _ _ _ (by omega) (by simp only [len]; omega) (by simp [len]), Res.bind_ok]
    have ed : List.take ((len data').toNat - (cnt : Int).toNat) (List.drop (cnt : Int).toNat data'.toList)
        = data'.toList.drop cnt := by
      simpa [len] using take_drop_len data'.toList cnt
    rw [ed]
    have hp1 : Proofs.SM3.phase1 ttGen (dec sm3') data'.toList =
        (if (dec sm3').nx + cnt = 64 then
          ({ dec sm3' with h := Model.SM3.cf ttGen (dec sm3').h (Model.SM3.copyInto (dec sm3').x (dec sm3').nx data'.toList).1,
                           x := (Model.SM3.copyInto (dec sm3').x (dec sm3').nx data'.toList).1, nx := 0 },
            data'.toList.drop cnt)
         else ({ dec sm3' with x := (Model.SM3.copyInto (dec sm3').x (dec sm3').nx data'.toList).1,
                               nx := (dec sm3').nx + cnt }, data'.toList.drop cnt)) := by
      have : (Model.SM3.copyInto (dec sm3').x (dec sm3').nx data'.toList).2 = cnt := by
        simp [Model.SM3.copyInto, dec, hcnt', hx]
      simp only [Proofs.SM3.phase1, hpos', if_true, this]
    rw [hp1]
    have hxl : (List.take sm3'.nx.toNat sm3'.x.toList ++ List.take cnt data'.toList ++
        List.drop (sm3'.nx.toNat + cnt) sm3'.x.toList).length = 64 := by
      simp only [List.length_append, List.length_take, List.length_drop, Array.length_toList, hx]
      omega
    have hcx : (Model.SM3.copyInto sm3'.x.toList sm3'.nx.toNat data'.toList).1 =
        List.take sm3'.nx.toNat sm3'.x.toList ++ List.take cnt data'.toList ++
          List.drop (sm3'.nx.toNat + cnt) sm3'.x.toList := by
      simp [Model.SM3.copyInto, hcnt', hx]
    by_cases h64 : sm3'.nx + (cnt : Int) = 64
    · have h64' : (dec sm3').nx + cnt = 64 := by simp only [dec]; omega
      rw [if_pos h64, if_pos h64', slice_full, Res.bind_ok,
        cf_eq _ _ (by exact hwf'.h8) (by simp only [List.size_toArray, hxl]; omega), Res.bind_ok]
      refine ⟨_, _, ?_, ?_, rfl⟩
      · refine ⟨?_, ?_, ?_, ?_⟩
        · simp [model_cf_length, hwf'.h8]
        · simp only [List.size_toArray, hxl]
        · simp
        · simp
      · simp only [dec, List.toList_toArray, Int.toNat_zero]
        rw [hcx]
    · have h64' : ¬ (dec sm3').nx + cnt = 64 := by simp only [dec]; omega
      rw [if_neg h64, if_neg h64']
      refine ⟨_, _, ?_, ?_, rfl⟩
      · refine ⟨hwf'.h8, ?_, ?_, ?_⟩
        · simp only [List.size_toArray, hxl]
        · simp only; omega
        · simp only; omega
      · have e : (sm3'.nx + (cnt : Int)).toNat = sm3'.nx.toNat + cnt := by omega
        simp only [dec, List.toList_toArray]
        rw [hcx, e]
  · rw [if_neg hpos]
    have hpos' : ¬ (dec sm3').nx > 0 := by simp only [dec]; omega
    refine ⟨sm3', data', hwf', ?_, rfl⟩
    simp [Proofs.SM3.phase1, hpos']

end SMGo.Proofs.SM3Gen
