/-
  **The arm64 listing of `cryptoBlockAsmX4` computes four SM4 block functions of the specification** — under the
  arm64 value semantics of SMGo/Model/ISAValArm64.lean (UNVALIDATED transcription of the Arm ARM).
  Prologue: loadSBox, pointers, CONST, `VLD4 (R12), [V0.S4, V1.S4, V2.S4, V3.S4]` (word `r` of block `e` goes to
  element `e` of register `r`), REV32.  Rounds: `readyL_rounds` (ISAValArm64Wide.lean).  Epilogue: REV32, the two
  register swaps through V13, `VST4`.
-/
import SMGo.Proofs.ISAValArm64Wide
import SMGo.Proofs.ISAValArm64Spec
namespace SMGo.Proofs.ISAValArm64
open SMGo.Model.ISAValArm64 SMGo.Model.ISA SMGo
open SMGo.Model.ISAVal (lane lanes unlanes map1 map2 Region readMem writeMem lookup regionBase)
open SMGo.Proofs.ISAVal (lane_lt lane_mod list32 list16 stepN iterN beWord beBytes lane_map1 lanes84 lanes_unlanes
  lanes_length unlanes_cons unlanes_nil lane32_list4 Bnd toW foldl_stepN iterN_take beWord_lt ofNat_beWord
  w32Bytes_ofNat getD_lt unlanes_lanes)

/-! ### byte order -/

/-- the bytes of a word reversed -/
def bswap32 (x : Nat) : Nat := unlanes 8 (lanes 8 4 x).reverse

theorem bswap32_lt (x : Nat) : bswap32 x < 2 ^ 32 := by
  have h0 := lane_lt 8 0 x; have h1 := lane_lt 8 1 x; have h2 := lane_lt 8 2 x; have h3 := lane_lt 8 3 x
  simp only [bswap32, lanes84, List.reverse_cons, List.reverse_nil, List.nil_append, List.cons_append, unlanes_cons, unlanes_nil]
  omega

theorem laneJ_vrev32' (j v : Nat) (hj : j < 4) : lane 32 j (vrev32 v) = bswap32 (lane 32 j v) :=
  lane_map1 32 4 j v _ hj (fun x _ => bswap32_lt x)

theorem lanes_bswap (x : Nat) : lanes 8 4 (bswap32 x) = beBytes x := by
  unfold bswap32
  rw [lanes_unlanes 8 4 _ (by
    intro y hy
    exact SMGo.Proofs.ISAVal.mem_lanes_lt 8 4 x y (List.mem_reverse.mp hy)) (by simp [lanes_length])]
  simp only [lanes84, List.reverse_cons, List.reverse_nil, List.nil_append, List.cons_append]
  rfl

theorem bswap_bytes (a b c d : Nat) (ha : a < 256) (hb : b < 256) (hc : c < 256) (hd : d < 256) :
    bswap32 (unlanes 8 [a, b, c, d]) = beWord a b c d := by
  have hb4 : ∀ x ∈ [a, b, c, d], x < 2 ^ 8 := by
    intro x hx; simp at hx; rcases hx with rfl | rfl | rfl | rfl <;> assumption
  unfold bswap32
  rw [lanes_unlanes 8 4 _ hb4 rfl]
  rfl

/-! ### one block of the specification from the numeric iteration -/

/-- the big-endian words of a 16-byte block, as the kernels hold them after REV32 -/
def blockWords (blk : List Nat) : Nat × Nat × Nat × Nat :=
  (bswap32 (leWord blk 0), bswap32 (leWord blk 1), bswap32 (leWord blk 2), bswap32 (leWord blk 3))

/-- the 16 output bytes from the window after the last round -/
def outBytes (X : Nat × Nat × Nat × Nat) : List Nat :=
  beBytes X.2.2.2 ++ (beBytes X.2.2.1 ++ (beBytes X.2.1 ++ beBytes X.1))

theorem block_spec (rk blk : List Nat) (hrkb : ∀ x ∈ rk, x < 2 ^ 32) (hlen : blk.length = 16)
    (hb : ∀ x ∈ blk, x < 256) :
    outBytes (rk.foldl stepN (blockWords blk))
      = (Spec.SM4.crypt (rk.map (BitVec.ofNat 32)) (blk.map UInt8.ofNat)).map (·.toNat) := by
  obtain ⟨s0, s1, s2, s3, s4, s5, s6, s7, s8, s9, s10, s11, s12, s13, s14, s15, rfl⟩ := list16 blk hlen
  have h := fun x hx => hb x hx
  simp only [List.mem_cons, List.not_mem_nil, or_false] at h
  have e0 : bswap32 (leWord [s0, s1, s2, s3, s4, s5, s6, s7, s8, s9, s10, s11, s12, s13, s14, s15] 0) = beWord s0 s1 s2 s3 :=
    bswap_bytes _ _ _ _ (h s0 (by simp)) (h s1 (by simp)) (h s2 (by simp)) (h s3 (by simp))
  have e1 : bswap32 (leWord [s0, s1, s2, s3, s4, s5, s6, s7, s8, s9, s10, s11, s12, s13, s14, s15] 1) = beWord s4 s5 s6 s7 :=
    bswap_bytes _ _ _ _ (h s4 (by simp)) (h s5 (by simp)) (h s6 (by simp)) (h s7 (by simp))
  have e2 : bswap32 (leWord [s0, s1, s2, s3, s4, s5, s6, s7, s8, s9, s10, s11, s12, s13, s14, s15] 2) = beWord s8 s9 s10 s11 :=
    bswap_bytes _ _ _ _ (h s8 (by simp)) (h s9 (by simp)) (h s10 (by simp)) (h s11 (by simp))
  have e3 : bswap32 (leWord [s0, s1, s2, s3, s4, s5, s6, s7, s8, s9, s10, s11, s12, s13, s14, s15] 3) = beWord s12 s13 s14 s15 :=
    bswap_bytes _ _ _ _ (h s12 (by simp)) (h s13 (by simp)) (h s14 (by simp)) (h s15 (by simp))
  simp only [blockWords, e0, e1, e2, e3]
  have hb0 : Bnd (beWord s0 s1 s2 s3, beWord s4 s5 s6 s7, beWord s8 s9 s10 s11, beWord s12 s13 s14 s15) :=
    ⟨beWord_lt _ _ _ _ (h s0 (by simp)) (h s1 (by simp)) (h s2 (by simp)) (h s3 (by simp)),
      beWord_lt _ _ _ _ (h s4 (by simp)) (h s5 (by simp)) (h s6 (by simp)) (h s7 (by simp)),
      beWord_lt _ _ _ _ (h s8 (by simp)) (h s9 (by simp)) (h s10 (by simp)) (h s11 (by simp)),
      beWord_lt _ _ _ _ (h s12 (by simp)) (h s13 (by simp)) (h s14 (by simp)) (h s15 (by simp))⟩
  obtain ⟨hbX, hWX⟩ := foldl_stepN rk hrkb _ hb0
  generalize rk.foldl stepN (beWord s0 s1 s2 s3, beWord s4 s5 s6 s7, beWord s8 s9 s10 s11, beWord s12 s13 s14 s15) = X at hbX hWX
  have hw0 := ofNat_beWord s0 s1 s2 s3 (h s0 (by simp)) (h s1 (by simp)) (h s2 (by simp)) (h s3 (by simp))
  have hw1 := ofNat_beWord s4 s5 s6 s7 (h s4 (by simp)) (h s5 (by simp)) (h s6 (by simp)) (h s7 (by simp))
  have hw2 := ofNat_beWord s8 s9 s10 s11 (h s8 (by simp)) (h s9 (by simp)) (h s10 (by simp)) (h s11 (by simp))
  have hw3 := ofNat_beWord s12 s13 s14 s15 (h s12 (by simp)) (h s13 (by simp)) (h s14 (by simp)) (h s15 (by simp))
  simp only [Spec.SM4.crypt, List.map_cons, List.map_nil, wordsBE, List.getD_cons_zero, List.getD_cons_succ]
  simp only [toW, hw0, hw1, hw2, hw3] at hWX
  rw [← hWX]
  obtain ⟨xa, xb, xc, xd⟩ := X
  obtain ⟨ha, hb', hc, hd⟩ := hbX
  simp only at ha hb' hc hd
  simp only [outBytes, List.map_append, w32Bytes_ofNat _ ha, w32Bytes_ofNat _ hb', w32Bytes_ofNat _ hc, w32Bytes_ofNat _ hd,
    List.append_assoc]

/-- block `e` of a byte string -/
def blockAt (bs : List Nat) (e : Nat) : List Nat := (bs.drop (16 * e)).take 16

theorem leWord_blockAt (bs : List Nat) (e r : Nat) (hr : r < 4) : leWord (blockAt bs e) r = leWord bs (4 * e + r) := by
  unfold leWord blockAt
  congr 1
  rw [List.drop_take, List.drop_drop, List.take_take, Nat.min_eq_left (by omega)]
  congr 2
  omega

theorem leWord_lt (bs : List Nat) (hb : ∀ x ∈ bs, x < 256) (j : Nat) : leWord bs j < 2 ^ 32 := by
  have h := SMGo.Proofs.ISAVal.unlanes_lt 8 ((bs.drop (4 * j)).take 4)
    (fun x hx => hb x (List.mem_of_mem_drop (List.mem_of_mem_take hx)))
  refine Nat.lt_of_lt_of_le h (Nat.pow_le_pow_right (by decide) ?_)
  rw [List.length_take]; omega

/-! ### prologue -/

def pro4Code : List DInstr :=
  [ins .MOVD [.symAddr "SBox" 0, G 0] nn,
   ins .VLD1P [M 0 64, L4 16 17 18 19] [.none, .B16],
   ins .VLD1P [M 0 64, L4 20 21 22 23] [.none, .B16],
   ins .VLD1P [M 0 64, L4 24 25 26 27] [.none, .B16],
   ins .VLD1P [M 0 64, L4 28 29 30 31] [.none, .B16],
   ins .MOVD [.frame "rk" 0, G 10] nn,
   ins .MOVD [.frame "dst" 8, G 11] nn,
   ins .MOVD [.frame "src" 16, G 12] nn,
   ins .VMOVI [.imm 64, R 15] [.none, .B16],
   ins .VLD4 [M 12 0, L4 0 1 2 3] [.none, .S4],
   ins .VREV32 [R 0, R 0] r2,
   ins .VREV32 [R 1, R 1] r2,
   ins .VREV32 [R 2, R 2] r2,
   ins .VREV32 [R 3, R 3] r2]

attribute [local irreducible] execD

set_option maxRecDepth 10000 in
theorem prologue4_spec (s : State) (hG : s.gpr.length = 31) (hV : s.vec.length = 32)
    (aSrc aRk aDst : Nat) (bs : List Nat) (hb : ∀ x ∈ bs, x < 256)
    (hS : lookup s.syms "SBox" = some 4294967296)
    (hS0 : readMem s.mem 4294967296 64 = .ok (sbQuarter 0))
    (hS1 : readMem s.mem 4294967360 64 = .ok (sbQuarter 1))
    (hS2 : readMem s.mem 4294967424 64 = .ok (sbQuarter 2))
    (hS3 : readMem s.mem 4294967488 64 = .ok (sbQuarter 3))
    (hSrc : lookup s.frame "src" = some aSrc)
    (hI : readMem s.mem aSrc 64 = .ok bs)
    (hRk : lookup s.frame "rk" = some aRk) (hDst : lookup s.frame "dst" = some aDst) :
    ∃ s', execList pro4Code s = .ok s' ∧
      ReadyL 4 s.mem s.syms s.frame aRk aDst 0 (fun e => blockWords (blockAt bs e)) s' := by
  obtain ⟨gpr, vec, mem, syms, frame⟩ := s
  simp only at hG hV hS hS0 hS1 hS2 hS3 hSrc hI hRk hDst
  obtain ⟨a0, a1, a2, a3, a4, a5, a6, a7, a8, a9, a10, a11, a12, a13, a14, a15, a16, a17, a18, a19, a20, a21, a22, a23, a24, a25, a26, a27, a28, a29, a30, rfl⟩ := list31 gpr hG
  obtain ⟨b0, b1, b2, b3, b4, b5, b6, b7, b8, b9, b10, b11, b12, b13, b14, b15, b16, b17, b18, b19, b20, b21, b22, b23, b24, b25, b26, b27, b28, b29, b30, b31, rfl⟩ := list32 vec hV
  apply Exists.intro
  apply And.intro
  · unfold pro4Code
    apply exec_step
    · exact execD_movd_sym (hs := hS) (hd0 := by rfl) ..
    simp only [List.set_cons_succ, List.set_cons_zero, Nat.add_zero]
    apply exec_step
    · exact execD_ld1p_four (bs := sbQuarter 0) (hc := by decide) (hb := by rfl)
        (e0 := by rfl) (e1 := by rfl) (e2 := by rfl) (e3 := by rfl) (hload := hS0) ..
    simp only [List.set_cons_succ, List.set_cons_zero, Nat.reduceAdd, Nat.reducePow, Nat.reduceMod]
    apply exec_step
    · exact execD_ld1p_four (bs := sbQuarter 1) (hc := by decide) (hb := by rfl)
        (e0 := by rfl) (e1 := by rfl) (e2 := by rfl) (e3 := by rfl) (hload := hS1) ..
    simp only [List.set_cons_succ, List.set_cons_zero, Nat.reduceAdd, Nat.reducePow, Nat.reduceMod]
    apply exec_step
    · exact execD_ld1p_four (bs := sbQuarter 2) (hc := by decide) (hb := by rfl)
        (e0 := by rfl) (e1 := by rfl) (e2 := by rfl) (e3 := by rfl) (hload := hS2) ..
    simp only [List.set_cons_succ, List.set_cons_zero, Nat.reduceAdd, Nat.reducePow, Nat.reduceMod]
    apply exec_step
    · exact execD_ld1p_four (bs := sbQuarter 3) (hc := by decide) (hb := by rfl)
        (e0 := by rfl) (e1 := by rfl) (e2 := by rfl) (e3 := by rfl) (hload := hS3) ..
    simp only [List.set_cons_succ, List.set_cons_zero, Nat.reduceAdd, Nat.reducePow, Nat.reduceMod]
    pstep; pstep; pstep; pstep
    apply exec_step
    · exact execD_ld4 (post := false) (bs := bs) (hc := by decide) (hb := by rfl)
        (e0 := by rfl) (e1 := by rfl) (e2 := by rfl) (e3 := by rfl) (hload := hI) ..
    simp only [List.set_cons_succ, List.set_cons_zero, Bool.false_eq_true, if_false]
    pstep; pstep; pstep; pstep
    exact execList_nil _
  · have hw := fun j => leWord_lt bs hb j
    have l4 := fun p q r t => lane32_list4 (leWord bs p) (leWord bs q) (leWord bs r) (leWord bs t) (hw p) (hw q) (hw r) (hw t)
    have key : ∀ r, r < 4 → ∀ e, e < 4 →
        lane 32 e (vrev32 (unlanes 32 [leWord bs r, leWord bs (4 + r), leWord bs (8 + r), leWord bs (12 + r)]))
          = bswap32 (leWord (blockAt bs e) r) := by
      intro r hr e he
      rw [laneJ_vrev32' e _ he, leWord_blockAt bs e r hr]
      congr 1
      obtain ⟨h0, h1, h2, h3⟩ := l4 r (4 + r) (8 + r) (12 + r)
      have : e = 0 ∨ e = 1 ∨ e = 2 ∨ e = 3 := by omega
      rcases this with rfl | rfl | rfl | rfl
      · rw [h0]; exact congrArg _ (by omega)
      · rw [h1]
      · rw [h2]
      · rw [h3]
    constructor
    · rfl
    · rfl
    · rfl
    · rfl
    · rfl
    · simp only [greg, List.getD_cons_succ, List.getD_cons_zero, Nat.mul_zero, Nat.add_zero]
    · simp only [greg, List.getD_cons_succ, List.getD_cons_zero]
    · simp only [List.drop_succ_cons, List.drop_zero]
      exact tabs_loaded
    · intro e he
      simp only [vreg, sreg, Nat.zero_add, Nat.reduceMod, List.getD_cons_succ, List.getD_cons_zero]
      exact key 0 (by decide) e he
    · intro e he
      simp only [vreg, sreg, Nat.zero_add, Nat.reduceMod, List.getD_cons_succ, List.getD_cons_zero]
      exact key 1 (by decide) e he
    · intro e he
      simp only [vreg, sreg, Nat.zero_add, Nat.reduceMod, List.getD_cons_succ, List.getD_cons_zero]
      exact key 2 (by decide) e he
    · intro e he
      simp only [vreg, sreg, Nat.zero_add, Nat.reduceMod, List.getD_cons_succ, List.getD_cons_zero]
      exact key 3 (by decide) e he

/-! ### epilogue -/

def epi4Code : List DInstr :=
  [ins .VREV32 [R 0, R 0] r2,
   ins .VREV32 [R 1, R 1] r2,
   ins .VREV32 [R 2, R 2] r2,
   ins .VREV32 [R 3, R 3] r2,
   ins .VMOV [R 0, R 13] r2, ins .VMOV [R 3, R 0] r2, ins .VMOV [R 13, R 3] r2,
   ins .VMOV [R 1, R 13] r2, ins .VMOV [R 2, R 1] r2, ins .VMOV [R 13, R 2] r2,
   ins .VST4 [L4 0 1 2 3, M 11 0] [.S4, .none]]

macro "mstep" : tactic => `(tactic|
  (apply exec_step
   · first
     | exact execD_vrev32 (hn := by rfl) (hd0 := by rfl) ..
     | exact execD_vmov_full (hn := by rfl) (hd0 := by rfl) ..
   simp only [List.set_cons_succ, List.set_cons_zero]))

/-- one output word as ST4 stores it: REV32, a register move, element `e` -/
theorem out_word (e v : Nat) (he : e < 4) : lanes 8 4 (lane 32 e (vrev32 v % 2 ^ 128)) = beBytes (lane 32 e v) := by
  rw [lane_mod 32 e 128 _ (by omega), laneJ_vrev32' e v he, lanes_bswap]

/-- the same through the temporary V13 (two moves) -/
theorem out_word2 (e v : Nat) (he : e < 4) :
    lanes 8 4 (lane 32 e (vrev32 v % 2 ^ 128 % 2 ^ 128)) = beBytes (lane 32 e v) := by
  rw [Nat.mod_mod]; exact out_word e v he

set_option maxRecDepth 10000 in
theorem epilogue4_spec (mem : List Region) (syms frame : List (String × Nat)) (rkBase dstp : Nat)
    (X : Nat → Nat × Nat × Nat × Nat) (s : State) (mem' : List Region)
    (h : ReadyL 4 mem syms frame rkBase dstp 32 X s)
    (hw : writeMem mem dstp (outBytes (X 0) ++ (outBytes (X 1) ++ (outBytes (X 2) ++ outBytes (X 3)))) = .ok mem') :
    ∃ s', execList epi4Code s = .ok s' ∧ s'.mem = mem' := by
  obtain ⟨hG, hV, hmem, -, -, -, hg11, -, hx0, hx1, hx2, hx3⟩ := h
  obtain ⟨gpr, vec, mem0, syms0, frame0⟩ := s
  simp only at hG hV hmem
  obtain ⟨a0, a1, a2, a3, a4, a5, a6, a7, a8, a9, a10, a11, a12, a13, a14, a15, a16, a17, a18, a19, a20, a21, a22, a23, a24, a25, a26, a27, a28, a29, a30, rfl⟩ := list31 gpr hG
  obtain ⟨b0, b1, b2, b3, b4, b5, b6, b7, b8, b9, b10, b11, b12, b13, b14, b15, b16, b17, b18, b19, b20, b21, b22, b23, b24, b25, b26, b27, b28, b29, b30, b31, rfl⟩ := list32 vec hV
  simp only [greg, vreg, sreg, Nat.reduceAdd, Nat.reduceMod, List.getD_cons_succ, List.getD_cons_zero] at hg11 hx0 hx1 hx2 hx3
  subst hmem hg11
  have hst : st4Bytes (vrev32 b3 % 2 ^ 128) (vrev32 b2 % 2 ^ 128) (vrev32 b1 % 2 ^ 128 % 2 ^ 128)
      (vrev32 b0 % 2 ^ 128 % 2 ^ 128)
      = outBytes (X 0) ++ (outBytes (X 1) ++ (outBytes (X 2) ++ outBytes (X 3))) := by
    simp only [st4Bytes, out_word _ _ (by decide : 0 < 4), out_word _ _ (by decide : 1 < 4), out_word _ _ (by decide : 2 < 4),
      out_word _ _ (by decide : 3 < 4), out_word2 _ _ (by decide : 0 < 4), out_word2 _ _ (by decide : 1 < 4),
      out_word2 _ _ (by decide : 2 < 4), out_word2 _ _ (by decide : 3 < 4),
      hx0 0 (by decide), hx0 1 (by decide), hx0 2 (by decide), hx0 3 (by decide),
      hx1 0 (by decide), hx1 1 (by decide), hx1 2 (by decide), hx1 3 (by decide),
      hx2 0 (by decide), hx2 1 (by decide), hx2 2 (by decide), hx2 3 (by decide),
      hx3 0 (by decide), hx3 1 (by decide), hx3 2 (by decide), hx3 3 (by decide), outBytes, List.append_assoc]
  rw [← hst] at hw
  apply Exists.intro
  apply And.intro
  · unfold epi4Code
    mstep; mstep; mstep; mstep; mstep; mstep; mstep; mstep; mstep; mstep
    apply exec_step
    · exact execD_st4 (post := false) (hc := by decide) (hb := by rfl) (h0 := by rfl) (h1 := by rfl) (h2 := by rfl)
        (h3 := by rfl) (hstore := hw) ..
    exact execList_nil _
  · rfl

end SMGo.Proofs.ISAValArm64
