import SMGo.Proofs.ISAValHelperMem
set_option linter.unusedSimpArgs false
namespace SMGo.Proofs.ISAVal
open SMGo SMGo.Model.ISAVal SMGo.Proofs.ISATouch
open SMGo.Model.ISA (Reg Opd Instr)

/-! ### `copyAsm` of helper_amd64.s -/

set_option maxHeartbeats 1000000 in
/-- the four stages (by 8, 4, 2, 1 bytes) of a copy, ending at the label after the last stage -/
theorem copy4_reach (r : Routine) (k dst src len tmp p8 p4 p2 p1 pe : Nat) (cr : CopyRegs dst src len tmp)
    (hs : Slice r k (stageCode 8 dst src len tmp p4 p8 ++ (stageCode 4 dst src len tmp p2 p4 ++
      (stageCode 2 dst src len tmp p1 p2 ++ stageCode 1 dst src len tmp pe p1)))) (l8 : findPc r p8 = some (r.drop k))
    (l4 : findPc r p4 = some (r.drop (k + 8))) (l2 : findPc r p2 = some (r.drop (k + 16))) (l1 : findPc r p1 = some (r.drop (k + 24)))
    (le : findPc r pe = some (r.drop (k + 32))) (Mf : List Nat → List Region) (base blen : Nat) (bf : Buf Mf base blen)
    (d : List Nat) (sp : Nat) (hsrc : ∀ b, b.length = blen → DataAt (Mf b) sp d) (hdb : ∀ x ∈ d, x < 2 ^ 8)
    (hbase : base + blen < 2 ^ 63) (hsp : sp + d.length < 2 ^ 63)
    (n : Nat) (s : State) (b : List Nat) (so doff : Nat) (hG : s.gpr.length = 16) (hb : b.length = blen) (hm : s.mem = Mf b)
    (hlen : greg s len = n) (hn63 : n < 2 ^ 63) (hsr : greg s src = sp + so) (hds : greg s dst = base + doff)
    (hso : so + n ≤ d.length) (hdo : doff + n ≤ blen) :
    ∃ s' N, N ≤ n + 40 ∧ Reach r k s (k + 32) s' N ∧ s'.mem = Mf (spliceAt b doff ((d.drop so).take n)) ∧
      RegsKeep (copyKeepG dst src len tmp) s s' := by
  have s8 : Slice r k (stageCode 8 dst src len tmp p4 p8) := hs.left
  have s4 : Slice r (k + 8) (stageCode 4 dst src len tmp p2 p4) := hs.right.left
  have s2 : Slice r (k + 16) (stageCode 2 dst src len tmp p1 p2) := hs.right.right.left
  have s1 : Slice r (k + 24) (stageCode 1 dst src len tmp pe p1) := hs.right.right.right
  obtain ⟨t1, r1, m1, gl1, gs1, gd1, k1⟩ := stage_reach r k 8 dst src len tmp p4 p8 (Or.inl rfl) cr s8 l8 l4 Mf base blen bf d sp hsrc hdb
    hbase hsp (n / 8) n s b so doff rfl hG hb hm hlen hn63 hsr hds hso hdo
  have hG1 : t1.gpr.length = 16 := by rw [k1.lenG]; exact hG
  have e8 := Nat.div_add_mod n 8
  obtain ⟨t2, r2, m2, gl2, gs2, gd2, k2⟩ := stage_reach r (k + 8) 4 dst src len tmp p2 p4 (Or.inr (Or.inl rfl)) cr s4 l4 l2 Mf base blen bf d sp
    hsrc hdb hbase hsp (n % 8 / 4) (n % 8) t1 _ (so + 8 * (n / 8)) (doff + 8 * (n / 8)) rfl hG1
    (by rw [spliceAt_length _ _ _ (by rw [List.length_take, List.length_drop, hb]; omega)]; exact hb) m1 gl1 (by omega)
    (by rw [gs1]; omega) (by rw [gd1]; omega) (by omega) (by omega)
  have hG2 : t2.gpr.length = 16 := by rw [k2.lenG]; exact hG1
  have e4 := Nat.div_add_mod (n % 8) 4
  rw [spliceAt_take2 b d doff so _ _ (by rw [hb]; omega) (by omega)] at m2
  rw [Nat.mod_mod_of_dvd n (by decide : 4 ∣ 8)] at gl2
  obtain ⟨t3, r3, m3, gl3, gs3, gd3, k3⟩ := stage_reach r (k + 16) 2 dst src len tmp p1 p2 (Or.inr (Or.inr (Or.inl rfl))) cr s2 l2 l1 Mf base blen
    bf d sp hsrc hdb hbase hsp (n % 4 / 2) (n % 4) t2 _ (so + (8 * (n / 8) + 4 * (n % 8 / 4))) (doff + (8 * (n / 8) + 4 * (n % 8 / 4))) rfl hG2
    (by rw [spliceAt_length _ _ _ (by rw [List.length_take, List.length_drop, hb]; omega)]; exact hb) m2 gl2 (by omega)
    (by rw [gs2]; omega) (by rw [gd2]; omega) (by omega) (by omega)
  have hG3 : t3.gpr.length = 16 := by rw [k3.lenG]; exact hG2
  have e2 := Nat.div_add_mod (n % 4) 2
  rw [spliceAt_take2 b d doff so _ _ (by rw [hb]; omega) (by omega)] at m3
  rw [Nat.mod_mod_of_dvd n (by decide : 2 ∣ 4)] at gl3
  obtain ⟨t4, r4, m4, gl4, gs4, gd4, k4⟩ := stage_reach r (k + 24) 1 dst src len tmp pe p1 (Or.inr (Or.inr (Or.inr rfl))) cr s1 l1 le Mf base blen
    bf d sp hsrc hdb hbase hsp (n % 2 / 1) (n % 2) t3 _ (so + (8 * (n / 8) + 4 * (n % 8 / 4) + 2 * (n % 4 / 2)))
    (doff + (8 * (n / 8) + 4 * (n % 8 / 4) + 2 * (n % 4 / 2))) rfl hG3
    (by rw [spliceAt_length _ _ _ (by rw [List.length_take, List.length_drop, hb]; omega)]; exact hb) m3 gl3 (by omega)
    (by rw [gs3]; omega) (by rw [gd3]; omega) (by omega) (by omega)
  rw [spliceAt_take2 b d doff so _ _ (by rw [hb]; omega) (by omega)] at m4
  have etot : 8 * (n / 8) + 4 * (n % 8 / 4) + 2 * (n % 4 / 2) + 1 * (n % 2 / 1) = n := by omega
  rw [etot] at m4
  exact ⟨t4, (8 * (n / 8) + 2) + (8 * (n % 8 / 4) + 2) + (8 * (n % 4 / 2) + 2) + (8 * (n % 2 / 1) + 2), by omega,
    (((r1.trans r2).trans r3).trans r4).cast rfl rfl, m4, ((k1.trans k2).trans k3).trans k4⟩

def cpR : Routine := Gen.ListAmd64Helper.copyAsm.map decodeD
theorem known_cp : Gen.ListAmd64Helper.copyAsm_chunks.all (fun c => c.all known) = true := by decide +kernel
theorem cpR_ok : Routine.ofListing Gen.ListAmd64Helper.copyAsm = .ok cpR := ofListing_chunks _ known_cp

def cpArgsCode : List DInstr :=
  [ins .MOVQ [.frame "dst" 8, G 7] 0, ins .MOVQ [.frame "src" 16, G 6] 0, ins .MOVQ [.frame "len" 24, G 0] 0]

def cpCode : List DInstr :=
  cpArgsCode ++ ((stageCode 8 7 6 0 3 41 15 ++ (stageCode 4 7 6 0 3 65 41 ++ (stageCode 2 7 6 0 3 91 65 ++ stageCode 1 7 6 0 3 115 91)))
    ++ [ins .RET [] 0])

/-- **the regenerated listing of `copyAsm` is: three argument loads, the four copy stages (8, 4, 2, 1 bytes), RET** -/
theorem cp_scheme : cpR.map erasePc = cpCode :=
  eqChunks_sound _ _ (by decide +kernel : eqChunks Gen.ListAmd64Helper.copyAsm_chunks cpCode = true)

theorem cp_labels : labelsOk cpR [("by8", 3, 15), ("by4", 11, 41), ("by2", 19, 65), ("by1", 27, 91), ("done", 35, 115)] = true := by
  decide +kernel

theorem cr_helper : CopyRegs 7 6 0 3 := ⟨by decide, by decide, by decide, by decide, by decide, by decide, by decide, by decide, by decide, by decide⟩

/-- the memory of `copyState` as a family over the contents of the destination array -/
def cpMem (sbuf : List Nat) (b : List Nat) : List Region := hmem [⟨"dst", b, true⟩, ⟨"src", sbuf, false⟩]

theorem cpMem_buf (sbuf : List Nat) (blen : Nat) (hbl : blen < 2 ^ 32) : Buf (cpMem sbuf) 73014444032 blen := by
  refine ⟨fun b off n hb hn => ?_, fun b off bs hb hn => ?_⟩
  · exact hmem_read _ 0 ⟨"dst", b, true⟩ rfl off n (by simp only; omega) (by omega)
  · exact hmem_write _ 0 ⟨"dst", b, true⟩ rfl rfl off bs (by simp only; omega) (by omega)

theorem cpMem_src (sbuf b : List Nat) (hsl : sbuf.length < 2 ^ 32) : DataAt (cpMem sbuf b) 77309411328 sbuf :=
  fun off n hn => hmem_read _ 1 ⟨"src", sbuf, false⟩ rfl off n hn (by omega)

theorem copyState_mem (g v k dbuf sbuf : List Nat) (doff soff n : Nat) :
    (copyState g v k dbuf sbuf doff soff n).mem = cpMem sbuf dbuf := rfl

set_option maxRecDepth 100000 in
/-- **`copyAsm(&dbuf[doff], &sbuf[soff], n)`, two separate arrays**: the run returns; `dbuf[doff : doff+n) := sbuf[soff : soff+n)`,
    every other byte of `dbuf` and all of `sbuf` keep their values -/
theorem copyAsm_run (g v k dbuf sbuf : List Nat) (doff soff n : Nat) (hG : g.length = 16)
    (hdl : dbuf.length < 2 ^ 32) (hsl : sbuf.length < 2 ^ 32) (hd : doff + n ≤ dbuf.length) (hs : soff + n ≤ sbuf.length)
    (hsb : ∀ x ∈ sbuf, x < 2 ^ 8) (fuel : Nat) (hfuel : n + 50 < fuel) :
    ∃ s', run Gen.ListAmd64Helper.copyAsm fuel (copyState g v k dbuf sbuf doff soff n) = .ok s' ∧
      regionBytes s' "dst" = some (spliceAt dbuf doff ((sbuf.drop soff).take n)) ∧ regionBytes s' "src" = some sbuf := by
  have hw := Slice.whole cp_scheme
  have sA : Slice cpR 0 cpArgsCode := hw.left
  have sB := hw.right.left
  have sR : Slice cpR (0 + 3 + 32) (ins .RET [] 0 :: []) := hw.right.right
  obtain ⟨s0, hs0⟩ : ∃ s0, s0 = copyState g v k dbuf sbuf doff soff n := ⟨_, rfl⟩
  have hG0 : s0.gpr.length = 16 := by rw [hs0]; exact hG
  have fD : lookup s0.frame "dst" = some (73014444032 + doff) := by rw [hs0]; simp [copyState, mkState, lookup]; rfl
  have fS : lookup s0.frame "src" = some (77309411328 + soff) := by rw [hs0]; simp [copyState, mkState, lookup]; rfl
  have fL : lookup s0.frame "len" = some n := by rw [hs0]; simp [copyState, mkState, lookup]
  let a1 := setGreg s0 7 (73014444032 + doff)
  let a2 := setGreg a1 6 (77309411328 + soff)
  let a3 := setGreg a2 0 n
  have hG3 : a3.gpr.length = 16 := by simp [a3, a2, a1, hG0]
  have hxA : execList cpArgsCode s0 = .ok a3 := by
    apply exec_step (a_movq_frame s0 "dst" 8 7 _ fD (by rw [hG0]; decide))
    apply exec_step (a_movq_frame a1 "src" 16 6 _ fS (by simp [a1, hG0]))
    apply exec_step (a_movq_frame a2 "len" 24 0 _ fL (by simp [a2, a1, hG0]))
    rfl
  have rA : Reach cpR 0 s0 (0 + 3) a3 3 := reach_seg sA (by rfl) hxA
  have e30 : greg a3 0 = n := greg_setGreg_eq a2 0 _ (by simp [a2, a1, hG0])
  have e36 : greg a3 6 = 77309411328 + soff := by
    show greg (setGreg a2 0 _) 6 = _
    rw [greg_setGreg_ne a2 0 _ 6 (by decide)]; exact greg_setGreg_eq a1 6 _ (by simp [a1, hG0])
  have e37 : greg a3 7 = 73014444032 + doff := by
    show greg (setGreg a2 0 _) 7 = _
    rw [greg_setGreg_ne a2 0 _ 7 (by decide)]; show greg (setGreg a1 6 _) 7 = _
    rw [greg_setGreg_ne a1 6 _ 7 (by decide)]; exact greg_setGreg_eq s0 7 _ (by rw [hG0]; decide)
  obtain ⟨s', N, hN, rB, hm', _⟩ := copy4_reach cpR (0 + 3) 7 6 0 3 15 41 65 91 115 cr_helper sB
    (label_findPc cp_labels (name := "by8") (by decide)) (label_findPc cp_labels (name := "by4") (by decide))
    (label_findPc cp_labels (name := "by2") (by decide)) (label_findPc cp_labels (name := "by1") (by decide))
    (label_findPc cp_labels (name := "done") (by decide)) (cpMem sbuf) 73014444032 dbuf.length (cpMem_buf sbuf _ hdl)
    sbuf 77309411328 (fun b _ => cpMem_src sbuf b hsl) hsb (by omega) (by omega) n a3 dbuf soff doff hG3 rfl
    (by show s0.mem = _; rw [hs0]; rfl) e30 (by omega) e36 e37 hs hd
  have hrun := run_of_reach (rA.trans rB) sR fuel (by omega)
  refine ⟨s', ?_, ?_, ?_⟩
  · unfold run
    rw [cpR_ok]
    simp only [bind, Except.bind]
    rw [← hs0]; exact hrun
  · rw [hmem_region _ "dst" (by decide) s' hm']; rfl
  · rw [hmem_region _ "src" (by decide) s' hm']; rfl

end SMGo.Proofs.ISAVal
#print axioms SMGo.Proofs.ISAVal.copyAsm_run
