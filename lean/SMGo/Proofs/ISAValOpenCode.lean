import SMGo.Proofs.ISAValSealFinal
import SMGo.Proofs.ISAValOpenPrefix12
set_option linter.unusedSimpArgs false
namespace SMGo.Proofs.ISAVal
open SMGo.Model.ISAVal SMGo.Model.GCM SMGo.Proofs.GCM SMGo.Proofs.ISATouch
open SMGo.Model.ISA (Reg Opd Instr)

def openArgs1Code : List DInstr :=
  [ins .MOVQ [.frame "cipher" 56, G 10] 0, ins .MOVQ [.frame "cipherLen" 64, G 9] 0, ins .MOVQ [.frame "tagSize" 16, G 14] 0,
   ins .SUBQ [G 14, G 9] 0, ins .MOVQ [.frame "tmp" 104, G 6] 0]
def sMidHeadCode : List DInstr :=
  [ins .MOVQ [G 9, G 12] 0, ins .MOVQ [G 9, G 11] 0, ins .ANDQ [.imm 15, G 11] 0, ins .SHRQ [.imm 4, G 12] 0,
   ins .CMPQ [G 9, .imm 16] 0, ins .JLT [.target 9314] 0]
def openPostArgsCode : List DInstr :=
  [ins .MOVQ [.frame "aLen" 88, G 7] 0, ins .MOVQ [.frame "cipherLen" 64, G 9] 0, ins .MOVQ [.frame "tagSize" 16, G 14] 0,
   ins .SUBQ [G 14, G 9] 0, ins .MOVQ [.frame "tmp" 104, G 6] 0, ins .MOVQ [G 6, G 0] 0, ins .ADDQ [.imm 16, G 0] 0]
def openCmpArgsCode : List DInstr :=
  [ins .MOVQ [.frame "tmp" 104, G 0] 0, ins .ADDQ [.imm 16, G 0] 0, ins .MOVQ [.frame "cipher" 56, G 10] 0,
   ins .MOVQ [.frame "cipherLen" 64, G 9] 0, ins .MOVQ [.frame "tagSize" 16, G 14] 0, ins .SUBQ [G 14, G 9] 0, ins .ADDQ [G 9, G 10] 0]
def openVerdictCode : List DInstr :=
  [ins .CMPQ [G 2, .imm 0] 0, ins .JNE [.target 32891] 0]
def openDecArgsCode : List DInstr :=
  [ins .MOVQ [.imm 1, .frame "ret1" 112] 0, ins .MOVQ [.frame "dst" 24, G 13] 0, ins .MOVQ [.frame "cipher" 56, G 10] 0,
   ins .MOVQ [.frame "cipherLen" 64, G 9] 0, ins .MOVQ [.frame "tagSize" 16, G 14] 0, ins .SUBQ [G 14, G 9] 0,
   ins .MOVQ [.frame "tmp" 104, G 6] 0, ins .MOVQ [.imm 0, G 0] 0]
def openEndCode : List DInstr :=
  [ins .JMP [.target 32900] 0, ins .MOVQ [.imm 0, .frame "ret1" 112] 0, ins .RET [] 0]

theorem sMid_eq : sMidCode = sMidHeadCode ++ (ghLoopsCode 10 12 21 8913 9133 9314 ++ remCode 10 9626 9342 9368 9393 9420 9445) := by
  simp only [sMidCode, sMidHeadCode, remCode, jcc, List.append_assoc, List.cons_append, List.nil_append]

theorem open_eq : openCode = gcmPrefixCode ++ (openArgs1Code ++ (sMidCode ++ (openPostArgsCode ++ (sPostCode 0 9942 9968 9994 10022 10048 ++
    (openCmpArgsCode ++ (ctCmpCode ++ (openVerdictCode ++ (openDecArgsCode ++ (ladderCode 10247 ++ openEndCode))))))))) := by
  simp only [openCode, openArgs1Code, openPostArgsCode, openCmpArgsCode, openVerdictCode, openDecArgsCode, openEndCode, List.append_assoc,
    List.cons_append, List.nil_append]

theorem sMid_len : sMidCode.length = 142 := by
  rw [sMid_eq]; simp only [List.length_append, ghLoops_len, rem_len, sMidHeadCode, List.length_cons, List.length_nil]
theorem ctCmp_len : ctCmpCode.length = 35 := by decide +kernel

structure OpenSlices : Prop where
  args1 : Slice openR 1499 openArgs1Code
  head : Slice openR 1504 sMidHeadCode
  loops : Slice openR 1510 (ghLoopsCode 10 12 21 8913 9133 9314)
  rem : Slice openR 1578 (remCode 10 9626 9342 9368 9393 9420 9445)
  post : Slice openR 1646 openPostArgsCode
  sPost : Slice openR 1653 (sPostCode 0 9942 9968 9994 10022 10048)
  cmpArgs : Slice openR 1733 openCmpArgsCode
  cmp : Slice openR 1740 ctCmpCode
  verdict : Slice openR 1775 openVerdictCode
  decArgs : Slice openR 1777 openDecArgsCode
  lad : Slice openR 1785 (ladderCode 10247)
  fin : Slice openR 5556 openEndCode

theorem open_slices' : OpenSlices := by
  have h := Slice.whole open_scheme
  rw [open_eq] at h
  have h1 := h.right
  have h2 := h1.right
  have h3 := h2.right
  have h4 := h3.right
  have h5 := h4.right
  have h6 := h5.right
  have h7 := h6.right
  have h8 := h7.right
  have h9 := h8.right
  have h10 := h9.right
  simp only [gcmPrefix_len, sMid_len, sPost_len, ctCmp_len, ladder_len, openArgs1Code, openPostArgsCode, openCmpArgsCode, openVerdictCode,
    openDecArgsCode, List.length_cons, List.length_nil] at h1 h2 h3 h4 h5 h6 h7 h8 h9 h10
  have hm := h2.left
  rw [sMid_eq] at hm
  have hm2 := hm.right
  have hm3 := hm2.right
  simp only [sMidHeadCode, ghLoops_len, List.length_cons, List.length_nil] at hm2 hm3
  exact ⟨h1.left.cast (by omega) rfl, hm.left.cast (by omega) rfl, hm2.left.cast (by omega) rfl, hm3.cast (by omega) rfl,
    h3.left.cast (by omega) rfl, h4.left.cast (by omega) rfl, h5.left.cast (by omega) rfl, h6.left.cast (by omega) rfl,
    h7.left.cast (by omega) rfl, h8.left.cast (by omega) rfl, h9.left.cast (by omega) rfl, h10.cast (by omega) rfl⟩

end SMGo.Proofs.ISAVal
