/-
  `CurveFacts X`: what the protocol layer (sm2.go) needs to know about the layers below it
  (scalar multiplication schedules, point arithmetic and encodings, field arithmetic, SM3), stated
  against the integer-level standard `Spec.SM2`.  The protocol theorems (C01, C02, C03, C12, C13) are
  proved for any context satisfying these facts; the facts themselves are the content of C04, C14, C15,
  C16, C18 and are discharged for the regenerated instance `Model.SM2.ctx` in `SM2FactsInst.lean`.
  Core Lean only.
-/
import SMGo.Model.SM2Proto
import SMGo.Spec.SM2Proto
namespace SMGo.Proofs.SM2Facts
open SMGo SMGo.Model SMGo.Model.SM2

/-- a valid affine point of the specification: canonical coordinates on the curve, or infinity -/
def ValidPt : Spec.SM2.Point → Prop
  | none => True
  | some (x, y) => x < Spec.SM2.p ∧ y < Spec.SM2.p ∧ Spec.SM2.onCurve x y = true

def affX : Spec.SM2.Point → Nat
  | none => 0
  | some (x, _) => x

structure CurveFacts {α β : Type} (X : Ctx α β) where
  /-- "projective point `P` of the model represents the affine point `Q` of the standard" -/
  rep : Point.Pt α → Spec.SM2.Point → Prop
  rep_valid : ∀ P Q, rep P Q → ValidPt Q
  n_eq : X.n = Spec.SM2.n
  modulus_eq : X.C.F.modulus = Spec.SM2.p
  /-- C14 + C18 + C15: base-point multiplication -/
  baseMult : ∀ k : Bytes, k.length = 32 →
    ∃ P, scalarBaseMult X k = .ok P ∧ rep P (Spec.SM2.smul (Bytes.toNatBE k) Spec.SM2.G)
  baseMult_len : ∀ k : Bytes, k.length ≠ 32 → scalarBaseMult X k = .err
  /-- C14 + C18 + C15: double-scalar multiplication -/
  mixedMult : ∀ (g s : Bytes) (P : Point.Pt α) (Q : Spec.SM2.Point), g.length = 32 → s.length = 32 → rep P Q →
    ∃ R, Curve.scalarMixedMult (Curve.pointOps X.C) g P s X.first X.second = .ok R ∧
      rep R (Spec.SM2.add (Spec.SM2.smul (Bytes.toNatBE g) Spec.SM2.G) (Spec.SM2.smul (Bytes.toNatBE s) Q))
  /-- C15: affine conversions and encodings -/
  affineX : ∀ P Q, rep P Q → Point.getAffineXUnsafe X.C P = affX Q
  bytesUnsafe : ∀ P Q, rep P Q → Point.bytes X.C P false = Spec.SM2.pointBytes Q
  /-- the constant-time variants (Fermat inversion), used on secret-dependent points by SignHashed,
      DerivePublic and GenerateKey; the `_Unsafe` ones above remain in VerifyHashed -/
  affineXSafe : ∀ P Q, rep P Q → Point.getAffineX X.C P = affX Q
  bytesSafe : ∀ P Q, rep P Q → Point.bytes X.C P true = Spec.SM2.pointBytes Q
  setBytes : ∀ b : Bytes,
    match Spec.SM2.parsePoint b with
    | some Q => ∃ P, Point.setBytes X.C b = .ok P ∧ rep P Q
    | none => Point.setBytes X.C b = .err
  /-- C16: coordinate-field decoding and the curve equation (CheckOnCurve) -/
  fieldSetBytes : ∀ v : Bytes,
    (v.length = 32 ∧ Bytes.toNatBE v < Spec.SM2.p → ∃ e, Field.setBytes X.C.F v = .ok e) ∧
    (¬ (v.length = 32 ∧ Bytes.toNatBE v < Spec.SM2.p) → Field.setBytes X.C.F v = .err)
  checkOnCurve : ∀ (x y : Bytes) (xe ye : α), Field.setBytes X.C.F x = .ok xe → Field.setBytes X.C.F y = .ok ye →
    Point.checkOnCurve X.C xe ye = Spec.SM2.onCurve (Bytes.toNatBE x) (Bytes.toNatBE y)
  /-- C16: scalar-field decoding and inversion: for 1 ≤ v < n the inverse of v mod n comes out as an integer -/
  scalarInv : ∀ v : Nat, 1 ≤ v → v < Spec.SM2.n →
    ∃ e, Field.scalarSetBytes X.S (Bytes.ofNatBE 32 v) = .ok e ∧
      Field.toNat X.S (Field.invert X.S e) = Spec.SM2.invMod v Spec.SM2.n
  /-- C04: the SM3 instance hashes like the standard -/
  zBytes_eq : X.zBytes = Bytes.ofNatBE 32 Spec.SM2.a ++ Bytes.ofNatBE 32 Spec.SM2.b ++ Bytes.ofNatBE 32 Spec.SM2.Gx ++ Bytes.ofNatBE 32 Spec.SM2.Gy
  sm3 : ∀ ops, Model.SM3.run X.tt ops = Spec.SM3.runHistory ops

end SMGo.Proofs.SM2Facts
