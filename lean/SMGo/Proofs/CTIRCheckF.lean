/-
  C08: the CT-IR label checker (SMGo/Model/CTIR.lean) evaluated by the kernel on the generated program
  (SMGo/Gen/CTIRProg.lean), part F (the signing, key generation and key derivation entry points).  `check (slice prog f) sigs f = true` says: every function reachable
  from `f` respects its label signature (no secret reaches a branch or loop condition, an index, a slice
  bound, an allocation size, a shift count or a leaking external call; declassification only at the
  sites listed in its signature).  By `check_sound` (SMGo/Proofs/CTIRSound.lean) two runs of `f` on inputs
  that agree on the public parameters then leak the same trace, up to the declassified verdicts.
-/
import SMGo.Gen.CTIRProg
open SMGo.Model.CTIR SMGo.Gen.CTIRProg
set_option maxRecDepth 1000000
namespace SMGo.Proofs.CTIRCheck

/-! the entry points (after the repairs 9cead3d, 233fd1f, 9a85a34 of the sources): every function along
    which a secret flows from signing, key generation and key derivation passes -/
theorem ct_DerivePublic : check (slice prog f_sm2_DerivePublic) sigs f_sm2_DerivePublic = true := by decide +kernel
theorem ct_GenerateKey : check (slice prog f_sm2_GenerateKey) sigs f_sm2_GenerateKey = true := by decide +kernel
theorem ct_SignHashed : check (slice prog f_sm2_SignHashed) sigs f_sm2_SignHashed = true := by decide +kernel
theorem ct_ensure32Bytes : check (slice prog f_sm2_ensure32Bytes) sigs f_sm2_ensure32Bytes = true := by decide +kernel

end SMGo.Proofs.CTIRCheck
