import SMGo.Proofs.ISAValWideMem
import SMGo.Proofs.ISAValSpec
import SMGo.Proofs.ISAValRoundL
namespace SMGo.Proofs.ISAVal
open SMGo.Model.ISAVal SMGo.Model.ISA

/-- the big-endian word at byte offset `o` of a byte string, as a number -/
def wordAt (src : List Nat) (o : Nat) : Nat := bswap32 (unlanes 8 ((src.drop o).take 4))

/-- the block that dword lane `j` of the state registers works on (after the 4×4 transposition) -/
def blockOf (vl j : Nat) : Nat := (vl / 16) * (j % 4) + j / 4

/-- the four words of that block -/
def X0w (vl : Nat) (src : List Nat) (j : Nat) : Nat × Nat × Nat × Nat :=
  (wordAt src (16 * blockOf vl j), wordAt src (16 * blockOf vl j + 4), wordAt src (16 * blockOf vl j + 8),
   wordAt src (16 * blockOf vl j + 12))

/-- the first 13 instructions of the wide prologue -/
def wglueCode (vl : Nat) : List DInstr := (wproCode vl).take 13

structure WGluePost (vl : Nat) (rk dst0 src : List Nat) (s : State) : Prop where
  lenG : s.gpr.length = 16
  lenV : s.vec.length = 32
  hmem : s.mem = kmem rk dst0 src
  hsyms : s.syms = symTab
  hframe : s.frame = frameTab
  g0 : greg s 0 = 73014444032
  g3 : greg s 3 = 77309411328
  v6 : vreg s 6 = unlanes 8 ((src.drop 0).take vl)
  v7 : vreg s 7 = unlanes 8 ((src.drop vl).take vl)
  v8 : vreg s 8 = unlanes 8 ((src.drop (2 * vl)).take vl)
  v9 : vreg s 9 = unlanes 8 ((src.drop (3 * vl)).take vl)
  v10 : vreg s 10 = PREvl vl
  v11 : vreg s 11 = POSTvl vl
  v12 : vreg s 12 = SHUFvl vl

set_option maxRecDepth 100000 in
set_option maxHeartbeats 2000000 in
theorem wglue_spec (vl : Nat) (hvl : vl = 16 ∨ vl = 32 ∨ vl = 64) (g v k rk dst0 src : List Nat)
    (hG : g.length = 16) (hV : v.length = 32) (hsrc : src.length = 4 * vl) :
    ∃ s', execList (wglueCode vl) (kernelState g v k rk dst0 src) = .ok s' ∧ WGluePost vl rk dst0 src s' := by
  obtain ⟨a0, a1, a2, a3, a4, a5, a6, a7, a8, a9, a10, a11, a12, a13, a14, a15, rfl⟩ := list16 g hG
  obtain ⟨b0, b1, b2, b3, b4, b5, b6, b7, b8, b9, b10, b11, b12, b13, b14, b15, b16, b17, b18, b19, b20, b21, b22, b23, b24, b25, b26, b27, b28, b29, b30, b31, rfl⟩ := list32 v hV
  show ∃ s', execList (wglueCode vl)
      ⟨[a0, a1, a2, a3, a4, a5, a6, a7, a8, a9, a10, a11, a12, a13, a14, a15],
       [b0, b1, b2, b3, b4, b5, b6, b7, b8, b9, b10, b11, b12, b13, b14, b15, b16, b17, b18, b19, b20, b21, b22, b23, b24, b25, b26, b27, b28, b29, b30, b31],
       k, ⟨none, none, none, none⟩, kmem rk dst0 src, symTab, frameTab⟩ = .ok s' ∧ _
  have rS : readMem (kmem rk dst0 src) ((4294967296 + 0 + imm64 0) % 2 ^ 64) 16 = .ok Gen.AsmData.amd64_Shuffle := kmem_read_shuffle ..
  have rPre : readMem (kmem rk dst0 src) ((8589934592 + 0 + imm64 0) % 2 ^ 64) 8 = .ok Gen.AsmData.amd64_PreAffineMatrix := kmem_read_pre ..
  have rPost : readMem (kmem rk dst0 src) ((12884901888 + 0 + imm64 0) % 2 ^ 64) 8 = .ok Gen.AsmData.amd64_PostAffineMatrix := kmem_read_post ..
  have r0 : readMem (kmem rk dst0 src) ((81604378624 + 0 + imm64 0) % 2 ^ 64) vl = .ok ((src.drop 0).take vl) := by
    have := kmem_read_src rk dst0 src 0 vl (by omega) (by decide)
    rw [show (81604378624 + 0 + imm64 0) % 2 ^ 64 = 81604378624 + 0 from by decide +kernel]; exact this
  have r1 : readMem (kmem rk dst0 src) ((81604378624 + 0 + imm64 (vl : Nat)) % 2 ^ 64) vl = .ok ((src.drop vl).take vl) := by
    rw [ea_lit _ _ (by omega)]; exact kmem_read_src rk dst0 src vl vl (by omega) (by omega)
  have r2 : readMem (kmem rk dst0 src) ((81604378624 + 0 + imm64 ((2 * vl : Nat))) % 2 ^ 64) vl = .ok ((src.drop (2 * vl)).take vl) := by
    rw [ea_lit _ _ (by omega)]; exact kmem_read_src rk dst0 src (2 * vl) vl (by omega) (by omega)
  have r3 : readMem (kmem rk dst0 src) ((81604378624 + 0 + imm64 ((3 * vl : Nat))) % 2 ^ 64) vl = .ok ((src.drop (3 * vl)).take vl) := by
    rw [ea_lit _ _ (by omega)]; exact kmem_read_src rk dst0 src (3 * vl) vl (by omega) (by omega)
  rcases hvl with rfl | rfl | rfl
  all_goals
    apply Exists.intro
    apply And.intro
    · simp only [wglueCode, wproCode, List.cons_append, List.take_succ_cons, List.take_zero, if_true, Nat.reduceEqDiff, if_false]
      apply exec_step
      · exact execD_leaq (hs := symTab_shuffle) (hd := by simp) ..
      apply exec_step
      · first
        | exact execD_vmov_load (hvl := by rfl) (hb := by rfl) (hd := by simp) (hload := rS) ..
        | exact execD_broadcast_x4 (hvl := by rfl) (hb := by rfl) (hd := by simp) (hload := rS) ..
      apply exec_step
      · exact execD_movq_frame (hs := frame_src) (hd := by simp) ..
      apply exec_step
      · exact execD_vmov_load (hvl := by rfl) (hb := by rfl) (hd := by simp) (hload := r0) ..
      apply exec_step
      · exact execD_vmov_load (hvl := by rfl) (hb := by rfl) (hd := by simp) (hload := r1) ..
      apply exec_step
      · exact execD_vmov_load (hvl := by rfl) (hb := by rfl) (hd := by simp) (hload := r2) ..
      apply exec_step
      · exact execD_vmov_load (hvl := by rfl) (hb := by rfl) (hd := by simp) (hload := r3) ..
      apply exec_step
      · exact execD_leaq (hs := symTab_pre) (hd := by simp) ..
      apply exec_step
      · exact execD_leaq (hs := symTab_post) (hd := by simp) ..
      apply exec_step
      · exact execD_broadcast_x2 (hvl := by rfl) (hb := by rfl) (hd := by simp) (hload := rPre) ..
      apply exec_step
      · exact execD_broadcast_x2 (hvl := by rfl) (hb := by rfl) (hd := by simp) (hload := rPost) ..
      apply exec_step
      · exact execD_movq_frame (hs := frame_rk) (hd := by simp) ..
      apply exec_step
      · exact execD_movq_frame (hs := frame_dst) (hd := by simp) ..
      exact execList_nil _
    · simp only [List.set_cons_succ, List.set_cons_zero]
      exact ⟨rfl, rfl, rfl, rfl, rfl, rfl, rfl, rfl, rfl, rfl, rfl, rfl, rfl, by first | rfl | exact shufvl_16.symm⟩


theorem wpro_split (vl : Nat) : wproCode vl = wglueCode vl ++ (rev4Code vl ++ transposeCode vl 6 7 8 9) := by
  unfold wglueCode wproCode
  rw [List.append_assoc, List.take_left' (by rfl)]

theorem wframe_greg {s s' : State} (h : WFrame s s') (i : Nat) : greg s' i = greg s i := by
  unfold greg; rw [h.gpr]

theorem drop_take_sub (src : List Nat) (a vl t : Nat) (h : 4 * t + 4 ≤ vl) :
    (((src.drop a).take vl).drop (4 * t)).take 4 = (src.drop (a + 4 * t)).take 4 := by
  rw [List.drop_take, List.take_take, List.drop_drop, Nat.min_eq_left (by omega)]

/-- dword `t` of a loaded vector -/
theorem lane32_loaded (src : List Nat) (hsb : ∀ x ∈ src, x < 2 ^ 8) (a vl t : Nat) (h : 4 * t + 4 ≤ vl) (hl : a + vl ≤ src.length) :
    lane 32 t (unlanes 8 ((src.drop a).take vl)) = unlanes 8 ((src.drop (a + 4 * t)).take 4) := by
  rw [laneJ_unlanes 32 8 4 t (by rfl) _ (fun x hx => hsb x (List.mem_of_mem_drop (List.mem_of_mem_take hx)))
    (by simp; omega), drop_take_sub _ _ _ _ h]

theorem blockOf_off (vl : Nat) (h16 : vl % 16 = 0) (l m : Nat) (hm : m < 4) : 16 * blockOf vl (4 * l + m) = m * vl + 16 * l := by
  unfold blockOf
  have e1 : (4 * l + m) % 4 = m := by omega
  have e2 : (4 * l + m) / 4 = l := by omega
  rw [e1, e2, Nat.mul_add, ← Nat.mul_assoc]
  have : 16 * (vl / 16) = vl := by omega
  rw [this, Nat.mul_comm]

/-- **the prologue of the wide kernels**: from the entry state, lane `j` of the four state registers holds the four
    big-endian words of block `blockOf vl j` of the source -/
theorem wpro_spec (vl : Nat) (hvl : validVl vl = true) (g v k rk dst0 src : List Nat)
    (hG : g.length = 16) (hV : v.length = 32) (hsrc : src.length = 4 * vl) (hsb : ∀ x ∈ src, x < 2 ^ 8) :
    ∃ s', execList (wproCode vl) (kernelState g v k rk dst0 src) = .ok s' ∧
      ReadyL vl (kmem rk dst0 src) symTab frameTab 73014444032 77309411328 (SHUFvl vl) 0 (X0w vl src) s' := by
  have hvl' : vl = 16 ∨ vl = 32 ∨ vl = 64 := by
    simpa only [validVl, Bool.or_eq_true, beq_iff_eq, or_assoc] using hvl
  have h16 : vl % 16 = 0 := by omega
  obtain ⟨s1, hrun1, p1⟩ := wglue_spec vl hvl' g v k rk dst0 src hG hV hsrc
  obtain ⟨s2, hrun2, f2, r2⟩ := rev4_spec vl hvl s1 p1.lenV p1.v12
  obtain ⟨s3, hrun3, f3, t3⟩ := transpose_spec vl 6 7 8 9 hvl (Or.inl ⟨rfl, rfl, rfl, rfl⟩) s2 f2.lenV
  refine ⟨s3, ?_, ?_⟩
  · rw [wpro_split]; exact execList_append_ok hrun1 (execList_append_ok hrun2 hrun3)
  -- dword 4l+k of the register m before the transposition
  have hw : ∀ (m : Nat) (R : Nat), R ∈ [6, 7, 8, 9] → vreg s1 R = unlanes 8 ((src.drop (m * vl)).take vl) → m < 4 →
      ∀ l k', l < vl / 16 → k' < 4 → lane 32 (4 * l + k') (vreg s2 R) = wordAt src (16 * blockOf vl (4 * l + m) + 4 * k') := by
    intro m R hR hv hm l k' hl hk
    have hb : m * vl + vl ≤ src.length := by
      have : (m + 1) * vl ≤ 4 * vl := Nat.mul_le_mul_right _ (by omega)
      rw [Nat.add_mul, Nat.one_mul] at this; rw [hsrc]; exact this
    rw [(r2 R hR).2 _ (by omega), hv, lane32_loaded src hsb _ _ _ (by omega) hb, blockOf_off vl h16 l m hm]
    unfold wordAt
    congr 4
    omega
  have h6 := hw 0 6 (by simp) (by rw [p1.v6, Nat.zero_mul]) (by decide)
  have h7 := hw 1 7 (by simp) (by rw [p1.v7, Nat.one_mul]) (by decide)
  have h8 := hw 2 8 (by simp) (by rw [p1.v8]) (by decide)
  have h9 := hw 3 9 (by simp) (by rw [p1.v9]) (by decide)
  have hj : ∀ j, j < vl / 4 → ∃ l m, j = 4 * l + m ∧ m < 4 ∧ l < vl / 16 := fun j hj => ⟨j / 4, j % 4, by omega, by omega, by omega⟩
  constructor
  · rw [f3.gpr, f2.gpr]; exact p1.lenG
  · exact f3.lenV
  · rw [f3.mem, f2.mem, p1.hmem]
  · rw [f3.syms, f2.syms, p1.hsyms]
  · rw [f3.frame, f2.frame, p1.hframe]
  · rw [wframe_greg f3, wframe_greg f2, p1.g0]
  · rw [wframe_greg f3, wframe_greg f2, p1.g3]
  · rw [f3.v10, f2.v10, p1.v10]
  · rw [f3.v11, f2.v11, p1.v11]
  · rw [f3.v12, f2.v12, p1.v12]
  · intro j hjl
    obtain ⟨l, m, rfl, hm, hl⟩ := hj j hjl
    have T := t3.tA l hl
    show lane 32 (4 * l + m) (vreg s3 6) = wordAt src (16 * blockOf vl (4 * l + m))
    have hm' : m = 0 ∨ m = 1 ∨ m = 2 ∨ m = 3 := by omega
    rcases hm' with rfl | rfl | rfl | rfl
    · exact T.1.trans (h6 l 0 hl (by decide))
    · exact T.2.1.trans (h7 l 0 hl (by decide))
    · exact T.2.2.1.trans (h8 l 0 hl (by decide))
    · exact T.2.2.2.trans (h9 l 0 hl (by decide))
  · intro j hjl
    obtain ⟨l, m, rfl, hm, hl⟩ := hj j hjl
    have T := t3.tB l hl
    show lane 32 (4 * l + m) (vreg s3 7) = wordAt src (16 * blockOf vl (4 * l + m) + 4)
    have hm' : m = 0 ∨ m = 1 ∨ m = 2 ∨ m = 3 := by omega
    rcases hm' with rfl | rfl | rfl | rfl
    · exact T.1.trans (h6 l 1 hl (by decide))
    · exact T.2.1.trans (h7 l 1 hl (by decide))
    · exact T.2.2.1.trans (h8 l 1 hl (by decide))
    · exact T.2.2.2.trans (h9 l 1 hl (by decide))
  · intro j hjl
    obtain ⟨l, m, rfl, hm, hl⟩ := hj j hjl
    have T := t3.tC l hl
    show lane 32 (4 * l + m) (vreg s3 8) = wordAt src (16 * blockOf vl (4 * l + m) + 8)
    have hm' : m = 0 ∨ m = 1 ∨ m = 2 ∨ m = 3 := by omega
    rcases hm' with rfl | rfl | rfl | rfl
    · exact T.1.trans (h6 l 2 hl (by decide))
    · exact T.2.1.trans (h7 l 2 hl (by decide))
    · exact T.2.2.1.trans (h8 l 2 hl (by decide))
    · exact T.2.2.2.trans (h9 l 2 hl (by decide))
  · intro j hjl
    obtain ⟨l, m, rfl, hm, hl⟩ := hj j hjl
    have T := t3.tD l hl
    show lane 32 (4 * l + m) (vreg s3 9) = wordAt src (16 * blockOf vl (4 * l + m) + 12)
    have hm' : m = 0 ∨ m = 1 ∨ m = 2 ∨ m = 3 := by omega
    rcases hm' with rfl | rfl | rfl | rfl
    · exact T.1.trans (h6 l 3 hl (by decide))
    · exact T.2.1.trans (h7 l 3 hl (by decide))
    · exact T.2.2.1.trans (h8 l 3 hl (by decide))
    · exact T.2.2.2.trans (h9 l 3 hl (by decide))

end SMGo.Proofs.ISAVal
