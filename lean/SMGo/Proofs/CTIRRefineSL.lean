/-
  Refinement by reflection for the STRAIGHT-LINE unsigned-integer fragment of the CT-IR (the Fiat primitives
  `sm2Mul`, `sm2Square`, `sm2Add`, …: assignments of scalars, stores into constant slots of an array, reads of
  constant slots, the word operations of `math/bits`, calls of the conditional move).

  `mE` / `mS` is a MIRROR evaluator on natural numbers: it walks the IR statement and builds, for every
  variable, the natural-number term that the generated let-chains of SMGo/Gen/FiatP.lean / FiatN.lean build
  (same formulas: `Model.FiatPrim.add64s`, `(a + b) % 18446744073709551616`, `18446744073709551615 - a`, …),
  together with a static bit width (8 or 64, …) that bounds the value.  `mS_sound` is the simulation theorem:
  whenever the mirror succeeds, the IR statement — run by the real interpreter `exec` with enough fuel —
  reaches the environment that encodes the mirror's environment (`EvIn`).  A per-function theorem is then one
  kernel conversion: `mRet … body = some [ar (Gen.FiatP.sm2Mul [a0,a1,a2,a3] [b0,b1,b2,b3]) 64]` by `rfl`.
-/
import SMGo.Proofs.CTIRRefine
import SMGo.Model.FiatPrim
open SMGo SMGo.Model.CTIR SMGo.Model.FiatPrim

namespace SMGo.Proofs.CTIRRefineSL

/-! ## Mirror values -/

/-- a scalar `v < 2^w`, or an array of unsigned integers `< 2^w` -/
inductive MVal where
  | sc (v w : Nat)
  | ar (l : List Nat) (w : Nat)

abbrev MEnv := Nat → MVal

def MEnv.set (ρ : MEnv) (x : Nat) (m : MVal) : MEnv := fun y => if y = x then m else ρ y

def MEnv.ofList (ms : List MVal) : MEnv := fun x => ms.getD x (.sc 0 8)

def natsV (l : List Nat) : Val := .arr (l.map (fun (x : Nat) => Val.int (x : Int)))

def MVal.toVal : MVal → Val
  | .sc v _ => .int (v : Int)
  | .ar l _ => natsV l

def MVal.wf : MVal → Prop
  | .sc v w => v < 2 ^ w ∧ w ≤ 64
  | .ar l w => (∀ x ∈ l, x < 2 ^ w) ∧ w ≤ 64

def Rel (ρ : MEnv) (env : Env) : Prop := ∀ x, env x = (ρ x).toVal ∧ (ρ x).wf

/-! ## Types of the fragment -/

def tyU : Ty → Bool
  | .u8 => true | .u16 => true | .u32 => true | .u64 => true | _ => false

def modT : Ty → Nat
  | .u8 => 256 | .u16 => 65536 | .u32 => 4294967296 | .u64 => 18446744073709551616 | _ => 1

def maxT : Ty → Nat
  | .u8 => 255 | .u16 => 65535 | .u32 => 4294967295 | .u64 => 18446744073709551615 | _ => 0

/-! ## The mirror evaluator -/

def mLit : Int → Option (Nat × Nat)
  | .ofNat k => if k < 256 then some (k, 8) else if k < 18446744073709551616 then some (k, 64) else none
  | .negSucc _ => none

/-- `x % 2^bits(t)` with the modulus written as the literal of the generated let-chains.  The mirror must build
    value terms that are SYNTACTICALLY those of SMGo/Gen/FiatP.lean (no `if`, no `modT t` inside a value):
    otherwise the kernel falls back to unfolding `add64s`, `&&&`, … on symbolic operands. -/
def modV (t : Ty) (x : Nat) : Option Nat :=
  match t with
  | .u8 => some (x % 256) | .u16 => some (x % 65536) | .u32 => some (x % 4294967296)
  | .u64 => some (x % 18446744073709551616) | _ => none

def notV (t : Ty) (x : Nat) : Option Nat :=
  match t with
  | .u8 => some (255 - x) | .u16 => some (65535 - x) | .u32 => some (4294967295 - x)
  | .u64 => some (18446744073709551615 - x) | _ => none

def subV (t : Ty) (a b : Nat) : Option Nat :=
  match t with
  | .u8 => some ((a + 256 - b) % 256) | .u16 => some ((a + 65536 - b) % 65536)
  | .u32 => some ((a + 4294967296 - b) % 4294967296)
  | .u64 => some ((a + 18446744073709551616 - b) % 18446744073709551616) | _ => none

def withW (w : Nat) : Option Nat → Option (Nat × Nat)
  | some v => some (v, w)
  | none => none

def mOp1 (o : Op1) (a wa : Nat) : Option (Nat × Nat) :=
  match o with
  | .conv t => if tyU t then (if t.bits < wa then withW t.bits (modV t a) else some (a, t.bits)) else none
  | .not t => if tyU t && decide (wa ≤ t.bits) then withW t.bits (notV t a) else none
  | .shlc t k => if tyU t then withW t.bits (modV t (a <<< k)) else none
  | .shrc k => some (a >>> k, wa)
  | _ => none

def mOp2 (o : Op2) (a wa b wb : Nat) : Option (Nat × Nat) :=
  match o with
  | .add t => if tyU t && decide (wa ≤ t.bits) && decide (wb ≤ t.bits) then withW t.bits (modV t (a + b)) else none
  | .sub t => if tyU t && decide (wa ≤ t.bits) && decide (wb ≤ t.bits) then withW t.bits (subV t a b) else none
  | .mul t => if tyU t && decide (wa ≤ t.bits) && decide (wb ≤ t.bits) then withW t.bits (modV t (a * b)) else none
  | .and t => if tyU t && decide (wa ≤ t.bits) && decide (wb ≤ t.bits) then some (a &&& b, t.bits) else none
  | .or t => if tyU t && decide (wa ≤ t.bits) && decide (wb ≤ t.bits) then some (a ||| b, t.bits) else none
  | .xor t => if tyU t && decide (wa ≤ t.bits) && decide (wb ≤ t.bits) then some (a ^^^ b, t.bits) else none
  | .mul64hi => some (mul64hi a b, 64)
  | .mul64lo => some (mul64lo a b, 64)
  | _ => none

def mOp3 (o : Op3) (a b c : Nat) : Option (Nat × Nat) :=
  match o with
  | .add64s => some (add64s a b c, 64)
  | .add64c => some (add64c a b c, 64)
  | .sub64d => some (sub64d a b c, 64)
  | .sub64b => some (sub64b a b c, 64)
  | _ => none

def mE (ρ : MEnv) : Expr → Option (Nat × Nat)
  | .lit n => mLit n
  | .var x => match ρ x with | .sc v w => some (v, w) | _ => none
  | .idxc a k =>
    match a with
    | .var x => match ρ x with
      | .ar l w => if k < l.length then some (l.getD k 0, w) else none
      | _ => none
    | _ => none
  | .op1 o a => match mE ρ a with | some (v, w) => mOp1 o v w | none => none
  | .op2 o a b =>
    match mE ρ a, mE ρ b with
    | some (va, wa), some (vb, wb) => mOp2 o va wa vb wb
    | _, _ => none
  | .op3 o a b c =>
    match mE ρ a, mE ρ b, mE ρ c with
    | some (va, _), some (vb, _), some (vc, _) => mOp3 o va vb vc
    | _, _, _ => none
  | _ => none

def mVars (ρ : MEnv) : List Expr → Option (List MVal)
  | [] => some []
  | .var x :: es => match mVars ρ es with | some ms => some (ρ x :: ms) | none => none
  | _ => none

/-- the conditional move of the program: its function number and what it computes -/
abbrev Cm := Option (Nat × (Nat → Nat → Nat → Nat))

def mCall (cm : Cm) (ρ : MEnv) (lhs : List Nat) (g : Nat) (args : List Expr) : Option (MEnv × Option (List MVal)) :=
  match cm with
  | none => none
  | some (gc, f) =>
    match lhs with
    | [x] =>
      match args with
      | [e0, e1, e2, e3] =>
        if g = gc then
          match mE ρ e0 with
          | none => none
          | some _ =>
            match mE ρ e1 with
            | none => none
            | some (v1, _) =>
              match mE ρ e2 with
              | none => none
              | some (v2, _) =>
                match mE ρ e3 with
                | none => none
                | some (v3, _) => some (ρ.set x (.sc (f v1 v2 v3) 64), none)
        else none
      | _ => none
    | _ => none

def mS (cm : Cm) (ρ : MEnv) : Stmt → Option (MEnv × Option (List MVal))
  | .skip => some (ρ, none)
  | .assign x p e =>
    match mE ρ e with
    | some (v, w) =>
      match p with
      | [] => some (ρ.set x (.sc v w), none)
      | [.c k] =>
        match ρ x with
        | .ar l aw => if k < l.length ∧ w ≤ aw then some (ρ.set x (.ar (l.set k v) aw), none) else none
        | _ => none
      | _ => none
    | none => none
  | .seq a b =>
    match mS cm ρ a with
    | some (ρ1, none) => mS cm ρ1 b
    | _ => none
  | .ret es => match mVars ρ es with | some ms => some (ρ, some ms) | none => none
  | .call lhs g args => mCall cm ρ lhs g args
  | _ => none

/-- what the function body returns, on mirror arguments -/
def mRet (cm : Cm) (args : List MVal) (s : Stmt) : Option (List MVal) :=
  match mS cm (MEnv.ofList args) s with
  | some (_, some r) => some r
  | _ => none

/-- fuel that suffices: one per statement, plus the callee's -/
def szS (Fc : Nat) : Stmt → Nat
  | .seq a b => szS Fc a + szS Fc b + 1
  | .call _ _ _ => Fc + 1
  | _ => 1

/-! ## Arithmetic bridges -/

theorem modT_eq {t : Ty} (h : tyU t = true) : modT t = 2 ^ t.bits := by
  cases t <;> first | rfl | (simp [tyU] at h)

theorem maxT_eq {t : Ty} (h : tyU t = true) : maxT t = 2 ^ t.bits - 1 := by
  cases t <;> first | rfl | (simp [tyU] at h)


theorem modV_eq {t : Ty} (h : tyU t = true) (x : Nat) : modV t x = some (x % modT t) := by
  cases t <;> first | rfl | (simp [tyU] at h)

theorem notV_eq {t : Ty} (h : tyU t = true) (x : Nat) : notV t x = some (maxT t - x) := by
  cases t <;> first | rfl | (simp [tyU] at h)

theorem subV_eq {t : Ty} (h : tyU t = true) (a b : Nat) : subV t a b = some ((a + modT t - b) % modT t) := by
  cases t <;> first | rfl | (simp [tyU] at h)

theorem bits_le {t : Ty} : t.bits ≤ 64 := by cases t <;> simp [Ty.bits]

theorem norm_nat {t : Ty} (h : tyU t = true) (n : Int) : norm t n = n % (modT t : Nat) := by
  cases t <;> first | rfl | (simp [tyU] at h)

theorem pat_nat {t : Ty} (n : Nat) : pat t (n : Int) = n % 2 ^ t.bits := by
  simp only [pat]
  rw [← Int.natCast_emod, Int.toNat_natCast]

theorem pow_le_pow64 {w : Nat} (h : w ≤ 64) : 2 ^ w ≤ 18446744073709551616 :=
  Nat.pow_le_pow_right (by decide) h

theorem lt_of_w {a wa b : Nat} (h : a < 2 ^ wa) (hw : wa ≤ b) : a < 2 ^ b :=
  Nat.lt_of_lt_of_le h (Nat.pow_le_pow_right (by decide) hw)

theorem mod_lt_pow {t : Ty} (h : tyU t = true) (n : Nat) : n % modT t < 2 ^ t.bits := by
  rw [modT_eq h]; exact Nat.mod_lt _ (Nat.two_pow_pos _)

theorem norm_cast_mod {t : Ty} (h : tyU t = true) (n : Nat) : norm t (n : Int) = ((n % modT t : Nat) : Int) := by
  rw [norm_nat h, Int.natCast_emod]

/-! ## Soundness of the operations -/

theorem mLit_sound {n : Int} {v w : Nat} (h : mLit n = some (v, w)) : n = (v : Int) ∧ v < 2 ^ w ∧ w ≤ 64 := by
  cases n with
  | ofNat k =>
    simp only [mLit] at h
    split at h
    · simp only [Option.some.injEq, Prod.mk.injEq] at h
      obtain ⟨rfl, rfl⟩ := h
      exact ⟨rfl, by omega, by omega⟩
    · split at h
      · simp only [Option.some.injEq, Prod.mk.injEq] at h
        obtain ⟨rfl, rfl⟩ := h
        exact ⟨rfl, by omega, by omega⟩
      · simp at h
  | negSucc k => simp [mLit] at h

theorem mOp1_sound {o : Op1} {a wa v w : Nat} (ha : a < 2 ^ wa) (hwa : wa ≤ 64) (h : mOp1 o a wa = some (v, w)) :
    evalOp1 o (a : Int) = (v : Int) ∧ v < 2 ^ w ∧ w ≤ 64 := by
  cases o with
  | conv t =>
    simp only [mOp1] at h
    split at h
    · rename_i ht
      simp only [evalOp1]
      split at h
      · simp only [modV_eq ht, withW, Option.some.injEq, Prod.mk.injEq] at h
        obtain ⟨rfl, rfl⟩ := h
        exact ⟨norm_cast_mod ht a, mod_lt_pow ht a, bits_le⟩
      · rename_i hlt
        simp only [Option.some.injEq, Prod.mk.injEq] at h
        obtain ⟨rfl, rfl⟩ := h
        have hb : a < 2 ^ t.bits := lt_of_w ha (by omega)
        refine ⟨?_, hb, bits_le⟩
        rw [norm_cast_mod ht, Nat.mod_eq_of_lt (by rw [modT_eq ht]; exact hb)]
    · simp at h
  | not t =>
    simp only [mOp1] at h
    split at h
    · rename_i ht
      simp only [Bool.and_eq_true, decide_eq_true_eq] at ht
      simp only [notV_eq ht.1, withW, Option.some.injEq, Prod.mk.injEq] at h
      obtain ⟨rfl, rfl⟩ := h
      have hb : a < 2 ^ t.bits := lt_of_w ha ht.2
      have hp : 0 < 2 ^ t.bits := Nat.two_pow_pos _
      simp only [evalOp1]
      rw [norm_nat ht.1, maxT_eq ht.1, modT_eq ht.1]
      refine ⟨?_, by omega, bits_le⟩
      generalize 2 ^ t.bits = M at hb hp
      have e : -(a : Int) - 1 = ((M - 1 - a : Nat) : Int) + (-1) * (M : Int) := by omega
      rw [e, Int.add_mul_emod_self_right, ← Int.natCast_emod, Nat.mod_eq_of_lt (by omega)]
    · simp at h
  | shlc t k =>
    simp only [mOp1] at h
    split at h
    · rename_i ht
      simp only [modV_eq ht, withW, Option.some.injEq, Prod.mk.injEq] at h
      obtain ⟨rfl, rfl⟩ := h
      simp only [evalOp1]
      refine ⟨?_, mod_lt_pow ht _, bits_le⟩
      rw [← Int.natCast_mul, norm_cast_mod ht, Nat.shiftLeft_eq]
    · simp at h
  | shrc k =>
    simp only [mOp1, Option.some.injEq, Prod.mk.injEq] at h
    obtain ⟨rfl, rfl⟩ := h
    simp only [evalOp1]
    refine ⟨rfl, ?_, hwa⟩
    rw [Nat.shiftRight_eq_div_pow]
    exact Nat.lt_of_le_of_lt (Nat.div_le_self _ _) ha
  | neg t => simp [mOp1] at h
  | lnot => simp [mOp1] at h

theorem guard3 {t : Ty} {wa wb : Nat}
    (h : (tyU t && decide (wa ≤ t.bits) && decide (wb ≤ t.bits)) = true) :
    tyU t = true ∧ wa ≤ t.bits ∧ wb ≤ t.bits := by
  simp only [Bool.and_eq_true, decide_eq_true_eq] at h
  exact ⟨h.1.1, h.1.2, h.2⟩

theorem bitop_sound {t : Ty} (ht : tyU t = true) {a b : Nat} (ha : a < 2 ^ t.bits) (hb : b < 2 ^ t.bits)
    (f : Nat → Nat → Nat) (hf : f a b < 2 ^ t.bits) :
    norm t ((f (pat t (a : Int)) (pat t (b : Int)) : Nat) : Int) = ((f a b : Nat) : Int) := by
  rw [pat_nat, pat_nat, Nat.mod_eq_of_lt ha, Nat.mod_eq_of_lt hb, norm_cast_mod ht,
    Nat.mod_eq_of_lt (by rw [modT_eq ht]; exact hf)]

theorem mOp2_sound {o : Op2} {a wa b wb v w : Nat} (ha : a < 2 ^ wa) (hb : b < 2 ^ wb)
    (hwa : wa ≤ 64) (hwb : wb ≤ 64) (h : mOp2 o a wa b wb = some (v, w)) :
    evalOp2 o (a : Int) (b : Int) = some (v : Int) ∧ v < 2 ^ w ∧ w ≤ 64 := by
  have h64a : a < 18446744073709551616 := Nat.lt_of_lt_of_le ha (pow_le_pow64 hwa)
  have h64b : b < 18446744073709551616 := Nat.lt_of_lt_of_le hb (pow_le_pow64 hwb)
  cases o with
  | add t =>
    simp only [mOp2] at h
    split at h
    · rename_i hg
      obtain ⟨ht, h1, h2⟩ := guard3 hg
      simp only [modV_eq ht, withW, Option.some.injEq, Prod.mk.injEq] at h
      obtain ⟨rfl, rfl⟩ := h
      simp only [evalOp2]
      refine ⟨?_, mod_lt_pow ht _, bits_le⟩
      rw [← Int.natCast_add, norm_cast_mod ht]
    · simp at h
  | sub t =>
    simp only [mOp2] at h
    split at h
    · rename_i hg
      obtain ⟨ht, h1, h2⟩ := guard3 hg
      simp only [subV_eq ht, withW, Option.some.injEq, Prod.mk.injEq] at h
      obtain ⟨rfl, rfl⟩ := h
      simp only [evalOp2]
      refine ⟨?_, mod_lt_pow ht _, bits_le⟩
      have hbm : b < modT t := by rw [modT_eq ht]; exact lt_of_w hb h2
      have e : (a : Int) - (b : Int) = ((a + modT t - b : Nat) : Int) + (-1) * ((modT t : Nat) : Int) := by omega
      rw [norm_nat ht, e, Int.add_mul_emod_self_right, ← Int.natCast_emod]
    · simp at h
  | mul t =>
    simp only [mOp2] at h
    split at h
    · rename_i hg
      obtain ⟨ht, h1, h2⟩ := guard3 hg
      simp only [modV_eq ht, withW, Option.some.injEq, Prod.mk.injEq] at h
      obtain ⟨rfl, rfl⟩ := h
      simp only [evalOp2]
      refine ⟨?_, mod_lt_pow ht _, bits_le⟩
      rw [← Int.natCast_mul, norm_cast_mod ht]
    · simp at h
  | and t =>
    simp only [mOp2] at h
    split at h
    · rename_i hg
      obtain ⟨ht, h1, h2⟩ := guard3 hg
      simp only [Option.some.injEq, Prod.mk.injEq] at h
      obtain ⟨rfl, rfl⟩ := h
      have hf : a &&& b < 2 ^ t.bits := Nat.and_lt_two_pow _ (lt_of_w hb h2)
      simp only [evalOp2]
      exact ⟨congrArg some (bitop_sound ht (lt_of_w ha h1) (lt_of_w hb h2) (· &&& ·) hf), hf, bits_le⟩
    · simp at h
  | or t =>
    simp only [mOp2] at h
    split at h
    · rename_i hg
      obtain ⟨ht, h1, h2⟩ := guard3 hg
      simp only [Option.some.injEq, Prod.mk.injEq] at h
      obtain ⟨rfl, rfl⟩ := h
      have hf : a ||| b < 2 ^ t.bits := Nat.or_lt_two_pow (lt_of_w ha h1) (lt_of_w hb h2)
      simp only [evalOp2]
      exact ⟨congrArg some (bitop_sound ht (lt_of_w ha h1) (lt_of_w hb h2) (· ||| ·) hf), hf, bits_le⟩
    · simp at h
  | xor t =>
    simp only [mOp2] at h
    split at h
    · rename_i hg
      obtain ⟨ht, h1, h2⟩ := guard3 hg
      simp only [Option.some.injEq, Prod.mk.injEq] at h
      obtain ⟨rfl, rfl⟩ := h
      have hf : a ^^^ b < 2 ^ t.bits := Nat.xor_lt_two_pow (lt_of_w ha h1) (lt_of_w hb h2)
      simp only [evalOp2]
      exact ⟨congrArg some (bitop_sound ht (lt_of_w ha h1) (lt_of_w hb h2) (· ^^^ ·) hf), hf, bits_le⟩
    · simp at h
  | mul64hi =>
    simp only [mOp2, Option.some.injEq, Prod.mk.injEq] at h
    obtain ⟨rfl, rfl⟩ := h
    simp only [evalOp2, mul64hi]
    refine ⟨?_, ?_, Nat.le_refl _⟩
    · rw [← Int.natCast_mul]; rfl
    · rw [Nat.div_lt_iff_lt_mul (by decide)]
      calc a * b < 18446744073709551616 * 18446744073709551616 := Nat.mul_lt_mul'' h64a h64b
        _ = 2 ^ 64 * 18446744073709551616 := rfl
  | mul64lo =>
    simp only [mOp2, Option.some.injEq, Prod.mk.injEq] at h
    obtain ⟨rfl, rfl⟩ := h
    simp only [evalOp2, mul64lo]
    refine ⟨?_, Nat.mod_lt _ (by decide), Nat.le_refl _⟩
    rw [← Int.natCast_mul]; rfl
  | shl t => simp [mOp2] at h
  | shr => simp [mOp2] at h
  | eq => simp [mOp2] at h
  | ne => simp [mOp2] at h
  | lt => simp [mOp2] at h
  | le => simp [mOp2] at h
  | gt => simp [mOp2] at h
  | ge => simp [mOp2] at h
  | land => simp [mOp2] at h
  | lor => simp [mOp2] at h
  | min => simp [mOp2] at h
  | cteq8 => simp [mOp2] at h

theorem mOp3_sound {o : Op3} {a b c v w : Nat} (ha : a < 18446744073709551616) (hb : b < 18446744073709551616)
    (hc : c < 18446744073709551616) (h : mOp3 o a b c = some (v, w)) :
    evalOp3 o (a : Int) (b : Int) (c : Int) = (v : Int) ∧ v < 2 ^ w ∧ w ≤ 64 := by
  cases o with
  | add64s =>
    simp only [mOp3, Option.some.injEq, Prod.mk.injEq] at h
    obtain ⟨rfl, rfl⟩ := h
    simp only [evalOp3, add64s]
    exact ⟨by omega, Nat.mod_lt _ (by decide), Nat.le_refl _⟩
  | add64c =>
    simp only [mOp3, Option.some.injEq, Prod.mk.injEq] at h
    obtain ⟨rfl, rfl⟩ := h
    simp only [evalOp3, add64c]
    refine ⟨by omega, ?_, Nat.le_refl _⟩
    show (a + b + c) / 18446744073709551616 < 18446744073709551616
    omega
  | sub64d =>
    simp only [mOp3, Option.some.injEq, Prod.mk.injEq] at h
    obtain ⟨rfl, rfl⟩ := h
    simp only [evalOp3, sub64d]
    exact ⟨by omega, Nat.mod_lt _ (by decide), Nat.le_refl _⟩
  | sub64b =>
    simp only [mOp3, Option.some.injEq, Prod.mk.injEq] at h
    obtain ⟨rfl, rfl⟩ := h
    simp only [evalOp3, sub64b]
    refine ⟨?_, ?_, Nat.le_refl _⟩
    · split <;> split <;> omega
    · split <;> decide
  | sub32d => simp [mOp3] at h
  | sub32b => simp [mOp3] at h

/-! ## Soundness of expressions -/

section Sound
variable {P : Prog} {G : Nat → Val} {X : Oracle}

theorem natsV_get {l : List Nat} {k : Nat} (h : k < l.length) :
    (l.map (fun (x : Nat) => Val.int (x : Int)))[k]? = some (.int ((l.getD k 0 : Nat) : Int)) := by
  rw [List.getElem?_map, List.getD_eq_getElem?_getD, List.getElem?_eq_getElem h]
  rfl

theorem getD_mem {l : List Nat} {k : Nat} (h : k < l.length) : l.getD k 0 ∈ l := by
  rw [List.getD_eq_getElem?_getD, List.getElem?_eq_getElem h]
  exact List.getElem_mem h

theorem mE_sound {ρ : MEnv} {env : Env} (hR : Rel ρ env) :
    ∀ (e : Expr) {v w : Nat}, mE ρ e = some (v, w) →
      evalV G env e = some (.int (v : Int)) ∧ v < 2 ^ w ∧ w ≤ 64 := by
  intro e
  induction e with
  | lit n =>
    intro v w h
    obtain ⟨rfl, h2, h3⟩ := mLit_sound (by simpa only [mE] using h)
    exact ⟨rfl, h2, h3⟩
  | var x =>
    intro v w h
    simp only [mE] at h
    have hx := hR x
    cases hρ : ρ x with
    | sc v' w' =>
      rw [hρ] at h hx
      simp only [Option.some.injEq, Prod.mk.injEq] at h
      obtain ⟨rfl, rfl⟩ := h
      exact ⟨by rw [evalV_var, hx.1]; rfl, hx.2.1, hx.2.2⟩
    | ar l w' => rw [hρ] at h; simp at h
  | idxc a k _ =>
    intro v w h
    cases a with
    | var x =>
      simp only [mE] at h
      have hx := hR x
      cases hρ : ρ x with
      | sc v' w' => rw [hρ] at h; simp at h
      | ar l w' =>
        rw [hρ] at h hx
        simp only at h
        split at h
        · rename_i hk
          simp only [Option.some.injEq, Prod.mk.injEq] at h
          obtain ⟨rfl, rfl⟩ := h
          refine ⟨?_, hx.2.1 _ (getD_mem hk), hx.2.2⟩
          rw [evalV_idxc, evalV_var, hx.1]
          simp only [MVal.toVal, natsV]
          exact natsV_get hk
        · simp at h
    | _ => simp [mE] at h
  | op1 o a ih =>
    intro v w h
    simp only [mE] at h
    cases ha : mE ρ a with
    | none => rw [ha] at h; simp at h
    | some p =>
      obtain ⟨va, wa⟩ := p
      rw [ha] at h
      simp only at h
      obtain ⟨h1, h2, h3⟩ := ih ha
      obtain ⟨g1, g2, g3⟩ := mOp1_sound h2 h3 h
      exact ⟨by rw [evalV_op1, h1]; simp only [g1], g2, g3⟩
  | op2 o a b iha ihb =>
    intro v w h
    simp only [mE] at h
    cases ha : mE ρ a with
    | none => rw [ha] at h; simp at h
    | some p =>
      obtain ⟨va, wa⟩ := p
      cases hb : mE ρ b with
      | none => rw [ha, hb] at h; simp at h
      | some q =>
        obtain ⟨vb, wb⟩ := q
        rw [ha, hb] at h
        simp only at h
        obtain ⟨h1, h2, h3⟩ := iha ha
        obtain ⟨k1, k2, k3⟩ := ihb hb
        obtain ⟨g1, g2, g3⟩ := mOp2_sound h2 k2 h3 k3 h
        exact ⟨by rw [evalV_op2, h1, k1]; simp only [g1, Option.map_some], g2, g3⟩
  | op3 o a b c iha ihb ihc =>
    intro v w h
    simp only [mE] at h
    cases ha : mE ρ a with
    | none => rw [ha] at h; simp at h
    | some p =>
      obtain ⟨va, wa⟩ := p
      cases hb : mE ρ b with
      | none => rw [ha, hb] at h; simp at h
      | some q =>
        obtain ⟨vb, wb⟩ := q
        cases hc : mE ρ c with
        | none => rw [ha, hb, hc] at h; simp at h
        | some r =>
          obtain ⟨vc, wc⟩ := r
          rw [ha, hb, hc] at h
          simp only at h
          obtain ⟨h1, h2, h3⟩ := iha ha
          obtain ⟨k1, k2, k3⟩ := ihb hb
          obtain ⟨l1, l2, l3⟩ := ihc hc
          obtain ⟨g1, g2, g3⟩ := mOp3_sound (Nat.lt_of_lt_of_le h2 (pow_le_pow64 h3))
            (Nat.lt_of_lt_of_le k2 (pow_le_pow64 k3)) (Nat.lt_of_lt_of_le l2 (pow_le_pow64 l3)) h
          exact ⟨by rw [evalV_op3, h1, k1, l1]; simp only [g1], g2, g3⟩
  | _ => intro v w h; simp [mE] at h

theorem mVars_sound {ρ : MEnv} {env : Env} (hR : Rel ρ env) :
    ∀ (es : List Expr) {ms : List MVal}, mVars ρ es = some ms → evalVs G env es = some (ms.map MVal.toVal) := by
  intro es
  induction es with
  | nil => intro ms h; simp only [mVars, Option.some.injEq] at h; subst h; rfl
  | cons e es ih =>
    intro ms h
    cases e with
    | var x =>
      simp only [mVars] at h
      cases hm : mVars ρ es with
      | none => rw [hm] at h; simp at h
      | some ms' =>
        rw [hm] at h
        simp only [Option.some.injEq] at h
        subst h
        rw [evalVs_cons, evalV_var, ih hm, (hR x).1]
        rfl
    | _ => simp [mVars] at h

/-! ## Soundness of statements -/

theorem Rel.set {ρ : MEnv} {env : Env} (hR : Rel ρ env) (x : Nat) (m : MVal) (hm : m.wf) :
    Rel (ρ.set x m) (env.set x m.toVal) := by
  intro y
  simp only [MEnv.set, Env.set]
  split
  · exact ⟨rfl, hm⟩
  · exact hR y

/-- the conditional move of the program computes `f` (on 64-bit words), within fuel `Fc` -/
def CmOk (P : Prog) (G : Nat → Val) (X : Oracle) (Fc : Nat) (cm : Cm) : Prop :=
  ∀ g f, cm = some (g, f) →
    ∃ fn, P[g]? = some fn ∧ fn.stub = false ∧ fn.nparams = 4 ∧
      ∀ o c x y : Nat, o < 18446744073709551616 → c < 18446744073709551616 → x < 18446744073709551616 →
        y < 18446744073709551616 →
        f c x y < 18446744073709551616 ∧
        ∃ envc, EvIn P G X Fc (Env.ofList [.int (o : Int), .int (c : Int), .int (x : Int), .int (y : Int)]) fn.body envc
          (.ret [.int ((f c x y : Nat) : Int)])

theorem CmOk.none {Fc : Nat} : CmOk P G X Fc none := by
  intro g f h; simp at h

def ctlOf : Option (List MVal) → Ctl
  | none => .norm
  | some ms => .ret (ms.map MVal.toVal)

theorem lt64 {v w : Nat} (h : v < 2 ^ w) (hw : w ≤ 64) : v < 18446744073709551616 :=
  Nat.lt_of_lt_of_le h (pow_le_pow64 hw)

theorem mS_sound {Fc : Nat} {cm : Cm} (hcm : CmOk P G X Fc cm) :
    ∀ (s : Stmt) {ρ ρ' : MEnv} {env : Env} {r : Option (List MVal)}, Rel ρ env → mS cm ρ s = some (ρ', r) →
      ∃ env', EvIn P G X (szS Fc s) env s env' (ctlOf r) ∧ Rel ρ' env' := by
  intro s
  induction s with
  | skip =>
    intro ρ ρ' env r hR h
    simp only [mS, Option.some.injEq, Prod.mk.injEq] at h
    obtain ⟨rfl, rfl⟩ := h
    refine ⟨env, ?_, hR⟩
    intro f hf; obtain ⟨f, rfl⟩ := Nat.exists_eq_add_of_le' hf
    simp only [szS] at hf
    rfl
  | assign x p e =>
    intro ρ ρ' env r hR h
    simp only [mS] at h
    cases he : mE ρ e with
    | none => rw [he] at h; simp at h
    | some q =>
      obtain ⟨v, w⟩ := q
      rw [he] at h
      simp only at h
      obtain ⟨e1, e2, e3⟩ := mE_sound (G := G) hR e he
      cases p with
      | nil =>
        simp only [Option.some.injEq, Prod.mk.injEq] at h
        obtain ⟨rfl, rfl⟩ := h
        exact ⟨env.set x (.int (v : Int)), EvIn.assign e1, hR.set x (.sc v w) ⟨e2, e3⟩⟩
      | cons pe ps =>
        cases pe with
        | c k =>
          cases ps with
          | nil =>
            simp only at h
            have hx := hR x
            cases hρ : ρ x with
            | sc v' w' => rw [hρ] at h; simp at h
            | ar l aw =>
              rw [hρ] at h hx
              simp only at h
              split at h
              · rename_i hk
                simp only [Option.some.injEq, Prod.mk.injEq] at h
                obtain ⟨rfl, rfl⟩ := h
                refine ⟨env.set x (MVal.ar (l.set k v) aw).toVal, ?_, hR.set x _ ⟨?_, hx.2.2⟩⟩
                · refine EvIn.assignPath (ks := [k]) e1 (by rw [pathV_c, pathV_nil]; rfl) ?_
                  rw [hx.1]
                  simp only [MVal.toVal, natsV, updPath]
                  rw [natsV_get hk.1]
                  simp only [List.map_set]
                · intro y hy
                  rcases List.mem_or_eq_of_mem_set hy with hy | rfl
                  · exact hx.2.1 y hy
                  · exact lt_of_w e2 hk.2
              · simp at h
          | cons _ _ => simp at h
        | e i => simp at h
  | seq a b iha ihb =>
    intro ρ ρ' env r hR h
    simp only [mS] at h
    cases ha : mS cm ρ a with
    | none => rw [ha] at h; simp at h
    | some q =>
      obtain ⟨ρ1, r1⟩ := q
      cases r1 with
      | some _ => rw [ha] at h; simp at h
      | none =>
        rw [ha] at h
        simp only at h
        obtain ⟨env1, h1, hR1⟩ := iha hR ha
        obtain ⟨env2, h2, hR2⟩ := ihb hR1 h
        exact ⟨env2, EvIn.seq h1 h2, hR2⟩
  | ret es =>
    intro ρ ρ' env r hR h
    simp only [mS] at h
    cases hm : mVars ρ es with
    | none => rw [hm] at h; simp at h
    | some ms =>
      rw [hm] at h
      simp only [Option.some.injEq, Prod.mk.injEq] at h
      obtain ⟨rfl, rfl⟩ := h
      exact ⟨env, EvIn.ret (mVars_sound (G := G) hR es hm), hR⟩
  | call lhs g args =>
    intro ρ ρ' env r hR h
    simp only [mS, mCall] at h
    cases cm with
    | none => simp at h
    | some gf =>
      obtain ⟨gc, f⟩ := gf
      simp only at h
      cases lhs with
      | nil => simp at h
      | cons x xs =>
        cases xs with
        | cons _ _ => simp at h
        | nil =>
          simp only at h
          cases args with
          | nil => simp at h
          | cons e0 as =>
          cases as with
          | nil => simp at h
          | cons e1 as =>
          cases as with
          | nil => simp at h
          | cons e2 as =>
          cases as with
          | nil => simp at h
          | cons e3 as =>
          cases as with
          | cons _ _ => simp at h
          | nil =>
          simp only at h
          split at h
          · rename_i hg
            subst hg
            cases h0 : mE ρ e0 with
            | none => rw [h0] at h; simp at h
            | some q0 =>
              rw [h0] at h
              simp only at h
              cases h1 : mE ρ e1 with
              | none => rw [h1] at h; simp at h
              | some q1 =>
                rw [h1] at h
                simp only at h
                cases h2 : mE ρ e2 with
                | none => rw [h2] at h; simp at h
                | some q2 =>
                  rw [h2] at h
                  simp only at h
                  cases h3 : mE ρ e3 with
                  | none => rw [h3] at h; simp at h
                  | some q3 =>
                    rw [h3] at h
                    obtain ⟨v0, w0⟩ := q0
                    obtain ⟨v1, w1⟩ := q1
                    obtain ⟨v2, w2⟩ := q2
                    obtain ⟨v3, w3⟩ := q3
                    simp only [Option.some.injEq, Prod.mk.injEq] at h
                    obtain ⟨rfl, rfl⟩ := h
                    obtain ⟨a0, b0, c0⟩ := mE_sound (G := G) hR e0 h0
                    obtain ⟨a1, b1, c1⟩ := mE_sound (G := G) hR e1 h1
                    obtain ⟨a2, b2, c2⟩ := mE_sound (G := G) hR e2 h2
                    obtain ⟨a3, b3, c3⟩ := mE_sound (G := G) hR e3 h3
                    obtain ⟨fn, hfn, hstub, hnp, hc⟩ := hcm g f rfl
                    obtain ⟨hlt, envc, hbody⟩ := hc v0 v1 v2 v3 (lt64 b0 c0) (lt64 b1 c1) (lt64 b2 c2) (lt64 b3 c3)
                    refine ⟨env.set x (.int ((f v1 v2 v3 : Nat) : Int)), ?_,
                      hR.set x (.sc (f v1 v2 v3) 64) ⟨hlt, Nat.le_refl _⟩⟩
                    refine EvIn.call (vs := [.int (v0 : Int), .int (v1 : Int), .int (v2 : Int), .int (v3 : Int)])
                      ?_ hfn hstub (by rw [hnp]; rfl) hbody rfl
                    rw [evalVs_cons, evalVs_cons, evalVs_cons, evalVs_cons, evalVs_nil, a0, a1, a2, a3]
          · simp at h
  | _ => intro ρ ρ' env r hR h; simp [mS] at h

/-! ## Whole function bodies -/

theorem Rel.ofList {ms : List MVal} (h : ∀ m ∈ ms, m.wf) : Rel (MEnv.ofList ms) (Env.ofList (ms.map MVal.toVal)) := by
  intro x
  simp only [MEnv.ofList, Env.ofList, List.getD_eq_getElem?_getD, List.getElem?_map]
  cases hx : ms[x]? with
  | none => exact ⟨rfl, by simp [MVal.wf]⟩
  | some m => exact ⟨rfl, h m (List.mem_of_getElem? hx)⟩

theorem mVars_wf {ρ : MEnv} {env : Env} (hR : Rel ρ env) :
    ∀ (es : List Expr) {ms : List MVal}, mVars ρ es = some ms → ∀ m ∈ ms, m.wf := by
  intro es
  induction es with
  | nil => intro ms h; simp only [mVars, Option.some.injEq] at h; subst h; intro m hm; simp at hm
  | cons e es ih =>
    intro ms h
    cases e with
    | var x =>
      simp only [mVars] at h
      cases hm : mVars ρ es with
      | none => rw [hm] at h; simp at h
      | some ms' =>
        rw [hm] at h
        simp only [Option.some.injEq] at h
        subst h
        intro m hmem
        rcases List.mem_cons.mp hmem with rfl | hmem
        · exact (hR x).2
        · exact ih hm m hmem
    | _ => simp [mVars] at h

/-- results of a mirror run are within their widths -/
theorem mS_wf {Fc : Nat} {cm : Cm} (hcm : CmOk P G X Fc cm) :
    ∀ (s : Stmt) {ρ ρ' : MEnv} {env : Env} {r : List MVal}, Rel ρ env → mS cm ρ s = some (ρ', some r) →
      ∀ m ∈ r, m.wf := by
  intro s
  induction s with
  | seq a b iha ihb =>
    intro ρ ρ' env r hR h
    simp only [mS] at h
    cases ha : mS cm ρ a with
    | none => rw [ha] at h; simp at h
    | some q =>
      obtain ⟨ρ1, r1⟩ := q
      cases r1 with
      | some _ => rw [ha] at h; simp at h
      | none =>
        rw [ha] at h
        simp only at h
        obtain ⟨env1, _, hR1⟩ := mS_sound hcm a hR ha
        exact ihb hR1 h
  | ret es =>
    intro ρ ρ' env r hR h
    simp only [mS] at h
    cases hm : mVars ρ es with
    | none => rw [hm] at h; simp at h
    | some ms =>
      rw [hm] at h
      simp only [Option.some.injEq, Prod.mk.injEq] at h
      obtain ⟨rfl, rfl⟩ := h
      exact mVars_wf hR es hm
  | assign x p e =>
    intro ρ ρ' env r hR h
    simp only [mS] at h
    cases he : mE ρ e with
    | none => rw [he] at h; simp at h
    | some q =>
      obtain ⟨v, w⟩ := q
      rw [he] at h
      simp only at h
      split at h
      · simp at h
      · split at h
        · split at h <;> simp at h
        · simp at h
      · simp at h
  | call lhs g args =>
    intro ρ ρ' env r hR h
    obtain ⟨env', _, _⟩ := mS_sound hcm (.call lhs g args) hR h
    simp only [mS, mCall] at h
    repeat' split at h
    all_goals simp at h
  | skip => intro ρ ρ' env r hR h; simp [mS] at h
  | _ => intro ρ ρ' env r hR h; simp [mS] at h

/-- the reflection principle: if the mirror evaluates the body of function `g` on `args` to `res`, the IR function,
    run on the encoded arguments, returns the encoded `res`, and `res` is within its widths -/
theorem run_of_mRet {Fc : Nat} {cm : Cm} (hcm : CmOk P G X Fc cm) {fn : Fn}
    {args res : List MVal} (hwf : ∀ m ∈ args, m.wf) (h : mRet cm args fn.body = some res) :
    (∃ env', EvIn P G X (szS Fc fn.body) (Env.ofList (args.map MVal.toVal)) fn.body env'
      (.ret (res.map MVal.toVal))) ∧ ∀ m ∈ res, m.wf := by
  simp only [mRet] at h
  cases hm : mS cm (MEnv.ofList args) fn.body with
  | none => rw [hm] at h; simp at h
  | some q =>
    obtain ⟨ρ', r⟩ := q
    rw [hm] at h
    cases r with
    | none => simp at h
    | some r =>
      simp only [Option.some.injEq] at h
      subst h
      obtain ⟨env', h1, _⟩ := mS_sound hcm fn.body (Rel.ofList hwf) hm
      exact ⟨⟨env', h1⟩, mS_wf hcm fn.body (Rel.ofList hwf) hm⟩

end Sound

end SMGo.Proofs.CTIRRefineSL
