/-
  Lemmas for property C05, part 4: decryption inverts encryption.  A round is an involution up to the
  reversal R of the four words, so running the rounds with the round keys in reverse order after R
  undoes them: `crypt rk.reverse (crypt rk b) = b` for every list of round keys and every 16-byte b.
-/
import SMGo.Spec.SM4
namespace SMGo.Proofs.SM4
open SMGo Spec.SM4

/-! ### bytes and words -/

theorem be32_w32Bytes (w : W32) :
    be32 (UInt8.ofNat (w.toNat / 16777216)) (UInt8.ofNat (w.toNat / 65536 % 256))
      (UInt8.ofNat (w.toNat / 256 % 256)) (UInt8.ofNat (w.toNat % 256)) = w := by
  apply BitVec.eq_of_toNat_eq
  have := w.isLt
  simp only [be32, UInt8.toNat_ofNat', BitVec.toNat_ofNat]
  omega

theorem w32Bytes_be32 (a b c d : UInt8) : w32Bytes (be32 a b c d) = [a, b, c, d] := by
  have ha := a.toNat_lt
  have hb := b.toNat_lt
  have hc := c.toNat_lt
  have hd := d.toNat_lt
  have e : (be32 a b c d).toNat = a.toNat * 16777216 + b.toNat * 65536 + c.toNat * 256 + d.toNat := by
    simp only [be32, BitVec.toNat_ofNat]; omega
  have e0 : (be32 a b c d).toNat / 16777216 = a.toNat := by omega
  have e1 : (be32 a b c d).toNat / 65536 % 256 = b.toNat := by omega
  have e2 : (be32 a b c d).toNat / 256 % 256 = c.toNat := by omega
  have e3 : (be32 a b c d).toNat % 256 = d.toNat := by omega
  simp only [w32Bytes, e0, e1, e2, e3, UInt8.ofNat_toNat]

theorem wordsBE_w32Bytes4 (a b c d : W32) :
    wordsBE (w32Bytes a ++ w32Bytes b ++ w32Bytes c ++ w32Bytes d) = [a, b, c, d] := by
  simp only [w32Bytes, List.cons_append, List.nil_append, wordsBE, be32_w32Bytes]

/-- a 16-byte string is the big-endian encoding of its four words -/
theorem bytes16_eq (b : Bytes) (hb : b.length = 16) :
    w32Bytes ((wordsBE b).getD 0 0) ++ w32Bytes ((wordsBE b).getD 1 0) ++ w32Bytes ((wordsBE b).getD 2 0)
      ++ w32Bytes ((wordsBE b).getD 3 0) = b := by
  rcases b with _ | ⟨b0, _ | ⟨b1, _ | ⟨b2, _ | ⟨b3, _ | ⟨b4, _ | ⟨b5, _ | ⟨b6, _ | ⟨b7, _ | ⟨b8, _ | ⟨b9,
    _ | ⟨b10, _ | ⟨b11, _ | ⟨b12, _ | ⟨b13, _ | ⟨b14, _ | ⟨b15, _ | ⟨b16, b⟩⟩⟩⟩⟩⟩⟩⟩⟩⟩⟩⟩⟩⟩⟩⟩⟩ <;>
    simp only [List.length_cons, List.length_nil] at hb <;> try omega
  simp [wordsBE, w32Bytes_be32]

/-! ### the round function and the reversal -/

/-- R of the standard: reverse the order of the four words -/
def rev4 (s : W32 × W32 × W32 × W32) : W32 × W32 × W32 × W32 := (s.2.2.2, s.2.2.1, s.2.1, s.1)

theorem rev4_rev4 (s : W32 × W32 × W32 × W32) : rev4 (rev4 s) = s := rfl

/-- a round, conjugated by R, undoes itself -/
theorem roundStep_rev4 (s : W32 × W32 × W32 × W32) (k : W32) : roundStep (rev4 (roundStep s k)) k = rev4 s := by
  obtain ⟨x0, x1, x2, x3⟩ := s
  simp only [roundStep, rev4]
  have e : x3 ^^^ x2 ^^^ x1 ^^^ k = x1 ^^^ x2 ^^^ x3 ^^^ k := by ac_rfl
  rw [e, BitVec.xor_assoc, BitVec.xor_self, BitVec.xor_zero]

theorem foldl_roundStep_reverse (rk : List W32) (s : W32 × W32 × W32 × W32) :
    rk.reverse.foldl roundStep (rev4 (rk.foldl roundStep s)) = rev4 s := by
  induction rk generalizing s with
  | nil => rfl
  | cons k ks ih =>
    simp only [List.reverse_cons, List.foldl_append, List.foldl_cons, List.foldl_nil, ih, roundStep_rev4]

/-! ### `crypt` -/

/-- `crypt` in terms of the four words of the block -/
theorem crypt_eq (rk : List W32) (b : Bytes) :
    crypt rk b =
      let s := rev4 (rk.foldl roundStep ((wordsBE b).getD 0 0, (wordsBE b).getD 1 0, (wordsBE b).getD 2 0, (wordsBE b).getD 3 0))
      w32Bytes s.1 ++ w32Bytes s.2.1 ++ w32Bytes s.2.2.1 ++ w32Bytes s.2.2.2 := by
  simp only [crypt, rev4]

theorem crypt_length (rk : List W32) (b : Bytes) : (crypt rk b).length = 16 := by
  simp [crypt_eq, w32Bytes]

/-- the rounds with reversed round keys invert `crypt` on 16-byte blocks -/
theorem crypt_reverse_crypt (rk : List W32) (b : Bytes) (hb : b.length = 16) : crypt rk.reverse (crypt rk b) = b := by
  rw [crypt_eq rk.reverse, crypt_eq rk b]
  simp only [wordsBE_w32Bytes4, List.getD_cons_zero, List.getD_cons_succ]
  have h := foldl_roundStep_reverse rk
    ((wordsBE b).getD 0 0, (wordsBE b).getD 1 0, (wordsBE b).getD 2 0, (wordsBE b).getD 3 0)
  simp only [rev4] at h ⊢
  rw [h]
  exact bytes16_eq b hb

end SMGo.Proofs.SM4
