import SMGo.Proofs.ISAValFusedJ0Gen3
set_option linter.unusedSimpArgs false
namespace SMGo.Proofs.ISAVal
open SMGo.Model.ISAVal SMGo.Model.GCM SMGo.Proofs.GCM SMGo.Proofs.ISATouch
open SMGo.Model.ISA (Reg Opd Instr)

/-- the 16 bytes of the pre-counter block J0 as the listing computes them -/
def j0N (rk nonce : List Nat) : List Nat :=
  if nonce.length = 12 then nonce ++ [0, 0, 0, 1] else j0BytesN (hKey rk) nonce

theorem j0N_length (rk nonce : List Nat) : (j0N rk nonce).length = 16 := by
  unfold j0N
  split
  · rename_i h; simp [h]
  · exact lanes_length 8 16 _

theorem j0N_bytes (rk nonce : List Nat) (hnb : ∀ x ∈ nonce, x < 2 ^ 8) : ∀ x ∈ j0N rk nonce, x < 2 ^ 8 := by
  unfold j0N
  split
  · intro x hx
    rw [List.mem_append] at hx
    rcases hx with h1 | h1
    · exact hnb x h1
    · simp only [List.mem_cons, List.not_mem_nil, or_false] at h1
      rcases h1 with rfl | rfl | rfl | rfl <;> decide
  · exact fun x hx => mem_lanes_lt 8 16 _ x hx

set_option maxRecDepth 100000 in
/-- **the common prefix of `sealAsm` and `openAsm` (instructions 0 … 1498) for ANY nonce and ANY additional data** -/
theorem prefix_any (r : Routine) (ps : PrefixSlices r) (pl : PreLabels12 r) (jl : J0Labels r)
    (s0 : State) (hG : s0.gpr.length = 16) (hV : s0.vec.length = 32) (hK : s0.kreg.length = 8)
    (rk nonce aad : List Nat) (np tp ap : Nat) (e : FEnv s0 rk np tp ap nonce aad)
    (Mf : List Nat → List Region) (mf : MemFam Mf tp rk np ap nonce aad) (b0 : List Nat) (hb0 : b0.length = 32) (hm0 : s0.mem = Mf b0)
    (hrk : rk.length = 32) (hrkb : ∀ x ∈ rk, x < 2 ^ 32) (hnb : ∀ x ∈ nonce, x < 2 ^ 8) (hnp : np + nonce.length + 16 < 2 ^ 63)
    (hnl : nonce.length < 2 ^ 61) (hab : ∀ x ∈ aad, x < 2 ^ 8) (hap : ap + aad.length < 2 ^ 63) (htp : tp + 32 < 2 ^ 63) :
    ∃ s5 N, N ≤ 34 * (nonce.length / 16) + 34 * (aad.length / 16) + 1700 ∧ Reach r 0 s0 1499 s5 N ∧
      AfterPre Mf rk nonce aad (j0N rk nonce) np tp ap s5 ∧ s5.frame = s0.frame := by
  obtain ⟨s1, r1, p1, e1, h19, g1, m1⟩ := phaseH r ps s0 hG hV hK rk np tp ap nonce aad e hrk hrkb
  obtain ⟨s2, r2, p2, e2, gc2, g2, m2⟩ := phaseGh r ps s1 rk np tp ap nonce aad p1 e1 h19 g1
  have hm2 : s2.mem = Mf b0 := by rw [m2.1, m1.1]; exact hm0
  obtain ⟨s3, N3, b3, hN3, r3, p3, e3, gc3, g3, v14, v6, g36, m3, hb3, f3⟩ : ∃ s3 N3 b3, N3 ≤ 34 * (nonce.length / 16) + 300 ∧
      Reach r 628 s2 823 s3 N3 ∧ PCtx s3 ∧ FEnv s3 rk np tp ap nonce aad ∧ GhCtx (hKey rk) s3 ∧ greg s3 15 = 73014444032 ∧
      vreg s3 14 = unlanes 8 (j0N rk nonce) ∧ vreg s3 6 = unlanes 8 (j0N rk nonce) ∧ greg s3 6 = tp ∧ s3.mem = Mf b3 ∧ b3.length = 32 ∧
      s3.frame = s2.frame := by
    by_cases hn : nonce.length = 12
    · obtain ⟨s3, r3, p3, e3, gc3, g3, v14, v6, g36, m3⟩ := phaseJ0_12 r ps pl.lJ s2 rk np tp ap nonce aad p2 e2 _ gc2 g2 hn hnb (by omega)
      refine ⟨s3, 15, b0, by omega, r3, p3, e3, gc3, g3, ?_, ?_, g36, by rw [m3.1]; exact hm2, hb0, m3.2⟩
      · unfold j0N; rw [if_pos hn]; exact v14
      · unfold j0N; rw [if_pos hn]; exact v6
    · obtain ⟨s3, N3, b3, hN3, r3, p3, e3, gc3, g3, v14, v6, g36, m3, hb3, f3⟩ := phaseJ0_gen r ps pl.lJ jl s2 rk np tp ap nonce aad p2 e2 _ gc2 g2
        hn hnb (by omega) hnl Mf mf b0 hb0 hm2 htp
      refine ⟨s3, N3, b3, hN3, r3, p3, e3, gc3, g3, ?_, ?_, g36, m3, hb3, f3⟩
      · unfold j0N; rw [if_neg hn]; exact v14
      · unfold j0N; rw [if_neg hn]; exact v6
  obtain ⟨s4, r4, p4, e4, gc4, g4, v15, k14, k46, m4⟩ := phaseT r ps s3 rk np tp ap nonce aad p3 e3 _ gc3 g3 hrk hrkb _ (j0N_length rk nonce)
    (j0N_bytes rk nonce hnb) v6
  have hm4 : s4.mem = Mf b3 := by rw [m4.1]; exact m3
  obtain ⟨s5, N, b5, hN, r5, m5, hb5, p5, e5, gc5, v21, lt21, g56, k5⟩ := phaseA r ps pl.lb pl.lc s4 rk np tp ap nonce aad p4 e4 _ gc4 Mf mf
    b3 hb3 hm4 0 (Or.inl rfl) (by rw [k46, g36]; rfl) htp hab hap
  refine ⟨s5, 549 + 79 + N3 + 530 + N, by omega, ((((r1.trans r2).trans r3).trans r4).trans r5).cast rfl rfl,
    ⟨p5, e5, gc5, ?_, ?_, ?_, v21, lt21, ⟨b5, hb5, m5⟩, ?_⟩, by rw [k5.frame, m4.2, f3, m2.2, m1.2]⟩
  · rw [k5.g 15 (by decide)]; exact g4
  · rw [k5.v 14 (by decide), k14]; exact v14
  · rw [k5.v 15 (by decide)]; exact v15
  · rw [g56]; by_cases h0 : aad.length % 16 = 0
    · rw [if_pos h0]; exact Or.inl rfl
    · rw [if_neg h0]; exact Or.inr rfl

end SMGo.Proofs.ISAVal
