import SMGo.Proofs.ISAValExpand
import SMGo.Proofs.ISAValSpec
namespace SMGo.Proofs.ISAVal
open SMGo.Model.ISAVal SMGo

/-- the body of `expandKeyAsm` as a scheme -/
def ekCode : List DInstr := eproCode ++ eroundsCode 32

theorem e_decode :
    (Routine.ofListing Gen.ListAmd64Asm.expandKeyAsm).toOption.map (fun r => r.map erasePc)
      = some (ekCode ++ [ins .RET [] 0]) := by decide +kernel

theorem e_noControl : ekCode.all (fun i => !i.mn.isControl) = true := by decide +kernel
theorem e_length : ekCode.length = 566 := by decide +kernel

/-! ### against the specification -/

theorem ofNat_L'N (y : Nat) (hy : y < 2 ^ 32) : BitVec.ofNat 32 (L'N y) = Spec.SM4.L' (BitVec.ofNat 32 y) := by
  unfold L'N Spec.SM4.L'
  rw [BitVec.ofNat_xor, BitVec.ofNat_xor, ofNat_rotl32 23 y (by decide) hy, ofNat_rotl32 13 y (by decide) hy]
  ac_rfl

theorem ofNat_T'N (y : Nat) (hy : y < 2 ^ 32) : BitVec.ofNat 32 (T'N y) = Spec.SM4.T' (BitVec.ofNat 32 y) := by
  unfold T'N Spec.SM4.T'
  rw [ofNat_L'N _ (tauN_lt y), ofNat_tauN y hy]

theorem T'N_lt (y : Nat) : T'N y < 2 ^ 32 := by
  unfold T'N L'N
  exact Nat.xor_lt_two_pow (tauN_lt y) (Nat.xor_lt_two_pow (rotl32_lt _ _) (rotl32_lt _ _))

theorem ckN_eq : ∀ i, i < 32 → BitVec.ofNat 32 (ckN i) = Spec.SM4.CK i := by decide +kernel
theorem ckN_lt (i : Nat) : ckN i < 2 ^ 32 := ck_word_lt i
theorem fkN_eq : ∀ j, j < 4 → BitVec.ofNat 32 (fkN j) = Spec.SM4.FK.getD j 0 := by decide +kernel
theorem fkN_lt (j : Nat) : fkN j < 2 ^ 32 := lane_lt 32 j _

theorem estepN_bnd (X : Nat × Nat × Nat × Nat) (c : Nat) (h : Bnd X) : Bnd (estepN X c) :=
  ⟨h.2.1, h.2.2.1, h.2.2.2, Nat.xor_lt_two_pow h.1 (T'N_lt _)⟩

theorem toW_estepN (X : Nat × Nat × Nat × Nat) (i : Nat) (hi : i < 32) (h : Bnd X) (rks : List W32) :
    Spec.SM4.keyStep (toW X, rks) i
      = (toW (estepN X (ckN i)), rks ++ [BitVec.ofNat 32 (estepN X (ckN i)).2.2.2]) := by
  obtain ⟨xa, xb, xc, xd⟩ := X
  obtain ⟨ha, hb, hc, hd⟩ := h
  simp only at ha hb hc hd
  simp only [toW, estepN, Spec.SM4.keyStep, eroundF]
  rw [BitVec.ofNat_xor, ofNat_T'N _ (Nat.xor_lt_two_pow (Nat.xor_lt_two_pow (Nat.xor_lt_two_pow hc hb) hd) (ckN_lt i)),
    BitVec.ofNat_xor, BitVec.ofNat_xor, BitVec.ofNat_xor, ckN_eq i hi,
    BitVec.xor_comm (BitVec.ofNat 32 xc) (BitVec.ofNat 32 xb)]

theorem eiterN_spec (X : Nat × Nat × Nat × Nat) (h : Bnd X) (n : Nat) (hn : n ≤ 32) :
    Bnd (eiterN X n).1 ∧ (∀ x ∈ (eiterN X n).2, x < 2 ^ 32) ∧ (eiterN X n).2.length = n ∧
    (List.range n).foldl Spec.SM4.keyStep (toW X, []) = (toW (eiterN X n).1, (eiterN X n).2.map (BitVec.ofNat 32)) := by
  induction n with
  | zero => exact ⟨h, by simp [eiterN], rfl, rfl⟩
  | succ n ih =>
    obtain ⟨hb, hl, hlen, hf⟩ := ih (by omega)
    have hb' := estepN_bnd (eiterN X n).1 (ckN n) hb
    refine ⟨hb', ?_, ?_, ?_⟩
    · intro x hx
      simp only [eiterN, List.mem_append, List.mem_singleton] at hx
      rcases hx with hx | rfl
      · exact hl x hx
      · exact hb'.2.2.2
    · simp [eiterN, hlen]
    · rw [List.range_succ, List.foldl_append, hf, List.foldl_cons, List.foldl_nil, toW_estepN _ n (by omega) hb]
      simp [eiterN]


theorem memWords_wordsMem (l : List Nat) (hl : ∀ x ∈ l, x < 2 ^ 32) : memWords (wordsMem l) = l := by
  unfold memWords
  rw [wordsMem_len, Nat.mul_div_cancel_left _ (by decide : 0 < 4)]
  apply List.ext_getElem
  · simp
  · intro i h1 h2
    simp only [List.getElem_map, List.getElem_range]
    unfold wordsMem
    rw [drop_take_flatMap (lanes 8 4) 4 (fun x => lanes_length 8 4 x) l i h2, unlanes_lanes,
      List.getD_eq_getElem?_getD, List.getElem?_eq_getElem h2, Option.getD_some]
    exact Nat.mod_eq_of_lt (hl _ (List.getElem_mem h2))

theorem emem_region_enc (key e d : List Nat) (g' v' k' : List Nat) (fl' : Flags) (sy fr : List (String × Nat)) :
    regionBytes ⟨g', v', k', fl', emem key e d, sy, fr⟩ "enc" = some e := by
  simp [regionBytes, emem, expandKeyState, mkState, symbols, List.find?]

theorem emem_region_dec (key e d : List Nat) (g' v' k' : List Nat) (fl' : Flags) (sy fr : List (String × Nat)) :
    regionBytes ⟨g', v', k', fl', emem key e d, sy, fr⟩ "dec" = some d := by
  simp [regionBytes, emem, expandKeyState, mkState, symbols, List.find?]

/-- **the listing of `expandKeyAsm` computes the key schedule of the specification**: for every 16-byte key,
    whatever the registers and the two destination arrays hold at entry, the run succeeds, `enc` receives
    rk_0 … rk_31 and `dec` receives them in reverse order -/
theorem expandKey_eq_spec (g v k key enc0 dec0 : List Nat)
    (hg : g.length = 16) (hv : v.length = 32) (hk : 1 < k.length)
    (hkey : key.length = 16) (hkb : ∀ x ∈ key, x < 256) (henc : enc0.length = 128) (hdec : dec0.length = 128) :
    runExpandKey 2000 (expandKeyState g v k key enc0 dec0)
      = .ok ((Spec.SM4.keySchedule (key.map UInt8.ofNat)).map (·.toNat),
             (Spec.SM4.keySchedule (key.map UInt8.ofNat)).reverse.map (·.toNat)) := by
  obtain ⟨s0, s1, s2, s3, s4, s5, s6, s7, s8, s9, s10, s11, s12, s13, s14, s15, rfl⟩ := list16 key hkey
  -- prologue, 32 rounds
  obtain ⟨s1', hrun1, hr1⟩ := eprologue_spec g v k enc0 dec0 hg hv hk hdec s0 s1 s2 s3 s4 s5 s6 s7 s8 s9 s10 s11 s12 s13 s14 s15 hkb
  obtain ⟨s2', hrun2, hr2⟩ := readyE_rounds _ enc0 dec0 henc hdec _ s1' hr1 32 (Nat.le_refl _)
  have hrun : execList ekCode (expandKeyState g v k [s0, s1, s2, s3, s4, s5, s6, s7, s8, s9, s10, s11, s12, s13, s14, s15] enc0 dec0) = .ok s2' :=
    execList_append_ok hrun1 hrun2
  -- the initial window is bounded
  have h := fun x hx => hkb x hx
  simp only [List.mem_cons, List.not_mem_nil, or_false] at h
  have hw0 := beWord_lt s0 s1 s2 s3 (h s0 (by simp)) (h s1 (by simp)) (h s2 (by simp)) (h s3 (by simp))
  have hw1 := beWord_lt s4 s5 s6 s7 (h s4 (by simp)) (h s5 (by simp)) (h s6 (by simp)) (h s7 (by simp))
  have hw2 := beWord_lt s8 s9 s10 s11 (h s8 (by simp)) (h s9 (by simp)) (h s10 (by simp)) (h s11 (by simp))
  have hw3 := beWord_lt s12 s13 s14 s15 (h s12 (by simp)) (h s13 (by simp)) (h s14 (by simp)) (h s15 (by simp))
  have hb0 : Bnd (beWord s0 s1 s2 s3 ^^^ fkN 0, beWord s4 s5 s6 s7 ^^^ fkN 1, beWord s8 s9 s10 s11 ^^^ fkN 2,
      beWord s12 s13 s14 s15 ^^^ fkN 3) :=
    ⟨Nat.xor_lt_two_pow hw0 (fkN_lt 0), Nat.xor_lt_two_pow hw1 (fkN_lt 1), Nat.xor_lt_two_pow hw2 (fkN_lt 2),
      Nat.xor_lt_two_pow hw3 (fkN_lt 3)⟩
  obtain ⟨-, hks, hlen, hspec⟩ := eiterN_spec _ hb0 32 (Nat.le_refl _)
  generalize hE : eiterN (beWord s0 s1 s2 s3 ^^^ fkN 0, beWord s4 s5 s6 s7 ^^^ fkN 1, beWord s8 s9 s10 s11 ^^^ fkN 2,
      beWord s12 s13 s14 s15 ^^^ fkN 3) 32 = E at hr2 hks hlen hspec
  obtain ⟨Xf, ks⟩ := E
  simp only at hr2 hks hlen hspec
  -- the specification is this iteration
  have hsched : Spec.SM4.keySchedule ([s0, s1, s2, s3, s4, s5, s6, s7, s8, s9, s10, s11, s12, s13, s14, s15].map UInt8.ofNat)
      = ks.map (BitVec.ofNat 32) := by
    simp only [Spec.SM4.keySchedule, List.map_cons, List.map_nil, wordsBE, List.getD_cons_zero, List.getD_cons_succ]
    have e0 := ofNat_beWord s0 s1 s2 s3 (h s0 (by simp)) (h s1 (by simp)) (h s2 (by simp)) (h s3 (by simp))
    have e1 := ofNat_beWord s4 s5 s6 s7 (h s4 (by simp)) (h s5 (by simp)) (h s6 (by simp)) (h s7 (by simp))
    have e2 := ofNat_beWord s8 s9 s10 s11 (h s8 (by simp)) (h s9 (by simp)) (h s10 (by simp)) (h s11 (by simp))
    have e3 := ofNat_beWord s12 s13 s14 s15 (h s12 (by simp)) (h s13 (by simp)) (h s14 (by simp)) (h s15 (by simp))
    rw [← e0, ← e1, ← e2, ← e3, ← fkN_eq 0 (by decide), ← fkN_eq 1 (by decide), ← fkN_eq 2 (by decide),
      ← fkN_eq 3 (by decide), ← BitVec.ofNat_xor, ← BitVec.ofNat_xor, ← BitVec.ofNat_xor, ← BitVec.ofNat_xor]
    simp only [toW] at hspec
    rw [hspec]
  -- the run of the listing
  have hrunL := run_of_decode _ ekCode e_decode e_noControl 2000 (by rw [e_length]; decide) _ s2' hrun
  unfold runExpandKey
  rw [hrunL]
  obtain ⟨g3, v3, k3, fl3, m3, sy3, fr3⟩ := s2'
  have hm := hr2.mem
  simp only at hm
  subst hm
  simp only [ok_bind, emem_region_enc, emem_region_dec]
  have hencF : encAt enc0 ks = wordsMem ks := by
    simp [encAt, hlen, henc]
  have hdecF : decAt dec0 ks = wordsMem ks.reverse := by
    simp [decAt, hlen]
  have hksr : ∀ x ∈ ks.reverse, x < 2 ^ 32 := fun x hx => hks x (List.mem_reverse.mp hx)
  rw [hencF, hdecF, memWords_wordsMem ks hks, memWords_wordsMem _ hksr, hsched]
  have hmap : ∀ l : List Nat, (∀ x ∈ l, x < 2 ^ 32) → (l.map (BitVec.ofNat 32)).map (·.toNat) = l := by
    intro l hl
    rw [List.map_map]
    conv => rhs; rw [← List.map_id l]
    apply List.map_congr_left
    intro x hx
    simp [Nat.mod_eq_of_lt (hl x hx)]
  rw [← List.map_reverse, hmap ks hks, hmap _ hksr]
  rfl

end SMGo.Proofs.ISAVal

#print axioms SMGo.Proofs.ISAVal.expandKey_eq_spec
