import SMGo.Proofs.ISAValLadX0Hash
set_option linter.unusedSimpArgs false
namespace SMGo.Proofs.ISAVal
open SMGo.Model.ISAVal SMGo.Model.GCM SMGo.Proofs.GCM SMGo.Proofs.ISATouch
open SMGo.Model.ISA (Reg Opd Instr)

theorem x0_eq (b : Nat) : ladX0Code b =
    [ins .CMPQ [G 9, .imm 0] 0, ins .JLE [.target (b + 22642)] 0] ++ (fill1Code ++
      (x0InCode (b + 18977) (b + 19003) (b + 19029) (b + 19057) (b + 19083) ++ (kern1Code ++ (xsTCode ++ (clrSetCode ++
        (clrLoopCode (b + 22325) (b + 22344) ++ (x0OutCode (b + 22347) (b + 22374) (b + 22401) (b + 22430) (b + 22457) ++
          ([ins .CMPQ [G 0, .imm 0] 0, ins .JEQ [.target (b + 22642)] 0] ++ (x0HashCode ++ [ins .NOP [] 0]))))))))) := by
  simp only [ladX0Code, fill1Code, x0InCode, kern1Code, t14Code, t41Code, xsTCode, clrSetCode, clrLoopCode, x0OutCode, x0HashCode,
    List.append_assoc, List.cons_append, List.nil_append]

/-- the labels inside `loopX0` -/
structure X0Labels (r : Routine) (k b : Nat) : Prop where
  i8 : findPc r (b + 18977) = some (r.drop (k + 7))
  i4 : findPc r (b + 19003) = some (r.drop (k + 15))
  i2 : findPc r (b + 19029) = some (r.drop (k + 23))
  i1 : findPc r (b + 19057) = some (r.drop (k + 31))
  ie : findPc r (b + 19083) = some (r.drop (k + 39))
  cl : findPc r (b + 22325) = some (r.drop (k + 578))
  ce : findPc r (b + 22344) = some (r.drop (k + 584))
  o8 : findPc r (b + 22347) = some (r.drop (k + 586))
  o4 : findPc r (b + 22374) = some (r.drop (k + 594))
  o2 : findPc r (b + 22401) = some (r.drop (k + 602))
  o1 : findPc r (b + 22430) = some (r.drop (k + 610))
  oe : findPc r (b + 22457) = some (r.drop (k + 618))
  done : findPc r (b + 22642) = some (r.drop (k + 650))

theorem x0In_len (a b c d e : Nat) : (x0InCode a b c d e).length = 38 := rfl
theorem x0Out_len (a b c d e : Nat) : (x0OutCode a b c d e).length = 36 := rfl
theorem x0Hash_len : x0HashCode.length = 28 := by decide +kernel
theorem x0Hash_nc : x0HashCode.all (fun i => !i.mn.isControl) = true := by decide +kernel

end SMGo.Proofs.ISAVal
