/-
  **The arm64 listing of `cryptoBlockAsmX2` = two SM4 block functions of the specification**, for all round keys,
  both blocks, any register / destination contents — under the UNVALIDATED arm64 semantics of
  SMGo/Model/ISAValArm64.lean.  Prologue: eight single-element loads (word `r` of block `e` into element `e` of
  register `r`), REV32; rounds: `readyL_rounds` with `VDUP RK.S[0], RK.S2`; epilogue: REV32, eight element stores.
-/
import SMGo.Proofs.ISAValArm64X4Spec
namespace SMGo.Proofs.ISAValArm64
open SMGo.Model.ISAValArm64 SMGo.Model.ISA SMGo
open SMGo.Model.ISAVal (lane lanes unlanes Region readMem writeMem lookup regionBase)
open SMGo.Proofs.ISAVal (lane_lt list32 list16 stepN iterN beBytes iterN_take getD_lt unlanes_lanes lanes_length
  lane32_list4)

/-! ### two element inserts -/

theorem lanes_set01 (old a b : Nat) (ha : a < 2 ^ 32) (hb : b < 2 ^ 32) :
    lane 32 0 (setLaneS 1 (setLaneS 0 old a) b) = a ∧ lane 32 1 (setLaneS 1 (setLaneS 0 old a) b) = b := by
  have h0 : lane 32 0 (setLaneS 0 old a) = a := lane0_setLaneS0 _ _ ha
  simp only [setLaneS, lanes324, List.set_cons_succ, List.set_cons_zero] at h0 ⊢
  obtain ⟨e0, e1, -, -⟩ := lane32_list4 (lane 32 0 (unlanes 32 [a, lane 32 1 old, lane 32 2 old, lane 32 3 old])) b
    (lane 32 2 (unlanes 32 [a, lane 32 1 old, lane 32 2 old, lane 32 3 old]))
    (lane 32 3 (unlanes 32 [a, lane 32 1 old, lane 32 2 old, lane 32 3 old])) (lane_lt _ _ _) hb (lane_lt _ _ _) (lane_lt _ _ _)
  exact ⟨by rw [e0, h0], e1⟩

/-! ### prologue -/

def ldS (r e : Nat) : DInstr := ins .VLD1P [M 12 4, R r] [.none, .S e]

def pro2Code : List DInstr :=
  [ins .MOVD [.symAddr "SBox" 0, G 0] nn,
   ins .VLD1P [M 0 64, L4 16 17 18 19] [.none, .B16],
   ins .VLD1P [M 0 64, L4 20 21 22 23] [.none, .B16],
   ins .VLD1P [M 0 64, L4 24 25 26 27] [.none, .B16],
   ins .VLD1P [M 0 64, L4 28 29 30 31] [.none, .B16],
   ins .MOVD [.frame "rk" 0, G 10] nn,
   ins .MOVD [.frame "dst" 8, G 11] nn,
   ins .MOVD [.frame "src" 16, G 12] nn,
   ins .VMOVI [.imm 64, R 15] [.none, .B16],
   ldS 0 0, ldS 1 0, ldS 2 0, ldS 3 0, ldS 0 1, ldS 1 1, ldS 2 1, ldS 3 1,
   ins .VREV32 [R 0, R 0] r2,
   ins .VREV32 [R 1, R 1] r2,
   ins .VREV32 [R 2, R 2] r2,
   ins .VREV32 [R 3, R 3] r2]

attribute [local irreducible] execD

set_option maxRecDepth 10000 in
theorem prologue2_spec (s : State) (hG : s.gpr.length = 31) (hV : s.vec.length = 32)
    (aSrc aRk aDst : Nat) (bs : List Nat) (hb : ∀ x ∈ bs, x < 256)
    (hS : lookup s.syms "SBox" = some 4294967296)
    (hS0 : readMem s.mem 4294967296 64 = .ok (sbQuarter 0))
    (hS1 : readMem s.mem 4294967360 64 = .ok (sbQuarter 1))
    (hS2 : readMem s.mem 4294967424 64 = .ok (sbQuarter 2))
    (hS3 : readMem s.mem 4294967488 64 = .ok (sbQuarter 3))
    (hSrc : lookup s.frame "src" = some aSrc) (hSrc' : aSrc + 32 < 2 ^ 64)
    (hI : ∀ k, k < 8 → readMem s.mem (aSrc + 4 * k) 4 = .ok ((bs.drop (4 * k)).take 4))
    (hRk : lookup s.frame "rk" = some aRk) (hDst : lookup s.frame "dst" = some aDst) :
    ∃ s', execList pro2Code s = .ok s' ∧
      ReadyL 2 s.mem s.syms s.frame aRk aDst 0 (fun e => blockWords (blockAt bs e)) s' := by
  obtain ⟨gpr, vec, mem, syms, frame⟩ := s
  simp only at hG hV hS hS0 hS1 hS2 hS3 hSrc hI hRk hDst
  obtain ⟨a0, a1, a2, a3, a4, a5, a6, a7, a8, a9, a10, a11, a12, a13, a14, a15, a16, a17, a18, a19, a20, a21, a22, a23, a24, a25, a26, a27, a28, a29, a30, rfl⟩ := list31 gpr hG
  obtain ⟨b0, b1, b2, b3, b4, b5, b6, b7, b8, b9, b10, b11, b12, b13, b14, b15, b16, b17, b18, b19, b20, b21, b22, b23, b24, b25, b26, b27, b28, b29, b30, b31, rfl⟩ := list32 vec hV
  have r0 := hI 0 (by decide); have r1 := hI 1 (by decide); have r2' := hI 2 (by decide); have r3 := hI 3 (by decide)
  have r4 := hI 4 (by decide); have r5 := hI 5 (by decide); have r6 := hI 6 (by decide); have r7 := hI 7 (by decide)
  simp only [Nat.mul_zero, Nat.add_zero, Nat.mul_one, Nat.reduceMul] at r0 r1 r2' r3 r4 r5 r6 r7
  have e1 : (aSrc + 4) % 2 ^ 64 = aSrc + 4 := Nat.mod_eq_of_lt (by omega)
  have e2 : (aSrc + 4 + 4) % 2 ^ 64 = aSrc + 8 := by rw [Nat.mod_eq_of_lt (by omega)]
  have e3 : (aSrc + 8 + 4) % 2 ^ 64 = aSrc + 12 := by rw [Nat.mod_eq_of_lt (by omega)]
  have e4 : (aSrc + 12 + 4) % 2 ^ 64 = aSrc + 16 := by rw [Nat.mod_eq_of_lt (by omega)]
  have e5 : (aSrc + 16 + 4) % 2 ^ 64 = aSrc + 20 := by rw [Nat.mod_eq_of_lt (by omega)]
  have e6 : (aSrc + 20 + 4) % 2 ^ 64 = aSrc + 24 := by rw [Nat.mod_eq_of_lt (by omega)]
  have e7 : (aSrc + 24 + 4) % 2 ^ 64 = aSrc + 28 := by rw [Nat.mod_eq_of_lt (by omega)]
  apply Exists.intro
  apply And.intro
  · unfold pro2Code ldS
    apply exec_step
    · exact execD_movd_sym (hs := hS) (hd0 := by rfl) ..
    simp only [List.set_cons_succ, List.set_cons_zero, Nat.add_zero]
    apply exec_step
    · exact execD_ld1p_four (bs := sbQuarter 0) (hc := by decide) (hb := by rfl)
        (e0 := by rfl) (e1 := by rfl) (e2 := by rfl) (e3 := by rfl) (hload := hS0) ..
    simp only [List.set_cons_succ, List.set_cons_zero, Nat.reduceAdd, Nat.reducePow, Nat.reduceMod]
    apply exec_step
    · exact execD_ld1p_four (bs := sbQuarter 1) (hc := by decide) (hb := by rfl)
        (e0 := by rfl) (e1 := by rfl) (e2 := by rfl) (e3 := by rfl) (hload := hS1) ..
    simp only [List.set_cons_succ, List.set_cons_zero, Nat.reduceAdd, Nat.reducePow, Nat.reduceMod]
    apply exec_step
    · exact execD_ld1p_four (bs := sbQuarter 2) (hc := by decide) (hb := by rfl)
        (e0 := by rfl) (e1 := by rfl) (e2 := by rfl) (e3 := by rfl) (hload := hS2) ..
    simp only [List.set_cons_succ, List.set_cons_zero, Nat.reduceAdd, Nat.reducePow, Nat.reduceMod]
    apply exec_step
    · exact execD_ld1p_four (bs := sbQuarter 3) (hc := by decide) (hb := by rfl)
        (e0 := by rfl) (e1 := by rfl) (e2 := by rfl) (e3 := by rfl) (hload := hS3) ..
    simp only [List.set_cons_succ, List.set_cons_zero, Nat.reduceAdd, Nat.reducePow, Nat.reduceMod]
    pstep; pstep; pstep; pstep
    apply exec_step
    · exact execD_ld1p_lane (hi := by decide) (hb := by rfl) (hdv := by rfl) (hload := r0) ..
    simp only [List.set_cons_succ, List.set_cons_zero, e1]
    apply exec_step
    · exact execD_ld1p_lane (hi := by decide) (hb := by rfl) (hdv := by rfl) (hload := r1) ..
    simp only [List.set_cons_succ, List.set_cons_zero, e2]
    apply exec_step
    · exact execD_ld1p_lane (hi := by decide) (hb := by rfl) (hdv := by rfl) (hload := r2') ..
    simp only [List.set_cons_succ, List.set_cons_zero, e3]
    apply exec_step
    · exact execD_ld1p_lane (hi := by decide) (hb := by rfl) (hdv := by rfl) (hload := r3) ..
    simp only [List.set_cons_succ, List.set_cons_zero, e4]
    apply exec_step
    · exact execD_ld1p_lane (hi := by decide) (hb := by rfl) (hdv := by rfl) (hload := r4) ..
    simp only [List.set_cons_succ, List.set_cons_zero, e5]
    apply exec_step
    · exact execD_ld1p_lane (hi := by decide) (hb := by rfl) (hdv := by rfl) (hload := r5) ..
    simp only [List.set_cons_succ, List.set_cons_zero, e6]
    apply exec_step
    · exact execD_ld1p_lane (hi := by decide) (hb := by rfl) (hdv := by rfl) (hload := r6) ..
    simp only [List.set_cons_succ, List.set_cons_zero, e7]
    apply exec_step
    · exact execD_ld1p_lane (hi := by decide) (hb := by rfl) (hdv := by rfl) (hload := r7) ..
    simp only [List.set_cons_succ, List.set_cons_zero]
    pstep; pstep; pstep; pstep
    exact execList_nil _
  · have hw := fun j => leWord_lt bs hb j
    have key : ∀ r, r < 4 → ∀ old e, e < 2 →
        lane 32 e (vrev32 (setLaneS 1 (setLaneS 0 old (unlanes 8 ((bs.drop (4 * r)).take 4)))
            (unlanes 8 ((bs.drop (4 * (4 + r))).take 4))))
          = bswap32 (leWord (blockAt bs e) r) := by
      intro r hr old e he
      rw [laneJ_vrev32' e _ (by omega), leWord_blockAt bs e r hr]
      congr 1
      obtain ⟨h0, h1⟩ := lanes_set01 old _ _ (hw r) (hw (4 + r))
      have : e = 0 ∨ e = 1 := by omega
      rcases this with rfl | rfl
      · rw [show leWord bs (4 * 0 + r) = unlanes 8 ((bs.drop (4 * r)).take 4) from by simp [leWord]]; exact h0
      · rw [show leWord bs (4 * 1 + r) = unlanes 8 ((bs.drop (4 * (4 + r))).take 4) from rfl]; exact h1
    constructor
    · rfl
    · rfl
    · rfl
    · rfl
    · rfl
    · simp only [greg, List.getD_cons_succ, List.getD_cons_zero, Nat.mul_zero, Nat.add_zero]
    · simp only [greg, List.getD_cons_succ, List.getD_cons_zero]
    · simp only [List.drop_succ_cons, List.drop_zero]
      exact tabs_loaded
    · intro e he
      simp only [vreg, sreg, Nat.zero_add, Nat.reduceMod, List.getD_cons_succ, List.getD_cons_zero]
      have := key 0 (by decide) b0 e he
      simp only [Nat.mul_zero, List.drop_zero, Nat.add_zero, Nat.reduceMul] at this
      exact this
    · intro e he
      simp only [vreg, sreg, Nat.zero_add, Nat.reduceMod, List.getD_cons_succ, List.getD_cons_zero]
      exact key 1 (by decide) b1 e he
    · intro e he
      simp only [vreg, sreg, Nat.zero_add, Nat.reduceMod, List.getD_cons_succ, List.getD_cons_zero]
      exact key 2 (by decide) b2 e he
    · intro e he
      simp only [vreg, sreg, Nat.zero_add, Nat.reduceMod, List.getD_cons_succ, List.getD_cons_zero]
      exact key 3 (by decide) b3 e he

/-! ### epilogue -/

def stS (r e : Nat) : DInstr := ins .VST1P [R r, M 11 4] [.S e, .none]

def epi2Code : List DInstr :=
  [ins .VREV32 [R 0, R 0] r2,
   ins .VREV32 [R 1, R 1] r2,
   ins .VREV32 [R 2, R 2] r2,
   ins .VREV32 [R 3, R 3] r2,
   stS 3 0, stS 2 0, stS 1 0, stS 0 0, stS 3 1, stS 2 1, stS 1 1, stS 0 1]

theorem store_bytesJ (e v : Nat) (he : e < 4) : lanes 8 4 (lane 32 e (vrev32 v)) = beBytes (lane 32 e v) := by
  rw [laneJ_vrev32' e v he, lanes_bswap]

set_option maxRecDepth 10000 in
theorem epilogue2_spec (mem : List Region) (syms frame : List (String × Nat)) (rkBase dstp : Nat)
    (X : Nat → Nat × Nat × Nat × Nat) (s : State) (m1 m2 m3 m4 m5 m6 m7 m8 : List Region)
    (h : ReadyL 2 mem syms frame rkBase dstp 32 X s) (hd : dstp + 32 < 2 ^ 64)
    (hw0 : writeMem mem dstp (beBytes (X 0).2.2.2) = .ok m1)
    (hw1 : writeMem m1 (dstp + 4) (beBytes (X 0).2.2.1) = .ok m2)
    (hw2 : writeMem m2 (dstp + 8) (beBytes (X 0).2.1) = .ok m3)
    (hw3 : writeMem m3 (dstp + 12) (beBytes (X 0).1) = .ok m4)
    (hw4 : writeMem m4 (dstp + 16) (beBytes (X 1).2.2.2) = .ok m5)
    (hw5 : writeMem m5 (dstp + 20) (beBytes (X 1).2.2.1) = .ok m6)
    (hw6 : writeMem m6 (dstp + 24) (beBytes (X 1).2.1) = .ok m7)
    (hw7 : writeMem m7 (dstp + 28) (beBytes (X 1).1) = .ok m8) :
    ∃ s', execList epi2Code s = .ok s' ∧ s'.mem = m8 := by
  obtain ⟨hG, hV, hmem, -, -, -, hg11, -, hx0, hx1, hx2, hx3⟩ := h
  obtain ⟨gpr, vec, mem0, syms0, frame0⟩ := s
  simp only at hG hV hmem
  obtain ⟨a0, a1, a2, a3, a4, a5, a6, a7, a8, a9, a10, a11, a12, a13, a14, a15, a16, a17, a18, a19, a20, a21, a22, a23, a24, a25, a26, a27, a28, a29, a30, rfl⟩ := list31 gpr hG
  obtain ⟨b0, b1, b2, b3, b4, b5, b6, b7, b8, b9, b10, b11, b12, b13, b14, b15, b16, b17, b18, b19, b20, b21, b22, b23, b24, b25, b26, b27, b28, b29, b30, b31, rfl⟩ := list32 vec hV
  simp only [greg, vreg, sreg, Nat.reduceAdd, Nat.reduceMod, List.getD_cons_succ, List.getD_cons_zero] at hg11 hx0 hx1 hx2 hx3
  subst hmem hg11
  rw [← hx3 0 (by decide), ← store_bytesJ 0 _ (by decide)] at hw0
  rw [← hx2 0 (by decide), ← store_bytesJ 0 _ (by decide)] at hw1
  rw [← hx1 0 (by decide), ← store_bytesJ 0 _ (by decide)] at hw2
  rw [← hx0 0 (by decide), ← store_bytesJ 0 _ (by decide)] at hw3
  rw [← hx3 1 (by decide), ← store_bytesJ 1 _ (by decide)] at hw4
  rw [← hx2 1 (by decide), ← store_bytesJ 1 _ (by decide)] at hw5
  rw [← hx1 1 (by decide), ← store_bytesJ 1 _ (by decide)] at hw6
  rw [← hx0 1 (by decide), ← store_bytesJ 1 _ (by decide)] at hw7
  have e1 : (a11 + 4) % 2 ^ 64 = a11 + 4 := Nat.mod_eq_of_lt (by omega)
  have e2 : (a11 + 4 + 4) % 2 ^ 64 = a11 + 8 := by rw [Nat.mod_eq_of_lt (by omega)]
  have e3 : (a11 + 8 + 4) % 2 ^ 64 = a11 + 12 := by rw [Nat.mod_eq_of_lt (by omega)]
  have e4 : (a11 + 12 + 4) % 2 ^ 64 = a11 + 16 := by rw [Nat.mod_eq_of_lt (by omega)]
  have e5 : (a11 + 16 + 4) % 2 ^ 64 = a11 + 20 := by rw [Nat.mod_eq_of_lt (by omega)]
  have e6 : (a11 + 20 + 4) % 2 ^ 64 = a11 + 24 := by rw [Nat.mod_eq_of_lt (by omega)]
  have e7 : (a11 + 24 + 4) % 2 ^ 64 = a11 + 28 := by rw [Nat.mod_eq_of_lt (by omega)]
  apply Exists.intro
  apply And.intro
  · unfold epi2Code stS
    pstep; pstep; pstep; pstep
    apply exec_step
    · exact execD_st1p_lane (hi := by decide) (hb := by rfl) (hn := by rfl) (hstore := hw0) ..
    simp only [List.set_cons_succ, List.set_cons_zero, e1]
    apply exec_step
    · exact execD_st1p_lane (hi := by decide) (hb := by rfl) (hn := by rfl) (hstore := hw1) ..
    simp only [List.set_cons_succ, List.set_cons_zero, e2]
    apply exec_step
    · exact execD_st1p_lane (hi := by decide) (hb := by rfl) (hn := by rfl) (hstore := hw2) ..
    simp only [List.set_cons_succ, List.set_cons_zero, e3]
    apply exec_step
    · exact execD_st1p_lane (hi := by decide) (hb := by rfl) (hn := by rfl) (hstore := hw3) ..
    simp only [List.set_cons_succ, List.set_cons_zero, e4]
    apply exec_step
    · exact execD_st1p_lane (hi := by decide) (hb := by rfl) (hn := by rfl) (hstore := hw4) ..
    simp only [List.set_cons_succ, List.set_cons_zero, e5]
    apply exec_step
    · exact execD_st1p_lane (hi := by decide) (hb := by rfl) (hn := by rfl) (hstore := hw5) ..
    simp only [List.set_cons_succ, List.set_cons_zero, e6]
    apply exec_step
    · exact execD_st1p_lane (hi := by decide) (hb := by rfl) (hn := by rfl) (hstore := hw6) ..
    simp only [List.set_cons_succ, List.set_cons_zero, e7]
    apply exec_step
    · exact execD_st1p_lane (hi := by decide) (hb := by rfl) (hn := by rfl) (hstore := hw7) ..
    exact execList_nil _
  · rfl

/-- the eight single-word stores of the epilogue into a 32-byte region -/
theorem write_be8 (mem : List Region) (r : Nat) (name : String) (d : List Nat) (X Y : Nat × Nat × Nat × Nat)
    (hm : mem[r]? = some ⟨name, d, true⟩) (hd : d.length = 32) :
    ∃ m1 m2 m3 m4 m5 m6 m7, writeMem mem (regionBase r) (beBytes X.2.2.2) = .ok m1 ∧
      writeMem m1 (regionBase r + 4) (beBytes X.2.2.1) = .ok m2 ∧
      writeMem m2 (regionBase r + 8) (beBytes X.2.1) = .ok m3 ∧
      writeMem m3 (regionBase r + 12) (beBytes X.1) = .ok m4 ∧
      writeMem m4 (regionBase r + 16) (beBytes Y.2.2.2) = .ok m5 ∧
      writeMem m5 (regionBase r + 20) (beBytes Y.2.2.1) = .ok m6 ∧
      writeMem m6 (regionBase r + 24) (beBytes Y.2.1) = .ok m7 ∧
      writeMem m7 (regionBase r + 28) (beBytes Y.1) = .ok (mem.set r ⟨name, outBytes X ++ outBytes Y, true⟩) := by
  obtain ⟨d0, d1, d2, d3, d4, d5, d6, d7, d8, d9, d10, d11, d12, d13, d14, d15, d16, d17, d18, d19, d20, d21, d22, d23, d24, d25, d26, d27, d28, d29, d30, d31, rfl⟩ := list32 d hd
  have hr : r < mem.length := (List.getElem?_eq_some_iff.mp hm).1
  have hs : ∀ bs, (mem.set r ⟨name, bs, true⟩)[r]? = some ⟨name, bs, true⟩ := fun bs => List.getElem?_set_self hr
  refine ⟨mem.set r ⟨name, beBytes X.2.2.2 ++ [d4, d5, d6, d7, d8, d9, d10, d11, d12, d13, d14, d15, d16, d17, d18, d19, d20, d21, d22, d23, d24, d25, d26, d27, d28, d29, d30, d31], true⟩,
    mem.set r ⟨name, beBytes X.2.2.2 ++ (beBytes X.2.2.1 ++ [d8, d9, d10, d11, d12, d13, d14, d15, d16, d17, d18, d19, d20, d21, d22, d23, d24, d25, d26, d27, d28, d29, d30, d31]), true⟩,
    mem.set r ⟨name, beBytes X.2.2.2 ++ (beBytes X.2.2.1 ++ (beBytes X.2.1 ++ [d12, d13, d14, d15, d16, d17, d18, d19, d20, d21, d22, d23, d24, d25, d26, d27, d28, d29, d30, d31])), true⟩,
    mem.set r ⟨name, outBytes X ++ [d16, d17, d18, d19, d20, d21, d22, d23, d24, d25, d26, d27, d28, d29, d30, d31], true⟩,
    mem.set r ⟨name, outBytes X ++ (beBytes Y.2.2.2 ++ [d20, d21, d22, d23, d24, d25, d26, d27, d28, d29, d30, d31]), true⟩,
    mem.set r ⟨name, outBytes X ++ (beBytes Y.2.2.2 ++ (beBytes Y.2.2.1 ++ [d24, d25, d26, d27, d28, d29, d30, d31])), true⟩,
    mem.set r ⟨name, outBytes X ++ (beBytes Y.2.2.2 ++ (beBytes Y.2.2.1 ++ (beBytes Y.2.1 ++ [d28, d29, d30, d31]))), true⟩,
    ?_, ?_, ?_, ?_, ?_, ?_, ?_, ?_⟩
  · have w := write_region mem r name _ 0 (beBytes X.2.2.2) hm (by simp [beBytes]) (by decide)
    rw [Nat.add_zero] at w
    rw [w]; simp [beBytes]
  · rw [write_region _ r name _ 4 (beBytes X.2.2.1) (hs _) (by simp [beBytes]) (by decide), List.set_set]
    simp [beBytes]
  · rw [write_region _ r name _ 8 (beBytes X.2.1) (hs _) (by simp [beBytes]) (by decide), List.set_set]
    simp [beBytes]
  · rw [write_region _ r name _ 12 (beBytes X.1) (hs _) (by simp [beBytes]) (by decide), List.set_set]
    simp [beBytes, outBytes]
  · rw [write_region _ r name _ 16 (beBytes Y.2.2.2) (hs _) (by simp [beBytes, outBytes]) (by decide), List.set_set]
    simp [beBytes, outBytes]
  · rw [write_region _ r name _ 20 (beBytes Y.2.2.1) (hs _) (by simp [beBytes, outBytes]) (by decide), List.set_set]
    simp [beBytes, outBytes]
  · rw [write_region _ r name _ 24 (beBytes Y.2.1) (hs _) (by simp [beBytes, outBytes]) (by decide), List.set_set]
    simp [beBytes, outBytes]
  · rw [write_region _ r name _ 28 (beBytes Y.1) (hs _) (by simp [beBytes, outBytes]) (by decide), List.set_set]
    simp [beBytes, outBytes]

/-! ### the listing -/

structure X2Env (S : State) (rk src : List Nat) (aRk aSrc : Nat) (rDst : Nat) (dst0 : List Nat) : Prop where
  hG : S.gpr.length = 31
  hV : S.vec.length = 32
  sbox : lookup S.syms "SBox" = some 4294967296
  sb0 : readMem S.mem 4294967296 64 = .ok (sbQuarter 0)
  sb1 : readMem S.mem 4294967360 64 = .ok (sbQuarter 1)
  sb2 : readMem S.mem 4294967424 64 = .ok (sbQuarter 2)
  sb3 : readMem S.mem 4294967488 64 = .ok (sbQuarter 3)
  fSrc : lookup S.frame "src" = some aSrc
  srcLt : aSrc + 32 < 2 ^ 64
  srcR : ∀ k, k < 8 → readMem S.mem (aSrc + 4 * k) 4 = .ok ((src.drop (4 * k)).take 4)
  fRk : lookup S.frame "rk" = some aRk
  rkLt : aRk + 4 * 32 < 2 ^ 64
  rkR : ∀ i, i < 32 → readMem S.mem (aRk + 4 * i) 4 = .ok (lanes 8 4 (rk.getD i 0))
  fDst : lookup S.frame "dst" = some (regionBase rDst)
  dstLt : regionBase rDst + 32 < 2 ^ 64
  dstM : S.mem[rDst]? = some ⟨"dst", dst0, true⟩
  dstLen : dst0.length = 32

def x2Code : List DInstr := pro2Code ++ roundsCodeL .S2 32 ++ epi2Code

theorem blockAt_length2 (src : List Nat) (hsrc : src.length = 32) (e : Nat) (he : e < 2) : (blockAt src e).length = 16 := by
  simp only [blockAt, List.length_take, List.length_drop, hsrc]; omega

set_option maxRecDepth 10000 in
theorem x2_body_generic (S : State) (rk src : List Nat) (aRk aSrc rDst : Nat) (dst0 : List Nat)
    (env : X2Env S rk src aRk aSrc rDst dst0)
    (hrk : rk.length = 32) (hrkb : ∀ x ∈ rk, x < 2 ^ 32) (hsrc : src.length = 32) (hsb : ∀ x ∈ src, x < 256) :
    ∃ s', execList x2Code S = .ok s' ∧
      s'.mem = S.mem.set rDst ⟨"dst", specBlock rk src 0 ++ specBlock rk src 1, true⟩ := by
  obtain ⟨s1', hrun1, hr1⟩ := prologue2_spec S env.hG env.hV aSrc aRk (regionBase rDst) src hsb
    env.sbox env.sb0 env.sb1 env.sb2 env.sb3 env.fSrc env.srcLt env.srcR env.fRk env.fDst
  obtain ⟨s2', hrun2, hr2⟩ := readyL_rounds .S2 (Or.inr rfl) S.mem S.syms S.frame aRk (regionBase rDst)
    (fun i => lanes 8 4 (rk.getD i 0)) env.rkLt env.rkR
    (fun i _ => by rw [unlanes_lanes]; exact Nat.mod_lt _ (by decide)) _ s1' hr1 32 (Nat.le_refl _)
  have hkw : (fun i => unlanes 8 (lanes 8 4 (rk.getD i 0))) = (fun i => rk.getD i 0) := by
    funext i
    rw [unlanes_lanes]; exact Nat.mod_eq_of_lt (getD_lt rk hrkb i)
  simp only [hkw, iterN_take rk _ 32 (by omega), List.take_of_length_le (Nat.le_of_eq hrk)] at hr2
  obtain ⟨m1, m2, m3, m4, m5, m6, m7, hw0, hw1, hw2, hw3, hw4, hw5, hw6, hw7⟩ :=
    write_be8 S.mem rDst "dst" dst0 (rk.foldl stepN (blockWords (blockAt src 0))) (rk.foldl stepN (blockWords (blockAt src 1)))
      env.dstM env.dstLen
  obtain ⟨s3', hrun3, hmem3⟩ := epilogue2_spec S.mem S.syms S.frame _ _ _ s2' m1 m2 m3 m4 m5 m6 m7 _ hr2 env.dstLt
    hw0 hw1 hw2 hw3 hw4 hw5 hw6 hw7
  refine ⟨s3', execList_append_ok (execList_append_ok hrun1 hrun2) hrun3, ?_⟩
  rw [hmem3]
  simp only [specBlock,
    ← block_spec rk _ hrkb (blockAt_length2 src hsrc 0 (by decide)) (blockAt_lt src hsb 0),
    ← block_spec rk _ hrkb (blockAt_length2 src hsrc 1 (by decide)) (blockAt_lt src hsb 1)]

theorem x2_decode :
    (zipDecode Gen.ListArm64Asm.cryptoBlockAsmX2 Gen.ListArm64AsmArr.cryptoBlockAsmX2_arr).toOption.map
        (fun r => r.map erasePc) = some (x2Code ++ [retI]) := by decide +kernel

theorem x2_noRet : x2Code.all (fun i => i.mn != .RET) = true := by decide +kernel

theorem run_x2 (s s' : State) (h : execList x2Code s = .ok s') :
    run Gen.ListArm64Asm.cryptoBlockAsmX2 Gen.ListArm64AsmArr.cryptoBlockAsmX2_arr s = .ok s' :=
  run_of_decode _ _ x2Code x2_decode x2_noRet s s' h

theorem ks2_env (g v rk dst0 src : List Nat) (hg : g.length = 31) (hv : v.length = 32) (hrk : rk.length = 32)
    (hsrc : src.length = 32) (hdst : dst0.length = 32) :
    X2Env (kernelState g v rk dst0 src) rk src (regionBase 3) (regionBase 5) 4 dst0 where
  hG := hg
  hV := hv
  sbox := symTab_sbox
  sb0 := read_sbox _ rfl 0 (by decide)
  sb1 := read_sbox _ rfl 1 (by decide)
  sb2 := read_sbox _ rfl 2 (by decide)
  sb3 := read_sbox _ rfl 3 (by decide)
  fSrc := frame_src
  srcLt := by decide
  srcR := fun k hk => read_region _ 5 ⟨"src", src, false⟩ (4 * k) 4 rfl (by simp only [hsrc]; omega) (by omega)
  fRk := frame_rk
  rkLt := by decide
  rkR := fun i hi => read_rk _ 3 rk rfl hrk i hi
  fDst := frame_dst
  dstLt := by decide
  dstM := rfl
  dstLen := hdst

/-- **the arm64 listing of `cryptoBlockAsmX2` computes the SM4 block function of the specification on each of
    its two blocks**, for every round-key array, whatever the registers and the destination buffer hold at entry -/
theorem kernelX2_eq_spec (g v rk dst0 src : List Nat)
    (hg : g.length = 31) (hv : v.length = 32) (hrk : rk.length = 32) (hrkb : ∀ x ∈ rk, x < 2 ^ 32)
    (hsrc : src.length = 32) (hsb : ∀ x ∈ src, x < 256) (hdst : dst0.length = 32) :
    runDst Gen.ListArm64Asm.cryptoBlockAsmX2 Gen.ListArm64AsmArr.cryptoBlockAsmX2_arr (kernelState g v rk dst0 src)
      = .ok (specBlock rk src 0 ++ specBlock rk src 1) := by
  have env := ks2_env g v rk dst0 src hg hv hrk hsrc hdst
  obtain ⟨s', hrun, hmem⟩ := x2_body_generic _ rk src _ _ _ _ env hrk hrkb hsrc hsb
  unfold runDst
  rw [run_x2 _ s' hrun]
  obtain ⟨g3, v3, m3, sy3, fr3⟩ := s'
  simp only at hmem
  subst hmem
  simp only [ok_bind]
  rw [dst_after g3 v3 _ sy3 fr3 _ rfl rfl rfl _ rfl (by show (4 : Nat) < 6; decide)]
  rfl

end SMGo.Proofs.ISAValArm64

#print axioms SMGo.Proofs.ISAValArm64.kernelX2_eq_spec
