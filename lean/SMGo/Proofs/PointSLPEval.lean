/-
  C15, evaluation of the regenerated straight-line programs (`Gen.PointSLP.add`, `.double`):
    * over any commutative ring they compute the closed forms `addX/addY/addZ`, `dblX/dblY/dblZ` of
      `PointAlgebra.lean` (symbolic evaluation, string comparisons decided by `simp`);
    * evaluation commutes with any map that commutes with the three operations (`eval_map`), and an
      invariant of the operations holds for every register (`eval_inv`);
    * hence `Point.add pointCtx` / `Point.double pointCtx` compute the closed forms on the values
      `val` of their (Montgomery) coordinates, and their results are reduced.
-/
import SMGo.Model.Point
import SMGo.Model.SM2Inst
import SMGo.Gen.PointSLP
import SMGo.Proofs.PointAlgebra
import SMGo.Proofs.PointField

namespace SMGo.Proofs.PointSLPEval
open SMGo SMGo.Model SMGo.Model.SLP SMGo.Proofs.PointAlgebra SMGo.Proofs.PointField
open SMGo.Spec.SM2 (p)

/-- the ring operations as SLP operations -/
def ringOps (K : Type) [CommRing K] : Ops K :=
  { mul := (· * ·), add := (· + ·), sub := (· - ·), square := fun a => a * a, zero := 0 }

section closed
variable {K : Type} [CommRing K]

/-- the regenerated `Add` program computes the RCB closed forms -/
theorem eval_add_ring (b X1 Y1 Z1 X2 Y2 Z2 : K) :
    ((eval (ringOps K) Gen.PointSLP.add
        [("p1.x", X1), ("p1.y", Y1), ("p1.z", Z1), ("p2.x", X2), ("p2.y", Y2), ("p2.z", Z2), ("sm2B", b)]).get 0
          Gen.PointSLP.add_out.1 = addX b X1 Y1 Z1 X2 Y2 Z2) ∧
    ((eval (ringOps K) Gen.PointSLP.add
        [("p1.x", X1), ("p1.y", Y1), ("p1.z", Z1), ("p2.x", X2), ("p2.y", Y2), ("p2.z", Z2), ("sm2B", b)]).get 0
          Gen.PointSLP.add_out.2.1 = addY b X1 Y1 Z1 X2 Y2 Z2) ∧
    ((eval (ringOps K) Gen.PointSLP.add
        [("p1.x", X1), ("p1.y", Y1), ("p1.z", Z1), ("p2.x", X2), ("p2.y", Y2), ("p2.z", Z2), ("sm2B", b)]).get 0
          Gen.PointSLP.add_out.2.2 = addZ b X1 Y1 Z1 X2 Y2 Z2) := by
  refine ⟨?_, ?_, ?_⟩
  · simp [eval, step, Env.get, Gen.PointSLP.add, Gen.PointSLP.add_out, ringOps, addX]
    ring
  · simp [eval, step, Env.get, Gen.PointSLP.add, Gen.PointSLP.add_out, ringOps, addY]
    ring
  · simp [eval, step, Env.get, Gen.PointSLP.add, Gen.PointSLP.add_out, ringOps, addZ]
    ring

/-- the regenerated `Double` program computes the RCB closed forms -/
theorem eval_dbl_ring (b X Y Z : K) :
    ((eval (ringOps K) Gen.PointSLP.double [("p.x", X), ("p.y", Y), ("p.z", Z), ("sm2B", b)]).get 0
          Gen.PointSLP.double_out.1 = dblX b X Y Z) ∧
    ((eval (ringOps K) Gen.PointSLP.double [("p.x", X), ("p.y", Y), ("p.z", Z), ("sm2B", b)]).get 0
          Gen.PointSLP.double_out.2.1 = dblY b X Y Z) ∧
    ((eval (ringOps K) Gen.PointSLP.double [("p.x", X), ("p.y", Y), ("p.z", Z), ("sm2B", b)]).get 0
          Gen.PointSLP.double_out.2.2 = dblZ b X Y Z) := by
  refine ⟨?_, ?_, ?_⟩
  · simp [eval, step, Env.get, Gen.PointSLP.double, Gen.PointSLP.double_out, ringOps, dblX]
    ring
  · simp [eval, step, Env.get, Gen.PointSLP.double, Gen.PointSLP.double_out, ringOps, dblY]
    ring
  · simp [eval, step, Env.get, Gen.PointSLP.double, Gen.PointSLP.double_out, ringOps, dblZ]
    ring

end closed

/-! ### evaluation commutes with homomorphisms of the operations -/

section hom
variable {α β : Type} (f : α → β) (o1 : Ops α) (o2 : Ops β)

/-- the image of an environment -/
def mapEnv (env : Env α) : Env β := env.map (fun kv => (kv.1, f kv.2))

theorem get_map (z : α) (env : Env α) (r : String) :
    (mapEnv f env).get (f z) r = f (env.get z r) := by
  induction env with
  | nil => rfl
  | cons kv env ih =>
    unfold Env.get mapEnv at *
    simp only [List.map_cons, List.find?_cons]
    by_cases h : (kv.1 == r) = true
    · simp [h]
    · simp only [h]
      exact ih

variable (hz : f o1.zero = o2.zero)
  (hmul : ∀ a b, f (o1.mul a b) = o2.mul (f a) (f b))
  (hadd : ∀ a b, f (o1.add a b) = o2.add (f a) (f b))
  (hsub : ∀ a b, f (o1.sub a b) = o2.sub (f a) (f b))
  (hsq : ∀ a, f (o1.square a) = o2.square (f a))
include hz hmul hadd hsub hsq

theorem step_map (env : Env α) (i : Instr) :
    mapEnv f (step o1 env i) = step o2 (mapEnv f env) i := by
  unfold step
  simp only [mapEnv, List.map_cons]
  congr 1
  have ha := get_map f o1.zero env i.a
  have hb := get_map f o1.zero env i.b
  rw [hz] at ha hb
  unfold mapEnv at ha hb
  rw [ha, hb]
  cases i.op <;> simp only [hmul, hadd, hsub, hsq]

theorem eval_map (prog : List Instr) (env : Env α) :
    mapEnv f (eval o1 prog env) = eval o2 prog (mapEnv f env) := by
  induction prog generalizing env with
  | nil => rfl
  | cons i prog ih =>
    unfold eval at *
    rw [List.foldl_cons, List.foldl_cons, ih, step_map f o1 o2 hz hmul hadd hsub hsq]

/-- reading a register after evaluation, through the homomorphism -/
theorem eval_get_map (prog : List Instr) (env : Env α) (r : String) :
    f ((eval o1 prog env).get o1.zero r) = (eval o2 prog (mapEnv f env)).get o2.zero r := by
  rw [← hz, ← get_map f o1.zero, eval_map f o1 o2 (hz) hmul hadd hsub hsq]

end hom

/-! ### invariants of the operations hold for every register -/

section inv
variable {α : Type} (o : Ops α) (P : α → Prop)

theorem get_inv (hz : P o.zero) (env : Env α) (henv : ∀ kv ∈ env, P kv.2) (r : String) :
    P (env.get o.zero r) := by
  unfold Env.get
  cases h : env.find? (fun kv => kv.1 == r) with
  | none => exact hz
  | some kv => exact henv kv (List.mem_of_find?_eq_some h)

variable (hz : P o.zero) (hmul : ∀ a b, P (o.mul a b)) (hadd : ∀ a b, P (o.add a b))
  (hsub : ∀ a b, P (o.sub a b)) (hsq : ∀ a, P (o.square a))
include hmul hadd hsub hsq

theorem eval_inv (prog : List Instr) (env : Env α) (henv : ∀ kv ∈ env, P kv.2) :
    ∀ kv ∈ eval o prog env, P kv.2 := by
  induction prog generalizing env with
  | nil => exact henv
  | cons i prog ih =>
    unfold eval at *
    rw [List.foldl_cons]
    apply ih
    intro kv hkv
    unfold step at hkv
    rcases List.mem_cons.mp hkv with rfl | hkv
    · cases i.op <;> simp only [hmul, hadd, hsub, hsq]
    · exact henv kv hkv

include hz in
theorem eval_get_inv (prog : List Instr) (env : Env α) (henv : ∀ kv ∈ env, P kv.2) (r : String) :
    P ((eval o prog env).get o.zero r) :=
  get_inv o P hz _ (eval_inv o P hmul hadd hsub hsq prog env henv) r

end inv

/-! ### the concrete point operations -/

open SMGo.Model.Point (Pt)

/-- the curve coefficient of the context is `b` in Montgomery form -/
theorem val_b : val SM2.pointCtx.b = ((Spec.SM2.b : Nat) : ZMod p) := by
  show val (SM2.Fp.toMontgomery Gen.SM2Params.param_B) = _
  rw [val_toMontgomery]
  rfl

theorem b_lt : SM2.pointCtx.b < p := toMontgomery_lt _

/-- reduced coordinates -/
def Canon (P : Pt Nat) : Prop := P.x < p ∧ P.y < p ∧ P.z < p

theorem slp_hom_zero : val (Point.slpOps SM2.Fp).zero = (ringOps (ZMod p)).zero := val_zero
theorem slp_hom_mul (a b : Nat) :
    val ((Point.slpOps SM2.Fp).mul a b) = (ringOps (ZMod p)).mul (val a) (val b) := val_mul a b
theorem slp_hom_add (a b : Nat) :
    val ((Point.slpOps SM2.Fp).add a b) = (ringOps (ZMod p)).add (val a) (val b) := val_add a b
theorem slp_hom_sub (a b : Nat) :
    val ((Point.slpOps SM2.Fp).sub a b) = (ringOps (ZMod p)).sub (val a) (val b) := val_sub a b
/-- for `montOps`, `square a` is `mul a a` (definitionally) -/
theorem slp_hom_square (a : Nat) :
    val ((Point.slpOps SM2.Fp).square a) = (ringOps (ZMod p)).square (val a) := val_mul a a

/-- the environments of `Point.add` / `Point.double` -/
def addEnv {α : Type} (b : α) (a c : Pt α) : Env α :=
  [("p1.x", a.x), ("p1.y", a.y), ("p1.z", a.z), ("p2.x", c.x), ("p2.y", c.y), ("p2.z", c.z), ("sm2B", b)]
def dblEnv {α : Type} (b : α) (a : Pt α) : Env α :=
  [("p.x", a.x), ("p.y", a.y), ("p.z", a.z), ("sm2B", b)]

theorem add_unfold (a c : Pt Nat) :
    Point.add SM2.pointCtx a c =
      { x := (eval (Point.slpOps SM2.Fp) Gen.PointSLP.add (addEnv SM2.pointCtx.b a c)).get
                (Point.slpOps SM2.Fp).zero Gen.PointSLP.add_out.1,
        y := (eval (Point.slpOps SM2.Fp) Gen.PointSLP.add (addEnv SM2.pointCtx.b a c)).get
                (Point.slpOps SM2.Fp).zero Gen.PointSLP.add_out.2.1,
        z := (eval (Point.slpOps SM2.Fp) Gen.PointSLP.add (addEnv SM2.pointCtx.b a c)).get
                (Point.slpOps SM2.Fp).zero Gen.PointSLP.add_out.2.2 } := rfl

theorem double_unfold (a : Pt Nat) :
    Point.double SM2.pointCtx a =
      { x := (eval (Point.slpOps SM2.Fp) Gen.PointSLP.double (dblEnv SM2.pointCtx.b a)).get
                (Point.slpOps SM2.Fp).zero Gen.PointSLP.double_out.1,
        y := (eval (Point.slpOps SM2.Fp) Gen.PointSLP.double (dblEnv SM2.pointCtx.b a)).get
                (Point.slpOps SM2.Fp).zero Gen.PointSLP.double_out.2.1,
        z := (eval (Point.slpOps SM2.Fp) Gen.PointSLP.double (dblEnv SM2.pointCtx.b a)).get
                (Point.slpOps SM2.Fp).zero Gen.PointSLP.double_out.2.2 } := rfl

theorem mapEnv_addEnv {α β : Type} (f : α → β) (b : α) (a c : Pt α) :
    mapEnv f (addEnv b a c) = addEnv (f b) ⟨f a.x, f a.y, f a.z⟩ ⟨f c.x, f c.y, f c.z⟩ := rfl
theorem mapEnv_dblEnv {α β : Type} (f : α → β) (b : α) (a : Pt α) :
    mapEnv f (dblEnv b a) = dblEnv (f b) ⟨f a.x, f a.y, f a.z⟩ := rfl

theorem val_get (prog : List Instr) (env : Env Nat) (r : String) :
    val ((eval (Point.slpOps SM2.Fp) prog env).get (Point.slpOps SM2.Fp).zero r) =
      (eval (ringOps (ZMod p)) prog (mapEnv val env)).get (ringOps (ZMod p)).zero r :=
  eval_get_map val (Point.slpOps SM2.Fp) (ringOps (ZMod p)) slp_hom_zero slp_hom_mul
    slp_hom_add slp_hom_sub slp_hom_square prog env r

/-- `Add` on values: the closed forms -/
theorem add_val (a c : Pt Nat) :
    val (Point.add SM2.pointCtx a c).x =
      addX (Spec.SM2.b : ZMod p) (val a.x) (val a.y) (val a.z) (val c.x) (val c.y) (val c.z) ∧
    val (Point.add SM2.pointCtx a c).y =
      addY (Spec.SM2.b : ZMod p) (val a.x) (val a.y) (val a.z) (val c.x) (val c.y) (val c.z) ∧
    val (Point.add SM2.pointCtx a c).z =
      addZ (Spec.SM2.b : ZMod p) (val a.x) (val a.y) (val a.z) (val c.x) (val c.y) (val c.z) := by
  obtain ⟨h1, h2, h3⟩ :=
    eval_add_ring (Spec.SM2.b : ZMod p) (val a.x) (val a.y) (val a.z) (val c.x) (val c.y) (val c.z)
  rw [add_unfold]
  simp only [val_get, mapEnv_addEnv, val_b]
  exact ⟨h1, h2, h3⟩

/-- `Double` on values: the closed forms -/
theorem double_val (a : Pt Nat) :
    val (Point.double SM2.pointCtx a).x = dblX (Spec.SM2.b : ZMod p) (val a.x) (val a.y) (val a.z) ∧
    val (Point.double SM2.pointCtx a).y = dblY (Spec.SM2.b : ZMod p) (val a.x) (val a.y) (val a.z) ∧
    val (Point.double SM2.pointCtx a).z = dblZ (Spec.SM2.b : ZMod p) (val a.x) (val a.y) (val a.z) := by
  obtain ⟨h1, h2, h3⟩ := eval_dbl_ring (Spec.SM2.b : ZMod p) (val a.x) (val a.y) (val a.z)
  rw [double_unfold]
  simp only [val_get, mapEnv_dblEnv, val_b]
  exact ⟨h1, h2, h3⟩

/-- the results of `Add` are reduced (for reduced inputs) -/
theorem add_canon (a c : Pt Nat) (ha : Canon a) (hc : Canon c) : Canon (Point.add SM2.pointCtx a c) := by
  have henv : ∀ kv ∈ addEnv SM2.pointCtx.b a c, kv.2 < p := by
    intro kv hkv
    simp only [addEnv, List.mem_cons, List.not_mem_nil, or_false] at hkv
    rcases hkv with rfl | rfl | rfl | rfl | rfl | rfl | rfl
    exacts [ha.1, ha.2.1, ha.2.2, hc.1, hc.2.1, hc.2.2, b_lt]
  have key := eval_get_inv (Point.slpOps SM2.Fp) (· < p) zero_lt mul_lt add_lt sub_lt (fun a => mul_lt a a)
    Gen.PointSLP.add _ henv
  rw [add_unfold]
  exact ⟨key Gen.PointSLP.add_out.1, key Gen.PointSLP.add_out.2.1, key Gen.PointSLP.add_out.2.2⟩

theorem double_canon (a : Pt Nat) (ha : Canon a) : Canon (Point.double SM2.pointCtx a) := by
  have henv : ∀ kv ∈ dblEnv SM2.pointCtx.b a, kv.2 < p := by
    intro kv hkv
    simp only [dblEnv, List.mem_cons, List.not_mem_nil, or_false] at hkv
    rcases hkv with rfl | rfl | rfl | rfl
    exacts [ha.1, ha.2.1, ha.2.2, b_lt]
  have key := eval_get_inv (Point.slpOps SM2.Fp) (· < p) zero_lt mul_lt add_lt sub_lt (fun a => mul_lt a a)
    Gen.PointSLP.double _ henv
  rw [double_unfold]
  exact ⟨key Gen.PointSLP.double_out.1, key Gen.PointSLP.double_out.2.1, key Gen.PointSLP.double_out.2.2⟩

end SMGo.Proofs.PointSLPEval
