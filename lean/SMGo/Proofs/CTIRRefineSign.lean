/-
  Refinement MODULO CALLEES AND EXTERNALS: the generated IR (SMGo/Gen/CTIRProg.lean) of
    * `fn_99` sm2.ensure32Bytes  vs  `Model.SM2.ensure32`                     (`ir_ensure32Bytes_eq_model`),
    * `fn_98` sm2.SignHashed     vs  `Model.SM2.signHashed` / `signLoop`      (`ir_signHashed_eq_model`, body level
      `sign_body` for any program containing functions 0, 1, 98, 99)
  of /repo/sm2/sm2.go (lines 192-285), over an arbitrary model context `X : Model.SM2.Ctx α β`.
  Style of SMGo/Proofs/CTIRRefineField.lean / CTIRRefineMixed.lean (`Computes`, `Pre`, `Fails`, explicit fuels, no
  termination hypothesis).  TestPrivateKey (1) and ConstantTimeCmp (0) are the proved refinements of
  CTIRRefineCurve.lean / CTIRRefineUtils.lean (body level); everything else SignHashed calls is a hypothesis.

  HYPOTHESES
  * `Callees P G O X enc encS Fsbm Fgax Fsb Finv Ftb`: ScalarBaseMult (87) computes `Model.SM2.scalarBaseMult X`
    (`[ptV enc r, 0]` / `[nilPointV, 1]` / `CalleeFails`), GetAffineX (89) computes `Point.getAffineX X.C`, and the
    scalar-field methods SetBytes (64, results receiver / pointer / error), Invert (57), ToBigInt (71) compute
    `Field.scalarSetBytes X.S`, `Field.invert X.S`, `Field.toNat X.S` on `elemV (encS ·)`; the receiver of SetBytes /
    Invert is any `old` with `Out4 old` (four limbs below 2^64; the IR only passes the fresh `[0, 0, 0, 0]`).
  * `BigOk O`: the `math/big` externals on IR integers (SetBytes 7 = `Bytes.toNatBE`, Add 0, Sub 9, Mul 6,
    Mod 4 = Euclidean `%`, Sign 8, FillBytes 3 = `Bytes.ofNatBE len`, ByteLen 1 = length of `Bytes.ofNatMin`), and
    `fmt.Errorf` (10) returns one value.  Proved for the driver's oracle: `stdOracle_bigOk`.
  * `ReaderOk O rd sc`: external 11 `io.ReadFull` at reader position `p` is the model's `readFull (sc p) 32 []` and
    leaves `sc (p + 1)`.  Satisfiable: `readerOracle_ok` (with `readerOracle_bigOk`).
  * `Globals G X`: `G 5/15/17 = bytesV (nMinus1Bytes/nBytes/nBytes33 X)`, `G 16 = .int X.n`, `G 18 = .int 1`.
  * `priv.length < 2^63`.

  FUEL: `fuelSign Fsbm Fgax Fsb Finv Ftb (avail (sc 0))
          = (Fsbm + Fgax + Fsb + Finv + Ftb + 1218) · (avail (sc 0) / 32 + 1) + 623` (`fuelSign_eq`);
        ensure32Bytes: `fuelEns = 24`.
  The model's loop is fuel-indexed (`avail sc / 32 + 1`); its exhaustion (`.err` where the Go loop would go on) is
  proved impossible: every successful `readFull … 32` lowers `avail` by 32 (`SM2SignBytes.readFull32`), so the
  induction `l_loop` carries `avail (sc p) / 32 + 1 ≤ n`.  No hypothesis needed.

  MODEL / IR DISAGREEMENTS found (each excluded by a named hypothesis; none is reachable for the SM2 parameters):
  1. `ensure32Bytes(v)` for `v ≥ 2^256` (more than 32 bytes): the IR, like Go's `buf[32-len(bytes):]`, is STUCK (slice
     bounds out of range); the model `ensure32 v = pad32 (ofNatMin v)` RETURNS the unpadded encoding (33+ bytes).
     Proved: `ir_ensure32Bytes_long_stuck`.  Not reachable from SignHashed (r, s < n ≤ 2^256).
  2. The ignored error of `d1.SetBytes(buf[:])`: IR statement `.call [31, 6, 6] 64 [(.var 31), (.var 48)]` sends the
     pointer result AND the error to the blank variable 6; on SetBytes' error path the receiver is returned unchanged,
     so the IR goes on with `d1 = 0` (the fresh `new(SM2ScalarElement)`), computes `s` from `Invert(0)` and
     returns / continues normally; the model (`signLoop`, branch commented "excluded: priv ≤ n-2") says `.panic`.
     Input: any accepted `priv` with `scalarSetBytes X.S (ofNatBE 32 (toNatBE priv + 1)) = .err`, i.e. a context whose
     scalar field's `minusOneEncoding` is below `d + 1` although TestPrivateKey accepted `d` (e.g. `X.S` for a smaller
     modulus than `X.n`).  Proved: `l_inv_err`.  Hypothesis `hne` of the main theorem.
  3. `FillBytes` that does not fit: the model `fillBytes len v` panics for `v ≥ 256^len`; an oracle satisfying `BigOk`
     truncates (so does `stdOracle`), the IR goes on.  (a) `rkInt.FillBytes(rkBuf[:33])`: `r + k` with `r < n`,
     `k < 2^256`; reachable only if `n > 2^264 - 2^256`; excluded by `hn : X.n ≤ 256^32`.  (b) `d1Int.FillBytes(buf[:32])`:
     NOT reachable, proved without hypothesis: TestPrivateKey = 0 implies `d + 1 < 2^256` (`priv_bound`).
  4. `n = 0`: `Mod` by 0 (Go panics; Lean's `a % 0 = a` on both sides) and the model's natural-number
     `(rk·t + (n - r % n)) % n` differs from the IR's integer `(rk·t - r) % n` when `n = 0`.  Excluded by `hn0 : 0 < X.n`.
  Not disagreements: the nil-error results are `[bytesV [], bytesV [], .int code]`, `code = 1` for an invalid key
  (after `fmt.Errorf`) and for an error of ScalarBaseMult, the reader's own error value after a failed read; the
  model's "bytes consumed" count has no counterpart in the IR (the IR returns r, s, err only).
-/
import SMGo.Proofs.CTIRRefinePointA
import SMGo.Proofs.CTIRRefineComb
import SMGo.Proofs.CTIRRefineCurve
import SMGo.Proofs.SM2SignBytes
import SMGo.Proofs.UtilsCmp
import SMGo.Model.SM2Proto
open SMGo SMGo.Model.CTIR SMGo.Gen.CTIRProg SMGo.Proofs.CTIRRefineUtils SMGo.Proofs.CTIRRefineField
open SMGo.Proofs.CTIRRefineComb (CalleeFails Fails nilPointV evIn_ext)
open SMGo.Proofs.CTIRRefinePointA (ptV)
set_option linter.unusedSimpArgs false
set_option linter.unusedVariables false

namespace SMGo.Proofs.CTIRRefineSign

open SMGo.Model.SM2 (Script readFull avail signLoop signHashed fillBytes ensure32 nBytes nBytes33 nMinus1Bytes)

/-! ## The model, one layer per phase of the loop body -/

section ModelLayers
variable {α β : Type}

abbrev StepOut := Outcome (Option (Bytes × Bytes))

/-- s and the outputs -/
def mS (X : Model.SM2.Ctx α β) (rInt rkInt : Nat) (d1 : β) : StepOut :=
  let d1Inv := Model.Field.invert X.S d1
  let sInt := (rkInt * Model.Field.toNat X.S d1Inv + (X.n - rInt % X.n)) % X.n
  if sInt = 0 then .ok none else .ok (some (ensure32 rInt, ensure32 sInt))

/-- d + 1 and its inverse -/
def mInv (X : Model.SM2.Ctx α β) (priv : Bytes) (rInt rkInt : Nat) : StepOut :=
  match fillBytes 32 (Bytes.toNatBE priv + 1) with
  | .ok buf =>
    match Model.Field.scalarSetBytes X.S buf with
    | .ok d1 => mS X rInt rkInt d1
    | _ => .panic
  | _ => .panic

/-- the test r + k = n -/
def mRk (X : Model.SM2.Ctx α β) (priv : Bytes) (rInt : Nat) (K : Bytes) : StepOut :=
  match fillBytes 33 (rInt + Bytes.toNatBE K) with
  | .ok rkBuf =>
    match Model.Utils.constantTimeCmp (some rkBuf) (some (nBytes33 X)) 33 with
    | .ok c33 => if c33 = 0 then .ok none else mInv X priv rInt (rInt + Bytes.toNatBE K)
    | _ => .panic
  | _ => .panic

/-- r -/
def mR (X : Model.SM2.Ctx α β) (priv e K : Bytes) (kG : Model.Point.Pt α) : StepOut :=
  let rInt := (Model.Point.getAffineX X.C kG + Bytes.toNatBE e) % X.n
  if rInt = 0 then .ok none else mRk X priv rInt K

/-- kG -/
def mKG (X : Model.SM2.Ctx α β) (priv e K : Bytes) : StepOut :=
  match Model.SM2.scalarBaseMult X K with
  | .ok kG => mR X priv e K kG
  | .err => .err
  | .panic => .panic

/-- one candidate `K`: `.ok none` = `continue`, `.ok (some (r, s))` = the signature -/
def mStep (X : Model.SM2.Ctx α β) (priv e K : Bytes) : StepOut :=
  match Model.Utils.constantTimeCmp (some K) (some (nBytes X)) 32 with
  | .ok c => if c ≥ 0 ∨ K.all (· == 0) then .ok none else mKG X priv e K
  | _ => .panic

theorem signLoop_succ (X : Model.SM2.Ctx α β) (priv e : Bytes) (fuel : Nat) (sc : Script) :
    signLoop X priv e (fuel + 1) sc =
      match readFull sc 32 [] with
      | (none, _) => .err
      | (some K, sc') =>
        match mStep X priv e K with
        | .ok none => signLoop X priv e fuel sc'
        | .ok (some rs) => .ok (rs, sc')
        | .err => .err
        | .panic => .panic := by
  rw [signLoop]
  rcases readFull sc 32 [] with ⟨_ | K, sc'⟩
  · rfl
  · simp only [mStep]
    cases Model.Utils.constantTimeCmp (some K) (some (nBytes X)) 32 with
    | err => rfl
    | panic => rfl
    | ok c =>
      simp only
      by_cases hc : c ≥ 0 ∨ K.all (· == 0) = true
      · rw [if_pos hc, if_pos hc]
      · rw [if_neg hc, if_neg hc]
        simp only [mKG]
        cases Model.SM2.scalarBaseMult X K with
        | err => rfl
        | panic => rfl
        | ok kG =>
          simp only [mR]
          by_cases hr : (Model.Point.getAffineX X.C kG + Bytes.toNatBE e) % X.n = 0
          · rw [if_pos hr, if_pos hr]
          · rw [if_neg hr, if_neg hr]
            simp only [mRk]
            cases fillBytes 33 ((Model.Point.getAffineX X.C kG + Bytes.toNatBE e) % X.n + Bytes.toNatBE K) with
            | err => rfl
            | panic => rfl
            | ok rkBuf =>
              simp only
              cases Model.Utils.constantTimeCmp (some rkBuf) (some (nBytes33 X)) 33 with
              | err => rfl
              | panic => rfl
              | ok c33 =>
                simp only
                by_cases h33 : c33 = 0
                · rw [if_pos h33, if_pos h33]
                · rw [if_neg h33, if_neg h33]
                  simp only [mInv]
                  cases fillBytes 32 (Bytes.toNatBE priv + 1) with
                  | err => rfl
                  | panic => rfl
                  | ok buf =>
                    simp only
                    cases Model.Field.scalarSetBytes X.S buf with
                    | err => rfl
                    | panic => rfl
                    | ok d1 =>
                      simp only [mS]
                      split <;> rfl

end ModelLayers


/-! ## Hypotheses on the external world -/

/-- the `math/big` externals and `fmt.Errorf` (all satisfied by `stdOracle extKinds tape`: `stdOracle_bigOk`).
    Big integers are IR integers; `FillBytes` is only specified on naturals (and truncates like
    `Bytes.ofNatBE` when the value does not fit: Go panics there, see the remarks at the theorems). -/
structure BigOk (O : Oracle) : Prop where
  setBytes : ∀ b : Bytes, O 7 [bytesV b] = [.int ((Bytes.toNatBE b : Nat) : Int)]
  add : ∀ a b : Int, O 0 [.int a, .int b] = [.int (a + b)]
  sub : ∀ a b : Int, O 9 [.int a, .int b] = [.int (a - b)]
  mul : ∀ a b : Int, O 6 [.int a, .int b] = [.int (a * b)]
  mod : ∀ a m : Int, O 4 [.int a, .int m] = [.int (a % m)]
  sign : ∀ a : Int, O 8 [.int a] = [.int (if a < 0 then -1 else if a = 0 then 0 else 1)]
  fillBytes : ∀ (v : Nat) (buf : Bytes), O 3 [.int (v : Int), bytesV buf] = [bytesV (Bytes.ofNatBE buf.length v)]
  byteLen : ∀ v : Nat, O 1 [.int (v : Int)] = [.int (((Bytes.ofNatMin v).length : Nat) : Int)]
  errorf : ∀ args : List Val, ∃ v, O 10 args = [v]

/-- the reader: external 11 `io.ReadFull(rd, buf[:32])` at reader position `p` behaves like the model's
    `readFull` on the script `sc p`, and leaves the script `sc (p + 1)` -/
def ReaderOk (O : Oracle) (rd : Val) (sc : Nat → Script) : Prop :=
  ∀ p : Nat, match readFull (sc p) 32 [] with
    | (some b, rest) =>
        O 11 [rd, .int 32, .int (p : Int)] = [bytesV b, .int 32, .int 0, .int ((p + 1 : Nat) : Int)] ∧ sc (p + 1) = rest
    | (none, rest) =>
        ∃ buf n e, O 11 [rd, .int 32, .int (p : Int)] = [buf, .int n, .int e, .int ((p + 1 : Nat) : Int)] ∧ e ≠ 0 ∧
          sc (p + 1) = rest

/-! ## Small evaluation lemmas on byte strings -/

section Eval
variable {P : Prog} {G : Nat → Val} {O : Oracle}

theorem bytesV_replicate (n : Nat) : bytesV (List.replicate n 0) = .arr (List.replicate n (.int 0)) := by
  simp only [bytesV, List.map_replicate]; rfl

/-- `make([]byte, n)` -/
theorem evalV_mkBytes {env : Env} {n : Expr} {L : Nat} (hn : evalV G env n = some (.int (L : Int))) :
    evalV G env (.mk n (.lit 0)) = some (bytesV (List.replicate L 0)) := by
  rw [evalV_mk, hn, evalV_lit]
  simp only
  rw [if_neg (by omega), bytesV_replicate, Int.toNat_natCast]

theorem evalV_lenB {env : Env} {a : Expr} {x : Bytes} (ha : evalV G env a = some (bytesV x)) :
    evalV G env (.len a) = some (.int (x.length : Int)) := by
  rw [evalV_len, ha]; simp [bytesV]

theorem sliceList_bytes (x : Bytes) (l h : Nat) (h1 : l ≤ h) (h2 : h ≤ x.length) :
    sliceList (x.map (fun x => Val.int (Int.ofNat x.toNat))) (l : Int) (h : Int)
      = some (((x.drop l).take (h - l)).map (fun x => Val.int (Int.ofNat x.toNat))) := by
  unfold sliceList
  rw [if_neg (by simp only [List.length_map]; omega)]
  simp only [Int.toNat_natCast, List.map_take, List.map_drop]

theorem evalV_sliceB {env : Env} {a lo hi : Expr} {x : Bytes} {l h : Nat}
    (ha : evalV G env a = some (bytesV x)) (hl : evalV G env lo = some (.int (l : Int)))
    (hh : evalV G env hi = some (.int (h : Int))) (h1 : l ≤ h) (h2 : h ≤ x.length) :
    evalV G env (.slice a lo hi) = some (bytesV ((x.drop l).take (h - l))) := by
  rw [evalV_slice, ha, hl, hh]
  simp only [bytesV]
  rw [sliceList_bytes x l h h1 h2]; rfl

theorem evalV_catB {env : Env} {a b : Expr} {x y : Bytes}
    (ha : evalV G env a = some (bytesV x)) (hb : evalV G env b = some (bytesV y)) :
    evalV G env (.cat a b) = some (bytesV (x ++ y)) := by
  rw [evalV_cat, ha, hb]; simp [bytesV]

theorem evar {env : Env} {x : Nat} {v : Val} (h : env x = v) : evalV G env (.var x) = some v := by
  rw [evalV_var, h]

/-- an external call with one result -/
theorem ext1 {env : Env} {x name : Nat} {leaky : Bool} {args : List Expr} {vs : List Val} {v : Val}
    (ha : evalVs G env args = some vs) (hO : O name vs = [v]) :
    EvIn P G O 1 env (.ext [x] name leaky args) (env.set x v) .norm :=
  evIn_ext ha (by rw [hO]; rfl)

end Eval

/-! ## `ensure32Bytes` -/

def ensStmts : List Stmt := [.ext [2] 1 false [(.var 0)],
    .declass 3 14 (.var 2),
    .ext [4] 3 false [(.var 0), (.mk (.var 3) (.lit 0))],
    .assign 5 [] (.var 4),
    .assign 6 [] (.mk (.lit 32) (.lit 0)),
    .assign 7 [] (.op2 .min (.op2 (.sub .i64) (.len (.var 6)) (.op2 (.sub .i64) (.lit 32) (.len (.var 5)))) (.len (.var 5)))]
def ensLo : Expr := .op2 (.sub .i64) (.lit 32) (.len (.var 5))
def ensCopy : Stmt := .assign 6 [] (.cat (.slice (.var 6) (.lit 0) ensLo) (.cat (.slice (.var 5) (.lit 0) (.var 7)) (.slice (.var 6) (.op2 (.add .i64) ensLo (.var 7)) (.len (.var 6)))))

theorem fn_99_body : fn_99.body = seqs (ensStmts ++ [.seq ensCopy (.seq (.ret [(.var 6)]) .panic)]) := rfl

section Ensure
variable {P : Prog} {G : Nat → Val} {O : Oracle}

theorem ofNatBE_min (v : Nat) : Bytes.ofNatBE (Bytes.ofNatMin v).length v = Bytes.ofNatMin v := by
  have := SM2SignBytes.ofNatBE_toNatBE (Bytes.ofNatMin v)
  rwa [SM2SignBytes.toNatBE_ofNatMin] at this

/-- the state of `ensure32Bytes` before the copy: `bytes` (5), the zeroed `buf` (6), the copy count (7) -/
theorem ens_prefix (hB : BigOk O) (v : Nat) (hL : (Bytes.ofNatMin v).length ≤ 64) :
    ∃ env', Pre P G O 16 (Env.ofList [.int (v : Int)]) ensStmts env' ∧
      env' 5 = bytesV (Bytes.ofNatMin v) ∧ env' 6 = bytesV (List.replicate 32 0) ∧
      env' 7 = .int (min (32 - (32 - ((Bytes.ofNatMin v).length : Int))) ((Bytes.ofNatMin v).length : Int)) := by
  let m := Bytes.ofNatMin v
  have hLm : m.length ≤ 64 := hL
  let e0 : Env := Env.ofList [.int (v : Int)]
  let e1 := e0.set 2 (.int ((m.length : Nat) : Int))
  let e2 := e1.set 3 (.int ((m.length : Nat) : Int))
  let e3 := e2.set 4 (bytesV m)
  let e4 := e3.set 5 (bytesV m)
  let e5 := e4.set 6 (bytesV (List.replicate 32 0))
  let e6 := e5.set 7 (.int (min (32 - (32 - (m.length : Int))) (m.length : Int)))
  have c1 : EvIn P G O 1 e0 (.ext [2] 1 false [(.var 0)]) e1 .norm :=
    ext1 (vs := [.int (v : Int)]) rfl (hB.byteLen v)
  have c2 : EvIn P G O 1 e1 (.declass 3 14 (.var 2)) e2 .norm := EvIn.declass rfl
  have c3 : EvIn P G O 1 e2 (.ext [4] 3 false [(.var 0), (.mk (.var 3) (.lit 0))]) e3 .norm := by
    have q : evalV G e2 (.mk (.var 3) (.lit 0)) = some (bytesV (List.replicate m.length 0)) :=
      evalV_mkBytes (L := m.length) rfl
    refine ext1 (vs := [.int (v : Int), bytesV (List.replicate m.length 0)]) ?_ ?_
    · rw [evalVs_cons, evalVs_cons, q]; rfl
    · rw [hB.fillBytes, List.length_replicate, ofNatBE_min]
  have c4 : EvIn P G O 1 e3 (.assign 5 [] (.var 4)) e4 .norm := EvIn.assign rfl
  have c5 : EvIn P G O 1 e4 (.assign 6 [] (.mk (.lit 32) (.lit 0))) e5 .norm := EvIn.assign (evalV_mk32 _)
  have c6 : EvIn P G O 1 e5 (.assign 7 [] (.op2 .min (.op2 (.sub .i64) (.len (.var 6)) (.op2 (.sub .i64) (.lit 32) (.len (.var 5)))) (.len (.var 5)))) e6 .norm := by
    refine EvIn.assign ?_
    have l5 : evalV G e5 (.len (.var 5)) = some (.int (m.length : Int)) := evalV_lenB (x := m) rfl
    have l6 : evalV G e5 (.len (.var 6)) = some (.int ((32 : Nat) : Int)) := by
      have := evalV_lenB (G := G) (env := e5) (a := .var 6) (x := List.replicate 32 0) rfl
      rwa [List.length_replicate] at this
    have s1 : evalV G e5 (.op2 (.sub .i64) (.lit 32) (.len (.var 5))) = some (.int (32 - (m.length : Int))) := by
      rw [evalV_op2, evalV_lit, l5]
      simp only [evalOp2, Option.map_some]
      rw [norm_i64_small (by omega) (by omega)]
    have s2 : evalV G e5 (.op2 (.sub .i64) (.len (.var 6)) (.op2 (.sub .i64) (.lit 32) (.len (.var 5))))
        = some (.int (32 - (32 - (m.length : Int)))) := by
      rw [evalV_op2, l6, s1]
      simp only [evalOp2, Option.map_some]
      rw [norm_i64_small (by omega) (by omega)]
      rfl
    rw [evalV_op2, s2, l5]
    simp only [evalOp2, Option.map_some]
    rw [Int.min_def]
  exact ⟨e6, (Pre.cons c1 (Pre.cons c2 (Pre.cons c3 (Pre.cons c4 (Pre.cons c5 (Pre.cons c6 (Pre.nil _))))))).mono (by decide),
    rfl, rfl, rfl⟩

/-- fuel for `ensure32Bytes` -/
def fuelEns : Nat := 24

/-- **ensure32Bytes**, values of at most 32 bytes: the IR returns the model's `ensure32 v` -/
theorem ens_computes (h99 : P[99]? = some fn_99) (hB : BigOk O) (v : Nat) (hv : v < 256 ^ 32) :
    Computes P G O 99 fuelEns [.int (v : Int)] [bytesV (ensure32 v)] := by
  have hL : (Bytes.ofNatMin v).length ≤ 32 := SM2SignBytes.ofNatMin_length_le v 32 hv
  obtain ⟨env, hpre, h5, h6, h7⟩ := ens_prefix (P := P) (G := G) hB v (by omega)
  generalize hm : Bytes.ofNatMin v = m at *
  have h7' : env 7 = .int ((m.length : Nat) : Int) := by rw [h7]; congr 1; omega
  have lo : evalV G env ensLo = some (.int (((32 - m.length : Nat) : Nat) : Int)) := by
    have l5 : evalV G env (.len (.var 5)) = some (.int (m.length : Int)) := evalV_lenB (x := m) (evar h5)
    rw [ensLo, evalV_op2, evalV_lit, l5]
    simp only [evalOp2, Option.map_some]
    rw [norm_i64_small (by omega) (by omega)]
    congr 2; omega
  have l6 : evalV G env (.len (.var 6)) = some (.int ((32 : Nat) : Int)) := by
    have := evalV_lenB (G := G) (env := env) (a := .var 6) (x := List.replicate 32 0) (evar h6)
    rwa [List.length_replicate] at this
  have hi : evalV G env (.op2 (.add .i64) ensLo (.var 7)) = some (.int ((32 : Nat) : Int)) := by
    rw [evalV_op2, lo, evalV_var, h7']
    simp only [evalOp2, Option.map_some]
    rw [norm_i64_small (by omega) (by omega)]
    congr 2; omega
  have p1 : evalV G env (.slice (.var 6) (.lit 0) ensLo) = some (bytesV (List.replicate (32 - m.length) 0)) := by
    have := evalV_sliceB (G := G) (env := env) (a := .var 6) (lo := .lit 0) (hi := ensLo) (x := List.replicate 32 0) (l := 0)
      (h := 32 - m.length) (evar h6) rfl lo (by omega) (by rw [List.length_replicate]; omega)
    rw [this, Nat.sub_zero, List.drop_zero, List.take_replicate, Nat.min_eq_left (by omega)]
  have p2 : evalV G env (.slice (.var 5) (.lit 0) (.var 7)) = some (bytesV m) := by
    have := evalV_sliceB (G := G) (env := env) (a := .var 5) (lo := .lit 0) (hi := .var 7) (x := m) (l := 0)
      (h := m.length) (evar h5) rfl (evar h7') (by omega) (by omega)
    rw [this, Nat.sub_zero, List.drop_zero, List.take_length]
  have p3 : evalV G env (.slice (.var 6) (.op2 (.add .i64) ensLo (.var 7)) (.len (.var 6))) = some (bytesV []) := by
    have := evalV_sliceB (G := G) (env := env) (a := .var 6) (lo := .op2 (.add .i64) ensLo (.var 7)) (hi := .len (.var 6))
      (x := List.replicate 32 0) (l := 32) (h := 32) (evar h6) hi l6 (by omega) (by rw [List.length_replicate]; omega)
    rw [this, Nat.sub_self, List.take_zero]
  have cp : EvIn P G O 1 env ensCopy (env.set 6 (bytesV (Model.Point.pad32 m))) .norm := by
    refine EvIn.assign ?_
    have := evalV_catB (G := G) p1 (evalV_catB (G := G) p2 p3)
    rw [this]
    simp [Model.Point.pad32]
  have sr : evalVs G (env.set 6 (bytesV (Model.Point.pad32 m))) [(.var 6)] = some [bytesV (Model.Point.pad32 m)] := rfl
  refine Computes.of_body h99 rfl rfl (env' := env.set 6 (bytesV (Model.Point.pad32 m))) ?_
  rw [fn_99_body]
  have : ensure32 v = Model.Point.pad32 m := by rw [← hm]; rfl
  rw [this]
  exact ((hpre _).1 _ _ _ (EvIn.seq cp (EvIn.seq_stop (EvIn.ret sr) (by simp)))).mono (by decide)

/-- **ensure32Bytes**, longer values (`v ≥ 2^256`): the IR (Go: `buf[32-len(bytes):]`, slice bounds out of range) is
    STUCK, whereas the model `ensure32 v` returns the unpadded encoding of more than 32 bytes: a model/IR
    DISAGREEMENT outside the domain used by SignHashed (r, s < n ≤ 2^256). -/
theorem ens_stuck (h99 : P[99]? = some fn_99) (hB : BigOk O) (v : Nat) (hv : 256 ^ 32 ≤ v) (hv2 : v < 256 ^ 64) :
    ∀ f, runV P G O f 99 [.int (v : Int)] = .stuck := by
  have hL : 32 < (Bytes.ofNatMin v).length := SM2SignBytes.ofNatMin_length_gt v 32 hv
  have hL2 : (Bytes.ofNatMin v).length ≤ 64 := SM2SignBytes.ofNatMin_length_le v 64 hv2
  obtain ⟨env, hpre, h5, h6, h7⟩ := ens_prefix (P := P) (G := G) hB v hL2
  generalize hm : Bytes.ofNatMin v = m at *
  refine runV_of_Stuck h99 ?_
  rw [fn_99_body]
  refine (hpre _).2 (Stuck.seq_left (Stuck.assign ?_))
  have l5 : evalV G env (.len (.var 5)) = some (.int (m.length : Int)) := evalV_lenB (x := m) (evar h5)
  have lo : evalV G env ensLo = some (.int (32 - (m.length : Int))) := by
    rw [ensLo, evalV_op2, evalV_lit, l5]
    simp only [evalOp2, Option.map_some]
    rw [norm_i64_small (by omega) (by omega)]
  have p1 : evalV G env (.slice (.var 6) (.lit 0) ensLo) = none := by
    rw [evalV_slice, evalV_var, h6, evalV_lit, lo]
    simp only [bytesV, sliceList]
    rw [if_pos (by omega)]
    rfl
  rw [evalV_cat, p1]

end Ensure


/-! ## `SignHashed`: the statements of the generated body, phase by phase

  `restX` is the loop body from phase X to its end; each phase is a list of statements that end normally (`ssX`)
  followed by a test (`continue` / `return`) and the rest. -/

def retErr : Stmt := .ret [(.var 3), (.var 4), (.var 5)]

/-- outputs -/
def restOut : Stmt := seqs [.call [55] 99 [(.var 26)], .call [56] 99 [(.var 27)], .ret [(.var 55), (.var 56), (.lit 0)]]

/-- s = ((r + k) · (1 + d)⁻¹ − r) mod n -/
def ssS : List Stmt := [.ext [50] 6 false [(.var 28), (.var 49)],
    .assign 27 [] (.var 50),
    .ext [51] 9 false [(.var 27), (.var 26)],
    .assign 27 [] (.var 51),
    .ext [52] 4 false [(.var 27), (.glob 16)],
    .assign 27 [] (.var 52),
    .ext [53] 8 false [(.var 27)],
    .declass 54 13 (.op2 .eq (.var 53) (.lit 0))]
def restS : Stmt := seqs (ssS ++ [.seq (.ite (.var 54) (.cont) .skip) restOut])

/-- (1 + d)⁻¹ -/
def ssD : List Stmt := [.ext [46] 7 false [(.var 1)],
    .assign 29 [] (.var 46),
    .ext [47] 0 false [(.var 29), (.glob 18)],
    .assign 30 [] (.var 47),
    .assign 48 [] (.mk (.lit 32) (.lit 0)),
    .ext [48] 3 false [(.var 30), (.var 48)]]
def sSetB : Stmt := .call [31, 6, 6] 64 [(.var 31), (.var 48)]
def ssInv : List Stmt := [.call [32, 6] 57 [(.var 32), (.var 31)], .call [49] 71 [(.var 32)]]
def restInv : Stmt := seqs (ssD ++ [.seq sSetB (seqs (ssInv ++ [restS]))])

/-- the test r + k = n -/
def ssRk : List Stmt := [.assign 40 [] (.lit 0),
    .ext [41] 7 false [(.var 11)],
    .assign 40 [] (.var 41),
    .ext [42] 0 false [(.var 26), (.var 40)],
    .assign 28 [] (.var 42),
    .assign 43 [] (.mk (.lit 33) (.lit 0)),
    .ext [43] 3 false [(.var 28), (.var 43)]]
def sCmp33 : Stmt := .call [44] 0 [(.var 43), (.glob 17), (.lit 33)]
def sDecl45 : Stmt := .declass 45 12 (.op2 .eq (.var 44) (.lit 0))
def restRk : Stmt := seqs (ssRk ++ [.seq sCmp33 (.seq sDecl45 (.seq (.ite (.var 45) (.cont) .skip) restInv))])

/-- r = (x(kG) + e) mod n -/
def ssR : List Stmt := [.assign 25 [] (.lit 0),
    .assign 26 [] (.lit 0),
    .assign 27 [] (.lit 0),
    .assign 28 [] (.lit 0),
    .assign 29 [] (.lit 0),
    .assign 30 [] (.lit 0),
    .assign 31 [] (.mk (.lit 1) (.mk (.lit 4) (.lit 0))),
    .assign 32 [] (.mk (.lit 1) (.mk (.lit 4) (.lit 0))),
    .call [33] 89 [(.var 21)],
    .assign 34 [] (.var 33),
    .ext [35] 7 false [(.var 2)],
    .assign 25 [] (.var 35),
    .ext [36] 0 false [(.var 34), (.var 25)],
    .assign 26 [] (.var 36),
    .ext [37] 4 false [(.var 26), (.glob 16)],
    .assign 26 [] (.var 37),
    .ext [38] 8 false [(.var 26)],
    .declass 39 11 (.op2 .eq (.var 38) (.lit 0))]
def restR : Stmt := seqs (ssR ++ [.seq (.ite (.var 39) (.cont) .skip) restRk])

/-- kG -/
def ssKG1 : List Stmt := [.assign 21 [] (.mk (.lit 3) (.mk (.lit 1) (.mk (.lit 4) (.lit 0)))), .assign 22 [] (.var 11)]
def sSBM : Stmt := .call [23, 24] 87 [(.var 22)]
def ssKG2 : List Stmt := [.assign 21 [] (.var 23), .assign 5 [] (.var 24)]
def restKG : Stmt := seqs (ssKG1 ++ [.seq sSBM (seqs (ssKG2 ++ [.seq (.ite (.op2 .ne (.var 5) (.lit 0)) retErr .skip) restR]))])

/-- the zero test of K -/
def kCond : Expr := .op2 .lt (.var 18) (.var 17)
def kBody : Stmt := seqs [.assign 19 [] (.idx (.var 11) (.var 18)), .assign 16 [] (.op2 (.or .u8) (.var 16) (.var 19))]
def kPost : Stmt := .assign 18 [] (.op2 (.add .i64) (.var 18) (.lit 1))
def kLoop : Stmt := .loop kCond kBody kPost
def ssAcc1 : List Stmt := [.assign 16 [] (.lit 0), .assign 17 [] (.len (.var 11)), .assign 18 [] (.lit 0)]
def sDecl20 : Stmt := .declass 20 10 (.op2 .eq (.var 16) (.lit 0))
def restAcc : Stmt := seqs (ssAcc1 ++ [.seq kLoop (.seq sDecl20 (.seq (.ite (.var 20) (.cont) .skip) restKG))])

/-- the range test K < n -/
def sCmpK : Stmt := .call [14] 0 [(.var 11), (.glob 15), (.lit 32)]
def sDecl15 : Stmt := .declass 15 9 (.op2 .ge (.var 14) (.lit 0))
def restCmpK : Stmt := .seq sCmpK (.seq sDecl15 (.seq (.ite (.var 15) (.cont) .skip) restAcc))

/-- the read -/
def ssRead : List Stmt := [.assign 11 [] (.mk (.lit 32) (.lit 0)),
    .ext [11, 12, 13, 7] 11 true [(.var 0), (.len (.var 11)), (.var 7)],
    .assign 5 [] (.var 13)]
def sBody : Stmt := seqs (ssRead ++ [.seq (.ite (.op2 .ne (.var 5) (.lit 0)) retErr .skip) restCmpK])
def sLoop : Stmt := .loop (.lit 1) sBody .skip

/-- the prologue: results, reader position, TestPrivateKey -/
def ssPro : List Stmt := [.assign 3 [] (.mk (.lit 0) (.lit 0)),
    .assign 4 [] (.mk (.lit 0) (.lit 0)),
    .assign 5 [] (.lit 0),
    .assign 7 [] (.lit 0)]
def sTest : Stmt := .call [8] 1 [(.var 1)]
def sDecl9 : Stmt := .declass 9 8 (.var 8)
def sErrIte : Stmt := .ite (.op2 .ne (.var 9) (.lit 0)) (seqs [.ext [10] 10 true [(.var 9)],
    .assign 5 [] (.lit 1),
    .ret [(.var 3), (.var 4), (.var 5)]]) .skip

theorem fn_98_body : fn_98.body =
    seqs (ssPro ++ [.seq sTest (.seq sDecl9 (.seq sErrIte (.seq sLoop .panic)))]) := rfl

/-! ## The judgement of one iteration -/

section Frame
variable {P : Prog} {G : Nat → Val} {O : Oracle}

/-- what every iteration keeps: reader (0), priv (1), e (2), the nil results r, s (3, 4), reader position (7) -/
structure SInv (env : Env) (rd : Val) (priv e : Bytes) (p : Nat) : Prop where
  h0 : env 0 = rd
  h1 : env 1 = bytesV priv
  h2 : env 2 = bytesV e
  h3 : env 3 = bytesV []
  h4 : env 4 = bytesV []
  h7 : env 7 = .int (p : Int)

theorem SInv.frame {env env' : Env} {rd : Val} {priv e : Bytes} {p : Nat} (h : SInv env rd priv e p)
    (h0 : env' 0 = env 0) (h1 : env' 1 = env 1) (h2 : env' 2 = env 2) (h3 : env' 3 = env 3) (h4 : env' 4 = env 4)
    (h7 : env' 7 = env 7) : SInv env' rd priv e p :=
  ⟨h0.trans h.h0, h1.trans h.h1, h2.trans h.h2, h3.trans h.h3, h4.trans h.h4, h7.trans h.h7⟩

/-- outcome of (the rest of) an iteration against the model's step: `continue` (the invariant holds again),
    `return r, s, nil`, `return nil, nil, err` with a non-nil error, or failure -/
def StepRes (P : Prog) (G : Nat → Val) (O : Oracle) (F : Nat) (env : Env) (s : Stmt) (rd : Val) (priv e : Bytes)
    (p : Nat) : StepOut → Prop
  | .ok none => ∃ env', EvIn P G O F env s env' .cont ∧ SInv env' rd priv e p
  | .ok (some rs) => ∃ env', EvIn P G O F env s env' (.ret [bytesV rs.1, bytesV rs.2, .int 0])
  | .err => ∃ env' code, code ≠ 0 ∧ EvIn P G O F env s env' (.ret [bytesV [], bytesV [], .int code])
  | .panic => Fails P G O env s

theorem StepRes.mono {F F' : Nat} {env : Env} {s : Stmt} {rd : Val} {priv e : Bytes} {p : Nat} {o : StepOut}
    (h : StepRes P G O F env s rd priv e p o) (hF : F ≤ F') : StepRes P G O F' env s rd priv e p o := by
  match o, h with
  | .ok none, ⟨env', h1, h2⟩ => exact ⟨env', h1.mono hF, h2⟩
  | .ok (some rs), ⟨env', h1⟩ => exact ⟨env', h1.mono hF⟩
  | .err, ⟨env', code, hc, h1⟩ => exact ⟨env', code, hc, h1.mono hF⟩
  | .panic, h => exact h

theorem fails_pre {K : Nat} {env env1 : Env} {ss : List Stmt} {rest : Stmt} (hp : Pre P G O K env ss env1)
    (h : Fails P G O env1 rest) : Fails P G O env (seqs (ss ++ [rest])) := by
  rcases h with ⟨F, env', h⟩ | h
  · exact Or.inl ⟨_, _, (hp rest).1 _ _ _ h⟩
  · exact Or.inr ((hp rest).2 h)

/-- a prefix of statements in front of the rest -/
theorem StepRes.pre {K F : Nat} {env env1 : Env} {ss : List Stmt} {rest : Stmt} {rd : Val} {priv e : Bytes} {p : Nat}
    {o : StepOut} (hp : Pre P G O K env ss env1) (h : StepRes P G O F env1 rest rd priv e p o) :
    StepRes P G O (F + K) env (seqs (ss ++ [rest])) rd priv e p o := by
  match o, h with
  | .ok none, ⟨env', h1, h2⟩ => exact ⟨env', (hp rest).1 _ _ _ h1, h2⟩
  | .ok (some rs), ⟨env', h1⟩ => exact ⟨env', (hp rest).1 _ _ _ h1⟩
  | .err, ⟨env', code, hc, h1⟩ => exact ⟨env', code, hc, (hp rest).1 _ _ _ h1⟩
  | .panic, h => exact fails_pre hp h

/-- one statement in front of the rest -/
theorem StepRes.seq {F1 F : Nat} {env env1 : Env} {a rest : Stmt} {rd : Val} {priv e : Bytes} {p : Nat}
    {o : StepOut} (ha : EvIn P G O F1 env a env1 .norm) (h : StepRes P G O F env1 rest rd priv e p o) :
    StepRes P G O (F1 + F + 1) env (.seq a rest) rd priv e p o := by
  match o, h with
  | .ok none, ⟨env', h1, h2⟩ => exact ⟨env', EvIn.seq ha h1, h2⟩
  | .ok (some rs), ⟨env', h1⟩ => exact ⟨env', EvIn.seq ha h1⟩
  | .err, ⟨env', code, hc, h1⟩ => exact ⟨env', code, hc, EvIn.seq ha h1⟩
  | .panic, h => exact CTIRRefineComb.Fails.seq_right ha h

/-- `if c { continue }` with `c` true -/
theorem StepRes.cont {env : Env} {x : Nat} {rest : Stmt} {rd : Val} {priv e : Bytes} {p : Nat}
    (hx : env x = .int 1) (hinv : SInv env rd priv e p) :
    StepRes P G O 3 env (.seq (.ite (.var x) (.cont) .skip) rest) rd priv e p (.ok none) :=
  ⟨env, EvIn.seq_stop (EvIn.ite (evar hx) rfl (EvIn.cont _)) (by simp), hinv⟩

/-- `if c { continue }` with `c` false -/
theorem StepRes.skip {F : Nat} {env : Env} {x : Nat} {rest : Stmt} {rd : Val} {priv e : Bytes} {p : Nat} {o : StepOut}
    (hx : env x = .int 0) (h : StepRes P G O F env rest rd priv e p o) :
    StepRes P G O (F + 3) env (.seq (.ite (.var x) (.cont) .skip) rest) rd priv e p o :=
  (StepRes.seq (EvIn.ite (evar hx) rfl (EvIn.skip _)) h).mono (by omega)

end Frame


/-! ## Hypotheses on the callees and the globals -/

/-- the fresh zero element `new(SM2ScalarElement)`: the only receiver SignHashed passes to SetBytes / Invert -/
theorem out4_zero4 : Out4 [0, 0, 0, 0] := ⟨0, 0, 0, 0, rfl, by decide, by decide, by decide, by decide⟩

/-- the program contains the generated functions 0, 1, 98, 99 -/
structure HasSign (P : Prog) : Prop where
  h0 : P[0]? = some fn_0
  h1 : P[1]? = some fn_1
  h98 : P[98]? = some fn_98
  h99 : P[99]? = some fn_99

theorem prog_hasSign : HasSign prog := ⟨rfl, rfl, rfl, rfl⟩

/-- the CALLEE HYPOTHESES: ScalarBaseMult (87), GetAffineX (89), and the scalar-field methods SetBytes (64),
    Invert (57), ToBigInt (71) compute the model's functions on encodings (`ptV enc`, `elemV (encS ·)`) -/
structure Callees {α β : Type} (P : Prog) (G : Nat → Val) (O : Oracle) (X : Model.SM2.Ctx α β) (enc : α → List Nat)
    (encS : β → List Nat) (Fsbm Fgax Fsb Finv Ftb : Nat) : Prop where
  sbm : ∀ k : Bytes, match Model.SM2.scalarBaseMult X k with
    | .ok r => Computes P G O 87 Fsbm [bytesV k] [ptV enc r, .int 0]
    | .err => Computes P G O 87 Fsbm [bytesV k] [nilPointV, .int 1]
    | .panic => CalleeFails P G O 87 [bytesV k]
  gax : ∀ q : Model.Point.Pt α, Computes P G O 89 Fgax [ptV enc q] [.int ((Model.Point.getAffineX X.C q : Nat) : Int)]
  setB : ∀ (old : List Nat), Out4 old → ∀ (buf : Bytes), match Model.Field.scalarSetBytes X.S buf with
    | .ok d => Computes P G O 64 Fsb [elemV old, bytesV buf] [elemV (encS d), elemV (encS d), .int 0]
    | .err => Computes P G O 64 Fsb [elemV old, bytesV buf] [elemV old, elemV [0, 0, 0, 0], .int 1]
    | .panic => CalleeFails P G O 64 [elemV old, bytesV buf]
  inv : ∀ (old : List Nat), Out4 old → ∀ (d : β), Computes P G O 57 Finv [elemV old, elemV (encS d)]
    [elemV (encS (Model.Field.invert X.S d)), elemV (encS (Model.Field.invert X.S d))]
  toB : ∀ d : β, Computes P G O 71 Ftb [elemV (encS d)] [.int ((Model.Field.toNat X.S d : Nat) : Int)]

/-- the globals read by SignHashed and TestPrivateKey -/
structure Globals {α β : Type} (G : Nat → Val) (X : Model.SM2.Ctx α β) : Prop where
  g5 : G 5 = bytesV (nMinus1Bytes X)
  g15 : G 15 = bytesV (nBytes X)
  g16 : G 16 = .int ((X.n : Nat) : Int)
  g17 : G 17 = bytesV (nBytes33 X)
  g18 : G 18 = .int 1

/-! ## Arithmetic -/

theorem s_arith (rk t r n : Nat) (hn : 0 < n) (hr : r < n) :
    (((rk : Int) * (t : Int) - (r : Int)) % (n : Int)) = (((rk * t + (n - r % n)) % n : Nat) : Int) := by
  rw [Nat.mod_eq_of_lt hr, Int.natCast_emod, Int.natCast_add, Int.natCast_mul, Int.natCast_sub (Nat.le_of_lt hr)]
  have : (rk : Int) * (t : Int) + ((n : Int) - (r : Int)) = (rk : Int) * (t : Int) - (r : Int) + 1 * (n : Int) := by omega
  rw [this, Int.add_mul_emod_self_right]

theorem r_arith (x eI n : Nat) : (((x : Int) + (eI : Int)) % (n : Int)) = (((x + eI) % n : Nat) : Int) := by
  rw [Int.natCast_emod, Int.natCast_add]

section Sign
variable {α β : Type} {P : Prog} {G : Nat → Val} {O : Oracle} {X : Model.SM2.Ctx α β} {enc : α → List Nat}
  {encS : β → List Nat} {Fsbm Fgax Fsb Finv Ftb : Nat} {rd : Val} {priv e : Bytes} {p : Nat}

theorem evs1 {env : Env} {a : Nat} {va : Val} (ha : env a = va) : evalVs G env [(.var a)] = some [va] := by
  simp only [evalVs_cons, evalVs_nil, evalV_var, ha]

theorem evs2 {env : Env} {a b : Nat} {va vb : Val} (ha : env a = va) (hb : env b = vb) :
    evalVs G env [(.var a), (.var b)] = some [va, vb] := by
  simp only [evalVs_cons, evalVs_nil, evalV_var, ha, hb]

theorem evs_vg {env : Env} {a g : Nat} {va vg : Val} (ha : env a = va) (hg : G g = vg) :
    evalVs G env [(.var a), (.glob g)] = some [va, vg] := by
  simp only [evalVs_cons, evalVs_nil, evalV_var, evalV_glob, ha, hg]

theorem sign_nat (hB : BigOk O) (s : Nat) : O 8 [.int (s : Int)] = [.int (if s = 0 then 0 else 1)] := by
  rw [hB.sign]
  by_cases h : s = 0
  · subst h; rfl
  · have h1 : ¬ ((s : Int) < 0) := by omega
    have h2 : ¬ ((s : Int) = 0) := by omega
    rw [if_neg h1, if_neg h2, if_neg h]

theorem eq0_sign {env : Env} {x : Nat} {s : Nat} (h : env x = .int (if s = 0 then (0 : Int) else 1)) :
    evalV G env (.op2 .eq (.var x) (.lit 0)) = some (.int (if s = 0 then 1 else 0)) := by
  rw [evalV_op2, evalV_var, h, evalV_lit]
  by_cases hs : s = 0
  · simp [hs, evalOp2, ofBool]
  · simp [hs, evalOp2, ofBool]

/-! ### outputs -/

def fuelOut : Nat := 2 * fuelEns + 6

theorem l_out (hP : HasSign P) (hB : BigOk O) {env : Env} {r s : Nat} (hr : r < 256 ^ 32) (hs : s < 256 ^ 32)
    (h26 : env 26 = .int (r : Int)) (h27 : env 27 = .int (s : Int)) :
    ∃ env', EvIn P G O fuelOut env restOut env' (.ret [bytesV (ensure32 r), bytesV (ensure32 s), .int 0]) := by
  let e1 := env.set 55 (bytesV (ensure32 r))
  let e2 := e1.set 56 (bytesV (ensure32 s))
  have c1 : EvIn P G O (fuelEns + 1) env (.call [55] 99 [(.var 26)]) e1 .norm :=
    (ens_computes hP.h99 hB r hr).call (evs1 h26) rfl
  have g27 : e1 27 = .int (s : Int) := h27
  have c2 : EvIn P G O (fuelEns + 1) e1 (.call [56] 99 [(.var 27)]) e2 .norm :=
    (ens_computes hP.h99 hB s hs).call (evs1 g27) rfl
  have sr : evalVs G e2 [(.var 55), (.var 56), (.lit 0)] = some [bytesV (ensure32 r), bytesV (ensure32 s), .int 0] := rfl
  exact ⟨e2, (EvIn.seq c1 (EvIn.seq c2 (EvIn.ret sr))).mono (by simp only [fuelOut]; omega)⟩

/-! ### s -/

def fuelS : Nat := fuelOut + 30

theorem l_s (hP : HasSign P) (hB : BigOk O) (hG : Globals G X) (hn0 : 0 < X.n) (hn : X.n ≤ 256 ^ 32)
    {env : Env} {r rk : Nat} {d1 : β} (hr : r < X.n) (hinv : SInv env rd priv e p)
    (h26 : env 26 = .int (r : Int)) (h28 : env 28 = .int (rk : Int))
    (h49 : env 49 = .int ((Model.Field.toNat X.S (Model.Field.invert X.S d1) : Nat) : Int)) :
    StepRes P G O fuelS env restS rd priv e p (mS X r rk d1) := by
  generalize ht : Model.Field.toNat X.S (Model.Field.invert X.S d1) = t at h49
  have hm : mS X r rk d1 = if (rk * t + (X.n - r % X.n)) % X.n = 0 then .ok none
      else .ok (some (ensure32 r, ensure32 ((rk * t + (X.n - r % X.n)) % X.n))) := by rw [← ht]; rfl
  rw [hm]
  generalize hsN : (rk * t + (X.n - r % X.n)) % X.n = sN
  have hsn : sN < X.n := by rw [← hsN]; exact Nat.mod_lt _ hn0
  have har := s_arith rk t r X.n hn0 hr
  rw [hsN] at har
  let e1 := env.set 50 (.int ((rk : Int) * (t : Int)))
  let e2 := e1.set 27 (.int ((rk : Int) * (t : Int)))
  let e3 := e2.set 51 (.int ((rk : Int) * (t : Int) - (r : Int)))
  let e4 := e3.set 27 (.int ((rk : Int) * (t : Int) - (r : Int)))
  let e5 := e4.set 52 (.int (sN : Int))
  let e6 := e5.set 27 (.int (sN : Int))
  let e7 := e6.set 53 (.int (if sN = 0 then 0 else 1))
  let e8 := e7.set 54 (.int (if sN = 0 then 1 else 0))
  have c1 : EvIn P G O 1 env (.ext [50] 6 false [(.var 28), (.var 49)]) e1 .norm := ext1 (evs2 h28 h49) (hB.mul _ _)
  have c2 : EvIn P G O 1 e1 (.assign 27 [] (.var 50)) e2 .norm := EvIn.assign rfl
  have g26 : e2 26 = .int (r : Int) := h26
  have c3 : EvIn P G O 1 e2 (.ext [51] 9 false [(.var 27), (.var 26)]) e3 .norm :=
    ext1 (evs2 (va := .int ((rk : Int) * (t : Int))) rfl g26) (hB.sub _ _)
  have c4 : EvIn P G O 1 e3 (.assign 27 [] (.var 51)) e4 .norm := EvIn.assign rfl
  have c5 : EvIn P G O 1 e4 (.ext [52] 4 false [(.var 27), (.glob 16)]) e5 .norm :=
    ext1 (evs_vg (va := .int ((rk : Int) * (t : Int) - (r : Int))) rfl hG.g16) (by rw [hB.mod, har])
  have c6 : EvIn P G O 1 e5 (.assign 27 [] (.var 52)) e6 .norm := EvIn.assign rfl
  have c7 : EvIn P G O 1 e6 (.ext [53] 8 false [(.var 27)]) e7 .norm :=
    ext1 (evs1 (va := .int (sN : Int)) rfl) (sign_nat hB sN)
  have c8 : EvIn P G O 1 e7 (.declass 54 13 (.op2 .eq (.var 53) (.lit 0))) e8 .norm :=
    EvIn.declass (eq0_sign (s := sN) rfl)
  have hpre : Pre P G O 16 env ssS e8 :=
    Pre.cons c1 (Pre.cons c2 (Pre.cons c3 (Pre.cons c4 (Pre.cons c5 (Pre.cons c6 (Pre.cons c7 (Pre.cons c8 (Pre.nil _))))))))
  have hinv8 : SInv e8 rd priv e p := hinv.frame rfl rfl rfl rfl rfl rfl
  by_cases hz : sN = 0
  · rw [if_pos hz]
    have g54 : e8 54 = .int 1 := by show Val.int (if sN = 0 then 1 else 0) = .int 1; rw [if_pos hz]
    exact ((StepRes.cont g54 hinv8).pre hpre).mono (by simp only [fuelS]; omega)
  · rw [if_neg hz]
    have g54 : e8 54 = .int 0 := by show Val.int (if sN = 0 then 1 else 0) = .int 0; rw [if_neg hz]
    have g26' : e8 26 = .int (r : Int) := h26
    have g27' : e8 27 = .int (sN : Int) := rfl
    obtain ⟨env', hout⟩ := l_out (P := P) (G := G) hP hB (r := r) (s := sN) (by omega) (by omega) g26' g27'
    have : StepRes P G O fuelOut e8 restOut rd priv e p (.ok (some (ensure32 r, ensure32 sN))) := ⟨env', hout⟩
    exact ((StepRes.skip g54 this).pre hpre).mono (by simp only [fuelS]; omega)

/-! ### (1 + d)⁻¹ -/

def fuelInv (Fsb Finv Ftb : Nat) : Nat := fuelS + Fsb + Finv + Ftb + 30

theorem fill_fits (len v : Nat) (h : v < 256 ^ len) : fillBytes len v = .ok (Bytes.ofNatBE len v) := by
  simp only [fillBytes]; rw [if_pos h]

/-- from the call of SetBytes on, for ANY element `d1` whose encoding the call leaves in the receiver -/
theorem l_inv_tail (hP : HasSign P) (C : Callees P G O X enc encS Fsbm Fgax Fsb Finv Ftb) (hB : BigOk O) (hG : Globals G X)
    (hn0 : 0 < X.n) (hn : X.n ≤ 256 ^ 32) {env : Env} {r rk : Nat} {d1 : β} {v2 v3 : Val} {buf : Bytes}
    (hr : r < X.n) (hinv : SInv env rd priv e p)
    (h26 : env 26 = .int (r : Int)) (h28 : env 28 = .int (rk : Int))
    (h31 : env 31 = elemV [0, 0, 0, 0]) (h32 : env 32 = elemV [0, 0, 0, 0]) (h48 : env 48 = bytesV buf)
    (hC : Computes P G O 64 Fsb [elemV [0, 0, 0, 0], bytesV buf] [elemV (encS d1), v2, v3]) :
    StepRes P G O (fuelS + Fsb + Finv + Ftb + 10) env (.seq sSetB (seqs (ssInv ++ [restS]))) rd priv e p
      (mS X r rk d1) := by
  have a64 : evalVs G env [(.var 31), (.var 48)] = some [elemV [0, 0, 0, 0], bytesV buf] := evs2 h31 h48
  let iv := Model.Field.invert X.S d1
  let e7 := ((env.set 31 (elemV (encS d1))).set 6 v2).set 6 v3
  let e8 := (e7.set 32 (elemV (encS iv))).set 6 (elemV (encS iv))
  let e9 := e8.set 49 (.int ((Model.Field.toNat X.S iv : Nat) : Int))
  have c7 : EvIn P G O (Fsb + 1) env sSetB e7 .norm := hC.call a64 rfl
  have g32 : e7 32 = elemV [0, 0, 0, 0] := h32
  have c8 : EvIn P G O (Finv + 1) e7 (.call [32, 6] 57 [(.var 32), (.var 31)]) e8 .norm :=
    (C.inv [0, 0, 0, 0] out4_zero4 d1).call (evs2 g32 (vb := elemV (encS d1)) rfl) rfl
  have c9 : EvIn P G O (Ftb + 1) e8 (.call [49] 71 [(.var 32)]) e9 .norm :=
    (C.toB iv).call (evs1 (va := elemV (encS iv)) rfl) rfl
  have hinv9 : SInv e9 rd priv e p := hinv.frame rfl rfl rfl rfl rfl rfl
  have hS := l_s (P := P) (G := G) (O := O) (X := X) hP hB hG hn0 hn (d1 := d1) hr hinv9
    (show e9 26 = .int (r : Int) from h26) (show e9 28 = .int (rk : Int) from h28) rfl
  exact (StepRes.seq c7 (hS.pre (Pre.cons c8 (Pre.cons c9 (Pre.nil _))))).mono (by omega)

/-- the statements before the call of SetBytes: `buf` (48) holds the 32-byte encoding of `d + 1` -/
theorem l_inv_pre (hB : BigOk O) (hG : Globals G X) {env : Env} {d : Nat} (hinv : SInv env rd priv e p)
    (hdd : Bytes.toNatBE priv = d) :
    ∃ env', Pre P G O 12 env ssD env' ∧ env' 48 = bytesV (Bytes.ofNatBE 32 (d + 1)) ∧
      ∀ x, x ≠ 46 → x ≠ 29 → x ≠ 47 → x ≠ 30 → x ≠ 48 → env' x = env x := by
  let buf := Bytes.ofNatBE 32 (d + 1)
  let e1 := env.set 46 (.int (d : Int))
  let e2 := e1.set 29 (.int (d : Int))
  let e3 := e2.set 47 (.int ((d : Int) + 1))
  let e4 := e3.set 30 (.int ((d : Int) + 1))
  let e5 := e4.set 48 (bytesV (List.replicate 32 0))
  let e6 := e5.set 48 (bytesV buf)
  have c1 : EvIn P G O 1 env (.ext [46] 7 false [(.var 1)]) e1 .norm :=
    ext1 (evs1 hinv.h1) (by rw [hB.setBytes, hdd])
  have c2 : EvIn P G O 1 e1 (.assign 29 [] (.var 46)) e2 .norm := EvIn.assign rfl
  have c3 : EvIn P G O 1 e2 (.ext [47] 0 false [(.var 29), (.glob 18)]) e3 .norm :=
    ext1 (evs_vg (va := .int (d : Int)) rfl hG.g18) (hB.add _ _)
  have c4 : EvIn P G O 1 e3 (.assign 30 [] (.var 47)) e4 .norm := EvIn.assign rfl
  have c5 : EvIn P G O 1 e4 (.assign 48 [] (.mk (.lit 32) (.lit 0))) e5 .norm := EvIn.assign (evalV_mk32 _)
  have c6 : EvIn P G O 1 e5 (.ext [48] 3 false [(.var 30), (.var 48)]) e6 .norm := by
    refine ext1 (evs2 (va := .int ((d : Int) + 1)) (vb := bytesV (List.replicate 32 0)) rfl rfl) ?_
    have : ((d : Int) + 1) = ((d + 1 : Nat) : Int) := by omega
    rw [this, hB.fillBytes, List.length_replicate]
  refine ⟨e6, Pre.cons c1 (Pre.cons c2 (Pre.cons c3 (Pre.cons c4 (Pre.cons c5 (Pre.cons c6 (Pre.nil _)))))), rfl, ?_⟩
  intro x h1 h2 h3 h4 h5
  show e6 x = env x
  simp only [e6, e5, e4, e3, e2, e1, Env.set, if_neg h1, if_neg h2, if_neg h3, if_neg h4, if_neg h5]

theorem l_inv (hP : HasSign P) (C : Callees P G O X enc encS Fsbm Fgax Fsb Finv Ftb) (hB : BigOk O) (hG : Globals G X)
    (hn0 : 0 < X.n) (hn : X.n ≤ 256 ^ 32) {env : Env} {r rk : Nat} (hr : r < X.n) (hinv : SInv env rd priv e p)
    (hd : Bytes.toNatBE priv + 1 < 256 ^ 32)
    (hne : Model.Field.scalarSetBytes X.S (Bytes.ofNatBE 32 (Bytes.toNatBE priv + 1)) ≠ .err)
    (h26 : env 26 = .int (r : Int)) (h28 : env 28 = .int (rk : Int))
    (h31 : env 31 = elemV [0, 0, 0, 0]) (h32 : env 32 = elemV [0, 0, 0, 0]) :
    StepRes P G O (fuelInv Fsb Finv Ftb) env restInv rd priv e p (mInv X priv r rk) := by
  generalize hdd : Bytes.toNatBE priv = d at hd hne
  let buf := Bytes.ofNatBE 32 (d + 1)
  have hm : mInv X priv r rk = match Model.Field.scalarSetBytes X.S buf with
      | .ok d1 => mS X r rk d1
      | _ => .panic := by
    simp only [mInv, hdd, fill_fits 32 (d + 1) hd]
    rfl
  rw [hm]
  obtain ⟨e6, hpre, h48, hfr⟩ := l_inv_pre (P := P) (G := G) (O := O) (X := X) hB hG hinv hdd
  have fr : ∀ x, x ≠ 46 → x ≠ 29 → x ≠ 47 → x ≠ 30 → x ≠ 48 → e6 x = env x := hfr
  have g31 : e6 31 = elemV [0, 0, 0, 0] := (fr 31 (by decide) (by decide) (by decide) (by decide) (by decide)).trans h31
  have g32 : e6 32 = elemV [0, 0, 0, 0] := (fr 32 (by decide) (by decide) (by decide) (by decide) (by decide)).trans h32
  have g26 : e6 26 = .int (r : Int) := (fr 26 (by decide) (by decide) (by decide) (by decide) (by decide)).trans h26
  have g28 : e6 28 = .int (rk : Int) := (fr 28 (by decide) (by decide) (by decide) (by decide) (by decide)).trans h28
  have hinv6 : SInv e6 rd priv e p :=
    hinv.frame (fr 0 (by decide) (by decide) (by decide) (by decide) (by decide))
      (fr 1 (by decide) (by decide) (by decide) (by decide) (by decide))
      (fr 2 (by decide) (by decide) (by decide) (by decide) (by decide))
      (fr 3 (by decide) (by decide) (by decide) (by decide) (by decide))
      (fr 4 (by decide) (by decide) (by decide) (by decide) (by decide))
      (fr 7 (by decide) (by decide) (by decide) (by decide) (by decide))
  have a64 : evalVs G e6 [(.var 31), (.var 48)] = some [elemV [0, 0, 0, 0], bytesV buf] := evs2 g31 h48
  have hC := C.setB [0, 0, 0, 0] out4_zero4 buf
  cases hsb : Model.Field.scalarSetBytes X.S buf with
  | err => exact absurd hsb hne
  | panic =>
    rw [hsb] at hC
    exact fails_pre hpre (CTIRRefineComb.Fails.seq_left (CTIRRefineComb.Fails.call a64 hC))
  | ok d1 =>
    rw [hsb] at hC
    simp only
    have ht := l_inv_tail (P := P) (G := G) (O := O) (X := X) (rd := rd) (priv := priv) (e := e) (p := p) hP C hB hG hn0 hn
      hr hinv6 g26 g28 g31 g32 h48 hC
    exact (ht.pre hpre).mono (by simp only [fuelInv]; omega)

/-- **THE IGNORED SetBytes ERROR, what the IR does.**  If `d1.SetBytes(buf)` fails (`scalarSetBytes … = .err`: the
    encoding of `d + 1` is above that of `n - 1`), the IR (like the Go code) drops the error: both the pointer result
    and the error go to the blank variable 6, the receiver `d1` keeps its zero value, and the run goes on with
    `d1 = 0`: for any `z` with `encS z = [0, 0, 0, 0]` it computes the step `mS X r rk z` (s from `Invert(0)`),
    whereas the model `mInv` says `.panic`: a model/IR DISAGREEMENT on this branch, excluded in the main theorem by
    the hypothesis `hne` (the branch is unreachable when TestPrivateKey and the scalar field agree on n). -/
theorem l_inv_err (hP : HasSign P) (C : Callees P G O X enc encS Fsbm Fgax Fsb Finv Ftb) (hB : BigOk O) (hG : Globals G X)
    (hn0 : 0 < X.n) (hn : X.n ≤ 256 ^ 32) {env : Env} {r rk : Nat} (hr : r < X.n) (hinv : SInv env rd priv e p)
    (hd : Bytes.toNatBE priv + 1 < 256 ^ 32)
    (herr : Model.Field.scalarSetBytes X.S (Bytes.ofNatBE 32 (Bytes.toNatBE priv + 1)) = .err)
    (z : β) (hz : encS z = [0, 0, 0, 0])
    (h26 : env 26 = .int (r : Int)) (h28 : env 28 = .int (rk : Int))
    (h31 : env 31 = elemV [0, 0, 0, 0]) (h32 : env 32 = elemV [0, 0, 0, 0]) :
    StepRes P G O (fuelInv Fsb Finv Ftb) env restInv rd priv e p (mS X r rk z) ∧ mInv X priv r rk = .panic := by
  generalize hdd : Bytes.toNatBE priv = d at hd herr
  let buf := Bytes.ofNatBE 32 (d + 1)
  have hm : mInv X priv r rk = .panic := by
    simp only [mInv, hdd, fill_fits 32 (d + 1) hd, herr]
  refine ⟨?_, hm⟩
  obtain ⟨e6, hpre, h48, hfr⟩ := l_inv_pre (P := P) (G := G) (O := O) (X := X) hB hG hinv hdd
  have fr : ∀ x, x ≠ 46 → x ≠ 29 → x ≠ 47 → x ≠ 30 → x ≠ 48 → e6 x = env x := hfr
  have g31 : e6 31 = elemV [0, 0, 0, 0] := (fr 31 (by decide) (by decide) (by decide) (by decide) (by decide)).trans h31
  have g32 : e6 32 = elemV [0, 0, 0, 0] := (fr 32 (by decide) (by decide) (by decide) (by decide) (by decide)).trans h32
  have g26 : e6 26 = .int (r : Int) := (fr 26 (by decide) (by decide) (by decide) (by decide) (by decide)).trans h26
  have g28 : e6 28 = .int (rk : Int) := (fr 28 (by decide) (by decide) (by decide) (by decide) (by decide)).trans h28
  have hinv6 : SInv e6 rd priv e p :=
    hinv.frame (fr 0 (by decide) (by decide) (by decide) (by decide) (by decide))
      (fr 1 (by decide) (by decide) (by decide) (by decide) (by decide))
      (fr 2 (by decide) (by decide) (by decide) (by decide) (by decide))
      (fr 3 (by decide) (by decide) (by decide) (by decide) (by decide))
      (fr 4 (by decide) (by decide) (by decide) (by decide) (by decide))
      (fr 7 (by decide) (by decide) (by decide) (by decide) (by decide))
  have hC := C.setB [0, 0, 0, 0] out4_zero4 buf
  rw [show Model.Field.scalarSetBytes X.S buf = .err from herr] at hC
  simp only at hC
  rw [← hz] at hC
  have hC' : Computes P G O 64 Fsb [elemV [0, 0, 0, 0], bytesV buf] [elemV (encS z), elemV (encS z), .int 1] := by
    rw [hz] at hC ⊢; exact hC
  have ht := l_inv_tail (P := P) (G := G) (O := O) (X := X) (rd := rd) (priv := priv) (e := e) (p := p) hP C hB hG hn0 hn
    hr hinv6 g26 g28 g31 g32 h48 hC'
  exact (ht.pre hpre).mono (by simp only [fuelInv]; omega)

/-! ### the test r + k = n -/

def fuelRk (Fsb Finv Ftb : Nat) : Nat := fuelInv Fsb Finv Ftb + fuelCmp 33 + 30

theorem l_rk (hP : HasSign P) (C : Callees P G O X enc encS Fsbm Fgax Fsb Finv Ftb) (hB : BigOk O) (hG : Globals G X)
    (hn0 : 0 < X.n) (hn : X.n ≤ 256 ^ 32) {env : Env} {r : Nat} {K : Bytes} (hK : K.length = 32) (hr : r < X.n)
    (hinv : SInv env rd priv e p) (hd : Bytes.toNatBE priv + 1 < 256 ^ 32)
    (hne : Model.Field.scalarSetBytes X.S (Bytes.ofNatBE 32 (Bytes.toNatBE priv + 1)) ≠ .err)
    (h11 : env 11 = bytesV K) (h26 : env 26 = .int (r : Int))
    (h31 : env 31 = elemV [0, 0, 0, 0]) (h32 : env 32 = elemV [0, 0, 0, 0]) :
    StepRes P G O (fuelRk Fsb Finv Ftb) env restRk rd priv e p (mRk X priv r K) := by
  have hk : Bytes.toNatBE K < 256 ^ 32 := by
    have := SM2SignBytes.toNatBE_lt K
    rwa [hK] at this
  generalize hkk : Bytes.toNatBE K = k at hk
  have hrk : r + k < 256 ^ 33 := by omega
  let rkBuf := Bytes.ofNatBE 33 (r + k)
  have hm : mRk X priv r K = match Model.Utils.constantTimeCmp (some rkBuf) (some (nBytes33 X)) 33 with
      | .ok c33 => if c33 = 0 then .ok none else mInv X priv r (r + k)
      | _ => .panic := by
    simp only [mRk, hkk, fill_fits 33 (r + k) hrk]
    rfl
  rw [hm]
  let e1 := env.set 40 (.int 0)
  let e2 := e1.set 41 (.int (k : Int))
  let e3 := e2.set 40 (.int (k : Int))
  let e4 := e3.set 42 (.int ((r : Int) + (k : Int)))
  let e5 := e4.set 28 (.int ((r : Int) + (k : Int)))
  let e6 := e5.set 43 (bytesV (List.replicate 33 0))
  let e7 := e6.set 43 (bytesV rkBuf)
  have c1 : EvIn P G O 1 env (.assign 40 [] (.lit 0)) e1 .norm := EvIn.assign rfl
  have g11 : e1 11 = bytesV K := h11
  have c2 : EvIn P G O 1 e1 (.ext [41] 7 false [(.var 11)]) e2 .norm :=
    ext1 (evs1 g11) (by rw [hB.setBytes, hkk])
  have c3 : EvIn P G O 1 e2 (.assign 40 [] (.var 41)) e3 .norm := EvIn.assign rfl
  have g26 : e3 26 = .int (r : Int) := h26
  have c4 : EvIn P G O 1 e3 (.ext [42] 0 false [(.var 26), (.var 40)]) e4 .norm :=
    ext1 (evs2 g26 (vb := .int (k : Int)) rfl) (hB.add _ _)
  have c5 : EvIn P G O 1 e4 (.assign 28 [] (.var 42)) e5 .norm := EvIn.assign rfl
  have c6 : EvIn P G O 1 e5 (.assign 43 [] (.mk (.lit 33) (.lit 0))) e6 .norm :=
    EvIn.assign (evalV_mkBytes (L := 33) rfl)
  have c7 : EvIn P G O 1 e6 (.ext [43] 3 false [(.var 28), (.var 43)]) e7 .norm := by
    refine ext1 (evs2 (va := .int ((r : Int) + (k : Int))) (vb := bytesV (List.replicate 33 0)) rfl rfl) ?_
    rw [← Int.natCast_add, hB.fillBytes, List.length_replicate]
  have hpre : Pre P G O 14 env ssRk e7 :=
    Pre.cons c1 (Pre.cons c2 (Pre.cons c3 (Pre.cons c4 (Pre.cons c5 (Pre.cons c6 (Pre.cons c7 (Pre.nil _)))))))
  have a0 : evalVs G e7 [(.var 43), (.glob 17), (.lit 33)] = some [bytesV rkBuf, bytesV (nBytes33 X), .int 33] := by
    simp only [evalVs_cons, evalVs_nil, evalV_var, evalV_glob, evalV_lit, hG.g17]
    rfl
  cases hc : Model.Utils.constantTimeCmp (some rkBuf) (some (nBytes33 X)) 33 with
  | err => exact absurd hc (cmp_ne_err _ _ _)
  | panic =>
    exact fails_pre hpre (CTIRRefineComb.Fails.seq_left (CTIRRefineComb.Fails.call a0
      (Or.inr ⟨fn_0, hP.h0, cmp_body_stuck rkBuf (nBytes33 X) 33 (by decide) (by decide) hc⟩)))
  | ok c33 =>
    simp only
    obtain ⟨envc, hb⟩ := cmp_body_ok (P := P) (G := G) (X := O) rkBuf (nBytes33 X) 33 (by decide) (by decide) c33 hc
    let e8 := e7.set 44 (.int c33)
    let e9 := e8.set 45 (.int (ofBool (c33 == 0)))
    have c8 : EvIn P G O (fuelCmp 33 - 1 + 1) e7 sCmp33 e8 .norm := EvIn.call a0 hP.h0 rfl rfl hb rfl
    have c9 : EvIn P G O 1 e8 sDecl45 e9 .norm := by
      refine EvIn.declass ?_
      have g44 : e8 44 = .int c33 := rfl
      simp only [evalV_op2, evalV_var, evalV_lit, g44, evalOp2, Option.map_some]
    have hinv9 : SInv e9 rd priv e p := hinv.frame rfl rfl rfl rfl rfl rfl
    by_cases h0 : c33 = 0
    · rw [if_pos h0]
      have g45 : e9 45 = .int 1 := by
        show Val.int (ofBool (c33 == 0)) = .int 1
        rw [h0]; rfl
      exact ((StepRes.seq c8 (StepRes.seq c9 (StepRes.cont g45 hinv9))).pre hpre).mono
        (by simp only [fuelRk, fuelCmp]; omega)
    · rw [if_neg h0]
      have g45 : e9 45 = .int 0 := by
        show Val.int (ofBool (c33 == 0)) = .int 0
        simp [ofBool, h0]
      have hI := l_inv (P := P) (G := G) (O := O) (X := X) hP C hB hG hn0 hn (rk := r + k) hr hinv9 hd hne
        (show e9 26 = .int (r : Int) from h26)
        (show e9 28 = .int ((r + k : Nat) : Int) from by show Val.int ((r : Int) + (k : Int)) = _; rw [Int.natCast_add])
        (show e9 31 = elemV [0, 0, 0, 0] from h31) (show e9 32 = elemV [0, 0, 0, 0] from h32)
      exact ((StepRes.seq c8 (StepRes.seq c9 (StepRes.skip g45 hI))).pre hpre).mono
        (by simp only [fuelRk, fuelCmp]; omega)

/-! ### r -/

def fuelR (Fgax Fsb Finv Ftb : Nat) : Nat := fuelRk Fsb Finv Ftb + Fgax + 50

theorem l_r (hP : HasSign P) (C : Callees P G O X enc encS Fsbm Fgax Fsb Finv Ftb) (hB : BigOk O) (hG : Globals G X)
    (hn0 : 0 < X.n) (hn : X.n ≤ 256 ^ 32) {env : Env} {K : Bytes} (hK : K.length = 32) {kG : Model.Point.Pt α}
    (hinv : SInv env rd priv e p) (hd : Bytes.toNatBE priv + 1 < 256 ^ 32)
    (hne : Model.Field.scalarSetBytes X.S (Bytes.ofNatBE 32 (Bytes.toNatBE priv + 1)) ≠ .err)
    (h11 : env 11 = bytesV K) (h21 : env 21 = ptV enc kG) :
    StepRes P G O (fuelR Fgax Fsb Finv Ftb) env restR rd priv e p (mR X priv e K kG) := by
  generalize hx : Model.Point.getAffineX X.C kG = x
  generalize heI : Bytes.toNatBE e = eI
  have hm : mR X priv e K kG = if (x + eI) % X.n = 0 then .ok none else mRk X priv ((x + eI) % X.n) K := by
    rw [← hx, ← heI]; rfl
  rw [hm]
  generalize hrr : (x + eI) % X.n = r
  have hr : r < X.n := by rw [← hrr]; exact Nat.mod_lt _ hn0
  have har := r_arith x eI X.n
  rw [hrr] at har
  let z := elemV [0, 0, 0, 0]
  let e1 := env.set 25 (.int 0)
  let e2 := e1.set 26 (.int 0)
  let e3 := e2.set 27 (.int 0)
  let e4 := e3.set 28 (.int 0)
  let e5 := e4.set 29 (.int 0)
  let e6 := e5.set 30 (.int 0)
  let e7 := e6.set 31 z
  let e8 := e7.set 32 z
  let e9 := e8.set 33 (.int (x : Int))
  let e10 := e9.set 34 (.int (x : Int))
  let e11 := e10.set 35 (.int (eI : Int))
  let e12 := e11.set 25 (.int (eI : Int))
  let e13 := e12.set 36 (.int ((x : Int) + (eI : Int)))
  let e14 := e13.set 26 (.int ((x : Int) + (eI : Int)))
  let e15 := e14.set 37 (.int (r : Int))
  let e16 := e15.set 26 (.int (r : Int))
  let e17 := e16.set 38 (.int (if r = 0 then 0 else 1))
  let e18 := e17.set 39 (.int (if r = 0 then 1 else 0))
  have c1 : EvIn P G O 1 env (.assign 25 [] (.lit 0)) e1 .norm := EvIn.assign rfl
  have c2 : EvIn P G O 1 e1 (.assign 26 [] (.lit 0)) e2 .norm := EvIn.assign rfl
  have c3 : EvIn P G O 1 e2 (.assign 27 [] (.lit 0)) e3 .norm := EvIn.assign rfl
  have c4 : EvIn P G O 1 e3 (.assign 28 [] (.lit 0)) e4 .norm := EvIn.assign rfl
  have c5 : EvIn P G O 1 e4 (.assign 29 [] (.lit 0)) e5 .norm := EvIn.assign rfl
  have c6 : EvIn P G O 1 e5 (.assign 30 [] (.lit 0)) e6 .norm := EvIn.assign rfl
  have c7 : EvIn P G O 1 e6 (.assign 31 [] (.mk (.lit 1) (.mk (.lit 4) (.lit 0)))) e7 .norm :=
    EvIn.assign (CTIRRefinePointA.evalV_mkE _)
  have c8 : EvIn P G O 1 e7 (.assign 32 [] (.mk (.lit 1) (.mk (.lit 4) (.lit 0)))) e8 .norm :=
    EvIn.assign (CTIRRefinePointA.evalV_mkE _)
  have g21 : e8 21 = ptV enc kG := h21
  have c9 : EvIn P G O (Fgax + 1) e8 (.call [33] 89 [(.var 21)]) e9 .norm := by
    have := (C.gax kG).call (env := e8) (lhs := [33]) (evs1 g21) rfl
    rwa [hx] at this
  have c10 : EvIn P G O 1 e9 (.assign 34 [] (.var 33)) e10 .norm := EvIn.assign rfl
  have g2 : e10 2 = bytesV e := hinv.h2
  have c11 : EvIn P G O 1 e10 (.ext [35] 7 false [(.var 2)]) e11 .norm :=
    ext1 (evs1 g2) (by rw [hB.setBytes, heI])
  have c12 : EvIn P G O 1 e11 (.assign 25 [] (.var 35)) e12 .norm := EvIn.assign rfl
  have c13 : EvIn P G O 1 e12 (.ext [36] 0 false [(.var 34), (.var 25)]) e13 .norm :=
    ext1 (evs2 (va := .int (x : Int)) (vb := .int (eI : Int)) rfl rfl) (hB.add _ _)
  have c14 : EvIn P G O 1 e13 (.assign 26 [] (.var 36)) e14 .norm := EvIn.assign rfl
  have c15 : EvIn P G O 1 e14 (.ext [37] 4 false [(.var 26), (.glob 16)]) e15 .norm :=
    ext1 (evs_vg (va := .int ((x : Int) + (eI : Int))) rfl hG.g16) (by rw [hB.mod, har])
  have c16 : EvIn P G O 1 e15 (.assign 26 [] (.var 37)) e16 .norm := EvIn.assign rfl
  have c17 : EvIn P G O 1 e16 (.ext [38] 8 false [(.var 26)]) e17 .norm :=
    ext1 (evs1 (va := .int (r : Int)) rfl) (sign_nat hB r)
  have c18 : EvIn P G O 1 e17 (.declass 39 11 (.op2 .eq (.var 38) (.lit 0))) e18 .norm :=
    EvIn.declass (eq0_sign (s := r) rfl)
  have hpre : Pre P G O (Fgax + 36) env ssR e18 :=
    (Pre.cons c1 (Pre.cons c2 (Pre.cons c3 (Pre.cons c4 (Pre.cons c5 (Pre.cons c6 (Pre.cons c7 (Pre.cons c8
      (Pre.cons c9 (Pre.cons c10 (Pre.cons c11 (Pre.cons c12 (Pre.cons c13 (Pre.cons c14 (Pre.cons c15 (Pre.cons c16
      (Pre.cons c17 (Pre.cons c18 (Pre.nil _))))))))))))))))))).mono (by omega)
  have hinv18 : SInv e18 rd priv e p := hinv.frame rfl rfl rfl rfl rfl rfl
  by_cases hz : r = 0
  · rw [if_pos hz]
    have g39 : e18 39 = .int 1 := by show Val.int (if r = 0 then 1 else 0) = .int 1; rw [if_pos hz]
    exact ((StepRes.cont g39 hinv18).pre hpre).mono (by simp only [fuelR]; omega)
  · rw [if_neg hz]
    have g39 : e18 39 = .int 0 := by show Val.int (if r = 0 then 1 else 0) = .int 0; rw [if_neg hz]
    have hRk := l_rk (P := P) (G := G) (O := O) (X := X) hP C hB hG hn0 hn hK hr hinv18 hd hne
      (show e18 11 = bytesV K from h11) (show e18 26 = .int (r : Int) from rfl)
      (show e18 31 = elemV [0, 0, 0, 0] from rfl) (show e18 32 = elemV [0, 0, 0, 0] from rfl)
    exact ((StepRes.skip g39 hRk).pre hpre).mono (by simp only [fuelR]; omega)

/-! ### kG -/

def fuelKG (Fsbm Fgax Fsb Finv Ftb : Nat) : Nat := fuelR Fgax Fsb Finv Ftb + Fsbm + 20

theorem ne0_val {env : Env} {x : Nat} {n : Int} (h : env x = .int n) :
    evalV G env (.op2 .ne (.var x) (.lit 0)) = some (.int (ofBool (n != 0))) := by
  simp only [evalV_op2, evalV_var, evalV_lit, h, evalOp2, Option.map_some]

theorem l_kg (hP : HasSign P) (C : Callees P G O X enc encS Fsbm Fgax Fsb Finv Ftb) (hB : BigOk O) (hG : Globals G X)
    (hn0 : 0 < X.n) (hn : X.n ≤ 256 ^ 32) {env : Env} {K : Bytes} (hK : K.length = 32)
    (hinv : SInv env rd priv e p) (hd : Bytes.toNatBE priv + 1 < 256 ^ 32)
    (hne : Model.Field.scalarSetBytes X.S (Bytes.ofNatBE 32 (Bytes.toNatBE priv + 1)) ≠ .err)
    (h11 : env 11 = bytesV K) :
    StepRes P G O (fuelKG Fsbm Fgax Fsb Finv Ftb) env restKG rd priv e p (mKG X priv e K) := by
  let e1 := env.set 21 nilPointV
  let e2 := e1.set 22 (bytesV K)
  have c1 : EvIn P G O 1 env (.assign 21 [] (.mk (.lit 3) (.mk (.lit 1) (.mk (.lit 4) (.lit 0))))) e1 .norm :=
    EvIn.assign rfl
  have c2 : EvIn P G O 1 e1 (.assign 22 [] (.var 11)) e2 .norm := EvIn.assign (evar (show e1 11 = bytesV K from h11))
  have hpre : Pre P G O 4 env ssKG1 e2 := Pre.cons c1 (Pre.cons c2 (Pre.nil _))
  have a87 : evalVs G e2 [(.var 22)] = some [bytesV K] := evs1 rfl
  have hC := C.sbm K
  simp only [mKG]
  cases hs : Model.SM2.scalarBaseMult X K with
  | panic =>
    rw [hs] at hC
    exact fails_pre hpre (CTIRRefineComb.Fails.seq_left (CTIRRefineComb.Fails.call a87 hC))
  | err =>
    rw [hs] at hC
    let e3 := (e2.set 23 nilPointV).set 24 (.int 1)
    let e4 := e3.set 21 nilPointV
    let e5 := e4.set 5 (.int 1)
    have c3 : EvIn P G O (Fsbm + 1) e2 sSBM e3 .norm := hC.call a87 rfl
    have c4 : EvIn P G O 1 e3 (.assign 21 [] (.var 23)) e4 .norm := EvIn.assign rfl
    have c5 : EvIn P G O 1 e4 (.assign 5 [] (.var 24)) e5 .norm := EvIn.assign rfl
    have hc : evalV G e5 (.op2 .ne (.var 5) (.lit 0)) = some (.int 1) := ne0_val (n := 1) rfl
    have sr : evalVs G e5 [(.var 3), (.var 4), (.var 5)] = some [bytesV [], bytesV [], .int 1] := by
      have g3 : e5 3 = bytesV [] := hinv.h3
      have g4 : e5 4 = bytesV [] := hinv.h4
      have g5 : e5 5 = .int 1 := rfl
      simp only [evalVs_cons, evalVs_nil, evalV_var, g3, g4, g5]
    have hret : EvIn P G O 3 e5 (.seq (.ite (.op2 .ne (.var 5) (.lit 0)) retErr .skip) restR) e5
        (.ret [bytesV [], bytesV [], .int 1]) := EvIn.seq_stop (EvIn.ite hc rfl (EvIn.ret sr)) (by simp)
    refine ⟨e5, 1, by decide, ?_⟩
    exact ((hpre _).1 _ _ _ (EvIn.seq c3 ((Pre.cons c4 (Pre.cons c5 (Pre.nil _)) _).1 _ _ _ hret))).mono
      (by simp only [fuelKG]; omega)
  | ok kG =>
    rw [hs] at hC
    simp only
    let e3 := (e2.set 23 (ptV enc kG)).set 24 (.int 0)
    let e4 := e3.set 21 (ptV enc kG)
    let e5 := e4.set 5 (.int 0)
    have c3 : EvIn P G O (Fsbm + 1) e2 sSBM e3 .norm := hC.call a87 rfl
    have c4 : EvIn P G O 1 e3 (.assign 21 [] (.var 23)) e4 .norm := EvIn.assign rfl
    have c5 : EvIn P G O 1 e4 (.assign 5 [] (.var 24)) e5 .norm := EvIn.assign rfl
    have hc : evalV G e5 (.op2 .ne (.var 5) (.lit 0)) = some (.int 0) := ne0_val (n := 0) rfl
    have c6 : EvIn P G O 2 e5 (.ite (.op2 .ne (.var 5) (.lit 0)) retErr .skip) e5 .norm := EvIn.ite hc rfl (EvIn.skip _)
    have hinv5 : SInv e5 rd priv e p := hinv.frame rfl rfl rfl rfl rfl rfl
    have hR := l_r (P := P) (G := G) (O := O) (X := X) hP C hB hG hn0 hn hK (kG := kG) hinv5 hd hne
      (show e5 11 = bytesV K from h11) (show e5 21 = ptV enc kG from rfl)
    exact ((StepRes.seq c3 ((StepRes.seq c6 hR).pre (Pre.cons c4 (Pre.cons c5 (Pre.nil _))))).pre hpre).mono
      (by simp only [fuelKG]; omega)

/-! ### the zero test of K -/

theorem kcond_true {env : Env} {j w : Nat} (h18 : env 18 = .int (j : Int)) (h17 : env 17 = .int (w : Int)) (h : j < w) :
    evalV G env kCond = some (.int 1) := by
  have : (j : Int) < (w : Int) := by omega
  simp [kCond, evalV_op2, evalV_var, h18, h17, evalOp2, ofBool, this]

theorem kcond_false {env : Env} {j w : Nat} (h18 : env 18 = .int (j : Int)) (h17 : env 17 = .int (w : Int)) (h : ¬ j < w) :
    evalV G env kCond = some (.int 0) := by
  have : ¬ (j : Int) < (w : Int) := by omega
  simp [kCond, evalV_op2, evalV_var, h18, h17, evalOp2, ofBool, this]

/-- `for _, b := range K { kAcc |= b }`: never stuck; afterwards `kAcc = 0` iff all bytes are 0; only the variables
    16 (kAcc), 18 (index), 19 (b) change -/
theorem k_loop (K : Bytes) (hlen : K.length < 2 ^ 63) :
    ∀ (n j : Nat) (env : Env) (acc : Nat), env 11 = bytesV K → env 17 = .int (K.length : Int) → env 18 = .int (j : Int) →
    env 16 = .int (acc : Int) → j + n = K.length → acc < 256 →
    (acc = 0 ↔ (K.take j).all (· == 0) = true) →
    ∃ (env' : Env) (acc' : Nat), EvIn P G O (5 * n + 1) env kLoop env' .norm ∧ env' 16 = .int (acc' : Int) ∧
      (acc' = 0 ↔ K.all (· == 0) = true) ∧ (∀ x, x ≠ 16 → x ≠ 18 → x ≠ 19 → env' x = env x) := by
  intro n
  induction n with
  | zero =>
    intro j env acc h11 h17 h18 h16 hj _ hiff
    have hjl : j = K.length := by omega
    subst hjl
    rw [List.take_length] at hiff
    exact ⟨env, acc, EvIn.loop_exit (kcond_false h18 h17 (by omega)) rfl, h16, hiff, fun _ _ _ _ => rfl⟩
  | succ n ih =>
    intro j env acc h11 h17 h18 h16 hj hacc hiff
    have hjl : j < K.length := by omega
    have hx : K[j]? = some K[j] := List.getElem?_eq_getElem hjl
    generalize K[j] = x at hx
    have hxl : x.toNat < 256 := x.toNat_lt
    let e1 := env.set 19 (.int ((x.toNat : Nat) : Int))
    let e2 := e1.set 16 (.int ((acc ||| x.toNat : Nat) : Int))
    let e3 := e2.set 18 (.int ((j + 1 : Nat) : Int))
    have s19 : evalV G env (.idx (.var 11) (.var 18)) = some (.int ((x.toNat : Nat) : Int)) := by
      simp only [evalV_idx, evalV_var, h11, h18, bytesV, bytesV_getIdx, hx, Option.map_some]
      rfl
    have g16 : e1 16 = .int (acc : Int) := h16
    have g19 : e1 19 = .int ((x.toNat : Nat) : Int) := rfl
    have s16 : evalV G e1 (.op2 (.or .u8) (.var 16) (.var 19)) = some (.int ((acc ||| x.toNat : Nat) : Int)) := by
      simp only [evalV_op2, evalV_var, g16, g19, CTIRRefineCurve.or_u8_nat hacc hxl, Option.map_some]
    have g18 : e2 18 = .int (j : Int) := h18
    have s18 : evalV G e2 (.op2 (.add .i64) (.var 18) (.lit 1)) = some (.int ((j + 1 : Nat) : Int)) := by
      simp only [evalV_op2, evalV_var, evalV_lit, g18, CTIRRefineCurve.succ_i64_nat (by omega : j + 1 < 2 ^ 63),
        Option.map_some]
    obtain ⟨env', acc', hl, h16', hiff', hfr⟩ := ih (j + 1) e3 (acc ||| x.toNat) (show e3 11 = bytesV K from h11)
      (show e3 17 = .int (K.length : Int) from h17) rfl rfl (by omega)
      (Nat.or_lt_two_pow (n := 8) hacc hxl) (CTIRRefineCurve.all_take_succ K j x hx acc hiff)
    refine ⟨env', acc', ?_, h16', hiff', ?_⟩
    · have hbody : EvIn P G O 3 env kBody e2 .norm := EvIn.seq (EvIn.assign s19) (EvIn.assign s16)
      have hpost : EvIn P G O 1 e2 kPost e3 .norm := EvIn.assign s18
      exact (EvIn.loop_round (kcond_true h18 h17 hjl) rfl hbody (Or.inl rfl) hpost hl).mono (by omega)
    · intro y h1 h2 h3
      rw [hfr y h1 h2 h3]
      show e3 y = env y
      simp only [e3, e2, e1, Env.set, if_neg h1, if_neg h2, if_neg h3]

def fuelAcc (Fsbm Fgax Fsb Finv Ftb : Nat) : Nat := fuelKG Fsbm Fgax Fsb Finv Ftb + 5 * 32 + 20

theorem l_acc (hP : HasSign P) (C : Callees P G O X enc encS Fsbm Fgax Fsb Finv Ftb) (hB : BigOk O) (hG : Globals G X)
    (hn0 : 0 < X.n) (hn : X.n ≤ 256 ^ 32) {env : Env} {K : Bytes} (hK : K.length = 32)
    (hinv : SInv env rd priv e p) (hd : Bytes.toNatBE priv + 1 < 256 ^ 32)
    (hne : Model.Field.scalarSetBytes X.S (Bytes.ofNatBE 32 (Bytes.toNatBE priv + 1)) ≠ .err)
    (h11 : env 11 = bytesV K) :
    StepRes P G O (fuelAcc Fsbm Fgax Fsb Finv Ftb) env restAcc rd priv e p
      (if K.all (· == 0) = true then .ok none else mKG X priv e K) := by
  let e1 := env.set 16 (.int 0)
  let e2 := e1.set 17 (.int (K.length : Int))
  let e3 := e2.set 18 (.int 0)
  have c1 : EvIn P G O 1 env (.assign 16 [] (.lit 0)) e1 .norm := EvIn.assign rfl
  have c2 : EvIn P G O 1 e1 (.assign 17 [] (.len (.var 11))) e2 .norm :=
    EvIn.assign (evalV_lenB (x := K) (evar (show e1 11 = bytesV K from h11)))
  have c3 : EvIn P G O 1 e2 (.assign 18 [] (.lit 0)) e3 .norm := EvIn.assign rfl
  have hpre : Pre P G O 6 env ssAcc1 e3 := Pre.cons c1 (Pre.cons c2 (Pre.cons c3 (Pre.nil _)))
  obtain ⟨e4, acc, hl, h16, hiff, hfr⟩ := k_loop (P := P) (G := G) (O := O) K (by rw [hK]; decide) K.length 0 e3 0
    (show e3 11 = bytesV K from h11) rfl rfl rfl (by omega) (by decide) (by simp)
  rw [hK] at hl
  let e5 := e4.set 20 (.int (if acc = 0 then 1 else 0))
  have c5 : EvIn P G O 1 e4 sDecl20 e5 .norm := by
    refine EvIn.declass ?_
    rw [evalV_op2, evalV_var, h16, evalV_lit]
    by_cases ha : acc = 0
    · simp [ha, evalOp2, ofBool]
    · have : ¬ ((acc : Int) = 0) := by omega
      simp [ha, this, evalOp2, ofBool]
  have hinv5 : SInv e5 rd priv e p :=
    hinv.frame (hfr 0 (by decide) (by decide) (by decide)) (hfr 1 (by decide) (by decide) (by decide))
      (hfr 2 (by decide) (by decide) (by decide)) (hfr 3 (by decide) (by decide) (by decide))
      (hfr 4 (by decide) (by decide) (by decide)) (hfr 7 (by decide) (by decide) (by decide))
  by_cases hz : K.all (· == 0) = true
  · rw [if_pos hz]
    have g20 : e5 20 = .int 1 := by
      show Val.int (if acc = 0 then 1 else 0) = .int 1
      rw [if_pos (hiff.mpr hz)]
    exact ((StepRes.seq hl (StepRes.seq c5 (StepRes.cont g20 hinv5))).pre hpre).mono (by simp only [fuelAcc]; omega)
  · rw [if_neg hz]
    have g20 : e5 20 = .int 0 := by
      show Val.int (if acc = 0 then 1 else 0) = .int 0
      rw [if_neg (fun h => hz (hiff.mp h))]
    have g11 : e5 11 = bytesV K := (hfr 11 (by decide) (by decide) (by decide)).trans h11
    have hKG := l_kg (P := P) (G := G) (O := O) (X := X) hP C hB hG hn0 hn hK hinv5 hd hne g11
    exact ((StepRes.seq hl (StepRes.seq c5 (StepRes.skip g20 hKG))).pre hpre).mono (by simp only [fuelAcc]; omega)

/-! ### the range test -/

def fuelCmpK (Fsbm Fgax Fsb Finv Ftb : Nat) : Nat := fuelAcc Fsbm Fgax Fsb Finv Ftb + fuelCmp 32 + 10

theorem l_cmpK (hP : HasSign P) (C : Callees P G O X enc encS Fsbm Fgax Fsb Finv Ftb) (hB : BigOk O) (hG : Globals G X)
    (hn0 : 0 < X.n) (hn : X.n ≤ 256 ^ 32) {env : Env} {K : Bytes} (hK : K.length = 32)
    (hinv : SInv env rd priv e p) (hd : Bytes.toNatBE priv + 1 < 256 ^ 32)
    (hne : Model.Field.scalarSetBytes X.S (Bytes.ofNatBE 32 (Bytes.toNatBE priv + 1)) ≠ .err)
    (h11 : env 11 = bytesV K) :
    StepRes P G O (fuelCmpK Fsbm Fgax Fsb Finv Ftb) env restCmpK rd priv e p (mStep X priv e K) := by
  have a0 : evalVs G env [(.var 11), (.glob 15), (.lit 32)] = some [bytesV K, bytesV (nBytes X), .int 32] := by
    simp only [evalVs_cons, evalVs_nil, evalV_var, evalV_glob, evalV_lit, hG.g15, h11]
  simp only [mStep]
  cases hc : Model.Utils.constantTimeCmp (some K) (some (nBytes X)) 32 with
  | err => exact absurd hc (cmp_ne_err _ _ _)
  | panic =>
    exact CTIRRefineComb.Fails.seq_left (CTIRRefineComb.Fails.call a0
      (Or.inr ⟨fn_0, hP.h0, cmp_body_stuck K (nBytes X) 32 (by decide) (by decide) hc⟩))
  | ok c =>
    simp only
    obtain ⟨envc, hb⟩ := cmp_body_ok (P := P) (G := G) (X := O) K (nBytes X) 32 (by decide) (by decide) c hc
    let e1 := env.set 14 (.int c)
    let e2 := e1.set 15 (.int (ofBool (decide (0 ≤ c))))
    have c1 : EvIn P G O (fuelCmp 32 - 1 + 1) env sCmpK e1 .norm := EvIn.call a0 hP.h0 rfl rfl hb rfl
    have c2 : EvIn P G O 1 e1 sDecl15 e2 .norm := by
      refine EvIn.declass ?_
      have g14 : e1 14 = .int c := rfl
      simp only [evalV_op2, evalV_var, evalV_lit, g14, evalOp2, Option.map_some]
    have hinv2 : SInv e2 rd priv e p := hinv.frame rfl rfl rfl rfl rfl rfl
    by_cases h0 : c ≥ 0
    · rw [if_pos (Or.inl h0)]
      have g15 : e2 15 = .int 1 := by
        show Val.int (ofBool (decide (0 ≤ c))) = .int 1
        simp [ofBool, h0]
      exact (StepRes.seq c1 (StepRes.seq c2 (StepRes.cont g15 hinv2))).mono (by simp only [fuelCmpK, fuelCmp]; omega)
    · have g15 : e2 15 = .int 0 := by
        show Val.int (ofBool (decide (0 ≤ c))) = .int 0
        simp [ofBool, h0]
      have hA := l_acc (P := P) (G := G) (O := O) (X := X) hP C hB hG hn0 hn hK hinv2 hd hne
        (show e2 11 = bytesV K from h11)
      have hmm : (if c ≥ 0 ∨ K.all (· == 0) = true then (.ok none : StepOut) else mKG X priv e K)
          = (if K.all (· == 0) = true then .ok none else mKG X priv e K) := by
        by_cases hz : K.all (· == 0) = true
        · rw [if_pos (Or.inr hz), if_pos hz]
        · rw [if_neg (by intro h; rcases h with h | h; exact h0 h; exact hz h), if_neg hz]
      rw [hmm]
      exact (StepRes.seq c1 (StepRes.seq c2 (StepRes.skip g15 hA))).mono (by simp only [fuelCmpK, fuelCmp]; omega)

/-! ### the read: one iteration of the loop -/

def fuelBody (Fsbm Fgax Fsb Finv Ftb : Nat) : Nat := fuelCmpK Fsbm Fgax Fsb Finv Ftb + 16

theorem l_body (hP : HasSign P) (C : Callees P G O X enc encS Fsbm Fgax Fsb Finv Ftb) (hB : BigOk O) (hG : Globals G X)
    (hn0 : 0 < X.n) (hn : X.n ≤ 256 ^ 32) {sc : Nat → Script} (hR : ReaderOk O rd sc) {env : Env}
    (hinv : SInv env rd priv e p) (hd : Bytes.toNatBE priv + 1 < 256 ^ 32)
    (hne : Model.Field.scalarSetBytes X.S (Bytes.ofNatBE 32 (Bytes.toNatBE priv + 1)) ≠ .err) :
    match readFull (sc p) 32 [] with
    | (none, _) => ∃ env' code, code ≠ 0 ∧
        EvIn P G O (fuelBody Fsbm Fgax Fsb Finv Ftb) env sBody env' (.ret [bytesV [], bytesV [], .int code])
    | (some K, _) => StepRes P G O (fuelBody Fsbm Fgax Fsb Finv Ftb) env sBody rd priv e (p + 1) (mStep X priv e K) := by
  let e1 := env.set 11 (bytesV (List.replicate 32 0))
  have c1 : EvIn P G O 1 env (.assign 11 [] (.mk (.lit 32) (.lit 0))) e1 .norm := EvIn.assign (evalV_mk32 _)
  have a11 : evalVs G e1 [(.var 0), (.len (.var 11)), (.var 7)] = some [rd, .int 32, .int (p : Int)] := by
    have l11 : evalV G e1 (.len (.var 11)) = some (.int 32) := by
      have := evalV_lenB (G := G) (env := e1) (a := .var 11) (x := List.replicate 32 0) rfl
      rwa [List.length_replicate] at this
    have g0 : e1 0 = rd := hinv.h0
    have g7 : e1 7 = .int (p : Int) := hinv.h7
    simp only [evalVs_cons, evalVs_nil, evalV_var, l11, g0, g7]
  have hRp := hR p
  have h32 := SM2SignBytes.readFull32 (sc p)
  rcases hrf : readFull (sc p) 32 [] with ⟨_ | K, rest⟩
  · rw [hrf] at hRp
    obtain ⟨buf, n, code, hO, hcode, _⟩ := hRp
    let e2 := (((e1.set 11 buf).set 12 (.int n)).set 13 (.int code)).set 7 (.int ((p + 1 : Nat) : Int))
    let e3 := e2.set 5 (.int code)
    have c2 : EvIn P G O 1 e1 (.ext [11, 12, 13, 7] 11 true [(.var 0), (.len (.var 11)), (.var 7)]) e2 .norm :=
      evIn_ext a11 (by rw [hO]; rfl)
    have c3 : EvIn P G O 1 e2 (.assign 5 [] (.var 13)) e3 .norm := EvIn.assign rfl
    have hc : evalV G e3 (.op2 .ne (.var 5) (.lit 0)) = some (.int 1) := by
      rw [ne0_val (n := code) rfl]
      simp [ofBool, hcode]
    have sr : evalVs G e3 [(.var 3), (.var 4), (.var 5)] = some [bytesV [], bytesV [], .int code] := by
      have g3 : e3 3 = bytesV [] := hinv.h3
      have g4 : e3 4 = bytesV [] := hinv.h4
      have g5 : e3 5 = .int code := rfl
      simp only [evalVs_cons, evalVs_nil, evalV_var, g3, g4, g5]
    have hret : EvIn P G O 3 e3 (.seq (.ite (.op2 .ne (.var 5) (.lit 0)) retErr .skip) restCmpK) e3
        (.ret [bytesV [], bytesV [], .int code]) := EvIn.seq_stop (EvIn.ite hc rfl (EvIn.ret sr)) (by simp)
    exact ⟨e3, code, hcode, ((Pre.cons c1 (Pre.cons c2 (Pre.cons c3 (Pre.nil _))) _).1 _ _ _ hret).mono
      (by simp only [fuelBody]; omega)⟩
  · rw [hrf] at hRp h32
    obtain ⟨hO, _⟩ := hRp
    obtain ⟨hK, _, _⟩ := h32
    let e2 := (((e1.set 11 (bytesV K)).set 12 (.int 32)).set 13 (.int 0)).set 7 (.int ((p + 1 : Nat) : Int))
    let e3 := e2.set 5 (.int 0)
    have c2 : EvIn P G O 1 e1 (.ext [11, 12, 13, 7] 11 true [(.var 0), (.len (.var 11)), (.var 7)]) e2 .norm :=
      evIn_ext a11 (by rw [hO]; rfl)
    have c3 : EvIn P G O 1 e2 (.assign 5 [] (.var 13)) e3 .norm := EvIn.assign rfl
    have hc : evalV G e3 (.op2 .ne (.var 5) (.lit 0)) = some (.int 0) := ne0_val (n := 0) rfl
    have c4 : EvIn P G O 2 e3 (.ite (.op2 .ne (.var 5) (.lit 0)) retErr .skip) e3 .norm := EvIn.ite hc rfl (EvIn.skip _)
    have hinv3 : SInv e3 rd priv e (p + 1) := ⟨hinv.h0, hinv.h1, hinv.h2, hinv.h3, hinv.h4, rfl⟩
    have hCK := l_cmpK (P := P) (G := G) (O := O) (X := X) hP C hB hG hn0 hn hK hinv3 hd hne
      (show e3 11 = bytesV K from rfl)
    exact ((StepRes.seq c4 hCK).pre (Pre.cons c1 (Pre.cons c2 (Pre.cons c3 (Pre.nil _))))).mono
      (by simp only [fuelBody]; omega)

/-! ### the loop -/

/-- outcome of the loop against the model's `signLoop` -/
def LoopRes (P : Prog) (G : Nat → Val) (O : Oracle) (F : Nat) (env : Env) :
    Outcome ((Bytes × Bytes) × Script) → Prop
  | .ok (rs, _) => ∃ env', EvIn P G O F env sLoop env' (.ret [bytesV rs.1, bytesV rs.2, .int 0])
  | .err => ∃ env' code, code ≠ 0 ∧ EvIn P G O F env sLoop env' (.ret [bytesV [], bytesV [], .int code])
  | .panic => Fails P G O env sLoop

/-- fuel for `n` iterations whose body needs `Fb` -/
def fuelLoop (Fb n : Nat) : Nat := (Fb + 3) * n + 1

theorem LoopRes.round {Fb Fl : Nat} {env env1 : Env} {o : Outcome ((Bytes × Bytes) × Script)}
    (hev : EvIn P G O Fb env sBody env1 .cont) (h : LoopRes P G O Fl env1 o) :
    LoopRes P G O (Fb + 1 + Fl + 1) env o := by
  have hcond : evalV G env (.lit 1) = some (.int 1) := rfl
  match o, h with
  | .ok (rs, _), ⟨env', h1⟩ => exact ⟨env', EvIn.loop_round hcond rfl hev (Or.inr rfl) (EvIn.skip _) h1⟩
  | .err, ⟨env', code, hc, h1⟩ => exact ⟨env', code, hc, EvIn.loop_round hcond rfl hev (Or.inr rfl) (EvIn.skip _) h1⟩
  | .panic, h => exact CTIRRefineComb.Fails.loop_round hcond rfl hev (Or.inr rfl) (EvIn.skip _) h

theorem l_loop (hP : HasSign P) (C : Callees P G O X enc encS Fsbm Fgax Fsb Finv Ftb) (hB : BigOk O) (hG : Globals G X)
    (hn0 : 0 < X.n) (hn : X.n ≤ 256 ^ 32) {sc : Nat → Script} (hR : ReaderOk O rd sc)
    (hd : Bytes.toNatBE priv + 1 < 256 ^ 32)
    (hne : Model.Field.scalarSetBytes X.S (Bytes.ofNatBE 32 (Bytes.toNatBE priv + 1)) ≠ .err) :
    ∀ (n p : Nat) (env : Env), SInv env rd priv e p → avail (sc p) / 32 + 1 ≤ n →
      LoopRes P G O (fuelLoop (fuelBody Fsbm Fgax Fsb Finv Ftb) n) env (signLoop X priv e n (sc p)) := by
  intro n
  induction n with
  | zero => intro p env _ h; omega
  | succ n ih =>
    intro p env hinv hav
    have hb := l_body (P := P) (G := G) (O := O) (X := X) (p := p) hP C hB hG hn0 hn hR hinv hd hne
    have hRp := hR p
    have h32 := SM2SignBytes.readFull32 (sc p)
    have hcond : evalV G env (.lit 1) = some (.int 1) := rfl
    have hfuel : fuelBody Fsbm Fgax Fsb Finv Ftb + 1 ≤ fuelLoop (fuelBody Fsbm Fgax Fsb Finv Ftb) (n + 1) := by
      simp only [fuelLoop]; rw [Nat.mul_add]; omega
    rw [signLoop_succ]
    rcases hrf : readFull (sc p) 32 [] with ⟨_ | K, rest⟩
    · rw [hrf] at hb
      obtain ⟨env', code, hcode, hev⟩ := hb
      exact ⟨env', code, hcode, (EvIn.loop_leave hcond rfl hev (by simp)).mono hfuel⟩
    · rw [hrf] at hb hRp h32
      obtain ⟨hO, hsc⟩ := hRp
      obtain ⟨_, _, hav'⟩ := h32
      simp only at hb ⊢
      cases hm : mStep X priv e K with
      | panic =>
        rw [hm] at hb
        exact CTIRRefineComb.Fails.loop_body hcond rfl hb
      | err =>
        rw [hm] at hb
        obtain ⟨env', code, hcode, hev⟩ := hb
        exact ⟨env', code, hcode, (EvIn.loop_leave hcond rfl hev (by simp)).mono hfuel⟩
      | ok o =>
        rw [hm] at hb
        cases o with
        | some rs =>
          obtain ⟨env', hev⟩ := hb
          exact ⟨env', (EvIn.loop_leave hcond rfl hev (by simp)).mono hfuel⟩
        | none =>
          obtain ⟨env1, hev, hinv1⟩ := hb
          have ih' := ih (p + 1) env1 hinv1 (by rw [hsc]; omega)
          rw [hsc] at ih'
          have := LoopRes.round hev ih'
          show LoopRes P G O _ env (signLoop X priv e n rest)
          revert this
          generalize signLoop X priv e n rest = o
          intro this
          have hF : fuelBody Fsbm Fgax Fsb Finv Ftb + 1 + fuelLoop (fuelBody Fsbm Fgax Fsb Finv Ftb) n + 1
              ≤ fuelLoop (fuelBody Fsbm Fgax Fsb Finv Ftb) (n + 1) := by
            simp only [fuelLoop]; rw [Nat.mul_add]; omega
          match o, this with
          | .ok (rs, _), ⟨env', h1⟩ => exact ⟨env', h1.mono hF⟩
          | .err, ⟨env', code, hc, h1⟩ => exact ⟨env', code, hc, h1.mono hF⟩
          | .panic, h => exact h

/-! ### the whole function -/

theorem signHashed_eq (X : Model.SM2.Ctx α β) (sc : Script) (priv e : Bytes) : signHashed X sc priv e =
    match Model.SM2.testPrivateKey X priv with
    | .ok t => if t ≠ 0 then .err else
        match signLoop X priv e (avail sc / 32 + 1) sc with
        | .ok (rs, sc') => .ok (rs, avail sc - avail sc')
        | .err => .err
        | .panic => .panic
    | .err => .err
    | .panic => .panic := by
  unfold signHashed
  cases Model.SM2.testPrivateKey X priv with
  | err => rfl
  | panic => rfl
  | ok t =>
    simp only [Outcome.bind_ok]
    by_cases ht : t ≠ 0
    · rw [if_pos ht, if_pos ht]
    · rw [if_neg ht, if_neg ht]
      cases signLoop X priv e (avail sc / 32 + 1) sc with
      | err => rfl
      | panic => rfl
      | ok v => rfl

/-- an accepted key: `d + 1` fits into 32 bytes (so the model's `fillBytes 32 (d + 1)` does not panic) -/
theorem priv_bound (X : Model.SM2.Ctx α β) (priv : Bytes) (h : Model.SM2.testPrivateKey X priv = .ok 0) :
    Bytes.toNatBE priv + 1 < 256 ^ 32 := by
  rw [CTIRRefineCurve.testPrivateKey_eq] at h
  have hlt := SM2SignBytes.toNatBE_lt priv
  by_cases hl : (priv.length : Int) - 32 > 0
  · rw [if_pos hl] at h
    simp only [Outcome.ok.injEq] at h
    omega
  · rw [if_neg hl] at h
    by_cases hz : priv.all (· == 0) = true
    · rw [if_pos hz] at h; simp at h
    · rw [if_neg hz] at h
      by_cases hs : (priv.length : Int) - 32 < 0
      · have hpow : 256 ^ priv.length ≤ 256 ^ 31 := Nat.pow_le_pow_right (by decide) (by omega)
        omega
      · rw [if_neg hs] at h
        have hlen : priv.length = 32 := by omega
        rw [UtilsCmp.cmp_total] at h
        simp only [Spec.Utils.cmp] at h
        by_cases hp : (32 : Int).toNat > priv.length ∨ (32 : Int).toNat > (nMinus1Bytes X).length
        · rw [if_pos hp] at h; simp at h
        · rw [if_neg hp, Outcome.bind_ok] at h
          have hb : 32 ≤ (nMinus1Bytes X).length := by
            have : (32 : Int).toNat = 32 := rfl
            omega
          have e32 : (32 : Int).toNat = 32 := rfl
          rw [e32] at h
          by_cases hc : Spec.Utils.lexCmp (priv.take 32) ((nMinus1Bytes X).take 32) = -1
          · have hl2 : (priv.take 32).length = ((nMinus1Bytes X).take 32).length := by
              rw [List.length_take, List.length_take]; omega
            have h1 := (UtilsCmp.lexCmp_lt_iff_toNat _ _ hl2).mp hc
            have h2 := SM2SignBytes.toNatBE_lt ((nMinus1Bytes X).take 32)
            have h3 : ((nMinus1Bytes X).take 32).length = 32 := by rw [List.length_take]; omega
            rw [h3] at h2
            rw [List.take_of_length_le (by omega)] at h1
            omega
          · rw [if_neg hc] at h; simp at h

/-- fuel for SignHashed: `navail` = number of bytes the reader script can deliver -/
def fuelSign (Fsbm Fgax Fsb Finv Ftb navail : Nat) : Nat :=
  fuelLoop (fuelBody Fsbm Fgax Fsb Finv Ftb) (navail / 32 + 1) + CTIRRefineCurve.fuelTest + 30

/-- BODY LEVEL: the body of `fn_98` against `Model.SM2.signHashed`, in any program that contains the generated
    functions 0, 1, 98, 99 -/
theorem sign_body (hP : HasSign P) (C : Callees P G O X enc encS Fsbm Fgax Fsb Finv Ftb) (hB : BigOk O) (hG : Globals G X)
    (hn0 : 0 < X.n) (hn : X.n ≤ 256 ^ 32) {sc : Nat → Script} (hR : ReaderOk O rd sc) (hlen : priv.length < 2 ^ 63)
    (hne : Model.SM2.testPrivateKey X priv = .ok 0 →
      Model.Field.scalarSetBytes X.S (Bytes.ofNatBE 32 (Bytes.toNatBE priv + 1)) ≠ .err) :
    match signHashed X (sc 0) priv e with
    | .ok (rs, _) => ∃ env', EvIn P G O (fuelSign Fsbm Fgax Fsb Finv Ftb (avail (sc 0)))
        (Env.ofList [rd, bytesV priv, bytesV e]) fn_98.body env' (.ret [bytesV rs.1, bytesV rs.2, .int 0])
    | .err => ∃ env' code, code ≠ 0 ∧ EvIn P G O (fuelSign Fsbm Fgax Fsb Finv Ftb (avail (sc 0)))
        (Env.ofList [rd, bytesV priv, bytesV e]) fn_98.body env' (.ret [bytesV [], bytesV [], .int code])
    | .panic => Fails P G O (Env.ofList [rd, bytesV priv, bytesV e]) fn_98.body := by
  rw [signHashed_eq, fn_98_body]
  let e0 : Env := Env.ofList [rd, bytesV priv, bytesV e]
  let e1 := e0.set 3 (bytesV [])
  let e2 := e1.set 4 (bytesV [])
  let e3 := e2.set 5 (.int 0)
  let e4 := e3.set 7 (.int 0)
  have c1 : EvIn P G O 1 e0 (.assign 3 [] (.mk (.lit 0) (.lit 0))) e1 .norm := EvIn.assign rfl
  have c2 : EvIn P G O 1 e1 (.assign 4 [] (.mk (.lit 0) (.lit 0))) e2 .norm := EvIn.assign rfl
  have c3 : EvIn P G O 1 e2 (.assign 5 [] (.lit 0)) e3 .norm := EvIn.assign rfl
  have c4 : EvIn P G O 1 e3 (.assign 7 [] (.lit 0)) e4 .norm := EvIn.assign rfl
  have hpre : Pre P G O 8 e0 ssPro e4 := Pre.cons c1 (Pre.cons c2 (Pre.cons c3 (Pre.cons c4 (Pre.nil _))))
  have a1 : evalVs G e4 [(.var 1)] = some [bytesV priv] := evs1 rfl
  cases ht : Model.SM2.testPrivateKey X priv with
  | err => exact absurd ht (CTIRRefineCurve.testPrivateKey_ne_err X priv)
  | panic =>
    exact fails_pre hpre (CTIRRefineComb.Fails.seq_left (CTIRRefineComb.Fails.call a1
      (Or.inr ⟨fn_1, hP.h1, CTIRRefineCurve.test_body_stuck hP.h0 X hG.g5 priv hlen ht⟩)))
  | ok t =>
    simp only
    obtain ⟨envt, hb⟩ := CTIRRefineCurve.test_body_ok (P := P) (G := G) (X := O) hP.h0 X hG.g5 priv hlen t ht
    let e5 := e4.set 8 (.int t)
    let e6 := e5.set 9 (.int t)
    have c5 : EvIn P G O (CTIRRefineCurve.fuelTest + 1) e4 sTest e5 .norm := EvIn.call a1 hP.h1 rfl rfl hb rfl
    have c6 : EvIn P G O 1 e5 sDecl9 e6 .norm := EvIn.declass rfl
    have hc : evalV G e6 (.op2 .ne (.var 9) (.lit 0)) = some (.int (ofBool (t != 0))) := ne0_val (n := t) rfl
    by_cases ht0 : t ≠ 0
    · rw [if_pos ht0]
      obtain ⟨v, hv⟩ := hB.errorf [.int t]
      let e7 := e6.set 10 v
      let e8 := e7.set 5 (.int 1)
      have hc1 : evalV G e6 (.op2 .ne (.var 9) (.lit 0)) = some (.int 1) := by
        rw [hc]; simp [ofBool, ht0]
      have d1 : EvIn P G O 1 e6 (.ext [10] 10 true [(.var 9)]) e7 .norm := ext1 (evs1 (va := .int t) rfl) hv
      have d2 : EvIn P G O 1 e7 (.assign 5 [] (.lit 1)) e8 .norm := EvIn.assign rfl
      have sr : evalVs G e8 [(.var 3), (.var 4), (.var 5)] = some [bytesV [], bytesV [], .int 1] := rfl
      have hite : EvIn P G O 6 e6 sErrIte e8 (.ret [bytesV [], bytesV [], .int 1]) :=
        EvIn.ite hc1 rfl (EvIn.seq d1 (EvIn.seq d2 (EvIn.ret sr)))
      refine ⟨e8, 1, by decide, ?_⟩
      exact ((hpre _).1 _ _ _ (EvIn.seq c5 (EvIn.seq c6 (EvIn.seq_stop hite (by simp))))).mono
        (by simp only [fuelSign, fuelLoop]; omega)
    · rw [if_neg ht0]
      have ht0' : t = 0 := by
        by_cases h : t = 0
        · exact h
        · exact absurd h ht0
      subst ht0'
      have hc0 : evalV G e6 (.op2 .ne (.var 9) (.lit 0)) = some (.int 0) := hc
      have c7 : EvIn P G O 2 e6 sErrIte e6 .norm := EvIn.ite hc0 rfl (EvIn.skip _)
      have hinv6 : SInv e6 rd priv e 0 := ⟨rfl, rfl, rfl, rfl, rfl, rfl⟩
      have hl := l_loop (P := P) (G := G) (O := O) (X := X) (e := e) hP C hB hG hn0 hn hR (priv_bound X priv ht) (hne ht)
        (avail (sc 0) / 32 + 1) 0 e6 hinv6 (Nat.le_refl _)
      have hF : ∀ F, F = fuelLoop (fuelBody Fsbm Fgax Fsb Finv Ftb) (avail (sc 0) / 32 + 1) →
          CTIRRefineCurve.fuelTest + 1 + (1 + (2 + (F + 1) + 1) + 1) + 1 + 8 ≤ fuelSign Fsbm Fgax Fsb Finv Ftb (avail (sc 0)) := by
        intro F hF; simp only [fuelSign]; omega
      revert hl
      generalize signLoop X priv e (avail (sc 0) / 32 + 1) (sc 0) = o
      intro hl
      match o, hl with
      | .ok (rs, _), ⟨env', h1⟩ =>
        exact ⟨env', ((hpre _).1 _ _ _ (EvIn.seq c5 (EvIn.seq c6 (EvIn.seq c7 (EvIn.seq_stop h1 (by simp)))))).mono
          (hF _ rfl)⟩
      | .err, ⟨env', code, hcode, h1⟩ =>
        exact ⟨env', code, hcode, ((hpre _).1 _ _ _ (EvIn.seq c5 (EvIn.seq c6 (EvIn.seq c7
          (EvIn.seq_stop h1 (by simp)))))).mono (hF _ rfl)⟩
      | .panic, h =>
        exact fails_pre hpre (CTIRRefineComb.Fails.seq_right c5 (CTIRRefineComb.Fails.seq_right c6
          (CTIRRefineComb.Fails.seq_right c7 (CTIRRefineComb.Fails.seq_left h))))

end Sign


/-! ## The theorems for the generated program `prog` -/

section Final
variable {α β : Type} {G : Nat → Val} {O : Oracle} {X : Model.SM2.Ctx α β} {enc : α → List Nat}
  {encS : β → List Nat} {Fsbm Fgax Fsb Finv Ftb : Nat}

/-- **ensure32Bytes = `Model.SM2.ensure32`** for every value of at most 32 bytes (`v < 2^256`), with any fuel ≥ 24 -/
theorem ir_ensure32Bytes_eq_model (hB : BigOk O) (v : Nat) (hv : v < 256 ^ 32) :
    ∀ f, fuelEns ≤ f → runV prog G O f f_sm2_ensure32Bytes [.int (v : Int)] = .ret [bytesV (ensure32 v)] :=
  (ens_computes prog_hasSign.h99 hB v hv).runV

/-- **ensure32Bytes, DISAGREEMENT for longer values** (`2^256 ≤ v < 2^512`): the IR is stuck with every fuel (Go:
    `buf[32-len(bytes):]` panics, slice bounds out of range), the model `ensure32 v` returns the unpadded encoding -/
theorem ir_ensure32Bytes_long_stuck (hB : BigOk O) (v : Nat) (hv : 256 ^ 32 ≤ v) (hv2 : v < 256 ^ 64) :
    (∀ f, runV prog G O f f_sm2_ensure32Bytes [.int (v : Int)] = .stuck) ∧ ensure32 v = Bytes.ofNatMin v ∧
      32 < (ensure32 v).length := by
  have hL : 32 < (Bytes.ofNatMin v).length := SM2SignBytes.ofNatMin_length_gt v 32 hv
  have he : ensure32 v = Bytes.ofNatMin v := by
    unfold ensure32 Model.Point.pad32
    rw [show 32 - (Bytes.ofNatMin v).length = 0 by omega]; rfl
  exact ⟨ens_stuck prog_hasSign.h99 hB v hv hv2, he, by rw [he]; exact hL⟩

/-- **SignHashed = `Model.SM2.signHashed`**, modulo the callees (`Callees`), the externals (`BigOk`, `ReaderOk`)
    and the globals (`Globals`); `rd` is the reader value, `sc p` the script left at reader position `p`.
    * the model returns `(r, s)` ⇒ every run with fuel ≥ `fuelSign … (avail (sc 0))` returns `(r, s, nil)`;
    * the model returns an error ⇒ every such run returns `(nil, nil, err)` with a non-nil error (`code ≠ 0`: it is 1
      for an invalid key and for an error of ScalarBaseMult, the reader's error value for a failed read);
    * the model panics ⇒ the run ends in `panic` (all large fuels) or is stuck with every fuel.
    Hypotheses excluding model/IR disagreements: `hn0`, `hn` (see the header), `hne` (the ignored SetBytes error). -/
theorem ir_signHashed_eq_model (C : Callees prog G O X enc encS Fsbm Fgax Fsb Finv Ftb) (hB : BigOk O)
    (hG : Globals G X) (hn0 : 0 < X.n) (hn : X.n ≤ 256 ^ 32) {rd : Val} {sc : Nat → Script} (hR : ReaderOk O rd sc)
    {priv e : Bytes} (hlen : priv.length < 2 ^ 63)
    (hne : Model.SM2.testPrivateKey X priv = .ok 0 →
      Model.Field.scalarSetBytes X.S (Bytes.ofNatBE 32 (Bytes.toNatBE priv + 1)) ≠ .err) :
    match signHashed X (sc 0) priv e with
    | .ok ((r, s), _) => ∀ f, fuelSign Fsbm Fgax Fsb Finv Ftb (avail (sc 0)) ≤ f →
        runV prog G O f f_sm2_SignHashed [rd, bytesV priv, bytesV e] = .ret [bytesV r, bytesV s, .int 0]
    | .err => ∃ code : Int, code ≠ 0 ∧ ∀ f, fuelSign Fsbm Fgax Fsb Finv Ftb (avail (sc 0)) ≤ f →
        runV prog G O f f_sm2_SignHashed [rd, bytesV priv, bytesV e] = .ret [bytesV [], bytesV [], .int code]
    | .panic => (∃ F, ∀ f, F ≤ f → runV prog G O f f_sm2_SignHashed [rd, bytesV priv, bytesV e] = .panic) ∨
        (∀ f, runV prog G O f f_sm2_SignHashed [rd, bytesV priv, bytesV e] = .stuck) := by
  have h := sign_body (P := prog) (e := e) prog_hasSign C hB hG hn0 hn hR hlen hne
  revert h
  generalize signHashed X (sc 0) priv e = o
  intro h
  match o, h with
  | .ok ((r, s), _), ⟨env', h1⟩ => exact runV_of_EvIn prog_hasSign.h98 rfl rfl h1
  | .err, ⟨env', code, hc, h1⟩ => exact ⟨code, hc, runV_of_EvIn prog_hasSign.h98 rfl rfl h1⟩
  | .panic, h => exact CTIRRefineComb.runV_of_Fails prog_hasSign.h98 rfl rfl h

end Final

/-! ## The standard oracle satisfies `BigOk` -/

theorem natOfBytes_bytes (b : Bytes) : natOfBytes (b.map (fun x => Val.int (Int.ofNat x.toNat))) = Bytes.toNatBE b := by
  have : ∀ (l : Bytes) (acc : Nat),
      (l.map (fun x => Val.int (Int.ofNat x.toNat))).foldl (fun n v => match v with | .int b => n * 256 + b.toNat | .arr _ => n) acc
        = l.foldl (fun acc b => acc * 256 + b.toNat) acc := by
    intro l
    induction l with
    | nil => intro acc; rfl
    | cons x l ih => intro acc; simp only [List.map_cons, List.foldl_cons, ih]; rfl
  exact this b 0

theorem byteLen_eq (v : Nat) : (Bytes.ofNatMin v).length = natByteLen v := by
  unfold natByteLen
  by_cases hv : v = 0
  · subst hv; rw [SM2SignBytes.ofNatMin_zero]; rfl
  · rw [if_neg hv]
    have h1 : v < 2 ^ (v.log2 + 1) := Nat.lt_log2_self
    have h2 : 2 ^ v.log2 ≤ v := Nat.log2_self_le hv
    have e : ∀ L, (256 : Nat) ^ L = 2 ^ (8 * L) := fun L => by rw [Nat.pow_mul]
    have hle : (Bytes.ofNatMin v).length ≤ v.log2 / 8 + 1 := by
      apply SM2SignBytes.ofNatMin_length_le
      rw [e]
      exact Nat.lt_of_lt_of_le h1 (Nat.pow_le_pow_right (by decide) (by omega))
    have hgt : v.log2 / 8 < (Bytes.ofNatMin v).length := by
      apply SM2SignBytes.ofNatMin_length_gt
      rw [e]
      exact Nat.le_trans (Nat.pow_le_pow_right (by decide) (by omega)) h2
    omega

theorem bytesBE_eq (v len : Nat) : Val.arr (bytesBE v len) = bytesV (Bytes.ofNatBE len v) := by
  simp only [bytesBE, bytesV, Bytes.ofNatBE, List.map_map]
  congr 1
  apply List.map_congr_left
  intro i _
  simp only [Function.comp, UInt8.toNat_ofNat']
  congr 2
  omega

/-- the executable external world of the driver satisfies the hypotheses on `math/big` and `fmt.Errorf` -/
theorem stdOracle_bigOk (tape : Nat → Nat → Nat) : BigOk (stdOracle extKinds tape) where
  setBytes b := by
    have : stdOracle extKinds tape 7 [bytesV b] = [.int (Int.ofNat (natOfBytes (argBytes [bytesV b] 0)))] := rfl
    rw [this]
    have e : argBytes [bytesV b] 0 = b.map (fun x => Val.int (Int.ofNat x.toNat)) := rfl
    rw [e, natOfBytes_bytes]
    rfl
  add a b := rfl
  sub a b := rfl
  mul a b := rfl
  mod a m := rfl
  sign a := rfl
  fillBytes v buf := by
    have : stdOracle extKinds tape 3 [.int (v : Int), bytesV buf]
        = [.arr (bytesBE (v : Int).toNat (buf.map (fun x => Val.int (Int.ofNat x.toNat))).length)] := rfl
    rw [this, Int.toNat_natCast, List.length_map, bytesBE_eq]
  byteLen v := by
    have : stdOracle extKinds tape 1 [.int (v : Int)] = [.int (Int.ofNat (natByteLen (v : Int).toNat))] := rfl
    rw [this, Int.toNat_natCast, byteLen_eq]
    rfl
  errorf args := ⟨.int 1, rfl⟩


/-! ## Closed form of the fuel -/

theorem fuelBody_eq (Fsbm Fgax Fsb Finv Ftb : Nat) :
    fuelBody Fsbm Fgax Fsb Finv Ftb = Fsbm + Fgax + Fsb + Finv + Ftb + 1215 := by
  simp only [fuelBody, fuelCmpK, fuelAcc, fuelKG, fuelR, fuelRk, fuelInv, fuelS, fuelOut, fuelEns, fuelCmp]
  omega

/-- `fuelSign = (Fsbm + Fgax + Fsb + Finv + Ftb + 1218) · (avail / 32 + 1) + 623` -/
theorem fuelSign_eq (Fsbm Fgax Fsb Finv Ftb a : Nat) :
    fuelSign Fsbm Fgax Fsb Finv Ftb a = (Fsbm + Fgax + Fsb + Finv + Ftb + 1218) * (a / 32 + 1) + 623 := by
  simp only [fuelSign, fuelLoop, fuelBody_eq, CTIRRefineCurve.fuelTest, fuelCmp]
  rw [show Fsbm + Fgax + Fsb + Finv + Ftb + 1215 + 3 = Fsbm + Fgax + Fsb + Finv + Ftb + 1218 from by omega]
  omega

/-! ## A concrete reader (the hypothesis `ReaderOk` is satisfiable)

  `readerOracle base sc0`: external 11 at position `p` behaves like `io.ReadFull` on the script left after `p`
  reads of `sc0`; every other external is `base`. -/

/-- the script left after `p` calls of `ReadFull(·, 32 bytes)` -/
def scAt (sc0 : Script) : Nat → Script
  | 0 => sc0
  | p + 1 => (readFull (scAt sc0 p) 32 []).2

def readerOracle (base : Oracle) (sc0 : Script) : Oracle := fun name args =>
  if name = 11 then
    match readFull (scAt sc0 (argInt args 2).toNat) 32 [] with
    | (some b, _) => [bytesV b, .int 32, .int 0, .int (((argInt args 2).toNat + 1 : Nat) : Int)]
    | (none, _) => [bytesV [], .int 0, .int 1, .int (((argInt args 2).toNat + 1 : Nat) : Int)]
  else base name args

theorem readerOracle_ok (base : Oracle) (rd : Val) (sc0 : Script) :
    ReaderOk (readerOracle base sc0) rd (scAt sc0) := by
  intro p
  have hO : readerOracle base sc0 11 [rd, .int 32, .int (p : Int)] =
      match readFull (scAt sc0 p) 32 [] with
      | (some b, _) => [bytesV b, .int 32, .int 0, .int ((p + 1 : Nat) : Int)]
      | (none, _) => [bytesV [], .int 0, .int 1, .int ((p + 1 : Nat) : Int)] := by
    have e : (argInt [rd, .int 32, .int (p : Int)] 2).toNat = p := by
      show (p : Int).toNat = p
      exact Int.toNat_natCast p
    simp only [readerOracle, if_pos, e]
  have hs : scAt sc0 (p + 1) = (readFull (scAt sc0 p) 32 []).2 := rfl
  rw [hO, hs]
  rcases readFull (scAt sc0 p) 32 [] with ⟨_ | b, rest⟩
  · exact ⟨bytesV [], 0, 1, rfl, by decide, rfl⟩
  · exact ⟨rfl, rfl⟩

theorem readerOracle_bigOk {base : Oracle} (hB : BigOk base) (sc0 : Script) : BigOk (readerOracle base sc0) where
  setBytes := hB.setBytes
  add := hB.add
  sub := hB.sub
  mul := hB.mul
  mod := hB.mod
  sign := hB.sign
  fillBytes := hB.fillBytes
  byteLen := hB.byteLen
  errorf := hB.errorf

end SMGo.Proofs.CTIRRefineSign

#print axioms SMGo.Proofs.CTIRRefineSign.ir_ensure32Bytes_eq_model
#print axioms SMGo.Proofs.CTIRRefineSign.ir_ensure32Bytes_long_stuck
#print axioms SMGo.Proofs.CTIRRefineSign.ir_signHashed_eq_model
#print axioms SMGo.Proofs.CTIRRefineSign.sign_body
#print axioms SMGo.Proofs.CTIRRefineSign.stdOracle_bigOk
#print axioms SMGo.Proofs.CTIRRefineSign.l_inv_err
#print axioms SMGo.Proofs.CTIRRefineSign.readerOracle_ok
#print axioms SMGo.Proofs.CTIRRefineSign.readerOracle_bigOk
