/-
  Modulus-independent byte lemmas for the generated Fiat-Crypto `ToBytes` / `FromBytes` (property C16):
  little-endian value of a byte string, the eight bytes of one 64-bit limb and back.  Core Lean only.
-/
import SMGo.Proofs.FiatPrim
namespace SMGo.Proofs.Fiat

/-- little-endian value of a byte string -/
def leValue (bs : List Nat) : Nat := bs.foldr (fun b acc => b + 256 * acc) 0

theorem leValue_nil : leValue [] = 0 := rfl
theorem leValue_cons (b : Nat) (bs : List Nat) : leValue (b :: bs) = b + 256 * leValue bs := rfl

theorem leValue_append (l1 l2 : List Nat) :
    leValue (l1 ++ l2) = leValue l1 + 256 ^ l1.length * leValue l2 := by
  induction l1 with
  | nil => simp only [List.nil_append, leValue_nil, List.length_nil, Nat.pow_zero, Nat.one_mul, Nat.zero_add]
  | cons b l ih =>
    rw [List.cons_append, leValue_cons, leValue_cons, ih, List.length_cons, Nat.pow_succ,
      Nat.mul_add, Nat.add_assoc, Nat.mul_comm (256 ^ l.length) 256, Nat.mul_assoc]

theorem shr8 (x : Nat) : x >>> 0x8 = x / 256 := Nat.shiftRight_eq_div_pow x 8
theorem and_ff (x : Nat) : (x % 256) &&& 0xff = x % 256 := by
  have h : (0xff : Nat) = 2 ^ 8 - 1 := by decide
  rw [h, Nat.and_two_pow_sub_one_eq_mod]
  exact Nat.mod_mod _ _

/-- the eight little-endian bytes of a 64-bit word, in the shape produced by the generated `ToBytes` -/
def limbBytes (x : Nat) : List Nat :=
  [x % 256, x / 256 % 256, x / 256 / 256 % 256, x / 256 / 256 / 256 % 256,
   x / 256 / 256 / 256 / 256 % 256, x / 256 / 256 / 256 / 256 / 256 % 256,
   x / 256 / 256 / 256 / 256 / 256 / 256 % 256, x / 256 / 256 / 256 / 256 / 256 / 256 / 256 % 256]

theorem limbBytes_length (x : Nat) : (limbBytes x).length = 8 := rfl

theorem limbBytes_lt (x : Nat) : ∀ b ∈ limbBytes x, b < 256 := by
  intro b hb
  simp only [limbBytes, List.mem_cons, List.not_mem_nil, or_false] at hb
  rcases hb with rfl | rfl | rfl | rfl | rfl | rfl | rfl | rfl <;> exact Nat.mod_lt _ (by decide)

theorem leValue_limbBytes {x : Nat} (hx : x < 18446744073709551616) : leValue (limbBytes x) = x := by
  simp only [limbBytes, leValue, List.foldr]
  omega

/-- one limb assembled from eight bytes, in the shape produced by the generated `FromBytes` -/
def bytesLimb (b0 b1 b2 b3 b4 b5 b6 b7 : Nat) : Nat :=
  ((b7 <<< 0x38) % 18446744073709551616 + ((b6 <<< 0x30) % 18446744073709551616 +
    ((b5 <<< 0x28) % 18446744073709551616 + ((b4 <<< 0x20) % 18446744073709551616 +
    ((b3 <<< 0x18) % 18446744073709551616 + ((b2 <<< 0x10) % 18446744073709551616 +
    ((b1 <<< 0x8) % 18446744073709551616 + b0) % 18446744073709551616) % 18446744073709551616)
    % 18446744073709551616) % 18446744073709551616) % 18446744073709551616) % 18446744073709551616)
    % 18446744073709551616

theorem bytesLimb_eq {b0 b1 b2 b3 b4 b5 b6 b7 : Nat} (h0 : b0 < 256) (h1 : b1 < 256) (h2 : b2 < 256)
    (h3 : b3 < 256) (h4 : b4 < 256) (h5 : b5 < 256) (h6 : b6 < 256) (h7 : b7 < 256) :
    bytesLimb b0 b1 b2 b3 b4 b5 b6 b7 = leValue [b0, b1, b2, b3, b4, b5, b6, b7] := by
  simp only [bytesLimb, leValue, List.foldr, Nat.shiftLeft_eq]
  omega

theorem bytesLimb_lt (b0 b1 b2 b3 b4 b5 b6 b7 : Nat) :
    bytesLimb b0 b1 b2 b3 b4 b5 b6 b7 < 18446744073709551616 := Nat.mod_lt _ (by decide)

theorem bytesLimb_limbBytes {x : Nat} (hx : x < 18446744073709551616) :
    bytesLimb (x % 256) (x / 256 % 256) (x / 256 / 256 % 256) (x / 256 / 256 / 256 % 256)
      (x / 256 / 256 / 256 / 256 % 256) (x / 256 / 256 / 256 / 256 / 256 % 256)
      (x / 256 / 256 / 256 / 256 / 256 / 256 % 256)
      (x / 256 / 256 / 256 / 256 / 256 / 256 / 256 % 256) = x := by
  rw [bytesLimb_eq (Nat.mod_lt _ (by decide)) (Nat.mod_lt _ (by decide)) (Nat.mod_lt _ (by decide))
    (Nat.mod_lt _ (by decide)) (Nat.mod_lt _ (by decide)) (Nat.mod_lt _ (by decide))
    (Nat.mod_lt _ (by decide)) (Nat.mod_lt _ (by decide))]
  exact leValue_limbBytes hx

theorem limbBytes_bytesLimb {b0 b1 b2 b3 b4 b5 b6 b7 : Nat} (h0 : b0 < 256) (h1 : b1 < 256) (h2 : b2 < 256)
    (h3 : b3 < 256) (h4 : b4 < 256) (h5 : b5 < 256) (h6 : b6 < 256) (h7 : b7 < 256) :
    limbBytes (bytesLimb b0 b1 b2 b3 b4 b5 b6 b7) = [b0, b1, b2, b3, b4, b5, b6, b7] := by
  rw [bytesLimb_eq h0 h1 h2 h3 h4 h5 h6 h7]
  simp only [limbBytes, leValue, List.foldr]
  simp only [List.cons.injEq, and_true]
  refine ⟨?_, ?_, ?_, ?_, ?_, ?_, ?_, ?_⟩ <;> omega

theorem list32_cases {bs : List Nat} (hl : bs.length = 32) (hb : ∀ x ∈ bs, x < 256) :
    ∃ b0 b1 b2 b3 b4 b5 b6 b7 b8 b9 b10 b11 b12 b13 b14 b15 b16 b17 b18 b19 b20 b21 b22 b23 b24 b25
      b26 b27 b28 b29 b30 b31 : Nat,
      bs = [b0, b1, b2, b3, b4, b5, b6, b7, b8, b9, b10, b11, b12, b13, b14, b15, b16, b17, b18, b19,
        b20, b21, b22, b23, b24, b25, b26, b27, b28, b29, b30, b31] ∧
      (b0 < 256 ∧ b1 < 256 ∧ b2 < 256 ∧ b3 < 256 ∧ b4 < 256 ∧ b5 < 256 ∧ b6 < 256 ∧ b7 < 256) ∧
      (b8 < 256 ∧ b9 < 256 ∧ b10 < 256 ∧ b11 < 256 ∧ b12 < 256 ∧ b13 < 256 ∧ b14 < 256 ∧ b15 < 256) ∧
      (b16 < 256 ∧ b17 < 256 ∧ b18 < 256 ∧ b19 < 256 ∧ b20 < 256 ∧ b21 < 256 ∧ b22 < 256 ∧ b23 < 256) ∧
      (b24 < 256 ∧ b25 < 256 ∧ b26 < 256 ∧ b27 < 256 ∧ b28 < 256 ∧ b29 < 256 ∧ b30 < 256 ∧ b31 < 256) := by
  match bs, hl with
  | [b0, b1, b2, b3, b4, b5, b6, b7, b8, b9, b10, b11, b12, b13, b14, b15, b16, b17, b18, b19,
        b20, b21, b22, b23, b24, b25, b26, b27, b28, b29, b30, b31], _ =>
    refine ⟨b0, b1, b2, b3, b4, b5, b6, b7, b8, b9, b10, b11, b12, b13, b14, b15, b16, b17, b18, b19,
        b20, b21, b22, b23, b24, b25, b26, b27, b28, b29, b30, b31, rfl, ?_⟩
    refine ⟨⟨?_, ?_, ?_, ?_, ?_, ?_, ?_, ?_⟩, ⟨?_, ?_, ?_, ?_, ?_, ?_, ?_, ?_⟩,
      ⟨?_, ?_, ?_, ?_, ?_, ?_, ?_, ?_⟩, ⟨?_, ?_, ?_, ?_, ?_, ?_, ?_, ?_⟩⟩ <;>
    exact hb _ (by simp only [List.mem_cons, true_or, or_true])

end SMGo.Proofs.Fiat
