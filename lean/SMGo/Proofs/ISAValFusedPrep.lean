import SMGo.Proofs.ISAValFusedMem
set_option linter.unusedSimpArgs false
namespace SMGo.Proofs.ISAVal
open SMGo.Model.ISAVal
open SMGo.Model.ISA (Reg Opd Instr)

/-- the counter increments as loaded into Z16, Z17, Z18 -/
def ADD1v : Nat := unlanes 8 Gen.AsmData.amd64_Counter_Add1
def ADD2v : Nat := unlanes 8 Gen.AsmData.amd64_Counter_Add2
def ADD3v : Nat := unlanes 8 Gen.AsmData.amd64_Counter_Add3

/-- the constant registers after `cryptoPrepare` -/
structure PCtx (s : State) : Prop where
  lenG : s.gpr.length = 16
  lenV : s.vec.length = 32
  lenK : s.kreg.length = 8
  syms : s.syms = symTab
  v10 : vreg s 10 = PREvl 64
  v11 : vreg s 11 = POSTvl 64
  v12 : vreg s 12 = SHUFvl 64
  v16 : vreg s 16 = ADD1v
  v17 : vreg s 17 = ADD2v
  v18 : vreg s 18 = ADD3v
  v22 : vreg s 22 = AND64
  v23 : vreg s 23 = LOW4
  v24 : vreg s 24 = HIGH4

/-- what `prepCode` needs from the state: the symbol table and the read-only data behind it -/
structure SymEnv (s : State) : Prop where
  lenG : s.gpr.length = 16
  lenV : s.vec.length = 32
  lenK : s.kreg.length = 8
  syms : s.syms = symTab
  rAnd : readMem s.mem 25769803776 8 = .ok (Gen.AsmData.amd64_AND_MASK.take 8)
  rLower : readMem s.mem 47244640256 16 = .ok Gen.AsmData.amd64_LOWER_MASK
  rShuffle : readMem s.mem 4294967296 16 = .ok Gen.AsmData.amd64_Shuffle
  rPre : readMem s.mem 8589934592 8 = .ok Gen.AsmData.amd64_PreAffineMatrix
  rPost : readMem s.mem 12884901888 8 = .ok Gen.AsmData.amd64_PostAffineMatrix
  rAdd1 : readMem s.mem 30064771072 64 = .ok Gen.AsmData.amd64_Counter_Add1
  rAdd2 : readMem s.mem 34359738368 64 = .ok Gen.AsmData.amd64_Counter_Add2
  rAdd3 : readMem s.mem 38654705664 64 = .ok Gen.AsmData.amd64_Counter_Add3

theorem zero_xor (vl x : Nat) : map2 32 (vl / 4) (fun a b => b ^^^ a) x x = 0 := by
  unfold map2
  have : List.zipWith (fun a b => b ^^^ a) (lanes 32 (vl / 4) x) (lanes 32 (vl / 4) x) = List.replicate (vl / 4) 0 := by
    apply List.ext_getElem
    · simp [lanes_length]
    · intro i h1 h2
      simp
  rw [this]
  generalize vl / 4 = n
  induction n with
  | zero => rfl
  | succ n ih => simp [List.replicate_succ, unlanes_cons, ih]

set_option maxRecDepth 100000 in
set_option maxHeartbeats 1000000 in
/-- **`cryptoPrepare`** -/
theorem prep_spec (s : State) (env : SymEnv s) :
    ∃ s', execList prepCode s = .ok s' ∧ PCtx s' ∧ vreg s' 6 = 0 ∧ s'.mem = s.mem ∧ s'.frame = s.frame := by
  obtain ⟨hG, hV, hK, hsy, rAnd, rLower, rShuffle, rPre, rPost, rAdd1, rAdd2, rAdd3⟩ := env
  obtain ⟨gpr, vec, k, fl, mem, syms, frame⟩ := s
  simp only at hG hV hK hsy rAnd rLower rShuffle rPre rPost rAdd1 rAdd2 rAdd3
  subst hsy
  obtain ⟨a0, a1, a2, a3, a4, a5, a6, a7, a8, a9, a10, a11, a12, a13, a14, a15, rfl⟩ := list16 gpr hG
  obtain ⟨b0, b1, b2, b3, b4, b5, b6, b7, b8, b9, b10, b11, b12, b13, b14, b15, b16, b17, b18, b19, b20, b21, b22, b23, b24, b25, b26, b27, b28, b29, b30, b31, rfl⟩ := list32 vec hV
  have e : ∀ a : Nat, a < 2 ^ 63 → (a + 0 + 0 + imm64 0) % 2 ^ 64 = a := by
    intro a ha; rw [show imm64 0 = 0 from by decide +kernel]; omega
  have q1 : readMem mem ((25769803776 + 0 + 0 + imm64 0) % 2 ^ 64) 8 = .ok (Gen.AsmData.amd64_AND_MASK.take 8) := by rw [e _ (by decide)]; exact rAnd
  have q2 : readMem mem ((47244640256 + 0 + 0 + imm64 0) % 2 ^ 64) 16 = .ok Gen.AsmData.amd64_LOWER_MASK := by rw [e _ (by decide)]; exact rLower
  have q3 : readMem mem ((4294967296 + 0 + 0 + imm64 0) % 2 ^ 64) 16 = .ok Gen.AsmData.amd64_Shuffle := by rw [e _ (by decide)]; exact rShuffle
  have q4 : readMem mem ((8589934592 + 0 + 0 + imm64 0) % 2 ^ 64) 8 = .ok Gen.AsmData.amd64_PreAffineMatrix := by rw [e _ (by decide)]; exact rPre
  have q5 : readMem mem ((12884901888 + 0 + 0 + imm64 0) % 2 ^ 64) 8 = .ok Gen.AsmData.amd64_PostAffineMatrix := by rw [e _ (by decide)]; exact rPost
  have q6 : readMem mem ((30064771072 + 0 + 0 + imm64 0) % 2 ^ 64) 64 = .ok Gen.AsmData.amd64_Counter_Add1 := by rw [e _ (by decide)]; exact rAdd1
  have q7 : readMem mem ((34359738368 + 0 + 0 + imm64 0) % 2 ^ 64) 64 = .ok Gen.AsmData.amd64_Counter_Add2 := by rw [e _ (by decide)]; exact rAdd2
  have q8 : readMem mem ((38654705664 + 0 + 0 + imm64 0) % 2 ^ 64) 64 = .ok Gen.AsmData.amd64_Counter_Add3 := by rw [e _ (by decide)]; exact rAdd3
  apply Exists.intro
  apply And.intro
  · unfold prepCode
    apply exec_step
    · exact execD_leaq (hs := symTab_and) (hd := by simp) ..
    apply exec_step
    · exact execD_leaq (hs := symTab_lower) (hd := by simp) ..
    apply exec_step
    · exact execD_broadcast_x2 (hvl := by rfl) (hb := by rfl) (hd := by simp) (hload := q1) ..
    apply exec_step
    · exact execD_broadcast_x4 (hvl := by rfl) (hb := by rfl) (hd := by simp) (hload := q2) ..
    apply exec_step
    · exact execD_vecImm (hmn := by rfl) (hvl := by rfl) (ha := by rfl) (hd := by simp) (hr := by rfl) ..
    apply exec_step
    · exact execD_leaq (hs := symTab_shuffle) (hd := by simp) ..
    apply exec_step
    · exact execD_broadcast_x4 (hvl := by rfl) (hb := by rfl) (hd := by simp) (hload := q3) ..
    apply exec_step
    · exact execD_leaq (hs := symTab_pre) (hd := by simp) ..
    apply exec_step
    · exact execD_leaq (hs := symTab_post) (hd := by simp) ..
    apply exec_step
    · exact execD_broadcast_x2 (hvl := by rfl) (hb := by rfl) (hd := by simp) (hload := q4) ..
    apply exec_step
    · exact execD_broadcast_x2 (hvl := by rfl) (hb := by rfl) (hd := by simp) (hload := q5) ..
    apply exec_step
    · exact execD_leaq (hs := symTab_add1) (hd := by simp) ..
    apply exec_step
    · exact execD_leaq (hs := symTab_add2) (hd := by simp) ..
    apply exec_step
    · exact execD_leaq (hs := symTab_add3) (hd := by simp) ..
    apply exec_step
    · exact execD_vmov_load (hvl := by rfl) (hb := by rfl) (hd := by simp) (hload := q6) ..
    apply exec_step
    · exact execD_vmov_load (hvl := by rfl) (hb := by rfl) (hd := by simp) (hload := q7) ..
    apply exec_step
    · exact execD_vmov_load (hvl := by rfl) (hb := by rfl) (hd := by simp) (hload := q8) ..
    apply exec_step
    · exact execD_vec3 (hmn := by rfl) (hvl := by rfl) (ha := by rfl) (hb := by rfl) (hd := by simp) (hr := by rfl) ..
    exact execList_nil _
  · refine ⟨⟨rfl, rfl, hK, rfl, rfl, rfl, rfl, rfl, rfl, rfl, rfl, rfl, rfl⟩, ?_, rfl, rfl⟩
    simp only [List.set_cons_succ, List.set_cons_zero, vreg, List.getD_cons_succ, List.getD_cons_zero]
    exact zero_xor 16 b6

end SMGo.Proofs.ISAVal
