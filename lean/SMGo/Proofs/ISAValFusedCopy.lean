import SMGo.Proofs.ISAValFusedCopy1
set_option linter.unusedSimpArgs false
namespace SMGo.Proofs.ISAVal
open SMGo.Model.ISAVal SMGo.Proofs.ISATouch
open SMGo.Model.ISA (Reg Opd Instr)

theorem stage_len (w dst src len tmp pN pS : Nat) : (stageCode w dst src len tmp pN pS).length = 8 := rfl

/-- two consecutive copies into a buffer are one copy -/
theorem spliceAt_take2 (b d : List Nat) (doff so a c : Nat) (h : doff + a + c ≤ b.length) (hd : so + a + c ≤ d.length) :
    spliceAt (spliceAt b doff ((d.drop so).take a)) (doff + a) ((d.drop (so + a)).take c) = spliceAt b doff ((d.drop so).take (a + c)) := by
  have hl : ((d.drop so).take a).length = a := by rw [List.length_take, List.length_drop]; omega
  have key := spliceAt_spliceAt b doff ((d.drop so).take a) ((d.drop (so + a)).take c)
    (by rw [hl, List.length_take, List.length_drop, Nat.min_eq_left (by omega)]; omega)
  rw [hl] at key
  rw [key, List.take_add, List.drop_drop]

set_option maxHeartbeats 1000000 in
/-- **`copyAsm(dst, src, len, tmp)`**: `n` bytes from the source pointer to the destination pointer (inside a writable
    buffer), by 8, 4, 2 and 1 bytes; both pointers advance by `n`, `len` ends at 0 -/
theorem copy_reach (r : Routine) (k dst src len tmp p8 p4 p2 p1 pe : Nat) (cr : CopyRegs dst src len tmp)
    (hs : Slice r k (copyCode dst src len tmp p8 p4 p2 p1 pe)) (l8 : findPc r p8 = some (r.drop k))
    (l4 : findPc r p4 = some (r.drop (k + 8))) (l2 : findPc r p2 = some (r.drop (k + 16))) (l1 : findPc r p1 = some (r.drop (k + 24)))
    (le : findPc r pe = some (r.drop (k + 32))) (Mf : List Nat → List Region) (base blen : Nat) (bf : Buf Mf base blen)
    (d : List Nat) (sp : Nat) (hsrc : ∀ b, b.length = blen → DataAt (Mf b) sp d) (hdb : ∀ x ∈ d, x < 2 ^ 8)
    (hbase : base + blen < 2 ^ 63) (hsp : sp + d.length < 2 ^ 63)
    (n : Nat) (s : State) (b : List Nat) (so doff : Nat) (hG : s.gpr.length = 16) (hb : b.length = blen) (hm : s.mem = Mf b)
    (hlen : greg s len = n) (hn63 : n < 2 ^ 63) (hsr : greg s src = sp + so) (hds : greg s dst = base + doff)
    (hso : so + n ≤ d.length) (hdo : doff + n ≤ blen) :
    ∃ s' N, N ≤ n + 40 ∧ Reach r k s (k + 33) s' N ∧ s'.mem = Mf (spliceAt b doff ((d.drop so).take n)) ∧ greg s' len = 0 ∧
      greg s' src = sp + so + n ∧ greg s' dst = base + doff + n ∧ RegsKeep (copyKeepG dst src len tmp) s s' := by
  rw [copy_eq] at hs
  have s8 : Slice r k (stageCode 8 dst src len tmp p4 p8) := hs.left
  have s4 : Slice r (k + 8) (stageCode 4 dst src len tmp p2 p4) := hs.right.left
  have s2 : Slice r (k + 16) (stageCode 2 dst src len tmp p1 p2) := hs.right.right.left
  have s1 : Slice r (k + 24) (stageCode 1 dst src len tmp pe p1) := hs.right.right.right.left
  have sN : Slice r (k + 32) [ins .NOP [] 0] := hs.right.right.right.right
  -- by 8
  obtain ⟨t1, r1, m1, gl1, gs1, gd1, k1⟩ := stage_reach r k 8 dst src len tmp p4 p8 (Or.inl rfl) cr s8 l8 l4 Mf base blen bf d sp hsrc hdb
    hbase hsp (n / 8) n s b so doff rfl hG hb hm hlen hn63 hsr hds hso hdo
  have hG1 : t1.gpr.length = 16 := by rw [k1.lenG]; exact hG
  have e8 := Nat.div_add_mod n 8
  -- by 4
  obtain ⟨t2, r2, m2, gl2, gs2, gd2, k2⟩ := stage_reach r (k + 8) 4 dst src len tmp p2 p4 (Or.inr (Or.inl rfl)) cr s4 l4 l2 Mf base blen bf d sp
    hsrc hdb hbase hsp (n % 8 / 4) (n % 8) t1 _ (so + 8 * (n / 8)) (doff + 8 * (n / 8)) rfl hG1
    (by rw [spliceAt_length _ _ _ (by rw [List.length_take, List.length_drop, hb]; omega)]; exact hb) m1 gl1 (by omega)
    (by rw [gs1]; omega) (by rw [gd1]; omega) (by omega) (by omega)
  have hG2 : t2.gpr.length = 16 := by rw [k2.lenG]; exact hG1
  have e4 := Nat.div_add_mod (n % 8) 4
  rw [spliceAt_take2 b d doff so _ _ (by rw [hb]; omega) (by omega)] at m2
  rw [Nat.mod_mod_of_dvd n (by decide : 4 ∣ 8)] at gl2
  -- by 2
  obtain ⟨t3, r3, m3, gl3, gs3, gd3, k3⟩ := stage_reach r (k + 16) 2 dst src len tmp p1 p2 (Or.inr (Or.inr (Or.inl rfl))) cr s2 l2 l1 Mf base blen
    bf d sp hsrc hdb hbase hsp (n % 4 / 2) (n % 4) t2 _ (so + (8 * (n / 8) + 4 * (n % 8 / 4))) (doff + (8 * (n / 8) + 4 * (n % 8 / 4))) rfl hG2
    (by rw [spliceAt_length _ _ _ (by rw [List.length_take, List.length_drop, hb]; omega)]; exact hb) m2 gl2 (by omega)
    (by rw [gs2]; omega) (by rw [gd2]; omega) (by omega) (by omega)
  have hG3 : t3.gpr.length = 16 := by rw [k3.lenG]; exact hG2
  have e2 := Nat.div_add_mod (n % 4) 2
  rw [spliceAt_take2 b d doff so _ _ (by rw [hb]; omega) (by omega)] at m3
  rw [Nat.mod_mod_of_dvd n (by decide : 2 ∣ 4)] at gl3
  -- by 1
  obtain ⟨t4, r4, m4, gl4, gs4, gd4, k4⟩ := stage_reach r (k + 24) 1 dst src len tmp pe p1 (Or.inr (Or.inr (Or.inr rfl))) cr s1 l1 le Mf base blen
    bf d sp hsrc hdb hbase hsp (n % 2 / 1) (n % 2) t3 _ (so + (8 * (n / 8) + 4 * (n % 8 / 4) + 2 * (n % 4 / 2)))
    (doff + (8 * (n / 8) + 4 * (n % 8 / 4) + 2 * (n % 4 / 2))) rfl hG3
    (by rw [spliceAt_length _ _ _ (by rw [List.length_take, List.length_drop, hb]; omega)]; exact hb) m3 gl3 (by omega)
    (by rw [gs3]; omega) (by rw [gd3]; omega) (by omega) (by omega)
  rw [spliceAt_take2 b d doff so _ _ (by rw [hb]; omega) (by omega)] at m4
  have etot : 8 * (n / 8) + 4 * (n % 8 / 4) + 2 * (n % 4 / 2) + 1 * (n % 2 / 1) = n := by omega
  rw [etot] at m4
  -- NOP
  have r5 : Reach r (k + 32) t4 (k + 33) t4 1 := reach_seg sN (by rfl) (by rfl)
  refine ⟨t4, (8 * (n / 8) + 2) + (8 * (n % 8 / 4) + 2) + (8 * (n % 4 / 2) + 2) + (8 * (n % 2 / 1) + 2) + 1, by omega,
    ((((r1.trans r2).trans r3).trans r4).trans r5).cast rfl rfl, m4, by rw [gl4]; omega, by rw [gs4]; omega, by rw [gd4]; omega,
    ((k1.trans k2).trans k3).trans k4⟩

end SMGo.Proofs.ISAVal
