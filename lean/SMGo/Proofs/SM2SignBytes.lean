/-
  Byte-string lemmas for the protocol layer (C01–C03): big-endian conversions, Go's minimal
  encoding `big.Int.Bytes()` (`Bytes.ofNatMin`) and the left-padding `ensure32Bytes`, the
  "all bytes zero" accumulators of sm2.go, and the scripted `io.ReadFull` against the specification's
  cutting of a stream into 32-byte candidates.  Core Lean only.
-/
import SMGo.Model.SM2Proto
import SMGo.Spec.SM2Proto
import SMGo.Proofs.UtilsCmp
namespace SMGo.Proofs.SM2SignBytes
open SMGo SMGo.Model SMGo.Model.SM2

/-! ### big-endian conversions -/

theorem ofNatBE_length (len v : Nat) : (Bytes.ofNatBE len v).length = len := by
  simp [Bytes.ofNatBE]

theorem ofNatBE_succ (len v : Nat) :
    Bytes.ofNatBE (len + 1) v = UInt8.ofNat (v / 256 ^ len % 256) :: Bytes.ofNatBE len v := by
  simp only [Bytes.ofNatBE, List.range_succ_eq_map, List.map_cons, List.map_map]
  congr 1
  apply List.map_congr_left
  intro i _
  simp only [Function.comp]
  have : len + 1 - 1 - (i + 1) = len - 1 - i := by omega
  rw [this]

theorem toNatBE_lt (b : Bytes) : Bytes.toNatBE b < 256 ^ b.length := UtilsCmp.toNatBE_lt b

theorem toNatBE_nil : Bytes.toNatBE [] = 0 := rfl

theorem toNatBE_ofNatBE_mod (len v : Nat) :
    Bytes.toNatBE (Bytes.ofNatBE len v) = v % 256 ^ len := by
  induction len with
  | zero => simp [Bytes.ofNatBE, Bytes.toNatBE, Nat.mod_one]
  | succ len ih =>
    have hb : (UInt8.ofNat (v / 256 ^ len % 256)).toNat = v / 256 ^ len % 256 := by
      rw [UInt8.toNat_ofNat']; omega
    rw [ofNatBE_succ, UtilsCmp.toNatBE_cons, ofNatBE_length, ih, hb,
      Nat.mod_pow_succ (x := v) (b := 256) (k := len), Nat.mul_comm, Nat.add_comm]

theorem toNatBE_ofNatBE (len v : Nat) (h : v < 256 ^ len) :
    Bytes.toNatBE (Bytes.ofNatBE len v) = v := by
  rw [toNatBE_ofNatBE_mod, Nat.mod_eq_of_lt h]

/-- equal-length byte strings with the same big-endian value are equal -/
theorem toNatBE_inj (x y : Bytes) (hl : x.length = y.length)
    (hv : Bytes.toNatBE x = Bytes.toNatBE y) : x = y := by
  apply (UtilsCmp.lexCmp_eq_zero x y).mp
  have h1 := UtilsCmp.lexCmp_lt_iff_toNat x y hl
  have h2 := (UtilsCmp.lexCmp_swap x y).trans (UtilsCmp.lexCmp_lt_iff_toNat y x hl.symm)
  rcases UtilsCmp.lexCmp_range x y with h | h | h
  · have := h1.mp h; omega
  · exact h
  · have := h2.mp h; omega

theorem ofNatBE_toNatBE (b : Bytes) : Bytes.ofNatBE b.length (Bytes.toNatBE b) = b := by
  apply toNatBE_inj
  · rw [ofNatBE_length]
  · exact toNatBE_ofNatBE _ _ (toNatBE_lt b)

theorem pow_256_32 : (256 : Nat) ^ 32 = 2 ^ 256 := by decide

theorem toNatBE_append (x y : Bytes) :
    Bytes.toNatBE (x ++ y) = Bytes.toNatBE x * 256 ^ y.length + Bytes.toNatBE y := by
  simp only [Bytes.toNatBE, List.foldl_append]
  rw [UtilsCmp.foldl_init]

theorem toNatBE_replicate_zero (m : Nat) : Bytes.toNatBE (List.replicate m 0) = 0 := by
  induction m with
  | zero => rfl
  | succ m ih => rw [List.replicate_succ, UtilsCmp.toNatBE_cons, ih]; simp

/-- left-padding with zeros does not change the value -/
theorem toNatBE_pad (m : Nat) (b : Bytes) : Bytes.toNatBE (List.replicate m 0 ++ b) = Bytes.toNatBE b := by
  rw [toNatBE_append, toNatBE_replicate_zero]; simp

/-- the accumulators `acc |= b` of sm2.go: all bytes are zero iff the value is zero -/
theorem all_zero_iff (b : Bytes) : b.all (· == 0) = true ↔ Bytes.toNatBE b = 0 := by
  induction b with
  | nil => simp [Bytes.toNatBE]
  | cons a t ih =>
    rw [List.all_cons, Bool.and_eq_true, ih, UtilsCmp.toNatBE_cons]
    have hpos : 0 < 256 ^ t.length := Nat.pow_pos (by decide)
    constructor
    · rintro ⟨ha, ht⟩
      have : a = 0 := by simpa using ha
      subst this; simp [ht]
    · intro h
      have h1 : a.toNat * 256 ^ t.length = 0 := by omega
      have h2 : Bytes.toNatBE t = 0 := by omega
      rcases Nat.mul_eq_zero.mp h1 with h3 | h3
      · refine ⟨?_, h2⟩
        have : a = 0 := UInt8.toNat_inj.mp (by simpa using h3)
        simp [this]
      · omega

/-- a string with a non-zero first byte has a large value -/
theorem toNatBE_ge_of_head (a : UInt8) (t : Bytes) (ha : a ≠ 0) :
    256 ^ t.length ≤ Bytes.toNatBE (a :: t) := by
  rw [UtilsCmp.toNatBE_cons]
  have h1 : 1 ≤ a.toNat := by
    rcases Nat.eq_zero_or_pos a.toNat with h | h
    · exact absurd (UInt8.toNat_inj.mp (by simpa using h)) ha
    · exact h
  have := Nat.mul_le_mul_right (256 ^ t.length) h1
  omega

/-! ### `big.Int.Bytes()` -/

theorem ofNatMin_go_value : ∀ (fuel v : Nat) (acc : Bytes), v < fuel →
    Bytes.toNatBE (Bytes.ofNatMin.go fuel v acc) = v * 256 ^ acc.length + Bytes.toNatBE acc := by
  intro fuel
  induction fuel with
  | zero => intro v acc h; omega
  | succ fuel ih =>
    intro v acc h
    unfold Bytes.ofNatMin.go
    by_cases hv : v = 0
    · subst hv; simp
    · rw [if_neg hv, ih _ _ (by omega), UtilsCmp.toNatBE_cons, List.length_cons, Nat.pow_succ]
      have hb : (UInt8.ofNat (v % 256)).toNat = v % 256 := by
        rw [UInt8.toNat_ofNat']; omega
      rw [hb]
      have hsplit : v = v / 256 * 256 + v % 256 := by omega
      generalize 256 ^ acc.length = q
      conv => rhs; rw [hsplit]
      rw [Nat.add_mul, Nat.mul_assoc, Nat.mul_comm q 256, Nat.add_assoc]

theorem ofNatMin_go_head : ∀ (fuel v : Nat) (acc : Bytes), v < fuel → v ≠ 0 →
    ∃ a t, Bytes.ofNatMin.go fuel v acc = a :: t ∧ a ≠ 0 := by
  intro fuel
  induction fuel with
  | zero => intro v acc h; omega
  | succ fuel ih =>
    intro v acc h hv
    unfold Bytes.ofNatMin.go
    rw [if_neg hv]
    by_cases hq : v / 256 = 0
    · have hlt : v < 256 := by omega
      have hres : Bytes.ofNatMin.go fuel (v / 256) (UInt8.ofNat (v % 256) :: acc)
          = UInt8.ofNat (v % 256) :: acc := by
        rw [hq]; cases fuel <;> simp [Bytes.ofNatMin.go]
      refine ⟨_, _, hres, ?_⟩
      intro h0
      have : (UInt8.ofNat (v % 256)).toNat = 0 := by rw [h0]; rfl
      rw [UInt8.toNat_ofNat'] at this
      omega
    · exact ih _ _ (by omega) hq

/-- `Bytes()` round-trips -/
theorem toNatBE_ofNatMin (v : Nat) : Bytes.toNatBE (Bytes.ofNatMin v) = v := by
  unfold Bytes.ofNatMin
  rw [ofNatMin_go_value _ _ _ (Nat.lt_succ_self v)]
  simp [Bytes.toNatBE]

theorem ofNatMin_zero : Bytes.ofNatMin 0 = [] := by
  simp [Bytes.ofNatMin, Bytes.ofNatMin.go]

/-- `Bytes()` has no leading zero byte -/
theorem ofNatMin_head (v : Nat) (hv : v ≠ 0) : ∃ a t, Bytes.ofNatMin v = a :: t ∧ a ≠ 0 :=
  ofNatMin_go_head _ _ _ (Nat.lt_succ_self v) hv

theorem ofNatMin_injective {u v : Nat} (h : Bytes.ofNatMin u = Bytes.ofNatMin v) : u = v := by
  rw [← toNatBE_ofNatMin u, ← toNatBE_ofNatMin v, h]

theorem ofNatMin_length_le (v l : Nat) (h : v < 256 ^ l) : (Bytes.ofNatMin v).length ≤ l := by
  by_cases hv : v = 0
  · subst hv; rw [ofNatMin_zero]; simp
  · obtain ⟨a, t, he, ha⟩ := ofNatMin_head v hv
    have h1 := toNatBE_ge_of_head a t ha
    rw [← he, toNatBE_ofNatMin] at h1
    rw [he, List.length_cons]
    have : 256 ^ t.length < 256 ^ l := Nat.lt_of_le_of_lt h1 h
    have := (Nat.pow_lt_pow_iff_right (a := 256) (by decide)).mp this
    omega

theorem ofNatMin_length_gt (v l : Nat) (h : 256 ^ l ≤ v) : l < (Bytes.ofNatMin v).length := by
  have h1 := toNatBE_lt (Bytes.ofNatMin v)
  rw [toNatBE_ofNatMin] at h1
  have : 256 ^ l < 256 ^ (Bytes.ofNatMin v).length := Nat.lt_of_le_of_lt h h1
  exact (Nat.pow_lt_pow_iff_right (a := 256) (by decide)).mp this

/-- `ensure32Bytes(v)` is the 32-byte big-endian encoding, for every v below 2^256 -/
theorem ensure32_eq (v : Nat) (h : v < 256 ^ 32) : ensure32 v = Bytes.ofNatBE 32 v := by
  unfold ensure32 Point.pad32
  have hl := ofNatMin_length_le v 32 h
  have hlen : (List.replicate (32 - (Bytes.ofNatMin v).length) 0 ++ Bytes.ofNatMin v).length = 32 := by
    rw [List.length_append, List.length_replicate]; omega
  have := ofNatBE_toNatBE (List.replicate (32 - (Bytes.ofNatMin v).length) 0 ++ Bytes.ofNatMin v)
  rw [hlen, toNatBE_pad, toNatBE_ofNatMin] at this
  exact this.symm

theorem pad32_ofNatMin (v : Nat) (h : v < 256 ^ 32) :
    Point.pad32 (Bytes.ofNatMin v) = Bytes.ofNatBE 32 v := ensure32_eq v h

/-! ### `io.ReadFull` on a script against the specification's candidates -/

open SMGo.Spec.SM2 (candidates chunk32)

theorem chunk32_out : ∀ (fuel : Nat) (x : Bytes) (out : List Bytes),
    chunk32 fuel x out = (out ++ (chunk32 fuel x []).1, (chunk32 fuel x []).2) := by
  intro fuel
  induction fuel with
  | zero => intro x out; simp [chunk32]
  | succ fuel ih =>
    intro x out
    unfold chunk32
    by_cases h : x.length ≥ 32
    · rw [if_pos h, if_pos h, ih (x.drop 32) (out ++ [x.take 32]), ih (x.drop 32) ([] ++ [x.take 32])]
      simp
    · rw [if_neg h, if_neg h]; simp

/-- the chunks of a complete stream -/
def chunks (x : Bytes) : List Bytes × Bytes := chunk32 (x.length / 32 + 1) x []

theorem chunks_short (x : Bytes) (h : x.length < 32) : chunks x = ([], x) := by
  unfold chunks chunk32
  rw [if_neg (by omega)]

theorem chunks_long (x : Bytes) (h : 32 ≤ x.length) :
    chunks x = (x.take 32 :: (chunks (x.drop 32)).1, (chunks (x.drop 32)).2) := by
  unfold chunks
  have hf : x.length / 32 + 1 = ((x.drop 32).length / 32 + 1) + 1 := by
    rw [List.length_drop]; omega
  rw [hf]
  conv => lhs; unfold chunk32
  rw [if_pos h, chunk32_out]
  simp

theorem candidates_data (b : Bytes) (r : Spec.SM2.Script) (acc : Bytes) :
    candidates (.data b :: r) acc = (chunks (acc ++ b)).1 ++ candidates r (chunks (acc ++ b)).2 := by
  simp only [candidates, chunks]

/-- one `ReadFull` of the remaining `want` bytes of a 32-byte buffer: it fails exactly when the
    script delivers no further complete candidate, and otherwise returns the next candidate,
    leaving a script that delivers the remaining candidates, 32 bytes shorter -/
theorem readFull_spec : ∀ (sc : Script) (want : Nat) (acc : Bytes), 0 < want → acc.length + want = 32 →
    match readFull sc want acc with
    | (none, _) => candidates sc acc = []
    | (some K, sc') => K.length = 32 ∧ candidates sc acc = K :: candidates sc' [] ∧
        avail sc = want + avail sc' := by
  intro sc
  induction sc with
  | nil => intro want acc _ _; simp [readFull, candidates]
  | cons it rest ih =>
    intro want acc hw hlen
    cases it with
    | fail => simp [readFull, candidates]
    | zero =>
      have := ih want acc hw hlen
      simp only [readFull, candidates, avail]
      exact this
    | data b =>
      unfold readFull
      by_cases hb : b.length ≥ want
      · rw [if_pos hb]
        have hall : 32 ≤ (acc ++ b).length := by rw [List.length_append]; omega
        have htake : (acc ++ b).take 32 = acc ++ b.take want := by
          rw [List.take_append]
          have : 32 - acc.length = want := by omega
          rw [this, List.take_of_length_le (by omega)]
        have hdrop : (acc ++ b).drop 32 = b.drop want := by
          rw [List.drop_append]
          have : 32 - acc.length = want := by omega
          rw [this, List.drop_of_length_le (by omega)]; simp
        refine ⟨?_, ?_, ?_⟩
        · rw [List.length_append, List.length_take]; omega
        · rw [candidates_data, chunks_long _ hall, htake, hdrop]
          by_cases he : b.length = want
          · rw [if_pos he]
            have : b.drop want = [] := List.drop_of_length_le (by omega)
            rw [this, chunks_short [] (by simp)]
            simp
          · rw [if_neg he, candidates_data]
            simp
        · by_cases he : b.length = want
          · rw [if_pos he]; simp only [avail]; omega
          · rw [if_neg he]; simp only [avail, List.length_drop]; omega
      · rw [if_neg hb]
        have hshort : (acc ++ b).length < 32 := by rw [List.length_append]; omega
        have := ih (want - b.length) (acc ++ b) (by omega) (by rw [List.length_append]; omega)
        rw [candidates_data, chunks_short _ hshort]
        simp only [List.nil_append, avail]
        revert this
        cases readFull rest (want - b.length) (acc ++ b) with
        | mk o sc' =>
          cases o with
          | none => exact id
          | some K =>
            rintro ⟨h1, h2, h3⟩
            exact ⟨h1, h2, by omega⟩

/-- the form used by the loops of sm2.go: a fresh 32-byte buffer -/
theorem readFull32 (sc : Script) :
    match readFull sc 32 [] with
    | (none, _) => candidates sc [] = []
    | (some K, sc') => K.length = 32 ∧ candidates sc [] = K :: candidates sc' [] ∧
        avail sc = 32 + avail sc' :=
  readFull_spec sc 32 [] (by decide) rfl

end SMGo.Proofs.SM2SignBytes
