/-
  **`cryptoBlockAsmX16Internal` with tmp = dst (the Go wrapper `cryptoBlockAsmX16`) = sixteen SM4 block functions of
  the specification**, for all round keys, all sixteen source blocks (src disjoint from dst = tmp, as in
  `cryptoBlocks` of sm4/sm4_gcm_arm64.go), any register / destination contents — under the UNVALIDATED arm64
  semantics of SMGo/Model/ISAValArm64.lean.  The listing decodes to prologue ++ 32 × (key load, VDUP, `subRoundX16`)
  ++ epilogue; the epilogue's stores to dst[0..127] overwrite the stash of the first half before the second half is
  reloaded from dst[128..255].
-/
import SMGo.Proofs.ISAValArm64X16Spec
set_option maxRecDepth 100000
namespace SMGo.Proofs.ISAValArm64
open SMGo.Model.ISAValArm64 SMGo.Model.ISA SMGo
open SMGo.Model.ISAVal (lane lanes unlanes Region readMem writeMem lookup regionBase)
open SMGo.Proofs.ISAVal (stepN iterN iterN_take getD_lt unlanes_lanes lanes_length)

/-! ### stores and loads after a written prefix, in normal form -/

theorem write_next_nf (M0 : List Region) (rT : Nat) (hr : rT < M0.length) (d P w : List Nat)
    (hlen : P.length + w.length ≤ d.length) (hlt : P.length < 2 ^ 32) :
    writeMem (M0.set rT ⟨"dst", P ++ d.drop P.length, true⟩) (regionBase rT + P.length) w
      = .ok (M0.set rT ⟨"dst", (P ++ w) ++ d.drop (P ++ w).length, true⟩) := by
  rw [write_next _ rT "dst" d P w (List.getElem?_set_self hr) hlen hlt, List.set_set]

theorem read_next_nf (M0 : List Region) (rT : Nat) (hr : rT < M0.length) (d P : List Nat) (off n : Nat)
    (hP : P.length ≤ off) (hPd : P.length ≤ d.length) (ho : off + n ≤ d.length) (hlt : off < 2 ^ 32) :
    readMem (M0.set rT ⟨"dst", P ++ d.drop P.length, true⟩) (regionBase rT + off) n = .ok ((d.drop off).take n) := by
  rw [read_nf M0 rT hr _ off n (by rw [List.length_append, List.length_drop]; omega) hlt]
  congr 2
  rw [show off = P.length + (off - P.length) by omega, ← List.drop_drop, List.drop_left, List.drop_drop]

/-! ### the listing -/

def x16Code : List DInstr := pro16Code ++ rounds16Code 32 ++ epi16Code

theorem x16_decode :
    (zipDecode Gen.ListArm64Asm.cryptoBlockAsmX16Internal Gen.ListArm64AsmArr.cryptoBlockAsmX16Internal_arr).toOption.map
        (fun r => r.map erasePc) = some (x16Code ++ [retI]) := by decide +kernel

theorem x16_noRet : x16Code.all (fun i => i.mn != .RET) = true := by decide +kernel

theorem run_x16 (s s' : State) (h : execList x16Code s = .ok s') :
    run Gen.ListArm64Asm.cryptoBlockAsmX16Internal Gen.ListArm64AsmArr.cryptoBlockAsmX16Internal_arr s = .ok s' :=
  run_of_decode _ _ x16Code x16_decode x16_noRet s s' h

/-! ### the state of the Go call -/

def xmem (rk d src : List Nat) : List Region :=
  [⟨"SBox", Gen.AsmData.arm64_SBox, false⟩, ⟨"FK", Gen.AsmData.arm64_FK, false⟩, ⟨"CK", Gen.AsmData.arm64_CK, false⟩,
   ⟨"rk", wordsMem rk, false⟩, ⟨"dst", d, true⟩, ⟨"src", src, false⟩]

theorem x16_mem (g v rk d src : List Nat) : (kernelStateX16Go g v rk d src).mem = (xmem rk d src).set 4 ⟨"dst", d, true⟩ := rfl
theorem xmem_set (rk d b src : List Nat) : (xmem rk d src).set 4 ⟨"dst", b, true⟩ = xmem rk b src := rfl

def frameTab16 : List (String × Nat) := [("rk", arg 0), ("dst", arg 1), ("src", arg 2), ("tmp", arg 1)]
theorem frame16_rk : lookup frameTab16 "rk" = some (regionBase 3) := by decide +kernel
theorem frame16_dst : lookup frameTab16 "dst" = some (regionBase 4) := by decide +kernel
theorem frame16_src : lookup frameTab16 "src" = some (regionBase 5) := by decide +kernel
theorem frame16_tmp : lookup frameTab16 "tmp" = some (regionBase 4) := by decide +kernel

theorem blockAt_length16 (src : List Nat) (hsrc : src.length = 256) (e : Nat) (he : e < 16) : (blockAt src e).length = 16 := by
  simp only [blockAt, List.length_take, List.length_drop, hsrc]; omega

/-- the sixteen encrypted blocks -/
def spec16 (rk src : List Nat) : List Nat :=
  (specBlock rk src 0 ++ (specBlock rk src 1 ++ (specBlock rk src 2 ++ specBlock rk src 3))) ++
  ((specBlock rk src 4 ++ (specBlock rk src 5 ++ (specBlock rk src 6 ++ specBlock rk src 7))) ++
  ((specBlock rk src 8 ++ (specBlock rk src 9 ++ (specBlock rk src 10 ++ specBlock rk src 11))) ++
   (specBlock rk src 12 ++ (specBlock rk src 13 ++ (specBlock rk src 14 ++ specBlock rk src 15)))))

theorem dst16_after (g' v' rk b src : List Nat) (sy fr : List (String × Nat)) :
    regionBytes ⟨g', v', xmem rk b src, sy, fr⟩ "dst" = some b := by
  simp [regionBytes, xmem, List.find?]

set_option maxHeartbeats 1000000 in
/-- **the arm64 listing of `cryptoBlockAsmX16Internal`, called with tmp = dst as `cryptoBlockAsmX16` does, computes the
    SM4 block function of the specification on each of its sixteen blocks** -/
theorem kernelX16_eq_spec (g v rk dst0 src : List Nat)
    (hg : g.length = 31) (hv : v.length = 32) (hrk : rk.length = 32) (hrkb : ∀ x ∈ rk, x < 2 ^ 32)
    (hsrc : src.length = 256) (hsb : ∀ x ∈ src, x < 256) (hdst : dst0.length = 256) :
    runDst Gen.ListArm64Asm.cryptoBlockAsmX16Internal Gen.ListArm64AsmArr.cryptoBlockAsmX16Internal_arr
        (kernelStateX16Go g v rk dst0 src)
      = .ok (spec16 rk src) := by
  have hr4 : 4 < (xmem rk dst0 src).length := by show (4 : Nat) < 6; decide
  have hrb : regionBase 4 + 256 < 2 ^ 64 := by decide
  -- prologue
  obtain ⟨s1, ms1, hrun1, hr1⟩ := prologue16_spec (xmem rk dst0 src) 4 hr4 dst0 src hdst (kernelStateX16Go g v rk dst0 src)
    hg hv (x16_mem g v rk dst0 src) (regionBase 5) (regionBase 3) hsb hrb symTab_sbox
    (fun bytes => read_sbox _ rfl 0 (by decide)) (fun bytes => read_sbox _ rfl 1 (by decide))
    (fun bytes => read_sbox _ rfl 2 (by decide)) (fun bytes => read_sbox _ rfl 3 (by decide))
    frame16_src (by decide)
    (fun bytes k hk => read_region _ 5 ⟨"src", src, false⟩ (64 * k) 64 rfl (by simp only [hsrc]; omega) (by omega))
    frame16_rk frame16_dst frame16_tmp
  -- 32 rounds
  obtain ⟨s2, ns, hrun2, hr2⟩ := ready16_rounds (xmem rk dst0 src) 4 hr4 _ _ (regionBase 3)
    (fun i => lanes 8 4 (rk.getD i 0)) (by decide)
    (fun ms i hi => read_rk _ 3 rk rfl hrk i hi)
    (fun i _ => by rw [unlanes_lanes]; exact Nat.mod_lt _ (by decide)) _ ms1 s1 hr1 32 (Nat.le_refl _)
  have hkw : (fun i => unlanes 8 (lanes 8 4 (rk.getD i 0))) = (fun i => rk.getD i 0) := by
    funext i
    rw [unlanes_lanes]; exact Nat.mod_eq_of_lt (getD_lt rk hrkb i)
  simp only [hkw, iterN_take rk _ 32 (by omega), List.take_of_length_le (Nat.le_of_eq hrk)] at hr2
  generalize hX : (fun j => rk.foldl stepN (blockWords (blockAt src j))) = X at hr2
  -- the memory operations of the epilogue
  have hl : (img ns).length = 256 := by rw [img_length, hr2.mlen]
  have ol : ∀ q, (outQ X q).length = 64 := fun q => by simp only [outQ, List.length_append, outBytes_length]
  have w0 := write_next_nf (xmem rk dst0 src) 4 hr4 (img ns) [] (outQ X 0) (by simp [ol, hl]) (by simp)
  have w1 := write_next_nf (xmem rk dst0 src) 4 hr4 (img ns) (outQ X 0) (outQ X 1) (by simp [ol, hl]) (by simp [ol])
  have l01 : (outQ X 0 ++ outQ X 1).length = 128 := by simp [ol]
  have l012 : (outQ X 0 ++ outQ X 1 ++ outQ X 2).length = 192 := by simp [ol]
  have r2 := read_next_nf (xmem rk dst0 src) 4 hr4 (img ns) (outQ X 0 ++ outQ X 1) (16 * 8) 64 (by rw [l01]; decide)
    (by rw [l01, hl]; decide) (by rw [hl]; decide) (by decide)
  have r3 := read_next_nf (xmem rk dst0 src) 4 hr4 (img ns) (outQ X 0 ++ outQ X 1) (16 * 12) 64 (by rw [l01]; decide)
    (by rw [l01, hl]; decide) (by rw [hl]; decide) (by decide)
  have w2 := write_next_nf (xmem rk dst0 src) 4 hr4 (img ns) (outQ X 0 ++ outQ X 1) (outQ X 2) (by simp [ol, hl])
    (by simp [ol])
  have w3 := write_next_nf (xmem rk dst0 src) 4 hr4 (img ns) (outQ X 0 ++ outQ X 1 ++ outQ X 2) (outQ X 3)
    (by simp [ol, hl]) (by simp [ol])
  simp only [List.length_nil, Nat.add_zero, List.drop_zero, List.nil_append] at w0
  rw [ol] at w1
  rw [l01] at w2
  rw [l012] at w3
  rw [img_drop, show 64 = 16 * 4 from rfl, img_take] at r2 r3
  have hns := hr2.mlen
  obtain ⟨n0, n1, n2, n3, n4, n5, n6, n7, n8, n9, n10, n11, n12, n13, n14, n15, rfl⟩ := SMGo.Proofs.ISAVal.list16 ns hns
  simp only [List.drop_succ_cons, List.drop_zero, List.take_succ_cons, List.take_zero] at r2 r3
  obtain ⟨s3, hrun3, hmem3⟩ := epilogue16_spec (xmem rk dst0 src) 4 _ _ (regionBase 3) X _ s2 _ _ _ _ hr2 hrb
    (by rw [hr2.hmem]; exact w0) w1 r2 r3 w2 w3
  have hrun : execList x16Code (kernelStateX16Go g v rk dst0 src) = .ok s3 :=
    execList_append_ok (execList_append_ok hrun1 hrun2) hrun3
  unfold runDst
  rw [run_x16 _ s3 hrun]
  obtain ⟨g3, v3, m3, sy3, fr3⟩ := s3
  simp only at hmem3
  subst hmem3
  simp only [ok_bind]
  rw [List.drop_of_length_le (by rw [hl]; simp [ol]), List.append_nil, xmem_set, dst16_after]
  -- the bytes
  have hs : ∀ e, e < 16 → outBytes (X e) = specBlock rk src e := by
    intro e he
    rw [← hX, specBlock, ← block_spec rk _ hrkb (blockAt_length16 src hsrc e he) (blockAt_lt src hsb e)]
  simp only [outQ, Nat.reduceMul, Nat.reduceAdd, hs 0 (by decide), hs 1 (by decide), hs 2 (by decide), hs 3 (by decide),
    hs 4 (by decide), hs 5 (by decide), hs 6 (by decide), hs 7 (by decide), hs 8 (by decide), hs 9 (by decide),
    hs 10 (by decide), hs 11 (by decide), hs 12 (by decide), hs 13 (by decide), hs 14 (by decide), hs 15 (by decide)]
  simp only [spec16, List.append_assoc]
  rfl

end SMGo.Proofs.ISAValArm64

#print axioms SMGo.Proofs.ISAValArm64.kernelX16_eq_spec
