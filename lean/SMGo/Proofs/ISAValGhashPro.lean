import SMGo.Proofs.ISAValGhashMem
namespace SMGo.Proofs.ISAVal
open SMGo.Model.ISAVal SMGo.Model.ISA SMGo.Model.GCM SMGo.Proofs.GCM

/-- GCM_POLY broadcast by VBROADCASTI32X2 to a Z register -/
def POLY64 : Nat := unlanes 64 (List.replicate (64 / 8) (unlanes 8 (Gen.AsmData.amd64_GCM_POLY.take 8)))
theorem poly64_lanes : ∀ l, l < 4 → lo64 (lane 128 l POLY64) = poly := by decide +kernel

/-- reflected H and the constants every GHASH step relies on -/
structure Ctx (mem : List Region) (tp h : Nat) (s : State) : Prop where
  lenG : s.gpr.length = 16
  lenV : s.vec.length = 32
  lenK : s.kreg.length = 8
  hmem : s.mem = mem
  hsyms : s.syms = symTab
  g3 : greg s 3 = tp
  v19 : vreg s 19 = h
  hlt : h < 2 ^ 128
  v22 : vreg s 22 = AND64
  v23 : vreg s 23 = LOW4
  v24 : vreg s 24 = HIGH4
  v25 : lo64 (lane 128 0 (vreg s 25)) = lo64 h ^^^ hi64 h
  v26 : vreg s 26 = POLY64

theorem execD_cmpq_imm' (g v k : List Nat) (fl : Flags) (mem : List Region) (syms frame : List (String × Nat))
    (imm : Int) (a ga : Nat) (ha : g[a]? = some ga) :
    execD ⟨g, v, k, fl, mem, syms, frame⟩ (ins .CMPQ [G a, .imm imm] 0)
      = .ok ⟨g, v, k, (subF 8 ga (imm64 imm)).2, mem, syms, frame⟩ := by
  simp only [execD, ins, G, exCmpq, getG, ha, ok_bind, pure_eq_ok]

theorem lane128_0_of_lt (x : Nat) (h : x < 2 ^ 128) : lane 128 0 x = x := by
  rw [lane_zero, Nat.mod_eq_of_lt h]

theorem rb128_lt (x : Nat) : rb128 x < 2 ^ 128 := by
  have := unlanes_lt 8 ((lanes 8 16 x).map rev8N) (by
    intro y hy
    simp only [List.mem_map] at hy
    obtain ⟨p, _, rfl⟩ := hy
    unfold rev8N
    have h1 : revNibble (p % 16) <<< 4 < 2 ^ 8 := by
      have : ∀ n, n < 16 → revNibble n <<< 4 < 2 ^ 8 := by decide
      exact this _ (Nat.mod_lt _ (by decide))
    have h2 : revNibble (p / 16) < 2 ^ 8 := by
      unfold revNibble
      rw [List.getD_eq_getElem?_getD]
      cases hh : ([0, 8, 4, 12, 2, 10, 6, 14, 1, 9, 5, 13, 3, 11, 7, 15] : List Nat)[p / 16]? with
      | none => simp
      | some z =>
        have hm := List.mem_of_getElem? hh
        simp only [List.mem_cons, List.not_mem_nil, or_false] at hm
        rcases hm with rfl | rfl | rfl | rfl | rfl | rfl | rfl | rfl | rfl | rfl | rfl | rfl | rfl | rfl | rfl | rfl <;> decide
    exact Nat.xor_lt_two_pow h1 h2)
  simpa [rb128, lanes_length] using this

/-- one instruction on an explicit state, X/Z vector instructions with a literal vector length -/
macro "pstep" : tactic => `(tactic|
  (apply exec_step
   · first
     | exact execD_vec3 (hmn := by rfl) (hvl := by rfl) (ha := by rfl) (hb := by rfl) (hd := lt_len32 _ _ rfl (by decide)) (hr := by rfl) ..
     | exact execD_vecImm (hmn := by rfl) (hvl := by rfl) (ha := by rfl) (hd := lt_len32 _ _ rfl (by decide)) (hr := by rfl) ..))

/-- the first 13 instructions: arguments, loads, masks, GCM_POLY -/
def p1Code : List DInstr := pCode.take 13

/-- what they establish -/
structure P1Post (h tag data k : List Nat) (count : Nat) (s : State) : Prop where
  lenG : s.gpr.length = 16
  lenV : s.vec.length = 32
  kreg : s.kreg = k
  hmem : s.mem = gmem h tag data
  hsyms : s.syms = symTab
  g1 : greg s 1 = 81604378624
  g2 : greg s 2 = count
  g3 : greg s 3 = 77309411328
  v19 : vreg s 19 = unlanes 8 h
  v21 : vreg s 21 = unlanes 8 tag
  v22 : vreg s 22 = AND64
  v23 : vreg s 23 = LOW4
  v24 : vreg s 24 = HIGH4
  v26 : vreg s 26 = POLY64

set_option maxRecDepth 100000 in
theorem ghP1_spec (g v k h tag data : List Nat) (count : Nat) (hG : g.length = 16) (hV : v.length = 32)
    (hh : h.length = 16) (ht : tag.length = 16) :
    ∃ s', execList p1Code (ghashState g v k h tag data count) = .ok s' ∧ P1Post h tag data k count s' := by
  obtain ⟨a0, a1, a2, a3, a4, a5, a6, a7, a8, a9, a10, a11, a12, a13, a14, a15, rfl⟩ := list16 g hG
  obtain ⟨b0, b1, b2, b3, b4, b5, b6, b7, b8, b9, b10, b11, b12, b13, b14, b15, b16, b17, b18, b19, b20, b21, b22, b23, b24, b25, b26, b27, b28, b29, b30, b31, rfl⟩ := list32 v hV
  show ∃ s', execList p1Code
      ⟨[a0, a1, a2, a3, a4, a5, a6, a7, a8, a9, a10, a11, a12, a13, a14, a15],
       [b0, b1, b2, b3, b4, b5, b6, b7, b8, b9, b10, b11, b12, b13, b14, b15, b16, b17, b18, b19, b20, b21, b22, b23, b24, b25, b26, b27, b28, b29, b30, b31],
       k, ⟨none, none, none, none⟩, gmem h tag data, symTab,
       [("h", arg 0), ("tag", arg 1), ("data", arg 2), ("count", count)]⟩ = .ok s' ∧ _
  have rH : readMem (gmem h tag data) ((73014444032 + 0 + imm64 0) % 2 ^ 64) 16 = .ok h := gm_read_h h tag data hh
  have rT : readMem (gmem h tag data) ((77309411328 + 0 + imm64 0) % 2 ^ 64) 16 = .ok tag := gm_read_tag h tag data ht
  have rA : readMem (gmem h tag data) ((25769803776 + 0 + imm64 0) % 2 ^ 64) 8 = .ok (Gen.AsmData.amd64_AND_MASK.take 8) := gm_read_and ..
  have rL : readMem (gmem h tag data) ((47244640256 + 0 + imm64 0) % 2 ^ 64) 16 = .ok Gen.AsmData.amd64_LOWER_MASK := gm_read_lower ..
  have rP : readMem (gmem h tag data) ((42949672960 + 0 + imm64 0) % 2 ^ 64) 8 = .ok (Gen.AsmData.amd64_GCM_POLY.take 8) := gm_read_poly ..
  apply Exists.intro
  apply And.intro
  · simp only [p1Code, pCode, List.cons_append, List.take_succ_cons, List.take_zero]
    apply exec_step
    · exact execD_movq_frame (hs := gframe_h count) (hd := by simp) ..
    apply exec_step
    · exact execD_movq_frame (hs := gframe_tag count) (hd := by simp) ..
    apply exec_step
    · exact execD_movq_frame (hs := gframe_data count) (hd := by simp) ..
    apply exec_step
    · exact execD_movq_frame (hs := gframe_count count) (hd := by simp) ..
    apply exec_step
    · exact execD_vmov_load (hvl := by rfl) (hb := by rfl) (hd := by simp) (hload := rH) ..
    apply exec_step
    · exact execD_vmov_load (hvl := by rfl) (hb := by rfl) (hd := by simp) (hload := rT) ..
    apply exec_step
    · exact execD_leaq (hs := symTab_and) (hd := by simp) ..
    apply exec_step
    · exact execD_leaq (hs := symTab_lower) (hd := by simp) ..
    apply exec_step
    · exact execD_broadcast_x2 (hvl := by rfl) (hb := by rfl) (hd := by simp) (hload := rA) ..
    apply exec_step
    · exact execD_broadcast_x4 (hvl := by rfl) (hb := by rfl) (hd := by simp) (hload := rL) ..
    pstep
    apply exec_step
    · exact execD_leaq (hs := symTab_poly) (hd := by simp) ..
    apply exec_step
    · exact execD_broadcast_x2 (hvl := by rfl) (hb := by rfl) (hd := by simp) (hload := rP) ..
    exact execList_nil _
  · simp only [List.set_cons_succ, List.set_cons_zero]
    exact ⟨rfl, rfl, rfl, rfl, rfl, rfl, rfl, rfl, rfl, rfl, rfl, rfl, rfl, rfl⟩


/-- `VPSRLDQ $8, F, FS; VPXORD F, FS, FS`: the low qword of every 128-bit lane of FS becomes lo ⊕ hi of F -/
def hsCode (vl F FS : Nat) : List DInstr :=
  [ins .VPSRLDQ [.imm 8, R F, R FS] vl, ins .VPXORD [R F, R FS, R FS] vl]

theorem hs_spec (vl F FS : Nat) (hvl : validVl vl = true) (hF : F < 32) (hFS : FS < 32) (hne : F ≠ FS)
    (s : State) (hV : s.vec.length = 32) :
    ∃ r, execList (hsCode vl F FS) s = .ok (setVreg s FS r) ∧
      ∀ l, l < vl / 16 → lo64 (lane 128 l r) = lo64 (lane 128 l (vreg s F)) ^^^ hi64 (lane 128 l (vreg s F)) := by
  have hvl' : vl = 16 ∨ vl = 32 ∨ vl = 64 := by
    simpa only [validVl, Bool.or_eq_true, beq_iff_eq, or_assoc] using hvl
  have hvl16 : vl % 16 = 0 := by omega
  let r1 := map1 128 (vl / 16) (fun x => x >>> (8 * (imm64 8 % 256))) (vreg s F)
  let s1 := setVreg s FS r1
  let r2 := map2 32 (vl / 4) (fun x y => y ^^^ x) (vreg s1 F) (vreg s1 FS)
  refine ⟨r2, ?_, ?_⟩
  · unfold hsCode
    apply exec_step (s1 := s1)
    · exact a_vecImm s .VPSRLDQ vl 8 F FS r1 rfl hvl (by omega) (by omega) rfl
    apply exec_step (s1 := setVreg s1 FS r2)
    · exact a_vec3 s1 .VPXORD vl F FS FS r2 32 rfl hvl (by simp [s1]; omega) (by simp [s1]; omega) (by simp [s1]; omega) rfl
    show Except.ok (setVreg (setVreg s FS r1) FS r2) = Except.ok (setVreg s FS r2)
    simp [setVreg]
  · intro l hl
    have e1 : vreg s1 F = vreg s F := vreg_setVreg_ne s FS r1 F hne
    have e2 : vreg s1 FS = r1 := vreg_setVreg_eq s FS r1 (by omega)
    show lo64 (lane 128 l (map2 32 (vl / 4) (fun x y => y ^^^ x) (vreg s1 F) (vreg s1 FS))) = _
    rw [e1, e2, lane128_vpxord vl l _ _ hvl16 hl]
    show lo64 (lane 128 l (map1 128 (vl / 16) (fun x => x >>> (8 * (imm64 8 % 256))) (vreg s F)) ^^^ _) = _
    rw [imm_8, lane128_srldq8 _ l _ hl, lo64_shr_xor]

theorem pCode_split : pCode = p1Code ++ (rbCode 16 19 1 2 ++ (rbCode 16 21 1 2 ++
    [ins .VPSRLDQ [.imm 8, R 19, R 25] 16, ins .VPXORD [R 19, R 25, R 25] 16, ins .CMPQ [G 2, .imm 8] 0])) := by
  decide +kernel

theorem mem19 : 19 ∈ persistent := by decide
theorem mem21 : 21 ∈ persistent := by decide
theorem mem22 : 22 ∈ persistent := by decide
theorem mem23 : 23 ∈ persistent := by decide
theorem mem24 : 24 ∈ persistent := by decide
theorem mem25 : 25 ∈ persistent := by decide
theorem mem20 : 20 ∈ persistent := by decide
theorem mem29 : 29 ∈ persistent := by decide
theorem mem30 : 30 ∈ persistent := by decide
theorem mem31 : 31 ∈ persistent := by decide
theorem mem4 : 4 ∈ persistent := by decide
theorem mem5 : 5 ∈ persistent := by decide

theorem imm64_8 : imm64 8 = 8 := by decide +kernel

/-- the prologue of `gHashBlocks` from its entry state: H and the tag bit-reflected, the constants in place,
    `CMPQ count, $8` done -/
theorem ghP_spec (g v k h tag data : List Nat) (count : Nat) (hG : g.length = 16) (hV : v.length = 32) (hK : k.length = 8)
    (hh : h.length = 16) (ht : tag.length = 16) (hhb : ∀ x ∈ h, x < 2 ^ 8) (htb : ∀ x ∈ tag, x < 2 ^ 8) :
    ∃ s', execList pCode (ghashState g v k h tag data count) = .ok s' ∧
      Ctx (gmem h tag data) 77309411328 (rb128 (unlanes 8 h)) s' ∧
      greg s' 1 = 81604378624 ∧ greg s' 2 = count ∧ vreg s' 21 = rb128 (unlanes 8 tag) ∧
      s'.flags = (subF 8 count 8).2 := by
  obtain ⟨s1, hrun1, p1⟩ := ghP1_spec g v k h tag data count hG hV hh ht
  obtain ⟨s2, hrun2, vo2, lt2, val2⟩ := rb_spec 16 19 1 2 rfl (Or.inl ⟨by decide, rfl, rfl⟩) s1 p1.lenV p1.v22 p1.v23 p1.v24
  have e22 : vreg s2 22 = AND64 := by rw [vo2.keep 22 mem22 (by decide), p1.v22]
  have e23 : vreg s2 23 = LOW4 := by rw [vo2.keep 23 mem23 (by decide), p1.v23]
  have e24 : vreg s2 24 = HIGH4 := by rw [vo2.keep 24 mem24 (by decide), p1.v24]
  obtain ⟨s3, hrun3, vo3, lt3, val3⟩ := rb_spec 16 21 1 2 rfl (Or.inl ⟨by decide, rfl, rfl⟩) s2 vo2.lenV e22 e23 e24
  -- values
  have hhlt : unlanes 8 h < 2 ^ 128 := by
    have := unlanes_lt 8 h hhb; rwa [hh] at this
  have htlt : unlanes 8 tag < 2 ^ 128 := by
    have := unlanes_lt 8 tag htb; rwa [ht] at this
  have v19 : vreg s3 19 = rb128 (unlanes 8 h) := by
    rw [vo3.keep 19 mem19 (by decide), ← lane128_0_of_lt _ lt2, val2 0 (by decide), p1.v19, lane128_0_of_lt _ hhlt]
  have v21 : vreg s3 21 = rb128 (unlanes 8 tag) := by
    rw [← lane128_0_of_lt _ lt3, val3 0 (by decide), vo2.keep 21 mem21 (by decide), p1.v21, lane128_0_of_lt _ htlt]
  obtain ⟨r, hrun4, hr⟩ := hs_spec 16 19 25 rfl (by decide) (by decide) (by decide) s3 vo3.lenV
  have hG3 : s3.gpr.length = 16 := by rw [vo3.gpr, vo2.gpr]; exact p1.lenG
  have hrun5 : execList [ins .CMPQ [G 2, .imm 8] 0] (setVreg s3 25 r)
      = .ok (setFlags (setVreg s3 25 r) (subF 8 (greg (setVreg s3 25 r) 2) (imm64 8)).2) := by
    apply exec_step
    · exact a_cmpq_imm _ 8 2 (by simp [hG3])
    rfl
  have hg2 : greg s3 2 = count := by
    show s3.gpr.getD 2 0 = count
    rw [vo3.gpr, vo2.gpr]; exact p1.g2
  refine ⟨setFlags (setVreg s3 25 r) (subF 8 (greg (setVreg s3 25 r) 2) (imm64 8)).2, ?_, ?_, ?_, ?_, ?_, ?_⟩
  · rw [pCode_split]
    exact execList_append_ok hrun1 (execList_append_ok hrun2 (execList_append_ok hrun3
      (execList_append_ok (a := hsCode 16 19 25) hrun4 hrun5)))
  · refine ⟨by simpa using hG3, by simpa using vo3.lenV, ?_, ?_, ?_, ?_, ?_, rb128_lt _, ?_, ?_, ?_, ?_, ?_⟩
    · simp only [kreg_setFlags, kreg_setVreg]; rw [vo3.kreg, vo2.kreg, p1.kreg]; exact hK
    · simp only [mem_setFlags, mem_setVreg]; rw [vo3.mem, vo2.mem]; exact p1.hmem
    · simp only [syms_setFlags, syms_setVreg]; rw [vo3.syms, vo2.syms]; exact p1.hsyms
    · simp only [greg_setFlags, greg_setVreg]
      show s3.gpr.getD 3 0 = _
      rw [vo3.gpr, vo2.gpr]; exact p1.g3
    · rw [vreg_setFlags, vreg_setVreg_ne _ _ _ _ (by decide)]; exact v19
    · rw [vreg_setFlags, vreg_setVreg_ne _ _ _ _ (by decide), vo3.keep 22 mem22 (by decide)]; exact e22
    · rw [vreg_setFlags, vreg_setVreg_ne _ _ _ _ (by decide), vo3.keep 23 mem23 (by decide)]; exact e23
    · rw [vreg_setFlags, vreg_setVreg_ne _ _ _ _ (by decide), vo3.keep 24 mem24 (by decide)]; exact e24
    · rw [vreg_setFlags, vreg_setVreg_eq _ _ _ (by rw [vo3.lenV]; decide), hr 0 (by decide), v19,
        lane128_0_of_lt _ (rb128_lt _)]
    · rw [vreg_setFlags, vreg_setVreg_ne _ _ _ _ (by decide), vo3.keep 26 mem_persistent_26 (by decide),
        vo2.keep 26 mem_persistent_26 (by decide)]; exact p1.v26
  · simp only [greg_setFlags, greg_setVreg]
    show s3.gpr.getD 1 0 = _
    rw [vo3.gpr, vo2.gpr]; exact p1.g1
  · simp only [greg_setFlags, greg_setVreg]; exact hg2
  · rw [vreg_setFlags, vreg_setVreg_ne _ _ _ _ (by decide)]; exact v21
  · simp only [flags_setFlags, greg_setVreg, hg2, imm64_8]

end SMGo.Proofs.ISAVal
