/-
  Refinement: the generated IR (SMGo/Gen/CTIRProg.lean) of the bit-extraction helpers of
  /repo/sm2/internal/sm2_curve.go (`fn_2` extractBit, `fn_3` extractHigherBits, `fn_4` extractLowerBits) and
  of sm2.TestPrivateKey (`fn_1`) computes the hand-written models of SMGo/Model/Curve.lean and
  SMGo/Model/SM2Proto.lean.  Style of SMGo/Proofs/CTIRRefineUtils.lean: body-level theorems (`*_body_ok`:
  `EvIn` with explicit fuel, `*_body_stuck`: `Stuck`) for callers, run-level theorems (`ir_*_ok`,
  `ir_*_panic`) and the combined statements `ir_*_eq_model`.

  Domain.  The models take natural numbers: the statements are about NON-NEGATIVE Go `int` arguments
  (`< 2^63`); byte strings are arbitrary non-nil slices of any length.
  * extractBit: all `k`, all `idx < 2^63` (model panic = negative or out-of-range byte index = stuck IR).
  * extractLowerBits: all `k`, ALL `count ≥ 0` (for `count ≥ 8` both sides keep the whole byte).
  * extractHigherBits: all `idx, window, stepSize < 2^63`, and `k` of at most 2^60 bytes or
    `stepSize ≤ 2^63 - 256`; no bound `window ≤ 8` is needed.  The one disagreement found (integer
    wrap-around with a slice of more than 2^60 bytes) is described at `ir_extractHigherBits_eq_model`.
  * TestPrivateKey: all `priv` (`len < 2^63`), any model context, any globals with entry 5 = the context's
    `nMinus1Bytes`.
-/
import SMGo.Proofs.CTIRRefineUtils
import SMGo.Gen.CTIRProg
import SMGo.Model.Curve
import SMGo.Model.SM2Proto
open SMGo SMGo.Model.CTIR SMGo.Gen.CTIRProg SMGo.Proofs.CTIRRefineUtils

namespace SMGo.Proofs.CTIRRefineCurve

/-! ## Arithmetic: IR integers vs natural numbers -/

theorem shrc_nat (n k : Nat) : evalOp1 (.shrc k) (n : Int) = ((n >>> k : Nat) : Int) := rfl

theorem shr_nat (b s : Nat) : evalOp2 .shr (b : Int) (s : Int) = some (((b >>> s : Nat) : Nat) : Int) := by
  have h : ¬ ((s : Int) < 0) := by omega
  simp only [evalOp2, h, if_false, Int.toNat_natCast]
  rfl

theorem pat_i64_nat {n : Nat} (h : n < 2 ^ 63) : pat .i64 (n : Int) = n := by
  simp only [pat, Ty.bits]
  omega

theorem pat_u8_nat {n : Nat} (h : n < 256) : pat .u8 (n : Int) = n := by
  simp only [pat, Ty.bits]
  omega

theorem norm_u8_small {n : Nat} (h : n < 256) : norm .u8 (n : Int) = (n : Int) := by
  simp only [norm]; omega

/-- `idx & 7` on a non-negative `int` -/
theorem and7_eq {n : Nat} (h : n < 2 ^ 63) :
    evalOp2 (.and .i64) (n : Int) 7 = some (((n % 8 : Nat) : Nat) : Int) := by
  have h7 : pat .i64 7 = 7 := by decide
  have e : n &&& 7 = n % 8 := Nat.and_two_pow_sub_one_eq_mod n 3
  simp only [evalOp2, pat_i64_nat h, h7, e]
  rw [norm_i64_small (by omega) (by omega)]

/-- `x & 1` on a byte -/
theorem and1_u8_eq {x : Nat} (h : x < 256) :
    evalOp2 (.and .u8) (x : Int) 1 = some (((x % 2 : Nat) : Nat) : Int) := by
  have h1 : pat .u8 1 = 1 := by decide
  simp only [evalOp2, pat_u8_nat h, h1, Nat.and_one_is_mod]
  rw [norm_u8_small (by omega)]

/-- `31 - idx>>3` -/
theorem byteIdx_eq {n : Nat} (h : n < 2 ^ 63) :
    evalOp2 (.sub .i64) 31 (evalOp1 (.shrc 3) (n : Int)) = some ((31 : Int) - ((n / 8 : Nat) : Int)) := by
  rw [shrc_nat, Nat.shiftRight_eq_div_pow]
  simp only [evalOp2]
  rw [norm_i64_small (by omega) (by omega)]

theorem shr_byte_lt (x : UInt8) (s : Nat) : x.toNat >>> s < 256 := by
  have := x.toNat_lt
  rw [Nat.shiftRight_eq_div_pow]
  exact Nat.lt_of_le_of_lt (Nat.div_le_self _ _) (by omega)


/-! ## extractBit -/

theorem extractBit_eq (k : Bytes) (idx : Nat) : Model.Curve.extractBit k idx =
    if 31 < idx / 8 then .panic else
      match k[31 - idx / 8]? with
      | some x => .ok ((x.toNat >>> (idx % 8)) % 2)
      | none => .panic := by
  unfold Model.Curve.extractBit Outcome.idx
  split
  · rfl
  · cases k[31 - idx / 8]? <;> rfl

theorem extractBit_ne_err (k : Bytes) (idx : Nat) : Model.Curve.extractBit k idx ≠ .err := by
  rw [extractBit_eq]
  split
  · simp
  · cases k[31 - idx / 8]? <;> simp

/-- a successful `extractBit` has a bit index below 256 and returns a bit -/
theorem extractBit_ok_bound {k : Bytes} {idx b : Nat} (h : Model.Curve.extractBit k idx = .ok b) :
    idx < 256 ∧ b < 2 := by
  rw [extractBit_eq] at h
  split at h
  · cases h
  · rename_i hle
    cases hk : k[31 - idx / 8]? with
    | none => rw [hk] at h; cases h
    | some x =>
      rw [hk] at h
      simp only [Outcome.ok.injEq] at h
      omega

theorem fn_2_body : fn_2.body =
    seqs [.assign 3 [] (.op2 (.sub .i64) (.lit 31) (.op1 (.shrc 3) (.var 1))),
      .assign 4 [] (.idx (.var 0) (.var 3)),
      .assign 5 [] (.op2 (.and .i64) (.var 1) (.lit 7)),
      .assign 6 [] (.op2 .shr (.var 4) (.var 5)),
      .ret [(.op2 (.and .u8) (.var 6) (.lit 1))],
      .panic] := rfl

section Bit
variable {P : Prog} {G : Nat → Val} {X : Oracle}

theorem bit_s3 (k : Bytes) (idx : Nat) (hidx : idx < 2 ^ 63) :
    evalV G (Env.ofList [bytesV k, .int idx]) (.op2 (.sub .i64) (.lit 31) (.op1 (.shrc 3) (.var 1)))
      = some (.int ((31 : Int) - ((idx / 8 : Nat) : Int))) := by
  have g1 : (Env.ofList [bytesV k, .int idx]) 1 = .int (idx : Int) := rfl
  simp only [evalV_op2, evalV_op1, evalV_var, evalV_lit, g1, byteIdx_eq hidx, Option.map_some]

/-- fuel that suffices for the body of extractBit -/
def fuelBit : Nat := 10

/-- body level: the model returns `b` ⇒ the body of the IR function returns `b` (for ANY program: the body
    calls nothing).  No bound on `idx` is needed: a successful model call has `idx < 256`. -/
theorem bit_body_ok (k : Bytes) (idx : Nat) (b : Nat)
    (h : Model.Curve.extractBit k idx = .ok b) :
    ∃ env', EvIn P G X fuelBit (Env.ofList [bytesV k, .int idx]) fn_2.body env' (.ret [.int b]) := by
  have hidx : idx < 2 ^ 63 := by have := (extractBit_ok_bound h).1; omega
  rw [extractBit_eq] at h
  split at h
  · cases h
  · rename_i hle
    cases hk : k[31 - idx / 8]? with
    | none => rw [hk] at h; cases h
    | some x =>
      rw [hk] at h
      simp only [Outcome.ok.injEq] at h
      subst h
      let e0 : Env := Env.ofList [bytesV k, .int idx]
      let e1 := e0.set 3 (.int ((31 : Int) - ((idx / 8 : Nat) : Int)))
      let e2 := e1.set 4 (.int ((x.toNat : Nat) : Int))
      let e3 := e2.set 5 (.int ((idx % 8 : Nat) : Int))
      let e4 := e3.set 6 (.int ((x.toNat >>> (idx % 8) : Nat) : Int))
      have s3 := bit_s3 (G := G) k idx hidx
      have s4 : evalV G e1 (.idx (.var 0) (.var 3)) = some (.int ((x.toNat : Nat) : Int)) := by
        have g0 : e1 0 = bytesV k := rfl
        have g3 : e1 3 = .int (((31 - idx / 8 : Nat) : Nat) : Int) := by
          simp only [e1, Env.set_same]; congr 1; omega
        simp only [evalV_idx, evalV_var, g0, g3, bytesV, bytesV_getIdx, hk, Option.map_some]
        rfl
      have s5 : evalV G e2 (.op2 (.and .i64) (.var 1) (.lit 7)) = some (.int ((idx % 8 : Nat) : Int)) := by
        have g1 : e2 1 = .int (idx : Int) := rfl
        simp only [evalV_op2, evalV_var, evalV_lit, g1, and7_eq hidx, Option.map_some]
      have s6 : evalV G e3 (.op2 .shr (.var 4) (.var 5)) = some (.int ((x.toNat >>> (idx % 8) : Nat) : Int)) := by
        have g4 : e3 4 = .int ((x.toNat : Nat) : Int) := rfl
        have g5 : e3 5 = .int ((idx % 8 : Nat) : Int) := rfl
        simp only [evalV_op2, evalV_var, g4, g5, shr_nat, Option.map_some]
      have sr : evalVs G e4 [(.op2 (.and .u8) (.var 6) (.lit 1))]
          = some [.int (((x.toNat >>> (idx % 8)) % 2 : Nat) : Int)] := by
        have g6 : e4 6 = .int ((x.toNat >>> (idx % 8) : Nat) : Int) := rfl
        simp only [evalVs_cons, evalVs_nil, evalV_op2, evalV_var, evalV_lit, g6,
          and1_u8_eq (shr_byte_lt x (idx % 8)), Option.map_some]
      refine ⟨e4, ?_⟩
      rw [fn_2_body]
      exact (EvIn.seq (EvIn.assign s3) (EvIn.seq (EvIn.assign s4) (EvIn.seq (EvIn.assign s5)
        (EvIn.seq (EvIn.assign s6) (EvIn.seq_stop (EvIn.ret sr) (by simp)))))).mono (by decide)

/-- body level: the model panics (byte index negative or beyond the end of `k`) ⇒ the IR is stuck at
    `k[byteIdx]` with every fuel; `idx` is a non-negative Go `int` -/
theorem bit_body_stuck (k : Bytes) (idx : Nat) (hidx : idx < 2 ^ 63)
    (h : Model.Curve.extractBit k idx = .panic) :
    Stuck P G X (Env.ofList [bytesV k, .int idx]) fn_2.body := by
  rw [fn_2_body]
  apply Stuck.seq_right (EvIn.assign (bit_s3 (G := G) k idx hidx))
  apply Stuck.seq_left
  apply Stuck.assign
  have g0 : ((Env.ofList [bytesV k, .int idx]).set 3 (.int ((31 : Int) - ((idx / 8 : Nat) : Int)))) 0 = bytesV k := rfl
  rw [extractBit_eq] at h
  split at h
  · rename_i hgt
    -- a negative byte index
    simp only [evalV_idx, evalV_var, g0, Env.set_same]
    exact getIdx_neg _ (by omega)
  · rename_i hle
    cases hk : k[31 - idx / 8]? with
    | some x => rw [hk] at h; cases h
    | none =>
      have g3 : ((Env.ofList [bytesV k, .int idx]).set 3 (.int ((31 : Int) - ((idx / 8 : Nat) : Int)))) 3
          = .int (((31 - idx / 8 : Nat) : Nat) : Int) := by
        simp only [Env.set_same]; congr 1; omega
      simp only [evalV_idx, evalV_var, g0, g3]
      simp only [bytesV, bytesV_getIdx, hk, Option.map_none]

end Bit

theorem fn2_lookup : prog[f_internal_extractBit]? = some fn_2 := rfl

section BitRun
variable {G : Nat → Val} {X : Oracle}

theorem ir_bit_ok (k : Bytes) (idx : Nat) (b : Nat)
    (h : Model.Curve.extractBit k idx = .ok b) :
    ∀ f, fuelBit + 1 ≤ f → runV prog G X f f_internal_extractBit [bytesV k, .int idx] = .ret [.int b] := by
  obtain ⟨env', hb⟩ := bit_body_ok (P := prog) (G := G) (X := X) k idx b h
  intro f hf
  exact runV_of_EvIn fn2_lookup rfl rfl hb f (by omega)

theorem ir_bit_panic (k : Bytes) (idx : Nat) (hidx : idx < 2 ^ 63)
    (h : Model.Curve.extractBit k idx = .panic) :
    ∀ f, runV prog G X f f_internal_extractBit [bytesV k, .int idx] = .stuck :=
  runV_of_Stuck fn2_lookup (bit_body_stuck (P := prog) (G := G) (X := X) k idx hidx h)

/-- a natural-number outcome as an integer outcome -/
def natOut (o : Outcome Nat) : Outcome Int := o >>= fun n => .ok (n : Int)

/-- extractBit: the run of the generated IR IS the model, for every byte string `k` (any length) and every
    non-negative Go `int` `idx` -/
theorem ir_extractBit_eq_model (k : Bytes) (idx : Nat) (hidx : idx < 2 ^ 63) (f : Nat) (hf : fuelBit + 1 ≤ f) :
    outcomeInt (runV prog G X f f_internal_extractBit [bytesV k, .int idx])
      = natOut (Model.Curve.extractBit k idx) := by
  cases h : Model.Curve.extractBit k idx with
  | ok b => rw [ir_bit_ok k idx b h f hf]; rfl
  | panic => rw [ir_bit_panic k idx hidx h f]; rfl
  | err => exact absurd h (extractBit_ne_err k idx)

end BitRun


/-! ## extractLowerBits -/

/-- the byte `1<<count - 1` as Go computes it: for `count ≥ 8` the shift gives 0 and the subtraction wraps
    to 255 -/
def maskN (c : Nat) : Nat := if c < 8 then 2 ^ c - 1 else 255

theorem maskN_lt (c : Nat) : maskN c < 256 := by
  unfold maskN
  split
  · rename_i h
    have : 2 ^ c < 2 ^ 8 := Nat.pow_lt_pow_right (by decide) h
    omega
  · decide

theorem shl1_u8 (c : Nat) : evalOp2 (.shl .u8) 1 (c : Int) = some (((2 ^ c % 256 : Nat) : Nat) : Int) := by
  have h : ¬ ((c : Int) < 0) := by omega
  simp only [evalOp2, h, if_false, Int.toNat_natCast, norm, Int.one_mul]
  rfl

theorem two_pow_mod_256 {c : Nat} (h : 8 ≤ c) : 2 ^ c % 256 = 0 := by
  obtain ⟨d, rfl⟩ := Nat.exists_eq_add_of_le h
  rw [Nat.pow_add]
  exact Nat.mul_mod_right _ _

theorem mask_u8 (c : Nat) :
    evalOp2 (.sub .u8) (((2 ^ c % 256 : Nat) : Nat) : Int) 1 = some (((maskN c : Nat) : Nat) : Int) := by
  simp only [evalOp2, norm, maskN]
  split
  · rename_i h
    have h1 : 2 ^ c < 2 ^ 8 := Nat.pow_lt_pow_right (by decide) h
    have h2 : 0 < 2 ^ c := Nat.two_pow_pos c
    generalize 2 ^ c = t at h1 h2 ⊢
    congr 1
    omega
  · rename_i h
    rw [two_pow_mod_256 (by omega)]
    rfl

theorem and_u8_nat {x m : Nat} (hx : x < 256) (hm : m < 256) :
    evalOp2 (.and .u8) (x : Int) (m : Int) = some (((x &&& m : Nat) : Nat) : Int) := by
  simp only [evalOp2, pat_u8_nat hx, pat_u8_nat hm]
  rw [norm_u8_small]
  exact Nat.lt_of_le_of_lt Nat.and_le_left hx

theorem and_maskN {x : Nat} (c : Nat) (hx : x < 256) : x &&& maskN c = x &&& (2 ^ c - 1) := by
  unfold maskN
  split
  · rfl
  · rename_i h
    have h1 : 2 ^ 8 ≤ 2 ^ c := Nat.pow_le_pow_right (by decide) (by omega)
    rw [Nat.and_two_pow_sub_one_eq_mod x c, show (255 : Nat) = 2 ^ 8 - 1 from rfl,
      Nat.and_two_pow_sub_one_eq_mod x 8, Nat.mod_eq_of_lt (by omega), Nat.mod_eq_of_lt (by omega)]

theorem extractLowerBits_eq (k : Bytes) (count : Nat) : Model.Curve.extractLowerBits k count =
    match k[31]? with
    | some x => .ok (x.toNat &&& (2 ^ count - 1))
    | none => .panic := by
  unfold Model.Curve.extractLowerBits Outcome.idx
  cases k[31]? <;> rfl

theorem extractLowerBits_ne_err (k : Bytes) (count : Nat) : Model.Curve.extractLowerBits k count ≠ .err := by
  rw [extractLowerBits_eq]
  cases k[31]? <;> simp

theorem fn_4_body : fn_4.body =
    seqs [.assign 3 [] (.idxc (.var 0) 31),
      .ret [(.op2 (.and .u8) (.var 3) (.op2 (.sub .u8) (.op2 (.shl .u8) (.lit 1) (.var 1)) (.lit 1)))],
      .panic] := rfl

section Low
variable {P : Prog} {G : Nat → Val} {X : Oracle}

def fuelLow : Nat := 4

/-- body level; `count` is ANY non-negative integer (for `count ≥ 8` both sides return the whole byte) -/
theorem low_body_ok (k : Bytes) (count : Nat) (b : Nat)
    (h : Model.Curve.extractLowerBits k count = .ok b) :
    ∃ env', EvIn P G X fuelLow (Env.ofList [bytesV k, .int count]) fn_4.body env' (.ret [.int b]) := by
  rw [extractLowerBits_eq] at h
  cases hk : k[31]? with
  | none => rw [hk] at h; cases h
  | some x =>
    rw [hk] at h
    simp only [Outcome.ok.injEq] at h
    subst h
    have hx : x.toNat < 256 := x.toNat_lt
    let e0 : Env := Env.ofList [bytesV k, .int count]
    let e1 := e0.set 3 (.int ((x.toNat : Nat) : Int))
    have s3 : evalV G e0 (.idxc (.var 0) 31) = some (.int ((x.toNat : Nat) : Int)) := by
      have g0 : e0 0 = bytesV k := rfl
      simp only [evalV_idxc, evalV_var, g0]
      simp only [bytesV, List.getElem?_map, hk, Option.map_some]
      rfl
    have sr : evalVs G e1 [(.op2 (.and .u8) (.var 3) (.op2 (.sub .u8) (.op2 (.shl .u8) (.lit 1) (.var 1)) (.lit 1)))]
        = some [.int ((x.toNat &&& (2 ^ count - 1) : Nat) : Int)] := by
      have g3 : e1 3 = .int ((x.toNat : Nat) : Int) := rfl
      have g1 : e1 1 = .int (count : Int) := rfl
      simp only [evalVs_cons, evalVs_nil, evalV_op2, evalV_var, evalV_lit, g3, g1, shl1_u8, Option.map_some,
        mask_u8, and_u8_nat hx (maskN_lt count), and_maskN count hx]
    refine ⟨e1, ?_⟩
    rw [fn_4_body]
    exact (EvIn.seq (EvIn.assign s3) (EvIn.seq_stop (EvIn.ret sr) (by simp))).mono (by decide)

/-- body level: `k` shorter than 32 bytes ⇒ stuck at `k[31]` -/
theorem low_body_stuck (k : Bytes) (count : Nat)
    (h : Model.Curve.extractLowerBits k count = .panic) :
    Stuck P G X (Env.ofList [bytesV k, .int count]) fn_4.body := by
  rw [fn_4_body]
  apply Stuck.seq_left
  apply Stuck.assign
  rw [extractLowerBits_eq] at h
  cases hk : k[31]? with
  | some x => rw [hk] at h; cases h
  | none =>
    have g0 : (Env.ofList [bytesV k, .int count]) 0 = bytesV k := rfl
    simp only [evalV_idxc, evalV_var, g0]
    simp only [bytesV, List.getElem?_map, hk, Option.map_none]

end Low

theorem fn4_lookup : prog[f_internal_extractLowerBits]? = some fn_4 := rfl

section LowRun
variable {G : Nat → Val} {X : Oracle}

theorem ir_low_ok (k : Bytes) (count : Nat) (b : Nat)
    (h : Model.Curve.extractLowerBits k count = .ok b) :
    ∀ f, fuelLow + 1 ≤ f → runV prog G X f f_internal_extractLowerBits [bytesV k, .int count] = .ret [.int b] := by
  obtain ⟨env', hb⟩ := low_body_ok (P := prog) (G := G) (X := X) k count b h
  intro f hf
  exact runV_of_EvIn fn4_lookup rfl rfl hb f (by omega)

theorem ir_low_panic (k : Bytes) (count : Nat)
    (h : Model.Curve.extractLowerBits k count = .panic) :
    ∀ f, runV prog G X f f_internal_extractLowerBits [bytesV k, .int count] = .stuck :=
  runV_of_Stuck fn4_lookup (low_body_stuck (P := prog) (G := G) (X := X) k count h)

/-- extractLowerBits: the run of the generated IR IS the model, for every byte string and EVERY
    non-negative `count` (no upper bound: for `count ≥ 8` the byte `1<<count` is 0, the mask wraps to 255,
    and the model's `2^count - 1` keeps the whole byte as well) -/
theorem ir_extractLowerBits_eq_model (k : Bytes) (count : Nat) (f : Nat) (hf : fuelLow + 1 ≤ f) :
    outcomeInt (runV prog G X f f_internal_extractLowerBits [bytesV k, .int count])
      = natOut (Model.Curve.extractLowerBits k count) := by
  cases h : Model.Curve.extractLowerBits k count with
  | ok b => rw [ir_low_ok k count b h f hf]; rfl
  | panic => rw [ir_low_panic k count h f]; rfl
  | err => exact absurd h (extractLowerBits_ne_err k count)

end LowRun


/-! ## extractHigherBits -/

theorem mul_i64_nat {a b : Nat} (h : a * b < 2 ^ 63) :
    evalOp2 (.mul .i64) (a : Int) (b : Int) = some (((a * b : Nat) : Nat) : Int) := by
  simp only [evalOp2]
  rw [← Int.natCast_mul, norm_i64_small (by omega) (by omega)]

theorem add_i64_nat {a b : Nat} (h : a + b < 2 ^ 63) :
    evalOp2 (.add .i64) (a : Int) (b : Int) = some (((a + b : Nat) : Nat) : Int) := by
  simp only [evalOp2]
  rw [← Int.natCast_add, norm_i64_small (by omega) (by omega)]

theorem succ_i64_nat {a : Nat} (h : a + 1 < 2 ^ 63) :
    evalOp2 (.add .i64) (a : Int) 1 = some (((a + 1 : Nat) : Nat) : Int) :=
  add_i64_nat (b := 1) h

/-- `bit << i` on a byte: bits above 8 are shifted out -/
theorem shl_u8_nat (b i : Nat) :
    evalOp2 (.shl .u8) (b : Int) (i : Int) = some (((b * 2 ^ i % 256 : Nat) : Nat) : Int) := by
  have h : ¬ ((i : Int) < 0) := by omega
  simp only [evalOp2, h, if_false, Int.toNat_natCast, norm]
  rw [← Int.natCast_mul]
  rfl

theorem or_u8_nat {a b : Nat} (ha : a < 256) (hb : b < 256) :
    evalOp2 (.or .u8) (a : Int) (b : Int) = some (((a ||| b : Nat) : Nat) : Int) := by
  simp only [evalOp2, pat_u8_nat ha, pat_u8_nat hb]
  rw [norm_u8_small]
  exact Nat.or_lt_two_pow (n := 8) ha hb

/-- the byte update of the IR is the update of the model -/
theorem or_shl_byte {bits : Nat} (bit i : Nat) (hb : bits < 256) :
    bits ||| (bit * 2 ^ i % 256) = (bits ||| (bit <<< i)) % 256 := by
  rw [Nat.shiftLeft_eq, show (256 : Nat) = 2 ^ 8 from rfl, Nat.or_mod_two_pow, Nat.mod_eq_of_lt hb]

/-- one iteration of the model -/
def stepF (k : Bytes) (idx stepSize : Nat) (bits i : Nat) : Outcome Nat := do
  let bit ← Model.Curve.extractBit k (i * stepSize + idx)
  pure ((bits ||| (bit <<< i)) % 256)

/-- the model's fold from iteration `i`, `n` iterations to go, accumulator `bits` -/
def hbFrom (k : Bytes) (idx stepSize : Nat) (i n bits : Nat) : Outcome Nat :=
  (List.range' i n).foldlM (stepF k idx stepSize) bits

theorem extractHigherBits_eq (k : Bytes) (idx window stepSize : Nat) :
    Model.Curve.extractHigherBits k idx window stepSize = hbFrom k idx stepSize 0 window 0 := by
  unfold Model.Curve.extractHigherBits hbFrom
  rw [List.range_eq_range']
  rfl

theorem hbFrom_zero (k : Bytes) (idx stepSize i bits : Nat) : hbFrom k idx stepSize i 0 bits = .ok bits := rfl

theorem hbFrom_succ_ok {k : Bytes} {idx stepSize i bit : Nat} (n bits : Nat)
    (h : Model.Curve.extractBit k (i * stepSize + idx) = .ok bit) :
    hbFrom k idx stepSize i (n + 1) bits = hbFrom k idx stepSize (i + 1) n ((bits ||| (bit <<< i)) % 256) := by
  simp only [hbFrom, List.range'_succ, List.foldlM_cons, stepF, h, Outcome.bind_ok, Outcome.pure_eq]

theorem hbFrom_succ_panic {k : Bytes} {idx stepSize i : Nat} (n bits : Nat)
    (h : Model.Curve.extractBit k (i * stepSize + idx) = .panic) :
    hbFrom k idx stepSize i (n + 1) bits = .panic := by
  simp only [hbFrom, List.range'_succ, List.foldlM_cons, stepF, h, Outcome.bind_panic]

theorem hbFrom_ne_err (k : Bytes) (idx stepSize : Nat) :
    ∀ (n i bits : Nat), hbFrom k idx stepSize i n bits ≠ .err := by
  intro n
  induction n with
  | zero => intro i bits; simp [hbFrom_zero]
  | succ n ih =>
    intro i bits
    cases hb : Model.Curve.extractBit k (i * stepSize + idx) with
    | ok bit => rw [hbFrom_succ_ok n bits hb]; exact ih _ _
    | panic => rw [hbFrom_succ_panic n bits hb]; simp
    | err => exact absurd hb (extractBit_ne_err _ _)

def hCondE : Expr := .op2 .lt (.var 6) (.var 2)
def hBodyS : Stmt := seqs [.call [7] 2 [(.var 0), (.op2 (.add .i64) (.op2 (.mul .i64) (.var 6) (.var 3)) (.var 1))],
    .assign 5 [] (.op2 (.or .u8) (.var 5) (.op2 (.shl .u8) (.var 7) (.var 6)))]
def hPostS : Stmt := .assign 6 [] (.op2 (.add .i64) (.var 6) (.lit 1))
def hLoopS : Stmt := .loop hCondE hBodyS hPostS

theorem fn_3_body : fn_3.body =
    seqs [.assign 5 [] (.lit 0), .assign 6 [] (.lit 0), hLoopS, .ret [(.var 5)], .panic] := rfl

section High
variable {P : Prog} {G : Nat → Val} {X : Oracle}

/-- the state of the loop: the four parameters, the accumulator byte and the counter -/
structure HInv (env : Env) (k : Bytes) (idx window stepSize i bits : Nat) : Prop where
  h0 : env 0 = bytesV k
  h1 : env 1 = .int (idx : Int)
  h2 : env 2 = .int (window : Int)
  h3 : env 3 = .int (stepSize : Int)
  h5 : env 5 = .int (bits : Int)
  h6 : env 6 = .int (i : Int)

theorem hcond_true {env : Env} {i w : Nat} (h6 : env 6 = .int (i : Int)) (h2 : env 2 = .int (w : Int)) (h : i < w) :
    evalV G env hCondE = some (.int 1) := by
  have : (i : Int) < (w : Int) := by omega
  simp [hCondE, evalV_op2, evalV_var, h6, h2, evalOp2, ofBool, this]

theorem hcond_false {env : Env} {i w : Nat} (h6 : env 6 = .int (i : Int)) (h2 : env 2 = .int (w : Int)) (h : ¬ i < w) :
    evalV G env hCondE = some (.int 0) := by
  have : ¬ (i : Int) < (w : Int) := by omega
  simp [hCondE, evalV_op2, evalV_var, h6, h2, evalOp2, ofBool, this]

/-- the arguments of the call of extractBit in round `i` -/
theorem hargs {env : Env} {k : Bytes} {idx window stepSize i bits : Nat} (h : HInv env k idx window stepSize i bits)
    (ha : i * stepSize + idx < 2 ^ 63) :
    evalVs G env [(.var 0), (.op2 (.add .i64) (.op2 (.mul .i64) (.var 6) (.var 3)) (.var 1))]
      = some [bytesV k, .int ((i * stepSize + idx : Nat) : Int)] := by
  have hm : i * stepSize < 2 ^ 63 := by omega
  simp only [evalVs_cons, evalVs_nil, evalV_op2, evalV_var, h.h0, h.h1, h.h3, h.h6, mul_i64_nat hm, Option.map_some,
    add_i64_nat ha]

/-- the same without the bound: Go's `i*stepSize+idx` wraps around -/
theorem hargs_wrap {env : Env} {k : Bytes} {idx window stepSize i bits : Nat} (h : HInv env k idx window stepSize i bits) :
    evalVs G env [(.var 0), (.op2 (.add .i64) (.op2 (.mul .i64) (.var 6) (.var 3)) (.var 1))]
      = some [bytesV k, .int (norm .i64 ((i * stepSize + idx : Nat) : Int))] := by
  have e : norm .i64 (norm .i64 (((i * stepSize : Nat) : Nat) : Int) + (idx : Int))
      = norm .i64 ((i * stepSize + idx : Nat) : Int) := by
    simp only [norm]; omega
  simp only [evalVs_cons, evalVs_nil, evalV_op2, evalV_var, h.h0, h.h1, h.h3, h.h6, evalOp2, Option.map_some,
    ← Int.natCast_mul, e]

/-- extractBit on a wrapped-around index (`-2^63 ≤ v < -2^63+256`): `byteIdx = 31 - v>>3 ≥ 2^60` is beyond
    the end of every `k` of at most 2^60 bytes -/
theorem bit_body_stuck_wrap (k : Bytes) (v : Int) (hv1 : -9223372036854775808 ≤ v) (hv2 : v < -9223372036854775808 + 256)
    (hk : k.length ≤ 2 ^ 60) :
    Stuck P G X (Env.ofList [bytesV k, .int v]) fn_2.body := by
  have s3 : evalV G (Env.ofList [bytesV k, .int v]) (.op2 (.sub .i64) (.lit 31) (.op1 (.shrc 3) (.var 1)))
      = some (.int ((31 : Int) - v / 8)) := by
    have g1 : (Env.ofList [bytesV k, .int v]) 1 = .int v := rfl
    have e : v >>> 3 = v / 8 := Int.shiftRight_eq_div_pow v 3
    simp only [evalV_op2, evalV_op1, evalV_var, evalV_lit, g1, evalOp1, evalOp2, Option.map_some, e]
    rw [norm_i64_small (by omega) (by omega)]
  rw [fn_2_body]
  apply Stuck.seq_right (EvIn.assign s3)
  apply Stuck.seq_left
  apply Stuck.assign
  have g0 : ((Env.ofList [bytesV k, .int v]).set 3 (.int ((31 : Int) - v / 8))) 0 = bytesV k := rfl
  simp only [evalV_idx, evalV_var, g0, Env.set_same]
  have hn : ¬ ((31 : Int) - v / 8 < 0) := by omega
  simp only [bytesV, getIdx, hn, if_false]
  apply List.getElem?_eq_none
  rw [List.length_map]
  omega

/-- one round of the body: the call of extractBit succeeds with `bit` -/
theorem hbody_round (hP : P[f_internal_extractBit]? = some fn_2)
    {env : Env} {k : Bytes} {idx window stepSize i bits bit : Nat}
    (h : HInv env k idx window stepSize i bits) (ha : i * stepSize + idx < 2 ^ 63) (hbits : bits < 256)
    (hb : Model.Curve.extractBit k (i * stepSize + idx) = .ok bit) :
    ∃ env1, EvIn P G X (fuelBit + 3) env hBodyS env1 .norm ∧
      HInv env1 k idx window stepSize i ((bits ||| (bit <<< i)) % 256) := by
  obtain ⟨envc, hcall⟩ := bit_body_ok (P := P) (G := G) (X := X) k (i * stepSize + idx) bit hb
  let e1 := env.set 7 (.int (bit : Int))
  let e2 := e1.set 5 (.int (((bits ||| (bit <<< i)) % 256 : Nat) : Int))
  have hc : EvIn P G X (fuelBit + 1) env
      (.call [7] 2 [(.var 0), (.op2 (.add .i64) (.op2 (.mul .i64) (.var 6) (.var 3)) (.var 1))]) e1 .norm :=
    EvIn.call (hargs (G := G) h ha) hP rfl rfl hcall rfl
  have g5 : e1 5 = .int (bits : Int) := by simp [e1, Env.set, h.h5]
  have g6 : e1 6 = .int (i : Int) := by simp [e1, Env.set, h.h6]
  have g7 : e1 7 = .int (bit : Int) := by simp [e1]
  have hsh : bit * 2 ^ i % 256 < 256 := Nat.mod_lt _ (by decide)
  have s5 : evalV G e1 (.op2 (.or .u8) (.var 5) (.op2 (.shl .u8) (.var 7) (.var 6)))
      = some (.int (((bits ||| (bit <<< i)) % 256 : Nat) : Int)) := by
    simp only [evalV_op2, evalV_var, g5, g6, g7, shl_u8_nat, Option.map_some, or_u8_nat hbits hsh,
      or_shl_byte bit i hbits]
  refine ⟨e2, ?_, ?_⟩
  · exact (EvIn.seq hc (EvIn.assign s5)).mono (by simp only [fuelBit]; omega)
  · refine ⟨?_, ?_, ?_, ?_, ?_, ?_⟩
    · simp [e2, e1, Env.set, h.h0]
    · simp [e2, e1, Env.set, h.h1]
    · simp [e2, e1, Env.set, h.h2]
    · simp [e2, e1, Env.set, h.h3]
    · simp [e2]
    · simp [e2, e1, Env.set, h.h6]

theorem hpost_step {env : Env} {k : Bytes} {idx window stepSize i bits : Nat}
    (h : HInv env k idx window stepSize i bits) (hi : i + 1 < 2 ^ 63) :
    ∃ env2, EvIn P G X 1 env hPostS env2 .norm ∧ HInv env2 k idx window stepSize (i + 1) bits := by
  have s : evalV G env (.op2 (.add .i64) (.var 6) (.lit 1)) = some (.int ((i + 1 : Nat) : Int)) := by
    simp only [evalV_op2, evalV_var, evalV_lit, h.h6, succ_i64_nat hi, Option.map_some]
  refine ⟨env.set 6 (.int ((i + 1 : Nat) : Int)), EvIn.assign s, ?_, ?_, ?_, ?_, ?_, ?_⟩
  · simp [Env.set, h.h0]
  · simp [Env.set, h.h1]
  · simp [Env.set, h.h2]
  · simp [Env.set, h.h3]
  · simp [Env.set, h.h5]
  · simp [Env.set]

/-- fuel per round of the loop -/
def fuelRound : Nat := fuelBit + 5

/-- the loop computes the model's fold (induction on the number `n` of remaining iterations) -/
theorem hloop_ok (hP : P[f_internal_extractBit]? = some fn_2) (k : Bytes) (idx window stepSize : Nat)
    (hw : window < 2 ^ 63) :
    ∀ (n i : Nat) (env : Env) (bits r : Nat),
    HInv env k idx window stepSize i bits → i + n = window → bits < 256 →
    hbFrom k idx stepSize i n bits = .ok r →
    ∃ env', EvIn P G X (fuelRound * n + 1) env hLoopS env' .norm ∧ env' 5 = .int (r : Int) := by
  intro n
  induction n with
  | zero =>
    intro i env bits r h hin _ hm
    rw [hbFrom_zero] at hm
    simp only [Outcome.ok.injEq] at hm
    subst hm
    exact ⟨env, EvIn.loop_exit (hcond_false h.h6 h.h2 (by omega)) rfl, h.h5⟩
  | succ n ih =>
    intro i env bits r h hin hbits hm
    cases hb : Model.Curve.extractBit k (i * stepSize + idx) with
    | err => exact absurd hb (extractBit_ne_err _ _)
    | panic => rw [hbFrom_succ_panic n bits hb] at hm; cases hm
    | ok bit =>
      rw [hbFrom_succ_ok n bits hb] at hm
      -- a successful call has a bit index below 256: no wrap-around
      have hbd := (extractBit_ok_bound hb).1
      obtain ⟨env1, hbody, hinv1⟩ := hbody_round (P := P) (G := G) (X := X) hP h (by omega) hbits hb
      obtain ⟨env2, hpost, hinv2⟩ := hpost_step (P := P) (G := G) (X := X) hinv1 (by omega)
      obtain ⟨env', hl, h5⟩ := ih (i + 1) env2 _ r hinv2 (by omega) (Nat.mod_lt _ (by decide)) hm
      refine ⟨env', ?_, h5⟩
      exact (EvIn.loop_round (hcond_true h.h6 h.h2 (by omega)) rfl hbody (Or.inl rfl) hpost hl).mono
        (by simp only [fuelRound, fuelBit]; omega)

/-- a panic of the model (some call of extractBit panics) is a stuck run -/
theorem hloop_stuck (hP : P[f_internal_extractBit]? = some fn_2) (k : Bytes) (idx window stepSize : Nat)
    (hw : window < 2 ^ 63) (hs : stepSize < 2 ^ 63) (hk : stepSize + 256 ≤ 2 ^ 63 ∨ k.length ≤ 2 ^ 60) :
    ∀ (n i : Nat) (env : Env) (bits : Nat),
    HInv env k idx window stepSize i bits → i + n = window → bits < 256 →
    (i * stepSize + idx < 2 ^ 63 ∨ i * stepSize + idx < 256 + stepSize) →
    hbFrom k idx stepSize i n bits = .panic → Stuck P G X env hLoopS := by
  intro n
  induction n with
  | zero =>
    intro i env bits h _ _ _ hm
    rw [hbFrom_zero] at hm; cases hm
  | succ n ih =>
    intro i env bits h hin hbits ha hm
    have hc := hcond_true (G := G) h.h6 h.h2 (by omega : i < window)
    cases hb : Model.Curve.extractBit k (i * stepSize + idx) with
    | err => exact absurd hb (extractBit_ne_err _ _)
    | panic =>
      apply Stuck.loop_body hc rfl
      apply Stuck.seq_left
      by_cases hsm : i * stepSize + idx < 2 ^ 63
      · exact Stuck.call (hargs (G := G) h hsm) hP (bit_body_stuck k _ hsm hb)
      · -- Go's index has wrapped around to a negative number: beyond the end of `k`
        have hkl : k.length ≤ 2 ^ 60 := by omega
        have hargs' := hargs_wrap (G := G) h
        have e : norm .i64 ((i * stepSize + idx : Nat) : Int)
            = ((i * stepSize + idx : Nat) : Int) - 18446744073709551616 := by
          simp only [norm]; omega
        rw [e] at hargs'
        exact Stuck.call hargs' hP (bit_body_stuck_wrap k _ (by omega) (by omega) hkl)
    | ok bit =>
      rw [hbFrom_succ_ok n bits hb] at hm
      have hbd := (extractBit_ok_bound hb).1
      obtain ⟨env1, hbody, hinv1⟩ := hbody_round (P := P) (G := G) (X := X) hP h (by omega) hbits hb
      obtain ⟨env2, hpost, hinv2⟩ := hpost_step (P := P) (G := G) (X := X) hinv1 (by omega)
      have ha' : (i + 1) * stepSize + idx < 2 ^ 63 ∨ (i + 1) * stepSize + idx < 256 + stepSize := by
        rw [Nat.add_mul, Nat.one_mul]; omega
      exact Stuck.loop_round hc rfl hbody (Or.inl rfl) hpost
        (ih (i + 1) env2 _ hinv2 (by omega) (Nat.mod_lt _ (by decide)) ha' hm)

/-- the state before the loop -/
def hEnvPre (k : Bytes) (idx window stepSize : Nat) : Env :=
  ((Env.ofList [bytesV k, .int idx, .int window, .int stepSize]).set 5 (.int 0)).set 6 (.int 0)

theorem hEnvPre_inv (k : Bytes) (idx window stepSize : Nat) :
    HInv (hEnvPre k idx window stepSize) k idx window stepSize 0 0 :=
  ⟨rfl, rfl, rfl, rfl, rfl, rfl⟩

/-- fuel that suffices for the body of extractHigherBits -/
def fuelHigh (window : Nat) : Nat := fuelRound * window + 8

/-- body level (for callers): the model returns `r` ⇒ the body of the IR function returns `r`, in any
    program whose function 2 is extractBit.  Only `window` has to be a Go `int`: when the model succeeds,
    every bit index `i*stepSize+idx` is below 256. -/
theorem high_body_ok (hP : P[f_internal_extractBit]? = some fn_2) (k : Bytes) (idx window stepSize : Nat)
    (hw : window < 2 ^ 63) (r : Nat)
    (h : Model.Curve.extractHigherBits k idx window stepSize = .ok r) :
    ∃ env', EvIn P G X (fuelHigh window) (Env.ofList [bytesV k, .int idx, .int window, .int stepSize])
      fn_3.body env' (.ret [.int r]) := by
  rw [extractHigherBits_eq] at h
  obtain ⟨env1, hloop, h5⟩ := hloop_ok (P := P) (G := G) (X := X) hP k idx window stepSize hw window 0
    (hEnvPre k idx window stepSize) 0 r (hEnvPre_inv k idx window stepSize) (by omega) (by decide) h
  have sr : evalVs G env1 [(.var 5)] = some [.int (r : Int)] := by
    simp only [evalVs_cons, evalVs_nil, evalV_var, h5]
  refine ⟨env1, ?_⟩
  rw [fn_3_body]
  exact (EvIn.seq (EvIn.assign rfl) (EvIn.seq (EvIn.assign rfl)
    (EvIn.seq hloop (EvIn.seq_stop (EvIn.ret sr) (by simp))))).mono (by simp only [fuelHigh]; omega)

/-- body level: the model panics ⇒ the IR is stuck.  The arguments are non-negative Go `int`s, and either
    `stepSize ≤ 2^63 - 256` (no wrap-around of `i*stepSize+idx` before a call fails) or `k` has at most
    2^60 bytes (a wrapped-around index is out of range): see `ir_extractHigherBits_eq_model`. -/
theorem high_body_stuck (hP : P[f_internal_extractBit]? = some fn_2) (k : Bytes) (idx window stepSize : Nat)
    (hidx : idx < 2 ^ 63) (hw : window < 2 ^ 63) (hs : stepSize < 2 ^ 63)
    (hk : stepSize + 256 ≤ 2 ^ 63 ∨ k.length ≤ 2 ^ 60)
    (h : Model.Curve.extractHigherBits k idx window stepSize = .panic) :
    Stuck P G X (Env.ofList [bytesV k, .int idx, .int window, .int stepSize]) fn_3.body := by
  rw [extractHigherBits_eq] at h
  have hloop := hloop_stuck (P := P) (G := G) (X := X) hP k idx window stepSize hw hs hk window 0
    (hEnvPre k idx window stepSize) 0 (hEnvPre_inv k idx window stepSize) (by omega) (by decide)
    (Or.inl (by omega)) h
  rw [fn_3_body]
  exact Stuck.seq_right (EvIn.assign rfl) (Stuck.seq_right (EvIn.assign rfl) (Stuck.seq_left hloop))

end High

theorem fn3_lookup : prog[f_internal_extractHigherBits]? = some fn_3 := rfl

section HighRun
variable {G : Nat → Val} {X : Oracle}

theorem ir_high_ok (k : Bytes) (idx window stepSize : Nat) (hw : window < 2 ^ 63) (r : Nat)
    (h : Model.Curve.extractHigherBits k idx window stepSize = .ok r) :
    ∀ f, fuelHigh window + 1 ≤ f →
      runV prog G X f f_internal_extractHigherBits [bytesV k, .int idx, .int window, .int stepSize] = .ret [.int r] := by
  obtain ⟨env', hb⟩ := high_body_ok (P := prog) (G := G) (X := X) fn2_lookup k idx window stepSize hw r h
  intro f hf
  exact runV_of_EvIn fn3_lookup rfl rfl hb f (by omega)

theorem ir_high_panic (k : Bytes) (idx window stepSize : Nat)
    (hidx : idx < 2 ^ 63) (hw : window < 2 ^ 63) (hs : stepSize < 2 ^ 63)
    (hk : stepSize + 256 ≤ 2 ^ 63 ∨ k.length ≤ 2 ^ 60)
    (h : Model.Curve.extractHigherBits k idx window stepSize = .panic) :
    ∀ f, runV prog G X f f_internal_extractHigherBits [bytesV k, .int idx, .int window, .int stepSize] = .stuck :=
  runV_of_Stuck fn3_lookup (high_body_stuck (P := prog) (G := G) (X := X) fn2_lookup k idx window stepSize hidx hw hs hk h)

/-- extractHigherBits: the run of the generated IR IS the model, for all non-negative Go `int`s `idx`,
    `window` (no bound `window ≤ 8`: `bit << i` on a byte is 0 for `i ≥ 8` on both sides), `stepSize`, and
    every byte string `k` of at most 2^60 bytes (any `k` if `stepSize ≤ 2^63 - 256`).

    DISAGREEMENT excluded by `hk`: the model computes `i*stepSize+idx` in the natural numbers, Go (and the
    IR) wrap around at 2^63.  Input: `idx = 255`, `window = 2`, `stepSize = 2^63 - 255`, `k` of 2^60 + 32
    bytes.  Both sides read bit 255 in round 0; in round 1 the model calls `extractBit k 2^63` and panics
    (`31 < idx/8`), while in Go `1*stepSize+idx` is `-2^63`, `byteIdx = 31 - (-2^63)>>3 = 2^60 + 31` is in
    range and the function returns a byte.  Such a slice cannot exist in a Go process; for every `k` of at
    most 2^60 bytes the wrapped index is out of range and both sides panic (`bit_body_stuck_wrap`). -/
theorem ir_extractHigherBits_eq_model (k : Bytes) (idx window stepSize : Nat)
    (hidx : idx < 2 ^ 63) (hw : window < 2 ^ 63) (hs : stepSize < 2 ^ 63)
    (hk : stepSize + 256 ≤ 2 ^ 63 ∨ k.length ≤ 2 ^ 60)
    (f : Nat) (hf : fuelHigh window + 1 ≤ f) :
    outcomeInt (runV prog G X f f_internal_extractHigherBits [bytesV k, .int idx, .int window, .int stepSize])
      = natOut (Model.Curve.extractHigherBits k idx window stepSize) := by
  cases h : Model.Curve.extractHigherBits k idx window stepSize with
  | ok r => rw [ir_high_ok k idx window stepSize hw r h f hf]; rfl
  | panic => rw [ir_high_panic k idx window stepSize hidx hw hs hk h f]; rfl
  | err => rw [extractHigherBits_eq] at h; exact absurd h (hbFrom_ne_err _ _ _ _ _ _)

end HighRun


/-! ## TestPrivateKey (sm2.go) -/

/-- a declassification is, for the values, an assignment of an integer -/
theorem evIn_declass {P : Prog} {G : Nat → Val} {X : Oracle} {env : Env} {x site : Nat} {e : Expr} {n : Int}
    (he : evalV G env e = some (.int n)) :
    EvIn P G X 1 env (.declass x site e) (env.set x (.int n)) .norm := by
  intro f hf; obtain ⟨f, rfl⟩ := Nat.exists_eq_add_of_le' hf
  rw [execV_declass, he]

theorem testPrivateKey_eq {α β : Type} (C : Model.SM2.Ctx α β) (priv : Bytes) : Model.SM2.testPrivateKey C priv =
    if (priv.length : Int) - 32 > 0 then .ok ((priv.length : Int) - 32) else
    if priv.all (· == 0) then .ok (-1) else
    if (priv.length : Int) - 32 < 0 then .ok 0 else
      (Model.Utils.constantTimeCmp (some priv) (some (Model.SM2.nMinus1Bytes C)) 32 >>= fun cmp =>
        if cmp = -1 then .ok 0 else .ok (-1)) := rfl

theorem constantTimeCmp_ne_err (a b : Bytes) (l : Int) : Model.Utils.constantTimeCmp (some a) (some b) l ≠ .err := by
  intro h
  rw [cmp_unfold] at h
  cases hm : Model.Utils.cmpLoop a b l.toNat 0 0 with
  | err => exact absurd hm (cmpLoop_ne_err a b _ _ _)
  | panic => rw [hm] at h; cases h
  | ok p => rw [hm] at h; cases h

def tCondE : Expr := .op2 .lt (.var 5) (.var 4)
def tBodyS : Stmt := seqs [.assign 6 [] (.idx (.var 0) (.var 5)), .assign 3 [] (.op2 (.or .u8) (.var 3) (.var 6))]
def tPostS : Stmt := .assign 5 [] (.op2 (.add .i64) (.var 5) (.lit 1))
def tLoopS : Stmt := .loop tCondE tBodyS tPostS
/-- from the call of ConstantTimeCmp on -/
def tRestD : Stmt := seqs [.call [8] 0 [(.var 0), (.glob 5), (.lit 32)],
    .assign 9 [] (.var 8),
    .declass 10 1 (.op2 .eq (.var 9) (.lit (-1))),
    .ite (.var 10) (.ret [(.lit 0)]) .skip,
    .ret [(.lit (-1))],
    .panic]
/-- after the loop -/
def tTailS : Stmt := seqs [.declass 7 0 (.op2 .eq (.var 3) (.lit 0)),
    .ite (.var 7) (.ret [(.lit (-1))]) .skip,
    .ite (.op2 .lt (.var 2) (.lit 0)) (.ret [(.lit 0)]) .skip,
    tRestD]

theorem fn_1_body : fn_1.body =
    seqs [.assign 2 [] (.op2 (.sub .i64) (.len (.var 0)) (.lit 32)),
      .ite (.op2 .gt (.var 2) (.lit 0)) (.ret [(.var 2)]) .skip,
      .assign 3 [] (.lit 0), .assign 4 [] (.len (.var 0)), .assign 5 [] (.lit 0),
      tLoopS, tTailS] := rfl

theorem globalNames_5 : globalNames[5]? = some "sm2.nMinus1Bytes" := rfl

section Test
variable {P : Prog} {G : Nat → Val} {X : Oracle}

/-- the state of the accumulation loop -/
structure TInv (env : Env) (priv : Bytes) (l : Int) (j acc : Nat) : Prop where
  h0 : env 0 = bytesV priv
  h2 : env 2 = .int l
  h4 : env 4 = .int (priv.length : Int)
  h5 : env 5 = .int (j : Int)
  h3 : env 3 = .int (acc : Int)

theorem tcond_true {env : Env} {j w : Nat} (h5 : env 5 = .int (j : Int)) (h4 : env 4 = .int (w : Int)) (h : j < w) :
    evalV G env tCondE = some (.int 1) := by
  have : (j : Int) < (w : Int) := by omega
  simp [tCondE, evalV_op2, evalV_var, h5, h4, evalOp2, ofBool, this]

theorem tcond_false {env : Env} {j w : Nat} (h5 : env 5 = .int (j : Int)) (h4 : env 4 = .int (w : Int)) (h : ¬ j < w) :
    evalV G env tCondE = some (.int 0) := by
  have : ¬ (j : Int) < (w : Int) := by omega
  simp [tCondE, evalV_op2, evalV_var, h5, h4, evalOp2, ofBool, this]

theorem all_take_succ (priv : Bytes) (j : Nat) (x : UInt8) (hx : priv[j]? = some x) (acc : Nat)
    (h : acc = 0 ↔ (priv.take j).all (· == 0) = true) :
    (acc ||| x.toNat = 0 ↔ (priv.take (j + 1)).all (· == 0) = true) := by
  rw [List.take_add_one, hx, List.all_append, Nat.or_eq_zero_iff, Bool.and_eq_true, ← h]
  have : x.toNat = 0 ↔ x = 0 := by
    constructor
    · intro h0; exact UInt8.toNat_inj.mp (by rw [h0]; rfl)
    · intro h0; rw [h0]; rfl
  simp [this]

/-- the loop `for _, b := range priv { acc |= b }`: never stuck; afterwards `acc = 0` iff all bytes are 0 -/
theorem tloop_ok (priv : Bytes) (l : Int) (hlen : priv.length < 2 ^ 63) :
    ∀ (n j : Nat) (env : Env) (acc : Nat), TInv env priv l j acc → j + n = priv.length → acc < 256 →
    (acc = 0 ↔ (priv.take j).all (· == 0) = true) →
    ∃ env' acc', EvIn P G X (5 * n + 1) env tLoopS env' .norm ∧ TInv env' priv l priv.length acc' ∧
      (acc' = 0 ↔ priv.all (· == 0) = true) := by
  intro n
  induction n with
  | zero =>
    intro j env acc h hj _ hiff
    have hjl : j = priv.length := by omega
    subst hjl
    rw [List.take_length] at hiff
    exact ⟨env, acc, EvIn.loop_exit (tcond_false h.h5 h.h4 (by omega)) rfl, h, hiff⟩
  | succ n ih =>
    intro j env acc h hj hacc hiff
    have hjl : j < priv.length := by omega
    have hx : priv[j]? = some priv[j] := List.getElem?_eq_getElem hjl
    generalize priv[j] = x at hx
    have hxl : x.toNat < 256 := x.toNat_lt
    let e1 := env.set 6 (.int ((x.toNat : Nat) : Int))
    let e2 := e1.set 3 (.int ((acc ||| x.toNat : Nat) : Int))
    let e3 := e2.set 5 (.int ((j + 1 : Nat) : Int))
    have s6 : evalV G env (.idx (.var 0) (.var 5)) = some (.int ((x.toNat : Nat) : Int)) := by
      simp only [evalV_idx, evalV_var, h.h0, h.h5, bytesV, bytesV_getIdx, hx, Option.map_some]
      rfl
    have g3 : e1 3 = .int (acc : Int) := by simp [e1, Env.set, h.h3]
    have g6 : e1 6 = .int ((x.toNat : Nat) : Int) := by simp [e1]
    have s3 : evalV G e1 (.op2 (.or .u8) (.var 3) (.var 6)) = some (.int ((acc ||| x.toNat : Nat) : Int)) := by
      simp only [evalV_op2, evalV_var, g3, g6, or_u8_nat hacc hxl, Option.map_some]
    have g5 : e2 5 = .int (j : Int) := by simp [e2, e1, Env.set, h.h5]
    have s5 : evalV G e2 (.op2 (.add .i64) (.var 5) (.lit 1)) = some (.int ((j + 1 : Nat) : Int)) := by
      simp only [evalV_op2, evalV_var, evalV_lit, g5, succ_i64_nat (by omega : j + 1 < 2 ^ 63), Option.map_some]
    have hinv : TInv e3 priv l (j + 1) (acc ||| x.toNat) := by
      refine ⟨?_, ?_, ?_, ?_, ?_⟩
      · simp [e3, e2, e1, Env.set, h.h0]
      · simp [e3, e2, e1, Env.set, h.h2]
      · simp [e3, e2, e1, Env.set, h.h4]
      · simp [e3]
      · simp [e3, e2, Env.set]
    obtain ⟨env', acc', hl, hinv', hiff'⟩ := ih (j + 1) e3 (acc ||| x.toNat) hinv (by omega)
      (Nat.or_lt_two_pow (n := 8) hacc hxl) (all_take_succ priv j x hx acc hiff)
    refine ⟨env', acc', ?_, hinv', hiff'⟩
    have hbody : EvIn P G X 3 env tBodyS e2 .norm := EvIn.seq (EvIn.assign s6) (EvIn.assign s3)
    have hpost : EvIn P G X 1 e2 tPostS e3 .norm := EvIn.assign s5
    exact (EvIn.loop_round (tcond_true h.h5 h.h4 hjl) rfl hbody (Or.inl rfl) hpost hl).mono (by omega)

theorem tdeclass7 {env : Env} {acc : Nat} (h3 : env 3 = .int (acc : Int)) :
    evalV G env (.op2 .eq (.var 3) (.lit 0)) = some (.int (if acc = 0 then 1 else 0)) := by
  by_cases h : acc = 0
  · subst h; simp [evalV_op2, evalV_var, h3, evalOp2, ofBool]
  · simp [evalV_op2, evalV_var, h3, evalOp2, ofBool, h]

/-- all bytes zero: `return -1` -/
theorem ttail_zero {env : Env} {priv : Bytes} {l : Int} {j : Nat} (h : TInv env priv l j 0) :
    ∃ env', EvIn P G X 5 env tTailS env' (.ret [.int (-1)]) := by
  have s7 := tdeclass7 (G := G) h.h3
  have hc : evalV G (env.set 7 (.int 1)) (.var 7) = some (.int 1) := by simp
  exact ⟨_, EvIn.seq (evIn_declass s7) (EvIn.seq_stop (EvIn.ite hc rfl (EvIn.ret rfl)) (by simp))⟩

/-- not all zero, shorter than 32 bytes: `return 0` -/
theorem ttail_short {env : Env} {priv : Bytes} {l : Int} {j acc : Nat} (h : TInv env priv l j acc)
    (hacc : acc ≠ 0) (hl : l < 0) :
    ∃ env', EvIn P G X 8 env tTailS env' (.ret [.int 0]) := by
  have s7 := tdeclass7 (G := G) h.h3
  rw [if_neg hacc] at s7
  have hc : evalV G (env.set 7 (.int 0)) (.var 7) = some (.int 0) := by simp
  have hc2 : evalV G (env.set 7 (.int 0)) (.op2 .lt (.var 2) (.lit 0)) = some (.int 1) := by
    have g2 : (env.set 7 (.int 0)) 2 = .int l := by simp [Env.set, h.h2]
    simp [evalV_op2, evalV_var, g2, evalOp2, ofBool, hl]
  exact ⟨_, EvIn.seq (evIn_declass s7) (EvIn.seq (EvIn.ite hc rfl (EvIn.skip _))
    (EvIn.seq_stop (EvIn.ite hc2 rfl (EvIn.ret rfl)) (by simp)))⟩

/-- not all zero, 32 bytes: on to the comparison -/
theorem ttail_cmp {env : Env} {priv : Bytes} {l : Int} {j acc : Nat} (h : TInv env priv l j acc)
    (hacc : acc ≠ 0) (hl : ¬ l < 0) {env' : Env} {c : Ctl} {F : Nat}
    (hr : EvIn P G X F (env.set 7 (.int 0)) tRestD env' c) :
    EvIn P G X (F + 8) env tTailS env' c := by
  have s7 := tdeclass7 (G := G) h.h3
  rw [if_neg hacc] at s7
  have hc : evalV G (env.set 7 (.int 0)) (.var 7) = some (.int 0) := by simp
  have hc2 : evalV G (env.set 7 (.int 0)) (.op2 .lt (.var 2) (.lit 0)) = some (.int 0) := by
    have g2 : (env.set 7 (.int 0)) 2 = .int l := by simp [Env.set, h.h2]
    simp [evalV_op2, evalV_var, g2, evalOp2, ofBool, hl]
  exact (EvIn.seq (evIn_declass s7) (EvIn.seq (EvIn.ite hc rfl (EvIn.skip _))
    (EvIn.seq (EvIn.ite hc2 rfl (EvIn.skip _)) hr))).mono (by omega)

theorem ttail_cmp_stuck {env : Env} {priv : Bytes} {l : Int} {j acc : Nat} (h : TInv env priv l j acc)
    (hacc : acc ≠ 0) (hl : ¬ l < 0) (hr : Stuck P G X (env.set 7 (.int 0)) tRestD) :
    Stuck P G X env tTailS := by
  have s7 := tdeclass7 (G := G) h.h3
  rw [if_neg hacc] at s7
  have hc : evalV G (env.set 7 (.int 0)) (.var 7) = some (.int 0) := by simp
  have hc2 : evalV G (env.set 7 (.int 0)) (.op2 .lt (.var 2) (.lit 0)) = some (.int 0) := by
    have g2 : (env.set 7 (.int 0)) 2 = .int l := by simp [Env.set, h.h2]
    simp [evalV_op2, evalV_var, g2, evalOp2, ofBool, hl]
  exact Stuck.seq_right (evIn_declass s7) (Stuck.seq_right (EvIn.ite hc rfl (EvIn.skip _))
    (Stuck.seq_right (EvIn.ite hc2 rfl (EvIn.skip _)) hr))

theorem targs {env : Env} {priv nm1 : Bytes} (h0 : env 0 = bytesV priv) (hG : G 5 = bytesV nm1) :
    evalVs G env [(.var 0), (.glob 5), (.lit 32)] = some [bytesV priv, bytesV nm1, .int 32] := by
  simp only [evalVs_cons, evalVs_nil, evalV_var, evalV_glob, evalV_lit, h0, hG]

/-- the comparison with n-1 and the verdict -/
theorem trest_ok (hP : P[f_utils_ConstantTimeCmp]? = some fn_0) {env : Env} {priv nm1 : Bytes}
    (h0 : env 0 = bytesV priv) (hG : G 5 = bytesV nm1) (r : Int)
    (hm : Model.Utils.constantTimeCmp (some priv) (some nm1) 32 = .ok r) :
    ∃ env', EvIn P G X (fuelCmp 32 + 12) env tRestD env' (.ret [.int (if r = -1 then 0 else -1)]) := by
  obtain ⟨envc, hcall⟩ := cmp_body_ok (P := P) (G := G) (X := X) priv nm1 32 (by decide) (by decide) r hm
  let e1 := env.set 8 (.int r)
  let e2 := e1.set 9 (.int r)
  have hc : EvIn P G X (fuelCmp 32 - 1 + 1) env (.call [8] 0 [(.var 0), (.glob 5), (.lit 32)]) e1 .norm :=
    EvIn.call (targs h0 hG) hP rfl rfl hcall rfl
  have s9 : evalV G e1 (.var 8) = some (.int r) := by simp [e1]
  have g9 : e2 9 = .int r := by simp [e2]
  by_cases hr : r = -1
  · have s10 : evalV G e2 (.op2 .eq (.var 9) (.lit (-1))) = some (.int 1) := by
      simp [evalV_op2, evalV_var, g9, evalOp2, ofBool, hr]
    have hv : evalV G (e2.set 10 (.int 1)) (.var 10) = some (.int 1) := by simp
    rw [if_pos hr]
    exact ⟨_, (EvIn.seq hc (EvIn.seq (EvIn.assign s9) (EvIn.seq (evIn_declass s10)
      (EvIn.seq_stop (EvIn.ite hv rfl (EvIn.ret rfl)) (by simp))))).mono (by simp only [fuelCmp]; omega)⟩
  · have s10 : evalV G e2 (.op2 .eq (.var 9) (.lit (-1))) = some (.int 0) := by
      simp [evalV_op2, evalV_var, g9, evalOp2, ofBool, hr]
    have hv : evalV G (e2.set 10 (.int 0)) (.var 10) = some (.int 0) := by simp
    rw [if_neg hr]
    exact ⟨_, (EvIn.seq hc (EvIn.seq (EvIn.assign s9) (EvIn.seq (evIn_declass s10)
      (EvIn.seq (EvIn.ite hv rfl (EvIn.skip _)) (EvIn.seq_stop (EvIn.ret rfl) (by simp)))))).mono
        (by simp only [fuelCmp]; omega)⟩

theorem trest_stuck (hP : P[f_utils_ConstantTimeCmp]? = some fn_0) {env : Env} {priv nm1 : Bytes}
    (h0 : env 0 = bytesV priv) (hG : G 5 = bytesV nm1)
    (hm : Model.Utils.constantTimeCmp (some priv) (some nm1) 32 = .panic) :
    Stuck P G X env tRestD :=
  Stuck.seq_left (Stuck.call (targs h0 hG) hP (cmp_body_stuck priv nm1 32 (by decide) (by decide) hm))

/-- the statements before the loop when `len(priv) ≤ 32` -/
theorem tprologue {env : Env} {priv : Bytes} (h0 : env 0 = bytesV priv) (hlen : priv.length ≤ 32) :
    ∃ env5, TInv env5 priv ((priv.length : Int) - 32) 0 0 ∧
      (∀ {rest : Stmt} {env' : Env} {c : Ctl} {F : Nat}, EvIn P G X F env5 rest env' c →
        EvIn P G X (F + 12) env (seqs [.assign 2 [] (.op2 (.sub .i64) (.len (.var 0)) (.lit 32)),
          .ite (.op2 .gt (.var 2) (.lit 0)) (.ret [(.var 2)]) .skip,
          .assign 3 [] (.lit 0), .assign 4 [] (.len (.var 0)), .assign 5 [] (.lit 0), rest]) env' c) ∧
      (∀ {rest : Stmt}, Stuck P G X env5 rest →
        Stuck P G X env (seqs [.assign 2 [] (.op2 (.sub .i64) (.len (.var 0)) (.lit 32)),
          .ite (.op2 .gt (.var 2) (.lit 0)) (.ret [(.var 2)]) .skip,
          .assign 3 [] (.lit 0), .assign 4 [] (.len (.var 0)), .assign 5 [] (.lit 0), rest])) := by
  let l : Int := (priv.length : Int) - 32
  let e1 := env.set 2 (.int l)
  let e2 := e1.set 3 (.int 0)
  let e3 := e2.set 4 (.int (priv.length : Int))
  let e4 := e3.set 5 (.int 0)
  have s2 : evalV G env (.op2 (.sub .i64) (.len (.var 0)) (.lit 32)) = some (.int l) := by
    simp only [evalV_op2, evalV_len, evalV_var, evalV_lit, h0, bytesV, List.length_map, evalOp2, Option.map_some]
    rw [norm_i64_small (by omega) (by omega)]
  have hc : evalV G e1 (.op2 .gt (.var 2) (.lit 0)) = some (.int 0) := by
    have g2 : e1 2 = .int l := by simp [e1]
    have : ¬ (0 : Int) < l := by omega
    simp [evalV_op2, evalV_var, g2, evalOp2, ofBool, this]
  have s4 : evalV G e2 (.len (.var 0)) = some (.int (priv.length : Int)) := by
    have g0 : e2 0 = bytesV priv := by simp [e2, e1, Env.set, h0]
    simp only [evalV_len, evalV_var, g0, bytesV, List.length_map]
  refine ⟨e4, ⟨?_, ?_, ?_, ?_, ?_⟩, ?_, ?_⟩
  · simp [e4, e3, e2, e1, Env.set, h0]
  · simp [e4, e3, e2, e1, Env.set, l]
  · simp [e4, e3, Env.set]
  · simp [e4]
  · simp [e4, e3, e2, Env.set]
  · intro rest env' c F hr
    exact (EvIn.seq (EvIn.assign s2) (EvIn.seq (EvIn.ite hc rfl (EvIn.skip _)) (EvIn.seq (EvIn.assign rfl)
      (EvIn.seq (EvIn.assign s4) (EvIn.seq (EvIn.assign rfl) hr))))).mono (by omega)
  · intro rest hr
    exact Stuck.seq_right (EvIn.assign s2) (Stuck.seq_right (EvIn.ite hc rfl (EvIn.skip _))
      (Stuck.seq_right (EvIn.assign rfl) (Stuck.seq_right (EvIn.assign s4) (Stuck.seq_right (EvIn.assign rfl) hr))))

/-- fuel that suffices for the body of TestPrivateKey (the loop runs only for `len(priv) ≤ 32`) -/
def fuelTest : Nat := 5 * 32 + fuelCmp 32 + 40

variable {α β : Type}

/-- body level: the model returns `r` ⇒ the body of the IR function returns `r`, in any program whose
    function 0 is ConstantTimeCmp and for any globals with `sm2.nMinus1Bytes` (global 5) as in the model's
    context.  `priv` is any non-nil byte string (`len < 2^63`). -/
theorem test_body_ok (hP : P[f_utils_ConstantTimeCmp]? = some fn_0) (C : Model.SM2.Ctx α β)
    (hG : G 5 = bytesV (Model.SM2.nMinus1Bytes C)) (priv : Bytes) (hlen : priv.length < 2 ^ 63) (r : Int)
    (h : Model.SM2.testPrivateKey C priv = .ok r) :
    ∃ env', EvIn P G X fuelTest (Env.ofList [bytesV priv]) fn_1.body env' (.ret [.int r]) := by
  have h0 : (Env.ofList [bytesV priv]) 0 = bytesV priv := rfl
  generalize Env.ofList [bytesV priv] = env at h0
  rw [testPrivateKey_eq] at h
  rw [fn_1_body]
  by_cases hl : (priv.length : Int) - 32 > 0
  · -- longer than 32 bytes: the difference
    rw [if_pos hl] at h
    simp only [Outcome.ok.injEq] at h
    subst h
    have s2 : evalV G env (.op2 (.sub .i64) (.len (.var 0)) (.lit 32)) = some (.int ((priv.length : Int) - 32)) := by
      simp only [evalV_op2, evalV_len, evalV_var, evalV_lit, h0, bytesV, List.length_map, evalOp2, Option.map_some]
      rw [norm_i64_small (by omega) (by omega)]
    have hc : evalV G (env.set 2 (.int ((priv.length : Int) - 32))) (.op2 .gt (.var 2) (.lit 0)) = some (.int 1) := by
      have : (32 : Int) < (priv.length : Int) := by omega
      simp [evalV_op2, evalV_var, evalOp2, ofBool, this]
    have sr : evalVs G (env.set 2 (.int ((priv.length : Int) - 32))) [(.var 2)] = some [.int ((priv.length : Int) - 32)] := by
      simp [evalVs_cons]
    exact ⟨_, (EvIn.seq (EvIn.assign s2) (EvIn.seq_stop (EvIn.ite hc rfl (EvIn.ret sr)) (by simp))).mono
      (by simp only [fuelTest]; omega)⟩
  · rw [if_neg hl] at h
    have hle : priv.length ≤ 32 := by omega
    obtain ⟨env5, hinv5, hpre, _⟩ := tprologue (P := P) (G := G) (X := X) h0 hle
    obtain ⟨env6, acc, hloop, hinv6, hiff⟩ := tloop_ok (P := P) (G := G) (X := X) priv _ hlen priv.length 0 env5 0
      hinv5 (by omega) (by decide) (by simp)
    by_cases hz : priv.all (· == 0) = true
    · rw [if_pos hz] at h
      simp only [Outcome.ok.injEq] at h
      subst h
      have ha : acc = 0 := hiff.mpr hz
      subst ha
      obtain ⟨env', ht⟩ := ttail_zero (P := P) (G := G) (X := X) hinv6
      exact ⟨env', (hpre (EvIn.seq hloop ht)).mono (by simp only [fuelTest]; omega)⟩
    · rw [if_neg hz] at h
      have ha : acc ≠ 0 := fun e => hz (hiff.mp e)
      by_cases hs : (priv.length : Int) - 32 < 0
      · rw [if_pos hs] at h
        simp only [Outcome.ok.injEq] at h
        subst h
        obtain ⟨env', ht⟩ := ttail_short (P := P) (G := G) (X := X) hinv6 ha hs
        exact ⟨env', (hpre (EvIn.seq hloop ht)).mono (by simp only [fuelTest]; omega)⟩
      · rw [if_neg hs] at h
        cases hm : Model.Utils.constantTimeCmp (some priv) (some (Model.SM2.nMinus1Bytes C)) 32 with
        | err => rw [hm] at h; cases h
        | panic => rw [hm] at h; cases h
        | ok cmp =>
          rw [hm] at h
          simp only [Outcome.bind_ok] at h
          have g0 : (env6.set 7 (.int 0)) 0 = bytesV priv := by simp [Env.set, hinv6.h0]
          obtain ⟨env', hrest⟩ := trest_ok (P := P) (G := G) (X := X) hP g0 hG cmp hm
          have hres : (if cmp = -1 then (0 : Int) else -1) = r := by
            by_cases hc : cmp = -1
            · rw [if_pos hc] at h ⊢; simp only [Outcome.ok.injEq] at h; exact h
            · rw [if_neg hc] at h ⊢; simp only [Outcome.ok.injEq] at h; exact h
          rw [hres] at hrest
          exact ⟨env', (hpre (EvIn.seq hloop (ttail_cmp hinv6 ha hs hrest))).mono
            (by simp only [fuelTest, fuelCmp]; omega)⟩

/-- body level: the model panics (only possible when the context's `nMinus1Bytes` is shorter than 32
    bytes: ConstantTimeCmp indexes beyond its end) ⇒ the IR is stuck -/
theorem test_body_stuck (hP : P[f_utils_ConstantTimeCmp]? = some fn_0) (C : Model.SM2.Ctx α β)
    (hG : G 5 = bytesV (Model.SM2.nMinus1Bytes C)) (priv : Bytes) (hlen : priv.length < 2 ^ 63)
    (h : Model.SM2.testPrivateKey C priv = .panic) :
    Stuck P G X (Env.ofList [bytesV priv]) fn_1.body := by
  have h0 : (Env.ofList [bytesV priv]) 0 = bytesV priv := rfl
  generalize Env.ofList [bytesV priv] = env at h0
  rw [testPrivateKey_eq] at h
  rw [fn_1_body]
  by_cases hl : (priv.length : Int) - 32 > 0
  · rw [if_pos hl] at h; cases h
  · rw [if_neg hl] at h
    have hle : priv.length ≤ 32 := by omega
    obtain ⟨env5, hinv5, _, hpre⟩ := tprologue (P := P) (G := G) (X := X) h0 hle
    obtain ⟨env6, acc, hloop, hinv6, hiff⟩ := tloop_ok (P := P) (G := G) (X := X) priv _ hlen priv.length 0 env5 0
      hinv5 (by omega) (by decide) (by simp)
    by_cases hz : priv.all (· == 0) = true
    · rw [if_pos hz] at h; cases h
    · rw [if_neg hz] at h
      have ha : acc ≠ 0 := fun e => hz (hiff.mp e)
      by_cases hs : (priv.length : Int) - 32 < 0
      · rw [if_pos hs] at h; cases h
      · rw [if_neg hs] at h
        cases hm : Model.Utils.constantTimeCmp (some priv) (some (Model.SM2.nMinus1Bytes C)) 32 with
        | err => rw [hm] at h; cases h
        | ok cmp =>
          rw [hm] at h
          simp only [Outcome.bind_ok] at h
          split at h <;> cases h
        | panic =>
          have g0 : (env6.set 7 (.int 0)) 0 = bytesV priv := by simp [Env.set, hinv6.h0]
          exact hpre (Stuck.seq_right hloop (ttail_cmp_stuck hinv6 ha hs (trest_stuck hP g0 hG hm)))

theorem testPrivateKey_ne_err (C : Model.SM2.Ctx α β) (priv : Bytes) : Model.SM2.testPrivateKey C priv ≠ .err := by
  rw [testPrivateKey_eq]
  split
  · simp
  · split
    · simp
    · split
      · simp
      · cases hm : Model.Utils.constantTimeCmp (some priv) (some (Model.SM2.nMinus1Bytes C)) 32 with
        | err => exact absurd hm (constantTimeCmp_ne_err _ _ _)
        | panic => simp
        | ok cmp => simp only [Outcome.bind_ok]; split <;> simp

end Test

theorem fn1_lookup : prog[f_sm2_TestPrivateKey]? = some fn_1 := rfl

section TestRun
variable {G : Nat → Val} {X : Oracle} {α β : Type}

theorem ir_test_ok (C : Model.SM2.Ctx α β) (hG : G 5 = bytesV (Model.SM2.nMinus1Bytes C)) (priv : Bytes)
    (hlen : priv.length < 2 ^ 63) (r : Int) (h : Model.SM2.testPrivateKey C priv = .ok r) :
    ∀ f, fuelTest + 1 ≤ f → runV prog G X f f_sm2_TestPrivateKey [bytesV priv] = .ret [.int r] := by
  obtain ⟨env', hb⟩ := test_body_ok (P := prog) (G := G) (X := X) fn0_lookup C hG priv hlen r h
  intro f hf
  exact runV_of_EvIn fn1_lookup rfl rfl hb f (by omega)

theorem ir_test_panic (C : Model.SM2.Ctx α β) (hG : G 5 = bytesV (Model.SM2.nMinus1Bytes C)) (priv : Bytes)
    (hlen : priv.length < 2 ^ 63) (h : Model.SM2.testPrivateKey C priv = .panic) :
    ∀ f, runV prog G X f f_sm2_TestPrivateKey [bytesV priv] = .stuck :=
  runV_of_Stuck fn1_lookup (test_body_stuck (P := prog) (G := G) (X := X) fn0_lookup C hG priv hlen h)

/-- TestPrivateKey: the run of the generated IR IS the model `Model.SM2.testPrivateKey`, for every non-nil
    byte string `priv`, any model context `C` and any globals whose entry 5 (`sm2.nMinus1Bytes`) is the
    context's `nMinus1Bytes` -/
theorem ir_testPrivateKey_eq_model (C : Model.SM2.Ctx α β) (hG : G 5 = bytesV (Model.SM2.nMinus1Bytes C))
    (priv : Bytes) (hlen : priv.length < 2 ^ 63) (f : Nat) (hf : fuelTest + 1 ≤ f) :
    outcomeInt (runV prog G X f f_sm2_TestPrivateKey [bytesV priv]) = Model.SM2.testPrivateKey C priv := by
  cases h : Model.SM2.testPrivateKey C priv with
  | ok r => rw [ir_test_ok C hG priv hlen r h f hf]; rfl
  | panic => rw [ir_test_panic C hG priv hlen h f]; rfl
  | err => exact absurd h (testPrivateKey_ne_err C priv)

/-- the generated global 5 is the minimal big-endian encoding of n-1 for the SM2 group order -/
theorem globals_nMinus1 : globals 5 = bytesV (Bytes.ofNatMin (SMGo.Gen.SM2Params.param_N - 1)) := by rfl

end TestRun

end SMGo.Proofs.CTIRRefineCurve

#print axioms SMGo.Proofs.CTIRRefineCurve.ir_extractBit_eq_model
#print axioms SMGo.Proofs.CTIRRefineCurve.ir_extractLowerBits_eq_model
#print axioms SMGo.Proofs.CTIRRefineCurve.ir_extractHigherBits_eq_model
#print axioms SMGo.Proofs.CTIRRefineCurve.bit_body_ok
#print axioms SMGo.Proofs.CTIRRefineCurve.bit_body_stuck
#print axioms SMGo.Proofs.CTIRRefineCurve.high_body_ok
#print axioms SMGo.Proofs.CTIRRefineCurve.high_body_stuck
#print axioms SMGo.Proofs.CTIRRefineCurve.ir_testPrivateKey_eq_model
#print axioms SMGo.Proofs.CTIRRefineCurve.test_body_ok
#print axioms SMGo.Proofs.CTIRRefineCurve.test_body_stuck
#print axioms SMGo.Proofs.CTIRRefineCurve.globals_nMinus1
