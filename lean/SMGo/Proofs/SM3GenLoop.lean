/-
  Generic lemmas for the proofs about the generated SM3 code (`SMGo.Gen.SM3Code`): counted loops of the
  `Go.Res` monad as folds, under an invariant that discharges the bounds checks of the body.
-/
import SMGo.Model.GoPrelude
namespace SMGo.Proofs.SM3Gen
open SMGo SMGo.Go

/-- a `for` loop over a list whose body, under the invariant, never panics and never breaks is a fold -/
theorem forIn_list_ok {α σ : Type} (l : List α) (f : α → σ → Res (ForInStep σ)) (g : σ → α → σ)
    (I : σ → Prop)
    (hstep : ∀ a ∈ l, ∀ s, I s → f a s = .ok (.yield (g s a)) ∧ I (g s a))
    (s0 : σ) (h0 : I s0) :
    forIn l s0 f = .ok (l.foldl g s0) ∧ I (l.foldl g s0) := by
  induction l generalizing s0 with
  | nil => exact ⟨rfl, h0⟩
  | cons a as ih =>
    obtain ⟨e, hi⟩ := hstep a (by simp) s0 h0
    have := ih (fun b hb s hs => hstep b (by simp [hb]) s hs) (g s0 a) hi
    simp only [List.forIn_cons, e, Res.bind_ok, List.foldl_cons]
    exact this

/-- the same with an invariant that depends on the loop counter, over `List.range'` -/
theorem forIn_range'_ok {σ : Type} (n a : Nat) (f : Nat → σ → Res (ForInStep σ)) (g : σ → Nat → σ)
    (I : Nat → σ → Prop)
    (hstep : ∀ j s, a ≤ j → j < a + n → I j s → f j s = .ok (.yield (g s j)) ∧ I (j + 1) (g s j))
    (s0 : σ) (h0 : I a s0) :
    forIn (List.range' a n) s0 f = .ok ((List.range' a n).foldl g s0)
      ∧ I (a + n) ((List.range' a n).foldl g s0) := by
  induction n generalizing a s0 with
  | zero => exact ⟨rfl, h0⟩
  | succ n ih =>
    obtain ⟨e, hi⟩ := hstep a s0 (Nat.le_refl _) (by omega) h0
    have := ih (a + 1) (fun j s h1 h2 h3 => hstep j s (by omega) (by omega) h3) (g s0 a) hi
    simp only [List.range'_succ, List.forIn_cons, e, Res.bind_ok, List.foldl_cons]
    rw [show a + (n + 1) = a + 1 + n by omega]
    exact this

/-- `for j in [a:b]` -/
theorem forIn_range_ok {σ : Type} (a b : Nat) (f : Nat → σ → Res (ForInStep σ)) (g : σ → Nat → σ)
    (I : Nat → σ → Prop)
    (hstep : ∀ j s, a ≤ j → j < b → I j s → f j s = .ok (.yield (g s j)) ∧ I (j + 1) (g s j))
    (s0 : σ) (h0 : I a s0) (hab : a ≤ b) :
    forIn [a:b] s0 f = .ok ((List.range' a (b - a)).foldl g s0) ∧ I b ((List.range' a (b - a)).foldl g s0) := by
  rw [Std.Legacy.Range.forIn_eq_forIn_range']
  have hs : ([a:b] : Std.Legacy.Range).size = b - a := by simp [Std.Legacy.Range.size]
  rw [hs]
  have := forIn_range'_ok (b - a) a f g I (fun j s h1 h2 h3 => hstep j s h1 (by omega) h3) s0 h0
  rw [show a + (b - a) = b by omega] at this
  exact this

/-- `for j in [a:b]` with a loop invariant: the body never panics or breaks, the result satisfies the
    invariant at `b` (the invariants used below determine the state, so no fold is mentioned) -/
theorem forIn_range_inv {σ : Type} (a b : Nat) (f : Nat → σ → Res (ForInStep σ)) (I : Nat → σ → Prop)
    (hstep : ∀ j s, a ≤ j → j < b → I j s → ∃ s', f j s = .ok (.yield s') ∧ I (j + 1) s')
    (s0 : σ) (h0 : I a s0) (hab : a ≤ b) :
    ∃ s', forIn [a:b] s0 f = .ok s' ∧ I b s' := by
  rw [Std.Legacy.Range.forIn_eq_forIn_range']
  have hs : ([a:b] : Std.Legacy.Range).size = b - a := by simp [Std.Legacy.Range.size]
  rw [hs]
  show ∃ s', forIn (List.range' a (b - a)) s0 f = .ok s' ∧ I b s'
  have key : ∀ n a s0, a + n = b → I a s0 →
      (∀ j s, a ≤ j → j < b → I j s → ∃ s', f j s = .ok (.yield s') ∧ I (j + 1) s') →
      ∃ s', forIn (List.range' a n) s0 f = .ok s' ∧ I b s' := by
    intro n
    induction n with
    | zero => intro a s0 e h0 _; exact ⟨s0, rfl, by rw [← e]; exact h0⟩
    | succ n ih =>
      intro a s0 e h0 hst
      obtain ⟨s1, e1, h1⟩ := hst a s0 (Nat.le_refl _) (by omega) h0
      obtain ⟨s', e', h'⟩ := ih (a + 1) s1 (by omega) h1 (fun j s h1 h2 h3 => hst j s (by omega) h2 h3)
      exact ⟨s', by simp only [List.range'_succ, List.forIn_cons, e1, Res.bind_ok, e'], h'⟩
  exact key (b - a) a s0 (by omega) h0 hstep

/-- the form in which the loops occur in a `do` block: `for … ; rest` -/
theorem bind_forIn_range_inv {σ β : Type} (a b : Nat) (f : Nat → σ → Res (ForInStep σ)) (I : Nat → σ → Prop)
    (k : σ → Res β) (r : Res β) (s0 : σ)
    (hstep : ∀ j s, a ≤ j → j < b → I j s → ∃ s', f j s = .ok (.yield s') ∧ I (j + 1) s')
    (h0 : I a s0) (hab : a ≤ b) (hk : ∀ s', I b s' → k s' = r) :
    (forIn [a:b] s0 f >>= k) = r := by
  obtain ⟨s', e, h⟩ := forIn_range_inv a b f I hstep s0 h0 hab
  rw [e, Res.bind_ok]
  exact hk s' h

/-- the same when the result is only known to exist -/
theorem bind_forIn_range_inv_ex {σ β : Type} (a b : Nat) (f : Nat → σ → Res (ForInStep σ)) (I : Nat → σ → Prop)
    (k : σ → Res β) (Q : β → Prop) (s0 : σ)
    (hstep : ∀ j s, a ≤ j → j < b → I j s → ∃ s', f j s = .ok (.yield s') ∧ I (j + 1) s')
    (h0 : I a s0) (hab : a ≤ b) (hk : ∀ s', I b s' → ∃ y, k s' = .ok y ∧ Q y) :
    ∃ y, (forIn [a:b] s0 f >>= k) = .ok y ∧ Q y := by
  obtain ⟨s', e, h⟩ := forIn_range_inv a b f I hstep s0 h0 hab
  rw [e, Res.bind_ok]
  exact hk s' h

end SMGo.Proofs.SM3Gen
