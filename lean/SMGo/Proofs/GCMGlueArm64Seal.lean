/-
  `Seal` of the arm64 Go glue on the slice heap (`seal_core`): for well-formed, admissible
  arguments the call does not panic; the result shows dst followed by
  `Spec.GCM.sealGCM` (ciphertext ‖ tag of SP 800-38D) of the VALUES of nonce, plaintext and additional
  data at call time; it shares dst's pointer iff dst has room; no byte of the caller's heap outside
  the appended region changes.  The in-place case (plaintext starting exactly at dst's end) is
  covered.  Core Lean only.
-/
import SMGo.Proofs.GCMGlueArm64Buf
namespace SMGo.Proofs.GCMGlueA64
open SMGo SMGo.Model SMGo.Model.Mem SMGo.Model.GCMGlueA64 SMGo.Proofs.Slice
open SMGo.Spec.GCM
open SMGo.Proofs.GCMGlue (UnchangedOutside InRegion Nowhere fresh unchanged_refl unchanged_append
  unchanged_poke WF_of_unchanged Disjoint ExactOverlap Admissible)
open SMGo.Proofs.GCM (ghFold blockToNat_lt blockToNat_natToBlock natToBlock_blockToNat
  natToBlock_length xorBytes_length)

/-! ### allocation of a local array, and what survives operations on locals -/

theorem alloc_spec (h : Heap) (n : Nat) :
    UnchangedOutside h (h ++ [List.replicate n 0]) Nowhere ∧
    WF (h ++ [List.replicate n 0]) (fresh h n) ∧
    read (h ++ [List.replicate n 0]) (fresh h n) = List.replicate n 0 ∧
    (h ++ [List.replicate n (0 : UInt8)]).length = h.length + 1 :=
  ⟨unchanged_append h _ _, WF_fresh h n, read_fresh h n, by simp⟩

theorem keep {h h' : Heap} (e : UnchangedOutside h h' Nowhere) {s : Slice} (ws : WF h s) :
    WF h' s ∧ read h' s = read h s :=
  ⟨WF_of_unchanged h h' _ e s ws, read_of_UO e s ws (fun _ _ _ _ _ f => f)⟩

/-- a slice of the heap `h` is not in an array allocated later -/
theorem old_ne_new {h hb : Heap} {s : Slice} (ws : WF h s) (n : Nat) (hle : h.length ≤ hb.length) :
    s.arr ≠ (fresh hb n).arr := by
  intro he
  have := arr_lt_of_WF ws (a := hb.length) (by rw [he]; rfl)
  omega

theorem fresh_ne {ha hb : Heap} (n m : Nat) (hne : ha.length ≠ hb.length) :
    (fresh ha n).arr ≠ (fresh hb m).arr := by
  intro he
  injection he with he
  exact hne he

theorem new_region {hb h : Heap} (hle : hb.length ≤ h.length) (n : Nat) (R : Nat → Nat → Prop) :
    ∀ a i, a < hb.length → Reg (fresh h n) a i → R a i := by
  intro a i ha ⟨h1, _, _⟩
  injection h1 with h1
  omega

/-! ### Seal -/

theorem seal_core (g : GcmA64) (hk : KSpec g.k) (ht : g.tagSize ≤ 16)
    (h : Heap) (dst nonce pt aad : Slice)
    (wd : WF h dst) (wn : WF h nonce) (wp : WF h pt) (wa : WF h aad)
    (hn : nonce.len = g.nonceSize) (hp : pt.len ≤ maxPlain)
    (hadm : Admissible dst nonce pt aad) :
    ∃ h' ret, sealA64 g h dst nonce pt aad = .ok (h', ret) ∧
      WF h' ret ∧
      read h' ret = read h dst ++ sealGCM g.k.E g.tagSize (read h nonce) (read h pt) (read h aad) ∧
      (Shares ret dst ↔ dst.arr ≠ none ∧ pt.len + g.tagSize ≤ dst.cap - dst.len) ∧
      (pt.len + g.tagSize ≤ dst.cap - dst.len →
        ret = takeS dst (dst.len + (pt.len + g.tagSize))) ∧
      UnchangedOutside h h' (InRegion ret dst.len (pt.len + g.tagSize)) ∧
      (∀ s, WF h s → Disjoint dst s → read h' s = read h s) := by
  obtain ⟨hdn, hda, hdp⟩ := hadm
  -- the four local arrays
  obtain ⟨e01, wH1, rH1, l1⟩ := alloc_spec h 16
  generalize hh1 : h ++ [List.replicate 16 (0 : UInt8)] = h1 at e01 wH1 rH1 l1
  obtain ⟨e12, wT2, rT2, l2⟩ := alloc_spec h1 16
  generalize hh2 : h1 ++ [List.replicate 16 (0 : UInt8)] = h2 at e12 wT2 rT2 l2
  obtain ⟨e23, wJ3, rJ3, l3⟩ := alloc_spec h2 16
  generalize hh3 : h2 ++ [List.replicate 16 (0 : UInt8)] = h3 at e23 wJ3 rJ3 l3
  obtain ⟨e34, wt4, rt4, l4⟩ := alloc_spec h3 16
  generalize hh4 : h3 ++ [List.replicate 16 (0 : UInt8)] = h4 at e34 wt4 rt4 l4
  have e24 : UnchangedOutside h2 h4 Nowhere := UO_trans e23 e34 (fun _ _ _ f => f)
  have e14 : UnchangedOutside h1 h4 Nowhere := UO_trans e12 e24 (fun _ _ _ f => f)
  have e04 : UnchangedOutside h h4 Nowhere := UO_trans e01 e14 (fun _ _ _ f => f)
  obtain ⟨wH4, rH4⟩ := keep e14 wH1
  obtain ⟨wT4, rT4⟩ := keep e24 wT2
  obtain ⟨wJ4, rJ4⟩ := keep e34 wJ3
  rw [rH1] at rH4; rw [rT2] at rT4; rw [rJ3] at rJ4
  obtain ⟨wn4, rn4⟩ := keep e04 wn
  -- H, J0, the mask
  obtain ⟨h5, e5, u5, rH5, rJ5, rT5⟩ := prelude_spec g.k hk h4 nonce (fresh h 16) (fresh h2 16)
    (fresh h1 16) wn4 wH4 wJ4 wT4 rfl rfl rfl rH4 rJ4
    (fresh_ne _ _ (by omega)) (fresh_ne _ _ (by omega)) (fresh_ne _ _ (by omega))
    (old_ne_new wn 16 (Nat.le_refl _)) (old_ne_new wn 16 (by omega))
  rw [rn4] at rJ5 rT5
  have e05 : UnchangedOutside h h5 Nowhere := by
    refine UO_trans e04 u5 ?_
    intro a i ha hr
    rcases hr with hr | hr | hr
    · exact new_region (Nat.le_refl _) 16 _ a i ha hr
    · exact new_region (by omega) 16 _ a i ha hr
    · exact new_region (by omega) 16 _ a i ha hr
  have wH5 := WF_of_unchanged h4 h5 _ u5 _ wH4
  have wT5 := WF_of_unchanged h4 h5 _ u5 _ wT4
  have wJ5 := WF_of_unchanged h4 h5 _ u5 _ wJ4
  have wt5 := WF_of_unchanged h4 h5 _ u5 _ wt4
  have rt5 : read h5 (fresh h3 16) = List.replicate 16 0 := by
    rw [← rt4]
    apply read_of_UO u5 _ wt4
    intro a i ha _ _ hr
    rcases hr with ⟨hr, _, _⟩ | ⟨hr, _, _⟩ | ⟨hr, _, _⟩ <;>
      (rw [show (fresh h3 16).arr = some h3.length from rfl] at ha
       injection ha with ha
       injection hr with hr
       omega)
  obtain ⟨wd5, rd5⟩ := keep e05 wd
  obtain ⟨wp5, rp5⟩ := keep e05 wp
  obtain ⟨wa5, ra5⟩ := keep e05 wa
  -- ensureCapacity
  obtain ⟨h6, ret, out, ee, eo⟩ := ensureCapacityA64_out h5 dst (pt.len + g.tagSize) wd5
  have e06 : UnchangedOutside h h6 Nowhere := UO_trans e05 eo.ext (fun _ _ _ f => f)
  obtain ⟨wH6, rH6⟩ := keep eo.ext wH5
  obtain ⟨wT6, rT6⟩ := keep eo.ext wT5
  obtain ⟨wJ6, rJ6⟩ := keep eo.ext wJ5
  obtain ⟨wt6, rt6⟩ := keep eo.ext wt5
  obtain ⟨wp6, rp6⟩ := keep eo.ext wp5
  obtain ⟨wa6, ra6⟩ := keep eo.ext wa5
  have hrl := eo.ret_len
  have hrc := eo.wf.1
  have wo6 : WF h6 out := by rw [eo.out_eq]; exact WF_dropS h6 ret _ eo.wf (by omega)
  have hol : out.len = pt.len + g.tagSize := by rw [eo.out_eq]; show ret.len - dst.len = _; omega
  have hoa : out.arr = ret.arr := by rw [eo.out_eq]; rfl
  have hoo : out.off = ret.off + dst.len := by rw [eo.out_eq]; rfl
  -- locals are not in ret's array
  have hdst_old : ∀ {hb : Heap} (n : Nat), h.length ≤ hb.length → (fresh hb n).arr ≠ dst.arr :=
    fun n hle => Ne.symm (old_ne_new wd n hle)
  have hHr : (fresh h 16).arr ≠ ret.arr := eo.other _ wH5 (by simp [fresh]) (hdst_old 16 (Nat.le_refl _))
  have hTr : (fresh h1 16).arr ≠ ret.arr := eo.other _ wT5 (by simp [fresh]) (hdst_old 16 (by omega))
  have hJr : (fresh h2 16).arr ≠ ret.arr := eo.other _ wJ5 (by simp [fresh]) (hdst_old 16 (by omega))
  have htr : (fresh h3 16).arr ≠ ret.arr := eo.other _ wt5 (by simp [fresh]) (hdst_old 16 (by omega))
  -- cryptoBlocks
  have cx : CBCtx h6 out pt (fresh h2 16) :=
    { wo := wo6, wi := wp6, wp := wJ6, pl := rfl, le := by omega,
      compat := by
        rw [hoa, hoo]
        exact eo.compat pt wp5 hdp (by omega)
      po := by rw [hoa]; exact hJr }
  obtain ⟨h7, e7, u7, r7⟩ := cryptoBlocks_spec hk cx hp
  have hElt : blockToNat (g.k.E (List.replicate 16 0)) < 2 ^ 128 := blockToNat_lt (hk.E_len _)
  rw [rJ6, rJ5, blockToNat_natToBlock (j0_lt _ hElt _), rp6, rp5] at r7
  -- what the slices show after cryptoBlocks
  have avo : ∀ {s : Slice}, s.arr ≠ ret.arr → Avoids s (InRegion out 0 pt.len) :=
    fun hne => avoids_of_arr_ne (by rw [hoa]; exact hne) _ _
  have wH7 := WF_of_unchanged h6 h7 _ u7 _ wH6
  have wT7 := WF_of_unchanged h6 h7 _ u7 _ wT6
  have wt7 := WF_of_unchanged h6 h7 _ u7 _ wt6
  have wa7 := WF_of_unchanged h6 h7 _ u7 _ wa6
  have wo7 := WF_of_unchanged h6 h7 _ u7 _ wo6
  have wr7 := WF_of_unchanged h6 h7 _ u7 _ eo.wf
  have rH7 : read h7 (fresh h 16) = g.k.E (List.replicate 16 0) := by
    rw [read_avoid u7 wH6 (avo hHr), rH6, rH5]
  have rT7 : read h7 (fresh h1 16) = g.k.E (natToBlock (j0 (blockToNat (g.k.E (List.replicate 16 0)))
      (read h nonce))) := by
    rw [read_avoid u7 wT6 (avo hTr), rT6, rT5]
  have rt7 : read h7 (fresh h3 16) = List.replicate 16 0 := by
    rw [read_avoid u7 wt6 (avo htr), rt6, rt5]
  have avoid_out : ∀ s, WF h s → Disjoint dst s → ∀ m, m ≤ pt.len + g.tagSize →
      ∀ k, k + m ≤ pt.len + g.tagSize → Avoids s (InRegion out k m) := by
    intro s ws hd m _ k hk a i ha h1 h2 ⟨hr, h3, h4⟩
    refine eo.free s (keep e05 ws).1 hd a i ha h1 h2 ⟨by rw [← hoa]; exact hr, ?_, ?_⟩
    · rw [hoo] at h3; omega
    · rw [hoo] at h4; omega
  have ra7 : read h7 aad = read h aad := by
    rw [read_avoid u7 wa6 (avoid_out aad wa hda _ (by omega) 0 (by omega)), ra6, ra5]
  -- the tag
  have wc7 : WF h7 (takeS out pt.len) := WF_takeS h7 out _ wo7 (by have := wo7.1; omega)
  obtain ⟨h8, e8, u8, r8⟩ := tagPhase_spec g.k hk h7 (fresh h 16) (fresh h3 16) (fresh h1 16) aad
    (takeS out pt.len) wH7 wt7 wT7 wa7 wc7 rfl rfl rfl rt7
    (fresh_ne _ _ (by omega)) (fresh_ne _ _ (by omega)) (old_ne_new wa 16 (by omega))
    (by show out.arr ≠ _; rw [hoa]; exact Ne.symm htr)
  rw [rH7, rT7, ra7, r7] at r8
  have hgl : (gctr g.k.E (inc32 (j0 (blockToNat (g.k.E (List.replicate 16 0))) (read h nonce)))
      (read h pt)).length = pt.len := by
    rw [GCM.gctr_length hk.E_len, length_read h pt wp]
  -- the copy of the tag
  have wo8 := WF_of_unchanged h7 h8 _ u8 _ wo7
  have wt8 := WF_of_unchanged h7 h8 _ u8 _ wt7
  have wr8 := WF_of_unchanged h7 h8 _ u8 _ wr7
  have woc := wo6.1
  have wot8 : WF h8 (dropS out pt.len) := WF_dropS h8 out _ wo8 (by omega)
  have wtt8 : WF h8 (takeS (fresh h3 16) g.tagSize) := WF_takeS h8 _ _ wt8 (by show g.tagSize ≤ 16; exact ht)
  obtain ⟨u9, r9⟩ := copy_spec h8 (dropS out pt.len) (takeS (fresh h3 16) g.tagSize) wot8 wtt8
  have hmin : min (dropS out pt.len).len (takeS (fresh h3 16) g.tagSize).len = g.tagSize := by
    show min (out.len - pt.len) g.tagSize = g.tagSize; omega
  rw [hmin] at u9 r9
  rw [read_takeS h8 _ _ (by show g.tagSize ≤ 16; exact ht), List.take_take, Nat.min_self] at r9
  generalize hh9 : (copy h8 (dropS out pt.len) (takeS (fresh h3 16) g.tagSize)).1 = h9 at u9 r9
  have wr9 := WF_of_unchanged h8 h9 _ u9 _ wr8
  refine ⟨h9, ret, ?_, wr9, ?_, eo.shares, fun hr => (eo.room hr).1, ?_, ?_⟩
  · -- the call
    unfold sealA64 sealWith
    rw [if_neg (by simpa using hn), if_neg (by omega)]
    simp only [localArray_eq]
    rw [hh1, hh2, hh3, hh4, prelude_bind, e5, Outcome.bind_ok, ee, Outcome.bind_ok]
    simp only []
    rw [e7, Outcome.bind_ok, sliceTo_ok out pt.len (by omega)]
    simp only [Outcome.bind_ok]
    have e8' : tagPhase g.k h7 (fresh h 16) (fresh h3 16) (fresh h1 16) aad (takeS out pt.len)
        aad.len pt.len = .ok h8 := e8
    rw [tagPhase_bind, e8', Outcome.bind_ok, sliceFrom_ok out pt.len (by omega) woc, Outcome.bind_ok,
      sliceTo_ok _ g.tagSize (by show g.tagSize ≤ 16; exact ht), Outcome.bind_ok]
    simp only [hh9]
  · -- what ret shows
    have hs1 := read_split h9 ret dst.len (by omega)
    have hs2 := read_split h9 out pt.len (by omega)
    rw [← eo.out_eq] at hs1
    have htt : takeS (dropS out pt.len) g.tagSize = dropS out pt.len := by
      have : (dropS out pt.len).len = g.tagSize := by show out.len - pt.len = _; omega
      rw [← this]; exact takeS_len _
    rw [htt] at r9
    -- dst's bytes
    have rA : read h9 (takeS ret dst.len) = read h dst := by
      have wA6 := WF_takeS h6 ret dst.len eo.wf (by omega)
      have wA7 := WF_of_unchanged h6 h7 _ u7 _ wA6
      have wA8 := WF_of_unchanged h7 h8 _ u8 _ wA7
      rw [read_of_UO u9 _ wA8, read_of_UO u8 _ wA7, read_of_UO u7 _ wA6, eo.pre, rd5]
      · intro a i _ h1 h2 ⟨_, y, _⟩
        have h2' : i < ret.off + dst.len := h2
        rw [hoo] at y; omega
      · exact avoids_of_arr_ne (s := takeS ret dst.len) (show ret.arr ≠ _ from Ne.symm htr) 0 _
      · intro a i _ h1 h2 ⟨_, y, _⟩
        have h2' : i < ret.off + dst.len := h2
        have y' : out.off + pt.len + 0 ≤ i := y
        rw [hoo] at y'; omega
    -- the ciphertext
    have rC : read h9 (takeS out pt.len) = gctr g.k.E (inc32 (j0 (blockToNat
        (g.k.E (List.replicate 16 0))) (read h nonce))) (read h pt) := by
      have wC8 := WF_of_unchanged h7 h8 _ u8 _ wc7
      rw [read_of_UO u9 _ wC8, read_of_UO u8 _ wc7, r7]
      · exact avoids_of_arr_ne (by show out.arr ≠ _; rw [hoa]; exact Ne.symm htr) _ _
      · intro a i _ h1 h2 ⟨_, y, _⟩
        have h2' : i < out.off + pt.len := h2
        have y' : out.off + pt.len + 0 ≤ i := y
        omega
    rw [hs1, hs2, rA, rC, r9, r8]
    congr 1
    unfold sealGCM
    simp only []
    rw [GCM.tagOf_eq hk.E_len, hgl, length_read h aad wa]
  · -- nothing else changed
    have h1 : UnchangedOutside h h7 (InRegion ret dst.len (pt.len + g.tagSize)) := by
      refine UO_trans (UO_mono e06 (fun _ _ _ f => f.elim)) u7 ?_
      intro a i _ ⟨x, y, z⟩
      rw [hoa] at x; rw [hoo] at y z
      exact ⟨x, by omega, by omega⟩
    have h2 : UnchangedOutside h h8 (InRegion ret dst.len (pt.len + g.tagSize)) :=
      UO_trans h1 u8 (new_region (by omega) 16 _)
    refine UO_trans h2 u9 ?_
    intro a i _ ⟨x, y, z⟩
    have x' : out.arr = some a := x
    have y' : out.off + pt.len + 0 ≤ i := y
    have z' : i < out.off + pt.len + 0 + g.tagSize := z
    rw [hoa] at x'; rw [hoo] at y' z'
    exact ⟨x', by omega, by omega⟩
  · -- slices outside dst's spare capacity
    intro s ws hd
    have ws6 := (keep e06 ws).1
    have ws7 := WF_of_unchanged h6 h7 _ u7 _ ws6
    have ws8 := WF_of_unchanged h7 h8 _ u8 _ ws7
    rw [read_of_UO u9 _ ws8, read_of_UO u8 _ ws7, read_of_UO u7 _ ws6, (keep e06 ws).2]
    · exact avoid_out s ws hd _ (by omega) 0 (by omega)
    · exact avoids_of_arr_ne (old_ne_new ws 16 (by omega)) _ _
    · have := avoid_out s ws hd g.tagSize (by omega) pt.len (by omega)
      intro a i ha h1 h2 ⟨x, y, z⟩
      exact this a i ha h1 h2 ⟨x, by have y' : out.off + pt.len + 0 ≤ i := y; omega,
        by have z' : i < out.off + pt.len + 0 + g.tagSize := z; omega⟩

end SMGo.Proofs.GCMGlueA64
