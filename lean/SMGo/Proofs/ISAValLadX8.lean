import SMGo.Proofs.ISAValLadX8A
set_option linter.unusedSimpArgs false
namespace SMGo.Proofs.ISAVal
open SMGo.Model.ISAVal SMGo.Model.GCM SMGo.Proofs.GCM SMGo.Proofs.ISATouch
open SMGo.Model.ISA (Reg Opd Instr)

theorem x8_eq (b : Nat) : ladX8Code b =
    [ins .CMPQ [G 9, .imm 128] 0, ins .JLT [.target (b + 8234)] 0] ++ (x8ACode ++
      ([ins .CMPQ [G 0, .imm 0] 0, ins .JEQ [.target (b + 8208)] 0] ++ (hash8Code ++ (ladTailCode 128 ++
        [ins .JMP [.target (b + 4387)] 0])))) := by
  simp only [ladX8Code, x8ACode, fill8Code, kernCode, xs8Code, hash8Code, ghStepCode, ladTailCode, List.append_assoc, List.cons_append,
    List.nil_append]

theorem x8A_len : x8ACode.length = 566 := by
  simp only [x8ACode, List.length_append, kern_len, fill8Code, xs8Code, List.length_cons, List.length_nil]
theorem x8A_nc : x8ACode.all (fun i => !i.mn.isControl) = true := by
  unfold x8ACode; rw [List.all_append, List.all_append, kern_nc]; rfl
theorem hash8_len : hash8Code.length = 61 := by decide +kernel
theorem hash8_nc : hash8Code.all (fun i => !i.mn.isControl) = true := by decide +kernel

theorem LadSt.weaken {M2 : List Nat → List Nat → List Region} {dbase dlen tp sp toff : Nat} {W : Nat × Nat × Nat × Nat} {h hf : Nat} {srcLen : List Nat} {nl c y : Nat}
    {dc tc : List Nat} {s : State} (st : LadSt M2 dbase dlen tp sp toff W h hf srcLen nl c y dc tc s) (nl' : Nat) (hn : nl' ≤ nl) :
    LadSt M2 dbase dlen tp sp toff W h hf srcLen nl' c y dc tc s :=
  ⟨st.pc, st.gh, st.rkp, st.g0, st.g9, st.g10, st.g13, st.g6, fun l hl => st.ctr l (by omega), st.acc, st.acclt, st.mem, st.hdc, st.htc, st.srcOK⟩

set_option maxHeartbeats 1000000 in
/-- **`loopX8`**, when at least 128 bytes remain -/
theorem x8_step (r : Routine) (k b : Nat) (hs : Slice r k (ladX8Code b))
    (lself : findPc r (b + 4387) = some (r.drop k)) (ldone : findPc r (b + 8208) = some (r.drop (k + 631)))
    (lnext : findPc r (b + 8234) = some (r.drop (k + 636)))
    (M2 : List Nat → List Nat → List Region) (dbase dlen tp sp : Nat) (rk jb src : List Nat) (lm : LadMem M2 dbase dlen tp rk src sp)
    (hrk : rk.length = 32) (hrkb : ∀ x ∈ rk, x < 2 ^ 32) (hjb : jb.length = 16) (hjbb : ∀ x ∈ jb, x < 2 ^ 8) (hsb : ∀ x ∈ src, x < 2 ^ 8)
    (hsp : sp + src.length < 2 ^ 63) (hdb : dbase + dlen < 2 ^ 63) (hsl : src.length ≤ dlen)
    (toff h hf c y : Nat) (dc tc : List Nat) (s : State) (hhf : hf < 2 ^ 63)
    (st : LadSt M2 dbase dlen tp sp toff (Wblk jb 0) h hf src 2 c y dc tc s) (hlen : 16 * c + 128 ≤ src.length) :
    ∃ s' N, N ≤ 700 ∧ Reach r k s k s' N ∧
      LadSt M2 dbase dlen tp sp toff (Wblk jb 0) h hf src 2 (c + 8)
        (if hf = 0 then y else ghN4 h 2 y (xorN ((src.drop (16 * c)).take 128) (ksN rk jb c 8)))
        (spliceAt dc (16 * c) (xorN ((src.drop (16 * c)).take 128) (ksN rk jb c 8))) tc s' ∧
      KeepsM ladKeepG ladKeepV (List.range 8) s s' := by
  rw [x8_eq] at hs
  have sG : Slice r k [ins .CMPQ [G 9, .imm 128] 0, ins .JLT [.target (b + 8234)] 0] := hs.left
  have sA : Slice r (k + 2) x8ACode := hs.right.left
  have sH0 := hs.right.right
  rw [x8A_len] at sH0
  have sC : Slice r (k + 2 + 566) [ins .CMPQ [G 0, .imm 0] 0, ins .JEQ [.target (b + 8208)] 0] := sH0.left
  have sH : Slice r (k + 2 + 566 + 2) hash8Code := sH0.right.left
  have sT0 := sH0.right.right
  rw [hash8_len] at sT0
  have sT : Slice r (k + 2 + 566 + 2 + 61) (ladTailCode 128) := sT0.left
  have sJ : Slice r (k + 2 + 566 + 2 + 61 + 4) [ins .JMP [.target (b + 4387)] 0] := sT0.right
  have hg9 : greg s 9 = src.length - 16 * c := st.g9
  have r0 := guard_reach (idx := k + 636) sG rfl lnext s (by rw [st.pc.lenG]; decide) (src.length - 16 * c) 128 hg9 imm64_128 false
    (by rw [cond_jlt _ _ (by omega) (by decide)]; simp; omega)
  simp only [Bool.false_eq_true, if_false] at r0
  let s0 := setFlags s (subF 8 (src.length - 16 * c) 128).2
  have k0 : KeepsM (List.range 16) (List.range 32) (List.range 8) s s0 := keepsM_setFlags _ _ _ s _
  have pc0 : PCtx s0 := st.pc.of_keepsM k0 (by decide)
  obtain ⟨s1, hr1, m1, reg9, reg7, ctr1, g15, k1⟩ := x8A_spec s0 pc0 rk jb src hrk hrkb hjb hjbb hsb (fun d => M2 d tc) dbase dlen sp
    (lm.m2.bufD tc st.htc) (fun d i hd hi => lm.rk d tc i hd st.htc hi) dc st.hdc st.mem c (st.srcOK tc st.htc) st.ctr st.rkp
    st.g10 st.g13 hlen (by omega) hsp hdb
  have r1 : Reach r (k + 2) s0 (k + 2 + 566) s1 566 := by
    have := reach_seg sA x8A_nc hr1; rw [x8A_len] at this; exact this
  have c1 : GhCtx h s1 := (st.gh.of_keepsM k0 (by decide)).of_keepsM k1 (by decide)
  have hout := x8_out rk jb src c hlen
  rw [hout] at m1
  have hob : ∀ rr, rr < 4 → (oReg rk jb src c 2 rr).length = 32 ∧ ∀ x ∈ oReg rk jb src c 2 rr, x < 2 ^ 8 := by
    intro rr hrr
    exact ⟨oReg_length rk jb src c 2 rr (by omega), oReg_bytes rk jb src c 2 rr hsb⟩
  have hg0 : greg s1 0 = hf := by rw [k1.g 0 (by decide)]; exact st.g0
  have r2 := guard_reach (idx := k + 631) sC rfl ldone s1 (by rw [c1.lenG]; decide) hf 0 hg0 imm64_0' (decide (hf = 0))
    (cond_jeq _ _ hhf (by decide))
  let s2 := setFlags s1 (subF 8 hf 0).2
  have k2 : KeepsM (List.range 16) (List.range 32) (List.range 8) s1 s2 := keepsM_setFlags _ _ _ s1 _
  have c2 : GhCtx h s2 := c1.of_keepsM k2 (by decide)
  have y2 : vreg s2 21 = y := by
    show vreg s1 21 = y
    rw [k1.v 21 (by decide)]; exact st.acc
  obtain ⟨s3, N3, hN3, r3, y3, lt3, m3, k3⟩ : ∃ s3 N3, N3 ≤ 121 ∧ Reach r (if decide (hf = 0) = true then k + 631 else k + 2 + 566 + 2) s2 (k + 631) s3 N3 ∧
      vreg s3 21 = (if hf = 0 then y else ghN4 h 2 y (xorN ((src.drop (16 * c)).take 128) (ksN rk jb c 8))) ∧ vreg s3 21 < 2 ^ 128 ∧
      s3.mem = s2.mem ∧ KeepsM hKeepG hKeepV (List.range 8) s2 s3 := by
    by_cases h0 : hf = 0
    · simp only [h0, decide_true, if_true]
      exact ⟨s2, 0, by omega, Reach.refl _ _ _, y2, by rw [y2]; exact st.acclt, rfl, KeepsM.rfl' _ _ _ _⟩
    · simp only [h0, decide_false, Bool.false_eq_true, if_false]
      obtain ⟨s3, hr3, v3, l3, _, k3⟩ := hash8_spec s2 h c2 y y2 st.acclt (oReg rk jb src c 2 0 ++ oReg rk jb src c 2 1)
        (oReg rk jb src c 2 2 ++ oReg rk jb src c 2 3)
        ⟨by rw [List.length_append, (hob 0 (by decide)).1, (hob 1 (by decide)).1], fun x hx => by
          rw [List.mem_append] at hx; rcases hx with h' | h'
          · exact (hob 0 (by decide)).2 x h'
          · exact (hob 1 (by decide)).2 x h'⟩
        ⟨by rw [List.length_append, (hob 2 (by decide)).1, (hob 3 (by decide)).1], fun x hx => by
          rw [List.mem_append] at hx; rcases hx with h' | h'
          · exact (hob 2 (by decide)).2 x h'
          · exact (hob 3 (by decide)).2 x h'⟩
        (by show vreg s1 9 = _; exact reg9) (by show vreg s1 7 = _; exact reg7)
      have := reach_seg sH hash8_nc hr3
      rw [hash8_len] at this
      refine ⟨s3, 61, by omega, this.cast (by omega) rfl, ?_, l3, k3.mem, k3.toM.mono (by decide) (by decide) (fun _ h => h)⟩
      rw [v3, hout]
  have hG3 : s3.gpr.length = 16 := k3.lenG.trans c2.lenG
  have e13 : greg s3 13 = dbase + 16 * c := by
    rw [k3.g 13 (by decide)]; show greg s1 13 = _; rw [k1.g 13 (by decide)]; exact st.g13
  have e10 : greg s3 10 = sp + 16 * c := by
    rw [k3.g 10 (by decide)]; show greg s1 10 = _; rw [k1.g 10 (by decide)]; exact st.g10
  have e9 : greg s3 9 = src.length - 16 * c := by
    rw [k3.g 9 (by decide)]; show greg s1 9 = _; rw [k1.g 9 (by decide)]; exact st.g9
  obtain ⟨s4, hr4, g13, g10, g9, k4⟩ := ladTail_spec 128 128 imm64_128 (by decide) s3 hG3 _ _ _ e13 e10 e9 (by omega) (by omega) (by omega) (by omega)
  have r4 : Reach r (k + 2 + 566 + 2 + 61) s3 (k + 2 + 566 + 2 + 61 + 4) s4 4 := reach_seg sT (ladTail_nc 128) hr4
  have r5 : Reach r (k + 2 + 566 + 2 + 61 + 4) s4 k s4 1 := reach_jmp sJ lself s4
  have rAll : Reach r k s k s4 (2 + 566 + 2 + N3 + 4 + 1) :=
    (((((r0.trans r1).trans r2).trans r3).trans (r4.cast rfl rfl)).trans r5)
  have kA : KeepsM ladKeepG ladKeepV (List.range 8) s s4 := by
    refine ((((k0.mono (by decide) (by decide) (fun _ h => h)).trans ?_).trans (k2.mono (by decide) (by decide) (fun _ h => h))).trans
      (k3.mono (by decide) (by decide) (fun _ h => h))).trans (k4.toM.mono (by decide) (by decide) (fun _ h => h))
    exact ⟨k1.lenG, k1.lenV, k1.lenK, fun n hn => by
        simp only [ladKeepG, List.mem_cons, List.not_mem_nil, or_false] at hn
        rcases hn with rfl | rfl | rfl
        · exact k1.g 0 (by decide)
        · exact k1.g 6 (by decide)
        · rw [g15]; exact st.rkp.symm,
      fun n hn => k1.v n (by revert n; decide), fun n hn => k1.k n hn, k1.syms, k1.frame⟩
  refine ⟨s4, _, by omega, rAll, ?_, kA⟩
  have hm4 : s4.mem = M2 (spliceAt dc (16 * c) (xorN ((src.drop (16 * c)).take 128) (ksN rk jb c 8))) tc := by
    rw [k4.mem, m3]; exact m1
  refine ⟨st.pc.of_keepsM kA pRegs_lad, st.gh.of_keepsM kA ghRegs_lad, (kA.g 15 (by decide)).trans st.rkp, (kA.g 0 (by decide)).trans st.g0,
    ?_, ?_, ?_, (kA.g 6 (by decide)).trans st.g6, ?_, ?_, ?_, hm4, ?_, st.htc, ?_⟩
  · rw [g9]; omega
  · rw [g10]; omega
  · rw [g13]; omega
  · intro l hl
    rw [k4.v 14 (by decide), k3.v 14 (by decide)]; exact ctr1 l hl
  · rw [k4.v 21 (by decide)]; exact y3
  · rw [← y3]; exact lt3
  · rw [spliceAt_length _ _ _ (by rw [xorN_length, ksN_length, List.length_take, List.length_drop, st.hdc]; omega)]; exact st.hdc
  · intro t ht
    exact (lm.adv dc t (16 * c) 128 _ st.hdc ht (by rw [xorN_length, ksN_length, List.length_take, List.length_drop]; omega) (by omega)
      (st.srcOK t ht)).mono _ (by omega)

end SMGo.Proofs.ISAVal
