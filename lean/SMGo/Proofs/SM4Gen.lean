/-
  Lemmas for Props/C05Gen.lean, part 1: the helper functions of the code REGENERATED from /repo/sm4/sm4.go
  (SMGo/Gen/SM4Code.lean, translator `gosm4`) are the helper functions of the hand-written model
  SMGo/Model/SM4Block.lean instantiated with the regenerated tables: `ss`, `ssX2`, `tau`, `transTPrime`;
  the Go library primitives of the prelude (`beUint32`, `putUint32`, `slice`) in the vocabulary of the model
  (`be32`, `w32Bytes`, `wordsBE`); lists of known minimal length as explicit conses.
-/
import SMGo.Gen.SM4Code
import SMGo.Model.SM4Inst
import SMGo.Proofs.SM4Block
import SMGo.Proofs.SM4X2
namespace SMGo.Proofs.SM4Gen
open SMGo SMGo.Model.GoSM4

/-- the model instantiated with the tables generated from sm4_const.go -/
abbrev tb : Model.SM4.Tables := Model.SM4.genTables

/-! ### T-table and S-box look-ups -/

/-- generated `ss` (four `arrGet`s with in-range proofs) = model `ss` (`getD` at `… % 256`) -/
theorem gen_ss_eq_model (t : W32) : Gen.SM4Code.ss t = Model.SM4.ss tb t := by
  simp only [Gen.SM4Code.ss, Model.SM4.ss, Model.SM4.tbl, arrGet_eq_getD, toNat_maskL32, Model.SM4.genTables]

theorem gen_ssX2_eq_model (t : W64) : Gen.SM4Code.ssX2 t = Model.SM4.ssX2 tb t := by
  simp only [Gen.SM4Code.ssX2, Model.SM4.ssX2, Model.SM4.tbl, arrGet_eq_getD, toNat_maskL64, Model.SM4.genTables,
    BitVec.zeroExtend_eq_setWidth]

/-- the S-box entries are bytes: `uint32(sbox[i])` loses nothing -/
theorem u8_toNat_sbox (i : Nat) (hi : i < 256) :
    (UInt8.ofNat (Gen.SM4Const.sbox.getD i 0)).toNat = Gen.SM4Const.sbox.getD i 0 := by
  rw [UInt8.toNat_ofNat']
  exact Nat.mod_eq_of_lt (SM4.sbox_entries_lt i hi)

theorem gen_tau_eq_model (a : W32) : Gen.SM4Code.tau a = Model.SM4.tau tb a := by
  simp only [Gen.SM4Code.tau, Model.SM4.tau, arrGet_eq_getD, toNat_maskL32, Model.SM4.genTables,
    u8_toNat_sbox _ (SM4.byte_lt _)]

theorem gen_transTPrime_eq_model (a : W32) : Gen.SM4Code.transTPrime a = Model.SM4.transTPrime tb a := by
  simp only [Gen.SM4Code.transTPrime, Model.SM4.transTPrime, Model.SM4.rotl, gen_tau_eq_model]

/-! ### encoding/binary -/

theorem u8_ofNat_mod (n : Nat) : UInt8.ofNat (n % 256) = UInt8.ofNat n := by
  apply UInt8.toNat_inj.mp
  simp [UInt8.toNat_ofNat']

/-- the four bytes `PutUint32` stores are `w32Bytes` of the model -/
theorem w32Bytes_eq (v : W32) :
    w32Bytes v = [byteOf (v >>> 24), byteOf (v >>> 16), byteOf (v >>> 8), byteOf v] := by
  have h24 : (v >>> 24).toNat = v.toNat / 16777216 := by
    rw [BitVec.toNat_ushiftRight, Nat.shiftRight_eq_div_pow]
  have h16 : (v >>> 16).toNat = v.toNat / 65536 := by
    rw [BitVec.toNat_ushiftRight, Nat.shiftRight_eq_div_pow]
  have h8 : (v >>> 8).toNat = v.toNat / 256 := by
    rw [BitVec.toNat_ushiftRight, Nat.shiftRight_eq_div_pow]
  simp only [w32Bytes, byteOf, h24, h16, h8, u8_ofNat_mod]

theorem beUint32_4' (a b c d : UInt8) :
    beUint32 [a, b, c, d] = u32 d ||| (u32 c <<< 8) ||| (u32 b <<< 16) ||| (u32 a <<< 24) := rfl

/-- `binary.BigEndian.Uint32` on four bytes is `be32` of the model -/
theorem beUint32_4 (a b c d : UInt8) : beUint32 [a, b, c, d] = be32 a b c d := by
  have h : ∀ x : UInt8, x.toNat < 256 := fun x => x.toNat_lt
  rw [beUint32_4', be32, SM4.pack_or _ _ _ _ (h b) (h c) (h d)]
  simp only [u32]
  generalize BitVec.ofNat 32 a.toNat <<< 24 = A
  generalize BitVec.ofNat 32 b.toNat <<< 16 = B
  generalize BitVec.ofNat 32 c.toNat <<< 8 = C
  generalize BitVec.ofNat 32 d.toNat = D
  ac_rfl

/-- `PutUint32(y[0:4], v)` on a `y` with at least four bytes -/
theorem putUint32_zero (a b c d : UInt8) (r : Bytes) (v : W32) :
    putUint32 (a :: b :: c :: d :: r) 0 v = w32Bytes v ++ r := by
  rw [w32Bytes_eq]; rfl

theorem putUint32_succ (a : UInt8) (l : Bytes) (n : Nat) (v : W32) :
    putUint32 (a :: l) (n + 1) v = a :: putUint32 l n v := rfl

/-! ### lists of known minimal length -/

theorem cons_of_le {α : Type} (l : List α) (n : Nat) (h : n + 1 ≤ l.length) :
    ∃ a r, l = a :: r ∧ n ≤ r.length := by
  cases l with
  | nil => simp at h
  | cons a r => exact ⟨a, r, rfl, by simpa using h⟩

theorem explicit16 {α : Type} (l : List α) (h : 16 ≤ l.length) :
    ∃ a0 a1 a2 a3 a4 a5 a6 a7 a8 a9 a10 a11 a12 a13 a14 a15 r, l = a0 :: a1 :: a2 :: a3 :: a4 :: a5 :: a6 :: a7 :: a8 :: a9 :: a10 :: a11 :: a12 :: a13 :: a14 :: a15 :: r := by
  obtain ⟨a0, r0, rfl, h0⟩ := cons_of_le l 15 h
  obtain ⟨a1, r1, rfl, h1⟩ := cons_of_le r0 14 h0
  obtain ⟨a2, r2, rfl, h2⟩ := cons_of_le r1 13 h1
  obtain ⟨a3, r3, rfl, h3⟩ := cons_of_le r2 12 h2
  obtain ⟨a4, r4, rfl, h4⟩ := cons_of_le r3 11 h3
  obtain ⟨a5, r5, rfl, h5⟩ := cons_of_le r4 10 h4
  obtain ⟨a6, r6, rfl, h6⟩ := cons_of_le r5 9 h5
  obtain ⟨a7, r7, rfl, h7⟩ := cons_of_le r6 8 h6
  obtain ⟨a8, r8, rfl, h8⟩ := cons_of_le r7 7 h7
  obtain ⟨a9, r9, rfl, h9⟩ := cons_of_le r8 6 h8
  obtain ⟨a10, r10, rfl, h10⟩ := cons_of_le r9 5 h9
  obtain ⟨a11, r11, rfl, h11⟩ := cons_of_le r10 4 h10
  obtain ⟨a12, r12, rfl, h12⟩ := cons_of_le r11 3 h11
  obtain ⟨a13, r13, rfl, h13⟩ := cons_of_le r12 2 h12
  obtain ⟨a14, r14, rfl, h14⟩ := cons_of_le r13 1 h13
  obtain ⟨a15, r15, rfl, h15⟩ := cons_of_le r14 0 h14
  exact ⟨a0, a1, a2, a3, a4, a5, a6, a7, a8, a9, a10, a11, a12, a13, a14, a15, r15, rfl⟩

theorem explicit32 {α : Type} (l : List α) (h : 32 ≤ l.length) :
    ∃ a0 a1 a2 a3 a4 a5 a6 a7 a8 a9 a10 a11 a12 a13 a14 a15 a16 a17 a18 a19 a20 a21 a22 a23 a24 a25 a26 a27 a28 a29 a30 a31 r, l = a0 :: a1 :: a2 :: a3 :: a4 :: a5 :: a6 :: a7 :: a8 :: a9 :: a10 :: a11 :: a12 :: a13 :: a14 :: a15 :: a16 :: a17 :: a18 :: a19 :: a20 :: a21 :: a22 :: a23 :: a24 :: a25 :: a26 :: a27 :: a28 :: a29 :: a30 :: a31 :: r := by
  obtain ⟨a0, r0, rfl, h0⟩ := cons_of_le l 31 h
  obtain ⟨a1, r1, rfl, h1⟩ := cons_of_le r0 30 h0
  obtain ⟨a2, r2, rfl, h2⟩ := cons_of_le r1 29 h1
  obtain ⟨a3, r3, rfl, h3⟩ := cons_of_le r2 28 h2
  obtain ⟨a4, r4, rfl, h4⟩ := cons_of_le r3 27 h3
  obtain ⟨a5, r5, rfl, h5⟩ := cons_of_le r4 26 h4
  obtain ⟨a6, r6, rfl, h6⟩ := cons_of_le r5 25 h5
  obtain ⟨a7, r7, rfl, h7⟩ := cons_of_le r6 24 h6
  obtain ⟨a8, r8, rfl, h8⟩ := cons_of_le r7 23 h7
  obtain ⟨a9, r9, rfl, h9⟩ := cons_of_le r8 22 h8
  obtain ⟨a10, r10, rfl, h10⟩ := cons_of_le r9 21 h9
  obtain ⟨a11, r11, rfl, h11⟩ := cons_of_le r10 20 h10
  obtain ⟨a12, r12, rfl, h12⟩ := cons_of_le r11 19 h11
  obtain ⟨a13, r13, rfl, h13⟩ := cons_of_le r12 18 h12
  obtain ⟨a14, r14, rfl, h14⟩ := cons_of_le r13 17 h13
  obtain ⟨a15, r15, rfl, h15⟩ := cons_of_le r14 16 h14
  obtain ⟨a16, r16, rfl, h16⟩ := cons_of_le r15 15 h15
  obtain ⟨a17, r17, rfl, h17⟩ := cons_of_le r16 14 h16
  obtain ⟨a18, r18, rfl, h18⟩ := cons_of_le r17 13 h17
  obtain ⟨a19, r19, rfl, h19⟩ := cons_of_le r18 12 h18
  obtain ⟨a20, r20, rfl, h20⟩ := cons_of_le r19 11 h19
  obtain ⟨a21, r21, rfl, h21⟩ := cons_of_le r20 10 h20
  obtain ⟨a22, r22, rfl, h22⟩ := cons_of_le r21 9 h21
  obtain ⟨a23, r23, rfl, h23⟩ := cons_of_le r22 8 h22
  obtain ⟨a24, r24, rfl, h24⟩ := cons_of_le r23 7 h23
  obtain ⟨a25, r25, rfl, h25⟩ := cons_of_le r24 6 h24
  obtain ⟨a26, r26, rfl, h26⟩ := cons_of_le r25 5 h25
  obtain ⟨a27, r27, rfl, h27⟩ := cons_of_le r26 4 h26
  obtain ⟨a28, r28, rfl, h28⟩ := cons_of_le r27 3 h27
  obtain ⟨a29, r29, rfl, h29⟩ := cons_of_le r28 2 h28
  obtain ⟨a30, r30, rfl, h30⟩ := cons_of_le r29 1 h29
  obtain ⟨a31, r31, rfl, h31⟩ := cons_of_le r30 0 h30
  exact ⟨a0, a1, a2, a3, a4, a5, a6, a7, a8, a9, a10, a11, a12, a13, a14, a15, a16, a17, a18, a19, a20, a21, a22, a23, a24, a25, a26, a27, a28, a29, a30, a31, r31, rfl⟩

theorem explicit32_eq {α : Type} (l : List α) (h : l.length = 32) :
    ∃ a0 a1 a2 a3 a4 a5 a6 a7 a8 a9 a10 a11 a12 a13 a14 a15 a16 a17 a18 a19 a20 a21 a22 a23 a24 a25 a26 a27 a28 a29
      a30 a31, l = [a0, a1, a2, a3, a4, a5, a6, a7, a8, a9, a10, a11, a12, a13, a14, a15, a16, a17, a18, a19, a20, a21,
        a22, a23, a24, a25, a26, a27, a28, a29, a30, a31] := by
  obtain ⟨a0, a1, a2, a3, a4, a5, a6, a7, a8, a9, a10, a11, a12, a13, a14, a15, a16, a17, a18, a19, a20, a21, a22, a23,
    a24, a25, a26, a27, a28, a29, a30, a31, r, rfl⟩ := explicit32 l (by omega)
  have hr : r = [] := List.length_eq_zero_iff.mp (by simpa using h)
  subst hr
  exact ⟨a0, a1, a2, a3, a4, a5, a6, a7, a8, a9, a10, a11, a12, a13, a14, a15, a16, a17, a18, a19, a20, a21, a22, a23,
    a24, a25, a26, a27, a28, a29, a30, a31, rfl⟩

end SMGo.Proofs.SM4Gen
