import SMGo.Proofs.ISAValWideSpec
namespace SMGo.Proofs.ISAVal
open SMGo.Model.ISAVal SMGo.Model.ISA SMGo

/-! ## cryptoBlockAsmX2: two blocks in dword lanes 0 and 1 of 128-bit registers (lanes 2 and 3 carry copies) -/

/-- after the constants and the two loads: `rev32` of both vectors, then the partial transposition -/
def x2midCode (vl : Nat) : List DInstr :=
  [ins .VPSHUFB [R 12, R 6, R 6] vl, ins .VPSHUFB [R 12, R 7, R 7] vl,
   ins .VPUNPCKHDQ [R 7, R 6, R 8] vl, ins .VPUNPCKLDQ [R 7, R 6, R 6] vl,
   ins .VPUNPCKHQDQ [R 6, R 6, R 7] vl, ins .VPUNPCKHQDQ [R 6, R 8, R 9] vl]

/-- dword facts of the four unpack instructions on lane 0 of a 128-bit register -/
theorem d0_unpckldq (n a b : Nat) (hn : 0 < n) :
    lane 32 0 (map2 128 n unpckldq a b) = lane 32 0 b ∧ lane 32 1 (map2 128 n unpckldq a b) = lane 32 0 a ∧
    lane 32 2 (map2 128 n unpckldq a b) = lane 32 1 b ∧ lane 32 3 (map2 128 n unpckldq a b) = lane 32 1 a := by
  simpa only [Nat.mul_zero, Nat.zero_add] using d_unpckldq n 0 a b hn
theorem d0_unpckhdq (n a b : Nat) (hn : 0 < n) :
    lane 32 0 (map2 128 n unpckhdq a b) = lane 32 2 b ∧ lane 32 1 (map2 128 n unpckhdq a b) = lane 32 2 a ∧
    lane 32 2 (map2 128 n unpckhdq a b) = lane 32 3 b ∧ lane 32 3 (map2 128 n unpckhdq a b) = lane 32 3 a := by
  simpa only [Nat.mul_zero, Nat.zero_add] using d_unpckhdq n 0 a b hn
theorem d0_unpcklqdq (n a b : Nat) (hn : 0 < n) :
    lane 32 0 (map2 128 n unpcklqdq a b) = lane 32 0 b ∧ lane 32 1 (map2 128 n unpcklqdq a b) = lane 32 1 b ∧
    lane 32 2 (map2 128 n unpcklqdq a b) = lane 32 0 a ∧ lane 32 3 (map2 128 n unpcklqdq a b) = lane 32 1 a := by
  simpa only [Nat.mul_zero, Nat.zero_add] using d_unpcklqdq n 0 a b hn
theorem d0_unpckhqdq (n a b : Nat) (hn : 0 < n) :
    lane 32 0 (map2 128 n unpckhqdq a b) = lane 32 2 b ∧ lane 32 1 (map2 128 n unpckhqdq a b) = lane 32 3 b ∧
    lane 32 2 (map2 128 n unpckhqdq a b) = lane 32 2 a ∧ lane 32 3 (map2 128 n unpckhqdq a b) = lane 32 3 a := by
  simpa only [Nat.mul_zero, Nat.zero_add] using d_unpckhqdq n 0 a b hn

/-- what the middle of the prologue leaves in dwords 0..3 of V6..V9, in terms of the byte-reversed dwords
    `a k` of the first and `b k` of the second loaded vector -/
structure X2Mid (s s' : State) : Prop where
  v6 : lane 32 0 (vreg s' 6) = bswap32 (lane 32 0 (vreg s 6)) ∧ lane 32 1 (vreg s' 6) = bswap32 (lane 32 0 (vreg s 7)) ∧
       lane 32 2 (vreg s' 6) = bswap32 (lane 32 1 (vreg s 6)) ∧ lane 32 3 (vreg s' 6) = bswap32 (lane 32 1 (vreg s 7))
  v7 : lane 32 0 (vreg s' 7) = bswap32 (lane 32 1 (vreg s 6)) ∧ lane 32 1 (vreg s' 7) = bswap32 (lane 32 1 (vreg s 7)) ∧
       lane 32 2 (vreg s' 7) = bswap32 (lane 32 1 (vreg s 6)) ∧ lane 32 3 (vreg s' 7) = bswap32 (lane 32 1 (vreg s 7))
  v8 : lane 32 0 (vreg s' 8) = bswap32 (lane 32 2 (vreg s 6)) ∧ lane 32 1 (vreg s' 8) = bswap32 (lane 32 2 (vreg s 7)) ∧
       lane 32 2 (vreg s' 8) = bswap32 (lane 32 3 (vreg s 6)) ∧ lane 32 3 (vreg s' 8) = bswap32 (lane 32 3 (vreg s 7))
  v9 : lane 32 0 (vreg s' 9) = bswap32 (lane 32 3 (vreg s 6)) ∧ lane 32 1 (vreg s' 9) = bswap32 (lane 32 3 (vreg s 7)) ∧
       lane 32 2 (vreg s' 9) = bswap32 (lane 32 1 (vreg s 6)) ∧ lane 32 3 (vreg s' 9) = bswap32 (lane 32 1 (vreg s 7))

set_option maxRecDepth 100000 in
theorem x2mid_spec (vl : Nat) (hvl : validVl vl = true) (s : State) (hV : s.vec.length = 32) (h12 : vreg s 12 = SHUFvl vl) :
    ∃ s', execList (x2midCode vl) s = .ok s' ∧ WFrame s s' ∧ X2Mid s s' := by
  have hvl' : vl = 16 ∨ vl = 32 ∨ vl = 64 := by
    simpa only [validVl, Bool.or_eq_true, beq_iff_eq, or_assoc] using hvl
  have hn : 0 < vl / 16 := by omega
  have h4 : ∀ j, j < 4 → j < vl / 4 := by intro j hj; omega
  obtain ⟨gpr, vec, k, fl, mem, syms, frame⟩ := s
  simp only at hV
  obtain ⟨b0, b1, b2, b3, b4, b5, b6, b7, b8, b9, b10, b11, b12, b13, b14, b15, b16, b17, b18, b19, b20, b21, b22, b23, b24, b25, b26, b27, b28, b29, b30, b31, rfl⟩ := list32 vec hV
  simp only [vreg, List.getD_cons_succ, List.getD_cons_zero] at h12
  subst h12
  apply Exists.intro
  apply And.intro
  · unfold x2midCode
    gstep; gstep; gstep; gstep; gstep; gstep
    exact execList_nil _
  · simp only [List.set_cons_succ, List.set_cons_zero]
    refine ⟨⟨rfl, rfl, rfl, rfl, rfl, rfl, rfl, rfl, rfl⟩, ⟨?_, ?_, ?_, ?_⟩⟩
    all_goals
      simp only [vreg, List.getD_cons_succ, List.getD_cons_zero]
      simp only [(d0_unpckhqdq _ _ _ hn).1, (d0_unpckhqdq _ _ _ hn).2.1, (d0_unpckhqdq _ _ _ hn).2.2.1, (d0_unpckhqdq _ _ _ hn).2.2.2,
        (d0_unpckldq _ _ _ hn).1, (d0_unpckldq _ _ _ hn).2.1, (d0_unpckldq _ _ _ hn).2.2.1, (d0_unpckldq _ _ _ hn).2.2.2,
        (d0_unpckhdq _ _ _ hn).1, (d0_unpckhdq _ _ _ hn).2.1, (d0_unpckhdq _ _ _ hn).2.2.1, (d0_unpckhdq _ _ _ hn).2.2.2,
        lane32_rev32 vl _ 0 hvl (h4 0 (by decide)), lane32_rev32 vl _ 1 hvl (h4 1 (by decide)),
        lane32_rev32 vl _ 2 hvl (h4 2 (by decide)), lane32_rev32 vl _ 3 hvl (h4 3 (by decide)), and_self]


/-- the vector part of the epilogue: gather the four words of each block, `rev32` -/
def x2endCode (vl : Nat) : List DInstr :=
  [ins .VPUNPCKLDQ [R 8, R 9, R 0] vl, ins .VPUNPCKLDQ [R 6, R 7, R 1] vl,
   ins .VPUNPCKLQDQ [R 1, R 0, R 9] vl, ins .VPUNPCKHQDQ [R 1, R 0, R 8] vl,
   ins .VPSHUFB [R 12, R 9, R 9] vl, ins .VPSHUFB [R 12, R 8, R 8] vl]

structure X2End (s s' : State) : Prop where
  v9 : lane 32 0 (vreg s' 9) = bswap32 (lane 32 0 (vreg s 9)) ∧ lane 32 1 (vreg s' 9) = bswap32 (lane 32 0 (vreg s 8)) ∧
       lane 32 2 (vreg s' 9) = bswap32 (lane 32 0 (vreg s 7)) ∧ lane 32 3 (vreg s' 9) = bswap32 (lane 32 0 (vreg s 6))
  v8 : lane 32 0 (vreg s' 8) = bswap32 (lane 32 1 (vreg s 9)) ∧ lane 32 1 (vreg s' 8) = bswap32 (lane 32 1 (vreg s 8)) ∧
       lane 32 2 (vreg s' 8) = bswap32 (lane 32 1 (vreg s 7)) ∧ lane 32 3 (vreg s' 8) = bswap32 (lane 32 1 (vreg s 6))

set_option maxRecDepth 100000 in
theorem x2end_spec (vl : Nat) (hvl : validVl vl = true) (s : State) (hV : s.vec.length = 32) (h12 : vreg s 12 = SHUFvl vl) :
    ∃ s', execList (x2endCode vl) s = .ok s' ∧ WFrame s s' ∧ X2End s s' := by
  have hvl' : vl = 16 ∨ vl = 32 ∨ vl = 64 := by
    simpa only [validVl, Bool.or_eq_true, beq_iff_eq, or_assoc] using hvl
  have hn : 0 < vl / 16 := by omega
  have h4 : ∀ j, j < 4 → j < vl / 4 := by intro j hj; omega
  obtain ⟨gpr, vec, k, fl, mem, syms, frame⟩ := s
  simp only at hV
  obtain ⟨b0, b1, b2, b3, b4, b5, b6, b7, b8, b9, b10, b11, b12, b13, b14, b15, b16, b17, b18, b19, b20, b21, b22, b23, b24, b25, b26, b27, b28, b29, b30, b31, rfl⟩ := list32 vec hV
  simp only [vreg, List.getD_cons_succ, List.getD_cons_zero] at h12
  subst h12
  apply Exists.intro
  apply And.intro
  · unfold x2endCode
    gstep; gstep; gstep; gstep; gstep; gstep
    exact execList_nil _
  · simp only [List.set_cons_succ, List.set_cons_zero]
    refine ⟨⟨rfl, rfl, rfl, rfl, rfl, rfl, rfl, rfl, rfl⟩, ⟨?_, ?_⟩⟩
    all_goals
      simp only [vreg, List.getD_cons_succ, List.getD_cons_zero]
      simp only [(d0_unpcklqdq _ _ _ hn).1, (d0_unpcklqdq _ _ _ hn).2.1, (d0_unpcklqdq _ _ _ hn).2.2.1, (d0_unpcklqdq _ _ _ hn).2.2.2,
        (d0_unpckhqdq _ _ _ hn).1, (d0_unpckhqdq _ _ _ hn).2.1, (d0_unpckhqdq _ _ _ hn).2.2.1, (d0_unpckhqdq _ _ _ hn).2.2.2,
        (d0_unpckldq _ _ _ hn).1, (d0_unpckldq _ _ _ hn).2.1, (d0_unpckldq _ _ _ hn).2.2.1, (d0_unpckldq _ _ _ hn).2.2.2,
        lane32_rev32 vl _ 0 hvl (h4 0 (by decide)), lane32_rev32 vl _ 1 hvl (h4 1 (by decide)),
        lane32_rev32 vl _ 2 hvl (h4 2 (by decide)), lane32_rev32 vl _ 3 hvl (h4 3 (by decide)), and_self]

/-! ### the scheme of the listing -/

def x2proCode : List DInstr :=
  [ins .LEAQ [.sym "Shuffle" 0, G 1] 0,
   ins .VMOVDQU32 [M 1 0, R 12] 16,
   ins .MOVQ [.frame "src" 24, G 1] 0,
   ins .VMOVDQU32 [M 1 0, R 6] 16,
   ins .VMOVDQU32 [M 1 ((16 : Nat)), R 7] 16,
   ins .LEAQ [.sym "PreAffineMatrix" 0, G 0] 0,
   ins .LEAQ [.sym "PostAffineMatrix" 0, G 3] 0,
   ins .VBROADCASTI32X2 [M 0 0, R 10] 16,
   ins .VBROADCASTI32X2 [M 3 0, R 11] 16,
   ins .MOVQ [.frame "rk" 8, G 0] 0,
   ins .MOVQ [.frame "dst" 16, G 3] 0] ++ x2midCode 16

def x2epiCode : List DInstr :=
  x2endCode 16 ++ [ins .VMOVDQU32 [R 9, M 3 0] 16, ins .VMOVDQU32 [R 8, M 3 ((16 : Nat))] 16]

def x2Code : List DInstr := x2proCode ++ roundsCodeL 16 32 ++ x2epiCode

theorem x2_decode :
    (Routine.ofListing Gen.ListAmd64Asm.cryptoBlockAsmX2).toOption.map (fun r => r.map erasePc) = some (x2Code ++ [ins .RET [] 0]) := by
  decide +kernel
theorem x2_noControl : x2Code.all (fun i => !i.mn.isControl) = true := by decide +kernel
theorem x2_length : x2Code.length = 569 := by decide +kernel

end SMGo.Proofs.ISAVal
