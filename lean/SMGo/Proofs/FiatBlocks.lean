/-
  Modulus-independent blocks of the Fiat-Crypto word-by-word Montgomery code (property C16):
  a row product x·(b0..b3) as five limbs, carry-chain additions, the reduction addition with
  shift, and the final conditional subtraction.  Each block is a small function of a few naturals
  (explicit limb arguments: the kernel compares `block x y z` with `[x', y', z']` cheaply) with a
  specification proved by `omega` in isolation.  Core Lean only.
-/
import SMGo.Proofs.FiatPrim
import SMGo.Proofs.FiatSmallP
set_option linter.unusedVariables false
namespace SMGo.Proofs.Fiat
open SMGo SMGo.Model.FiatPrim
open SMGo.Proofs.FiatSmallP (v4 v4_lt chain_sub chain_add)

/-- five limbs below 2^64 with value `v` -/
def L5 (l : List Nat) (v : Nat) : Prop :=
  ∃ t0 t1 t2 t3 t4, l = [t0, t1, t2, t3, t4] ∧ t0 < 18446744073709551616 ∧ t1 < 18446744073709551616 ∧
    t2 < 18446744073709551616 ∧ t3 < 18446744073709551616 ∧ t4 < 18446744073709551616 ∧
    t0 + t1 * 18446744073709551616 + t2 * 340282366920938463463374607431768211456 + t3 * 6277101735386680763835789423207666416102355444464034512896 + t4 * 115792089237316195423570985008687907853269984665640564039457584007913129639936 = v

/-- six limbs below 2^64 with value `v` -/
def L6 (l : List Nat) (v : Nat) : Prop :=
  ∃ t0 t1 t2 t3 t4 t5, l = [t0, t1, t2, t3, t4, t5] ∧ t0 < 18446744073709551616 ∧ t1 < 18446744073709551616 ∧
    t2 < 18446744073709551616 ∧ t3 < 18446744073709551616 ∧ t4 < 18446744073709551616 ∧ t5 < 18446744073709551616 ∧
    t0 + t1 * 18446744073709551616 + t2 * 340282366920938463463374607431768211456 + t3 * 6277101735386680763835789423207666416102355444464034512896 + t4 * 115792089237316195423570985008687907853269984665640564039457584007913129639936 + t5 * 2135987035920910082395021706169552114602704522356652769947041607822219725780640550022962086936576 = v

theorem L5.elim {t0 t1 t2 t3 t4 v : Nat} (h : L5 [t0, t1, t2, t3, t4] v) :
    t0 < 18446744073709551616 ∧ t1 < 18446744073709551616 ∧ t2 < 18446744073709551616 ∧ t3 < 18446744073709551616 ∧ t4 < 18446744073709551616 ∧
    t0 + t1 * 18446744073709551616 + t2 * 340282366920938463463374607431768211456 + t3 * 6277101735386680763835789423207666416102355444464034512896 + t4 * 115792089237316195423570985008687907853269984665640564039457584007913129639936 = v := by
  obtain ⟨s0, s1, s2, s3, s4, e, h⟩ := h
  simp only [List.cons.injEq, and_true] at e
  obtain ⟨rfl, rfl, rfl, rfl, rfl⟩ := e
  exact h

theorem L6.elim {t0 t1 t2 t3 t4 t5 v : Nat} (h : L6 [t0, t1, t2, t3, t4, t5] v) :
    t0 < 18446744073709551616 ∧ t1 < 18446744073709551616 ∧ t2 < 18446744073709551616 ∧ t3 < 18446744073709551616 ∧ t4 < 18446744073709551616 ∧ t5 < 18446744073709551616 ∧
    t0 + t1 * 18446744073709551616 + t2 * 340282366920938463463374607431768211456 + t3 * 6277101735386680763835789423207666416102355444464034512896 + t4 * 115792089237316195423570985008687907853269984665640564039457584007913129639936 + t5 * 2135987035920910082395021706169552114602704522356652769947041607822219725780640550022962086936576 = v := by
  obtain ⟨s0, s1, s2, s3, s4, s5, e, h⟩ := h
  simp only [List.cons.injEq, and_true] at e
  obtain ⟨rfl, rfl, rfl, rfl, rfl, rfl⟩ := e
  exact h

theorem L5.head_lt {t0 t1 t2 t3 t4 v : Nat} (h : L5 [t0, t1, t2, t3, t4] v) : t0 < 18446744073709551616 := h.elim.1
theorem L6.head_lt {t0 t1 t2 t3 t4 t5 v : Nat} (h : L6 [t0, t1, t2, t3, t4, t5] v) : t0 < 18446744073709551616 := h.elim.1

theorem L5.head_eq {t0 t1 t2 t3 t4 v : Nat} (h : L5 [t0, t1, t2, t3, t4] v) : t0 = v % 18446744073709551616 := by
  obtain ⟨h0, h1, h2, h3, h4, hv⟩ := h.elim; omega
theorem L6.head_eq {t0 t1 t2 t3 t4 t5 v : Nat} (h : L6 [t0, t1, t2, t3, t4, t5] v) : t0 = v % 18446744073709551616 := by
  obtain ⟨h0, h1, h2, h3, h4, h5, hv⟩ := h.elim; omega

/-- four limbs (a canonical-size value) as five limbs with top limb 0 -/
theorem L5.of_four {t0 t1 t2 t3 : Nat} (h0 : t0 < 18446744073709551616) (h1 : t1 < 18446744073709551616) (h2 : t2 < 18446744073709551616) (h3 : t3 < 18446744073709551616) :
    L5 [t0, t1, t2, t3, 0] (v4 t0 t1 t2 t3) :=
  ⟨t0, t1, t2, t3, 0, rfl, h0, h1, h2, h3, by omega, by rw [Nat.zero_mul, Nat.add_zero]⟩

/-- 5-limb row from four 128-bit products given as (hi, lo) pairs -/
def rowOf (h0 l0 h1 l1 h2 l2 h3 l3 : Nat) : List Nat :=
  [l0, add64s h0 l1 0, add64s h1 l2 (add64c h0 l1 0),
   add64s h2 l3 (add64c h1 l2 (add64c h0 l1 0)),
   (add64c h2 l3 (add64c h1 l2 (add64c h0 l1 0)) + h3) % 18446744073709551616]

theorem rowOf_spec (P0 P1 P2 P3 : Nat)
    (h0 : P0 ≤ 340282366920938463426481119284349108225) (h1 : P1 ≤ 340282366920938463426481119284349108225) (h2 : P2 ≤ 340282366920938463426481119284349108225) (h3 : P3 ≤ 340282366920938463426481119284349108225) :
    L5 (rowOf (P0 / 18446744073709551616) (P0 % 18446744073709551616) (P1 / 18446744073709551616) (P1 % 18446744073709551616)
          (P2 / 18446744073709551616) (P2 % 18446744073709551616) (P3 / 18446744073709551616) (P3 % 18446744073709551616))
       (P0 + P1 * 18446744073709551616 + P2 * 340282366920938463463374607431768211456 + P3 * 6277101735386680763835789423207666416102355444464034512896) := by
  refine ⟨_, _, _, _, _, rfl, ?_⟩
  unfold add64s add64c
  omega

theorem mul_le_sq {a b : Nat} (ha : a < 18446744073709551616) (hb : b < 18446744073709551616) : a * b ≤ 340282366920938463426481119284349108225 :=
  Nat.mul_le_mul (show a ≤ 18446744073709551615 by omega) (show b ≤ 18446744073709551615 by omega)

/-- the row x·(b0,b1,b2,b3) as the generated code computes it -/
def mulRow (x b0 b1 b2 b3 : Nat) : List Nat :=
  rowOf (mul64hi x b0) (mul64lo x b0) (mul64hi x b1) (mul64lo x b1)
        (mul64hi x b2) (mul64lo x b2) (mul64hi x b3) (mul64lo x b3)

theorem mulRow_spec {x b0 b1 b2 b3 : Nat} (hx : x < 18446744073709551616) (h0 : b0 < 18446744073709551616)
    (h1 : b1 < 18446744073709551616) (h2 : b2 < 18446744073709551616) (h3 : b3 < 18446744073709551616) :
    L5 (mulRow x b0 b1 b2 b3) (x * v4 b0 b1 b2 b3) := by
  have h := rowOf_spec (x * b0) (x * b1) (x * b2) (x * b3) (mul_le_sq hx h0) (mul_le_sq hx h1)
    (mul_le_sq hx h2) (mul_le_sq hx h3)
  have e : x * v4 b0 b1 b2 b3 = x * b0 + x * b1 * 18446744073709551616 + x * b2 * 340282366920938463463374607431768211456 + x * b3 * 6277101735386680763835789423207666416102355444464034512896 := by
    simp only [v4, Nat.mul_add, Nat.mul_assoc]
  rw [e]; exact h

/-- 5 limbs + 5 limbs → 6 limbs -/
def addRow (t0 t1 t2 t3 t4 r0 r1 r2 r3 r4 : Nat) : List Nat :=
  [add64s t0 r0 0, add64s t1 r1 (add64c t0 r0 0),
   add64s t2 r2 (add64c t1 r1 (add64c t0 r0 0)),
   add64s t3 r3 (add64c t2 r2 (add64c t1 r1 (add64c t0 r0 0))),
   add64s t4 r4 (add64c t3 r3 (add64c t2 r2 (add64c t1 r1 (add64c t0 r0 0)))),
   add64c t4 r4 (add64c t3 r3 (add64c t2 r2 (add64c t1 r1 (add64c t0 r0 0))))]

theorem addRow_spec {t0 t1 t2 t3 t4 r0 r1 r2 r3 r4 vt vr : Nat}
    (ht : L5 [t0, t1, t2, t3, t4] vt) (hr : L5 [r0, r1, r2, r3, r4] vr) :
    L6 (addRow t0 t1 t2 t3 t4 r0 r1 r2 r3 r4) (vt + vr) := by
  obtain ⟨ht0, ht1, ht2, ht3, ht4, hvt⟩ := ht.elim
  obtain ⟨hr0, hr1, hr2, hr3, hr4, hvr⟩ := hr.elim
  refine ⟨_, _, _, _, _, _, rfl, ?_⟩
  clear ht hr
  unfold add64s add64c
  omega

/-- reduction add with shift, T has 5 limbs (first round) -/
def redAdd5 (t0 t1 t2 t3 t4 r0 r1 r2 r3 r4 : Nat) : List Nat :=
  [add64s t1 r1 (add64c t0 r0 0),
   add64s t2 r2 (add64c t1 r1 (add64c t0 r0 0)),
   add64s t3 r3 (add64c t2 r2 (add64c t1 r1 (add64c t0 r0 0))),
   add64s t4 r4 (add64c t3 r3 (add64c t2 r2 (add64c t1 r1 (add64c t0 r0 0)))),
   add64c t4 r4 (add64c t3 r3 (add64c t2 r2 (add64c t1 r1 (add64c t0 r0 0))))]

theorem redAdd5_spec {t0 t1 t2 t3 t4 r0 r1 r2 r3 r4 vt vr : Nat}
    (ht : L5 [t0, t1, t2, t3, t4] vt) (hr : L5 [r0, r1, r2, r3, r4] vr)
    (hz : (vt + vr) % 18446744073709551616 = 0) :
    L5 (redAdd5 t0 t1 t2 t3 t4 r0 r1 r2 r3 r4) ((vt + vr) / 18446744073709551616) := by
  obtain ⟨ht0, ht1, ht2, ht3, ht4, hvt⟩ := ht.elim
  obtain ⟨hr0, hr1, hr2, hr3, hr4, hvr⟩ := hr.elim
  refine ⟨_, _, _, _, _, rfl, ?_⟩
  clear ht hr
  unfold add64s add64c
  omega

/-- reduction add with shift, T has 6 limbs (later rounds) -/
def redAdd6 (t0 t1 t2 t3 t4 t5 r0 r1 r2 r3 r4 : Nat) : List Nat :=
  [add64s t1 r1 (add64c t0 r0 0),
   add64s t2 r2 (add64c t1 r1 (add64c t0 r0 0)),
   add64s t3 r3 (add64c t2 r2 (add64c t1 r1 (add64c t0 r0 0))),
   add64s t4 r4 (add64c t3 r3 (add64c t2 r2 (add64c t1 r1 (add64c t0 r0 0)))),
   (add64c t4 r4 (add64c t3 r3 (add64c t2 r2 (add64c t1 r1 (add64c t0 r0 0)))) + t5) % 18446744073709551616]

theorem redAdd6_spec {t0 t1 t2 t3 t4 t5 r0 r1 r2 r3 r4 vt vr : Nat}
    (ht : L6 [t0, t1, t2, t3, t4, t5] vt) (hr : L5 [r0, r1, r2, r3, r4] vr)
    (hz : (vt + vr) % 18446744073709551616 = 0) (hlt : vt + vr < 39402006196394479212279040100143613805079739270465446667948293404245721771497210611414266254884915640806627990306816) :
    L5 (redAdd6 t0 t1 t2 t3 t4 t5 r0 r1 r2 r3 r4) ((vt + vr) / 18446744073709551616) := by
  obtain ⟨ht0, ht1, ht2, ht3, ht4, ht5, hvt⟩ := ht.elim
  obtain ⟨hr0, hr1, hr2, hr3, hr4, hvr⟩ := hr.elim
  refine ⟨_, _, _, _, _, rfl, ?_⟩
  clear ht hr
  unfold add64s add64c
  omega

/-- final conditional subtraction of the modulus (m0..m3) from a 5-limb value -/
def condSub (m0 m1 m2 m3 t0 t1 t2 t3 t4 : Nat) : List Nat :=
  [cmov (sub64b t4 0 (sub64b t3 m3 (sub64b t2 m2 (sub64b t1 m1 (sub64b t0 m0 0))))) (sub64d t0 m0 0) t0,
   cmov (sub64b t4 0 (sub64b t3 m3 (sub64b t2 m2 (sub64b t1 m1 (sub64b t0 m0 0)))))
     (sub64d t1 m1 (sub64b t0 m0 0)) t1,
   cmov (sub64b t4 0 (sub64b t3 m3 (sub64b t2 m2 (sub64b t1 m1 (sub64b t0 m0 0)))))
     (sub64d t2 m2 (sub64b t1 m1 (sub64b t0 m0 0))) t2,
   cmov (sub64b t4 0 (sub64b t3 m3 (sub64b t2 m2 (sub64b t1 m1 (sub64b t0 m0 0)))))
     (sub64d t3 m3 (sub64b t2 m2 (sub64b t1 m1 (sub64b t0 m0 0)))) t3]

theorem condSub_final {A M T d4 t4 b3 b4 v : Nat}
    (hA : A < 115792089237316195423570985008687907853269984665640564039457584007913129639936) (hM : M < 115792089237316195423570985008687907853269984665640564039457584007913129639936) (hT : T < 115792089237316195423570985008687907853269984665640564039457584007913129639936)
    (e : A + M + 0 = T + b3 * 115792089237316195423570985008687907853269984665640564039457584007913129639936)
    (e4 : d4 + 0 + b3 = t4 + b4 * 18446744073709551616)
    (hd4 : d4 < 18446744073709551616) (ht4 : t4 < 18446744073709551616) (hb3 : b3 ≤ 1) (hb4 : b4 ≤ 1)
    (hv : T + t4 * 115792089237316195423570985008687907853269984665640564039457584007913129639936 = v)
    (hv2 : v < 2 * M) :
    (b4 = 0 ∧ A < M ∧ v = A + M) ∨ (b4 = 1 ∧ T < M ∧ v = T) := by
  omega

theorem condSub_spec {m0 m1 m2 m3 t0 t1 t2 t3 t4 v : Nat}
    (hm0 : m0 < 18446744073709551616) (hm1 : m1 < 18446744073709551616) (hm2 : m2 < 18446744073709551616) (hm3 : m3 < 18446744073709551616)
    (ht : L5 [t0, t1, t2, t3, t4] v) (hv : v < 2 * v4 m0 m1 m2 m3) :
    Canon (v4 m0 m1 m2 m3) (condSub m0 m1 m2 m3 t0 t1 t2 t3 t4) ∧
      eval (condSub m0 m1 m2 m3 t0 t1 t2 t3 t4) = v % v4 m0 m1 m2 m3 := by
  obtain ⟨ht0, ht1, ht2, ht3, ht4, hvt⟩ := ht.elim
  clear ht
  unfold condSub
  obtain ⟨e0, hd0, hb0⟩ := sub64_spec ht0 hm0 (Nat.zero_le 1)
  generalize sub64d t0 m0 0 = d0 at *
  generalize sub64b t0 m0 0 = b0 at *
  obtain ⟨e1, hd1, hb1⟩ := sub64_spec ht1 hm1 hb0
  generalize sub64d t1 m1 b0 = d1 at *
  generalize sub64b t1 m1 b0 = b1 at *
  obtain ⟨e2, hd2, hb2⟩ := sub64_spec ht2 hm2 hb1
  generalize sub64d t2 m2 b1 = d2 at *
  generalize sub64b t2 m2 b1 = b2 at *
  obtain ⟨e3, hd3, hb3⟩ := sub64_spec ht3 hm3 hb2
  generalize sub64d t3 m3 b2 = d3 at *
  generalize sub64b t3 m3 b2 = b3 at *
  obtain ⟨e4, hd4, hb4⟩ := sub64_spec ht4 (show 0 < 18446744073709551616 by omega) hb3
  generalize sub64d t4 0 b3 = d4 at *
  generalize sub64b t4 0 b3 = b4 at *
  have hch := chain_sub e0 e1 e2 e3
  have hvt' : v4 t0 t1 t2 t3 + t4 * 115792089237316195423570985008687907853269984665640564039457584007913129639936 = v := hvt
  have hfin := condSub_final (v4_lt hd0 hd1 hd2 hd3) (v4_lt hm0 hm1 hm2 hm3) (v4_lt ht0 ht1 ht2 ht3)
    hch e4 hd4 ht4 hb3 hb4 hvt' hv
  rcases hfin with ⟨rfl, h1, h2⟩ | ⟨rfl, h1, h2⟩
  · rw [cmov_zero _ hd0, cmov_zero _ hd1, cmov_zero _ hd2, cmov_zero _ hd3]
    refine ⟨canon_mk hd0 hd1 hd2 hd3 h1, ?_⟩
    rw [eval_four]
    show v4 d0 d1 d2 d3 = v % v4 m0 m1 m2 m3
    rw [h2, Nat.add_mod_right, Nat.mod_eq_of_lt h1]
  · rw [cmov_one _ ht0, cmov_one _ ht1, cmov_one _ ht2, cmov_one _ ht3]
    refine ⟨canon_mk ht0 ht1 ht2 ht3 h1, ?_⟩
    rw [eval_four]
    show v4 t0 t1 t2 t3 = v % v4 m0 m1 m2 m3
    rw [h2, Nat.mod_eq_of_lt h1]

/-- four rounds of `v' · 2^64 = v + a_i · B + q_i · M` compose to the Montgomery product -/
theorem mont_compose {a0 a1 a2 a3 B v1 v2 v3 v4' q1 q2 q3 q4 M : Nat}
    (e1 : v1 * 18446744073709551616 = a0 * B + q1 * M)
    (e2 : v2 * 18446744073709551616 = v1 + a1 * B + q2 * M)
    (e3 : v3 * 18446744073709551616 = v2 + a2 * B + q3 * M)
    (e4 : v4' * 18446744073709551616 = v3 + a3 * B + q4 * M) :
    v4' * 115792089237316195423570985008687907853269984665640564039457584007913129639936 = v4 a0 a1 a2 a3 * B + (q1 + q2 * 18446744073709551616 + q3 * 340282366920938463463374607431768211456 + q4 * 6277101735386680763835789423207666416102355444464034512896) * M := by
  unfold v4
  rw [Nat.add_mul, Nat.add_mul, Nat.add_mul, Nat.mul_right_comm a1, Nat.mul_right_comm a2, Nat.mul_right_comm a3,
    Nat.add_mul, Nat.add_mul, Nat.add_mul, Nat.mul_right_comm q2, Nat.mul_right_comm q3, Nat.mul_right_comm q4]
  generalize a0 * B = P0 at *
  generalize a1 * B = P1 at *
  generalize a2 * B = P2 at *
  generalize a3 * B = P3 at *
  generalize q1 * M = Q1 at *
  generalize q2 * M = Q2 at *
  generalize q3 * M = Q3 at *
  generalize q4 * M = Q4 at *
  apply Nat.le_antisymm <;> omega

/-- from `v · R = A · B + k · M` to the residue statement -/
theorem mont_residue {v A B k M o : Nat} (h : v * 115792089237316195423570985008687907853269984665640564039457584007913129639936 = A * B + k * M) (ho : o = v % M) :
    (o * 115792089237316195423570985008687907853269984665640564039457584007913129639936) % M = (A * B) % M := by
  rw [ho, Nat.mod_mul_mod, h, Nat.add_mul_mod_self_right]


/-! ### blocks of `ToMontgomery` / `FromMontgomery` (top limbs are inlined expressions there) -/

/-- four limbs below 2^64 with value `v` -/
def L4 (l : List Nat) (v : Nat) : Prop :=
  ∃ t0 t1 t2 t3, l = [t0, t1, t2, t3] ∧ t0 < 18446744073709551616 ∧ t1 < 18446744073709551616 ∧ t2 < 18446744073709551616 ∧ t3 < 18446744073709551616 ∧ v4 t0 t1 t2 t3 = v

theorem L4.elim {t0 t1 t2 t3 v : Nat} (h : L4 [t0, t1, t2, t3] v) :
    t0 < 18446744073709551616 ∧ t1 < 18446744073709551616 ∧ t2 < 18446744073709551616 ∧ t3 < 18446744073709551616 ∧
    t0 + t1 * 18446744073709551616 + t2 * 340282366920938463463374607431768211456 + t3 * 6277101735386680763835789423207666416102355444464034512896 = v := by
  obtain ⟨s0, s1, s2, s3, e, h⟩ := h
  simp only [List.cons.injEq, and_true] at e
  obtain ⟨rfl, rfl, rfl, rfl⟩ := e
  exact h

theorem L4.head_lt {t0 t1 t2 t3 v : Nat} (h : L4 [t0, t1, t2, t3] v) : t0 < 18446744073709551616 := h.elim.1
theorem L4.head_eq {t0 t1 t2 t3 v : Nat} (h : L4 [t0, t1, t2, t3] v) : t0 = v % 18446744073709551616 := by
  obtain ⟨h0, h1, h2, h3, hv⟩ := h.elim; omega

theorem L4.mk {t0 t1 t2 t3 : Nat} (h0 : t0 < 18446744073709551616) (h1 : t1 < 18446744073709551616) (h2 : t2 < 18446744073709551616) (h3 : t3 < 18446744073709551616) :
    L4 [t0, t1, t2, t3] (v4 t0 t1 t2 t3) := ⟨t0, t1, t2, t3, rfl, h0, h1, h2, h3, rfl⟩

theorem L4.to_L5 {t0 t1 t2 t3 v : Nat} (h : L4 [t0, t1, t2, t3] v) : L5 [t0, t1, t2, t3, 0] v := by
  obtain ⟨h0, h1, h2, h3, hv⟩ := h.elim
  exact ⟨t0, t1, t2, t3, 0, rfl, h0, h1, h2, h3, by omega, by rw [Nat.zero_mul, Nat.add_zero]; exact hv⟩

/-- 5 limbs + 5 limbs → 5 limbs (`ToMontgomery`: the sum is known to fit) -/
def addRow5 (t0 t1 t2 t3 t4 r0 r1 r2 r3 r4 : Nat) : List Nat :=
  [add64s t0 r0 0, add64s t1 r1 (add64c t0 r0 0),
   add64s t2 r2 (add64c t1 r1 (add64c t0 r0 0)),
   add64s t3 r3 (add64c t2 r2 (add64c t1 r1 (add64c t0 r0 0))),
   ((add64c t3 r3 (add64c t2 r2 (add64c t1 r1 (add64c t0 r0 0))) + t4) % 18446744073709551616 + r4) % 18446744073709551616]

theorem addRow5_spec {t0 t1 t2 t3 t4 r0 r1 r2 r3 r4 vt vr : Nat}
    (ht : L5 [t0, t1, t2, t3, t4] vt) (hr : L5 [r0, r1, r2, r3, r4] vr) (hlt : vt + vr < 2135987035920910082395021706169552114602704522356652769947041607822219725780640550022962086936576) :
    L5 (addRow5 t0 t1 t2 t3 t4 r0 r1 r2 r3 r4) (vt + vr) := by
  obtain ⟨ht0, ht1, ht2, ht3, ht4, hvt⟩ := ht.elim
  obtain ⟨hr0, hr1, hr2, hr3, hr4, hvr⟩ := hr.elim
  refine ⟨_, _, _, _, _, rfl, ?_⟩
  clear ht hr
  unfold add64s add64c
  omega

/-- `FromMontgomery`: add one limb to a 4-limb value (the sum is known to fit) -/
def addA4 (u0 u1 u2 u3 a : Nat) : List Nat :=
  [add64s u0 a 0, add64s u1 0 (add64c u0 a 0), add64s u2 0 (add64c u1 0 (add64c u0 a 0)),
   (add64c u2 0 (add64c u1 0 (add64c u0 a 0)) + u3) % 18446744073709551616]

theorem addA4_spec {u0 u1 u2 u3 a v : Nat} (hu : L4 [u0, u1, u2, u3] v) (ha : a < 18446744073709551616)
    (hlt : v + a < 115792089237316195423570985008687907853269984665640564039457584007913129639936) : L4 (addA4 u0 u1 u2 u3 a) (v + a) := by
  obtain ⟨h0, h1, h2, h3, hv⟩ := hu.elim
  refine ⟨_, _, _, _, rfl, ?_⟩
  clear hu
  unfold add64s add64c v4
  omega

/-- `FromMontgomery`: reduction add with shift on a 4-limb value (the quotient is known to fit) -/
def redAdd4 (s0 s1 s2 s3 r0 r1 r2 r3 r4 : Nat) : List Nat :=
  [add64s s1 r1 (add64c s0 r0 0),
   add64s s2 r2 (add64c s1 r1 (add64c s0 r0 0)),
   add64s s3 r3 (add64c s2 r2 (add64c s1 r1 (add64c s0 r0 0))),
   (add64c s3 r3 (add64c s2 r2 (add64c s1 r1 (add64c s0 r0 0))) + r4) % 18446744073709551616]

theorem redAdd4_spec {s0 s1 s2 s3 r0 r1 r2 r3 r4 vs vr : Nat}
    (hs : L4 [s0, s1, s2, s3] vs) (hr : L5 [r0, r1, r2, r3, r4] vr)
    (hz : (vs + vr) % 18446744073709551616 = 0) (hlt : vs + vr < 2135987035920910082395021706169552114602704522356652769947041607822219725780640550022962086936576) :
    L4 (redAdd4 s0 s1 s2 s3 r0 r1 r2 r3 r4) ((vs + vr) / 18446744073709551616) := by
  obtain ⟨hs0, hs1, hs2, hs3, hvs⟩ := hs.elim
  obtain ⟨hr0, hr1, hr2, hr3, hr4, hvr⟩ := hr.elim
  refine ⟨_, _, _, _, rfl, ?_⟩
  clear hs hr
  unfold add64s add64c v4
  omega

/-- cancel the Montgomery radix: `x·R ≡ y·R`, `R·R⁻¹ ≡ 1` ⟹ `x ≡ y` -/
theorem mod_cancel {x y r ri m : Nat} (h : (x * r) % m = (y * r) % m) (hr : (r * ri) % m = 1) :
    x % m = y % m := by
  have key : ∀ z : Nat, z % m = ((z * r) % m * ri) % m := by
    intro z
    rw [Nat.mod_mul_mod, Nat.mul_assoc, Nat.mul_mod z (r * ri) m, hr, Nat.mul_one, Nat.mod_mod]
  rw [key x, key y, h]

end SMGo.Proofs.Fiat
