import SMGo.Proofs.FiatPrim
import SMGo.Proofs.FiatSmallP
/-
  Modulus-independent blocks of the Fiat-Crypto word-by-word Montgomery code (property C16):
  a row product x·(b0..b3) as five limbs, carry-chain additions, the reduction addition with
  shift, and the final conditional subtraction.  Each block is a small function over limb lists
  with a specification proved by `omega` in isolation.
-/
namespace SMGo.Proofs.Fiat
open SMGo SMGo.Model.FiatPrim
open SMGo.Proofs.FiatSmallP (v4 v4_lt chain_sub chain_add)

/-- five limbs below 2^64 with value `v` -/
def L5 (l : List Nat) (v : Nat) : Prop :=
  ∃ t0 t1 t2 t3 t4, l = [t0, t1, t2, t3, t4] ∧ t0 < 18446744073709551616 ∧ t1 < 18446744073709551616 ∧
    t2 < 18446744073709551616 ∧ t3 < 18446744073709551616 ∧ t4 < 18446744073709551616 ∧
    t0 + t1 * 18446744073709551616 + t2 * 340282366920938463463374607431768211456
      + t3 * 6277101735386680763835789423207666416102355444464034512896
      + t4 * 115792089237316195423570985008687907853269984665640564039457584007913129639936 = v

/-- six limbs below 2^64 with value `v` -/
def L6 (l : List Nat) (v : Nat) : Prop :=
  ∃ t0 t1 t2 t3 t4 t5, l = [t0, t1, t2, t3, t4, t5] ∧ t0 < 18446744073709551616 ∧ t1 < 18446744073709551616 ∧
    t2 < 18446744073709551616 ∧ t3 < 18446744073709551616 ∧ t4 < 18446744073709551616 ∧ t5 < 18446744073709551616 ∧
    t0 + t1 * 18446744073709551616 + t2 * 340282366920938463463374607431768211456
      + t3 * 6277101735386680763835789423207666416102355444464034512896
      + t4 * 115792089237316195423570985008687907853269984665640564039457584007913129639936
      + t5 * 2135987035920910082395021706169552114602704522356652769947041607822219725780640550022962086936576 = v

theorem L5.head {l : List Nat} {v : Nat} (h : L5 l v) : l.getD 0 0 = v % 18446744073709551616 := by
  obtain ⟨t0, t1, t2, t3, t4, rfl, h0, h1, h2, h3, h4, hv⟩ := h
  simp only [List.getD_cons_zero]; omega

theorem L6.head {l : List Nat} {v : Nat} (h : L6 l v) : l.getD 0 0 = v % 18446744073709551616 := by
  obtain ⟨t0, t1, t2, t3, t4, t5, rfl, h0, h1, h2, h3, h4, h5, hv⟩ := h
  simp only [List.getD_cons_zero]; omega

/-- 5-limb row from four 128-bit products given as (hi, lo) pairs -/
def rowOf (h0 l0 h1 l1 h2 l2 h3 l3 : Nat) : List Nat :=
  [l0, add64s h0 l1 0, add64s h1 l2 (add64c h0 l1 0),
   add64s h2 l3 (add64c h1 l2 (add64c h0 l1 0)),
   (add64c h2 l3 (add64c h1 l2 (add64c h0 l1 0)) + h3) % 18446744073709551616]

theorem rowOf_spec (P0 P1 P2 P3 : Nat)
    (h0 : P0 ≤ 340282366920938463426481119284349108225) (h1 : P1 ≤ 340282366920938463426481119284349108225)
    (h2 : P2 ≤ 340282366920938463426481119284349108225) (h3 : P3 ≤ 340282366920938463426481119284349108225) :
    L5 (rowOf (P0 / 18446744073709551616) (P0 % 18446744073709551616) (P1 / 18446744073709551616) (P1 % 18446744073709551616)
          (P2 / 18446744073709551616) (P2 % 18446744073709551616) (P3 / 18446744073709551616) (P3 % 18446744073709551616))
       (P0 + P1 * 18446744073709551616 + P2 * 340282366920938463463374607431768211456
          + P3 * 6277101735386680763835789423207666416102355444464034512896) := by
  refine ⟨_, _, _, _, _, rfl, ?_⟩
  unfold add64s add64c
  omega

theorem mul_le_sq {a b : Nat} (ha : a < 18446744073709551616) (hb : b < 18446744073709551616) :
    a * b ≤ 340282366920938463426481119284349108225 :=
  Nat.mul_le_mul (show a ≤ 18446744073709551615 by omega) (show b ≤ 18446744073709551615 by omega)

/-- the row x·(b0,b1,b2,b3) as the generated code computes it -/
def mulRow (x b0 b1 b2 b3 : Nat) : List Nat :=
  rowOf (mul64hi x b0) (mul64lo x b0) (mul64hi x b1) (mul64lo x b1)
        (mul64hi x b2) (mul64lo x b2) (mul64hi x b3) (mul64lo x b3)

theorem mulRow_spec {x b0 b1 b2 b3 : Nat} (hx : x < 18446744073709551616) (h0 : b0 < 18446744073709551616)
    (h1 : b1 < 18446744073709551616) (h2 : b2 < 18446744073709551616) (h3 : b3 < 18446744073709551616) :
    L5 (mulRow x b0 b1 b2 b3)
      (x * (b0 + b1 * 18446744073709551616 + b2 * 340282366920938463463374607431768211456
          + b3 * 6277101735386680763835789423207666416102355444464034512896)) := by
  have h := rowOf_spec (x * b0) (x * b1) (x * b2) (x * b3) (mul_le_sq hx h0) (mul_le_sq hx h1)
    (mul_le_sq hx h2) (mul_le_sq hx h3)
  have e : x * (b0 + b1 * 18446744073709551616 + b2 * 340282366920938463463374607431768211456
          + b3 * 6277101735386680763835789423207666416102355444464034512896)
      = x * b0 + x * b1 * 18446744073709551616 + x * b2 * 340282366920938463463374607431768211456
          + x * b3 * 6277101735386680763835789423207666416102355444464034512896 := by
    simp only [Nat.mul_add, Nat.mul_assoc]
  rw [e]; exact h

/-- 5 limbs + 5 limbs → 6 limbs -/
def addRow (t r : List Nat) : List Nat :=
  let c0 := add64c (t.getD 0 0) (r.getD 0 0) 0
  let c1 := add64c (t.getD 1 0) (r.getD 1 0) c0
  let c2 := add64c (t.getD 2 0) (r.getD 2 0) c1
  let c3 := add64c (t.getD 3 0) (r.getD 3 0) c2
  [add64s (t.getD 0 0) (r.getD 0 0) 0, add64s (t.getD 1 0) (r.getD 1 0) c0,
   add64s (t.getD 2 0) (r.getD 2 0) c1, add64s (t.getD 3 0) (r.getD 3 0) c2,
   add64s (t.getD 4 0) (r.getD 4 0) c3, add64c (t.getD 4 0) (r.getD 4 0) c3]

theorem addRow_spec {t r : List Nat} {vt vr : Nat} (ht : L5 t vt) (hr : L5 r vr) :
    L6 (addRow t r) (vt + vr) := by
  obtain ⟨t0, t1, t2, t3, t4, rfl, ht0, ht1, ht2, ht3, ht4, hvt⟩ := ht
  obtain ⟨r0, r1, r2, r3, r4, rfl, hr0, hr1, hr2, hr3, hr4, hvr⟩ := hr
  refine ⟨_, _, _, _, _, _, rfl, ?_⟩
  simp only [List.getD_cons_zero, List.getD_cons_succ]
  unfold add64s add64c
  omega

/-- reduction add with shift, first round (T has 5 limbs) -/
def redAdd5 (t r : List Nat) : List Nat :=
  let c0 := add64c (t.getD 0 0) (r.getD 0 0) 0
  let c1 := add64c (t.getD 1 0) (r.getD 1 0) c0
  let c2 := add64c (t.getD 2 0) (r.getD 2 0) c1
  let c3 := add64c (t.getD 3 0) (r.getD 3 0) c2
  [add64s (t.getD 1 0) (r.getD 1 0) c0,
   add64s (t.getD 2 0) (r.getD 2 0) c1, add64s (t.getD 3 0) (r.getD 3 0) c2,
   add64s (t.getD 4 0) (r.getD 4 0) c3, add64c (t.getD 4 0) (r.getD 4 0) c3]

theorem redAdd5_spec {t r : List Nat} {vt vr : Nat} (ht : L5 t vt) (hr : L5 r vr)
    (hz : (vt + vr) % 18446744073709551616 = 0) :
    L5 (redAdd5 t r) ((vt + vr) / 18446744073709551616) := by
  obtain ⟨t0, t1, t2, t3, t4, rfl, ht0, ht1, ht2, ht3, ht4, hvt⟩ := ht
  obtain ⟨r0, r1, r2, r3, r4, rfl, hr0, hr1, hr2, hr3, hr4, hvr⟩ := hr
  refine ⟨_, _, _, _, _, rfl, ?_⟩
  simp only [List.getD_cons_zero, List.getD_cons_succ]
  unfold add64s add64c
  omega

/-- reduction add with shift, later rounds (T has 6 limbs) -/
def redAdd6 (t r : List Nat) : List Nat :=
  let c0 := add64c (t.getD 0 0) (r.getD 0 0) 0
  let c1 := add64c (t.getD 1 0) (r.getD 1 0) c0
  let c2 := add64c (t.getD 2 0) (r.getD 2 0) c1
  let c3 := add64c (t.getD 3 0) (r.getD 3 0) c2
  [add64s (t.getD 1 0) (r.getD 1 0) c0,
   add64s (t.getD 2 0) (r.getD 2 0) c1, add64s (t.getD 3 0) (r.getD 3 0) c2,
   add64s (t.getD 4 0) (r.getD 4 0) c3,
   (add64c (t.getD 4 0) (r.getD 4 0) c3 + t.getD 5 0) % 18446744073709551616]

theorem redAdd6_spec {t r : List Nat} {vt vr : Nat} (ht : L6 t vt) (hr : L5 r vr)
    (hz : (vt + vr) % 18446744073709551616 = 0)
    (hlt : vt + vr < 39402006196394479212279040100143613805079739270465446667948293404245721771497210611414266254884915640806627990306816) :
    L5 (redAdd6 t r) ((vt + vr) / 18446744073709551616) := by
  obtain ⟨t0, t1, t2, t3, t4, t5, rfl, ht0, ht1, ht2, ht3, ht4, ht5, hvt⟩ := ht
  obtain ⟨r0, r1, r2, r3, r4, rfl, hr0, hr1, hr2, hr3, hr4, hvr⟩ := hr
  refine ⟨_, _, _, _, _, rfl, ?_⟩
  simp only [List.getD_cons_zero, List.getD_cons_succ]
  unfold add64s add64c
  omega


/-- final conditional subtraction of the modulus (m0..m3) from a 5-limb value -/
def condSub (m0 m1 m2 m3 : Nat) (t : List Nat) : List Nat :=
  let b0 := sub64b (t.getD 0 0) m0 0
  let b1 := sub64b (t.getD 1 0) m1 b0
  let b2 := sub64b (t.getD 2 0) m2 b1
  let b3 := sub64b (t.getD 3 0) m3 b2
  let b4 := sub64b (t.getD 4 0) 0 b3
  [cmov b4 (sub64d (t.getD 0 0) m0 0) (t.getD 0 0),
   cmov b4 (sub64d (t.getD 1 0) m1 b0) (t.getD 1 0),
   cmov b4 (sub64d (t.getD 2 0) m2 b1) (t.getD 2 0),
   cmov b4 (sub64d (t.getD 3 0) m3 b2) (t.getD 3 0)]

theorem condSub_final {A M T d4 t4 b3 b4 v : Nat}
    (hA : A < 115792089237316195423570985008687907853269984665640564039457584007913129639936)
    (hM : M < 115792089237316195423570985008687907853269984665640564039457584007913129639936)
    (hT : T < 115792089237316195423570985008687907853269984665640564039457584007913129639936)
    (e : A + M + 0 = T + b3 * 115792089237316195423570985008687907853269984665640564039457584007913129639936)
    (e4 : d4 + 0 + b3 = t4 + b4 * 18446744073709551616)
    (hd4 : d4 < 18446744073709551616) (ht4 : t4 < 18446744073709551616) (hb3 : b3 ≤ 1) (hb4 : b4 ≤ 1)
    (hv : T + t4 * 115792089237316195423570985008687907853269984665640564039457584007913129639936 = v)
    (hv2 : v < 2 * M) :
    (b4 = 0 ∧ A < M ∧ v = A + M) ∨ (b4 = 1 ∧ T < M ∧ v = T) := by
  omega

theorem condSub_spec {m0 m1 m2 m3 : Nat} {t : List Nat} {v : Nat}
    (hm0 : m0 < 18446744073709551616) (hm1 : m1 < 18446744073709551616)
    (hm2 : m2 < 18446744073709551616) (hm3 : m3 < 18446744073709551616)
    (ht : L5 t v) (hv : v < 2 * v4 m0 m1 m2 m3) :
    Canon (v4 m0 m1 m2 m3) (condSub m0 m1 m2 m3 t) ∧
      eval (condSub m0 m1 m2 m3 t) = v % v4 m0 m1 m2 m3 := by
  obtain ⟨t0, t1, t2, t3, t4, rfl, ht0, ht1, ht2, ht3, ht4, hvt⟩ := ht
  simp only [condSub, List.getD_cons_zero, List.getD_cons_succ]
  obtain ⟨e0, hd0, hb0⟩ := sub64_spec ht0 hm0 (Nat.zero_le 1)
  generalize sub64d t0 m0 0 = d0 at *
  generalize sub64b t0 m0 0 = b0 at *
  obtain ⟨e1, hd1, hb1⟩ := sub64_spec ht1 hm1 hb0
  generalize sub64d t1 m1 b0 = d1 at *
  generalize sub64b t1 m1 b0 = b1 at *
  obtain ⟨e2, hd2, hb2⟩ := sub64_spec ht2 hm2 hb1
  generalize sub64d t2 m2 b1 = d2 at *
  generalize sub64b t2 m2 b1 = b2 at *
  obtain ⟨e3, hd3, hb3⟩ := sub64_spec ht3 hm3 hb2
  generalize sub64d t3 m3 b2 = d3 at *
  generalize sub64b t3 m3 b2 = b3 at *
  obtain ⟨e4, hd4, hb4⟩ := sub64_spec ht4 (show 0 < 18446744073709551616 by omega) hb3
  generalize sub64d t4 0 b3 = d4 at *
  generalize sub64b t4 0 b3 = b4 at *
  have hch := chain_sub e0 e1 e2 e3
  have hfin := condSub_final (v4_lt hd0 hd1 hd2 hd3) (v4_lt hm0 hm1 hm2 hm3) (v4_lt ht0 ht1 ht2 ht3)
    hch e4 hd4 ht4 hb3 hb4 hvt hv
  rcases hfin with ⟨rfl, h1, h2⟩ | ⟨rfl, h1, h2⟩
  · rw [cmov_zero _ hd0, cmov_zero _ hd1, cmov_zero _ hd2, cmov_zero _ hd3]
    refine ⟨canon_mk hd0 hd1 hd2 hd3 h1, ?_⟩
    rw [eval_four]
    show v4 d0 d1 d2 d3 = v % v4 m0 m1 m2 m3
    rw [h2, Nat.add_mod_right, Nat.mod_eq_of_lt h1]
  · rw [cmov_one _ ht0, cmov_one _ ht1, cmov_one _ ht2, cmov_one _ ht3]
    refine ⟨canon_mk ht0 ht1 ht2 ht3 h1, ?_⟩
    rw [eval_four]
    show v4 t0 t1 t2 t3 = v % v4 m0 m1 m2 m3
    rw [h2, Nat.mod_eq_of_lt h1]

end SMGo.Proofs.Fiat
