/-
  Refinement: the generated IR of utils.DecomposeNAF, utils.getBit and utils.getBits
  (SMGo/Gen/CTIRProgFn.lean, `fn_0`, `fn_1`, `fn_2`) computes the hand-written models
  `Model.Utils.decomposeNAF`, `getBit`, `getBits` (SMGo/Model/Utils.lean).
-/
import SMGo.Proofs.CTIRRefineUtils
import SMGo.Gen.CTIRProgFn
import SMGo.Model.Utils
open SMGo SMGo.Model.CTIR SMGo.Gen.CTIRProgFn
open SMGo.Proofs.CTIRRefineUtils (bytesV bytesV_getIdx norm_i64_small)

namespace SMGo.Proofs.CTIRRefineNaf

/-! ## Encodings -/

/-- a Go `[]int` (non-nil) -/
def intsV (l : List Int) : Val := .arr (l.map Val.int)
/-- a Go `bool`: 0 / 1 -/
def boolV (b : Bool) : Val := .int (if b then 1 else 0)

/-! ## Arithmetic: IR integer operators on small natural numbers -/

theorem pat_i64_nat {n : Nat} (h : n < 18446744073709551616) : pat .i64 (n : Int) = n := by
  simp only [pat, Ty.bits]; omega

theorem pat_u8_nat {n : Nat} (h : n < 256) : pat .u8 (n : Int) = n := by
  simp only [pat, Ty.bits]; omega

theorem norm_i64_nat {n : Nat} (h : n < 9223372036854775808) : norm .i64 (n : Int) = (n : Int) :=
  norm_i64_small (by omega) (by omega)

theorem norm_u8_nat {n : Nat} (h : n < 256) : norm .u8 (n : Int) = (n : Int) := by
  simp only [norm]; omega

theorem and_i64_nat {a b : Nat} (ha : a < 9223372036854775808) (hb : b < 18446744073709551616) :
    evalOp2 (.and .i64) (a : Int) (b : Int) = some ((a &&& b : Nat) : Int) := by
  have hle : a &&& b ≤ a := Nat.and_le_left
  simp only [evalOp2, pat_i64_nat (show a < 18446744073709551616 by omega), pat_i64_nat hb]
  rw [norm_i64_nat (by omega)]

theorem and_u8_nat {a b : Nat} (ha : a < 256) (hb : b < 256) :
    evalOp2 (.and .u8) (a : Int) (b : Int) = some ((a &&& b : Nat) : Int) := by
  have hle : a &&& b ≤ a := Nat.and_le_left
  simp only [evalOp2, pat_u8_nat ha, pat_u8_nat hb]
  rw [norm_u8_nat (by omega)]

theorem shr_nat (a k : Nat) : evalOp2 .shr (a : Int) (k : Int) = some ((a >>> k : Nat) : Int) := by
  have h : ¬ ((k : Int) < 0) := by omega
  simp only [evalOp2, h, if_false, Int.toNat_natCast]
  rfl

theorem shrc3_nat (a : Nat) : evalOp1 (.shrc 3) (a : Int) = ((a / 8 : Nat) : Int) := by
  have : a / 8 = a >>> 3 := by rw [Nat.shiftRight_eq_div_pow]
  rw [this]; rfl

theorem and7 (n : Nat) : n &&& 7 = n % 8 := Nat.and_two_pow_sub_one_eq_mod n 3

section Common
variable {P : Prog} {G : Nat → Val} {X : Oracle}

/-- `idx >> 3` -/
theorem ev_byteIdx {env : Env} {idx : Nat} (h1 : env 1 = .int (idx : Int)) :
    evalV G env (.op1 (.shrc 3) (.var 1)) = some (.int ((idx / 8 : Nat) : Int)) := by
  simp only [evalV_op1, evalV_var, h1, shrc3_nat]

/-- `7 - idx&7` -/
theorem ev_bitIdx {env : Env} {idx : Nat} (h1 : env 1 = .int (idx : Int)) (h : idx < 9223372036854775808) :
    evalV G env (.op2 (.sub .i64) (.lit 7) (.op2 (.and .i64) (.var 1) (.lit 7)))
      = some (.int ((7 - idx % 8 : Nat) : Int)) := by
  have h7 : evalOp2 (.and .i64) (idx : Int) 7 = some ((idx &&& 7 : Nat) : Int) :=
    and_i64_nat (a := idx) (b := 7) h (by omega)
  simp only [evalV_op2, evalV_var, evalV_lit, h1, h7, Option.map_some, and7]
  simp only [evalOp2, Option.map_some]
  have : idx % 8 < 8 := Nat.mod_lt _ (by omega)
  rw [norm_i64_small (by omega) (by omega)]
  congr 2; omega

/-- a statement whose assignment path does not evaluate (negative index) is stuck -/
theorem Stuck.assign_path {env : Env} {x : Nat} {p : List PathE} {e : Expr} (hp : pathV G env p = none) :
    Stuck P G X env (.assign x p e) := by
  intro f
  cases f with
  | zero => rfl
  | succ f =>
    rw [execV_assign, hp]
    cases evalV G env e <;> rfl

/-- a statement whose assignment target does not exist (index out of range) is stuck -/
theorem Stuck.assign_upd {env : Env} {x : Nat} {p : List PathE} {e : Expr} {v : Val} {ks : List Nat}
    (he : evalV G env e = some v) (hp : pathV G env p = some ks) (hu : updPath (env x) ks v = none) :
    Stuck P G X env (.assign x p e) := by
  intro f
  cases f with
  | zero => rfl
  | succ f =>
    rw [execV_assign, he, hp]
    simp [hu]

end Common

/-! ## getBit -/

section GetBit
variable {P : Prog} {G : Nat → Val} {X : Oracle}

theorem fn_1_body : fn_1.body =
    seqs [.assign 3 [] (.lit 0),
      .assign 4 [] (.lit 0),
      .assign 6 [] (.op1 (.shrc 3) (.var 1)),
      .assign 7 [] (.op2 (.sub .i64) (.lit 7) (.op2 (.and .i64) (.var 1) (.lit 7))),
      .assign 3 [] (.op1 (.conv .i64) (.op2 (.and .u8) (.op2 .shr (.idx (.var 0) (.var 6)) (.var 7)) (.lit 1))),
      .ite (.op1 .lnot (.var 2)) (.ret [(.var 3), (.lit 0)]) (.ite (.op2 .eq (.var 3) (.lit 0)) (.ret [(.lit 1), (.lit 0)]) (.ret [(.lit 0), (.lit 1)])),
      .panic] := rfl

theorem getBit_unfold (s : Bytes) (idx : Nat) (carry : Bool) :
    Model.Utils.getBit s idx carry =
      (Outcome.idx s (idx / 8) >>= fun byte =>
        if (!carry) = true then Outcome.ok ((byte.toNat >>> (7 - idx % 8)) % 2, false)
        else if (byte.toNat >>> (7 - idx % 8)) % 2 = 0 then Outcome.ok (1, false)
        else Outcome.ok (0, true)) := rfl

/-- the fuel of a call of getBit / getBits -/
def fuelBit : Nat := 16

/-- getBit, body level: the model returns `(bit, c')` ⇒ the body returns `[bit, c']` -/
theorem getBit_body_ok (s : Bytes) (idx : Nat) (carry : Bool) (hidx : idx < 9223372036854775808)
    (bit : Nat) (c' : Bool) (h : Model.Utils.getBit s idx carry = .ok (bit, c')) :
    ∃ env', EvIn P G X fuelBit (Env.ofList [bytesV s, .int (idx : Int), boolV carry]) fn_1.body env'
      (.ret [.int (bit : Int), boolV c']) := by
  rw [getBit_unfold] at h
  simp only [Outcome.idx] at h
  cases hb : s[idx / 8]? with
  | none => simp [hb] at h
  | some byte =>
    simp only [hb, Outcome.bind_ok] at h
    let b : Nat := (byte.toNat >>> (7 - idx % 8)) % 2
    let e0 : Env := Env.ofList [bytesV s, .int (idx : Int), boolV carry]
    let e1 := e0.set 3 (.int 0)
    let e2 := e1.set 4 (.int 0)
    let e3 := e2.set 6 (.int ((idx / 8 : Nat) : Int))
    let e4 := e3.set 7 (.int ((7 - idx % 8 : Nat) : Int))
    let e5 := e4.set 3 (.int (b : Int))
    have s3 : evalV G e2 (.op1 (.shrc 3) (.var 1)) = some (.int ((idx / 8 : Nat) : Int)) :=
      ev_byteIdx (by simp [e2, e1, e0, Env.set, Env.ofList])
    have s4 : evalV G e3 (.op2 (.sub .i64) (.lit 7) (.op2 (.and .i64) (.var 1) (.lit 7)))
        = some (.int ((7 - idx % 8 : Nat) : Int)) :=
      ev_bitIdx (by simp [e3, e2, e1, e0, Env.set, Env.ofList]) hidx
    have g0 : e4 0 = bytesV s := by simp [e4, e3, e2, e1, e0, Env.set, Env.ofList]
    have g6 : e4 6 = .int ((idx / 8 : Nat) : Int) := by simp [e4, e3, Env.set]
    have g7 : e4 7 = .int ((7 - idx % 8 : Nat) : Int) := by simp [e4]
    have hbyte := byte.toNat_lt
    have hsh : byte.toNat >>> (7 - idx % 8) < 256 := Nat.lt_of_le_of_lt (Nat.shiftRight_le _ _) (by omega)
    have s5 : evalV G e4 (.op1 (.conv .i64) (.op2 (.and .u8) (.op2 .shr (.idx (.var 0) (.var 6)) (.var 7)) (.lit 1)))
        = some (.int (b : Int)) := by
      have ha : evalOp2 (.and .u8) ((byte.toNat >>> (7 - idx % 8) : Nat) : Int) 1
          = some (((byte.toNat >>> (7 - idx % 8)) &&& 1 : Nat) : Int) := and_u8_nat (b := 1) hsh (by omega)
      simp only [evalV_op1, evalV_op2, evalV_idx, evalV_var, evalV_lit, g0, g6, g7, bytesV, getIdx_ofNat,
        List.getElem?_map, hb, Option.map_some, Int.ofNat_eq_natCast, shr_nat, ha, Nat.and_one_is_mod, evalOp1]
      have : b < 2 := Nat.mod_lt _ (by omega)
      rw [norm_i64_nat (by omega)]
    have g2 : e5 2 = boolV carry := by simp [e5, e4, e3, e2, e1, e0, Env.set, Env.ofList]
    have g3 : e5 3 = .int (b : Int) := by simp [e5]
    have pre : ∀ {env' c}, EvIn P G X 4 e5 (.seq (.ite (.op1 .lnot (.var 2)) (.ret [(.var 3), (.lit 0)])
        (.ite (.op2 .eq (.var 3) (.lit 0)) (.ret [(.lit 1), (.lit 0)]) (.ret [(.lit 0), (.lit 1)]))) .panic) env' c →
        EvIn P G X fuelBit e0 fn_1.body env' c := by
      intro env' c hr
      rw [fn_1_body]
      exact (EvIn.seq (EvIn.assign rfl) (EvIn.seq (EvIn.assign rfl) (EvIn.seq (EvIn.assign s3)
        (EvIn.seq (EvIn.assign s4) (EvIn.seq (EvIn.assign s5) hr))))).mono (by decide)
    cases carry with
    | false =>
      simp only [Bool.not_false, if_true, Outcome.ok.injEq, Prod.mk.injEq] at h
      obtain ⟨rfl, rfl⟩ := h
      have hc : evalV G e5 (.op1 .lnot (.var 2)) = some (.int 1) := by
        simp [evalV_op1, evalV_var, g2, boolV, evalOp1]
      have hr : evalVs G e5 [(.var 3), (.lit 0)] = some [.int (b : Int), boolV false] := by
        simp [evalVs_cons, evalV_var, g3, boolV]
      exact ⟨e5, pre (EvIn.seq_stop ((EvIn.ite (d := true) hc rfl (EvIn.ret hr)).mono (by decide)) (by simp))⟩
    | true =>
      have hc : evalV G e5 (.op1 .lnot (.var 2)) = some (.int 0) := by
        simp [evalV_op1, evalV_var, g2, boolV, evalOp1]
      simp only [Bool.not_true, Bool.false_eq_true, if_false] at h
      by_cases hz : b = 0
      · rw [if_pos hz] at h
        simp only [Outcome.ok.injEq, Prod.mk.injEq] at h
        obtain ⟨rfl, rfl⟩ := h
        have hc2 : evalV G e5 (.op2 .eq (.var 3) (.lit 0)) = some (.int 1) := by
          simp [evalV_op2, evalV_var, g3, evalOp2, ofBool, hz]
        have hr : evalVs G e5 [(.lit 1), (.lit 0)] = some [.int ((1 : Nat) : Int), boolV false] := by
          simp [evalVs_cons, boolV]
        exact ⟨e5, pre (EvIn.seq_stop (EvIn.ite (d := false) hc rfl
          ((EvIn.ite (d := true) hc2 rfl (EvIn.ret hr)).mono (by decide))) (by simp))⟩
      · rw [if_neg hz] at h
        simp only [Outcome.ok.injEq, Prod.mk.injEq] at h
        obtain ⟨rfl, rfl⟩ := h
        have hc2 : evalV G e5 (.op2 .eq (.var 3) (.lit 0)) = some (.int 0) := by
          simp [evalV_op2, evalV_var, g3, evalOp2, ofBool, hz]
        have hr : evalVs G e5 [(.lit 0), (.lit 1)] = some [.int ((0 : Nat) : Int), boolV true] := by
          simp [evalVs_cons, boolV]
        exact ⟨e5, pre (EvIn.seq_stop (EvIn.ite (d := false) hc rfl
          ((EvIn.ite (d := false) hc2 rfl (EvIn.ret hr)).mono (by decide))) (by simp))⟩

/-- getBit, body level: the model panics (index out of range) ⇒ the body is stuck -/
theorem getBit_body_stuck (s : Bytes) (idx : Nat) (carry : Bool) (hidx : idx < 9223372036854775808)
    (h : Model.Utils.getBit s idx carry = .panic) :
    Stuck P G X (Env.ofList [bytesV s, .int (idx : Int), boolV carry]) fn_1.body := by
  rw [getBit_unfold] at h
  simp only [Outcome.idx] at h
  cases hb : s[idx / 8]? with
  | some byte =>
    simp only [hb, Outcome.bind_ok] at h
    cases carry <;> simp at h
    split at h <;> cases h
  | none =>
    let e0 : Env := Env.ofList [bytesV s, .int (idx : Int), boolV carry]
    let e1 := e0.set 3 (.int 0)
    let e2 := e1.set 4 (.int 0)
    let e3 := e2.set 6 (.int ((idx / 8 : Nat) : Int))
    let e4 := e3.set 7 (.int ((7 - idx % 8 : Nat) : Int))
    have s3 : evalV G e2 (.op1 (.shrc 3) (.var 1)) = some (.int ((idx / 8 : Nat) : Int)) :=
      ev_byteIdx (by simp [e2, e1, e0, Env.set, Env.ofList])
    have s4 : evalV G e3 (.op2 (.sub .i64) (.lit 7) (.op2 (.and .i64) (.var 1) (.lit 7)))
        = some (.int ((7 - idx % 8 : Nat) : Int)) :=
      ev_bitIdx (by simp [e3, e2, e1, e0, Env.set, Env.ofList]) hidx
    have g0 : e4 0 = bytesV s := by simp [e4, e3, e2, e1, e0, Env.set, Env.ofList]
    have g6 : e4 6 = .int ((idx / 8 : Nat) : Int) := by simp [e4, e3, Env.set]
    rw [fn_1_body]
    refine Stuck.seq_right (EvIn.assign (v := .int 0) rfl) (Stuck.seq_right (EvIn.assign (v := .int 0) rfl)
      (Stuck.seq_right (EvIn.assign s3) (Stuck.seq_right (EvIn.assign s4) (Stuck.seq_left (Stuck.assign ?_)))))
    show evalV G e4 _ = none
    simp only [evalV_op1, evalV_op2, evalV_idx, evalV_var, evalV_lit, g0, g6, bytesV, getIdx_ofNat,
      List.getElem?_map, hb, Option.map_none]

theorem fn1_lookup : prog[f_utils_getBit]? = some fn_1 := rfl
theorem fn2_lookup : prog[f_utils_getBits]? = some fn_2 := rfl
theorem fn0_lookup : prog[f_utils_DecomposeNAF]? = some fn_0 := rfl

/-- getBit, run level -/
theorem ir_getBit_ok (s : Bytes) (idx : Nat) (carry : Bool) (hidx : idx < 9223372036854775808)
    (bit : Nat) (c' : Bool) (h : Model.Utils.getBit s idx carry = .ok (bit, c')) :
    ∀ f, fuelBit ≤ f → runV prog G X f f_utils_getBit [bytesV s, .int (idx : Int), boolV carry]
      = .ret [.int (bit : Int), boolV c'] := by
  obtain ⟨env', hb⟩ := getBit_body_ok (P := prog) (G := G) (X := X) s idx carry hidx bit c' h
  exact runV_of_EvIn fn1_lookup rfl rfl hb

theorem ir_getBit_panic (s : Bytes) (idx : Nat) (carry : Bool) (hidx : idx < 9223372036854775808)
    (h : Model.Utils.getBit s idx carry = .panic) :
    ∀ f, runV prog G X f f_utils_getBit [bytesV s, .int (idx : Int), boolV carry] = .stuck :=
  runV_of_Stuck fn1_lookup (getBit_body_stuck (P := prog) (G := G) (X := X) s idx carry hidx h)

end GetBit

/-! ## getBits -/

theorem getBits_unfold (s : Bytes) (idx w : Nat) :
    Model.Utils.getBits s idx w =
      (Outcome.idx s (idx / 8) >>= fun b =>
        if (7 - idx % 8) + w + 1 > 7 ∧ idx / 8 > 0 then
          Outcome.idx s (idx / 8 - 1) >>= fun bh =>
            Outcome.ok (((b.toNat >>> (7 - idx % 8)) &&& (2 ^ (w + 1) - 1)) |||
              ((bh.toNat &&& (2 ^ ((7 - idx % 8) + w + 1 - 8) - 1)) <<< (w + 1 - ((7 - idx % 8) + w + 1 - 8))))
        else Outcome.ok ((b.toNat >>> (7 - idx % 8)) &&& (2 ^ (w + 1) - 1))) := rfl

theorem two_pow_lt63 {k : Nat} (hk : k ≤ 62) : 2 ^ k < 9223372036854775808 :=
  Nat.pow_lt_pow_right (by omega) (show k < 63 by omega)

theorem shl_i64_nat {a k : Nat} (h : a * 2 ^ k < 9223372036854775808) :
    evalOp2 (.shl .i64) (a : Int) (k : Int) = some ((a <<< k : Nat) : Int) := by
  have hk : ¬ ((k : Int) < 0) := by omega
  simp only [evalOp2, hk, if_false, Int.toNat_natCast, Nat.shiftLeft_eq]
  rw [← Int.natCast_mul, norm_i64_nat h]

theorem shl_i64_one {k : Nat} (hk : k ≤ 62) :
    evalOp2 (.shl .i64) 1 (k : Int) = some ((2 ^ k : Nat) : Int) := by
  have := shl_i64_nat (a := 1) (k := k) (by have := two_pow_lt63 hk; omega)
  rw [Nat.shiftLeft_eq, Nat.one_mul] at this
  exact this

theorem or_i64_nat {a b : Nat} (ha : a < 9223372036854775808) (hb : b < 9223372036854775808) :
    evalOp2 (.or .i64) (a : Int) (b : Int) = some ((a ||| b : Nat) : Int) := by
  have : a ||| b < 2 ^ 63 := Nat.or_lt_two_pow (by omega) (by omega)
  simp only [evalOp2, pat_i64_nat (show a < 18446744073709551616 by omega),
    pat_i64_nat (show b < 18446744073709551616 by omega)]
  rw [norm_i64_nat (by omega)]

theorem two_pow_mod256 {k : Nat} (hk : 8 ≤ k) : 2 ^ k % 256 = 0 := by
  obtain ⟨j, rfl⟩ := Nat.exists_eq_add_of_le hk
  rw [Nat.pow_add]
  exact Nat.mul_mod_right 256 _

/-- the `uint8` mask `1<<k - 1` (for k ≥ 8 it is 255) acts on a byte as the unbounded `2^k - 1` -/
theorem maskHi (bh k : Nat) (hbh : bh < 256) :
    ∃ m : Nat, m < 256 ∧ norm .u8 (norm .u8 (1 * ((2 ^ k : Nat) : Int)) - 1) = (m : Int) ∧
      bh &&& m = bh &&& (2 ^ k - 1) := by
  by_cases hk : k < 8
  · have h1 : 2 ^ k < 256 := Nat.pow_lt_pow_right (by omega) hk
    have h0 : 0 < 2 ^ k := Nat.two_pow_pos k
    refine ⟨2 ^ k - 1, by omega, ?_, rfl⟩
    simp only [norm]
    omega
  · have h0 : 2 ^ k % 256 = 0 := two_pow_mod256 (by omega)
    have h2 : 256 ≤ 2 ^ k := Nat.le_of_dvd (Nat.two_pow_pos k) (Nat.dvd_of_mod_eq_zero h0)
    refine ⟨255, by omega, ?_, ?_⟩
    · simp only [norm]
      omega
    · have e1 : bh &&& 255 = bh % 256 := Nat.and_two_pow_sub_one_eq_mod bh 8
      rw [e1, Nat.and_two_pow_sub_one_eq_mod, Nat.mod_eq_of_lt hbh, Nat.mod_eq_of_lt (by omega)]

section GetBits
variable {P : Prog} {G : Nat → Val} {X : Oracle}

theorem fn_2_body : fn_2.body =
    seqs [.assign 4 [] (.op1 (.shrc 3) (.var 1)),
      .assign 5 [] (.op2 (.sub .i64) (.lit 7) (.op2 (.and .i64) (.var 1) (.lit 7))),
      .assign 6 [] (.op2 (.sub .i64) (.op2 (.shl .i64) (.lit 1) (.op2 (.add .i64) (.var 2) (.lit 1))) (.lit 1)),
      .assign 7 [] (.op2 (.and .i64) (.op1 (.conv .i64) (.op2 .shr (.idx (.var 0) (.var 4)) (.var 5))) (.var 6)),
      .ite (.op2 .land (.op2 .gt (.op2 (.add .i64) (.op2 (.add .i64) (.var 5) (.var 2)) (.lit 1)) (.lit 7)) (.op2 .gt (.var 4) (.lit 0)))
        (seqs [.assign 8 [] (.op2 (.sub .i64) (.op2 (.add .i64) (.op2 (.add .i64) (.var 5) (.var 2)) (.lit 1)) (.lit 8)),
          .assign 9 [] (.op1 (.conv .i64) (.op2 (.and .u8) (.idx (.var 0) (.op2 (.sub .i64) (.var 4) (.lit 1))) (.op2 (.sub .u8) (.op2 (.shl .u8) (.lit 1) (.var 8)) (.lit 1)))),
          .assign 7 [] (.op2 (.or .i64) (.var 7) (.op2 (.shl .i64) (.var 9) (.op2 (.sub .i64) (.op2 (.add .i64) (.var 2) (.lit 1)) (.var 8))))]) .skip,
      .ret [(.var 7)],
      .panic] := rfl

/-- the state of getBits after the first three assignments -/
def envBits (s : Bytes) (idx w : Nat) : Env :=
  (((Env.ofList [bytesV s, .int (idx : Int), .int (w : Int)]).set 4 (.int ((idx / 8 : Nat) : Int))).set 5
    (.int ((7 - idx % 8 : Nat) : Int))).set 6 (.int ((2 ^ (w + 1) - 1 : Nat) : Int))

theorem bits_prologue (s : Bytes) (idx w : Nat) (hidx : idx < 9223372036854775808) (hw : w ≤ 61) (rest : Stmt) :
    (∀ {F env' c}, EvIn P G X F (envBits s idx w) rest env' c →
      EvIn P G X (F + 6) (Env.ofList [bytesV s, .int (idx : Int), .int (w : Int)])
        (seqs [.assign 4 [] (.op1 (.shrc 3) (.var 1)),
          .assign 5 [] (.op2 (.sub .i64) (.lit 7) (.op2 (.and .i64) (.var 1) (.lit 7))),
          .assign 6 [] (.op2 (.sub .i64) (.op2 (.shl .i64) (.lit 1) (.op2 (.add .i64) (.var 2) (.lit 1))) (.lit 1)),
          rest]) env' c) ∧
    (Stuck P G X (envBits s idx w) rest →
      Stuck P G X (Env.ofList [bytesV s, .int (idx : Int), .int (w : Int)])
        (seqs [.assign 4 [] (.op1 (.shrc 3) (.var 1)),
          .assign 5 [] (.op2 (.sub .i64) (.lit 7) (.op2 (.and .i64) (.var 1) (.lit 7))),
          .assign 6 [] (.op2 (.sub .i64) (.op2 (.shl .i64) (.lit 1) (.op2 (.add .i64) (.var 2) (.lit 1))) (.lit 1)),
          rest])) := by
  let e0 : Env := Env.ofList [bytesV s, .int (idx : Int), .int (w : Int)]
  let e1 := e0.set 4 (.int ((idx / 8 : Nat) : Int))
  let e2 := e1.set 5 (.int ((7 - idx % 8 : Nat) : Int))
  have s1 : evalV G e0 (.op1 (.shrc 3) (.var 1)) = some (.int ((idx / 8 : Nat) : Int)) :=
    ev_byteIdx (by simp [e0, Env.ofList])
  have s2 : evalV G e1 (.op2 (.sub .i64) (.lit 7) (.op2 (.and .i64) (.var 1) (.lit 7)))
      = some (.int ((7 - idx % 8 : Nat) : Int)) :=
    ev_bitIdx (by simp [e1, e0, Env.set, Env.ofList]) hidx
  have g2 : e2 2 = .int (w : Int) := by simp [e2, e1, e0, Env.set, Env.ofList]
  have s3 : evalV G e2 (.op2 (.sub .i64) (.op2 (.shl .i64) (.lit 1) (.op2 (.add .i64) (.var 2) (.lit 1))) (.lit 1))
      = some (.int ((2 ^ (w + 1) - 1 : Nat) : Int)) := by
    have ha : evalOp2 (.add .i64) (w : Int) 1 = some (((w + 1 : Nat)) : Int) := by
      simp only [evalOp2]
      rw [norm_i64_small (by omega) (by omega)]; rfl
    have hp := two_pow_lt63 (show w + 1 ≤ 62 by omega)
    have h0 : 0 < 2 ^ (w + 1) := Nat.two_pow_pos _
    simp only [evalV_op2, evalV_var, evalV_lit, g2, ha, Option.map_some, shl_i64_one (show w + 1 ≤ 62 by omega)]
    simp only [evalOp2, Option.map_some]
    rw [norm_i64_small (by omega) (by omega)]
    congr 2; omega
  constructor
  · intro F env' c hr
    exact (EvIn.seq (EvIn.assign s1) (EvIn.seq (EvIn.assign s2) (EvIn.seq (EvIn.assign s3) hr))).mono (by omega)
  · intro hr
    exact Stuck.seq_right (EvIn.assign s1) (Stuck.seq_right (EvIn.assign s2) (Stuck.seq_right (EvIn.assign s3) hr))

end GetBits

end SMGo.Proofs.CTIRRefineNaf
