/-
  Refinement: the generated IR of utils.DecomposeNAF, utils.getBit and utils.getBits
  (SMGo/Gen/CTIRProgFn.lean, `fn_0`, `fn_1`, `fn_2`) computes the hand-written models
  `Model.Utils.decomposeNAF`, `getBit`, `getBits` (SMGo/Model/Utils.lean), in the style of
  SMGo/Proofs/CTIRRefineUtils.lean.

  Encodings: `[]byte` ↦ `bytesV`, `[]int` ↦ `intsV`, `bool` ↦ `boolV` (0 / 1), `int` ↦ `.int`.
  A model `ok` is a returning run for every fuel ≥ an explicit bound; a model `panic` from an index out of range
  is a run that is stuck with EVERY fuel; the explicit `panic("nil or invalid parameters")` is `Ctl.panic`.

  Domains (stated in the theorems, nothing else is assumed):
  * getBit:  `0 ≤ idx < 2^63` (the model takes `idx : Nat`; DecomposeNAF only passes `bitIdx-1 ≥ 0`).
  * getBits: `0 ≤ idx < 2^63`, `0 ≤ w ≤ 61`.  (For `62 ≤ w ≤ 2^63-2` Go, the IR and the model still agree —
    `1<<(w+1) - 1` wraps to `2^63-1` resp. `-1`, which mask a byte like `2^(w+1)-1` — not proved here;
    for `w = math.MaxInt64` they DISAGREE: `w+1` wraps to a negative shift count, Go panics / the IR is
    stuck, the model with `w : Nat` returns a value.  The `uint8` mask `1<<bitsHi - 1` with `bitsHi ≥ 8`
    (wraps to 255) is inside the proved domain: `maskHi2`.)
  * DecomposeNAF: any `out`, `s`, any `w`; `math.MinInt64 < n < 2^63` and (`n ≤ math.MaxInt64 - 6` or
    `len(s) < 2^60`).  No hypothesis on the elements of `out` (they are never read).
    - `n = math.MinInt64` is a DISAGREEMENT (theorem `naf_minInt64_disagree`): Go and the IR wrap `n-1` to
      `math.MaxInt64`, enter the loop and panic in the first `getBit`; the model runs `n.toNat = 0` rounds
      and returns `out` unchanged.
    - `n > math.MaxInt64 - 6` and `len(s) ≥ 2^60` (not a Go slice): `outIdx += w; outIdx++` may wrap in Go and
      the IR, not in the model; not examined further.
    - `n ≤ 0` (other than MinInt64): both sides return `out` unchanged.
-/
import SMGo.Proofs.CTIRRefineUtils
import SMGo.Gen.CTIRProgFn
import SMGo.Model.Utils
open SMGo SMGo.Model.CTIR SMGo.Gen.CTIRProgFn
open SMGo.Proofs.CTIRRefineUtils (bytesV bytesV_getIdx norm_i64_small)

namespace SMGo.Proofs.CTIRRefineNaf

/-! ## Encodings -/

/-- a Go `[]int` (non-nil) -/
def intsV (l : List Int) : Val := .arr (l.map Val.int)
/-- a Go `bool`: 0 / 1 -/
def boolV (b : Bool) : Val := .int (if b then 1 else 0)

/-! ## Arithmetic: IR integer operators on small natural numbers -/

theorem pat_i64_nat {n : Nat} (h : n < 18446744073709551616) : pat .i64 (n : Int) = n := by
  simp only [pat, Ty.bits]; omega

theorem pat_u8_nat {n : Nat} (h : n < 256) : pat .u8 (n : Int) = n := by
  simp only [pat, Ty.bits]; omega

theorem norm_i64_nat {n : Nat} (h : n < 9223372036854775808) : norm .i64 (n : Int) = (n : Int) :=
  norm_i64_small (by omega) (by omega)

theorem norm_u8_nat {n : Nat} (h : n < 256) : norm .u8 (n : Int) = (n : Int) := by
  simp only [norm]; omega

theorem and_i64_nat {a b : Nat} (ha : a < 9223372036854775808) (hb : b < 18446744073709551616) :
    evalOp2 (.and .i64) (a : Int) (b : Int) = some ((a &&& b : Nat) : Int) := by
  have hle : a &&& b ≤ a := Nat.and_le_left
  simp only [evalOp2, pat_i64_nat (show a < 18446744073709551616 by omega), pat_i64_nat hb]
  rw [norm_i64_nat (by omega)]

theorem and_u8_nat {a b : Nat} (ha : a < 256) (hb : b < 256) :
    evalOp2 (.and .u8) (a : Int) (b : Int) = some ((a &&& b : Nat) : Int) := by
  have hle : a &&& b ≤ a := Nat.and_le_left
  simp only [evalOp2, pat_u8_nat ha, pat_u8_nat hb]
  rw [norm_u8_nat (by omega)]

theorem shr_nat (a k : Nat) : evalOp2 .shr (a : Int) (k : Int) = some ((a >>> k : Nat) : Int) := by
  have h : ¬ ((k : Int) < 0) := by omega
  simp only [evalOp2, h, if_false, Int.toNat_natCast]
  rfl

theorem shrc3_nat (a : Nat) : evalOp1 (.shrc 3) (a : Int) = ((a / 8 : Nat) : Int) := by
  have : a / 8 = a >>> 3 := by rw [Nat.shiftRight_eq_div_pow]
  rw [this]; rfl

theorem and7 (n : Nat) : n &&& 7 = n % 8 := Nat.and_two_pow_sub_one_eq_mod n 3

section Common
variable {P : Prog} {G : Nat → Val} {X : Oracle}

/-- `idx >> 3` -/
theorem ev_byteIdx {env : Env} {idx : Nat} (h1 : env 1 = .int (idx : Int)) :
    evalV G env (.op1 (.shrc 3) (.var 1)) = some (.int ((idx / 8 : Nat) : Int)) := by
  simp only [evalV_op1, evalV_var, h1, shrc3_nat]

/-- `7 - idx&7` -/
theorem ev_bitIdx {env : Env} {idx : Nat} (h1 : env 1 = .int (idx : Int)) (h : idx < 9223372036854775808) :
    evalV G env (.op2 (.sub .i64) (.lit 7) (.op2 (.and .i64) (.var 1) (.lit 7)))
      = some (.int ((7 - idx % 8 : Nat) : Int)) := by
  have h7 : evalOp2 (.and .i64) (idx : Int) 7 = some ((idx &&& 7 : Nat) : Int) :=
    and_i64_nat (a := idx) (b := 7) h (by omega)
  simp only [evalV_op2, evalV_var, evalV_lit, h1, h7, Option.map_some, and7]
  simp only [evalOp2, Option.map_some]
  have : idx % 8 < 8 := Nat.mod_lt _ (by omega)
  rw [norm_i64_small (by omega) (by omega)]
  congr 2; omega

/-- a statement whose assignment path does not evaluate (negative index) is stuck -/
theorem Stuck.assign_path {env : Env} {x : Nat} {p : List PathE} {e : Expr} (hp : pathV G env p = none) :
    Stuck P G X env (.assign x p e) := by
  intro f
  cases f with
  | zero => rfl
  | succ f =>
    rw [execV_assign, hp]
    cases evalV G env e <;> rfl

/-- a statement whose assignment target does not exist (index out of range) is stuck -/
theorem Stuck.assign_upd {env : Env} {x : Nat} {p : List PathE} {e : Expr} {v : Val} {ks : List Nat}
    (he : evalV G env e = some v) (hp : pathV G env p = some ks) (hu : updPath (env x) ks v = none) :
    Stuck P G X env (.assign x p e) := by
  intro f
  cases f with
  | zero => rfl
  | succ f =>
    rw [execV_assign, he, hp]
    simp [hu]

end Common

/-! ## getBit -/

section GetBit
variable {P : Prog} {G : Nat → Val} {X : Oracle}

theorem fn_1_body : fn_1.body =
    seqs [.assign 3 [] (.lit 0),
      .assign 4 [] (.lit 0),
      .assign 6 [] (.op1 (.shrc 3) (.var 1)),
      .assign 7 [] (.op2 (.sub .i64) (.lit 7) (.op2 (.and .i64) (.var 1) (.lit 7))),
      .assign 3 [] (.op1 (.conv .i64) (.op2 (.and .u8) (.op2 .shr (.idx (.var 0) (.var 6)) (.var 7)) (.lit 1))),
      .ite (.op1 .lnot (.var 2)) (.ret [(.var 3), (.lit 0)]) (.ite (.op2 .eq (.var 3) (.lit 0)) (.ret [(.lit 1), (.lit 0)]) (.ret [(.lit 0), (.lit 1)])),
      .panic] := rfl

theorem getBit_unfold (s : Bytes) (idx : Nat) (carry : Bool) :
    Model.Utils.getBit s idx carry =
      (Outcome.idx s (idx / 8) >>= fun byte =>
        if (!carry) = true then Outcome.ok ((byte.toNat >>> (7 - idx % 8)) % 2, false)
        else if (byte.toNat >>> (7 - idx % 8)) % 2 = 0 then Outcome.ok (1, false)
        else Outcome.ok (0, true)) := rfl

/-- the fuel of a call of getBit / getBits -/
def fuelBit : Nat := 20

/-- getBit, body level: the model returns `(bit, c')` ⇒ the body returns `[bit, c']` -/
theorem getBit_body_ok (s : Bytes) (idx : Nat) (carry : Bool) (hidx : idx < 9223372036854775808)
    (bit : Nat) (c' : Bool) (h : Model.Utils.getBit s idx carry = .ok (bit, c')) :
    ∃ env', EvIn P G X fuelBit (Env.ofList [bytesV s, .int (idx : Int), boolV carry]) fn_1.body env'
      (.ret [.int (bit : Int), boolV c']) := by
  rw [getBit_unfold] at h
  simp only [Outcome.idx] at h
  cases hb : s[idx / 8]? with
  | none => simp [hb] at h
  | some byte =>
    simp only [hb, Outcome.bind_ok] at h
    let b : Nat := (byte.toNat >>> (7 - idx % 8)) % 2
    let e0 : Env := Env.ofList [bytesV s, .int (idx : Int), boolV carry]
    let e1 := e0.set 3 (.int 0)
    let e2 := e1.set 4 (.int 0)
    let e3 := e2.set 6 (.int ((idx / 8 : Nat) : Int))
    let e4 := e3.set 7 (.int ((7 - idx % 8 : Nat) : Int))
    let e5 := e4.set 3 (.int (b : Int))
    have s3 : evalV G e2 (.op1 (.shrc 3) (.var 1)) = some (.int ((idx / 8 : Nat) : Int)) :=
      ev_byteIdx (by simp [e2, e1, e0, Env.set, Env.ofList])
    have s4 : evalV G e3 (.op2 (.sub .i64) (.lit 7) (.op2 (.and .i64) (.var 1) (.lit 7)))
        = some (.int ((7 - idx % 8 : Nat) : Int)) :=
      ev_bitIdx (by simp [e3, e2, e1, e0, Env.set, Env.ofList]) hidx
    have g0 : e4 0 = bytesV s := by simp [e4, e3, e2, e1, e0, Env.set, Env.ofList]
    have g6 : e4 6 = .int ((idx / 8 : Nat) : Int) := by simp [e4, e3, Env.set]
    have g7 : e4 7 = .int ((7 - idx % 8 : Nat) : Int) := by simp [e4]
    have hbyte := byte.toNat_lt
    have hsh : byte.toNat >>> (7 - idx % 8) < 256 := Nat.lt_of_le_of_lt (Nat.shiftRight_le _ _) (by omega)
    have s5 : evalV G e4 (.op1 (.conv .i64) (.op2 (.and .u8) (.op2 .shr (.idx (.var 0) (.var 6)) (.var 7)) (.lit 1)))
        = some (.int (b : Int)) := by
      have ha : evalOp2 (.and .u8) ((byte.toNat >>> (7 - idx % 8) : Nat) : Int) 1
          = some (((byte.toNat >>> (7 - idx % 8)) &&& 1 : Nat) : Int) := and_u8_nat (b := 1) hsh (by omega)
      simp only [evalV_op1, evalV_op2, evalV_idx, evalV_var, evalV_lit, g0, g6, g7, bytesV, getIdx_ofNat,
        List.getElem?_map, hb, Option.map_some, Int.ofNat_eq_natCast, shr_nat, ha, Nat.and_one_is_mod, evalOp1]
      have : b < 2 := Nat.mod_lt _ (by omega)
      rw [norm_i64_nat (by omega)]
    have g2 : e5 2 = boolV carry := by simp [e5, e4, e3, e2, e1, e0, Env.set, Env.ofList]
    have g3 : e5 3 = .int (b : Int) := by simp [e5]
    have pre : ∀ {env' c}, EvIn P G X 4 e5 (.seq (.ite (.op1 .lnot (.var 2)) (.ret [(.var 3), (.lit 0)])
        (.ite (.op2 .eq (.var 3) (.lit 0)) (.ret [(.lit 1), (.lit 0)]) (.ret [(.lit 0), (.lit 1)]))) .panic) env' c →
        EvIn P G X fuelBit e0 fn_1.body env' c := by
      intro env' c hr
      rw [fn_1_body]
      exact (EvIn.seq (EvIn.assign rfl) (EvIn.seq (EvIn.assign rfl) (EvIn.seq (EvIn.assign s3)
        (EvIn.seq (EvIn.assign s4) (EvIn.seq (EvIn.assign s5) hr))))).mono (by decide)
    cases carry with
    | false =>
      simp only [Bool.not_false, if_true, Outcome.ok.injEq, Prod.mk.injEq] at h
      obtain ⟨rfl, rfl⟩ := h
      have hc : evalV G e5 (.op1 .lnot (.var 2)) = some (.int 1) := by
        simp [evalV_op1, evalV_var, g2, boolV, evalOp1]
      have hr : evalVs G e5 [(.var 3), (.lit 0)] = some [.int (b : Int), boolV false] := by
        simp [evalVs_cons, evalV_var, g3, boolV]
      exact ⟨e5, pre (EvIn.seq_stop ((EvIn.ite (d := true) hc rfl (EvIn.ret hr)).mono (by decide)) (by simp))⟩
    | true =>
      have hc : evalV G e5 (.op1 .lnot (.var 2)) = some (.int 0) := by
        simp [evalV_op1, evalV_var, g2, boolV, evalOp1]
      simp only [Bool.not_true, Bool.false_eq_true, if_false] at h
      by_cases hz : b = 0
      · rw [if_pos hz] at h
        simp only [Outcome.ok.injEq, Prod.mk.injEq] at h
        obtain ⟨rfl, rfl⟩ := h
        have hc2 : evalV G e5 (.op2 .eq (.var 3) (.lit 0)) = some (.int 1) := by
          simp [evalV_op2, evalV_var, g3, evalOp2, ofBool, hz]
        have hr : evalVs G e5 [(.lit 1), (.lit 0)] = some [.int ((1 : Nat) : Int), boolV false] := by
          simp [evalVs_cons, boolV]
        exact ⟨e5, pre (EvIn.seq_stop (EvIn.ite (d := false) hc rfl
          ((EvIn.ite (d := true) hc2 rfl (EvIn.ret hr)).mono (by decide))) (by simp))⟩
      · rw [if_neg hz] at h
        simp only [Outcome.ok.injEq, Prod.mk.injEq] at h
        obtain ⟨rfl, rfl⟩ := h
        have hc2 : evalV G e5 (.op2 .eq (.var 3) (.lit 0)) = some (.int 0) := by
          simp [evalV_op2, evalV_var, g3, evalOp2, ofBool, hz]
        have hr : evalVs G e5 [(.lit 0), (.lit 1)] = some [.int ((0 : Nat) : Int), boolV true] := by
          simp [evalVs_cons, boolV]
        exact ⟨e5, pre (EvIn.seq_stop (EvIn.ite (d := false) hc rfl
          ((EvIn.ite (d := false) hc2 rfl (EvIn.ret hr)).mono (by decide))) (by simp))⟩

/-- getBit, body level: the model panics (index out of range) ⇒ the body is stuck -/
theorem getBit_body_stuck (s : Bytes) (idx : Nat) (carry : Bool) (hidx : idx < 9223372036854775808)
    (h : Model.Utils.getBit s idx carry = .panic) :
    Stuck P G X (Env.ofList [bytesV s, .int (idx : Int), boolV carry]) fn_1.body := by
  rw [getBit_unfold] at h
  simp only [Outcome.idx] at h
  cases hb : s[idx / 8]? with
  | some byte =>
    simp only [hb, Outcome.bind_ok] at h
    cases carry <;> simp at h
    split at h <;> cases h
  | none =>
    let e0 : Env := Env.ofList [bytesV s, .int (idx : Int), boolV carry]
    let e1 := e0.set 3 (.int 0)
    let e2 := e1.set 4 (.int 0)
    let e3 := e2.set 6 (.int ((idx / 8 : Nat) : Int))
    let e4 := e3.set 7 (.int ((7 - idx % 8 : Nat) : Int))
    have s3 : evalV G e2 (.op1 (.shrc 3) (.var 1)) = some (.int ((idx / 8 : Nat) : Int)) :=
      ev_byteIdx (by simp [e2, e1, e0, Env.set, Env.ofList])
    have s4 : evalV G e3 (.op2 (.sub .i64) (.lit 7) (.op2 (.and .i64) (.var 1) (.lit 7)))
        = some (.int ((7 - idx % 8 : Nat) : Int)) :=
      ev_bitIdx (by simp [e3, e2, e1, e0, Env.set, Env.ofList]) hidx
    have g0 : e4 0 = bytesV s := by simp [e4, e3, e2, e1, e0, Env.set, Env.ofList]
    have g6 : e4 6 = .int ((idx / 8 : Nat) : Int) := by simp [e4, e3, Env.set]
    rw [fn_1_body]
    refine Stuck.seq_right (EvIn.assign (v := .int 0) rfl) (Stuck.seq_right (EvIn.assign (v := .int 0) rfl)
      (Stuck.seq_right (EvIn.assign s3) (Stuck.seq_right (EvIn.assign s4) (Stuck.seq_left (Stuck.assign ?_)))))
    show evalV G e4 _ = none
    simp only [evalV_op1, evalV_op2, evalV_idx, evalV_var, evalV_lit, g0, g6, bytesV, getIdx_ofNat,
      List.getElem?_map, hb, Option.map_none]

theorem fn1_lookup : prog[f_utils_getBit]? = some fn_1 := rfl
theorem fn2_lookup : prog[f_utils_getBits]? = some fn_2 := rfl
theorem fn0_lookup : prog[f_utils_DecomposeNAF]? = some fn_0 := rfl

/-- getBit, run level -/
theorem ir_getBit_ok (s : Bytes) (idx : Nat) (carry : Bool) (hidx : idx < 9223372036854775808)
    (bit : Nat) (c' : Bool) (h : Model.Utils.getBit s idx carry = .ok (bit, c')) :
    ∀ f, fuelBit ≤ f → runV prog G X f f_utils_getBit [bytesV s, .int (idx : Int), boolV carry]
      = .ret [.int (bit : Int), boolV c'] := by
  obtain ⟨env', hb⟩ := getBit_body_ok (P := prog) (G := G) (X := X) s idx carry hidx bit c' h
  exact runV_of_EvIn fn1_lookup rfl rfl hb

theorem ir_getBit_panic (s : Bytes) (idx : Nat) (carry : Bool) (hidx : idx < 9223372036854775808)
    (h : Model.Utils.getBit s idx carry = .panic) :
    ∀ f, runV prog G X f f_utils_getBit [bytesV s, .int (idx : Int), boolV carry] = .stuck :=
  runV_of_Stuck fn1_lookup (getBit_body_stuck (P := prog) (G := G) (X := X) s idx carry hidx h)

end GetBit

/-! ## getBits -/

theorem getBits_unfold (s : Bytes) (idx w : Nat) :
    Model.Utils.getBits s idx w =
      (Outcome.idx s (idx / 8) >>= fun b =>
        if (7 - idx % 8) + w + 1 > 7 ∧ idx / 8 > 0 then
          Outcome.idx s (idx / 8 - 1) >>= fun bh =>
            Outcome.ok (((b.toNat >>> (7 - idx % 8)) &&& (2 ^ (w + 1) - 1)) |||
              ((bh.toNat &&& (2 ^ ((7 - idx % 8) + w + 1 - 8) - 1)) <<< (w + 1 - ((7 - idx % 8) + w + 1 - 8))))
        else Outcome.ok ((b.toNat >>> (7 - idx % 8)) &&& (2 ^ (w + 1) - 1))) := rfl

theorem two_pow_lt63 {k : Nat} (hk : k ≤ 62) : 2 ^ k < 9223372036854775808 :=
  Nat.pow_lt_pow_right (by omega) (show k < 63 by omega)

theorem shl_i64_nat {a k : Nat} (h : a * 2 ^ k < 9223372036854775808) :
    evalOp2 (.shl .i64) (a : Int) (k : Int) = some ((a <<< k : Nat) : Int) := by
  have hk : ¬ ((k : Int) < 0) := by omega
  simp only [evalOp2, hk, if_false, Int.toNat_natCast, Nat.shiftLeft_eq]
  rw [← Int.natCast_mul, norm_i64_nat h]

theorem shl_i64_one {k : Nat} (hk : k ≤ 62) :
    evalOp2 (.shl .i64) 1 (k : Int) = some ((2 ^ k : Nat) : Int) := by
  have := shl_i64_nat (a := 1) (k := k) (by have := two_pow_lt63 hk; omega)
  rw [Nat.shiftLeft_eq, Nat.one_mul] at this
  exact this

theorem or_i64_nat {a b : Nat} (ha : a < 9223372036854775808) (hb : b < 9223372036854775808) :
    evalOp2 (.or .i64) (a : Int) (b : Int) = some ((a ||| b : Nat) : Int) := by
  have : a ||| b < 2 ^ 63 := Nat.or_lt_two_pow (by omega) (by omega)
  simp only [evalOp2, pat_i64_nat (show a < 18446744073709551616 by omega),
    pat_i64_nat (show b < 18446744073709551616 by omega)]
  rw [norm_i64_nat (by omega)]

theorem norm_i64_pred {p : Nat} (h0 : 0 < p) (hp : p < 9223372036854775808) :
    norm .i64 ((p : Int) - 1) = ((p - 1 : Nat) : Int) := by
  rw [norm_i64_small (by omega) (by omega)]; omega

theorem two_pow_mod256 {k : Nat} (hk : 8 ≤ k) : 2 ^ k % 256 = 0 := by
  obtain ⟨j, rfl⟩ := Nat.exists_eq_add_of_le hk
  rw [Nat.pow_add]
  exact Nat.mul_mod_right 256 _

theorem add_i64_nat {a b : Nat} (h : a + b < 9223372036854775808) :
    evalOp2 (.add .i64) (a : Int) (b : Int) = some ((a + b : Nat) : Int) := by
  simp only [evalOp2]
  rw [norm_i64_small (by omega) (by omega)]; rfl

theorem sub_i64_nat {a b : Nat} (hb : b ≤ a) (ha : a < 9223372036854775808) :
    evalOp2 (.sub .i64) (a : Int) (b : Int) = some ((a - b : Nat) : Int) := by
  simp only [evalOp2]
  rw [norm_i64_small (by omega) (by omega)]
  congr 1; omega

theorem shl_u8_one (k : Nat) : evalOp2 (.shl .u8) 1 (k : Int) = some (((2 ^ k % 256 : Nat)) : Int) := by
  have hk : ¬ ((k : Int) < 0) := by omega
  simp only [evalOp2, hk, if_false, Int.toNat_natCast, norm, Int.one_mul]
  rfl

/-- the `uint8` mask `1<<k - 1` (for k ≥ 8 it is 255) acts on a byte as the unbounded `2^k - 1` -/
theorem maskHi2 (bh k : Nat) (hbh : bh < 256) :
    ∃ m : Nat, m < 256 ∧ evalOp2 (.sub .u8) ((2 ^ k % 256 : Nat) : Int) 1 = some (m : Int) ∧
      bh &&& m = bh &&& (2 ^ k - 1) := by
  by_cases hk : k < 8
  · have h1 : 2 ^ k < 256 := Nat.pow_lt_pow_right (by omega) hk
    have h0 : 0 < 2 ^ k := Nat.two_pow_pos k
    refine ⟨2 ^ k - 1, by omega, ?_, rfl⟩
    rw [Nat.mod_eq_of_lt h1]
    generalize 2 ^ k = p at *
    simp only [evalOp2, norm]
    congr 1; omega
  · have h0 : 2 ^ k % 256 = 0 := two_pow_mod256 (by omega)
    have h2 : 256 ≤ 2 ^ k := Nat.le_of_dvd (Nat.two_pow_pos k) (Nat.dvd_of_mod_eq_zero h0)
    refine ⟨255, by omega, ?_, ?_⟩
    · rw [h0]; rfl
    · have e1 : bh &&& 255 = bh % 256 := Nat.and_two_pow_sub_one_eq_mod bh 8
      rw [e1, Nat.and_two_pow_sub_one_eq_mod, Nat.mod_eq_of_lt hbh, Nat.mod_eq_of_lt (by omega)]

section GetBits
variable {P : Prog} {G : Nat → Val} {X : Oracle}

theorem fn_2_body : fn_2.body =
    seqs [.assign 4 [] (.op1 (.shrc 3) (.var 1)),
      .assign 5 [] (.op2 (.sub .i64) (.lit 7) (.op2 (.and .i64) (.var 1) (.lit 7))),
      .assign 6 [] (.op2 (.sub .i64) (.op2 (.shl .i64) (.lit 1) (.op2 (.add .i64) (.var 2) (.lit 1))) (.lit 1)),
      .assign 7 [] (.op2 (.and .i64) (.op1 (.conv .i64) (.op2 .shr (.idx (.var 0) (.var 4)) (.var 5))) (.var 6)),
      .ite (.op2 .land (.op2 .gt (.op2 (.add .i64) (.op2 (.add .i64) (.var 5) (.var 2)) (.lit 1)) (.lit 7)) (.op2 .gt (.var 4) (.lit 0)))
        (seqs [.assign 8 [] (.op2 (.sub .i64) (.op2 (.add .i64) (.op2 (.add .i64) (.var 5) (.var 2)) (.lit 1)) (.lit 8)),
          .assign 9 [] (.op1 (.conv .i64) (.op2 (.and .u8) (.idx (.var 0) (.op2 (.sub .i64) (.var 4) (.lit 1))) (.op2 (.sub .u8) (.op2 (.shl .u8) (.lit 1) (.var 8)) (.lit 1)))),
          .assign 7 [] (.op2 (.or .i64) (.var 7) (.op2 (.shl .i64) (.var 9) (.op2 (.sub .i64) (.op2 (.add .i64) (.var 2) (.lit 1)) (.var 8))))]) .skip,
      .ret [(.var 7)],
      .panic] := rfl

/-- the state of getBits after the first three assignments -/
def envBits (s : Bytes) (idx w : Nat) : Env :=
  (((Env.ofList [bytesV s, .int (idx : Int), .int (w : Int)]).set 4 (.int ((idx / 8 : Nat) : Int))).set 5
    (.int ((7 - idx % 8 : Nat) : Int))).set 6 (.int ((2 ^ (w + 1) - 1 : Nat) : Int))

theorem bits_prologue (s : Bytes) (idx w : Nat) (hidx : idx < 9223372036854775808) (hw : w ≤ 61) (rest : Stmt) :
    (∀ {F env' c}, EvIn P G X F (envBits s idx w) rest env' c →
      EvIn P G X (F + 6) (Env.ofList [bytesV s, .int (idx : Int), .int (w : Int)])
        (seqs [.assign 4 [] (.op1 (.shrc 3) (.var 1)),
          .assign 5 [] (.op2 (.sub .i64) (.lit 7) (.op2 (.and .i64) (.var 1) (.lit 7))),
          .assign 6 [] (.op2 (.sub .i64) (.op2 (.shl .i64) (.lit 1) (.op2 (.add .i64) (.var 2) (.lit 1))) (.lit 1)),
          rest]) env' c) ∧
    (Stuck P G X (envBits s idx w) rest →
      Stuck P G X (Env.ofList [bytesV s, .int (idx : Int), .int (w : Int)])
        (seqs [.assign 4 [] (.op1 (.shrc 3) (.var 1)),
          .assign 5 [] (.op2 (.sub .i64) (.lit 7) (.op2 (.and .i64) (.var 1) (.lit 7))),
          .assign 6 [] (.op2 (.sub .i64) (.op2 (.shl .i64) (.lit 1) (.op2 (.add .i64) (.var 2) (.lit 1))) (.lit 1)),
          rest])) := by
  let e0 : Env := Env.ofList [bytesV s, .int (idx : Int), .int (w : Int)]
  let e1 := e0.set 4 (.int ((idx / 8 : Nat) : Int))
  let e2 := e1.set 5 (.int ((7 - idx % 8 : Nat) : Int))
  have s1 : evalV G e0 (.op1 (.shrc 3) (.var 1)) = some (.int ((idx / 8 : Nat) : Int)) :=
    ev_byteIdx (by simp [e0, Env.ofList])
  have s2 : evalV G e1 (.op2 (.sub .i64) (.lit 7) (.op2 (.and .i64) (.var 1) (.lit 7)))
      = some (.int ((7 - idx % 8 : Nat) : Int)) :=
    ev_bitIdx (by simp [e1, e0, Env.set, Env.ofList]) hidx
  have g2 : e2 2 = .int (w : Int) := by simp [e2, e1, e0, Env.set, Env.ofList]
  have s3 : evalV G e2 (.op2 (.sub .i64) (.op2 (.shl .i64) (.lit 1) (.op2 (.add .i64) (.var 2) (.lit 1))) (.lit 1))
      = some (.int ((2 ^ (w + 1) - 1 : Nat) : Int)) := by
    have ha : evalOp2 (.add .i64) (w : Int) 1 = some (((w + 1 : Nat)) : Int) := by
      simp only [evalOp2]
      rw [norm_i64_small (by omega) (by omega)]; rfl
    have hp := two_pow_lt63 (show w + 1 ≤ 62 by omega)
    have h0 : 0 < 2 ^ (w + 1) := Nat.two_pow_pos _
    have t1 : evalV G e2 (.op2 (.add .i64) (.var 2) (.lit 1)) = some (.int ((w + 1 : Nat) : Int)) := by
      simp only [evalV_op2, evalV_var, evalV_lit, g2, ha, Option.map_some]
    have t2 : evalV G e2 (.op2 (.shl .i64) (.lit 1) (.op2 (.add .i64) (.var 2) (.lit 1)))
        = some (.int ((2 ^ (w + 1) : Nat) : Int)) := by
      rw [evalV_op2, t1, evalV_lit]
      simp only [shl_i64_one (show w + 1 ≤ 62 by omega), Option.map_some]
    rw [evalV_op2, t2, evalV_lit]
    simp only [evalOp2, Option.map_some, norm_i64_pred h0 hp]
  constructor
  · intro F env' c hr
    exact (EvIn.seq (EvIn.assign s1) (EvIn.seq (EvIn.assign s2) (EvIn.seq (EvIn.assign s3) hr))).mono (by omega)
  · intro hr
    exact Stuck.seq_right (EvIn.assign s1) (Stuck.seq_right (EvIn.assign s2) (Stuck.seq_right (EvIn.assign s3) hr))

/-- the statements of getBits after the first three assignments -/
def bitsRest : Stmt :=
  seqs [.assign 7 [] (.op2 (.and .i64) (.op1 (.conv .i64) (.op2 .shr (.idx (.var 0) (.var 4)) (.var 5))) (.var 6)),
      .ite (.op2 .land (.op2 .gt (.op2 (.add .i64) (.op2 (.add .i64) (.var 5) (.var 2)) (.lit 1)) (.lit 7)) (.op2 .gt (.var 4) (.lit 0)))
        (seqs [.assign 8 [] (.op2 (.sub .i64) (.op2 (.add .i64) (.op2 (.add .i64) (.var 5) (.var 2)) (.lit 1)) (.lit 8)),
          .assign 9 [] (.op1 (.conv .i64) (.op2 (.and .u8) (.idx (.var 0) (.op2 (.sub .i64) (.var 4) (.lit 1))) (.op2 (.sub .u8) (.op2 (.shl .u8) (.lit 1) (.var 8)) (.lit 1)))),
          .assign 7 [] (.op2 (.or .i64) (.var 7) (.op2 (.shl .i64) (.var 9) (.op2 (.sub .i64) (.op2 (.add .i64) (.var 2) (.lit 1)) (.var 8))))]) .skip,
      .ret [(.var 7)],
      .panic]

/-- `s[byteIdx] >> bitIdx & mask` -/
theorem bits_lo {env : Env} {s : Bytes} {B K M : Nat} {b : UInt8}
    (g0 : env 0 = bytesV s) (g4 : env 4 = .int (B : Int)) (g5 : env 5 = .int (K : Int)) (g6 : env 6 = .int (M : Int))
    (hM : M < 9223372036854775808) (hb : s[B]? = some b) :
    evalV G env (.op2 (.and .i64) (.op1 (.conv .i64) (.op2 .shr (.idx (.var 0) (.var 4)) (.var 5))) (.var 6))
      = some (.int (((b.toNat >>> K) &&& M : Nat) : Int)) := by
  have hbyte := b.toNat_lt
  have hsh : b.toNat >>> K < 256 := Nat.lt_of_le_of_lt (Nat.shiftRight_le _ _) (by omega)
  have t1 : evalV G env (.idx (.var 0) (.var 4)) = some (.int (b.toNat : Int)) := by
    simp only [evalV_idx, evalV_var, g0, g4, bytesV, getIdx_ofNat, List.getElem?_map, hb, Option.map_some,
      Int.ofNat_eq_natCast]
  have t2 : evalV G env (.op2 .shr (.idx (.var 0) (.var 4)) (.var 5)) = some (.int ((b.toNat >>> K : Nat) : Int)) := by
    rw [evalV_op2, t1, evalV_var, g5]
    simp only [shr_nat, Option.map_some]
  have t3 : evalV G env (.op1 (.conv .i64) (.op2 .shr (.idx (.var 0) (.var 4)) (.var 5)))
      = some (.int ((b.toNat >>> K : Nat) : Int)) := by
    rw [evalV_op1, t2]
    simp only [evalOp1]
    rw [norm_i64_nat (by omega)]
  rw [evalV_op2, t3, evalV_var, g6]
  simp only [and_i64_nat (show b.toNat >>> K < 9223372036854775808 by omega) (show M < 18446744073709551616 by omega),
    Option.map_some]

/-- `bitIdx + w + 1` -/
theorem bits_sum {env : Env} {K w : Nat} (g5 : env 5 = .int (K : Int)) (g2 : env 2 = .int (w : Int))
    (h : K + w + 1 < 9223372036854775808) :
    evalV G env (.op2 (.add .i64) (.op2 (.add .i64) (.var 5) (.var 2)) (.lit 1)) = some (.int ((K + w + 1 : Nat) : Int)) := by
  have t1 : evalV G env (.op2 (.add .i64) (.var 5) (.var 2)) = some (.int ((K + w : Nat) : Int)) := by
    rw [evalV_op2, evalV_var, evalV_var, g5, g2]
    simp only [add_i64_nat (show K + w < 9223372036854775808 by omega), Option.map_some]
  have h1 : evalOp2 (.add .i64) ((K + w : Nat) : Int) 1 = some ((K + w + 1 : Nat) : Int) :=
    add_i64_nat (b := 1) h
  rw [evalV_op2, t1, evalV_lit]
  simp only [h1, Option.map_some]

/-- `bitIdx + w + 1 > 7 && byteIdx > 0` -/
theorem bits_cond {env : Env} {B K w : Nat} (g4 : env 4 = .int (B : Int)) (g5 : env 5 = .int (K : Int))
    (g2 : env 2 = .int (w : Int)) (h : K + w + 1 < 9223372036854775808) :
    evalV G env (.op2 .land (.op2 .gt (.op2 (.add .i64) (.op2 (.add .i64) (.var 5) (.var 2)) (.lit 1)) (.lit 7)) (.op2 .gt (.var 4) (.lit 0)))
      = some (.int (if K + w + 1 > 7 ∧ B > 0 then 1 else 0)) := by
  have t1 : evalV G env (.op2 .gt (.op2 (.add .i64) (.op2 (.add .i64) (.var 5) (.var 2)) (.lit 1)) (.lit 7))
      = some (.int (if K + w + 1 > 7 then 1 else 0)) := by
    rw [evalV_op2, bits_sum g5 g2 h, evalV_lit]
    simp only [evalOp2, Option.map_some, ofBool]
    by_cases h7 : K + w + 1 > 7
    · simp [h7]; omega
    · simp [h7]; omega
  have t2 : evalV G env (.op2 .gt (.var 4) (.lit 0)) = some (.int (if B > 0 then 1 else 0)) := by
    rw [evalV_op2, evalV_var, g4, evalV_lit]
    simp only [evalOp2, Option.map_some, ofBool]
    by_cases h0 : B > 0
    · simp [h0]
    · simp [h0]
  rw [evalV_op2, t1, t2]
  simp only [evalOp2, Option.map_some, ofBool]
  by_cases h7 : K + w + 1 > 7 <;> by_cases h0 : B > 0 <;> simp [h7, h0]


/-- `int(s[byteIdx-1] & (1<<bitsHi - 1))` -/
theorem bits_hi {env : Env} {s : Bytes} {B H : Nat} {bh : UInt8}
    (g0 : env 0 = bytesV s) (g4 : env 4 = .int (B : Int)) (g8 : env 8 = .int (H : Int))
    (hB : 0 < B) (hB2 : B < 9223372036854775808) (hb : s[B - 1]? = some bh) :
    evalV G env (.op1 (.conv .i64) (.op2 (.and .u8) (.idx (.var 0) (.op2 (.sub .i64) (.var 4) (.lit 1)))
        (.op2 (.sub .u8) (.op2 (.shl .u8) (.lit 1) (.var 8)) (.lit 1))))
      = some (.int ((bh.toNat &&& (2 ^ H - 1) : Nat) : Int)) := by
  have hbyte : bh.toNat < 256 := by have := bh.toNat_lt; omega
  obtain ⟨m, hm, hsub, hand⟩ := maskHi2 bh.toNat H hbyte
  have i1 : evalV G env (.op2 (.sub .i64) (.var 4) (.lit 1)) = some (.int ((B - 1 : Nat) : Int)) := by
    have h1 : evalOp2 (.sub .i64) (B : Int) 1 = some ((B - 1 : Nat) : Int) := sub_i64_nat (b := 1) hB hB2
    rw [evalV_op2, evalV_var, g4, evalV_lit]
    simp only [h1, Option.map_some]
  have i2 : evalV G env (.idx (.var 0) (.op2 (.sub .i64) (.var 4) (.lit 1))) = some (.int (bh.toNat : Int)) := by
    rw [evalV_idx, i1, evalV_var, g0]
    simp only [bytesV, getIdx_ofNat, List.getElem?_map, hb, Option.map_some, Int.ofNat_eq_natCast]
  have m1 : evalV G env (.op2 (.shl .u8) (.lit 1) (.var 8)) = some (.int ((2 ^ H % 256 : Nat) : Int)) := by
    rw [evalV_op2, evalV_lit, evalV_var, g8]
    simp only [shl_u8_one, Option.map_some]
  have m2 : evalV G env (.op2 (.sub .u8) (.op2 (.shl .u8) (.lit 1) (.var 8)) (.lit 1)) = some (.int (m : Int)) := by
    rw [evalV_op2, m1, evalV_lit]
    simp only [hsub, Option.map_some]
  have a1 : evalV G env (.op2 (.and .u8) (.idx (.var 0) (.op2 (.sub .i64) (.var 4) (.lit 1)))
        (.op2 (.sub .u8) (.op2 (.shl .u8) (.lit 1) (.var 8)) (.lit 1))) = some (.int ((bh.toNat &&& m : Nat) : Int)) := by
    rw [evalV_op2, i2, m2]
    simp only [and_u8_nat hbyte hm, Option.map_some]
  have hle : bh.toNat &&& m ≤ bh.toNat := Nat.and_le_left
  rw [evalV_op1, a1]
  simp only [evalOp1]
  rw [norm_i64_nat (by omega), hand]

/-- `byteLo | byteHi << (w + 1 - bitsHi)` -/
theorem bits_or {env : Env} {lo hi w H : Nat}
    (g7 : env 7 = .int (lo : Int)) (g9 : env 9 = .int (hi : Int)) (g2 : env 2 = .int (w : Int)) (g8 : env 8 = .int (H : Int))
    (hlo : lo < 256) (hhi : hi < 256) (hH : H ≤ w + 1) (hH2 : w + 1 - H ≤ 8) (hw : w + 1 < 9223372036854775808) :
    evalV G env (.op2 (.or .i64) (.var 7) (.op2 (.shl .i64) (.var 9) (.op2 (.sub .i64) (.op2 (.add .i64) (.var 2) (.lit 1)) (.var 8))))
      = some (.int ((lo ||| (hi <<< (w + 1 - H)) : Nat) : Int)) := by
  have a1 : evalV G env (.op2 (.add .i64) (.var 2) (.lit 1)) = some (.int ((w + 1 : Nat) : Int)) := by
    have h1 : evalOp2 (.add .i64) (w : Int) 1 = some ((w + 1 : Nat) : Int) := add_i64_nat (b := 1) hw
    rw [evalV_op2, evalV_var, g2, evalV_lit]
    simp only [h1, Option.map_some]
  have a2 : evalV G env (.op2 (.sub .i64) (.op2 (.add .i64) (.var 2) (.lit 1)) (.var 8))
      = some (.int ((w + 1 - H : Nat) : Int)) := by
    rw [evalV_op2, a1, evalV_var, g8]
    simp only [sub_i64_nat hH hw, Option.map_some]
  have hp : 2 ^ (w + 1 - H) ≤ 2 ^ 8 := Nat.pow_le_pow_right (by omega) hH2
  have hmul : hi * 2 ^ (w + 1 - H) < 65536 := by
    have : hi * 2 ^ (w + 1 - H) ≤ 255 * 2 ^ 8 := Nat.mul_le_mul (by omega) hp
    omega
  have a3 : evalV G env (.op2 (.shl .i64) (.var 9) (.op2 (.sub .i64) (.op2 (.add .i64) (.var 2) (.lit 1)) (.var 8)))
      = some (.int ((hi <<< (w + 1 - H) : Nat) : Int)) := by
    rw [evalV_op2, evalV_var, g9, a2]
    simp only [shl_i64_nat (show hi * 2 ^ (w + 1 - H) < 9223372036854775808 by omega), Option.map_some]
  have hsl : hi <<< (w + 1 - H) < 65536 := by rw [Nat.shiftLeft_eq]; exact hmul
  rw [evalV_op2, evalV_var, g7, a3]
  simp only [or_i64_nat (show lo < 9223372036854775808 by omega)
    (show hi <<< (w + 1 - H) < 9223372036854775808 by omega), Option.map_some]


theorem fn_2_body' : fn_2.body =
    seqs [.assign 4 [] (.op1 (.shrc 3) (.var 1)),
      .assign 5 [] (.op2 (.sub .i64) (.lit 7) (.op2 (.and .i64) (.var 1) (.lit 7))),
      .assign 6 [] (.op2 (.sub .i64) (.op2 (.shl .i64) (.lit 1) (.op2 (.add .i64) (.var 2) (.lit 1))) (.lit 1)),
      bitsRest] := rfl

/-- getBits, body level: the model returns `d` ⇒ the body returns `[d]`.  Domain: 0 ≤ idx < 2^63, 0 ≤ w ≤ 61. -/
theorem getBits_body_ok (s : Bytes) (idx w : Nat) (hidx : idx < 9223372036854775808) (hw : w ≤ 61)
    (d : Nat) (h : Model.Utils.getBits s idx w = .ok d) :
    ∃ env', EvIn P G X fuelBit (Env.ofList [bytesV s, .int (idx : Int), .int (w : Int)]) fn_2.body env'
      (.ret [.int (d : Int)]) := by
  rw [getBits_unfold] at h
  simp only [Outcome.idx] at h
  cases hb : s[idx / 8]? with
  | none => simp [hb] at h
  | some b =>
    simp only [hb, Outcome.bind_ok] at h
    have hK : 7 - idx % 8 ≤ 7 := by omega
    have hp := two_pow_lt63 (show w + 1 ≤ 62 by omega)
    have hbyte := b.toNat_lt
    generalize hKdef : 7 - idx % 8 = K at *
    generalize hBdef : idx / 8 = B at *
    have hBlt : B < 9223372036854775808 := by omega
    let lo : Nat := (b.toNat >>> K) &&& (2 ^ (w + 1) - 1)
    have hlo : lo < 256 :=
      Nat.lt_of_le_of_lt Nat.and_le_left (Nat.lt_of_le_of_lt (Nat.shiftRight_le _ _) (by omega))
    let e3 : Env := envBits s idx w
    have g0 : e3 0 = bytesV s := by simp [e3, envBits, Env.set, Env.ofList]
    have g2 : e3 2 = .int (w : Int) := by simp [e3, envBits, Env.set, Env.ofList]
    have g4 : e3 4 = .int (B : Int) := by simp [e3, envBits, Env.set, hBdef]
    have g5 : e3 5 = .int (K : Int) := by simp [e3, envBits, Env.set, hKdef]
    have g6 : e3 6 = .int ((2 ^ (w + 1) - 1 : Nat) : Int) := by simp [e3, envBits]
    have s4 := bits_lo (G := G) g0 g4 g5 g6 (by omega) hb
    let e4 := e3.set 7 (.int (lo : Int))
    have k2 : e4 2 = .int (w : Int) := by simp [e4, Env.set, g2]
    have k4 : e4 4 = .int (B : Int) := by simp [e4, Env.set, g4]
    have k5 : e4 5 = .int (K : Int) := by simp [e4, Env.set, g5]
    have hc := bits_cond (G := G) k4 k5 k2 (show K + w + 1 < 9223372036854775808 by omega)
    have pre : ∀ {F env' c}, F ≤ 10 → EvIn P G X F e4 (seqs [.ite (.op2 .land (.op2 .gt (.op2 (.add .i64) (.op2 (.add .i64) (.var 5) (.var 2)) (.lit 1)) (.lit 7)) (.op2 .gt (.var 4) (.lit 0)))
        (seqs [.assign 8 [] (.op2 (.sub .i64) (.op2 (.add .i64) (.op2 (.add .i64) (.var 5) (.var 2)) (.lit 1)) (.lit 8)),
          .assign 9 [] (.op1 (.conv .i64) (.op2 (.and .u8) (.idx (.var 0) (.op2 (.sub .i64) (.var 4) (.lit 1))) (.op2 (.sub .u8) (.op2 (.shl .u8) (.lit 1) (.var 8)) (.lit 1)))),
          .assign 7 [] (.op2 (.or .i64) (.var 7) (.op2 (.shl .i64) (.var 9) (.op2 (.sub .i64) (.op2 (.add .i64) (.var 2) (.lit 1)) (.var 8))))]) .skip,
        .ret [(.var 7)], .panic]) env' c →
        EvIn P G X fuelBit (Env.ofList [bytesV s, .int (idx : Int), .int (w : Int)]) fn_2.body env' c := by
      intro F env' c hF hr
      rw [fn_2_body']
      exact ((bits_prologue (P := P) (G := G) (X := X) s idx w hidx hw bitsRest).1
        (EvIn.seq (EvIn.assign s4) hr)).mono (by simp only [fuelBit]; omega)
    by_cases hcond : K + w + 1 > 7 ∧ B > 0
    · rw [if_pos hcond] at h hc
      cases hbh : s[B - 1]? with
      | none => simp [hbh] at h
      | some bh =>
        simp only [hbh, Outcome.bind_ok, Outcome.ok.injEq] at h
        have hbh8 : bh.toNat < 256 := by have := bh.toNat_lt; omega
        let H : Nat := K + w + 1 - 8
        let hi : Nat := bh.toNat &&& (2 ^ H - 1)
        have hhi : hi < 256 := Nat.lt_of_le_of_lt Nat.and_le_left hbh8
        have s8 : evalV G e4 (.op2 (.sub .i64) (.op2 (.add .i64) (.op2 (.add .i64) (.var 5) (.var 2)) (.lit 1)) (.lit 8))
            = some (.int (H : Int)) := by
          have h1 : evalOp2 (.sub .i64) ((K + w + 1 : Nat) : Int) 8 = some ((K + w + 1 - 8 : Nat) : Int) :=
            sub_i64_nat (b := 8) (by omega) (by omega)
          rw [evalV_op2, bits_sum k5 k2 (by omega), evalV_lit]
          simp only [h1, Option.map_some, H]
        let e5 := e4.set 8 (.int (H : Int))
        have l0 : e5 0 = bytesV s := by simp [e5, e4, Env.set, g0]
        have l4 : e5 4 = .int (B : Int) := by simp [e5, Env.set, k4]
        have l8 : e5 8 = .int (H : Int) := by simp [e5]
        have s9 := bits_hi (G := G) l0 l4 l8 hcond.2 hBlt hbh
        let e6 := e5.set 9 (.int (hi : Int))
        have m7 : e6 7 = .int (lo : Int) := by simp [e6, e5, e4, Env.set]
        have m9 : e6 9 = .int (hi : Int) := by simp [e6]
        have m2 : e6 2 = .int (w : Int) := by simp [e6, e5, Env.set, k2]
        have m8 : e6 8 = .int (H : Int) := by simp [e6, e5, Env.set]
        have s7 := bits_or (G := G) m7 m9 m2 m8 hlo hhi (show H ≤ w + 1 by omega) (show w + 1 - H ≤ 8 by omega) (by omega)
        let e7 := e6.set 7 (.int ((lo ||| (hi <<< (w + 1 - H)) : Nat) : Int))
        have hr : evalVs G e7 [(.var 7)] = some [.int (d : Int)] := by
          simp only [evalVs_cons, evalVs_nil, evalV_var, e7, Env.set_same, ← h, lo, hi, H]
        exact ⟨e7, pre (by decide) (EvIn.seq (EvIn.ite (d := true) hc rfl
          (EvIn.seq (EvIn.assign s8) (EvIn.seq (EvIn.assign s9) (EvIn.assign s7))))
          (EvIn.seq_stop (EvIn.ret hr) (by simp)))⟩
    · rw [if_neg hcond] at h hc
      simp only [Outcome.ok.injEq] at h
      have hr : evalVs G e4 [(.var 7)] = some [.int (d : Int)] := by
        simp only [evalVs_cons, evalVs_nil, evalV_var, e4, Env.set_same, ← h, lo]
      exact ⟨e4, pre (by decide) (EvIn.seq (EvIn.ite (d := false) hc rfl (EvIn.skip _))
          (EvIn.seq_stop (EvIn.ret hr) (by simp)))⟩


/-- getBits, body level: the model panics (index out of range) ⇒ the body is stuck -/
theorem getBits_body_stuck (s : Bytes) (idx w : Nat) (hidx : idx < 9223372036854775808) (hw : w ≤ 61)
    (h : Model.Utils.getBits s idx w = .panic) :
    Stuck P G X (Env.ofList [bytesV s, .int (idx : Int), .int (w : Int)]) fn_2.body := by
  rw [getBits_unfold] at h
  simp only [Outcome.idx] at h
  cases hb : s[idx / 8]? with
  | some b =>
    exfalso
    simp only [hb, Outcome.bind_ok] at h
    split at h
    · cases hbh : s[idx / 8 - 1]? with
      | some bh => simp [hbh] at h
      | none =>
        have h1 : idx / 8 < s.length := (List.getElem?_eq_some_iff.mp hb).1
        have h2 : s.length ≤ idx / 8 - 1 := List.getElem?_eq_none_iff.mp hbh
        omega
    · cases h
  | none =>
    let e3 : Env := envBits s idx w
    have g0 : e3 0 = bytesV s := by simp [e3, envBits, Env.set, Env.ofList]
    have g4 : e3 4 = .int ((idx / 8 : Nat) : Int) := by simp [e3, envBits, Env.set]
    rw [fn_2_body']
    refine (bits_prologue (P := P) (G := G) (X := X) s idx w hidx hw bitsRest).2 (Stuck.seq_left (Stuck.assign ?_))
    show evalV G e3 _ = none
    simp only [evalV_op1, evalV_op2, evalV_idx, evalV_var, g0, g4, bytesV, getIdx_ofNat,
      List.getElem?_map, hb, Option.map_none]

/-- getBits, run level -/
theorem ir_getBits_ok (s : Bytes) (idx w : Nat) (hidx : idx < 9223372036854775808) (hw : w ≤ 61)
    (d : Nat) (h : Model.Utils.getBits s idx w = .ok d) :
    ∀ f, fuelBit ≤ f → runV prog G X f f_utils_getBits [bytesV s, .int (idx : Int), .int (w : Int)]
      = .ret [.int (d : Int)] := by
  obtain ⟨env', hb⟩ := getBits_body_ok (P := prog) (G := G) (X := X) s idx w hidx hw d h
  exact runV_of_EvIn fn2_lookup rfl rfl hb

theorem ir_getBits_panic (s : Bytes) (idx w : Nat) (hidx : idx < 9223372036854775808) (hw : w ≤ 61)
    (h : Model.Utils.getBits s idx w = .panic) :
    ∀ f, runV prog G X f f_utils_getBits [bytesV s, .int (idx : Int), .int (w : Int)] = .stuck :=
  runV_of_Stuck fn2_lookup (getBits_body_stuck (P := prog) (G := G) (X := X) s idx w hidx hw h)

/-- the result of getBits is small (two bytes at most) -/
theorem getBits_lt (s : Bytes) (idx w d : Nat) (h : Model.Utils.getBits s idx w = .ok d) : d < 65536 := by
  rw [getBits_unfold] at h
  simp only [Outcome.idx] at h
  cases hb : s[idx / 8]? with
  | none => simp [hb] at h
  | some b =>
    simp only [hb, Outcome.bind_ok] at h
    have hbyte := b.toNat_lt
    have hlo : (b.toNat >>> (7 - idx % 8)) &&& (2 ^ (w + 1) - 1) < 256 :=
      Nat.lt_of_le_of_lt Nat.and_le_left (Nat.lt_of_le_of_lt (Nat.shiftRight_le _ _) (by omega))
    split at h
    · rename_i hc
      cases hbh : s[idx / 8 - 1]? with
      | none => simp [hbh] at h
      | some bh =>
        simp only [hbh, Outcome.bind_ok, Outcome.ok.injEq] at h
        have hbh8 : bh.toNat < 256 := by have := bh.toNat_lt; omega
        have hhi : bh.toNat &&& (2 ^ (7 - idx % 8 + w + 1 - 8) - 1) < 256 := Nat.lt_of_le_of_lt Nat.and_le_left hbh8
        have hk : w + 1 - (7 - idx % 8 + w + 1 - 8) ≤ 8 := by omega
        generalize w + 1 - (7 - idx % 8 + w + 1 - 8) = k at *
        generalize bh.toNat &&& (2 ^ (7 - idx % 8 + w + 1 - 8) - 1) = hi at *
        generalize (b.toNat >>> (7 - idx % 8)) &&& (2 ^ (w + 1) - 1) = lo at *
        have hp : 2 ^ k ≤ 2 ^ 8 := Nat.pow_le_pow_right (by omega) hk
        have hmul : hi * 2 ^ k ≤ 255 * 2 ^ 8 := Nat.mul_le_mul (by omega) hp
        have hsl : hi <<< k < 2 ^ 16 := by rw [Nat.shiftLeft_eq]; omega
        have : lo ||| hi <<< k < 2 ^ 16 := Nat.or_lt_two_pow (by omega) hsl
        omega
    · simp only [Outcome.ok.injEq] at h
      omega


end GetBits

/-! ## DecomposeNAF -/

/-- `if d&1 == 0 && oldCarry { d += 1 }` -/
def dAdj (d0 : Nat) (oldCarry : Bool) : Int := if d0 % 2 = 0 ∧ oldCarry = true then (d0 : Int) + 1 else (d0 : Int)
/-- `if d >= halfWindow { d -= windowSize; carry = true }` -/
def dFin (w : Nat) (d1 : Int) (c : Bool) : Int × Bool :=
  if d1 ≥ ((2 ^ w : Nat) : Int) then (d1 - ((2 ^ (w + 1) : Nat) : Int), true) else (d1, c)

theorem nafLoop_zero (s : Bytes) (n w outIdx : Nat) (carry : Bool) (out : List Int) :
    Model.Utils.nafLoop s n w 0 outIdx carry out = .ok (out, carry) := rfl

theorem nafLoop_succ (s : Bytes) (n w fuel outIdx : Nat) (carry : Bool) (out : List Int) :
    Model.Utils.nafLoop s n w (fuel + 1) outIdx carry out =
      if outIdx + 1 < n then
        Model.Utils.getBit s (n - outIdx - 1 - 1) carry >>= fun p =>
          if p.1 = 1 then
            Model.Utils.getBits s (n - outIdx - 1 - 1) w >>= fun d0 =>
              Model.Utils.setIdx out outIdx (dFin w (dAdj d0 carry) p.2).1 >>= fun out' =>
                Model.Utils.nafLoop s n w fuel (outIdx + w + 1) (dFin w (dAdj d0 carry) p.2).2 out'
          else Model.Utils.nafLoop s n w fuel (outIdx + 1) p.2 out
      else .ok (out, carry) := by
  rfl

theorem updPath_ints (out : List Int) (k : Nat) (v : Int) (h : k < out.length) :
    updPath (intsV out) [k] (.int v) = some (intsV (out.set k v)) := by
  have hk : (out.map Val.int)[k]? = some (Val.int out[k]) := by
    rw [List.getElem?_map, List.getElem?_eq_getElem h]; rfl
  simp [updPath, intsV, hk, List.map_set]

theorem updPath_ints_none (out : List Int) (k : Nat) (v : Val) (h : out.length ≤ k) :
    updPath (intsV out) [k] v = none := by
  have hk : (out.map Val.int)[k]? = none := by
    rw [List.getElem?_map, List.getElem?_eq_none h]; rfl
  simp [updPath, intsV, hk]

def condE : Expr := .op2 .lt (.var 8) (.op2 (.sub .i64) (.var 2) (.lit 1))
def hitS : Stmt := seqs [.call [14] 2 [(.var 1), (.op2 (.sub .i64) (.var 9) (.lit 1)), (.var 3)],
    .assign 15 [] (.var 14),
    .ite (.op2 .land (.op2 .eq (.op2 (.and .i64) (.var 15) (.lit 1)) (.lit 0)) (.var 10)) (.assign 15 [] (.op2 (.add .i64) (.var 15) (.lit 1))) .skip,
    .ite (.op2 .ge (.var 15) (.var 6)) (seqs [.assign 15 [] (.op2 (.sub .i64) (.var 15) (.var 5)),
    .assign 7 [] (.lit 1)]) .skip,
    .assign 0 [.e (.var 8)] (.var 15),
    .assign 8 [] (.op2 (.add .i64) (.var 8) (.var 3))]
def iteS : Stmt := .ite (.op2 .eq (.var 11) (.lit 1)) hitS .skip
def bodyS : Stmt := seqs [.assign 9 [] (.op2 (.sub .i64) (.op2 (.sub .i64) (.var 2) (.var 8)) (.lit 1)),
    .assign 10 [] (.var 7),
    .assign 11 [] (.lit 0),
    .call [12, 13] 1 [(.var 1), (.op2 (.sub .i64) (.var 9) (.lit 1)), (.var 7)],
    .assign 11 [] (.var 12),
    .assign 7 [] (.var 13),
    iteS]
def postS : Stmt := .assign 8 [] (.op2 (.add .i64) (.var 8) (.lit 1))
def loopS : Stmt := .loop condE bodyS postS

theorem fn_0_body : fn_0.body =
    seqs [.ite (.op2 .lor (.op2 .lor (.op2 .lor (.lit 0) (.lit 0)) (.op2 .le (.var 3) (.lit 0))) (.op2 .gt (.var 3) (.lit 7))) (.panic) .skip,
      .assign 5 [] (.op2 (.shl .i64) (.lit 1) (.op2 (.add .i64) (.var 3) (.lit 1))),
      .assign 6 [] (.op2 (.shl .i64) (.lit 1) (.var 3)),
      .assign 7 [] (.lit 0),
      .assign 8 [] (.lit 0),
      loopS,
      .ite (.var 7) (.assign 0 [.e (.op2 (.sub .i64) (.var 2) (.lit 1))] (.lit 1)) .skip,
      .ret [(.var 0)]] := rfl

section Naf
variable {P : Prog} {G : Nat → Val} {X : Oracle}

/-- the state at the head of the loop -/
structure Inv (env : Env) (out : List Int) (s : Bytes) (n w : Nat) (carry : Bool) (outIdx : Nat) : Prop where
  h0 : env 0 = intsV out
  h1 : env 1 = bytesV s
  h2 : env 2 = .int (n : Int)
  h3 : env 3 = .int (w : Int)
  h5 : env 5 = .int ((2 ^ (w + 1) : Nat) : Int)
  h6 : env 6 = .int ((2 ^ w : Nat) : Int)
  h7 : env 7 = boolV carry
  h8 : env 8 = .int (outIdx : Int)

/-- the loop condition `outIdx < n-1` -/
theorem cond_val {env : Env} {n outIdx : Nat} (h2 : env 2 = .int (n : Int)) (h8 : env 8 = .int (outIdx : Int))
    (hn : n < 9223372036854775808) :
    evalV G env condE = some (.int (if outIdx + 1 < n then 1 else 0)) := by
  have t1 : evalV G env (.op2 (.sub .i64) (.var 2) (.lit 1)) = some (.int ((n : Int) - 1)) := by
    rw [evalV_op2, evalV_var, h2, evalV_lit]
    simp only [evalOp2, Option.map_some]
    rw [norm_i64_small (by omega) (by omega)]
  rw [condE, evalV_op2, evalV_var, h8, t1]
  simp only [evalOp2, Option.map_some, ofBool]
  by_cases h : outIdx + 1 < n
  · have : (outIdx : Int) < (n : Int) - 1 := by omega
    simp [h, this]
  · have : ¬ (outIdx : Int) < (n : Int) - 1 := by omega
    simp [h, this]

/-- the prefix of the body: bitIdx, oldCarry, the call of getBit -/
theorem round_pre (hP1 : P[1]? = some fn_1) {env : Env} {out : List Int} {s : Bytes} {n w outIdx : Nat} {carry : Bool}
    (h : Inv env out s n w carry outIdx) (hlt : outIdx + 1 < n) (hn : n < 9223372036854775808)
    {bit : Nat} {c' : Bool} (hg : Model.Utils.getBit s (n - outIdx - 1 - 1) carry = .ok (bit, c')) :
    ∃ e6, (∀ {F rest env' c}, EvIn P G X F e6 rest env' c →
        EvIn P G X (F + 32) env (seqs [.assign 9 [] (.op2 (.sub .i64) (.op2 (.sub .i64) (.var 2) (.var 8)) (.lit 1)),
          .assign 10 [] (.var 7), .assign 11 [] (.lit 0),
          .call [12, 13] 1 [(.var 1), (.op2 (.sub .i64) (.var 9) (.lit 1)), (.var 7)],
          .assign 11 [] (.var 12), .assign 7 [] (.var 13), rest]) env' c) ∧
      (∀ {rest}, Stuck P G X e6 rest →
        Stuck P G X env (seqs [.assign 9 [] (.op2 (.sub .i64) (.op2 (.sub .i64) (.var 2) (.var 8)) (.lit 1)),
          .assign 10 [] (.var 7), .assign 11 [] (.lit 0),
          .call [12, 13] 1 [(.var 1), (.op2 (.sub .i64) (.var 9) (.lit 1)), (.var 7)],
          .assign 11 [] (.var 12), .assign 7 [] (.var 13), rest])) ∧
      Inv e6 out s n w c' outIdx ∧ e6 9 = .int ((n - outIdx - 1 : Nat) : Int) ∧ e6 10 = boolV carry ∧
      e6 11 = .int (bit : Int) := by
  obtain ⟨h0, h1, h2, h3, h5, h6, h7, h8⟩ := h
  let bi : Nat := n - outIdx - 1
  let e1 := env.set 9 (.int (bi : Int))
  let e2 := e1.set 10 (boolV carry)
  let e3 := e2.set 11 (.int 0)
  let e4 := (e3.set 12 (.int (bit : Int))).set 13 (boolV c')
  let e5 := e4.set 11 (.int (bit : Int))
  let e6 := e5.set 7 (boolV c')
  have s9 : evalV G env (.op2 (.sub .i64) (.op2 (.sub .i64) (.var 2) (.var 8)) (.lit 1)) = some (.int (bi : Int)) := by
    have t1 : evalV G env (.op2 (.sub .i64) (.var 2) (.var 8)) = some (.int ((n - outIdx : Nat) : Int)) := by
      rw [evalV_op2, evalV_var, evalV_var, h2, h8]
      simp only [sub_i64_nat (show outIdx ≤ n by omega) hn, Option.map_some]
    have h1' : evalOp2 (.sub .i64) ((n - outIdx : Nat) : Int) 1 = some ((n - outIdx - 1 : Nat) : Int) :=
      sub_i64_nat (b := 1) (by omega) (by omega)
    rw [evalV_op2, t1, evalV_lit]
    simp only [h1', Option.map_some, bi]
  have s10 : evalV G e1 (.var 7) = some (boolV carry) := by simp [e1, Env.set, h7]
  have g1 : e3 1 = bytesV s := by simp [e3, e2, e1, Env.set, h1]
  have g7 : e3 7 = boolV carry := by simp [e3, e2, e1, Env.set, h7]
  have g9 : e3 9 = .int (bi : Int) := by simp [e3, e2, e1, Env.set]
  have sub1 : evalV G e3 (.op2 (.sub .i64) (.var 9) (.lit 1)) = some (.int ((n - outIdx - 1 - 1 : Nat) : Int)) := by
    have h1' : evalOp2 (.sub .i64) (bi : Int) 1 = some ((bi - 1 : Nat) : Int) :=
      sub_i64_nat (b := 1) (by omega) (by omega)
    rw [evalV_op2, evalV_var, g9, evalV_lit]
    simp only [h1', Option.map_some, bi]
  have args : evalVs G e3 [(.var 1), (.op2 (.sub .i64) (.var 9) (.lit 1)), (.var 7)]
      = some [bytesV s, .int ((n - outIdx - 1 - 1 : Nat) : Int), boolV carry] := by
    simp only [evalVs_cons, evalVs_nil, evalV_var, sub1, g1, g7]
  obtain ⟨envc, hcall⟩ := getBit_body_ok (P := P) (G := G) (X := X) s (n - outIdx - 1 - 1) carry (by omega) bit c' hg
  have call : EvIn P G X (fuelBit + 1) e3 (.call [12, 13] 1 [(.var 1), (.op2 (.sub .i64) (.var 9) (.lit 1)), (.var 7)])
      e4 .norm := EvIn.call args hP1 rfl rfl hcall rfl
  have s11 : evalV G e4 (.var 12) = some (.int (bit : Int)) := by simp [e4, Env.set]
  have s7 : evalV G e5 (.var 13) = some (boolV c') := by simp [e5, e4, Env.set]
  refine ⟨e6, ?_, ?_, ⟨?_, ?_, ?_, ?_, ?_, ?_, ?_, ?_⟩, ?_, ?_, ?_⟩
  · intro F rest env' c hr
    exact (EvIn.seq (EvIn.assign s9) (EvIn.seq (EvIn.assign s10) (EvIn.seq (EvIn.assign (v := .int 0) rfl)
      (EvIn.seq call (EvIn.seq (EvIn.assign s11) (EvIn.seq (EvIn.assign s7) hr)))))).mono
      (by simp only [fuelBit]; omega)
  · intro rest hr
    exact Stuck.seq_right (EvIn.assign s9) (Stuck.seq_right (EvIn.assign s10) (Stuck.seq_right (EvIn.assign (v := .int 0) rfl)
      (Stuck.seq_right call (Stuck.seq_right (EvIn.assign s11) (Stuck.seq_right (EvIn.assign s7) hr)))))
  · simp [e6, e5, e4, e3, e2, e1, Env.set, h0]
  · simp [e6, e5, e4, e3, e2, e1, Env.set, h1]
  · simp [e6, e5, e4, e3, e2, e1, Env.set, h2]
  · simp [e6, e5, e4, e3, e2, e1, Env.set, h3]
  · simp [e6, e5, e4, e3, e2, e1, Env.set, h5]
  · simp [e6, e5, e4, e3, e2, e1, Env.set, h6]
  · simp [e6]
  · simp [e6, e5, e4, e3, e2, e1, Env.set, h8]
  · simp [e6, e5, e4, e3, e2, e1, Env.set, bi]
  · simp [e6, e5, e4, e3, e2, e1, Env.set]
  · simp [e6, e5, Env.set]

/-- `if d&1 == 0 && oldCarry { d += 1 }` -/
theorem adj_step {env : Env} {d0 : Nat} {oc : Bool} (h15 : env 15 = .int (d0 : Int)) (h10 : env 10 = boolV oc)
    (hd : d0 < 65536) :
    ∃ env', EvIn P G X 2 env (.ite (.op2 .land (.op2 .eq (.op2 (.and .i64) (.var 15) (.lit 1)) (.lit 0)) (.var 10))
        (.assign 15 [] (.op2 (.add .i64) (.var 15) (.lit 1))) .skip) env' .norm ∧
      env' 15 = .int (dAdj d0 oc) ∧ ∀ y, y ≠ 15 → env' y = env y := by
  have t1 : evalV G env (.op2 (.and .i64) (.var 15) (.lit 1)) = some (.int ((d0 % 2 : Nat) : Int)) := by
    have h1 : evalOp2 (.and .i64) (d0 : Int) 1 = some ((d0 &&& 1 : Nat) : Int) :=
      and_i64_nat (b := 1) (by omega) (by omega)
    rw [evalV_op2, evalV_var, h15, evalV_lit]
    simp only [h1, Option.map_some, Nat.and_one_is_mod]
  have t2 : evalV G env (.op2 .eq (.op2 (.and .i64) (.var 15) (.lit 1)) (.lit 0))
      = some (.int (if d0 % 2 = 0 then 1 else 0)) := by
    rw [evalV_op2, t1, evalV_lit]
    simp only [evalOp2, Option.map_some, ofBool]
    by_cases hz : d0 % 2 = 0
    · simp [hz]
    · have : ¬ ((d0 : Int) % 2 = 0) := by omega
      simp [hz, this]
  have hc : evalV G env (.op2 .land (.op2 .eq (.op2 (.and .i64) (.var 15) (.lit 1)) (.lit 0)) (.var 10))
      = some (.int (if d0 % 2 = 0 ∧ oc = true then 1 else 0)) := by
    rw [evalV_op2, t2, evalV_var, h10]
    simp only [evalOp2, Option.map_some, ofBool, boolV]
    by_cases hz : d0 % 2 = 0 <;> cases oc <;> simp [hz]
  by_cases hcond : d0 % 2 = 0 ∧ oc = true
  · rw [if_pos hcond] at hc
    have sa : evalV G env (.op2 (.add .i64) (.var 15) (.lit 1)) = some (.int ((d0 : Int) + 1)) := by
      rw [evalV_op2, evalV_var, h15, evalV_lit]
      simp only [evalOp2, Option.map_some]
      rw [norm_i64_small (by omega) (by omega)]
    refine ⟨env.set 15 (.int ((d0 : Int) + 1)), EvIn.ite (d := true) hc rfl (EvIn.assign sa), ?_, ?_⟩
    · simp [dAdj, hcond]
    · intro y hy; simp [Env.set, hy]
  · rw [if_neg hcond] at hc
    refine ⟨env, EvIn.ite (d := false) hc rfl (EvIn.skip _), ?_, fun _ _ => rfl⟩
    rw [h15, dAdj, if_neg hcond]

/-- `if d >= halfWindow { d -= windowSize; carry = true }` -/
theorem fin_step {env : Env} {d1 : Int} {w : Nat} {c : Bool} (h15 : env 15 = .int d1)
    (h5 : env 5 = .int ((2 ^ (w + 1) : Nat) : Int)) (h6 : env 6 = .int ((2 ^ w : Nat) : Int)) (h7 : env 7 = boolV c)
    (hd0 : 0 ≤ d1) (hd1 : d1 ≤ 65536) (hw : w ≤ 7) :
    ∃ env', EvIn P G X 4 env (.ite (.op2 .ge (.var 15) (.var 6)) (seqs [.assign 15 [] (.op2 (.sub .i64) (.var 15) (.var 5)),
        .assign 7 [] (.lit 1)]) .skip) env' .norm ∧
      env' 15 = .int (dFin w d1 c).1 ∧ env' 7 = boolV (dFin w d1 c).2 ∧ ∀ y, y ≠ 15 → y ≠ 7 → env' y = env y := by
  have hp5 : 2 ^ (w + 1) ≤ 2 ^ 8 := Nat.pow_le_pow_right (by omega) (by omega)
  have hc : evalV G env (.op2 .ge (.var 15) (.var 6)) = some (.int (if d1 ≥ ((2 ^ w : Nat) : Int) then 1 else 0)) := by
    rw [evalV_op2, evalV_var, evalV_var, h15, h6]
    simp only [evalOp2, Option.map_some, ofBool]
    by_cases hge : d1 ≥ ((2 ^ w : Nat) : Int) <;> simp
  by_cases hge : d1 ≥ ((2 ^ w : Nat) : Int)
  · rw [if_pos hge] at hc
    have sa : evalV G env (.op2 (.sub .i64) (.var 15) (.var 5)) = some (.int (d1 - ((2 ^ (w + 1) : Nat) : Int))) := by
      rw [evalV_op2, evalV_var, evalV_var, h15, h5]
      simp only [evalOp2, Option.map_some]
      generalize 2 ^ (w + 1) = p5 at *
      rw [norm_i64_small (by omega) (by omega)]
    refine ⟨(env.set 15 (.int (d1 - ((2 ^ (w + 1) : Nat) : Int)))).set 7 (.int 1),
      EvIn.ite (d := true) hc rfl ((EvIn.seq (EvIn.assign sa) (EvIn.assign rfl)).mono (by decide)), ?_, ?_, ?_⟩
    · rw [dFin, if_pos hge]; simp [Env.set]
    · rw [dFin, if_pos hge]; simp [Env.set, boolV]
    · intro y hy hy7; simp [Env.set, hy, hy7]
  · rw [if_neg hge] at hc
    refine ⟨env, (EvIn.ite (d := false) hc rfl (EvIn.skip _)).mono (by decide), ?_, ?_, fun _ _ _ => rfl⟩
    · rw [h15, dFin, if_neg hge]
    · rw [h7, dFin, if_neg hge]


/-- the `bit == 1` branch up to the two adjustments of `d` -/
theorem hit_pre (hP2 : P[2]? = some fn_2) {e6 : Env} {out : List Int} {s : Bytes} {n w outIdx : Nat} {c' carry : Bool}
    (hI : Inv e6 out s n w c' outIdx) (h9 : e6 9 = .int ((n - outIdx - 1 : Nat) : Int)) (h10 : e6 10 = boolV carry)
    (hlt : outIdx + 1 < n) (hn : n < 9223372036854775808) (hw : w ≤ 7)
    {d0 : Nat} (hgb : Model.Utils.getBits s (n - outIdx - 1 - 1) w = .ok d0) :
    ∃ f4, (∀ {F rest env' c}, EvIn P G X F f4 rest env' c →
        EvIn P G X (F + 32) e6 (seqs [.call [14] 2 [(.var 1), (.op2 (.sub .i64) (.var 9) (.lit 1)), (.var 3)],
          .assign 15 [] (.var 14),
          .ite (.op2 .land (.op2 .eq (.op2 (.and .i64) (.var 15) (.lit 1)) (.lit 0)) (.var 10)) (.assign 15 [] (.op2 (.add .i64) (.var 15) (.lit 1))) .skip,
          .ite (.op2 .ge (.var 15) (.var 6)) (seqs [.assign 15 [] (.op2 (.sub .i64) (.var 15) (.var 5)), .assign 7 [] (.lit 1)]) .skip,
          rest]) env' c) ∧
      (∀ {rest}, Stuck P G X f4 rest →
        Stuck P G X e6 (seqs [.call [14] 2 [(.var 1), (.op2 (.sub .i64) (.var 9) (.lit 1)), (.var 3)],
          .assign 15 [] (.var 14),
          .ite (.op2 .land (.op2 .eq (.op2 (.and .i64) (.var 15) (.lit 1)) (.lit 0)) (.var 10)) (.assign 15 [] (.op2 (.add .i64) (.var 15) (.lit 1))) .skip,
          .ite (.op2 .ge (.var 15) (.var 6)) (seqs [.assign 15 [] (.op2 (.sub .i64) (.var 15) (.var 5)), .assign 7 [] (.lit 1)]) .skip,
          rest])) ∧
      f4 15 = .int (dFin w (dAdj d0 carry) c').1 ∧
      Inv f4 out s n w (dFin w (dAdj d0 carry) c').2 outIdx := by
  obtain ⟨h0, h1, h2, h3, h5, h6, h7, h8⟩ := hI
  have hd0 := getBits_lt s _ w d0 hgb
  have sub1 : evalV G e6 (.op2 (.sub .i64) (.var 9) (.lit 1)) = some (.int ((n - outIdx - 1 - 1 : Nat) : Int)) := by
    have h1' : evalOp2 (.sub .i64) ((n - outIdx - 1 : Nat) : Int) 1 = some ((n - outIdx - 1 - 1 : Nat) : Int) :=
      sub_i64_nat (b := 1) (by omega) (by omega)
    rw [evalV_op2, evalV_var, h9, evalV_lit]
    simp only [h1', Option.map_some]
  have args : evalVs G e6 [(.var 1), (.op2 (.sub .i64) (.var 9) (.lit 1)), (.var 3)]
      = some [bytesV s, .int ((n - outIdx - 1 - 1 : Nat) : Int), .int (w : Int)] := by
    simp only [evalVs_cons, evalVs_nil, evalV_var, sub1, h1, h3]
  obtain ⟨envc, hcall⟩ := getBits_body_ok (P := P) (G := G) (X := X) s (n - outIdx - 1 - 1) w (by omega) (by omega) d0 hgb
  let f1 := e6.set 14 (.int (d0 : Int))
  let f2 := f1.set 15 (.int (d0 : Int))
  have call : EvIn P G X (fuelBit + 1) e6 (.call [14] 2 [(.var 1), (.op2 (.sub .i64) (.var 9) (.lit 1)), (.var 3)])
      f1 .norm := EvIn.call args hP2 rfl rfl hcall rfl
  have s15 : evalV G f1 (.var 14) = some (.int (d0 : Int)) := by simp [f1]
  have k15 : f2 15 = .int (d0 : Int) := by simp [f2]
  have k10 : f2 10 = boolV carry := by simp [f2, f1, Env.set, h10]
  obtain ⟨f3, hadj, a15, afr⟩ := adj_step (P := P) (G := G) (X := X) k15 k10 hd0
  have hadj0 : 0 ≤ dAdj d0 carry := by unfold dAdj; split <;> omega
  have hadj1 : dAdj d0 carry ≤ 65536 := by unfold dAdj; split <;> omega
  have b5 : f3 5 = .int ((2 ^ (w + 1) : Nat) : Int) := by rw [afr 5 (by decide)]; simp [f2, f1, Env.set, h5]
  have b6 : f3 6 = .int ((2 ^ w : Nat) : Int) := by rw [afr 6 (by decide)]; simp [f2, f1, Env.set, h6]
  have b7 : f3 7 = boolV c' := by rw [afr 7 (by decide)]; simp [f2, f1, Env.set, h7]
  obtain ⟨f4, hfin, c15, c7, cfr⟩ := fin_step (P := P) (G := G) (X := X) a15 b5 b6 b7 hadj0 hadj1 hw
  have fr : ∀ y, y ≠ 15 → y ≠ 7 → y ≠ 14 → f4 y = e6 y := by
    intro y h15 h7 h14
    rw [cfr y h15 h7, afr y h15]
    simp [f2, f1, Env.set, h15, h14]
  refine ⟨f4, ?_, ?_, c15, ⟨?_, ?_, ?_, ?_, ?_, ?_, c7, ?_⟩⟩
  · intro F rest env' c hr
    exact (EvIn.seq call (EvIn.seq (EvIn.assign s15) (EvIn.seq hadj (EvIn.seq hfin hr)))).mono
      (by simp only [fuelBit]; omega)
  · intro rest hr
    exact Stuck.seq_right call (Stuck.seq_right (EvIn.assign s15) (Stuck.seq_right hadj (Stuck.seq_right hfin hr)))
  · rw [fr 0 (by decide) (by decide) (by decide), h0]
  · rw [fr 1 (by decide) (by decide) (by decide), h1]
  · rw [fr 2 (by decide) (by decide) (by decide), h2]
  · rw [fr 3 (by decide) (by decide) (by decide), h3]
  · rw [fr 5 (by decide) (by decide) (by decide), h5]
  · rw [fr 6 (by decide) (by decide) (by decide), h6]
  · rw [fr 8 (by decide) (by decide) (by decide), h8]

/-- `out[outIdx] = d; outIdx += w` -/
theorem hit_post {f4 : Env} {out : List Int} {s : Bytes} {n w outIdx : Nat} {c2 : Bool} {d2 : Int}
    (hI : Inv f4 out s n w c2 outIdx) (h15 : f4 15 = .int d2) (hin : outIdx < out.length)
    (hov : outIdx + w < 9223372036854775808) :
    ∃ f6, EvIn P G X 3 f4 (seqs [.assign 0 [.e (.var 8)] (.var 15), .assign 8 [] (.op2 (.add .i64) (.var 8) (.var 3))]) f6 .norm ∧
      Inv f6 (out.set outIdx d2) s n w c2 (outIdx + w) := by
  obtain ⟨h0, h1, h2, h3, h5, h6, h7, h8⟩ := hI
  have he : evalV G f4 (.var 15) = some (.int d2) := by rw [evalV_var, h15]
  have hp : pathV G f4 [.e (.var 8)] = some [outIdx] := by
    have : ¬ ((outIdx : Int) < 0) := by omega
    simp only [pathV_e, evalV_var, h8, pathV_nil, this, if_false, Int.toNat_natCast]
  have hu : updPath (f4 0) [outIdx] (.int d2) = some (intsV (out.set outIdx d2)) := by
    rw [h0]; exact updPath_ints out outIdx d2 hin
  let f5 := f4.set 0 (intsV (out.set outIdx d2))
  have s8 : evalV G f5 (.op2 (.add .i64) (.var 8) (.var 3)) = some (.int ((outIdx + w : Nat) : Int)) := by
    have g8 : f5 8 = .int (outIdx : Int) := by simp [f5, Env.set, h8]
    have g3 : f5 3 = .int (w : Int) := by simp [f5, Env.set, h3]
    rw [evalV_op2, evalV_var, evalV_var, g8, g3]
    simp only [add_i64_nat hov, Option.map_some]
  refine ⟨f5.set 8 (.int ((outIdx + w : Nat) : Int)), EvIn.seq (EvIn.assignPath he hp hu) (EvIn.assign s8),
    ⟨?_, ?_, ?_, ?_, ?_, ?_, ?_, ?_⟩⟩
  · simp [f5, Env.set]
  · simp [f5, Env.set, h1]
  · simp [f5, Env.set, h2]
  · simp [f5, Env.set, h3]
  · simp [f5, Env.set, h5]
  · simp [f5, Env.set, h6]
  · simp [f5, Env.set, h7]
  · simp [f5, Env.set]

/-- `out[outIdx] = d` with the index out of range -/
theorem hit_post_stuck {f4 : Env} {out : List Int} {s : Bytes} {n w outIdx : Nat} {c2 : Bool} {d2 : Int}
    (hI : Inv f4 out s n w c2 outIdx) (h15 : f4 15 = .int d2) (hout : out.length ≤ outIdx) :
    Stuck P G X f4 (seqs [.assign 0 [.e (.var 8)] (.var 15), .assign 8 [] (.op2 (.add .i64) (.var 8) (.var 3))]) := by
  have he : evalV G f4 (.var 15) = some (.int d2) := by rw [evalV_var, h15]
  have hp : pathV G f4 [.e (.var 8)] = some [outIdx] := by
    have : ¬ ((outIdx : Int) < 0) := by omega
    simp only [pathV_e, evalV_var, hI.h8, pathV_nil, this, if_false, Int.toNat_natCast]
  have hu : updPath (f4 0) [outIdx] (.int d2) = none := by
    rw [hI.h0]; exact updPath_ints_none out outIdx _ hout
  exact Stuck.seq_left (Stuck.assign_upd he hp hu)

/-- `outIdx++` -/
theorem post_step {env : Env} {out : List Int} {s : Bytes} {n w k : Nat} {c : Bool}
    (hI : Inv env out s n w c k) (hov : k + 1 < 9223372036854775808) :
    ∃ env2, EvIn P G X 1 env postS env2 .norm ∧ Inv env2 out s n w c (k + 1) := by
  obtain ⟨h0, h1, h2, h3, h5, h6, h7, h8⟩ := hI
  have s8 : evalV G env (.op2 (.add .i64) (.var 8) (.lit 1)) = some (.int ((k + 1 : Nat) : Int)) := by
    have h1' : evalOp2 (.add .i64) (k : Int) 1 = some ((k + 1 : Nat) : Int) := add_i64_nat (b := 1) hov
    rw [evalV_op2, evalV_var, h8, evalV_lit]
    simp only [h1', Option.map_some]
  refine ⟨env.set 8 (.int ((k + 1 : Nat) : Int)), EvIn.assign s8, ⟨?_, ?_, ?_, ?_, ?_, ?_, ?_, ?_⟩⟩ <;>
    simp [Env.set, *]


theorem ite_cond {env : Env} {bit : Nat} (h11 : env 11 = .int (bit : Int)) :
    evalV G env (.op2 .eq (.var 11) (.lit 1)) = some (.int (if bit = 1 then 1 else 0)) := by
  rw [evalV_op2, evalV_var, h11, evalV_lit]
  simp only [evalOp2, Option.map_some, ofBool]
  by_cases hb : bit = 1
  · simp [hb]
  · have : ¬ ((bit : Int) = 1) := by omega
    simp [hb, this]

/-- one round with `bit ≠ 1` -/
theorem round_miss (hP1 : P[1]? = some fn_1) {env : Env} {out : List Int} {s : Bytes} {n w outIdx : Nat} {carry : Bool}
    (h : Inv env out s n w carry outIdx) (hlt : outIdx + 1 < n) (hn : n < 9223372036854775808)
    {bit : Nat} {c' : Bool} (hg : Model.Utils.getBit s (n - outIdx - 1 - 1) carry = .ok (bit, c')) (hb : bit ≠ 1) :
    ∃ env1, EvIn P G X 68 env bodyS env1 .norm ∧ Inv env1 out s n w c' outIdx := by
  obtain ⟨e6, hpre, _, hI, _, _, h11⟩ := round_pre (G := G) (X := X) hP1 h hlt hn hg
  have hc := ite_cond (G := G) h11
  rw [if_neg hb] at hc
  exact ⟨e6, (hpre (rest := iteS) (EvIn.ite (d := false) hc rfl (EvIn.skip _))).mono (by decide), hI⟩

/-- one round with `bit = 1` and the store in range -/
theorem round_hit (hP1 : P[1]? = some fn_1) (hP2 : P[2]? = some fn_2) {env : Env} {out : List Int} {s : Bytes}
    {n w outIdx : Nat} {carry : Bool}
    (h : Inv env out s n w carry outIdx) (hlt : outIdx + 1 < n) (hn : n + 6 < 9223372036854775808) (hw : w ≤ 7)
    {c' : Bool} (hg : Model.Utils.getBit s (n - outIdx - 1 - 1) carry = .ok (1, c'))
    {d0 : Nat} (hgb : Model.Utils.getBits s (n - outIdx - 1 - 1) w = .ok d0) (hin : outIdx < out.length) :
    ∃ env1, EvIn P G X 68 env bodyS env1 .norm ∧
      Inv env1 (out.set outIdx (dFin w (dAdj d0 carry) c').1) s n w (dFin w (dAdj d0 carry) c').2 (outIdx + w) := by
  obtain ⟨e6, hpre, _, hI, h9, h10, h11⟩ := round_pre (G := G) (X := X) hP1 h hlt (by omega) hg
  have hc := ite_cond (G := G) h11
  rw [if_pos rfl] at hc
  obtain ⟨f4, hhit, _, h15, hI4⟩ := hit_pre (G := G) (X := X) hP2 hI h9 h10 hlt (by omega) hw hgb
  obtain ⟨f6, hpost, hI6⟩ := hit_post (P := P) (G := G) (X := X) hI4 h15 hin (by omega)
  exact ⟨f6, (hpre (rest := iteS) (EvIn.ite (d := true) hc rfl (hhit hpost))).mono (by decide), hI6⟩

/-- the loop computes `nafLoop` -/
theorem loop_ok (hP1 : P[1]? = some fn_1) (hP2 : P[2]? = some fn_2) (s : Bytes) (n w : Nat)
    (hn : n + 6 < 9223372036854775808) (hw : w ≤ 7) :
    ∀ (fuel : Nat) (env : Env) (out : List Int) (carry : Bool) (outIdx : Nat) (out' : List Int) (carry' : Bool),
    Inv env out s n w carry outIdx → n ≤ outIdx + fuel →
    Model.Utils.nafLoop s n w fuel outIdx carry out = .ok (out', carry') →
    ∃ env' k, EvIn P G X (70 * fuel + 1) env loopS env' .norm ∧ Inv env' out' s n w carry' k := by
  intro fuel
  induction fuel with
  | zero =>
    intro env out carry outIdx out' carry' hI hfuel hm
    rw [nafLoop_zero] at hm
    simp only [Outcome.ok.injEq, Prod.mk.injEq] at hm
    obtain ⟨rfl, rfl⟩ := hm
    have hc := cond_val (G := G) hI.h2 hI.h8 (by omega)
    rw [if_neg (by omega)] at hc
    exact ⟨env, outIdx, EvIn.loop_exit hc rfl, hI⟩
  | succ fuel ih =>
    intro env out carry outIdx out' carry' hI hfuel hm
    rw [nafLoop_succ] at hm
    have hc := cond_val (G := G) hI.h2 hI.h8 (by omega)
    by_cases hlt : outIdx + 1 < n
    · rw [if_pos hlt] at hm hc
      cases hg : Model.Utils.getBit s (n - outIdx - 1 - 1) carry with
      | err => rw [hg] at hm; cases hm
      | panic => rw [hg] at hm; cases hm
      | ok p =>
        obtain ⟨bit, c'⟩ := p
        rw [hg, Outcome.bind_ok] at hm
        dsimp only at hm
        by_cases hb : bit = 1
        · subst hb
          rw [if_pos rfl] at hm
          cases hgb : Model.Utils.getBits s (n - outIdx - 1 - 1) w with
          | err => rw [hgb] at hm; cases hm
          | panic => rw [hgb] at hm; cases hm
          | ok d0 =>
            rw [hgb, Outcome.bind_ok] at hm
            by_cases hin : outIdx < out.length
            · rw [Model.Utils.setIdx, if_pos hin, Outcome.bind_ok] at hm
              obtain ⟨env1, hbody, hI1⟩ := round_hit (G := G) (X := X) hP1 hP2 hI hlt hn hw hg hgb hin
              obtain ⟨env2, hpost, hI2⟩ := post_step (P := P) (G := G) (X := X) hI1 (by omega)
              obtain ⟨env', k, hl, hI'⟩ := ih env2 _ _ (outIdx + w + 1) out' carry' hI2 (by omega) hm
              exact ⟨env', k, (EvIn.loop_round hc rfl hbody (Or.inl rfl) hpost hl).mono (by omega), hI'⟩
            · rw [Model.Utils.setIdx, if_neg hin] at hm; cases hm
        · rw [if_neg hb] at hm
          obtain ⟨env1, hbody, hI1⟩ := round_miss (G := G) (X := X) hP1 hI hlt (by omega) hg hb
          obtain ⟨env2, hpost, hI2⟩ := post_step (P := P) (G := G) (X := X) hI1 (by omega)
          obtain ⟨env', k, hl, hI'⟩ := ih env2 _ _ (outIdx + 1) out' carry' hI2 (by omega) hm
          exact ⟨env', k, (EvIn.loop_round hc rfl hbody (Or.inl rfl) hpost hl).mono (by omega), hI'⟩
    · rw [if_neg hlt] at hm hc
      simp only [Outcome.ok.injEq, Prod.mk.injEq] at hm
      obtain ⟨rfl, rfl⟩ := hm
      exact ⟨env, outIdx, (EvIn.loop_exit hc rfl).mono (by omega), hI⟩


/-- getBit panics ⇒ the body is stuck -/
theorem round_pre_stuck (hP1 : P[1]? = some fn_1) {env : Env} {out : List Int} {s : Bytes} {n w outIdx : Nat} {carry : Bool}
    (h : Inv env out s n w carry outIdx) (hlt : outIdx + 1 < n) (hn : n < 9223372036854775808)
    (hg : Model.Utils.getBit s (n - outIdx - 1 - 1) carry = .panic) : Stuck P G X env bodyS := by
  obtain ⟨h0, h1, h2, h3, h5, h6, h7, h8⟩ := h
  let bi : Nat := n - outIdx - 1
  let e1 := env.set 9 (.int (bi : Int))
  let e2 := e1.set 10 (boolV carry)
  let e3 := e2.set 11 (.int 0)
  have s9 : evalV G env (.op2 (.sub .i64) (.op2 (.sub .i64) (.var 2) (.var 8)) (.lit 1)) = some (.int (bi : Int)) := by
    have t1 : evalV G env (.op2 (.sub .i64) (.var 2) (.var 8)) = some (.int ((n - outIdx : Nat) : Int)) := by
      rw [evalV_op2, evalV_var, evalV_var, h2, h8]
      simp only [sub_i64_nat (show outIdx ≤ n by omega) hn, Option.map_some]
    have h1' : evalOp2 (.sub .i64) ((n - outIdx : Nat) : Int) 1 = some ((n - outIdx - 1 : Nat) : Int) :=
      sub_i64_nat (b := 1) (by omega) (by omega)
    rw [evalV_op2, t1, evalV_lit]
    simp only [h1', Option.map_some, bi]
  have s10 : evalV G e1 (.var 7) = some (boolV carry) := by simp [e1, Env.set, h7]
  have g1 : e3 1 = bytesV s := by simp [e3, e2, e1, Env.set, h1]
  have g7 : e3 7 = boolV carry := by simp [e3, e2, e1, Env.set, h7]
  have g9 : e3 9 = .int (bi : Int) := by simp [e3, e2, e1, Env.set]
  have sub1 : evalV G e3 (.op2 (.sub .i64) (.var 9) (.lit 1)) = some (.int ((n - outIdx - 1 - 1 : Nat) : Int)) := by
    have h1' : evalOp2 (.sub .i64) (bi : Int) 1 = some ((bi - 1 : Nat) : Int) :=
      sub_i64_nat (b := 1) (by omega) (by omega)
    rw [evalV_op2, evalV_var, g9, evalV_lit]
    simp only [h1', Option.map_some, bi]
  have args : evalVs G e3 [(.var 1), (.op2 (.sub .i64) (.var 9) (.lit 1)), (.var 7)]
      = some [bytesV s, .int ((n - outIdx - 1 - 1 : Nat) : Int), boolV carry] := by
    simp only [evalVs_cons, evalVs_nil, evalV_var, sub1, g1, g7]
  have hcall := getBit_body_stuck (P := P) (G := G) (X := X) s (n - outIdx - 1 - 1) carry (by omega) hg
  exact Stuck.seq_right (EvIn.assign s9) (Stuck.seq_right (EvIn.assign s10) (Stuck.seq_right (EvIn.assign (v := .int 0) rfl)
    (Stuck.seq_left (Stuck.call args hP1 hcall))))

/-- getBits panics ⇒ the `bit == 1` branch is stuck -/
theorem hit_stuck_bits (hP2 : P[2]? = some fn_2) {e6 : Env} {out : List Int} {s : Bytes} {n w outIdx : Nat} {c' : Bool}
    (hI : Inv e6 out s n w c' outIdx) (h9 : e6 9 = .int ((n - outIdx - 1 : Nat) : Int))
    (hlt : outIdx + 1 < n) (hn : n < 9223372036854775808) (hw : w ≤ 7)
    (hgb : Model.Utils.getBits s (n - outIdx - 1 - 1) w = .panic) : Stuck P G X e6 hitS := by
  have sub1 : evalV G e6 (.op2 (.sub .i64) (.var 9) (.lit 1)) = some (.int ((n - outIdx - 1 - 1 : Nat) : Int)) := by
    have h1' : evalOp2 (.sub .i64) ((n - outIdx - 1 : Nat) : Int) 1 = some ((n - outIdx - 1 - 1 : Nat) : Int) :=
      sub_i64_nat (b := 1) (by omega) (by omega)
    rw [evalV_op2, evalV_var, h9, evalV_lit]
    simp only [h1', Option.map_some]
  have args : evalVs G e6 [(.var 1), (.op2 (.sub .i64) (.var 9) (.lit 1)), (.var 3)]
      = some [bytesV s, .int ((n - outIdx - 1 - 1 : Nat) : Int), .int (w : Int)] := by
    simp only [evalVs_cons, evalVs_nil, evalV_var, sub1, hI.h1, hI.h3]
  have hcall := getBits_body_stuck (P := P) (G := G) (X := X) s (n - outIdx - 1 - 1) w (by omega) (by omega) hgb
  exact Stuck.seq_left (Stuck.call args hP2 hcall)

/-- a run-time panic of the model's loop is a stuck run of the IR loop -/
theorem loop_stuck (hP1 : P[1]? = some fn_1) (hP2 : P[2]? = some fn_2) (s : Bytes) (n w : Nat)
    (hn : n + 6 < 9223372036854775808) (hw : w ≤ 7) :
    ∀ (fuel : Nat) (env : Env) (out : List Int) (carry : Bool) (outIdx : Nat),
    Inv env out s n w carry outIdx →
    Model.Utils.nafLoop s n w fuel outIdx carry out = .panic → Stuck P G X env loopS := by
  intro fuel
  induction fuel with
  | zero =>
    intro env out carry outIdx hI hm
    rw [nafLoop_zero] at hm; cases hm
  | succ fuel ih =>
    intro env out carry outIdx hI hm
    rw [nafLoop_succ] at hm
    have hc := cond_val (G := G) hI.h2 hI.h8 (by omega)
    by_cases hlt : outIdx + 1 < n
    · rw [if_pos hlt] at hm hc
      cases hg : Model.Utils.getBit s (n - outIdx - 1 - 1) carry with
      | err => rw [hg] at hm; cases hm
      | panic => exact Stuck.loop_body hc rfl (round_pre_stuck (G := G) (X := X) hP1 hI hlt (by omega) hg)
      | ok p =>
        obtain ⟨bit, c'⟩ := p
        rw [hg, Outcome.bind_ok] at hm
        dsimp only at hm
        by_cases hb : bit = 1
        · subst hb
          rw [if_pos rfl] at hm
          obtain ⟨e6, _, hpres, hI6, h9, h10, h11⟩ := round_pre (G := G) (X := X) hP1 hI hlt (by omega) hg
          have hci := ite_cond (G := G) h11
          rw [if_pos rfl] at hci
          cases hgb : Model.Utils.getBits s (n - outIdx - 1 - 1) w with
          | err => rw [hgb] at hm; cases hm
          | panic =>
            exact Stuck.loop_body hc rfl (hpres (rest := iteS) (Stuck.ite (d := true) hci rfl
              (hit_stuck_bits (G := G) (X := X) hP2 hI6 h9 hlt (by omega) hw hgb)))
          | ok d0 =>
            rw [hgb, Outcome.bind_ok] at hm
            by_cases hin : outIdx < out.length
            · rw [Model.Utils.setIdx, if_pos hin, Outcome.bind_ok] at hm
              obtain ⟨env1, hbody, hI1⟩ := round_hit (G := G) (X := X) hP1 hP2 hI hlt hn hw hg hgb hin
              obtain ⟨env2, hpost, hI2⟩ := post_step (P := P) (G := G) (X := X) hI1 (by omega)
              exact Stuck.loop_round hc rfl hbody (Or.inl rfl) hpost (ih env2 _ _ (outIdx + w + 1) hI2 hm)
            · obtain ⟨f4, _, hhits, h15, hI4⟩ := hit_pre (G := G) (X := X) hP2 hI6 h9 h10 hlt (by omega) hw hgb
              exact Stuck.loop_body hc rfl (hpres (rest := iteS) (Stuck.ite (d := true) hci rfl
                (hhits (hit_post_stuck (P := P) (G := G) (X := X) hI4 h15 (by omega)))))
        · rw [if_neg hb] at hm
          obtain ⟨env1, hbody, hI1⟩ := round_miss (G := G) (X := X) hP1 hI hlt (by omega) hg hb
          obtain ⟨env2, hpost, hI2⟩ := post_step (P := P) (G := G) (X := X) hI1 (by omega)
          exact Stuck.loop_round hc rfl hbody (Or.inl rfl) hpost (ih env2 _ _ (outIdx + 1) hI2 hm)
    · rw [if_neg hlt] at hm; cases hm


/-! ### The whole function -/

theorem naf_unfold (out : List Int) (s : Bytes) (n w : Int) :
    Model.Utils.decomposeNAF (some out) (some s) n w =
      if w ≤ 0 ∨ w > 7 then .panic else
        Model.Utils.nafLoop s n.toNat w.toNat n.toNat 0 false out >>= fun p =>
          if p.2 = true then (if n - 1 < 0 then .panic else Model.Utils.setIdx p.1 (n - 1).toNat 1)
          else .ok p.1 := rfl

/-- the parameter check `w <= 0 || w > 7` (nil-ness is not represented: the two nil tests are `0`) -/
theorem check_val {env : Env} {w : Int} (h3 : env 3 = .int w) :
    evalV G env (.op2 .lor (.op2 .lor (.op2 .lor (.lit 0) (.lit 0)) (.op2 .le (.var 3) (.lit 0))) (.op2 .gt (.var 3) (.lit 7)))
      = some (.int (if w ≤ 0 ∨ w > 7 then 1 else 0)) := by
  have t0 : evalV G env (.op2 .lor (.lit 0) (.lit 0)) = some (.int 0) := by
    simp [evalV_op2, evalOp2, ofBool]
  have t1 : evalV G env (.op2 .le (.var 3) (.lit 0)) = some (.int (if w ≤ 0 then 1 else 0)) := by
    rw [evalV_op2, evalV_var, h3, evalV_lit]
    simp only [evalOp2, Option.map_some, ofBool]
    by_cases h : w ≤ 0 <;> simp [h]
  have t2 : evalV G env (.op2 .lor (.op2 .lor (.lit 0) (.lit 0)) (.op2 .le (.var 3) (.lit 0)))
      = some (.int (if w ≤ 0 then 1 else 0)) := by
    rw [evalV_op2, t0, t1]
    simp only [evalOp2, Option.map_some, ofBool]
    by_cases h : w ≤ 0 <;> simp [h]
  have t3 : evalV G env (.op2 .gt (.var 3) (.lit 7)) = some (.int (if w > 7 then 1 else 0)) := by
    rw [evalV_op2, evalV_var, h3, evalV_lit]
    simp only [evalOp2, Option.map_some, ofBool]
    by_cases h : w > 7 <;> simp [h]
  rw [evalV_op2, t2, t3]
  simp only [evalOp2, Option.map_some, ofBool]
  by_cases h : w ≤ 0 <;> by_cases h' : w > 7 <;> simp [h, h']

/-- the state before the loop -/
def envPre (out : List Int) (s : Bytes) (n : Int) (w : Nat) : Env :=
  ((((Env.ofList [intsV out, bytesV s, .int n, .int (w : Int)]).set 5 (.int ((2 ^ (w + 1) : Nat) : Int))).set 6
    (.int ((2 ^ w : Nat) : Int))).set 7 (.int 0)).set 8 (.int 0)

theorem prologue (out : List Int) (s : Bytes) (n : Int) (w : Nat) (hw1 : 1 ≤ w) (hw7 : w ≤ 7) (rest : Stmt) :
    (∀ {F env' c}, EvIn P G X F (envPre out s n w) rest env' c →
      EvIn P G X (F + 12) (Env.ofList [intsV out, bytesV s, .int n, .int (w : Int)])
        (seqs [.ite (.op2 .lor (.op2 .lor (.op2 .lor (.lit 0) (.lit 0)) (.op2 .le (.var 3) (.lit 0))) (.op2 .gt (.var 3) (.lit 7))) (.panic) .skip,
          .assign 5 [] (.op2 (.shl .i64) (.lit 1) (.op2 (.add .i64) (.var 3) (.lit 1))),
          .assign 6 [] (.op2 (.shl .i64) (.lit 1) (.var 3)),
          .assign 7 [] (.lit 0), .assign 8 [] (.lit 0), rest]) env' c) ∧
    (Stuck P G X (envPre out s n w) rest →
      Stuck P G X (Env.ofList [intsV out, bytesV s, .int n, .int (w : Int)])
        (seqs [.ite (.op2 .lor (.op2 .lor (.op2 .lor (.lit 0) (.lit 0)) (.op2 .le (.var 3) (.lit 0))) (.op2 .gt (.var 3) (.lit 7))) (.panic) .skip,
          .assign 5 [] (.op2 (.shl .i64) (.lit 1) (.op2 (.add .i64) (.var 3) (.lit 1))),
          .assign 6 [] (.op2 (.shl .i64) (.lit 1) (.var 3)),
          .assign 7 [] (.lit 0), .assign 8 [] (.lit 0), rest])) := by
  let e0 : Env := Env.ofList [intsV out, bytesV s, .int n, .int (w : Int)]
  let e1 := e0.set 5 (.int ((2 ^ (w + 1) : Nat) : Int))
  let e2 := e1.set 6 (.int ((2 ^ w : Nat) : Int))
  have g3 : e0 3 = .int (w : Int) := by simp [e0, Env.ofList]
  have hc := check_val (G := G) g3
  rw [if_neg (by omega)] at hc
  have s5 : evalV G e0 (.op2 (.shl .i64) (.lit 1) (.op2 (.add .i64) (.var 3) (.lit 1)))
      = some (.int ((2 ^ (w + 1) : Nat) : Int)) := by
    have ha : evalOp2 (.add .i64) (w : Int) 1 = some ((w + 1 : Nat) : Int) := add_i64_nat (b := 1) (by omega)
    have t1 : evalV G e0 (.op2 (.add .i64) (.var 3) (.lit 1)) = some (.int ((w + 1 : Nat) : Int)) := by
      rw [evalV_op2, evalV_var, g3, evalV_lit]
      simp only [ha, Option.map_some]
    rw [evalV_op2, t1, evalV_lit]
    simp only [shl_i64_one (show w + 1 ≤ 62 by omega), Option.map_some]
  have s6 : evalV G e1 (.op2 (.shl .i64) (.lit 1) (.var 3)) = some (.int ((2 ^ w : Nat) : Int)) := by
    have k3 : e1 3 = .int (w : Int) := by simp [e1, Env.set, g3]
    rw [evalV_op2, evalV_lit, evalV_var, k3]
    simp only [shl_i64_one (show w ≤ 62 by omega), Option.map_some]
  constructor
  · intro F env' c hr
    exact (EvIn.seq (EvIn.ite (d := false) hc rfl (EvIn.skip _)) (EvIn.seq (EvIn.assign s5) (EvIn.seq (EvIn.assign s6)
      (EvIn.seq (EvIn.assign (v := .int 0) rfl) (EvIn.seq (EvIn.assign (v := .int 0) rfl) hr))))).mono (by omega)
  · intro hr
    exact Stuck.seq_right (EvIn.ite (d := false) hc rfl (EvIn.skip _)) (Stuck.seq_right (EvIn.assign s5)
      (Stuck.seq_right (EvIn.assign s6) (Stuck.seq_right (EvIn.assign (v := .int 0) rfl)
      (Stuck.seq_right (EvIn.assign (v := .int 0) rfl) hr))))


def tailS : Stmt :=
  seqs [.ite (.var 7) (.assign 0 [.e (.op2 (.sub .i64) (.var 2) (.lit 1))] (.lit 1)) .skip, .ret [(.var 0)]]

theorem asBool_boolV (c : Bool) : asBool (boolV c) = some c := by cases c <;> rfl

theorem nm1_val {env : Env} {n : Int} (h2 : env 2 = .int n) (hn1 : -9223372036854775808 < n) (hn2 : n < 9223372036854775808) :
    evalV G env (.op2 (.sub .i64) (.var 2) (.lit 1)) = some (.int (n - 1)) := by
  rw [evalV_op2, evalV_var, h2, evalV_lit]
  simp only [evalOp2, Option.map_some]
  rw [norm_i64_small (by omega) (by omega)]

/-- `if carry { out[n-1] = 1 }` and the return of the written slice -/
theorem epilogue_ok {env : Env} {out' : List Int} {n : Int} {c : Bool} (h0 : env 0 = intsV out') (h2 : env 2 = .int n)
    (h7 : env 7 = boolV c) (hn1 : -9223372036854775808 < n) (hn2 : n < 9223372036854775808) {r : List Int}
    (hm : (if c = true then (if n - 1 < 0 then Outcome.panic else Model.Utils.setIdx out' (n - 1).toNat 1)
      else Outcome.ok out') = .ok r) :
    ∃ env', EvIn P G X 4 env tailS env' (.ret [intsV r]) := by
  have hc : evalV G env (.var 7) = some (boolV c) := by rw [evalV_var, h7]
  cases c with
  | false =>
    simp only [Bool.false_eq_true, if_false, Outcome.ok.injEq] at hm
    subst hm
    have hr : evalVs G env [(.var 0)] = some [intsV out'] := by
      simp only [evalVs_cons, evalVs_nil, evalV_var, h0]
    exact ⟨env, EvIn.seq (EvIn.ite (d := false) hc (asBool_boolV false) (EvIn.skip _)) (EvIn.ret hr)⟩
  | true =>
    simp only [if_true] at hm
    by_cases hneg : n - 1 < 0
    · rw [if_pos hneg] at hm; cases hm
    · rw [if_neg hneg] at hm
      by_cases hin : (n - 1).toNat < out'.length
      · rw [Model.Utils.setIdx, if_pos hin] at hm
        simp only [Outcome.ok.injEq] at hm
        subst hm
        have he : evalV G env (.lit 1) = some (.int 1) := rfl
        have hp : pathV G env [.e (.op2 (.sub .i64) (.var 2) (.lit 1))] = some [(n - 1).toNat] := by
          simp only [pathV_e, nm1_val h2 hn1 hn2, pathV_nil, hneg, if_false]
        have hu : updPath (env 0) [(n - 1).toNat] (.int 1) = some (intsV (out'.set (n - 1).toNat 1)) := by
          rw [h0]; exact updPath_ints out' _ 1 hin
        have hr : evalVs G (env.set 0 (intsV (out'.set (n - 1).toNat 1))) [(.var 0)]
            = some [intsV (out'.set (n - 1).toNat 1)] := by
          simp only [evalVs_cons, evalVs_nil, evalV_var, Env.set_same]
        exact ⟨_, EvIn.seq (EvIn.ite (d := true) hc (asBool_boolV true) (EvIn.assignPath he hp hu)) (EvIn.ret hr)⟩
      · rw [Model.Utils.setIdx, if_neg hin] at hm; cases hm

theorem epilogue_stuck {env : Env} {out' : List Int} {n : Int} {c : Bool} (h0 : env 0 = intsV out') (h2 : env 2 = .int n)
    (h7 : env 7 = boolV c) (hn1 : -9223372036854775808 < n) (hn2 : n < 9223372036854775808)
    (hm : (if c = true then (if n - 1 < 0 then Outcome.panic else Model.Utils.setIdx out' (n - 1).toNat 1)
      else Outcome.ok out') = .panic) :
    Stuck P G X env tailS := by
  have hc : evalV G env (.var 7) = some (boolV c) := by rw [evalV_var, h7]
  cases c with
  | false => simp at hm
  | true =>
    simp only [if_true] at hm
    by_cases hneg : n - 1 < 0
    · have hp : pathV G env [.e (.op2 (.sub .i64) (.var 2) (.lit 1))] = none := by
        simp only [pathV_e, nm1_val h2 hn1 hn2, pathV_nil, hneg, if_true]
      exact Stuck.seq_left (Stuck.ite (d := true) hc (asBool_boolV true) (Stuck.assign_path hp))
    · rw [if_neg hneg] at hm
      by_cases hin : (n - 1).toNat < out'.length
      · rw [Model.Utils.setIdx, if_pos hin] at hm; cases hm
      · have he : evalV G env (.lit 1) = some (.int 1) := rfl
        have hp : pathV G env [.e (.op2 (.sub .i64) (.var 2) (.lit 1))] = some [(n - 1).toNat] := by
          simp only [pathV_e, nm1_val h2 hn1 hn2, pathV_nil, hneg, if_false]
        have hu : updPath (env 0) [(n - 1).toNat] (.int 1) = none := by
          rw [h0]; exact updPath_ints_none out' _ _ (by omega)
        exact Stuck.seq_left (Stuck.ite (d := true) hc (asBool_boolV true) (Stuck.assign_upd he hp hu))


theorem loop_phase_ok (hP1 : P[1]? = some fn_1) (hP2 : P[2]? = some fn_2) (out : List Int) (s : Bytes) (n : Int) (w : Nat)
    (hn1 : -9223372036854775808 < n) (hn2 : n + 6 < 9223372036854775808) (hw7 : w ≤ 7)
    (out' : List Int) (carry' : Bool)
    (hm : Model.Utils.nafLoop s n.toNat w n.toNat 0 false out = .ok (out', carry')) :
    ∃ env', EvIn P G X (70 * n.toNat + 1) (envPre out s n w) loopS env' .norm ∧
      env' 0 = intsV out' ∧ env' 2 = .int n ∧ env' 7 = boolV carry' := by
  have e2 : (envPre out s n w) 2 = .int n := by simp [envPre, Env.set, Env.ofList]
  have e8 : (envPre out s n w) 8 = .int ((0 : Nat) : Int) := by simp [envPre, Env.set]
  by_cases hpos : 0 ≤ n
  · obtain ⟨N, rfl⟩ : ∃ N : Nat, n = (N : Int) := ⟨n.toNat, by omega⟩
    rw [Int.toNat_natCast] at hm ⊢
    have hI : Inv (envPre out s (N : Int) w) out s N w false 0 :=
      ⟨by simp [envPre, Env.set, Env.ofList], by simp [envPre, Env.set, Env.ofList], e2,
        by simp [envPre, Env.set, Env.ofList], by simp [envPre, Env.set], by simp [envPre, Env.set],
        by simp [envPre, Env.set, boolV], e8⟩
    obtain ⟨env', k, hl, hI'⟩ := loop_ok (G := G) (X := X) hP1 hP2 s N w (by omega) hw7 N _ out false 0 out' carry' hI
      (by omega) hm
    exact ⟨env', hl, hI'.h0, hI'.h2, hI'.h7⟩
  · have hz : n.toNat = 0 := by omega
    rw [hz] at hm ⊢
    rw [nafLoop_zero] at hm
    simp only [Outcome.ok.injEq, Prod.mk.injEq] at hm
    obtain ⟨rfl, rfl⟩ := hm
    have hc : evalV G (envPre out s n w) condE = some (.int 0) := by
      rw [condE, evalV_op2, evalV_var, e8, nm1_val e2 hn1 (by omega)]
      simp [evalOp2, ofBool]
      omega
    exact ⟨_, EvIn.loop_exit hc rfl, by simp [envPre, Env.set, Env.ofList], e2, by simp [envPre, Env.set, boolV]⟩

theorem loop_phase_stuck (hP1 : P[1]? = some fn_1) (hP2 : P[2]? = some fn_2) (out : List Int) (s : Bytes) (n : Int) (w : Nat)
    (hn2 : n + 6 < 9223372036854775808) (hw7 : w ≤ 7)
    (hm : Model.Utils.nafLoop s n.toNat w n.toNat 0 false out = .panic) :
    Stuck P G X (envPre out s n w) loopS := by
  by_cases hpos : 0 ≤ n
  · obtain ⟨N, rfl⟩ : ∃ N : Nat, n = (N : Int) := ⟨n.toNat, by omega⟩
    rw [Int.toNat_natCast] at hm
    have hI : Inv (envPre out s (N : Int) w) out s N w false 0 :=
      ⟨by simp [envPre, Env.set, Env.ofList], by simp [envPre, Env.set, Env.ofList], by simp [envPre, Env.set, Env.ofList],
        by simp [envPre, Env.set, Env.ofList], by simp [envPre, Env.set], by simp [envPre, Env.set],
        by simp [envPre, Env.set, boolV], by simp [envPre, Env.set]⟩
    exact loop_stuck (G := G) (X := X) hP1 hP2 s N w (by omega) hw7 N _ out false 0 hI hm
  · have hz : n.toNat = 0 := by omega
    rw [hz, nafLoop_zero] at hm; cases hm

/-- fuel that suffices for DecomposeNAF on bit-length argument `n` -/
def fuelNaf (n : Int) : Nat := 70 * n.toNat + 20

/-- body level (for callers: `EvIn.call`), for any program `P` whose functions 1 and 2 are getBit and getBits:
    the model returns `r` ⇒ the body returns the written slice `r` -/
theorem naf_body_ok (hP1 : P[1]? = some fn_1) (hP2 : P[2]? = some fn_2) (out : List Int) (s : Bytes) (n w : Int)
    (hn1 : -9223372036854775808 < n) (hn2 : n + 6 < 9223372036854775808) (r : List Int)
    (h : Model.Utils.decomposeNAF (some out) (some s) n w = .ok r) :
    ∃ env', EvIn P G X (fuelNaf n) (Env.ofList [intsV out, bytesV s, .int n, .int w]) fn_0.body env' (.ret [intsV r]) := by
  rw [naf_unfold] at h
  by_cases hw : w ≤ 0 ∨ w > 7
  · rw [if_pos hw] at h; cases h
  · rw [if_neg hw] at h
    obtain ⟨W, rfl⟩ : ∃ W : Nat, w = (W : Int) := ⟨w.toNat, by omega⟩
    rw [Int.toNat_natCast] at h
    cases hm : Model.Utils.nafLoop s n.toNat W n.toNat 0 false out with
    | err => rw [hm] at h; cases h
    | panic => rw [hm] at h; cases h
    | ok p =>
      obtain ⟨out', carry'⟩ := p
      rw [hm, Outcome.bind_ok] at h
      dsimp only at h
      obtain ⟨env1, hloop, h0, h2, h7⟩ := loop_phase_ok (G := G) (X := X) hP1 hP2 out s n W hn1 hn2 (by omega)
        out' carry' hm
      obtain ⟨env2, hep⟩ := epilogue_ok (P := P) (G := G) (X := X) h0 h2 h7 hn1 (by omega) h
      have hbody := (prologue (P := P) (G := G) (X := X) out s n W (by omega) (by omega) (.seq loopS tailS)).1
        (EvIn.seq hloop hep)
      exact ⟨env2, by rw [fn_0_body]; exact hbody.mono (by simp only [fuelNaf]; omega)⟩

/-- body level: a run-time panic of the model (index out of range) ⇒ the body is stuck -/
theorem naf_body_stuck (hP1 : P[1]? = some fn_1) (hP2 : P[2]? = some fn_2) (out : List Int) (s : Bytes) (n w : Int)
    (hn1 : -9223372036854775808 < n) (hn2 : n + 6 < 9223372036854775808) (hw : ¬ (w ≤ 0 ∨ w > 7))
    (h : Model.Utils.decomposeNAF (some out) (some s) n w = .panic) :
    Stuck P G X (Env.ofList [intsV out, bytesV s, .int n, .int w]) fn_0.body := by
  rw [naf_unfold, if_neg hw] at h
  obtain ⟨W, rfl⟩ : ∃ W : Nat, w = (W : Int) := ⟨w.toNat, by omega⟩
  rw [Int.toNat_natCast] at h
  rw [fn_0_body]
  apply (prologue (P := P) (G := G) (X := X) out s n W (by omega) (by omega) (.seq loopS tailS)).2
  cases hm : Model.Utils.nafLoop s n.toNat W n.toNat 0 false out with
  | err => rw [hm] at h; cases h
  | panic =>
    exact Stuck.seq_left (loop_phase_stuck (G := G) (X := X) hP1 hP2 out s n W hn2 (by omega) hm)
  | ok p =>
    obtain ⟨out', carry'⟩ := p
    rw [hm, Outcome.bind_ok] at h
    dsimp only at h
    obtain ⟨env1, hloop, h0, h2, h7⟩ := loop_phase_ok (G := G) (X := X) hP1 hP2 out s n W hn1 hn2 (by omega)
      out' carry' hm
    exact Stuck.seq_right hloop (epilogue_stuck (P := P) (G := G) (X := X) h0 h2 h7 hn1 (by omega) h)

/-- body level: the explicit `panic("nil or invalid parameters")` -/
theorem naf_body_panic (out : List Int) (s : Bytes) (n w : Int) (hw : w ≤ 0 ∨ w > 7) :
    EvIn P G X 3 (Env.ofList [intsV out, bytesV s, .int n, .int w]) fn_0.body
      (Env.ofList [intsV out, bytesV s, .int n, .int w]) .panic := by
  have g3 : (Env.ofList [intsV out, bytesV s, .int n, .int w]) 3 = .int w := by simp [Env.ofList]
  have hc := check_val (G := G) g3
  rw [if_pos hw] at hc
  rw [fn_0_body]
  exact EvIn.seq_stop (EvIn.ite (d := true) hc rfl (EvIn.panic _)) (by simp)


/-- `n` within 6 of `math.MaxInt64` and a byte string shorter than 2^60 bytes: the first `getBit` is out of range on
    both sides (so the wrap-around of `outIdx`, which needs the first round to pass, cannot be observed) -/
theorem naf_big (hP1 : P[1]? = some fn_1) (out : List Int) (s : Bytes) (n w : Int)
    (hn2 : n < 9223372036854775808) (hbig : 9223372036854775808 ≤ n + 6) (hs : s.length < 1152921504606846976)
    (hw : ¬ (w ≤ 0 ∨ w > 7)) :
    Model.Utils.decomposeNAF (some out) (some s) n w = .panic ∧
      Stuck P G X (Env.ofList [intsV out, bytesV s, .int n, .int w]) fn_0.body := by
  obtain ⟨W, rfl⟩ : ∃ W : Nat, w = (W : Int) := ⟨w.toNat, by omega⟩
  obtain ⟨M, rfl⟩ : ∃ M : Nat, n = ((M + 1 : Nat) : Int) := ⟨n.toNat - 1, by omega⟩
  have hg : Model.Utils.getBit s (M + 1 - 0 - 1 - 1) false = .panic := by
    have hnone : s[(M + 1 - 0 - 1 - 1) / 8]? = none := List.getElem?_eq_none (by omega)
    rw [getBit_unfold]
    simp only [Outcome.idx, hnone]
    rfl
  constructor
  · rw [naf_unfold, if_neg hw, Int.toNat_natCast, Int.toNat_natCast, nafLoop_succ, if_pos (by omega), hg]
    rfl
  · have hI : Inv (envPre out s ((M + 1 : Nat) : Int) W) out s (M + 1) W false 0 :=
      ⟨by simp [envPre, Env.set, Env.ofList], by simp [envPre, Env.set, Env.ofList], by simp [envPre, Env.set, Env.ofList],
        by simp [envPre, Env.set, Env.ofList], by simp [envPre, Env.set], by simp [envPre, Env.set],
        by simp [envPre, Env.set, boolV], by simp [envPre, Env.set]⟩
    have hc := cond_val (G := G) hI.h2 hI.h8 (by omega)
    rw [if_pos (by omega)] at hc
    rw [fn_0_body]
    apply (prologue (P := P) (G := G) (X := X) out s _ W (by omega) (by omega) (.seq loopS tailS)).2
    exact Stuck.seq_left (Stuck.loop_body hc rfl (round_pre_stuck (G := G) (X := X) hP1 hI (by omega) (by omega) hg))


/-- RECORDED DISAGREEMENT (the reason for the hypothesis `math.MinInt64 < n`): for `n = math.MinInt64`, a valid
    window and any byte string shorter than 2^60 bytes, the model takes `n.toNat = 0` iterations and returns `out`
    unchanged, while Go and the IR wrap `n-1` to `math.MaxInt64`, enter the loop and panic at
    `s[(MaxInt64-1)>>3]` in the first `getBit` (index out of range: the IR run is stuck with every fuel). -/
theorem naf_minInt64_disagree (hP1 : P[1]? = some fn_1) (out : List Int) (s : Bytes) (w : Nat) (hw1 : 1 ≤ w) (hw7 : w ≤ 7)
    (hs : s.length < 1152921504606846976) :
    Model.Utils.decomposeNAF (some out) (some s) (-9223372036854775808) (w : Int) = .ok out ∧
      Stuck P G X (Env.ofList [intsV out, bytesV s, .int (-9223372036854775808), .int (w : Int)]) fn_0.body := by
  constructor
  · rw [naf_unfold, if_neg (by omega)]
    have hz : (-9223372036854775808 : Int).toNat = 0 := rfl
    rw [hz, nafLoop_zero]
    rfl
  · let e0 := envPre out s (-9223372036854775808) w
    have g1 : e0 1 = bytesV s := by simp [e0, envPre, Env.set, Env.ofList]
    have g2 : e0 2 = .int (-9223372036854775808) := by simp [e0, envPre, Env.set, Env.ofList]
    have g7 : e0 7 = boolV false := by simp [e0, envPre, Env.set, boolV]
    have g8 : e0 8 = .int 0 := by simp [e0, envPre]
    have hc : evalV G e0 condE = some (.int 1) := by
      simp only [condE, evalV_op2, evalV_var, evalV_lit, g2, g8, evalOp2, Option.map_some, norm]
      rfl
    have s9 : evalV G e0 (.op2 (.sub .i64) (.op2 (.sub .i64) (.var 2) (.var 8)) (.lit 1))
        = some (.int ((9223372036854775807 : Nat) : Int)) := by
      simp only [evalV_op2, evalV_var, evalV_lit, g2, g8, evalOp2, Option.map_some, norm]
      rfl
    let e1 := e0.set 9 (.int ((9223372036854775807 : Nat) : Int))
    let e2 := e1.set 10 (boolV false)
    let e3 := e2.set 11 (.int 0)
    have s10 : evalV G e1 (.var 7) = some (boolV false) := by simp [e1, Env.set, g7]
    have k1 : e3 1 = bytesV s := by simp [e3, e2, e1, Env.set, g1]
    have k7 : e3 7 = boolV false := by simp [e3, e2, e1, Env.set, g7]
    have k9 : e3 9 = .int ((9223372036854775807 : Nat) : Int) := by simp [e3, e2, e1, Env.set]
    have sub1 : evalV G e3 (.op2 (.sub .i64) (.var 9) (.lit 1)) = some (.int ((9223372036854775806 : Nat) : Int)) := by
      have h1' : evalOp2 (.sub .i64) ((9223372036854775807 : Nat) : Int) 1 = some ((9223372036854775807 - 1 : Nat) : Int) :=
        sub_i64_nat (b := 1) (by omega) (by omega)
      rw [evalV_op2, evalV_var, k9, evalV_lit]
      simp only [h1', Option.map_some]
    have args : evalVs G e3 [(.var 1), (.op2 (.sub .i64) (.var 9) (.lit 1)), (.var 7)]
        = some [bytesV s, .int ((9223372036854775806 : Nat) : Int), boolV false] := by
      simp only [evalVs_cons, evalVs_nil, evalV_var, sub1, k1, k7]
    have hg : Model.Utils.getBit s 9223372036854775806 false = .panic := by
      have hnone : s[9223372036854775806 / 8]? = none := List.getElem?_eq_none (by omega)
      rw [getBit_unfold]
      simp only [Outcome.idx, hnone]
      rfl
    have hcall := getBit_body_stuck (P := P) (G := G) (X := X) s 9223372036854775806 false (by omega) hg
    rw [fn_0_body]
    apply (prologue (P := P) (G := G) (X := X) out s _ w hw1 hw7 (.seq loopS tailS)).2
    exact Stuck.seq_left (Stuck.loop_body hc rfl (Stuck.seq_right (EvIn.assign s9) (Stuck.seq_right (EvIn.assign s10)
      (Stuck.seq_right (EvIn.assign (v := .int 0) rfl) (Stuck.seq_left (Stuck.call args hP1 hcall))))))


end Naf

/-! ### Run level -/

section Run
variable {G : Nat → Val} {X : Oracle}

/-- DecomposeNAF: the model returns `r` ⇒ every run of the IR with fuel ≥ `fuelNaf n` returns the written slice `r` -/
theorem ir_naf_ok (out : List Int) (s : Bytes) (n w : Int)
    (hn1 : -9223372036854775808 < n) (hn2 : n + 6 < 9223372036854775808) (r : List Int)
    (h : Model.Utils.decomposeNAF (some out) (some s) n w = .ok r) :
    ∀ f, fuelNaf n ≤ f →
      runV prog G X f f_utils_DecomposeNAF [intsV out, bytesV s, .int n, .int w] = .ret [intsV r] := by
  obtain ⟨env', hb⟩ := naf_body_ok (P := prog) (G := G) (X := X) fn1_lookup fn2_lookup out s n w hn1 hn2 r h
  exact runV_of_EvIn fn0_lookup rfl rfl hb

/-- DecomposeNAF: the model panics at run time (an index out of range: `1 ≤ w ≤ 7`) ⇒ the IR run is stuck with
    every fuel -/
theorem ir_naf_stuck (out : List Int) (s : Bytes) (n w : Int)
    (hn1 : -9223372036854775808 < n) (hn2 : n + 6 < 9223372036854775808) (hw : ¬ (w ≤ 0 ∨ w > 7))
    (h : Model.Utils.decomposeNAF (some out) (some s) n w = .panic) :
    ∀ f, runV prog G X f f_utils_DecomposeNAF [intsV out, bytesV s, .int n, .int w] = .stuck :=
  runV_of_Stuck fn0_lookup (naf_body_stuck (P := prog) (G := G) (X := X) fn1_lookup fn2_lookup out s n w hn1 hn2 hw h)

/-- DecomposeNAF: the explicit `panic("nil or invalid parameters")` for `w ≤ 0 ∨ w > 7` (any `n`) -/
theorem ir_naf_panic (out : List Int) (s : Bytes) (n w : Int) (hw : w ≤ 0 ∨ w > 7) :
    ∀ f, 3 ≤ f → runV prog G X f f_utils_DecomposeNAF [intsV out, bytesV s, .int n, .int w] = .panic :=
  runV_of_EvIn fn0_lookup rfl rfl (naf_body_panic (P := prog) (G := G) (X := X) out s n w hw)

theorem model_naf_panic (out : List Int) (s : Bytes) (n w : Int) (hw : w ≤ 0 ∨ w > 7) :
    Model.Utils.decomposeNAF (some out) (some s) n w = .panic := by
  rw [naf_unfold, if_pos hw]

/-- run level of the recorded disagreement at `n = math.MinInt64` -/
theorem ir_naf_minInt64_disagree (out : List Int) (s : Bytes) (w : Nat) (hw1 : 1 ≤ w) (hw7 : w ≤ 7)
    (hs : s.length < 1152921504606846976) :
    Model.Utils.decomposeNAF (some out) (some s) (-9223372036854775808) (w : Int) = .ok out ∧
      ∀ f, runV prog G X f f_utils_DecomposeNAF [intsV out, bytesV s, .int (-9223372036854775808), .int (w : Int)]
        = .stuck := by
  obtain ⟨hm, hst⟩ := naf_minInt64_disagree (P := prog) (G := G) (X := X) fn1_lookup out s w hw1 hw7 hs
  exact ⟨hm, runV_of_Stuck fn0_lookup hst⟩

/-! ### The combined statement -/

def intsOf : List Val → Option (List Int)
  | [] => some []
  | .int n :: vs => (intsOf vs).map (n :: ·)
  | .arr _ :: _ => none

theorem intsOf_map (l : List Int) : intsOf (l.map Val.int) = some l := by
  induction l with
  | nil => rfl
  | cons a l ih => simp [intsOf, ih]

/-- value of a run as an outcome: results `[slice of ints]` ↦ `ok`; a stuck run (index out of range: a Go
    run-time panic) and an explicit `panic` ↦ `panic` -/
def outcomeInts : Ctl → Outcome (List Int)
  | .ret [.arr vs] =>
    match intsOf vs with
    | some l => .ok l
    | none => .panic
  | _ => .panic

theorem outcomeInts_ret (l : List Int) : outcomeInts (.ret [intsV l]) = .ok l := by
  simp [outcomeInts, intsV, intsOf_map]

theorem getBit_ne_err (s : Bytes) (idx : Nat) (c : Bool) : Model.Utils.getBit s idx c ≠ .err := by
  rw [getBit_unfold]
  simp only [Outcome.idx]
  cases s[idx / 8]? with
  | none => simp
  | some b =>
    simp only [Outcome.bind_ok]
    cases c
    · simp
    · simp only [Bool.not_true, Bool.false_eq_true, if_false]
      split <;> simp

theorem getBits_ne_err (s : Bytes) (idx w : Nat) : Model.Utils.getBits s idx w ≠ .err := by
  rw [getBits_unfold]
  simp only [Outcome.idx]
  cases s[idx / 8]? with
  | none => simp
  | some b =>
    simp only [Outcome.bind_ok]
    split
    · cases s[idx / 8 - 1]? <;> simp
    · simp

theorem nafLoop_ne_err (s : Bytes) (n w : Nat) : ∀ (fuel outIdx : Nat) (carry : Bool) (out : List Int),
    Model.Utils.nafLoop s n w fuel outIdx carry out ≠ .err := by
  intro fuel
  induction fuel with
  | zero => intro outIdx carry out; rw [nafLoop_zero]; simp
  | succ fuel ih =>
    intro outIdx carry out
    rw [nafLoop_succ]
    split
    · cases hg : Model.Utils.getBit s (n - outIdx - 1 - 1) carry with
      | err => exact absurd hg (getBit_ne_err _ _ _)
      | panic => simp
      | ok p =>
        rw [Outcome.bind_ok]
        split
        · cases hgb : Model.Utils.getBits s (n - outIdx - 1 - 1) w with
          | err => exact absurd hgb (getBits_ne_err _ _ _)
          | panic => simp
          | ok d0 =>
            rw [Outcome.bind_ok, Model.Utils.setIdx]
            split
            · rw [Outcome.bind_ok]; exact ih _ _ _
            · simp
        · exact ih _ _ _
    · simp

theorem model_naf_ne_err (out : List Int) (s : Bytes) (n w : Int) :
    Model.Utils.decomposeNAF (some out) (some s) n w ≠ .err := by
  rw [naf_unfold]
  split
  · simp
  · cases hm : Model.Utils.nafLoop s n.toNat w.toNat n.toNat 0 false out with
    | err => exact absurd hm (nafLoop_ne_err _ _ _ _ _ _ _)
    | panic => simp
    | ok p =>
      rw [Outcome.bind_ok]
      split
      · split
        · simp
        · rw [Model.Utils.setIdx]; split <;> simp
      · simp

/-- the run of the generated IR of DecomposeNAF IS the hand-written model, for all (non-nil) `out`, `s`, every
    window `w` of a Go `int`, and every bit length `n` with `math.MinInt64 < n ≤ math.MaxInt64 - 6`:
    * `n = math.MinInt64`: Go and the IR wrap `n-1` to `MaxInt64`, enter the loop and panic at `s[(n-2)>>3]`;
      the model takes `n.toNat = 0` iterations and returns `out` unchanged;
    * `n > MaxInt64 - 6`: `outIdx += w; outIdx++` could wrap in Go and the IR, not in the model (only for a
      byte string of at least 2^60 bytes: otherwise both sides panic in the first round, see
      `ir_decomposeNAF_eq_model'`). -/
theorem ir_decomposeNAF_eq_model (out : List Int) (s : Bytes) (n w : Int)
    (hn1 : -9223372036854775808 < n) (hn2 : n + 6 < 9223372036854775808) (f : Nat) (hf : fuelNaf n ≤ f) :
    outcomeInts (runV prog G X f f_utils_DecomposeNAF [intsV out, bytesV s, .int n, .int w])
      = Model.Utils.decomposeNAF (some out) (some s) n w := by
  by_cases hw : w ≤ 0 ∨ w > 7
  · rw [ir_naf_panic out s n w hw f (by simp only [fuelNaf] at hf; omega), model_naf_panic out s n w hw]; rfl
  · cases h : Model.Utils.decomposeNAF (some out) (some s) n w with
    | ok r => rw [ir_naf_ok out s n w hn1 hn2 r h f hf, outcomeInts_ret]
    | panic => rw [ir_naf_stuck out s n w hn1 hn2 hw h f]; rfl
    | err => exact absurd h (model_naf_ne_err out s n w)

/-- the same with the weakest hypothesis on `n`: a Go `int` other than `math.MinInt64`, and, when `n` is within 6 of
    `math.MaxInt64`, a byte string shorter than 2^60 bytes (always true of a Go slice) -/
theorem ir_decomposeNAF_eq_model' (out : List Int) (s : Bytes) (n w : Int)
    (hn1 : -9223372036854775808 < n) (hn2 : n < 9223372036854775808)
    (hs : n + 6 < 9223372036854775808 ∨ s.length < 1152921504606846976) (f : Nat) (hf : fuelNaf n ≤ f) :
    outcomeInts (runV prog G X f f_utils_DecomposeNAF [intsV out, bytesV s, .int n, .int w])
      = Model.Utils.decomposeNAF (some out) (some s) n w := by
  by_cases hsmall : n + 6 < 9223372036854775808
  · exact ir_decomposeNAF_eq_model out s n w hn1 hsmall f hf
  · have hlen : s.length < 1152921504606846976 := by
      rcases hs with h | h
      · exact absurd h hsmall
      · exact h
    by_cases hw : w ≤ 0 ∨ w > 7
    · rw [ir_naf_panic out s n w hw f (by simp only [fuelNaf] at hf; omega), model_naf_panic out s n w hw]; rfl
    · obtain ⟨hmod, hst⟩ := naf_big (P := prog) (G := G) (X := X) fn1_lookup out s n w hn2 (by omega) hlen hw
      rw [hmod, runV_of_Stuck fn0_lookup hst f]; rfl

end Run

#print axioms ir_getBit_ok
#print axioms ir_getBit_panic
#print axioms ir_getBits_ok
#print axioms ir_getBits_panic
#print axioms naf_body_ok
#print axioms naf_body_stuck
#print axioms naf_body_panic
#print axioms ir_naf_ok
#print axioms ir_naf_stuck
#print axioms ir_naf_panic
#print axioms ir_decomposeNAF_eq_model
#print axioms ir_decomposeNAF_eq_model'
#print axioms ir_naf_minInt64_disagree

end SMGo.Proofs.CTIRRefineNaf
