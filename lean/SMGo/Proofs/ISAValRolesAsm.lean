import SMGo.Proofs.ISAValRoles
import SMGo.Gen.ListAmd64Asm
namespace SMGo.Proofs.ISATouch
open SMGo.Gen

/-- every instruction instance of ListAmd64Asm: `roleOk`, by evaluation in the kernel -/
theorem ok_ListAmd64Asm : allOk ListAmd64Asm.routines = true := by decide +kernel

end SMGo.Proofs.ISATouch
