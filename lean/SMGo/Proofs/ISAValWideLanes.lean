import SMGo.Proofs.ISAValGhashAbs
import SMGo.Proofs.ISAValX1
namespace SMGo.Proofs.ISAVal
open SMGo.Model.ISAVal SMGo.Model.ISA

/-! ### dword view of the unpack instructions on every 128-bit lane -/

theorem unlanes32_lt128 (p q r s : Nat) (hp : p < 2 ^ 32) (hq : q < 2 ^ 32) (hr : r < 2 ^ 32) (hs : s < 2 ^ 32) :
    unlanes 32 [p, q, r, s] < 2 ^ 128 := by
  have := unlanes_lt 32 [p, q, r, s] (by
    intro x hx; simp at hx; rcases hx with rfl | rfl | rfl | rfl <;> assumption)
  simpa using this

theorem unlanes64_lt128 (p q : Nat) (hp : p < 2 ^ 64) (hq : q < 2 ^ 64) : unlanes 64 [p, q] < 2 ^ 128 := by
  have := unlanes_lt 64 [p, q] (by intro x hx; simp at hx; rcases hx with rfl | rfl <;> assumption)
  simpa using this

theorem unpckldq_lt (a b : Nat) : unpckldq a b < 2 ^ 128 := unlanes32_lt128 _ _ _ _ (lane_lt _ _ _) (lane_lt _ _ _) (lane_lt _ _ _) (lane_lt _ _ _)
theorem unpckhdq_lt (a b : Nat) : unpckhdq a b < 2 ^ 128 := unlanes32_lt128 _ _ _ _ (lane_lt _ _ _) (lane_lt _ _ _) (lane_lt _ _ _) (lane_lt _ _ _)
theorem unpcklqdq_lt (a b : Nat) : unpcklqdq a b < 2 ^ 128 := unlanes64_lt128 _ _ (lane_lt _ _ _) (lane_lt _ _ _)
theorem unpckhqdq_lt (a b : Nat) : unpckhqdq a b < 2 ^ 128 := unlanes64_lt128 _ _ (lane_lt _ _ _) (lane_lt _ _ _)

/-- dword `4l+m` of a per-128-bit-lane operation -/
theorem lane32_map2_128 (n l m a b : Nat) (f : Nat → Nat → Nat) (hl : l < n) (hm : m < 4) (hf : ∀ x y, f x y < 2 ^ 128) :
    lane 32 (4 * l + m) (map2 128 n f a b) = lane 32 m (f (lane 128 l a) (lane 128 l b)) := by
  rw [← lane_lane' 128 32 4 m l _ (by decide) hm, lane_map2 128 n l a b f hl (fun x y _ _ => hf x y)]

theorem lane32_in128 (l i x : Nat) (hi : i < 4) : lane 32 i (lane 128 l x) = lane 32 (4 * l + i) x :=
  lane_lane' 128 32 4 i l x (by decide) hi

theorem lane32_in64 (q i x : Nat) (hi : i < 2) : lane 32 i (lane 64 q x) = lane 32 (2 * q + i) x :=
  lane_lane' 64 32 2 i q x (by decide) hi

theorem lane32_list2_64 (p q : Nat) (hp : p < 2 ^ 64) (hq : q < 2 ^ 64) :
    lane 32 0 (unlanes 64 [p, q]) = lane 32 0 p ∧ lane 32 1 (unlanes 64 [p, q]) = lane 32 1 p ∧
    lane 32 2 (unlanes 64 [p, q]) = lane 32 0 q ∧ lane 32 3 (unlanes 64 [p, q]) = lane 32 1 q := by
  have hb : ∀ x ∈ [p, q], x < 2 ^ 64 := by intro x hx; simp at hx; rcases hx with rfl | rfl <;> assumption
  have q0 : lane 64 0 (unlanes 64 [p, q]) = p := lane_unlanes 64 _ hb 0 (by simp)
  have q1 : lane 64 1 (unlanes 64 [p, q]) = q := lane_unlanes 64 _ hb 1 (by simp)
  refine ⟨?_, ?_, ?_, ?_⟩
  · have := lane32_in64 0 0 (unlanes 64 [p, q]) (by decide); rw [q0] at this; exact this.symm
  · have := lane32_in64 0 1 (unlanes 64 [p, q]) (by decide); rw [q0] at this; exact this.symm
  · have := lane32_in64 1 0 (unlanes 64 [p, q]) (by decide); rw [q1] at this; exact this.symm
  · have := lane32_in64 1 1 (unlanes 64 [p, q]) (by decide); rw [q1] at this; exact this.symm

/-- VPUNPCKLDQ a, b on every lane `l`: dwords (b0, a0, b1, a1) of that lane -/
theorem d_unpckldq (n l a b : Nat) (hl : l < n) :
    lane 32 (4 * l + 0) (map2 128 n unpckldq a b) = lane 32 (4 * l + 0) b ∧
    lane 32 (4 * l + 1) (map2 128 n unpckldq a b) = lane 32 (4 * l + 0) a ∧
    lane 32 (4 * l + 2) (map2 128 n unpckldq a b) = lane 32 (4 * l + 1) b ∧
    lane 32 (4 * l + 3) (map2 128 n unpckldq a b) = lane 32 (4 * l + 1) a := by
  have h4 := lane32_list4 (lane 32 0 (lane 128 l b)) (lane 32 0 (lane 128 l a)) (lane 32 1 (lane 128 l b)) (lane 32 1 (lane 128 l a))
    (lane_lt _ _ _) (lane_lt _ _ _) (lane_lt _ _ _) (lane_lt _ _ _)
  refine ⟨?_, ?_, ?_, ?_⟩
  · rw [lane32_map2_128 n l 0 a b _ hl (by decide) unpckldq_lt]; exact h4.1.trans (lane32_in128 l 0 b (by decide))
  · rw [lane32_map2_128 n l 1 a b _ hl (by decide) unpckldq_lt]; exact h4.2.1.trans (lane32_in128 l 0 a (by decide))
  · rw [lane32_map2_128 n l 2 a b _ hl (by decide) unpckldq_lt]; exact h4.2.2.1.trans (lane32_in128 l 1 b (by decide))
  · rw [lane32_map2_128 n l 3 a b _ hl (by decide) unpckldq_lt]; exact h4.2.2.2.trans (lane32_in128 l 1 a (by decide))

/-- VPUNPCKHDQ a, b: (b2, a2, b3, a3) -/
theorem d_unpckhdq (n l a b : Nat) (hl : l < n) :
    lane 32 (4 * l + 0) (map2 128 n unpckhdq a b) = lane 32 (4 * l + 2) b ∧
    lane 32 (4 * l + 1) (map2 128 n unpckhdq a b) = lane 32 (4 * l + 2) a ∧
    lane 32 (4 * l + 2) (map2 128 n unpckhdq a b) = lane 32 (4 * l + 3) b ∧
    lane 32 (4 * l + 3) (map2 128 n unpckhdq a b) = lane 32 (4 * l + 3) a := by
  have h4 := lane32_list4 (lane 32 2 (lane 128 l b)) (lane 32 2 (lane 128 l a)) (lane 32 3 (lane 128 l b)) (lane 32 3 (lane 128 l a))
    (lane_lt _ _ _) (lane_lt _ _ _) (lane_lt _ _ _) (lane_lt _ _ _)
  refine ⟨?_, ?_, ?_, ?_⟩
  · rw [lane32_map2_128 n l 0 a b _ hl (by decide) unpckhdq_lt]; exact h4.1.trans (lane32_in128 l 2 b (by decide))
  · rw [lane32_map2_128 n l 1 a b _ hl (by decide) unpckhdq_lt]; exact h4.2.1.trans (lane32_in128 l 2 a (by decide))
  · rw [lane32_map2_128 n l 2 a b _ hl (by decide) unpckhdq_lt]; exact h4.2.2.1.trans (lane32_in128 l 3 b (by decide))
  · rw [lane32_map2_128 n l 3 a b _ hl (by decide) unpckhdq_lt]; exact h4.2.2.2.trans (lane32_in128 l 3 a (by decide))

theorem lane32_q_in128 (l q i x : Nat) (hq : q < 2) (hi : i < 2) : lane 32 i (lane 64 q (lane 128 l x)) = lane 32 (4 * l + (2 * q + i)) x := by
  rw [lane32_in64 q i _ hi, lane32_in128 l (2 * q + i) x (by omega)]

/-- VPUNPCKLQDQ a, b: (b0, b1, a0, a1) -/
theorem d_unpcklqdq (n l a b : Nat) (hl : l < n) :
    lane 32 (4 * l + 0) (map2 128 n unpcklqdq a b) = lane 32 (4 * l + 0) b ∧
    lane 32 (4 * l + 1) (map2 128 n unpcklqdq a b) = lane 32 (4 * l + 1) b ∧
    lane 32 (4 * l + 2) (map2 128 n unpcklqdq a b) = lane 32 (4 * l + 0) a ∧
    lane 32 (4 * l + 3) (map2 128 n unpcklqdq a b) = lane 32 (4 * l + 1) a := by
  have h4 := lane32_list2_64 (lane 64 0 (lane 128 l b)) (lane 64 0 (lane 128 l a)) (lane_lt _ _ _) (lane_lt _ _ _)
  refine ⟨?_, ?_, ?_, ?_⟩
  · rw [lane32_map2_128 n l 0 a b _ hl (by decide) unpcklqdq_lt]; exact h4.1.trans (lane32_q_in128 l 0 0 b (by decide) (by decide))
  · rw [lane32_map2_128 n l 1 a b _ hl (by decide) unpcklqdq_lt]; exact h4.2.1.trans (lane32_q_in128 l 0 1 b (by decide) (by decide))
  · rw [lane32_map2_128 n l 2 a b _ hl (by decide) unpcklqdq_lt]; exact h4.2.2.1.trans (lane32_q_in128 l 0 0 a (by decide) (by decide))
  · rw [lane32_map2_128 n l 3 a b _ hl (by decide) unpcklqdq_lt]; exact h4.2.2.2.trans (lane32_q_in128 l 0 1 a (by decide) (by decide))

/-- VPUNPCKHQDQ a, b: (b2, b3, a2, a3) -/
theorem d_unpckhqdq (n l a b : Nat) (hl : l < n) :
    lane 32 (4 * l + 0) (map2 128 n unpckhqdq a b) = lane 32 (4 * l + 2) b ∧
    lane 32 (4 * l + 1) (map2 128 n unpckhqdq a b) = lane 32 (4 * l + 3) b ∧
    lane 32 (4 * l + 2) (map2 128 n unpckhqdq a b) = lane 32 (4 * l + 2) a ∧
    lane 32 (4 * l + 3) (map2 128 n unpckhqdq a b) = lane 32 (4 * l + 3) a := by
  have h4 := lane32_list2_64 (lane 64 1 (lane 128 l b)) (lane 64 1 (lane 128 l a)) (lane_lt _ _ _) (lane_lt _ _ _)
  refine ⟨?_, ?_, ?_, ?_⟩
  · rw [lane32_map2_128 n l 0 a b _ hl (by decide) unpckhqdq_lt]; exact h4.1.trans (lane32_q_in128 l 1 0 b (by decide) (by decide))
  · rw [lane32_map2_128 n l 1 a b _ hl (by decide) unpckhqdq_lt]; exact h4.2.1.trans (lane32_q_in128 l 1 1 b (by decide) (by decide))
  · rw [lane32_map2_128 n l 2 a b _ hl (by decide) unpckhqdq_lt]; exact h4.2.2.1.trans (lane32_q_in128 l 1 0 a (by decide) (by decide))
  · rw [lane32_map2_128 n l 3 a b _ hl (by decide) unpckhqdq_lt]; exact h4.2.2.2.trans (lane32_q_in128 l 1 1 a (by decide) (by decide))

end SMGo.Proofs.ISAVal
