import SMGo.Proofs.ISAValGhashLoop4
namespace SMGo.Proofs.ISAVal
open SMGo.Model.ISAVal SMGo.Model.ISA SMGo.Model.GCM SMGo.Proofs.GCM

/-- the block loop of `gHashBlocks` on reflected operands: fewer than 8 blocks one at a time, otherwise four at a
    time while more than 3 remain and then one at a time (the shape of `Model.GCM.ghBlocks`) -/
def ghAllN (h n y : Nat) (d : List Nat) : Nat :=
  if n < 8 then ghN h n y d else ghN h (n % 4) (ghN4 h (n / 4) y d) (d.drop (64 * (n / 4)))

theorem seg_p : ((ghR.drop 0).take 28).map erasePc = pCode := by decide +kernel
theorem seg_q : ((ghR.drop 29).take 69).map erasePc = qCode := by decide +kernel
theorem at_28 : ghR.drop 28 = ⟨169, .JLT, [.target 827], 0⟩ :: ghR.drop 29 := by decide +kernel
theorem p_nc : pCode.all (fun i => !i.mn.isControl) = true := by decide +kernel
theorem q_nc : qCode.all (fun i => !i.mn.isControl) = true := by decide +kernel

/-- fuel that suffices for `count` blocks -/
def ghFuel (count : Nat) : Nat := 34 * count + 200

/-- **the listing of `gHashBlocks` performs the GHASH block loop** (A3): for every `count ≥ 1`, every H, tag and
    `16·count` bytes of data, whatever the registers hold at entry, the run from the first instruction to RET
    succeeds and leaves in the tag buffer the bit-reflected result of the block loop on the reflected operands -/
theorem gHashBlocks_run (g v k h tag data : List Nat) (count : Nat)
    (hG : g.length = 16) (hV : v.length = 32) (hK : k.length = 8)
    (hh : h.length = 16) (ht : tag.length = 16) (hhb : ∀ x ∈ h, x < 2 ^ 8) (htb : ∀ x ∈ tag, x < 2 ^ 8)
    (hdb : ∀ x ∈ data, x < 2 ^ 8) (hc : 1 ≤ count) (hd : 16 * count ≤ data.length) (hdl : data.length < 2 ^ 32) :
    runGhash (ghFuel count) (ghashState g v k h tag data count)
      = .ok (lanes 8 16 (rb128 (ghAllN (rb128 (unlanes 8 h)) count (rb128 (unlanes 8 tag)) data))) := by
  obtain ⟨s1, hrunP, ctx, hg1, hg2, hv21, hfl⟩ := ghP_spec g v k h tag data count hG hV hK hh ht hhb htb
  have hy : rb128 (unlanes 8 tag) < 2 ^ 128 := rb128_lt _
  have hrd : ∀ off n, off + n ≤ data.length → readMem (gmem h tag data) (81604378624 + off) n = .ok ((data.drop off).take n) :=
    fun off n hoff => gm_read_data h tag data off n hoff (by omega)
  have hwr : ∀ y, writeMem (gmem h tag data) 77309411328 (lanes 8 16 (rb128 y)) = .ok (gmem h (lanes 8 16 (rb128 y)) data) :=
    fun y => gm_write_tag h tag data _ (by rw [lanes_length, ht])
  -- what remains after the prologue and its branch
  have key : ∃ s', runFrom ghR (34 * count + 200 - 29) (if count < 8 then ghR.drop 134 else ghR.drop 29) s1 = .ok s' ∧
      s'.mem = gmem h (lanes 8 16 (rb128 (ghAllN (rb128 (unlanes 8 h)) count (rb128 (unlanes 8 tag)) data))) data := by
    by_cases h8 : count < 8
    · simp only [h8, if_true, ghAllN]
      obtain ⟨s', hr, hm⟩ := ghLoop1 (gmem h tag data) 77309411328 _ _ (by decide) count s1 81604378624 _ data ctx hg1 hg2 hv21 hy
        hc (by omega) (by omega) hd hdb (fun off hoff => hrd off 16 hoff) (hwr _)
      refine ⟨s', ?_, hm⟩
      have := runFrom_mono ghR (30 * count + 8) (34 * count + 200 - 29 - (30 * count + 8)) _ s1 s' hr
      rwa [show 30 * count + 8 + (34 * count + 200 - 29 - (30 * count + 8)) = 34 * count + 200 - 29 from by omega] at this
    · simp only [h8, if_false, ghAllN]
      obtain ⟨s2, hrunQ, ctx2, c42, h2g1, h2g2, h2v21⟩ := ghQ_spec (gmem h tag data) 77309411328 _ s1 ctx
        (gm_read_idx ..) (gm_read_h01 ..) (gm_read_h23 ..)
      obtain ⟨s', hr, hm⟩ := ghLoop4 (gmem h tag data) 77309411328 _ _ (by decide) (count % 4) (Nat.mod_lt _ (by decide))
        (count / 4) s2 81604378624 _ data ctx2 c42 (h2g1.trans hg1) (by rw [h2g2, hg2]; omega) (h2v21.trans hv21) hy
        (by omega) (by omega) (by omega) (by omega) hdb hrd (hwr _)
      refine ⟨s', ?_, hm⟩
      have h1 := run_seg 29 69 qCode (by decide) seg_q q_nc s1 s2 hrunQ (34 * (count / 4) + 2 + 30 * (count % 4) + 8)
      rw [show 29 + 69 = 98 from rfl, hr] at h1
      have := runFrom_mono ghR (34 * (count / 4) + 2 + 30 * (count % 4) + 8 + 69)
        (34 * count + 200 - 29 - (34 * (count / 4) + 2 + 30 * (count % 4) + 8 + 69)) _ s1 s' h1
      rwa [show 34 * (count / 4) + 2 + 30 * (count % 4) + 8 + 69 +
        (34 * count + 200 - 29 - (34 * (count / 4) + 2 + 30 * (count % 4) + 8 + 69)) = 34 * count + 200 - 29 from by omega] at this
  obtain ⟨s', hr, hm⟩ := key
  -- the run from the entry
  have hrun : run Gen.ListAmd64Gcm.gHashBlocks (ghFuel count) (ghashState g v k h tag data count) = .ok s' := by
    have hrun0 : run Gen.ListAmd64Gcm.gHashBlocks (ghFuel count) (ghashState g v k h tag data count)
        = runFrom ghR (ghFuel count) ghR (ghashState g v k h tag data count) := by
      simp only [run, ghR_ok, ok_bind, runRoutine]
    rw [hrun0]
    have h0 := run_seg 0 28 pCode (by decide) seg_p p_nc (ghashState g v k h tag data count) s1 hrunP (34 * count + 200 - 29 + 1)
    rw [List.drop_zero] at h0
    rw [show ghFuel count = (34 * count + 200 - 29 + 1) + 28 from by unfold ghFuel; omega, h0,
      show 0 + 28 = 28 from rfl, at_28,
      runFrom_jcc ghR _ _ s1 (34 * count + 200 - 29) 827 (decide (count < 8)) (Or.inl rfl) rfl
        (by rw [hfl]; exact cond_jlt count 8 (by omega) (by decide))]
    by_cases h8 : count < 8
    · simp only [h8, decide_true, if_true, ghR_targets.2.1] at hr ⊢
      exact hr
    · simp only [h8, decide_false, Bool.false_eq_true, if_false] at hr ⊢
      exact hr
  unfold runGhash
  rw [hrun]
  obtain ⟨g', v', k', fl', m', sy', fr'⟩ := s'
  simp only at hm
  subst hm
  simp only [ok_bind, gm_region_tag]
  rfl

end SMGo.Proofs.ISAVal
