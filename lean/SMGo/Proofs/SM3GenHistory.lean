/-
  Histories of Write/Sum/Reset calls run through the GENERATED functions (`Model.SM3Code.run`) answer what
  the hand-written model answers (`Model.SM3.run`), call by call, and never panic; the one-shot `SumSM3`.
-/
import SMGo.Proofs.SM3GenSum
set_option linter.unusedSimpArgs false
namespace SMGo.Proofs.SM3Gen
open SMGo SMGo.Go

local notation "ttGen" => (List.map (BitVec.ofNat 32) Gen.SM3Const.tt : List W32)

theorem nx_lt_of_inv {s : Gen.SM3Code.SM3} {data : Bytes} (hwf : WF s) (h : Proofs.SM3.Inv (dec s) data) :
    s.nx < 64 := by
  have h4 : (dec s).nx = data.length % 64 := h.2.2.2.1
  have := hwf.nx0
  simp only [dec] at h4
  omega

/-- one call: the generated code answers what the model answers and stays well-formed -/
theorem step_eq_model (s : Gen.SM3Code.SM3) (data : Bytes) (op : Spec.SM3.Op) (hwf : WF s)
    (hinv : Proofs.SM3.Inv (dec s) data) :
    ∃ s', Model.SM3Code.step s op = .ok (s', (Model.SM3.step ttGen (dec s) op).2)
      ∧ dec s' = (Model.SM3.step ttGen (dec s) op).1 ∧ WF s' := by
  cases op with
  | write d =>
    obtain ⟨s1, e1, d1, w1⟩ := write_eq_model s d.toArray hwf
    refine ⟨s1, ?_, by simpa [Model.SM3.step] using d1, w1⟩
    simp only [Model.SM3Code.step, e1, Res.bind_ok, Res.pure_eq, Model.SM3.step]
    have : (Model.SM3.write ttGen (dec s) d).2 = d.length := rfl
    rw [this]
    simp
  | sum inp =>
    refine ⟨s, ?_, rfl, hwf⟩
    simp only [Model.SM3Code.step, sum_eq_model s inp.toArray hwf (nx_lt_of_inv hwf hinv), Res.bind_ok,
      Res.pure_eq, Model.SM3.step, List.toList_toArray]
  | reset =>
    refine ⟨_, ?_, dec_reset s, ?_⟩
    · simp only [Model.SM3Code.step, reset_eq_model s hwf.h8, Res.bind_ok, Res.pure_eq, Model.SM3.step]
    · exact ⟨by simp [Model.SM3.iv], hwf.x64, by simp, by simp⟩

theorem step_inv (st : Model.SM3.St) (data : Bytes) (op : Spec.SM3.Op) (hinv : Proofs.SM3.Inv st data) :
    ∃ data', Proofs.SM3.Inv (Model.SM3.step ttGen st op).1 data' := by
  cases op with
  | write d => exact ⟨data ++ d, (Proofs.SM3.write_inv hinv d).1⟩
  | sum inp => exact ⟨data, hinv⟩
  | reset => exact ⟨[], Proofs.SM3.reset_inv st hinv.2.1⟩

/-- histories from any well-formed value that holds some byte string -/
theorem run_from_eq_model (ops : List Spec.SM3.Op) (s : Gen.SM3Code.SM3) (data : Bytes)
    (acc : List Spec.SM3.Out) (hwf : WF s) (hinv : Proofs.SM3.Inv (dec s) data) :
    ∃ s', ops.foldlM (fun (acc : Gen.SM3Code.SM3 × List Spec.SM3.Out) op => do
          let r ← Model.SM3Code.step acc.1 op
          pure (r.1, r.2 :: acc.2)) (s, acc)
      = Res.ok (s', (ops.foldl (fun (acc : Model.SM3.St × List Spec.SM3.Out) op =>
          let (s', o) := Model.SM3.step ttGen acc.1 op; (s', o :: acc.2)) (dec s, acc)).2) := by
  induction ops generalizing s data acc with
  | nil => exact ⟨s, rfl⟩
  | cons op ops ih =>
    obtain ⟨s1, e1, d1, w1⟩ := step_eq_model s data op hwf hinv
    obtain ⟨data1, i1⟩ := step_inv (dec s) data op hinv
    rw [← d1] at i1
    obtain ⟨s', e'⟩ := ih s1 data1 ((Model.SM3.step ttGen (dec s) op).2 :: acc) w1 i1
    refine ⟨s', ?_⟩
    simp only [List.foldlM_cons, e1, Res.bind_ok, pure_bind, List.foldl_cons]
    rw [e', d1]

/-- every history from `New()`: generated code = hand-written model, no panic -/
theorem run_eq_model (ops : List Spec.SM3.Op) :
    Model.SM3Code.run ops = .ok (Model.SM3.run ttGen ops) := by
  unfold Model.SM3Code.run Model.SM3.run
  rw [new_eq_model, Res.bind_ok]
  have hwf : WF { h := Model.SM3.iv.toArray, x := Array.replicate 64 0, nx := 0, len := 0 } :=
    ⟨by simp [Model.SM3.iv], by simp, by simp, by simp⟩
  obtain ⟨s', e⟩ := run_from_eq_model ops _ [] [] hwf (by rw [dec_new]; exact Proofs.SM3.new_inv)
  rw [e, Res.bind_ok, dec_new]
  rfl

/-- the one-shot function -/
theorem sumSM3_eq_model (data : Array UInt8) :
    Gen.SM3Code.SumSM3 data = .ok (Model.SM3.sumSM3 ttGen data.toList).toArray := by
  unfold Gen.SM3Code.SumSM3
  dsimp only
  rw [reset_eq_model _ (by simp [Gen.SM3Code.SM3.zero]), Res.bind_ok]
  have hwf : WF { Gen.SM3Code.SM3.zero with h := Model.SM3.iv.toArray, nx := 0, len := 0 } :=
    ⟨by simp [Model.SM3.iv], by simp [Gen.SM3Code.SM3.zero], by simp, by simp⟩
  have hd : dec { Gen.SM3Code.SM3.zero with h := Model.SM3.iv.toArray, nx := 0, len := 0 }
      = Model.SM3.reset Model.SM3.zero := by
    simp [dec, Model.SM3.reset, Model.SM3.zero, Gen.SM3Code.SM3.zero]
  obtain ⟨s1, e1, d1, w1⟩ := write_eq_model _ data hwf
  rw [e1, Res.bind_ok]
  have i1 : Proofs.SM3.Inv (dec s1) ([] ++ data.toList) := by
    rw [d1, hd]; exact (Proofs.SM3.write_inv Proofs.SM3.new_inv data.toList).1
  obtain ⟨s2, out2, e2, o2, _⟩ := checkSum_eq_model s1 (Array.replicate 32 (0 : UInt8)) w1
    (nx_lt_of_inv w1 i1) (by simp)
  dsimp only
  rw [e2, Res.bind_ok]
  simp only [Res.pure_eq, Model.SM3.sumSM3]
  congr 1
  apply Array.ext'
  rw [o2, d1, hd]

end SMGo.Proofs.SM3Gen
