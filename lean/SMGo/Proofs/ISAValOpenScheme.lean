import SMGo.Proofs.ISAValSealScheme
namespace SMGo.Proofs.ISAVal
open SMGo.Model.ISAVal SMGo.Model.ISA

/-! # E1 for `openAsm` -/

def openR : Routine := Gen.ListAmd64Gcm.openAsm.map decodeD

theorem known_open : Gen.ListAmd64Gcm.openAsm_chunks.all (fun c => c.all known) = true := by decide +kernel

theorem openR_ok : Routine.ofListing Gen.ListAmd64Gcm.openAsm = .ok openR := ofListing_chunks _ known_open

/-- **the regenerated listing of `openAsm` is the scheme `openCode`** (5559 instructions) -/
theorem open_scheme : openR.map erasePc = openCode :=
  eqChunks_sound _ _ (by decide +kernel : eqChunks Gen.ListAmd64Gcm.openAsm_chunks openCode = true)

def openLabels : List (String × Nat × Nat) :=
  [("prepare", 0, 0),
   ("rkArg", 18, 117),
   ("H.encrypt", 19, 122),
   ("gHashPre", 549, 3334),
   ("nonceArgs", 628, 3827),
   ("J0", 631, 3842),
   ("J0.hash", 634, 3858),
   ("J0.loopBy4", 642, 3892),
   ("J0.loopBy1", 678, 4113),
   ("J0.last", 708, 4295),
   ("J0.copy8", 713, 4323),
   ("J0.copy4", 721, 4350),
   ("J0.copy2", 729, 4376),
   ("J0.copy1", 737, 4404),
   ("J0.copyEnd", 745, 4430),
   ("J0.doneJ0", 775, 4607),
   ("J0.branch1", 814, 4841),
   ("J0.endJ0", 821, 4882),
   ("TMask.encrypt", 822, 4886),
   ("aadArgs", 1353, 8093),
   ("SPre", 1355, 8103),
   ("SPre.loopWith4", 1364, 8143),
   ("SPre.loopWith1", 1400, 8363),
   ("SPre.withRemain", 1430, 8544),
   ("SPre.copy8", 1435, 8572),
   ("SPre.copy4", 1443, 8598),
   ("SPre.copy2", 1451, 8623),
   ("SPre.copy1", 1459, 8650),
   ("SPre.copyEnd", 1467, 8675),
   ("SPre.endSPre", 1498, 8856),
   ("SMid", 1504, 8879),
   ("SMid.loop4", 1512, 8913),
   ("SMid.loop1", 1548, 9133),
   ("SMid.toRemain", 1578, 9314),
   ("SMid.copy8", 1583, 9342),
   ("SMid.copy4", 1591, 9368),
   ("SMid.copy2", 1599, 9393),
   ("SMid.copy1", 1607, 9420),
   ("SMid.copyEnd", 1615, 9445),
   ("postArgs", 1646, 9626),
   ("SPost", 1653, 9656),
   ("tag.copy8", 1700, 9942),
   ("tag.copy4", 1708, 9968),
   ("tag.copy2", 1716, 9994),
   ("tag.copy1", 1724, 10022),
   ("tag.copyEnd", 1732, 10048),
   ("cmp", 1740, 10078),
   ("cmp.fastCmp", 1742, 10092),
   ("cmp.slowCmp", 1751, 10121),
   ("cmp.cmpDone", 1760, 10149),
   ("verdict", 1775, 10193),
   ("decryptArgs", 1778, 10212),
   ("ladder", 1785, 10247),
   ("loopX16", 1802, 10346),
   ("X16Done", 2487, 14608),
   ("loopX8", 2492, 14634),
   ("X8Done", 3123, 18455),
   ("loopX4", 3128, 18481),
   ("X4Done", 3728, 22102),
   ("loopX2", 3733, 22119),
   ("X2Done", 4330, 25731),
   ("loopX1", 4335, 25748),
   ("X1Done", 4900, 29167),
   ("loopX0", 4905, 29184),
   ("X0.copyIn8", 4912, 29224),
   ("X0.copyIn4", 4920, 29250),
   ("X0.copyIn2", 4928, 29276),
   ("X0.copyIn1", 4936, 29304),
   ("X0.copyInEnd", 4944, 29330),
   ("X0.clearLoop", 5483, 32572),
   ("X0.clearEnd", 5489, 32591),
   ("X0.copyOut8", 5491, 32594),
   ("X0.copyOut4", 5499, 32621),
   ("X0.copyOut2", 5507, 32648),
   ("X0.copyOut1", 5515, 32677),
   ("X0.copyOutEnd", 5523, 32704),
   ("cryptoBlocksDone", 5555, 32889),
   ("tagUnMatch", 5557, 32891),
   ("openDone", 5558, 32900)]

theorem open_labels : labelsOk openR openLabels = true := by decide +kernel

end SMGo.Proofs.ISAVal
