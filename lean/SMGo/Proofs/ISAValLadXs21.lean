import SMGo.Proofs.ISAValLadKern12
set_option linter.unusedSimpArgs false
namespace SMGo.Proofs.ISAVal
open SMGo.Model.ISAVal SMGo.Model.GCM SMGo.Proofs.GCM SMGo.Proofs.ISATouch
open SMGo.Model.ISA (Reg Opd Instr)

def xs2Code : List DInstr :=
  [ins .VMOVDQU32 [M 10 0, R 1] 16, ins .VMOVDQU32 [M 10 16, R 2] 16, ins .VPXORD [R 1, R 9, R 9] 16, ins .VPXORD [R 2, R 8, R 8] 16,
   ins .VMOVDQU32 [R 9, M 13 0] 16, ins .VMOVDQU32 [R 8, M 13 16] 16]
def xs1Code : List DInstr :=
  [ins .VMOVDQU32 [M 10 0, R 0] 16, ins .VPXORD [R 0, R 9, R 9] 16, ins .VMOVDQU32 [R 9, M 13 0] 16]

set_option maxRecDepth 100000 in
set_option maxHeartbeats 1000000 in
theorem xs2_spec (s : State) (hG : s.gpr.length = 16) (hV : s.vec.length = 32) (Mf : List Nat → List Region) (dbase dlen : Nat)
    (bf : Buf Mf dbase dlen) (src : List Nat) (sp : Nat) (hsb : ∀ x ∈ src, x < 2 ^ 8)
    (b0 : List Nat) (hb0 : b0.length = dlen) (hm : s.mem = Mf b0) (so doff : Nat) (hsrc : SrcFrom (Mf b0) sp src so) (h10 : greg s 10 = sp + so) (h13 : greg s 13 = dbase + doff)
    (hso : so + 32 ≤ src.length) (hdo : doff + 32 ≤ dlen) (hsp : sp + src.length < 2 ^ 63) (hdb : dbase + dlen < 2 ^ 63)
    (ks0 ks1 : List Nat) (h9 : vreg s 9 < 2 ^ (8 * 16) ∧ lanes 8 16 (vreg s 9) = ks0 ∧ ks0.length = 16 ∧ ∀ x ∈ ks0, x < 2 ^ 8)
    (h8 : vreg s 8 < 2 ^ (8 * 16) ∧ lanes 8 16 (vreg s 8) = ks1 ∧ ks1.length = 16 ∧ ∀ x ∈ ks1, x < 2 ^ 8) :
    ∃ s', execList xs2Code s = .ok s' ∧
      s'.mem = Mf (spliceAt b0 doff (xorN ((src.drop (so + 0)).take 16) ks0 ++ xorN ((src.drop (so + 16)).take 16) ks1)) ∧
      vreg s' 9 = unlanes 8 (xorN ((src.drop (so + 0)).take 16) ks0) ∧ vreg s' 8 = unlanes 8 (xorN ((src.drop (so + 16)).take 16) ks1) := by
  have h16 : validVl 16 = true := by decide
  obtain ⟨gpr, vec, k, fl, mem, syms, frame⟩ := s
  simp only at hG hV hm
  obtain ⟨a0, a1, a2, a3, a4, a5, a6, a7, a8, a9, a10, a11, a12, a13, a14, a15, rfl⟩ := list16 gpr hG
  obtain ⟨b0', b1, b2, b3, b4, b5, b6, b7, b8, b9, b10, b11, b12, b13, b14, b15, b16, b17, b18, b19, b20, b21, b22, b23, b24, b25, b26, b27, b28, b29, b30, b31, rfl⟩ := list32 vec hV
  simp only [greg, List.getD_cons_succ, List.getD_cons_zero] at h10 h13
  subst h10 h13 hm
  simp only [vreg, List.getD_cons_succ, List.getD_cons_zero] at h9 h8
  let c0 := (src.drop (so + 0)).take 16
  let c1 := (src.drop (so + 16)).take 16
  have hc : ∀ a, a + 16 ≤ 32 → ((src.drop (so + a)).take 16).length = 16 ∧ ∀ x ∈ (src.drop (so + a)).take 16, x < 2 ^ 8 := by
    intro a ha
    exact ⟨by rw [List.length_take, List.length_drop]; omega, fun x hx => hsb x (List.mem_of_mem_drop (List.mem_of_mem_take hx))⟩
  have hrd : ∀ a, a + 16 ≤ 32 → readMem (Mf b0) (sp + so + a) 16 = .ok ((src.drop (so + a)).take 16) := by
    intro a ha
    rw [Nat.add_assoc]; exact hsrc (so + a) 16 (by omega) (by omega)
  have x0 := vpxord_bytes 16 c0 ks0 b9 (by decide) (hc 0 (by omega)).1 (hc 0 (by omega)).2 h9.1 h9.2.1
  have x1 := vpxord_bytes 16 c1 ks1 b8 (by decide) (hc 16 (by omega)).1 (hc 16 (by omega)).2 h8.1 h8.2.1
  let o0 := xorN c0 ks0; let o1 := xorN c1 ks1
  have l0 : o0.length = 16 := by show (xorN _ _).length = 16; rw [xorN_length, (hc 0 (by omega)).1, h9.2.2.1]; rfl
  have l1 : o1.length = 16 := by show (xorN _ _).length = 16; rw [xorN_length, (hc 16 (by omega)).1, h8.2.2.1]; rfl
  have ln0 : lanes 8 16 (unlanes 8 o0) = o0 := lanes_xorN 16 _ _ (hc 0 (by omega)).1 h9.2.2.1 (hc 0 (by omega)).2 h9.2.2.2
  have ln1 : lanes 8 16 (unlanes 8 o1) = o1 := lanes_xorN 16 _ _ (hc 16 (by omega)).1 h8.2.2.1 (hc 16 (by omega)).2 h8.2.2.2
  let m1 := spliceAt b0 doff o0
  have lm1 : m1.length = dlen := by rw [spliceAt_length _ _ _ (by omega)]; exact hb0
  apply Exists.intro
  apply And.intro
  · unfold xs2Code
    apply exec_step
    · exact execD_vmov_load (hvl := h16) (hb := by rfl) (hd := by simp)
        (hload := by rw [show (sp + so + 0 + imm64 0) % 2 ^ 64 = sp + so + 0 from ea_nat _ 0 (by omega)]; exact hrd 0 (by omega)) ..
    apply exec_step
    · exact execD_vmov_load (hvl := h16) (hb := by rfl) (hd := by simp)
        (hload := by rw [show (sp + so + 0 + imm64 16) % 2 ^ 64 = sp + so + 16 from ea_nat _ 16 (by omega)]; exact hrd 16 (by omega)) ..
    vstepv h16; vstepv h16
    simp only [List.set_cons_succ, List.set_cons_zero]
    rw [x0.2, x1.2]
    apply exec_step
    · exact execD_vmov_store (hvl := h16) (hb := by rfl) (ha := by rfl) (mem' := Mf m1)
        (hstore := by rw [show (dbase + doff + 0 + imm64 0) % 2 ^ 64 = dbase + doff + 0 from ea_nat _ 0 (by omega), ln0, Nat.add_zero]
                      exact bf.wr b0 doff o0 hb0 (by omega)) ..
    apply exec_step
    · exact execD_vmov_store (hvl := h16) (hb := by rfl) (ha := by rfl) (mem' := Mf (spliceAt m1 (doff + 16) o1))
        (hstore := by rw [show (dbase + doff + 0 + imm64 16) % 2 ^ 64 = dbase + doff + 16 from ea_nat _ 16 (by omega), ln1, Nat.add_assoc]
                      exact bf.wr m1 (doff + 16) o1 lm1 (by omega)) ..
    exact execList_nil _
  refine ⟨?_, ?_, ?_⟩
  rotate_left
  · simp only [vreg, List.getD_cons_succ, List.getD_cons_zero]
    rfl
  · simp only [vreg, List.getD_cons_succ, List.getD_cons_zero]
    rfl
  have key := spliceAt_spliceAt b0 doff o0 o1 (by omega)
  rw [l0] at key
  exact congrArg Mf key

set_option maxRecDepth 100000 in
set_option maxHeartbeats 1000000 in
theorem xs1_spec (s : State) (hG : s.gpr.length = 16) (hV : s.vec.length = 32) (Mf : List Nat → List Region) (dbase dlen : Nat)
    (bf : Buf Mf dbase dlen) (src : List Nat) (sp : Nat) (hsb : ∀ x ∈ src, x < 2 ^ 8)
    (b0 : List Nat) (hb0 : b0.length = dlen) (hm : s.mem = Mf b0) (so doff : Nat) (hsrc : SrcFrom (Mf b0) sp src so) (h10 : greg s 10 = sp + so) (h13 : greg s 13 = dbase + doff)
    (hso : so + 16 ≤ src.length) (hdo : doff + 16 ≤ dlen) (hsp : sp + src.length < 2 ^ 63) (hdb : dbase + dlen < 2 ^ 63)
    (ks0 : List Nat) (h9 : vreg s 9 < 2 ^ (8 * 16) ∧ lanes 8 16 (vreg s 9) = ks0 ∧ ks0.length = 16 ∧ ∀ x ∈ ks0, x < 2 ^ 8) :
    ∃ s', execList xs1Code s = .ok s' ∧
      s'.mem = Mf (spliceAt b0 doff (xorN ((src.drop (so + 0)).take 16) ks0)) ∧
      vreg s' 9 = unlanes 8 (xorN ((src.drop (so + 0)).take 16) ks0) := by
  have h16 : validVl 16 = true := by decide
  obtain ⟨gpr, vec, k, fl, mem, syms, frame⟩ := s
  simp only at hG hV hm
  obtain ⟨a0, a1, a2, a3, a4, a5, a6, a7, a8, a9, a10, a11, a12, a13, a14, a15, rfl⟩ := list16 gpr hG
  obtain ⟨b0', b1, b2, b3, b4, b5, b6, b7, b8, b9, b10, b11, b12, b13, b14, b15, b16, b17, b18, b19, b20, b21, b22, b23, b24, b25, b26, b27, b28, b29, b30, b31, rfl⟩ := list32 vec hV
  simp only [greg, List.getD_cons_succ, List.getD_cons_zero] at h10 h13
  subst h10 h13 hm
  simp only [vreg, List.getD_cons_succ, List.getD_cons_zero] at h9
  let c0 := (src.drop (so + 0)).take 16
  have hc0 : c0.length = 16 ∧ ∀ x ∈ c0, x < 2 ^ 8 :=
    ⟨by show ((src.drop (so + 0)).take 16).length = 16; rw [List.length_take, List.length_drop]; omega,
      fun x hx => hsb x (List.mem_of_mem_drop (List.mem_of_mem_take hx))⟩
  have hrd : readMem (Mf b0) (sp + so + 0) 16 = .ok c0 := by
    rw [Nat.add_assoc]; exact hsrc (so + 0) 16 (by omega) (by omega)
  have x0 := vpxord_bytes 16 c0 ks0 b9 (by decide) hc0.1 hc0.2 h9.1 h9.2.1
  let o0 := xorN c0 ks0
  have l0 : o0.length = 16 := by show (xorN _ _).length = 16; rw [xorN_length, hc0.1, h9.2.2.1]; rfl
  have ln0 : lanes 8 16 (unlanes 8 o0) = o0 := lanes_xorN 16 _ _ hc0.1 h9.2.2.1 hc0.2 h9.2.2.2
  apply Exists.intro
  apply And.intro
  · unfold xs1Code
    apply exec_step
    · exact execD_vmov_load (hvl := h16) (hb := by rfl) (hd := by simp)
        (hload := by rw [show (sp + so + 0 + imm64 0) % 2 ^ 64 = sp + so + 0 from ea_nat _ 0 (by omega)]; exact hrd) ..
    vstepv h16
    simp only [List.set_cons_succ, List.set_cons_zero]
    rw [x0.2]
    apply exec_step
    · exact execD_vmov_store (hvl := h16) (hb := by rfl) (ha := by rfl) (mem' := Mf (spliceAt b0 doff o0))
        (hstore := by rw [show (dbase + doff + 0 + imm64 0) % 2 ^ 64 = dbase + doff + 0 from ea_nat _ 0 (by omega), ln0, Nat.add_zero]
                      exact bf.wr b0 doff o0 hb0 (by omega)) ..
    exact execList_nil _
  refine ⟨rfl, ?_⟩
  simp only [vreg, List.getD_cons_succ, List.getD_cons_zero]
  rfl

end SMGo.Proofs.ISAVal
