import SMGo.Proofs.ISAValLadSt
set_option linter.unusedSimpArgs false
namespace SMGo.Proofs.ISAVal
open SMGo.Model.ISAVal SMGo.Model.GCM SMGo.Proofs.GCM SMGo.Proofs.ISATouch
open SMGo.Model.ISA (Reg Opd Instr)

theorem keepsM_setFlags (G V K : List Nat) (s : State) (f : Flags) : KeepsM G V K s (setFlags s f) :=
  ⟨rfl, rfl, rfl, fun _ _ => rfl, fun _ _ => rfl, fun _ _ => rfl, rfl, rfl⟩

/-- end of a class: the label `…Done`, the pointers advanced, the length reduced -/
def ladTailCode (c : Int) : List DInstr :=
  [ins .NOP [] 0, ins .ADDQ [.imm c, G 13] 0, ins .ADDQ [.imm c, G 10] 0, ins .SUBQ [.imm c, G 9] 0]

def tailKeepG' : List Nat := [0, 1, 2, 3, 4, 5, 6, 7, 8, 11, 12, 14, 15]

theorem ladTail_writes (c : Int) : writesNone (ladTailCode c) tailKeepG' (List.range 32) (List.range 8) = true := by
  simp [writesNone, ladTailCode, leaves, touchesOf, tAlu, ins, G, tailKeepG']

theorem ladTail_spec (c : Int) (n : Nat) (hc : imm64 c = n) (hn : n < 2 ^ 63) (s : State) (hG : s.gpr.length = 16) (d p l : Nat)
    (h13 : greg s 13 = d) (h10 : greg s 10 = p) (h9 : greg s 9 = l) (hd : d + n < 2 ^ 64) (hp : p + n < 2 ^ 64) (hl : n ≤ l) (hl64 : l < 2 ^ 64) :
    ∃ s', execList (ladTailCode c) s = .ok s' ∧ greg s' 13 = d + n ∧ greg s' 10 = p + n ∧ greg s' 9 = l - n ∧
      Keeps tailKeepG' (List.range 32) (List.range 8) s s' := by
  let s2 := setFlags (setGreg s 13 (addF 8 (greg s 13) (imm64 c)).1) (addF 8 (greg s 13) (imm64 c)).2
  let s3 := setFlags (setGreg s2 10 (addF 8 (greg s2 10) (imm64 c)).1) (addF 8 (greg s2 10) (imm64 c)).2
  let s4 := setFlags (setGreg s3 9 (subF 8 (greg s3 9) (imm64 c)).1) (subF 8 (greg s3 9) (imm64 c)).2
  have hG2 : s2.gpr.length = 16 := by simp [s2]; exact hG
  have hG3 : s3.gpr.length = 16 := by simp [s3]; exact hG2
  have hex : execList (ladTailCode c) s = .ok s4 := by
    unfold ladTailCode
    apply exec_step (s1 := s)
    · rfl
    apply exec_step (a_addq_imm s c 13 (by omega))
    apply exec_step (a_addq_imm s2 c 10 (by omega))
    apply exec_step (a_subq_imm s3 c 9 (by omega))
    rfl
  have e10 : greg s2 10 = p := by
    show greg (setFlags (setGreg s 13 _) _) 10 = _
    rw [greg_setFlags, greg_setGreg_ne _ _ _ _ (by decide)]; exact h10
  have e9 : greg s3 9 = l := by
    show greg (setFlags (setGreg s2 10 _) _) 9 = _
    rw [greg_setFlags, greg_setGreg_ne _ _ _ _ (by decide)]
    show greg (setFlags (setGreg s 13 _) _) 9 = _
    rw [greg_setFlags, greg_setGreg_ne _ _ _ _ (by decide)]; exact h9
  refine ⟨s4, hex, ?_, ?_, ?_, keeps_of_exec _ (ladTail_writes c) hex⟩
  · show greg (setFlags (setGreg s3 9 _) _) 13 = _
    rw [greg_setFlags, greg_setGreg_ne _ _ _ _ (by decide)]
    show greg (setFlags (setGreg s2 10 _) _) 13 = _
    rw [greg_setFlags, greg_setGreg_ne _ _ _ _ (by decide)]
    show greg (setFlags (setGreg s 13 _) _) 13 = _
    rw [greg_setFlags, greg_setGreg_eq _ _ _ (by omega), addF_fst, h13, hc]; exact Nat.mod_eq_of_lt hd
  · show greg (setFlags (setGreg s3 9 _) _) 10 = _
    rw [greg_setFlags, greg_setGreg_ne _ _ _ _ (by decide)]
    show greg (setFlags (setGreg s2 10 _) _) 10 = _
    rw [greg_setFlags, greg_setGreg_eq _ _ _ (by omega), addF_fst, e10, hc]; exact Nat.mod_eq_of_lt hp
  · show greg (setFlags (setGreg s3 9 _) _) 9 = _
    rw [greg_setFlags, greg_setGreg_eq _ _ _ (by omega), subF_fst, e9, hc]; omega


theorem x16_eq (b : Nat) : ladX16Code b =
    [ins .CMPQ [G 9, .imm 256] 0, ins .JLT [.target (b + 4387)] 0] ++ (fill16Code ++ (kernCode 64 ++ (xs16Code ++
      ([ins .CMPQ [G 0, .imm 0] 0, ins .JEQ [.target (b + 4361)] 0] ++ (hash16Code ++ (ladTailCode 256 ++
        [ins .JMP [.target (b + 99)] 0])))))) := by
  simp only [ladX16Code, fill16Code, kernCode, xs16Code, hash16Code, ghStepCode, ladTailCode, List.append_assoc, List.cons_append,
    List.nil_append]

end SMGo.Proofs.ISAVal
