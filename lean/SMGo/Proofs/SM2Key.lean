/-
  Lemmas for property C12 (and the key-generation half of C19): `TestPrivateKey`, the rejection loop
  of `GenerateKey`, `DerivePublic`, `CheckOnCurve` of the model of sm2.go against `Spec.SM2`.
  The facts about the layers below (scalar multiplication, encodings, field decoding) enter through
  `CurveFacts`; the private-key test and the loop only need `X.n = Spec.SM2.n`.  Core Lean only.
-/
import SMGo.Model.SM2Proto
import SMGo.Spec.SM2Proto
import SMGo.Proofs.UtilsCmp
import SMGo.Proofs.SM2Facts
import SMGo.Proofs.SM2Reader
namespace SMGo.Proofs.SM2Key
open SMGo SMGo.Model SMGo.Model.SM2 SMGo.Proofs.SM2Facts SMGo.Proofs.SM2Reader
open SMGo.Spec.SM2 (candidates firstValid validKey)

variable {α β : Type}

/-! ### byte strings -/

theorem ofNatBE_length (len v : Nat) : (Bytes.ofNatBE len v).length = len := by
  simp [Bytes.ofNatBE]

theorem ofNatBE_succ (len v : Nat) :
    Bytes.ofNatBE (len + 1) v = UInt8.ofNat (v / 256 ^ len % 256) :: Bytes.ofNatBE len v := by
  simp only [Bytes.ofNatBE, List.range_succ_eq_map, List.map_cons, List.map_map]
  congr 1
  apply List.map_congr_left
  intro i _
  simp only [Function.comp]
  have : len + 1 - 1 - (i + 1) = len - 1 - i := by omega
  rw [this]

/-- the value of the `len`-byte encoding is the value reduced modulo `256^len` -/
theorem toNatBE_ofNatBE_mod (len v : Nat) :
    Bytes.toNatBE (Bytes.ofNatBE len v) = v % 256 ^ len := by
  induction len with
  | zero => simp [Bytes.ofNatBE, Bytes.toNatBE, Nat.mod_one]
  | succ len ih =>
    have hb : (UInt8.ofNat (v / 256 ^ len % 256)).toNat = v / 256 ^ len % 256 := by
      rw [UInt8.toNat_ofNat']; omega
    rw [ofNatBE_succ, UtilsCmp.toNatBE_cons, ofNatBE_length, ih, hb,
      Nat.mod_pow_succ (x := v) (b := 256) (k := len), Nat.mul_comm, Nat.add_comm]

theorem toNatBE_ofNatBE (len v : Nat) (h : v < 256 ^ len) :
    Bytes.toNatBE (Bytes.ofNatBE len v) = v := by
  rw [toNatBE_ofNatBE_mod, Nat.mod_eq_of_lt h]

/-- the OR-accumulation over all bytes is zero exactly when the value is zero -/
theorem all_zero_iff (b : Bytes) : b.all (· == 0) = true ↔ Bytes.toNatBE b = 0 := by
  induction b with
  | nil => simp [Bytes.toNatBE]
  | cons a xs ih =>
    rw [UtilsCmp.toNatBE_cons, List.all_cons, Bool.and_eq_true, ih]
    have hp : 0 < 256 ^ xs.length := Nat.pow_pos (by omega)
    have ha : (a == 0) = true ↔ a.toNat = 0 := by
      rw [beq_iff_eq, ← UInt8.toNat_inj]; rfl
    rw [ha]
    constructor
    · rintro ⟨h1, h2⟩; simp [h1, h2]
    · intro h
      have h2 : Bytes.toNatBE xs = 0 := by omega
      have h1 : a.toNat * 256 ^ xs.length = 0 := by omega
      rcases Nat.mul_eq_zero.mp h1 with h | h
      · exact ⟨h, h2⟩
      · omega

/-- the 32 bytes of n - 1 (`nMinus1.Bytes()`) -/
theorem ofNatMin_nMinus1 : Bytes.ofNatMin (Spec.SM2.n - 1) = Bytes.ofNatBE 32 (Spec.SM2.n - 1) := by
  decide +kernel

theorem toNatBE_nMinus1 : Bytes.toNatBE (Bytes.ofNatBE 32 (Spec.SM2.n - 1)) = Spec.SM2.n - 1 := by
  decide +kernel

theorem nMinus1Bytes_length (X : Ctx α β) (hn : X.n = Spec.SM2.n) : (nMinus1Bytes X).length = 32 := by
  rw [nMinus1Bytes, hn, ofNatMin_nMinus1, ofNatBE_length]

theorem nMinus1Bytes_toNat (X : Ctx α β) (hn : X.n = Spec.SM2.n) :
    Bytes.toNatBE (nMinus1Bytes X) = Spec.SM2.n - 1 := by
  rw [nMinus1Bytes, hn, ofNatMin_nMinus1, toNatBE_nMinus1]

theorem validKey_iff (d : Nat) : validKey d = true ↔ 1 ≤ d ∧ d < Spec.SM2.n - 1 := by
  have h2 : 2 ≤ Spec.SM2.n := by decide
  simp only [validKey, Bool.and_eq_true, decide_eq_true_eq]
  omega

/-! ### `TestPrivateKey` -/

/-- longer than 32 bytes: the length difference (positive) -/
theorem testPrivateKey_long (X : Ctx α β) (b : Bytes) (hb : 32 < b.length) :
    testPrivateKey X b = .ok ((b.length : Int) - 32) := by
  have : (b.length : Int) - 32 > 0 := by omega
  simp only [testPrivateKey]
  rw [if_pos this]

/-- shorter than 32 bytes: 0 exactly when some byte is non-zero -/
theorem testPrivateKey_short (X : Ctx α β) (b : Bytes) (hb : b.length < 32) :
    testPrivateKey X b = .ok (if Bytes.toNatBE b = 0 then -1 else 0) := by
  have h1 : ¬ (b.length : Int) - 32 > 0 := by omega
  have h2 : (b.length : Int) - 32 < 0 := by omega
  by_cases hz : b.all (· == 0) = true
  · have := (all_zero_iff b).mp hz
    simp only [testPrivateKey]
    rw [if_neg h1, if_pos hz, if_pos this]
  · have : ¬ Bytes.toNatBE b = 0 := fun h => hz ((all_zero_iff b).mpr h)
    simp only [testPrivateKey]
    rw [if_neg h1, if_neg hz, if_pos h2, if_neg this]

/-- exactly 32 bytes: 0 exactly when the value is in [1, n-2], otherwise -1 -/
theorem testPrivateKey_32 (X : Ctx α β) (hn : X.n = Spec.SM2.n) (b : Bytes) (hb : b.length = 32) :
    testPrivateKey X b = .ok (if validKey (Bytes.toNatBE b) then 0 else -1) := by
  have h1 : ¬ (b.length : Int) - 32 > 0 := by omega
  have h2 : ¬ (b.length : Int) - 32 < 0 := by omega
  by_cases hz : b.all (· == 0) = true
  · have h0 := (all_zero_iff b).mp hz
    have hv : validKey (Bytes.toNatBE b) = false := by rw [h0]; rfl
    simp only [testPrivateKey]
    rw [if_neg h1, if_pos hz, hv]
    rfl
  · have hne : ¬ Bytes.toNatBE b = 0 := fun h => hz ((all_zero_iff b).mpr h)
    have hlen := nMinus1Bytes_length X hn
    have hcmp : Utils.constantTimeCmp (some b) (some (nMinus1Bytes X)) 32
        = .ok (Spec.Utils.lexCmp b (nMinus1Bytes X)) := by
      have := UtilsCmp.cmp_ok b (nMinus1Bytes X) 32 (by omega) (by omega)
      rw [List.take_of_length_le (by omega), List.take_of_length_le (by omega)] at this
      exact this
    have hlt := UtilsCmp.lexCmp_lt_iff_toNat b (nMinus1Bytes X) (by omega)
    rw [nMinus1Bytes_toNat X hn] at hlt
    simp only [testPrivateKey]
    rw [if_neg h1, if_neg hz, if_neg h2, hcmp]
    simp only [Outcome.bind_ok]
    by_cases hv : validKey (Bytes.toNatBE b) = true
    · have := hlt.mpr ((validKey_iff _).mp hv).2
      simp [hv, this]
    · have hv' : validKey (Bytes.toNatBE b) = false := by simpa using hv
      have : ¬ Spec.Utils.lexCmp b (nMinus1Bytes X) = -1 := by
        intro h
        exact hv ((validKey_iff _).mpr ⟨by omega, hlt.mp h⟩)
      simp [hv', this]

/-- all lengths at once -/
theorem testPrivateKey_total (X : Ctx α β) (hn : X.n = Spec.SM2.n) (b : Bytes) :
    testPrivateKey X b = .ok
      (if 32 < b.length then (b.length : Int) - 32
       else if b.length = 32 then (if validKey (Bytes.toNatBE b) then 0 else -1)
       else (if Bytes.toNatBE b = 0 then -1 else 0)) := by
  by_cases h1 : 32 < b.length
  · simp [h1, testPrivateKey_long X b h1]
  · by_cases h2 : b.length = 32
    · simp [h2, testPrivateKey_32 X hn b h2]
    · simp only [h1, h2, if_false]
      exact testPrivateKey_short X b (by omega)

/-- acceptance (result 0) of a string of any length: at most 32 bytes and value in [1, n-2] -/
theorem testPrivateKey_accepts_iff (X : Ctx α β) (hn : X.n = Spec.SM2.n) (b : Bytes) :
    testPrivateKey X b = .ok 0 ↔ b.length ≤ 32 ∧ validKey (Bytes.toNatBE b) = true := by
  rw [testPrivateKey_total X hn b]
  by_cases h1 : 32 < b.length
  · simp only [h1, if_true, Outcome.ok.injEq]
    constructor
    · intro h; omega
    · intro h; omega
  · by_cases h2 : b.length = 32
    · simp only [h2, if_true, Outcome.ok.injEq]
      by_cases hv : validKey (Bytes.toNatBE b) = true
      · simp [hv]
      · have hv' : validKey (Bytes.toNatBE b) = false := by simpa using hv
        simp [hv']
    · simp only [h1, h2, if_false, Outcome.ok.injEq]
      have hlt : b.length < 32 := by omega
      have hb := UtilsCmp.toNatBE_lt b
      have hpow : 256 ^ b.length ≤ 256 ^ 31 := Nat.pow_le_pow_right (by omega) (by omega)
      have hn1 : (256 : Nat) ^ 31 < Spec.SM2.n - 1 := by decide
      rw [validKey_iff]
      by_cases h0 : Bytes.toNatBE b = 0
      · simp [h0]
      · simp only [h0, if_false, true_iff]
        exact ⟨by omega, by omega, by omega⟩

/-! ### the first valid candidate -/

theorem firstValid_shift (l : List Bytes) (j : Nat) :
    firstValid l (j + 1) = (firstValid l j).map (fun p => (p.1, p.2 + 1)) := by
  induction l generalizing j with
  | nil => rfl
  | cons c r ih =>
    simp only [firstValid]
    split
    · rfl
    · exact ih (j + 1)

theorem firstValid_eq_none_iff (l : List Bytes) (j : Nat) :
    firstValid l j = none ↔ ∀ K ∈ l, validKey (Bytes.toNatBE K) = false := by
  induction l generalizing j with
  | nil => simp [firstValid]
  | cons c r ih =>
    simp only [firstValid]
    by_cases hv : validKey (Bytes.toNatBE c) = true
    · simp [hv]
    · have hv' : validKey (Bytes.toNatBE c) = false := by simpa using hv
      simp [hv', ih]

/-- the key found is a candidate of the stream, valid, at position `j`, and everything before it is invalid -/
theorem firstValid_some (l : List Bytes) (j0 : Nat) (d : Bytes) (j : Nat) (h : firstValid l j0 = some (d, j)) :
    j0 ≤ j ∧ l[j - j0]? = some d ∧ validKey (Bytes.toNatBE d) = true ∧
      ∀ i, i < j - j0 → ∀ K, l[i]? = some K → validKey (Bytes.toNatBE K) = false := by
  induction l generalizing j0 with
  | nil => simp [firstValid] at h
  | cons c r ih =>
    simp only [firstValid] at h
    split at h
    · rename_i hv
      simp only [Option.some.injEq, Prod.mk.injEq] at h
      obtain ⟨rfl, rfl⟩ := h
      refine ⟨Nat.le_refl _, by simp, hv, ?_⟩
      intro i hi; omega
    · rename_i hv
      obtain ⟨h1, h2, h3, h4⟩ := ih (j0 + 1) h
      have e : j - j0 = (j - (j0 + 1)) + 1 := by omega
      refine ⟨by omega, by rw [e]; simpa using h2, h3, ?_⟩
      intro i hi K hK
      cases i with
      | zero => simp at hK; subst hK; simpa using hv
      | succ i => exact h4 i (by omega) K (by simpa using hK)

theorem firstValid_mem (l : List Bytes) (j0 : Nat) (d : Bytes) (j : Nat) (h : firstValid l j0 = some (d, j)) :
    d ∈ l := by
  obtain ⟨_, h2, _, _⟩ := firstValid_some l j0 d j h
  exact List.mem_of_getElem? h2

/-! ### the rejection loop of `GenerateKey` -/

/-- one iteration: nothing to read -/
theorem genKeyLoop_none (X : Ctx α β) (f : Nat) (sc sc' : Script) (h : readFull sc 32 [] = (none, sc')) :
    genKeyLoop X (f + 1) sc = .err := by
  simp [genKeyLoop, h]

/-- one iteration: a full 32-byte draw, accepted or rejected by the value test -/
theorem genKeyLoop_some (X : Ctx α β) (hn : X.n = Spec.SM2.n) (f : Nat) (sc sc' : Script) (K : Bytes)
    (h : readFull sc 32 [] = (some K, sc')) (hK : K.length = 32) :
    genKeyLoop X (f + 1) sc =
      if validKey (Bytes.toNatBE K) then .ok (K, sc') else genKeyLoop X f sc' := by
  have ht := testPrivateKey_32 X hn K hK
  by_cases hv : validKey (Bytes.toNatBE K) = true
  · simp only [hv, if_true] at ht
    simp [genKeyLoop, h, ht, hv]
  · have hv' : validKey (Bytes.toNatBE K) = false := by simpa using hv
    simp only [hv'] at ht
    simp [genKeyLoop, h, ht, hv']

/-- the loop against the candidate list, for any fuel `f`:
    a valid candidate at index `j < f` is returned (with 32·(j+1) bytes consumed); if the first valid
    candidate has index ≥ f, or there is none before the stream fails or ends, the loop returns an error -/
theorem genKeyLoop_spec (X : Ctx α β) (hn : X.n = Spec.SM2.n) : ∀ (f : Nat) (sc : Script),
    (∀ d j, firstValid (candidates sc []) 0 = some (d, j) → j < f →
        ∃ sc', genKeyLoop X f sc = .ok (d, sc') ∧ avail sc = avail sc' + 32 * (j + 1)) ∧
    (∀ d j, firstValid (candidates sc []) 0 = some (d, j) → f ≤ j → genKeyLoop X f sc = .err) ∧
    (firstValid (candidates sc []) 0 = none → genKeyLoop X f sc = .err) := by
  intro f
  induction f with
  | zero =>
    intro sc
    refine ⟨fun d j _ h => by omega, fun _ _ _ _ => rfl, fun _ => rfl⟩
  | succ f ih =>
    intro sc
    rcases readFull_cases sc with ⟨K, sc', hread, hc, hK, hav⟩ | ⟨sc', hread, hc⟩
    · rw [genKeyLoop_some X hn f sc sc' K hread hK, hc]
      simp only [firstValid]
      by_cases hv : validKey (Bytes.toNatBE K) = true
      · simp only [hv, if_true, Option.some.injEq, Prod.mk.injEq]
        refine ⟨?_, ?_, fun h => by simp at h⟩
        · rintro d j ⟨rfl, rfl⟩ _
          exact ⟨sc', rfl, by omega⟩
        · rintro d j ⟨rfl, rfl⟩ h; omega
      · have hv' : validKey (Bytes.toNatBE K) = false := by simpa using hv
        simp only [hv', if_false, Bool.false_eq_true]
        obtain ⟨ih1, ih2, ih3⟩ := ih sc'
        rw [firstValid_shift]
        refine ⟨?_, ?_, ?_⟩
        · intro d j h hj
          cases h0 : firstValid (candidates sc' []) 0 with
          | none => simp [h0] at h
          | some p =>
            obtain ⟨d', j'⟩ := p
            simp only [h0, Option.map_some, Option.some.injEq, Prod.mk.injEq] at h
            obtain ⟨rfl, rfl⟩ := h
            obtain ⟨sc'', h1, h2⟩ := ih1 d' j' h0 (by omega)
            exact ⟨sc'', h1, by omega⟩
        · intro d j h hj
          cases h0 : firstValid (candidates sc' []) 0 with
          | none => simp [h0] at h
          | some p =>
            obtain ⟨d', j'⟩ := p
            simp only [h0, Option.map_some, Option.some.injEq, Prod.mk.injEq] at h
            obtain ⟨rfl, rfl⟩ := h
            exact ih2 d' j' h0 (by omega)
        · intro h
          cases h0 : firstValid (candidates sc' []) 0 with
          | none => exact ih3 h0
          | some p => simp [h0] at h
    · rw [genKeyLoop_none X f sc sc' hread, hc]
      simp [firstValid]

/-- the loop never panics -/
theorem genKeyLoop_ne_panic (X : Ctx α β) (hn : X.n = Spec.SM2.n) (f : Nat) (sc : Script) :
    genKeyLoop X f sc ≠ .panic := by
  obtain ⟨h1, h2, h3⟩ := genKeyLoop_spec X hn f sc
  cases h0 : firstValid (candidates sc []) 0 with
  | none => rw [h3 h0]; simp
  | some p =>
    obtain ⟨d, j⟩ := p
    by_cases hj : j < f
    · obtain ⟨sc', h, _⟩ := h1 d j h0 hj
      rw [h]; simp
    · rw [h2 d j h0 (by omega)]; simp

/-- no acceptable candidate before the stream fails or ends: an error, whatever the fuel and
    whatever the script does after its first failure -/
theorem genKeyLoop_err_of_no_valid (X : Ctx α β) (hn : X.n = Spec.SM2.n) (f : Nat) (sc : Script)
    (h : ∀ K ∈ candidates sc [], validKey (Bytes.toNatBE K) = false) : genKeyLoop X f sc = .err :=
  (genKeyLoop_spec X hn f sc).2.2 ((firstValid_eq_none_iff _ _).mpr h)

/-! ### public key of a 32-byte scalar -/

/-- the slices `pubBytes[1:33]` and `pubBytes[33:]` of a 65-byte encoding -/
theorem sec1_slices (a b : Bytes) (ha : a.length = 32) :
    (([4] ++ a ++ b).drop 1).take 32 = a ∧ ([4] ++ a ++ b).drop 33 = b := by
  constructor
  · show (a ++ b).take 32 = a
    rw [List.take_append_of_le_length (by omega), List.take_of_length_le (by omega)]
  · show (a ++ b).drop 32 = b
    rw [List.drop_append_of_le_length (by omega), List.drop_of_length_le (by omega)]
    simp

/-- `ScalarBaseMult` + `Bytes` (constant-time conversion) + the length test + the two slices, as in `DerivePublic` and the
    tail of `GenerateKey` -/
theorem publicOf (X : Ctx α β) (F : CurveFacts X) (k : Bytes) (hk : k.length = 32) :
    ∃ P, scalarBaseMult X k = .ok P ∧
      match Spec.SM2.smul (Bytes.toNatBE k) Spec.SM2.G with
      | some (x, y) =>
        (Point.bytes X.C P true).length = 65 ∧
        ((Point.bytes X.C P true).drop 1).take 32 = Bytes.ofNatBE 32 x ∧
        (Point.bytes X.C P true).drop 33 = Bytes.ofNatBE 32 y
      | none => (Point.bytes X.C P true).length ≠ 65 := by
  obtain ⟨P, hP, hrep⟩ := F.baseMult k hk
  refine ⟨P, hP, ?_⟩
  have hb := F.bytesSafe P _ hrep
  cases hQ : Spec.SM2.smul (Bytes.toNatBE k) Spec.SM2.G with
  | none => rw [hQ] at hb; rw [hb]; simp [Spec.SM2.pointBytes]
  | some q =>
    obtain ⟨x, y⟩ := q
    rw [hQ] at hb
    rw [hb]
    have hx := ofNatBE_length 32 x
    have hy := ofNatBE_length 32 y
    have sl := sec1_slices (Bytes.ofNatBE 32 x) (Bytes.ofNatBE 32 y) hx
    exact ⟨by simp [Spec.SM2.pointBytes, hx, hy], sl.1, sl.2⟩

/-- `DerivePublic` -/
theorem derivePublic_spec (X : Ctx α β) (F : CurveFacts X) (priv : Bytes) :
    derivePublic X priv =
      (match Spec.SM2.derive priv with
       | some (x, y) => .ok (x, y)
       | none => .err) := by
  by_cases hl : priv.length = 32
  · obtain ⟨P, hP, hb⟩ := publicOf X F priv hl
    simp only [derivePublic, hP, Outcome.bind_ok, Spec.SM2.derive, hl, ne_eq, not_true_eq_false, if_false]
    cases hQ : Spec.SM2.smul (Bytes.toNatBE priv) Spec.SM2.G with
    | none =>
      rw [hQ] at hb
      simp only at hb
      simp [hb]
    | some q =>
      obtain ⟨x, y⟩ := q
      rw [hQ] at hb
      obtain ⟨h1, h2, h3⟩ := hb
      simp [h1, h3]
      simpa using h2
  · simp [derivePublic, F.baseMult_len priv hl, Spec.SM2.derive, hl]

/-- the index of the first valid candidate is below the fuel `avail sc / 32 + 1` of the model -/
theorem firstValid_index_lt (sc : Script) (d : Bytes) (j : Nat)
    (h : firstValid (candidates sc []) 0 = some (d, j)) : j < avail sc / 32 + 1 := by
  obtain ⟨_, h2, _, _⟩ := firstValid_some _ 0 d j h
  have hj : j < (candidates sc []).length := by
    have := (List.getElem?_eq_some_iff.mp h2).1
    simpa using this
  have := candidates_length_le sc
  omega

/-- `GenerateKey` on a non-nil reader -/
theorem generateKey_some (X : Ctx α β) (F : CurveFacts X) (sc : Script) :
    generateKey X (some sc) =
      (match Spec.SM2.genKey (some sc) with
       | some (d, x, y, c) => .ok ((d, x, y), c)
       | none => .err) := by
  obtain ⟨h1, _, h3⟩ := genKeyLoop_spec X F.n_eq (avail sc / 32 + 1) sc
  cases h0 : firstValid (candidates sc []) 0 with
  | none => simp [generateKey, Spec.SM2.genKey, h0, h3 h0]
  | some p =>
    obtain ⟨d, j⟩ := p
    obtain ⟨sc', hloop, hav⟩ := h1 d j h0 (firstValid_index_lt sc d j h0)
    have hd : d.length = 32 := candidates_all_32 sc d (firstValid_mem _ _ _ _ h0)
    obtain ⟨P, hP, hb⟩ := publicOf X F d hd
    have hcons : avail sc - avail sc' = 32 * (j + 1) := by omega
    simp only [generateKey, hloop, Outcome.bind_ok, hP, Spec.SM2.genKey, h0]
    cases hQ : Spec.SM2.smul (Bytes.toNatBE d) Spec.SM2.G with
    | none =>
      rw [hQ] at hb
      simp only at hb
      simp [hb]
    | some q =>
      obtain ⟨x, y⟩ := q
      rw [hQ] at hb
      obtain ⟨e1, e2, e3⟩ := hb
      simp [e1, e3, hcons]
      simpa using e2

/-- `GenerateKey` returns an error when no candidate is acceptable; no hypothesis on fuel or curve -/
theorem generateKey_err_of_no_valid (X : Ctx α β) (hn : X.n = Spec.SM2.n) (sc : Script)
    (h : ∀ K ∈ candidates sc [], validKey (Bytes.toNatBE K) = false) :
    generateKey X (some sc) = .err := by
  simp [generateKey, genKeyLoop_err_of_no_valid X hn _ sc h]

/-- `GenerateKey(rand)`, nil reader included: exactly what `Spec.SM2.genKey` says; never a panic -/
theorem generateKey_spec (X : Ctx α β) (F : CurveFacts X) (sc : Option Script) :
    generateKey X sc =
      (match Spec.SM2.genKey sc with
       | some (d, x, y, c) => .ok ((d, x, y), c)
       | none => .err) := by
  cases sc with
  | none => rfl
  | some sc => exact generateKey_some X F sc

theorem generateKey_ne_panic (X : Ctx α β) (F : CurveFacts X) (sc : Option Script) :
    generateKey X sc ≠ .panic := by
  rw [generateKey_spec X F sc]
  split <;> simp

/-! ### `CheckOnCurve` -/

theorem checkOnCurve_spec (X : Ctx α β) (F : CurveFacts X) (x y : Bytes) :
    checkOnCurve X x y = Spec.SM2.onCurveBytes x y := by
  by_cases hx : x.length = 32 ∧ Bytes.toNatBE x < Spec.SM2.p
  · obtain ⟨xe, hxe⟩ := (F.fieldSetBytes x).1 hx
    by_cases hy : y.length = 32 ∧ Bytes.toNatBE y < Spec.SM2.p
    · obtain ⟨ye, hye⟩ := (F.fieldSetBytes y).1 hy
      simp only [checkOnCurve, hxe, hye, F.checkOnCurve x y xe ye hxe hye, Spec.SM2.onCurveBytes]
      simp [hx.1, hx.2, hy.1, hy.2]
    · have hye := (F.fieldSetBytes y).2 hy
      simp only [checkOnCurve, hxe, hye, Spec.SM2.onCurveBytes]
      have : ¬ (y.length = 32 ∧ Bytes.toNatBE y < Spec.SM2.p) := hy
      symm; simp only [decide_eq_false_iff_not]
      intro h; exact hy ⟨h.2.1, h.2.2.2.1⟩
  · have hxe := (F.fieldSetBytes x).2 hx
    simp only [checkOnCurve, hxe, Spec.SM2.onCurveBytes]
    symm; simp only [decide_eq_false_iff_not]
    intro h; exact hx ⟨h.1, h.2.2.1⟩

end SMGo.Proofs.SM2Key
