import SMGo.Proofs.ISAValGhashSpec
namespace SMGo.Proofs.ISAVal
open SMGo.Model.ISAVal SMGo.Model.ISA

/-- is the suffix `l` of a (byte-offset-erased) listing headed by a `mul`+`reduce` block?  The parameters are read
    off the first, fourth and last instruction and the whole block is compared with `mulRedCode` -/
def mulRedAt (l : List DInstr) : Option (Nat × Nat × Nat × Nat × Nat) :=
  match l with
  | ⟨_, .VPCLMULQDQ, [.imm 0, .reg (.vec a), .reg (.vec f), .reg (.vec 27)], vl⟩ :: _ =>
    match (l[3]?.map (·.ops)).getD [], (l[17]?.map (·.ops)).getD [] with
    | [_, _, Opd.reg (Reg.vec fs), _], [_, _, Opd.reg (Reg.vec o)] =>
      if (mulRedCode vl f fs a o).isPrefixOf l then some (vl, f, fs, a, o) else none
    | _, _ => none
  | _ => none

/-- all `mul`+`reduce` blocks of a listing, in order: (vector length, Factor, FactorS, Input, Output) -/
def scanMulRed : List DInstr → List (Nat × Nat × Nat × Nat × Nat)
  | [] => []
  | i :: t => (match mulRedAt (i :: t) with | some p => [p] | none => []) ++ scanMulRed t

/-- is the suffix headed by a `reverseBits` block?  (vector length, V, T0, T1) -/
def rbAt (l : List DInstr) : Option (Nat × Nat × Nat × Nat) :=
  match l with
  | ⟨_, .VPSRLW, [.imm 4, .reg (.vec x), .reg (.vec t0)], vl⟩ :: ⟨_, .VPANDD, [_, _, .reg (.vec t1)], _⟩ :: _ =>
    if (rbCode vl x t0 t1).isPrefixOf l then some (vl, x, t0, t1) else none
  | _ => none

def scanRb : List DInstr → List (Nat × Nat × Nat × Nat)
  | [] => []
  | i :: t => (match rbAt (i :: t) with | some p => [p] | none => []) ++ scanRb t

def erased (l : List Instr) : List DInstr := ((Routine.ofListing l).toOption.getD []).map erasePc

def countMn (mn : Mn) (l : List DInstr) : Nat := (l.filter (fun i => i.mn == mn)).length


/-- the `mul`+`reduce` blocks of `sealAsm`, in listing order -/
def sealMulRed : List (Nat × Nat × Nat × Nat × Nat) :=
  [(16, 19, 25, 19, 4), (16, 19, 25, 4, 5), (16, 19, 25, 5, 29), (64, 29, 30, 20, 14), (16, 19, 25, 20, 14),
   (16, 19, 25, 20, 14), (16, 19, 25, 20, 14), (64, 29, 30, 20, 21), (16, 19, 25, 20, 21), (16, 19, 25, 20, 21),
   (64, 29, 30, 9, 21), (64, 29, 30, 8, 21), (64, 29, 30, 7, 21), (64, 29, 30, 6, 21), (64, 29, 30, 9, 21),
   (64, 29, 30, 7, 21), (64, 29, 30, 9, 21), (16, 19, 25, 9, 21), (16, 19, 25, 8, 21), (16, 19, 25, 9, 21),
   (16, 19, 25, 9, 21), (16, 19, 25, 20, 21)]

/-- the `mul`+`reduce` blocks of `openAsm` -/
def openMulRed : List (Nat × Nat × Nat × Nat × Nat) :=
  [(16, 19, 25, 19, 4), (16, 19, 25, 4, 5), (16, 19, 25, 5, 29), (64, 29, 30, 20, 14), (16, 19, 25, 20, 14),
   (16, 19, 25, 20, 14), (16, 19, 25, 20, 14), (64, 29, 30, 20, 21), (16, 19, 25, 20, 21), (16, 19, 25, 20, 21),
   (64, 29, 30, 20, 21), (16, 19, 25, 20, 21), (16, 19, 25, 20, 21), (16, 19, 25, 20, 21), (64, 29, 30, 9, 21),
   (64, 29, 30, 8, 21), (64, 29, 30, 7, 21), (64, 29, 30, 6, 21), (64, 29, 30, 9, 21), (64, 29, 30, 7, 21),
   (64, 29, 30, 9, 21), (16, 19, 25, 9, 21), (16, 19, 25, 8, 21), (16, 19, 25, 9, 21), (16, 19, 25, 9, 21)]

/-- the `reverseBits` blocks of `sealAsm`: (vector length, V, T0, T1) -/
def sealRb : List (Nat × Nat × Nat × Nat) :=
  [(16, 19, 1, 2), (64, 20, 0, 1), (16, 20, 0, 1), (16, 20, 0, 1), (16, 20, 0, 1), (16, 14, 1, 2), (64, 20, 0, 1),
   (16, 20, 0, 1), (16, 20, 0, 1), (64, 9, 0, 1), (64, 8, 0, 1), (64, 7, 0, 1), (64, 6, 0, 1), (64, 9, 0, 1),
   (64, 7, 0, 1), (64, 9, 0, 1), (16, 9, 0, 1), (16, 8, 0, 1), (16, 9, 0, 1), (16, 9, 0, 1), (16, 20, 0, 1), (16, 21, 1, 2)]

def openRb : List (Nat × Nat × Nat × Nat) :=
  [(16, 19, 1, 2), (64, 20, 0, 1), (16, 20, 0, 1), (16, 20, 0, 1), (16, 20, 0, 1), (16, 14, 1, 2), (64, 20, 0, 1),
   (16, 20, 0, 1), (16, 20, 0, 1), (64, 20, 0, 1), (16, 20, 0, 1), (16, 20, 0, 1), (16, 20, 0, 1), (16, 21, 1, 2),
   (64, 9, 0, 1), (64, 8, 0, 1), (64, 7, 0, 1), (64, 6, 0, 1), (64, 9, 0, 1), (64, 7, 0, 1), (64, 9, 0, 1),
   (16, 9, 0, 1), (16, 8, 0, 1), (16, 9, 0, 1), (16, 9, 0, 1)]

/-- the register assignments `mulRed_spec` covers -/
def mulRedOK (p : Nat × Nat × Nat × Nat × Nat) : Bool :=
  validVl p.1 && ((p.2.1 == 19 && p.2.2.1 == 25) || (p.2.1 == 29 && p.2.2.1 == 30)) &&
    [19, 4, 5, 20, 6, 7, 8, 9].contains p.2.2.2.1 && [4, 5, 29, 14, 21].contains p.2.2.2.2

/-- the register assignments `rb_spec` covers -/
def rbOK (p : Nat × Nat × Nat × Nat) : Bool :=
  validVl p.1 && (([19, 21, 14].contains p.2.1 && p.2.2.1 == 1 && p.2.2.2 == 2) ||
    ([20, 6, 7, 8, 9].contains p.2.1 && p.2.2.1 == 0 && p.2.2.2 == 1))

/-- a hit of the scanner is an occurrence of the block -/
theorem mulRedAt_sound (l : List DInstr) (vl f fs a o : Nat) (h : mulRedAt l = some (vl, f, fs, a, o)) :
    ∃ rest, l = mulRedCode vl f fs a o ++ rest := by
  unfold mulRedAt at h
  split at h
  · split at h
    · split at h
      · rename_i hp
        simp only [Option.some.injEq, Prod.mk.injEq] at h
        obtain ⟨rfl, rfl, rfl, rfl, rfl⟩ := h
        obtain ⟨t, ht⟩ := List.isPrefixOf_iff_prefix.mp hp
        exact ⟨t, ht.symm⟩
      · simp at h
    · simp at h
  · simp at h

theorem fused_seal : (scanMulRed (erased Gen.ListAmd64Gcm.sealAsm) = sealMulRed
      ∧ countMn .VPCLMULQDQ (erased Gen.ListAmd64Gcm.sealAsm) = 6 * sealMulRed.length)
    ∧ (scanRb (erased Gen.ListAmd64Gcm.sealAsm) = sealRb
      ∧ countMn .VPSRLW (erased Gen.ListAmd64Gcm.sealAsm) = sealRb.length) := by decide +kernel
theorem fused_open : (scanMulRed (erased Gen.ListAmd64Gcm.openAsm) = openMulRed
      ∧ countMn .VPCLMULQDQ (erased Gen.ListAmd64Gcm.openAsm) = 6 * openMulRed.length)
    ∧ (scanRb (erased Gen.ListAmd64Gcm.openAsm) = openRb
      ∧ countMn .VPSRLW (erased Gen.ListAmd64Gcm.openAsm) = openRb.length) := by decide +kernel
theorem fused_ok : (sealMulRed ++ openMulRed).all mulRedOK = true ∧ (sealRb ++ openRb).all rbOK = true
    ∧ sealMulRed.length = 22 ∧ openMulRed.length = 25 ∧ sealRb.length = 22 ∧ openRb.length = 25 := by decide +kernel

/-- **the GHASH arithmetic of the fused routines consists of the blocks of `gHashBlocks`** (A4, checked by
    evaluation on the regenerated listings): `sealAsm` contains 22 and `openAsm` 25 `mul`+`reduce` blocks, instruction
    for instruction `mulRedCode` with the same temporaries (V0–V3, V13, V27, V28, constant V26) and only Factor ∈
    {(V19,V25), (V29,V30)}, Input ∈ {V19,V4,V5,V20,V6..V9}, Output ∈ {V4,V5,V29,V14,V21} varying — all of them register
    assignments covered by `mulRed_spec`; every VPCLMULQDQ of the two routines lies in one of these blocks (6 per
    block); likewise the 22 / 25 `reverseBits` blocks (`rbCode`, covered by `rb_spec`; every VPSRLW lies in one) -/
theorem ghash_blocks_fused :
    (scanMulRed (erased Gen.ListAmd64Gcm.sealAsm) = sealMulRed
      ∧ countMn .VPCLMULQDQ (erased Gen.ListAmd64Gcm.sealAsm) = 6 * sealMulRed.length)
    ∧ (scanMulRed (erased Gen.ListAmd64Gcm.openAsm) = openMulRed
      ∧ countMn .VPCLMULQDQ (erased Gen.ListAmd64Gcm.openAsm) = 6 * openMulRed.length)
    ∧ (scanRb (erased Gen.ListAmd64Gcm.sealAsm) = sealRb ∧ countMn .VPSRLW (erased Gen.ListAmd64Gcm.sealAsm) = sealRb.length)
    ∧ (scanRb (erased Gen.ListAmd64Gcm.openAsm) = openRb ∧ countMn .VPSRLW (erased Gen.ListAmd64Gcm.openAsm) = openRb.length)
    ∧ ((sealMulRed ++ openMulRed).all mulRedOK = true ∧ (sealRb ++ openRb).all rbOK = true
      ∧ sealMulRed.length = 22 ∧ openMulRed.length = 25 ∧ sealRb.length = 22 ∧ openRb.length = 25) :=
  ⟨fused_seal.1, fused_open.1, fused_seal.2, fused_open.2, fused_ok⟩

/-- the same scan on `gHashBlocks` itself: its five `mul`+`reduce` blocks and five `reverseBits` blocks -/
theorem ghash_blocks_self :
    scanMulRed (erased Gen.ListAmd64Gcm.gHashBlocks)
      = [(16, 19, 25, 19, 4), (16, 19, 25, 4, 5), (16, 19, 25, 5, 29), (64, 29, 30, 20, 21), (16, 19, 25, 20, 21)]
    ∧ scanRb (erased Gen.ListAmd64Gcm.gHashBlocks)
      = [(16, 19, 1, 2), (16, 21, 1, 2), (64, 20, 0, 1), (16, 20, 0, 1), (16, 21, 1, 2)] := by
  decide +kernel

/-- `mulRedOK` is exactly what `mulRed_spec` asks of the registers -/
theorem mulRed_spec_of_ok (vl F FS In Out : Nat) (hok : mulRedOK (vl, F, FS, In, Out) = true)
    (s : State) (hV : s.vec.length = 32)
    (hFS : ∀ l, l < vl / 16 → Model.GCM.lo64 (lane 128 l (vreg s FS))
        = Model.GCM.lo64 (lane 128 l (vreg s F)) ^^^ Model.GCM.hi64 (lane 128 l (vreg s F)))
    (hRed : ∀ l, l < vl / 16 → Model.GCM.lo64 (lane 128 l (vreg s 26)) = Model.GCM.poly) :
    ∃ s', execList (mulRedCode vl F FS In Out) s = .ok s' ∧ VecOnly Out s s' ∧ vreg s' Out < 2 ^ (8 * vl) ∧
      ∀ l, l < vl / 16 → lane 128 l (vreg s' Out) = Model.GCM.gmulR (lane 128 l (vreg s F)) (lane 128 l (vreg s In)) := by
  simp only [mulRedOK, Bool.and_eq_true, Bool.or_eq_true, beq_iff_eq, List.contains_iff_mem] at hok
  obtain ⟨⟨⟨hvl, hF⟩, hIn⟩, hOut⟩ := hok
  refine mulRed_spec vl F FS In Out hvl hF hIn ?_ s hV hFS hRed
  simp only [List.mem_cons, List.not_mem_nil, or_false] at hOut
  exact hOut

end SMGo.Proofs.ISAVal
