/-
  The SM2 curve as a Mathlib elliptic curve: `E : WeierstrassCurve.Affine (ZMod p)` with
  a₁ = a₂ = a₃ = 0, a₄ = a (= −3), a₆ = b, and the correspondence between the executable affine
  group law of `Spec.SM2` (`add`, `neg`, `smul` on `Option (Nat × Nat)`) and Mathlib's group
  `E.Point`:  `toPoint (add P Q) = toPoint P + toPoint Q`, `toPoint (smul k P) = k • toPoint P`,
  `[n]G = 0` and `addOrderOf G = n`.  Foundations for C01–C03, C12–C16.
-/
import SMGo.Proofs.Prime
import Mathlib.AlgebraicGeometry.EllipticCurve.Affine.Point
import Mathlib.GroupTheory.OrderOfElement
import Mathlib.Tactic.LinearCombination
import Mathlib.Tactic.FieldSimp

namespace SMGo.Proofs.CurveGroup
open SMGo.Spec.SM2 SMGo.Proofs.ModArith SMGo.Proofs.Prime
open WeierstrassCurve WeierstrassCurve.Affine

/-- the base field of SM2 -/
abbrev Fp : Type := ZMod p

/-- the SM2 curve y² = x³ + a·x + b over F_p -/
def E : WeierstrassCurve.Affine Fp := ⟨0, 0, 0, (a : Fp), (b : Fp)⟩

@[simp] theorem E_a₁ : E.a₁ = 0 := rfl
@[simp] theorem E_a₂ : E.a₂ = 0 := rfl
@[simp] theorem E_a₃ : E.a₃ = 0 := rfl
@[simp] theorem E_a₄ : E.a₄ = (a : Fp) := rfl
@[simp] theorem E_a₆ : E.a₆ = (b : Fp) := rfl

theorem p_pos : 0 < p := by decide
theorem two_lt_p : 2 < p := by decide

/-- a = −3 in F_p -/
theorem a_cast : (a : Fp) = -3 := by
  have h : a + 3 = p := by decide
  have h2 : ((a + 3 : Nat) : Fp) = 0 := by rw [h]; exact ZMod.natCast_self p
  push_cast at h2
  linear_combination h2

theorem E_a₄' : E.a₄ = -3 := a_cast

/-! ### casts `Nat → F_p` -/

theorem cast_p_sub {x : Nat} (h : x ≤ p) : ((p - x : Nat) : Fp) = -(x : Fp) := by
  rw [Nat.cast_sub h, ZMod.natCast_self, zero_sub]

theorem cast_inj {x y : Nat} (hx : x < p) (hy : y < p) : (x : Fp) = (y : Fp) ↔ x = y := by
  rw [ZMod.natCast_eq_natCast_iff', Nat.mod_eq_of_lt hx, Nat.mod_eq_of_lt hy]

theorem cast_eq_zero_iff_mod (x : Nat) : (x : Fp) = 0 ↔ x % p = 0 := by
  rw [ZMod.natCast_eq_zero_iff, Nat.dvd_iff_mod_eq_zero]

theorem invMod_cast_p (x : Nat) : (invMod x p : Fp) = (x : Fp)⁻¹ := invMod_cast two_lt_p x

/-! ### the curve equation and nonsingularity -/

theorem equation_iff_E (x y : Fp) : E.Equation x y ↔ y ^ 2 = x ^ 3 + (a : Fp) * x + (b : Fp) := by
  rw [Affine.equation_iff]
  simp

theorem onCurve_iff (x y : Nat) : onCurve x y = true ↔ E.Equation (x : Fp) (y : Fp) := by
  unfold onCurve
  rw [beq_iff_eq, ← ZMod.natCast_eq_natCast_iff', equation_iff_E]
  push_cast [ZMod.natCast_mod]
  constructor <;> intro h <;> linear_combination h

/-- the discriminant −16(4a³ + 27b²) is nonzero mod p -/
theorem E_Δ_ne_zero : E.Δ ≠ 0 := by
  have h : E.Δ = -((64 * a ^ 3 + 432 * b ^ 2 : Nat) : Fp) := by
    simp only [WeierstrassCurve.Δ, WeierstrassCurve.b₂, WeierstrassCurve.b₄, WeierstrassCurve.b₆,
      WeierstrassCurve.b₈, E_a₁, E_a₂, E_a₃, E_a₄, E_a₆]
    push_cast
    ring
  rw [h, neg_ne_zero, Ne, cast_eq_zero_iff_mod]
  decide

theorem nonsingular_of_equation {x y : Fp} (h : E.Equation x y) : E.Nonsingular x y :=
  (Affine.equation_iff_nonsingular_of_Δ_ne_zero E_Δ_ne_zero).mp h

theorem nonsingular_of_onCurve {x y : Nat} (h : onCurve x y = true) :
    E.Nonsingular (x : Fp) (y : Fp) :=
  nonsingular_of_equation ((onCurve_iff x y).mp h)

instance : E.IsElliptic := ⟨isUnit_iff_ne_zero.mpr E_Δ_ne_zero⟩

/-! ### the map from spec points to Mathlib points -/

/-- a spec point is valid when it is the point at infinity or a reduced pair on the curve -/
def Valid : Spec.SM2.Point → Prop
  | none => True
  | some (x, y) => x < p ∧ y < p ∧ onCurve x y = true

instance : DecidablePred Valid := fun P =>
  match P with
  | none => isTrue trivial
  | some (x, y) => inferInstanceAs (Decidable (x < p ∧ y < p ∧ onCurve x y = true))

/-- the Mathlib point of a spec point (0 for pairs off the curve) -/
def toPoint : Spec.SM2.Point → E.Point
  | none => 0
  | some (x, y) =>
    if h : onCurve x y = true then Point.some (x : Fp) (y : Fp) (nonsingular_of_onCurve h) else 0

@[simp] theorem toPoint_none : toPoint none = 0 := rfl

theorem toPoint_some {x y : Nat} (h : onCurve x y = true) :
    toPoint (some (x, y)) = Point.some (x : Fp) (y : Fp) (nonsingular_of_onCurve h) := by
  simp only [toPoint, dif_pos h]

theorem some_congr {x y x' y' : Fp} (h : E.Nonsingular x y) (h' : E.Nonsingular x' y')
    (hx : x = x') (hy : y = y') : Point.some x y h = Point.some x' y' h' := by
  subst hx; subst hy; rfl

theorem valid_none : Valid none := trivial

theorem valid_some {x y : Nat} : Valid (some (x, y)) ↔ x < p ∧ y < p ∧ onCurve x y = true :=
  Iff.rfl

/-- `toPoint` is injective on valid points -/
theorem toPoint_injective {P Q : Spec.SM2.Point} (hP : Valid P) (hQ : Valid Q)
    (h : toPoint P = toPoint Q) : P = Q := by
  rcases P with _ | ⟨x1, y1⟩ <;> rcases Q with _ | ⟨x2, y2⟩
  · rfl
  · rw [toPoint_some hQ.2.2] at h
    exact absurd h.symm (Point.some_ne_zero _)
  · rw [toPoint_some hP.2.2] at h
    exact absurd h (Point.some_ne_zero _)
  · rw [toPoint_some hP.2.2, toPoint_some hQ.2.2, Point.some.injEq] at h
    rw [(cast_inj hP.1 hQ.1).mp h.1, (cast_inj hP.2.1 hQ.2.1).mp h.2]

theorem toPoint_eq_zero_iff {P : Spec.SM2.Point} (hP : Valid P) : toPoint P = 0 ↔ P = none := by
  constructor
  · intro h; exact toPoint_injective hP valid_none h
  · rintro rfl; rfl

/-! ### Mathlib's formulas on E -/

theorem negY_E (x y : Fp) : E.negY x y = -y := by simp [Affine.negY]

theorem addX_E (x₁ x₂ ℓ : Fp) : E.addX x₁ x₂ ℓ = ℓ ^ 2 - x₁ - x₂ := by simp [Affine.addX]

theorem addY_E (x₁ x₂ y₁ ℓ : Fp) :
    E.addY x₁ x₂ y₁ ℓ = ℓ * (x₁ - (ℓ ^ 2 - x₁ - x₂)) - y₁ := by
  simp only [Affine.addY, Affine.negAddY, negY_E, addX_E]
  ring

theorem slope_E_of_X_ne {x₁ x₂ y₁ y₂ : Fp} (hx : x₁ ≠ x₂) :
    E.slope x₁ x₂ y₁ y₂ = (y₂ - y₁) * (x₂ - x₁)⁻¹ := by
  rw [Affine.slope_of_X_ne hx, ← neg_sub y₂ y₁, ← neg_sub x₂ x₁, neg_div_neg_eq, div_eq_mul_inv]

theorem slope_E_of_Y_ne {x₁ x₂ y₁ y₂ : Fp} (hx : x₁ = x₂) (hy : y₁ ≠ -y₂) :
    E.slope x₁ x₂ y₁ y₂ = (3 * x₁ * x₁ + (a : Fp)) * (2 * y₁)⁻¹ := by
  rw [Affine.slope_of_Y_ne hx (by rwa [negY_E]), negY_E, div_eq_mul_inv]
  simp only [E_a₁, E_a₂, E_a₄]
  have h2 : y₁ - -y₁ = 2 * y₁ := by ring
  rw [h2]
  ring

/-! ### negation -/

theorem neg_valid {P : Spec.SM2.Point} (hP : Valid P) : Valid (neg P) := by
  rcases P with _ | ⟨x, y⟩
  · exact trivial
  · obtain ⟨hx, hy, hc⟩ := hP
    refine ⟨hx, Nat.mod_lt _ p_pos, ?_⟩
    rw [onCurve_iff] at hc ⊢
    rw [ZMod.natCast_mod, cast_p_sub hy.le, ← negY_E (x : Fp)]
    exact (Affine.equation_neg ..).mpr hc

theorem toPoint_neg {P : Spec.SM2.Point} (hP : Valid P) : toPoint (neg P) = -toPoint P := by
  rcases P with _ | ⟨x, y⟩
  · rfl
  · have hv := neg_valid hP
    obtain ⟨hx, hy, hc⟩ := hP
    show toPoint (some (x, (p - y) % p)) = _
    rw [toPoint_some hv.2.2, toPoint_some hc, Point.neg_some]
    apply some_congr
    · rfl
    · rw [ZMod.natCast_mod, cast_p_sub hy.le, negY_E]

/-! ### addition -/

/-- tangent slope as computed by `Spec.SM2.add` -/
def lamD (x1 y1 : Nat) : Nat := (3 * x1 * x1 + a) % p * invMod (2 * y1) p % p
/-- chord slope as computed by `Spec.SM2.add` -/
def lamA (x1 y1 x2 y2 : Nat) : Nat := (y2 + (p - y1)) % p * invMod ((x2 + (p - x1)) % p) p % p
/-- the y-coordinate of the sum as computed by `Spec.SM2.add` -/
def yOut (l x1 y1 x3 : Nat) : Nat := (l * ((x1 + (p - x3)) % p) + (p - y1)) % p

theorem add_none_left (Q : Spec.SM2.Point) : add none Q = Q := by
  rcases Q with _ | ⟨x, y⟩ <;> rfl

theorem add_none_right (P : Spec.SM2.Point) : add P none = P := by
  rcases P with _ | ⟨x, y⟩ <;> rfl

theorem add_inverse {x1 y1 x2 y2 : Nat} (hx : x1 = x2) (hy : (y1 + y2) % p = 0) :
    add (some (x1, y1)) (some (x2, y2)) = none := by
  simp only [add, if_pos hx, if_pos hy]

theorem add_double {x1 y1 x2 y2 : Nat} (hx : x1 = x2) (hy : ¬ (y1 + y2) % p = 0) :
    add (some (x1, y1)) (some (x2, y2)) =
      some ((lamD x1 y1 * lamD x1 y1 + 2 * (p - x1)) % p,
        yOut (lamD x1 y1) x1 y1 ((lamD x1 y1 * lamD x1 y1 + 2 * (p - x1)) % p)) := by
  simp only [add, if_pos hx, if_neg hy, lamD, yOut]

theorem add_chord {x1 y1 x2 y2 : Nat} (hx : ¬ x1 = x2) :
    add (some (x1, y1)) (some (x2, y2)) =
      some ((lamA x1 y1 x2 y2 * lamA x1 y1 x2 y2 + (p - x1) + (p - x2)) % p,
        yOut (lamA x1 y1 x2 y2) x1 y1
          ((lamA x1 y1 x2 y2 * lamA x1 y1 x2 y2 + (p - x1) + (p - x2)) % p)) := by
  simp only [add, if_neg hx, lamA, yOut]

theorem lamD_cast (x1 y1 : Nat) :
    (lamD x1 y1 : Fp) = (3 * (x1 : Fp) * x1 + (a : Fp)) * (2 * (y1 : Fp))⁻¹ := by
  unfold lamD
  push_cast [ZMod.natCast_mod, invMod_cast_p]
  rfl

theorem lamA_cast {x1 y1 : Nat} (x2 y2 : Nat) (hx1 : x1 < p) (hy1 : y1 < p) :
    (lamA x1 y1 x2 y2 : Fp) = ((y2 : Fp) - y1) * ((x2 : Fp) - x1)⁻¹ := by
  unfold lamA
  push_cast [ZMod.natCast_mod, invMod_cast_p, cast_p_sub hx1.le, cast_p_sub hy1.le]
  simp only [sub_eq_add_neg]

theorem yOut_cast {l x1 y1 x3 : Nat} (x₂ : Fp) (hy1 : y1 < p) (hx3 : x3 < p)
    (h3 : (x3 : Fp) = (l : Fp) ^ 2 - x1 - x₂) :
    (yOut l x1 y1 x3 : Fp) = E.addY (x1 : Fp) x₂ (y1 : Fp) (l : Fp) := by
  unfold yOut
  rw [addY_E, ← h3]
  push_cast [ZMod.natCast_mod, cast_p_sub hx3.le, cast_p_sub hy1.le]
  ring

/-- the spec's affine addition of two finite valid points, against Mathlib's formulas -/
theorem add_some_some_cases {x1 y1 x2 y2 : Nat} (hP : Valid (some (x1, y1)))
    (hQ : Valid (some (x2, y2))) :
    (add (some (x1, y1)) (some (x2, y2)) = none ∧
      (x1 : Fp) = (x2 : Fp) ∧ (y1 : Fp) = E.negY (x2 : Fp) (y2 : Fp)) ∨
    (∃ x3 y3, add (some (x1, y1)) (some (x2, y2)) = some (x3, y3) ∧ x3 < p ∧ y3 < p ∧
      ¬((x1 : Fp) = (x2 : Fp) ∧ (y1 : Fp) = E.negY (x2 : Fp) (y2 : Fp)) ∧
      (x3 : Fp) = E.addX (x1 : Fp) (x2 : Fp) (E.slope (x1 : Fp) (x2 : Fp) (y1 : Fp) (y2 : Fp)) ∧
      (y3 : Fp) = E.addY (x1 : Fp) (x2 : Fp) (y1 : Fp)
        (E.slope (x1 : Fp) (x2 : Fp) (y1 : Fp) (y2 : Fp))) := by
  obtain ⟨hx1, hy1, hc1⟩ := hP
  obtain ⟨hx2, hy2, hc2⟩ := hQ
  by_cases hx : x1 = x2
  · by_cases hy : (y1 + y2) % p = 0
    · left
      refine ⟨add_inverse hx hy, by rw [hx], ?_⟩
      rw [negY_E]
      have := (cast_eq_zero_iff_mod (y1 + y2)).mpr hy
      push_cast at this
      linear_combination this
    · right
      have hyne : (y1 : Fp) ≠ -(y2 : Fp) := by
        intro h
        apply hy
        rw [← cast_eq_zero_iff_mod]
        push_cast
        linear_combination h
      have hxc : (x1 : Fp) = (x2 : Fp) := by rw [hx]
      have hX : (((lamD x1 y1 * lamD x1 y1 + 2 * (p - x1)) % p : Nat) : Fp)
          = (lamD x1 y1 : Fp) ^ 2 - x1 - x2 := by
        rw [← hxc]
        push_cast [ZMod.natCast_mod, cast_p_sub hx1.le]
        ring
      have hsl : E.slope (x1 : Fp) (x2 : Fp) (y1 : Fp) (y2 : Fp) = (lamD x1 y1 : Fp) := by
        rw [slope_E_of_Y_ne hxc hyne, lamD_cast]
      refine ⟨_, _, add_double hx hy, Nat.mod_lt _ p_pos, Nat.mod_lt _ p_pos, ?_, ?_, ?_⟩
      · rintro ⟨_, h⟩; rw [negY_E] at h; exact hyne h
      · rw [addX_E, hsl, hX]
      · rw [hsl]; exact yOut_cast _ hy1 (Nat.mod_lt _ p_pos) hX
  · right
    have hxc : (x1 : Fp) ≠ (x2 : Fp) := fun h => hx ((cast_inj hx1 hx2).mp h)
    have hX : (((lamA x1 y1 x2 y2 * lamA x1 y1 x2 y2 + (p - x1) + (p - x2)) % p : Nat) : Fp)
        = (lamA x1 y1 x2 y2 : Fp) ^ 2 - x1 - x2 := by
      push_cast [ZMod.natCast_mod, cast_p_sub hx1.le, cast_p_sub hx2.le]
      ring
    have hsl : E.slope (x1 : Fp) (x2 : Fp) (y1 : Fp) (y2 : Fp) = (lamA x1 y1 x2 y2 : Fp) := by
      rw [slope_E_of_X_ne hxc, lamA_cast x2 y2 hx1 hy1]
    refine ⟨_, _, add_chord hx, Nat.mod_lt _ p_pos, Nat.mod_lt _ p_pos, ?_, ?_, ?_⟩
    · rintro ⟨h, _⟩; exact hxc h
    · rw [addX_E, hsl, hX]
    · rw [hsl]; exact yOut_cast _ hy1 (Nat.mod_lt _ p_pos) hX

/-- the spec's addition preserves validity -/
theorem add_valid {P Q : Spec.SM2.Point} (hP : Valid P) (hQ : Valid Q) : Valid (add P Q) := by
  rcases P with _ | ⟨x1, y1⟩
  · rwa [add_none_left]
  rcases Q with _ | ⟨x2, y2⟩
  · rwa [add_none_right]
  rcases add_some_some_cases hP hQ with ⟨h, _⟩ | ⟨x3, y3, h, hx3, hy3, hxy, hX, hY⟩
  · rw [h]; exact trivial
  · rw [h]
    refine ⟨hx3, hy3, ?_⟩
    rw [onCurve_iff, hX, hY]
    exact Affine.equation_add ((onCurve_iff _ _).mp hP.2.2) ((onCurve_iff _ _).mp hQ.2.2) hxy

/-- the spec's addition is Mathlib's group law -/
theorem toPoint_add {P Q : Spec.SM2.Point} (hP : Valid P) (hQ : Valid Q) :
    toPoint (add P Q) = toPoint P + toPoint Q := by
  rcases P with _ | ⟨x1, y1⟩
  · rw [add_none_left, toPoint_none, zero_add]
  rcases Q with _ | ⟨x2, y2⟩
  · rw [add_none_right, toPoint_none, add_zero]
  have hv := add_valid hP hQ
  rcases add_some_some_cases hP hQ with ⟨h, hx, hy⟩ | ⟨x3, y3, h, hx3, hy3, hxy, hX, hY⟩
  · rw [h, toPoint_none, toPoint_some hP.2.2, toPoint_some hQ.2.2, Point.add_of_Y_eq hx hy]
  · rw [h] at hv ⊢
    rw [toPoint_some hv.2.2, toPoint_some hP.2.2, toPoint_some hQ.2.2, Point.add_some hxy]
    exact some_congr _ _ hX hY

/-! ### scalar multiplication -/

/-- one iteration of `Spec.SM2.smul`: double, then add on a set bit (most significant first) -/
def smulStep (k : Nat) (P : Spec.SM2.Point) (acc : Spec.SM2.Point) (i : Nat) : Spec.SM2.Point :=
  if (k >>> (k.log2 - i)) % 2 = 1 then add (add acc acc) P else add acc acc

theorem smul_eq_foldl (k : Nat) (P : Spec.SM2.Point) :
    smul k P = (List.range (k.log2 + 1)).foldl (smulStep k P) none := rfl

/-- after j iterations the accumulator is [k >> (bits − j)]P -/
theorem smul_prefix (k : Nat) {P : Spec.SM2.Point} (hP : Valid P) : ∀ j, j ≤ k.log2 + 1 →
    Valid ((List.range j).foldl (smulStep k P) none) ∧
    toPoint ((List.range j).foldl (smulStep k P) none) = (k >>> (k.log2 + 1 - j)) • toPoint P := by
  intro j
  induction j with
  | zero =>
    intro _
    refine ⟨trivial, ?_⟩
    have h0 : k >>> (k.log2 + 1 - 0) = 0 := by
      rw [Nat.sub_zero, Nat.shiftRight_eq_div_pow]
      exact Nat.div_eq_of_lt Nat.lt_log2_self
    rw [h0, zero_nsmul]
    rfl
  | succ j ih =>
    intro hj
    obtain ⟨hv, ht⟩ := ih (by omega)
    rw [List.range_succ, List.foldl_append, List.foldl_cons, List.foldl_nil]
    generalize (List.range j).foldl (smulStep k P) none = acc at hv ht ⊢
    have e1 : k.log2 + 1 - (j + 1) = k.log2 - j := by omega
    have e2 : k.log2 + 1 - j = (k.log2 - j) + 1 := by omega
    rw [e1]
    rw [e2, Nat.shiftRight_succ] at ht
    unfold smulStep
    generalize k >>> (k.log2 - j) = m at ht ⊢
    have hvd : Valid (add acc acc) := add_valid hv hv
    have htd : toPoint (add acc acc) = (2 * (m / 2)) • toPoint P := by
      rw [toPoint_add hv hv, ht, two_mul, add_nsmul]
    rcases Nat.mod_two_eq_zero_or_one m with h | h
    · rw [h, if_neg (by decide)]
      refine ⟨hvd, ?_⟩
      rw [htd]
      congr 1
      omega
    · rw [h, if_pos rfl]
      refine ⟨add_valid hvd hP, ?_⟩
      rw [toPoint_add hvd hP, htd]
      conv_rhs => rw [← Nat.div_add_mod m 2, h, add_nsmul, one_nsmul]

/-- double-and-add preserves validity -/
theorem smul_valid (k : Nat) {P : Spec.SM2.Point} (hP : Valid P) : Valid (smul k P) := by
  rw [smul_eq_foldl]
  exact (smul_prefix k hP (k.log2 + 1) (Nat.le_refl _)).1

/-- the spec's double-and-add is scalar multiplication in Mathlib's group -/
theorem toPoint_smul (k : Nat) {P : Spec.SM2.Point} (hP : Valid P) :
    toPoint (smul k P) = k • toPoint P := by
  rw [smul_eq_foldl, (smul_prefix k hP (k.log2 + 1) (Nat.le_refl _)).2, Nat.sub_self,
    Nat.shiftRight_zero]

/-! ### the base point -/

theorem G_valid : Valid G := by decide

theorem smul_n_G : smul n G = none := by decide +kernel

/-- [n]G = O -/
theorem n_smul_G : n • toPoint G = 0 := by
  rw [← toPoint_smul n G_valid, smul_n_G, toPoint_none]

theorem toPoint_G_ne_zero : toPoint G ≠ 0 := by
  intro h
  have := (toPoint_eq_zero_iff G_valid).mp h
  exact absurd this (by decide)

/-- the base point has order n -/
theorem order_G : addOrderOf (toPoint G) = n :=
  addOrderOf_eq_prime n_smul_G toPoint_G_ne_zero

/-! ### group laws transported back to the spec (valid points) -/

theorem add_comm' {P Q : Spec.SM2.Point} (hP : Valid P) (hQ : Valid Q) : add P Q = add Q P :=
  toPoint_injective (add_valid hP hQ) (add_valid hQ hP) <| by
    rw [toPoint_add hP hQ, toPoint_add hQ hP, add_comm]

theorem add_assoc' {P Q R : Spec.SM2.Point} (hP : Valid P) (hQ : Valid Q) (hR : Valid R) :
    add (add P Q) R = add P (add Q R) :=
  toPoint_injective (add_valid (add_valid hP hQ) hR) (add_valid hP (add_valid hQ hR)) <| by
    rw [toPoint_add (add_valid hP hQ) hR, toPoint_add hP hQ, toPoint_add hP (add_valid hQ hR),
      toPoint_add hQ hR, add_assoc]

theorem add_neg_self {P : Spec.SM2.Point} (hP : Valid P) : add P (neg P) = none :=
  toPoint_injective (add_valid hP (neg_valid hP)) valid_none <| by
    rw [toPoint_add hP (neg_valid hP), toPoint_neg hP, add_neg_cancel, toPoint_none]

theorem smul_add {P : Spec.SM2.Point} (hP : Valid P) (j k : Nat) :
    smul (j + k) P = add (smul j P) (smul k P) :=
  toPoint_injective (smul_valid _ hP) (add_valid (smul_valid _ hP) (smul_valid _ hP)) <| by
    rw [toPoint_add (smul_valid _ hP) (smul_valid _ hP), toPoint_smul _ hP, toPoint_smul _ hP,
      toPoint_smul _ hP, add_nsmul]

theorem smul_smul {P : Spec.SM2.Point} (hP : Valid P) (j k : Nat) :
    smul j (smul k P) = smul (j * k) P :=
  toPoint_injective (smul_valid _ (smul_valid _ hP)) (smul_valid _ hP) <| by
    rw [toPoint_smul _ (smul_valid _ hP), toPoint_smul _ hP, toPoint_smul _ hP, mul_comm,
      mul_nsmul]

/-- [k]G = O exactly for the multiples of n -/
theorem smul_G_eq_none_iff (k : Nat) : smul k G = none ↔ n ∣ k := by
  rw [← toPoint_eq_zero_iff (smul_valid k G_valid), toPoint_smul k G_valid,
    ← addOrderOf_dvd_iff_nsmul_eq_zero, order_G]

/-- scalars of G only matter modulo n -/
theorem smul_G_mod (k : Nat) : smul (k % n) G = smul k G :=
  toPoint_injective (smul_valid _ G_valid) (smul_valid _ G_valid) <| by
    rw [toPoint_smul _ G_valid, toPoint_smul _ G_valid, ← order_G, mod_addOrderOf_nsmul]

end SMGo.Proofs.CurveGroup
