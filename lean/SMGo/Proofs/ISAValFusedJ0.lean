import SMGo.Proofs.ISAValFusedGhPre
import SMGo.Proofs.ISAValReach
set_option linter.unusedSimpArgs false
namespace SMGo.Proofs.ISAVal
open SMGo.Model.ISAVal SMGo.Model.GCM SMGo.Proofs.GCM SMGo.Proofs.ISATouch
open SMGo.Model.ISA (Reg Opd Instr)

section steps
variable (g v k : List Nat) (fl : Flags) (mem : List Region) (syms frame : List (String × Nat))

theorem execD_vmovreg (mn : Mn) (vl a d av : Nat) (hmn : mn = .VMOVAPD ∨ mn = .VMOVDQA64) (hvl : validVl vl = true)
    (ha : v[a]? = some av) (hd : d < v.length) :
    execD ⟨g, v, k, fl, mem, syms, frame⟩ (ins mn [R a, R d] vl)
      = .ok ⟨g, v.set d (av % 2 ^ (8 * vl)), k, fl, mem, syms, frame⟩ := by
  rcases hmn with rfl | rfl <;> simp [execD, ins, R, exVmovReg, hvl, getV, setV, ha, hd]

theorem execD_psllo (imm : Int) (d old : Nat) (hold : v[d]? = some old) (hd : d < v.length) :
    execD ⟨g, v, k, fl, mem, syms, frame⟩ (ins .PSLLO [.imm imm, R d] 16)
      = .ok ⟨g, v.set d (old - old % 2 ^ 128 + ((old % 2 ^ 128) <<< (8 * (imm64 imm % 256))) % 2 ^ 128), k, fl, mem, syms, frame⟩ := by
  have hold' : v[d] = old := by rw [List.getElem?_eq_getElem hd] at hold; exact Option.some.inj hold
  simp [execD, ins, R, exPsllo, getV, setV, hold', hd]

/-- the masked load with mask 0b0111 at vector length 16: three dwords from memory, the fourth kept -/
theorem execD_vmov_load_k7 (b kk d gb old : Nat) (disp : Int) (w0 w1 w2 : List Nat)
    (hb : g[b]? = some gb) (hk : k[kk]? = some 7) (hold : v[d]? = some old) (hd : d < v.length)
    (h0 : readMem mem ((gb + 0 + imm64 disp) % 2 ^ 64 + 4 * 0) 4 = .ok w0)
    (h1 : readMem mem ((gb + 0 + imm64 disp) % 2 ^ 64 + 4 * 1) 4 = .ok w1)
    (h2 : readMem mem ((gb + 0 + imm64 disp) % 2 ^ 64 + 4 * 2) 4 = .ok w2) :
    execD ⟨g, v, k, fl, mem, syms, frame⟩ (ins .VMOVDQU32 [M b disp, K kk, R d] 16)
      = .ok ⟨g, v.set d (unlanes 32 [unlanes 8 w0, unlanes 8 w1, unlanes 8 w2, lane 32 3 old]), k, fl, mem, syms, frame⟩ := by
  have hold' : v[d] = old := by rw [List.getElem?_eq_getElem hd] at hold; exact Option.some.inj hold
  simp only [Nat.add_zero, Nat.mul_zero] at h0 h1 h2
  have h0' : readMem mem ((gb + imm64 disp) % 18446744073709551616) 4 = .ok w0 := h0
  simp [execD, ins, R, M, K, exVmovdqu32, validVl, effAddr, getG, getK, getV, setV, hb, hk, hold', hd, loadMasked, loadLE,
    List.range, List.range.loop, h0', h1, h2]

end steps

/-- `makeCounterNew` followed by `VMOVAPD VxJ0, VxState1` -/
def mkCtrCode : List DInstr :=
  [ins .MOVQ [.imm 7, G 9] 0, ins .KMOVW [G 9, K 1] 0, ins .VPXORD [R 14, R 14, R 14] 16,
   ins .VMOVDQU32 [M 12 0, K 1, R 14] 16, ins .VMOVAPD [R 16, R 0] 16, ins .PSLLO [.imm 3, R 0] 16,
   ins .VPADDD [R 14, R 0, R 14] 16, ins .VMOVAPD [R 14, R 6] 16, ins .NOP [] 0]

theorem j0_tail : (j0Code.drop 183).take mkCtrCode.length = mkCtrCode := by decide +kernel
theorem j0_len : j0Code.length = 192 := by decide +kernel


theorem list12 (l : List Nat) (h : l.length = 12) : ∃ n0 n1 n2 n3 n4 n5 n6 n7 n8 n9 n10 n11, l = [n0, n1, n2, n3, n4, n5, n6, n7, n8, n9, n10, n11] := by
  match l, h with
  | [n0, n1, n2, n3, n4, n5, n6, n7, n8, n9, n10, n11], _ => exact ⟨n0, n1, n2, n3, n4, n5, n6, n7, n8, n9, n10, n11, rfl⟩

/-- `Counter_Add1` moved to an X register and shifted left by three bytes: 1 in the last byte -/
def CTR1 : Nat :=
  ADD1v % 2 ^ (8 * 16) - ADD1v % 2 ^ (8 * 16) % 2 ^ 128 + ((ADD1v % 2 ^ (8 * 16) % 2 ^ 128) <<< (8 * (imm64 3 % 256))) % 2 ^ 128

theorem ctr1_lanes : lane 32 0 CTR1 = 0 ∧ lane 32 1 CTR1 = 0 ∧ lane 32 2 CTR1 = 0 ∧ lane 32 3 CTR1 = 16777216 := by decide +kernel

theorem u8_4_lt (a b c d : Nat) (ha : a < 256) (hb : b < 256) (hc : c < 256) (hd : d < 256) : unlanes 8 [a, b, c, d] < 2 ^ 32 := by
  simp only [unlanes_cons, unlanes_nil]; omega

/-- the pre-counter block of a 12-byte nonce, as the VPADDD of `makeCounterNew` produces it -/
theorem j0_12_value (n0 n1 n2 n3 n4 n5 n6 n7 n8 n9 n10 n11 z : Nat)
    (hb : ∀ x ∈ [n0, n1, n2, n3, n4, n5, n6, n7, n8, n9, n10, n11], x < 2 ^ 8) (hz : lane 32 3 z = 0) :
    map2 32 (16 / 4) (fun x y => (y + x) % 2 ^ 32)
        (unlanes 32 [unlanes 8 [n0, n1, n2, n3], unlanes 8 [n4, n5, n6, n7], unlanes 8 [n8, n9, n10, n11], lane 32 3 z]) CTR1
      = unlanes 8 [n0, n1, n2, n3, n4, n5, n6, n7, n8, n9, n10, n11, 0, 0, 0, 1] := by
  have h := fun x hx => hb x hx
  simp only [List.mem_cons, List.not_mem_nil, or_false] at h
  have l0 := u8_4_lt n0 n1 n2 n3 (h n0 (by simp)) (h n1 (by simp)) (h n2 (by simp)) (h n3 (by simp))
  have l1 := u8_4_lt n4 n5 n6 n7 (h n4 (by simp)) (h n5 (by simp)) (h n6 (by simp)) (h n7 (by simp))
  have l2 := u8_4_lt n8 n9 n10 n11 (h n8 (by simp)) (h n9 (by simp)) (h n10 (by simp)) (h n11 (by simp))
  have hX : ∀ x ∈ [unlanes 8 [n0, n1, n2, n3], unlanes 8 [n4, n5, n6, n7], unlanes 8 [n8, n9, n10, n11], lane 32 3 z], x < 2 ^ 32 := by
    intro x hx
    simp only [List.mem_cons, List.not_mem_nil, or_false] at hx
    rcases hx with rfl | rfl | rfl | rfl
    · exact l0
    · exact l1
    · exact l2
    · exact lane_lt _ _ _
  have hB : ∀ x ∈ [n0, n1, n2, n3, n4, n5, n6, n7, n8, n9, n10, n11, 0, 0, 0, 1], x < 2 ^ 8 := by
    intro x hx
    have hx' : x ∈ [n0, n1, n2, n3, n4, n5, n6, n7, n8, n9, n10, n11] ++ [0, 0, 0, 1] := hx
    rw [List.mem_append] at hx'
    rcases hx' with h1 | h1
    · exact hb x h1
    · simp only [List.mem_cons, List.not_mem_nil, or_false] at h1
      rcases h1 with rfl | rfl | rfl | rfl <;> decide
  apply eq_of_lanes 32 4
  · exact map2_lt 32 4 _ _ _ (fun _ _ _ _ => Nat.mod_lt _ (by decide))
  · have := unlanes_lt 8 _ hB
    simpa using this
  · intro i hi
    rw [lane_map2 32 4 i _ _ _ hi (fun _ _ _ _ => Nat.mod_lt _ (by decide)), lane_unlanes 32 _ hX i (by simpa using hi),
      laneJ_unlanes 32 8 4 i (by rfl) _ hB (by simp; omega)]
    have hc : i = 0 ∨ i = 1 ∨ i = 2 ∨ i = 3 := by omega
    rcases hc with rfl | rfl | rfl | rfl
    · simp only [ctr1_lanes.1, List.getElem_cons_zero, Nat.zero_add, Nat.mul_zero, List.drop_zero, List.take_succ_cons, List.take_zero]
      exact Nat.mod_eq_of_lt l0
    · simp only [ctr1_lanes.2.1, List.getElem_cons_succ, List.getElem_cons_zero, Nat.zero_add, Nat.mul_one, List.drop_succ_cons,
        List.drop_zero, List.take_succ_cons, List.take_zero]
      exact Nat.mod_eq_of_lt l1
    · simp only [ctr1_lanes.2.2.1, List.getElem_cons_succ, List.getElem_cons_zero, Nat.zero_add, Nat.reduceMul, List.drop_succ_cons,
        List.drop_zero, List.take_succ_cons, List.take_zero]
      exact Nat.mod_eq_of_lt l2
    · simp only [ctr1_lanes.2.2.2, List.getElem_cons_succ, List.getElem_cons_zero, hz, Nat.reduceMul, List.drop_succ_cons,
        List.drop_zero, List.take_succ_cons, List.take_zero]
      decide

set_option maxRecDepth 100000 in
/-- **`makeCounterNew`**: J0 = nonce ‖ 0x00000001 for a 12-byte nonce, in VxJ0 and VxState1 -/
theorem mkCtr_spec (s : State) (hG : s.gpr.length = 16) (hV : s.vec.length = 32) (hK : s.kreg.length = 8)
    (h16 : vreg s 16 = ADD1v) (nonce : List Nat) (hn : nonce.length = 12) (hnb : ∀ x ∈ nonce, x < 2 ^ 8)
    (np : Nat) (hnp : greg s 12 = np) (hnpl : np < 2 ^ 63)
    (hrd : ∀ j, j < 3 → readMem s.mem (np + 4 * j) 4 = .ok ((nonce.drop (4 * j)).take 4)) :
    ∃ s', execList mkCtrCode s = .ok s' ∧ vreg s' 14 = unlanes 8 (nonce ++ [0, 0, 0, 1]) ∧ vreg s' 6 = unlanes 8 (nonce ++ [0, 0, 0, 1]) := by
  obtain ⟨n0, n1, n2, n3, n4, n5, n6, n7, n8, n9, n10, n11, rfl⟩ := list12 nonce hn
  obtain ⟨gpr, vec, k, fl, mem, syms, frame⟩ := s
  simp only at hG hV hK hrd
  obtain ⟨a0, a1, a2, a3, a4, a5, a6, a7, a8, a9, a10, a11, a12, a13, a14, a15, rfl⟩ := list16 gpr hG
  obtain ⟨b0, b1, b2, b3, b4, b5, b6, b7, b8, b9, b10, b11, b12, b13, b14, b15, b16, b17, b18, b19, b20, b21, b22, b23, b24, b25, b26, b27, b28, b29, b30, b31, rfl⟩ := list32 vec hV
  obtain ⟨k0, k1, k2, k3, k4, k5, k6, k7, rfl⟩ := list8 k hK
  simp only [vreg, greg, List.getD_cons_succ, List.getD_cons_zero] at h16 hnp
  subst h16 hnp
  have ea : (a12 + 0 + imm64 0) % 2 ^ 64 = a12 := by rw [show imm64 0 = 0 from by decide +kernel]; omega
  have r0 := hrd 0 (by decide); have r1 := hrd 1 (by decide); have r2 := hrd 2 (by decide)
  simp only [Nat.mul_zero, Nat.mul_one, Nat.reduceMul, List.drop_zero, List.drop_succ_cons, List.take_succ_cons, List.take_zero] at r0 r1 r2
  have hval := j0_12_value n0 n1 n2 n3 n4 n5 n6 n7 n8 n9 n10 n11 (map2 32 (16 / 4) (fun x y => y ^^^ x) b14 b14) hnb
    (by rw [zero_xor]; rfl)
  apply Exists.intro
  apply And.intro
  · unfold mkCtrCode
    apply exec_step
    · exact execD_movq_imm (hd := by simp) ..
    apply exec_step
    · exact execD_kmovw (ha := by rfl) (hd := by simp) ..
    apply exec_step
    · exact execD_vec3 (hmn := by rfl) (hvl := by rfl) (ha := by rfl) (hb := by rfl) (hd := by simp) (hr := by rfl) ..
    apply exec_step
    · exact execD_vmov_load_k7 (hb := by rfl) (hk := by rfl) (hold := by rfl) (hd := by simp)
        (h0 := by rw [ea]; exact r0) (h1 := by rw [ea]; exact r1) (h2 := by rw [ea]; exact r2) ..
    apply exec_step
    · exact execD_vmovreg (hmn := Or.inl rfl) (hvl := by rfl) (ha := by rfl) (hd := by simp) ..
    apply exec_step
    · exact execD_psllo (hold := by rfl) (hd := by simp) ..
    apply exec_step
    · exact execD_vec3 (hmn := by rfl) (hvl := by rfl) (ha := by rfl) (hb := by rfl) (hd := by simp) (hr := by rfl) ..
    apply exec_step
    · exact execD_vmovreg (hmn := Or.inl rfl) (hvl := by rfl) (ha := by rfl) (hd := by simp) ..
    apply exec_step
    · rfl
    exact execList_nil _
  · simp only [List.set_cons_succ, List.set_cons_zero, vreg, List.getD_cons_succ, List.getD_cons_zero, List.cons_append, List.nil_append]
    refine ⟨hval, ?_⟩
    show map2 32 (16 / 4) (fun x y => (y + x) % 2 ^ 32) _ CTR1 % 2 ^ (8 * 16) = _
    rw [hval]
    apply Nat.mod_eq_of_lt
    have := unlanes_lt 8 [n0, n1, n2, n3, n4, n5, n6, n7, n8, n9, n10, n11, 0, 0, 0, 1] (by
      intro x hx
      have hx' : x ∈ [n0, n1, n2, n3, n4, n5, n6, n7, n8, n9, n10, n11] ++ [0, 0, 0, 1] := hx
      rw [List.mem_append] at hx'
      rcases hx' with h1 | h1
      · exact hnb x h1
      · simp only [List.mem_cons, List.not_mem_nil, or_false] at h1
        rcases h1 with rfl | rfl | rfl | rfl <;> decide)
    simpa using this

end SMGo.Proofs.ISAVal
