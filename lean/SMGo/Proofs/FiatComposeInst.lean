/-
  Gap X1, part 4: the instance.  `ctxFiat` (generated Fiat functions on limbs) and `ctx` (`montOps`,
  residues) are related contexts:
    * `frel_p`, `frel_n` — the C16 refinement theorems (`Proofs/FiatRefine.lean`, `FiatInst.lean`)
      packaged as `FRel`;
    * `prel` — the point contexts (the coefficient `b` in Montgomery form on limbs is `sm2ToMontgomery`
      of the limbs of `b`);
    * every entry of the generated comb tables 6-3-14 (+ remainder) is a canonical limb list (kernel
      evaluation of a Boolean check).
  Core Lean only.
-/
import SMGo.Proofs.FiatComposeProto
set_option linter.unusedVariables false
namespace SMGo.Proofs.FiatCompose
open SMGo SMGo.Model SMGo.Model.Field SMGo.Proofs.Fiat
open SMGo.Model.SM2 (fiatP fiatN Fp Fn ctx ctxFiat pointCtx pointCtxFiat)

/-- the three-clause statements of `FiatInst` as a relation of outcomes -/
theorem orel_of_cases {m : Nat} {x : Outcome (List Nat)} {y : Outcome Nat}
    (h : (∀ v, y = .ok v → ∃ l, x = .ok l ∧ Canon m l ∧ eval l = v) ∧ (y = .err → x = .err) ∧
      (y = .panic → x = .panic)) : ORel (RelF m) x y := by
  obtain ⟨h1, h2, h3⟩ := h
  cases y with
  | ok v => obtain ⟨l, hl, hc, he⟩ := h1 v rfl; rw [hl]; exact ⟨hc, he⟩
  | err => rw [h2 rfl]; exact trivial
  | panic => rw [h3 rfl]; exact trivial

/-- the generated functions modulo p refine `Fp = montOps pParams` -/
theorem frel_p : FRel Spec.SM2.p fiatP Fp where
  modulus := rfl
  zero := ⟨FiatRefine.canon_zero_p, rfl⟩
  setOne := ⟨FiatSmallP.setOne_spec.1, FiatRefine.setOne_refines⟩
  add := by
    rintro a b x y ⟨ha, rfl⟩ ⟨hb, rfl⟩
    exact ⟨(FiatSmallP.add_spec a b ha hb).1, FiatRefine.add_refines a b ha hb⟩
  sub := by
    rintro a b x y ⟨ha, rfl⟩ ⟨hb, rfl⟩
    exact ⟨(FiatSmallP.sub_spec a b ha hb).1, FiatRefine.sub_refines a b ha hb⟩
  mul := by
    rintro a b x y ⟨ha, rfl⟩ ⟨hb, rfl⟩
    exact ⟨(FiatMulP.mul_spec a b ha hb).1, FiatRefine.mul_refines a b ha hb⟩
  opp := by
    rintro a x ⟨ha, rfl⟩
    exact ⟨(FiatSmallP.opp_spec a ha).1, FiatRefine.opp_refines a ha⟩
  square := by
    rintro a x ⟨ha, rfl⟩
    exact ⟨(FiatMulP.square_spec a ha).1, FiatRefine.square_refines a ha⟩
  bytes := by
    rintro a x ⟨ha, rfl⟩
    exact FiatInst.bytes_fiatP a ha.limbs4
  setBytes := fun v => orel_of_cases (FiatInst.setBytes_fiatP v)
  scalarSetBytes := fun v => orel_of_cases (FiatInst.setBytes_fiatP v)
  invert := by
    rintro a x ⟨ha, rfl⟩
    exact FiatInst.invert_fiatP a ha
  raw := by
    rintro a x ⟨ha, rfl⟩
    exact ⟨(FiatRefine.raw_eval a ha.limbs4).symm, ha⟩
  ofRaw := fun r hr => ⟨hr, rfl⟩

/-- the generated functions modulo n refine `Fn = montOps nParams` -/
theorem frel_n : FRel Spec.SM2.n fiatN Fn where
  modulus := rfl
  zero := ⟨FiatRefine.canon_zero_n, rfl⟩
  setOne := ⟨FiatSmallN.setOne_spec.1, FiatRefine.scalarSetOne_refines⟩
  add := by
    rintro a b x y ⟨ha, rfl⟩ ⟨hb, rfl⟩
    exact ⟨(FiatSmallN.add_spec a b ha hb).1, FiatRefine.scalarAdd_refines a b ha hb⟩
  sub := by
    rintro a b x y ⟨ha, rfl⟩ ⟨hb, rfl⟩
    exact ⟨(FiatSmallN.sub_spec a b ha hb).1, FiatRefine.scalarSub_refines a b ha hb⟩
  mul := by
    rintro a b x y ⟨ha, rfl⟩ ⟨hb, rfl⟩
    exact ⟨(FiatMulN.mul_spec a b ha hb).1, FiatRefine.scalarMul_refines a b ha hb⟩
  opp := by
    rintro a x ⟨ha, rfl⟩
    exact ⟨(FiatSmallN.opp_spec a ha).1, FiatRefine.scalarOpp_refines a ha⟩
  square := by
    rintro a x ⟨ha, rfl⟩
    exact ⟨(FiatMulN.square_spec a ha).1, FiatRefine.scalarSquare_refines a ha⟩
  bytes := by
    rintro a x ⟨ha, rfl⟩
    exact FiatInst.bytes_fiatN a ha.limbs4
  setBytes := fun v => orel_of_cases (FiatInst.setBytes_fiatN v)
  scalarSetBytes := fun v => orel_of_cases (FiatInst.setBytes_fiatN v)
  invert := by
    rintro a x ⟨ha, rfl⟩
    exact FiatInst.invert_fiatN a ha
  raw := by
    rintro a x ⟨ha, rfl⟩
    exact ⟨(FiatRefine.raw_eval a ha.limbs4).symm, ha⟩
  ofRaw := fun r hr => ⟨hr, rfl⟩

/-! ### the curve coefficient -/

theorem param_B_lt : Gen.SM2Params.param_B < 2 ^ 256 := by decide

/-- `bLimbs` is a canonical limb list of value `pointCtx.b` (b in Montgomery form) -/
theorem b_rel : RelF Spec.SM2.p SM2.bLimbs pointCtx.b := by
  have hl : Limbs4 (natToLimbs Gen.SM2Params.param_B) :=
    ⟨FiatWrappers.natToLimbs_length _, FiatWrappers.natToLimbs_lt _⟩
  obtain ⟨hc, he⟩ := FiatMontP.toMontgomery_spec' _ hl
  refine ⟨hc, ?_⟩
  have hr : eval (natToLimbs Gen.SM2Params.param_B) = Gen.SM2Params.param_B :=
    FiatWrappers.limbs_roundtrip _ param_B_lt
  unfold SM2.bLimbs
  rw [FiatRefine.toMontgomery_refines _ hl, hr]
  rfl

/-- the point contexts -/
theorem prel : PRel Spec.SM2.p pointCtxFiat pointCtx where
  F := frel_p
  b := b_rel
  addProg := rfl
  addOut := rfl
  dblProg := rfl
  dblOut := rfl

/-! ### the tables -/

/-- Boolean form of `Canon` -/
def canonB (m : Nat) (l : List Nat) : Bool :=
  l.length == 4 && l.all (fun v => decide (v < 2 ^ 64)) && decide (limbsToNat l < m)

theorem canonB_sound {m : Nat} {l : List Nat} (h : canonB m l = true) : Canon m l := by
  unfold canonB at h
  simp only [Bool.and_eq_true, beq_iff_eq, List.all_eq_true, decide_eq_true_eq] at h
  exact ⟨h.1.1, h.1.2, h.2⟩

def tableOKB (m : Nat) (t : Point.Table) : Bool := t.all (fun c => c.all (canonB m))

theorem tableOKB_sound {m : Nat} {t : Point.Table} (h : tableOKB m t = true) : TableOK m t := by
  unfold tableOKB at h
  simp only [List.all_eq_true] at h
  exact fun c hc e he => canonB_sound (h c hc e he)

set_option maxRecDepth 100000 in
theorem first_check :
    Gen.SM2Tables.sm2Precomputed_6_3_14.all (tableOKB Spec.SM2.p) = true := by decide +kernel

set_option maxRecDepth 100000 in
theorem second_check : tableOKB Spec.SM2.p Gen.SM2Tables.sm2Precomputed_6_3_14_Remainder = true := by
  decide +kernel

set_option maxRecDepth 100000 in
theorem second_len : (Gen.SM2Tables.sm2Precomputed_6_3_14_Remainder.getD 0 []).length ≤ 255 := by
  decide +kernel

theorem firstOK : ∀ t ∈ Gen.SM2Tables.sm2Precomputed_6_3_14, TableOK Spec.SM2.p t := by
  have h := first_check
  rw [List.all_eq_true] at h
  exact fun t ht => tableOKB_sound (h t ht)

/-! ### the contexts -/

/-- **`ctxFiat` and `ctx` are related contexts** -/
theorem ctxRel : CtxRel Spec.SM2.p Spec.SM2.n ctxFiat ctx where
  C := prel
  S := frel_n
  first := rfl
  second := rfl
  n := rfl
  zBytes := rfl
  tt := rfl
  firstOK := firstOK
  secondOK := tableOKB_sound second_check
  secondLen := second_len

end SMGo.Proofs.FiatCompose

#print axioms SMGo.Proofs.FiatCompose.frel_p
#print axioms SMGo.Proofs.FiatCompose.frel_n
#print axioms SMGo.Proofs.FiatCompose.ctxRel
