/-
  Gap X1, part 2: simulation lemmas for the multiplication schedules of `Model/Curve.lean`
  (`scalarBaseMult`, `scalarMult`, `scalarMixedMult`), generic in the point operations: two `GOps`
  records whose operations preserve a relation `R` (`GRel`) produce `R`-related outcomes on the same
  scalars and the same tables of canonical entries.  `pointOps_rel`: the point operations of two related
  point contexts are such a pair.  Core Lean only.
-/
import SMGo.Proofs.FiatComposePoint
set_option linter.unusedVariables false
namespace SMGo.Proofs.FiatCompose
open SMGo SMGo.Model SMGo.Model.Field SMGo.Proofs.Fiat
open SMGo.Model.Point (Pt)
open SMGo.Model.Curve (GOps)

/-- two records of point operations preserving the relation `R`; the table look-ups are required only
    on tables of canonical entries (`TableOK m`) of at most 255 entries, `fromXY` on canonical limbs -/
structure GRel {Γ₁ Γ₂ : Type} (m : Nat) (R : Γ₁ → Γ₂ → Prop) (G1 : GOps Γ₁) (G2 : GOps Γ₂) : Prop where
  infinity : R G1.infinity G2.infinity
  add : ∀ a b c d, R a b → R c d → R (G1.add a c) (G2.add b d)
  double : ∀ a b, R a b → R (G1.double a) (G2.double b)
  negate : ∀ a b, R a b → R (G1.negate a) (G2.negate b)
  selectXY : ∀ t w bits, TableOK m t → w ≤ 255 → ORel R (G1.selectXY t w bits) (G2.selectXY t w bits)
  selectXYZ : ∀ t w bits, TableOK m t → w ≤ 255 → ORel R (G1.selectXYZ t w bits) (G2.selectXYZ t w bits)
  fromXY : ∀ x y, Canon m x → Canon m y → R (G1.fromXY x y) (G2.fromXY x y)
  transform : ∀ l1 l2, All2 R l1 l2 →
    G1.transform l1 = G2.transform l2 ∧ TableOK m (G1.transform l1)

/-- loop states (accumulator, skip flag) -/
def StRel {Γ₁ Γ₂ : Type} (R : Γ₁ → Γ₂ → Prop) (a : Γ₁ × Bool) (b : Γ₂ × Bool) : Prop :=
  R a.1 b.1 ∧ a.2 = b.2

/-- the point operations of two related point contexts -/
theorem pointOps_rel {m : Nat} {CL : Point.Ctx (List Nat)} {CN : Point.Ctx Nat} (h : PRel m CL CN) :
    GRel m (RelPt m) (Curve.pointOps CL) (Curve.pointOps CN) where
  infinity := infinity_rel h
  add := fun a b c d h1 h2 => add_rel h h1 h2
  double := fun a b h1 => double_rel h h1
  negate := fun a b h1 => negate_rel h h1
  selectXY := fun t w bits ht hw => multiSelect_rel h (infinity_rel h) t ht false w bits hw
  selectXYZ := fun t w bits ht hw => multiSelect_rel h (infinity_rel h) t ht true w bits hw
  fromXY := fun x y hx hy => fromXY_rel h hx hy
  transform := fun l1 l2 hl => transform_rel h hl

section curve
variable {Γ₁ Γ₂ : Type} {m : Nat} {R : Γ₁ → Γ₂ → Prop} {G1 : GOps Γ₁} {G2 : GOps Γ₂}

theorem combInner_rel (h : GRel m R G1 G2) (k : Bytes) (first : List Curve.Table)
    (hf : ∀ t ∈ first, TableOK m t) (window sub it rem i : Nat) (hw : 2 ^ window - 1 ≤ 255)
    (st1 : Γ₁ × Bool) (st2 : Γ₂ × Bool) (hs : StRel R st1 st2) :
    ORel (StRel R) (Curve.combInner G1 k first window sub it rem i st1)
      (Curve.combInner G2 k first window sub it rem i st2) := by
  unfold Curve.combInner
  refine foldlM_rel (StRel R) _ _ _ (fun s1 s2 j _ hs => ?_) st1 st2 hs
  obtain ⟨r1, k1⟩ := s1
  obtain ⟨r2, k2⟩ := s2
  obtain ⟨hr, hk⟩ := hs
  dsimp only at hr hk ⊢
  subst hk
  refine ORel.bind (ORel.refl _) (fun bits _ hb => ?_)
  subst hb
  refine ORel.bind (h.selectXY _ _ _ (tablesOK_getD hf j) hw) (fun t1 t2 ht => ?_)
  cases k1
  · exact ⟨h.add _ _ _ _ hr ht, rfl⟩
  · exact ⟨ht, rfl⟩

/-- the comb for the base point (any window-subtables-iterations-remainder scheme) -/
theorem scalarBaseMult_rel (h : GRel m R G1 G2) (k : Bytes) (first : List Curve.Table)
    (second : Curve.Table) (window sub it rem : Nat) (hf : ∀ t ∈ first, TableOK m t)
    (hs : TableOK m second) (hl : (second.getD 0 []).length ≤ 255) :
    ORel R (Curve.scalarBaseMult G1 k first second window sub it rem)
      (Curve.scalarBaseMult G2 k first second window sub it rem) := by
  unfold Curve.scalarBaseMult
  by_cases h1 : window > 8 ∨ rem > 4
  · rw [if_pos h1, if_pos h1]; exact trivial
  rw [if_neg h1, if_neg h1]
  by_cases h2 : window * sub * it + rem ≠ 256
  · rw [if_pos h2, if_pos h2]; exact trivial
  rw [if_neg h2, if_neg h2]
  by_cases h3 : ((first.getD 0 []).getD 0 []).length ≠ 2 ^ window - 1
  · rw [if_pos h3, if_pos h3]; exact trivial
  rw [if_neg h3, if_neg h3]
  by_cases h4 : k.length ≠ 32
  · rw [if_pos h4, if_pos h4]; exact trivial
  rw [if_neg h4, if_neg h4]
  have hw : 2 ^ window - 1 ≤ 255 := by
    have : 2 ^ window ≤ 2 ^ 8 := Nat.pow_le_pow_right (by decide) (by omega)
    omega
  refine ORel.bind (R := StRel R) ?_ (fun a b hab => ?_)
  · refine foldlM_rel (StRel R) _ _ _ (fun s1 s2 ii _ hs => ?_) _ _ ⟨h.infinity, rfl⟩
    apply combInner_rel h k first hf window sub it rem _ hw
    obtain ⟨r1, k1⟩ := s1
    obtain ⟨r2, k2⟩ := s2
    obtain ⟨hr, hk⟩ := hs
    dsimp only at hr hk ⊢
    subst hk
    cases k1
    · exact ⟨h.double _ _ hr, rfl⟩
    · exact ⟨hr, rfl⟩
  · obtain ⟨r1, k1⟩ := a
    obtain ⟨r2, k2⟩ := b
    obtain ⟨hr, hk⟩ := hab
    dsimp only at hr hk ⊢
    by_cases h5 : rem ≥ 1
    · rw [if_pos h5, if_pos h5]
      refine ORel.bind (ORel.refl _) (fun bits _ hb => ?_)
      subst hb
      refine ORel.bind (h.selectXY _ _ _ hs hl) (fun t1 t2 ht => ?_)
      exact h.add _ _ _ _ hr ht
    · rw [if_neg h5, if_neg h5]; exact hr

theorem double4_rel (h : GRel m R G1 G2) {a : Γ₁} {b : Γ₂} (hab : R a b) :
    R (Curve.double4 G1 a) (Curve.double4 G2 b) :=
  h.double _ _ (h.double _ _ (h.double _ _ (h.double _ _ hab)))

/-- `ScalarMult`: fixed 4-bit windows over a table built from the (related) input points -/
theorem scalarMult_rel (h : GRel m R G1 G2) {P : Γ₁} {Q : Γ₂} (hPQ : R P Q) (scalar : Bytes) :
    ORel R (Curve.scalarMult G1 P scalar) (Curve.scalarMult G2 Q scalar) := by
  unfold Curve.scalarMult
  have hpre : All2 R
      ((List.range 13).foldl (fun (l : List Γ₁) _ => l ++ [G1.add (l.getLastD P) P]) [P, G1.double P])
      ((List.range 13).foldl (fun (l : List Γ₂) _ => l ++ [G2.add (l.getLastD Q) Q]) [Q, G2.double Q]) := by
    refine foldl_rel (All2 R) _ _ _ (fun l1 l2 _ hl => ?_) _ _
      (.cons hPQ (.cons (h.double _ _ hPQ) .nil))
    exact hl.append (.cons (h.add _ _ _ _ (hl.getLastD hPQ) hPQ) .nil)
  obtain ⟨ht, hok⟩ := h.transform _ _ hpre
  dsimp only
  rw [ht] at hok ⊢
  refine ORel.bind (R := StRel R) ?_ (fun a b hab => ?_)
  · refine foldlM_rel (StRel R) _ _ _ (fun s1 s2 bb _ hs => ?_) _ _ ⟨h.infinity, rfl⟩
    obtain ⟨r1, k1⟩ := s1
    obtain ⟨r2, k2⟩ := s2
    obtain ⟨hr, hk⟩ := hs
    dsimp only at hr hk ⊢
    subst hk
    have hr' : R (if (!k1) = true then Curve.double4 G1 r1 else r1)
        (if (!k1) = true then Curve.double4 G2 r2 else r2) := by
      cases k1
      · exact double4_rel h hr
      · exact hr
    refine ORel.bind (h.selectXYZ _ _ _ hok (by decide)) (fun t1 t2 ht1 => ?_)
    refine ORel.bind (h.selectXYZ _ _ _ hok (by decide)) (fun u1 u2 hu => ?_)
    exact ⟨h.add _ _ _ _ (double4_rel h (h.add _ _ _ _ hr' ht1)) hu, rfl⟩
  · obtain ⟨r1, k1⟩ := a
    obtain ⟨r2, k2⟩ := b
    exact hab.1

/-- one iteration of the main loop of `ScalarMixedMult_Unsafe` -/
theorem mixedStep_rel (h : GRel m R G1 G2) (g : Bytes) (first : List Curve.Table)
    (hf : ∀ t ∈ first, TableOK m t) {pre1 : List Γ₁} {pre2 : List Γ₂} (hpre : All2 R pre1 pre2)
    (naf : List Int) (i : Nat) (st1 : Γ₁ × Bool) (st2 : Γ₂ × Bool) (hs : StRel R st1 st2) :
    ORel (StRel R) (Curve.mixedStep G1 g first pre1 naf st1 i)
      (Curve.mixedStep G2 g first pre2 naf st2 i) := by
  unfold Curve.mixedStep
  obtain ⟨r1, k1⟩ := st1
  obtain ⟨r2, k2⟩ := st2
  obtain ⟨hr, hk⟩ := hs
  dsimp only at hr hk ⊢
  subst hk
  have hr' : R (if (!k1) = true then G1.double r1 else r1) (if (!k1) = true then G2.double r2 else r2) := by
    cases k1
    · exact h.double _ _ hr
    · exact hr
  have tail : ∀ (x1 : Γ₁ × Bool) (x2 : Γ₂ × Bool), StRel R x1 x2 →
      ORel (StRel R)
        (Outcome.idx naf i >>= fun d =>
          if d = 0 then pure (x1.fst, x1.snd)
          else if d > 0 then
            Outcome.idx pre1 ((d.toNat - 1) / 2) >>= fun tmp =>
              if x1.snd = true then pure (tmp, false) else pure (G1.add x1.fst tmp, false)
          else
            ((Outcome.idx pre1 (((-d).toNat - 1) / 2)).bind fun q => Outcome.ok (G1.negate q)) >>= fun tmp =>
              if x1.snd = true then pure (tmp, false) else pure (G1.add x1.fst tmp, false))
        (Outcome.idx naf i >>= fun d =>
          if d = 0 then pure (x2.fst, x2.snd)
          else if d > 0 then
            Outcome.idx pre2 ((d.toNat - 1) / 2) >>= fun tmp =>
              if x2.snd = true then pure (tmp, false) else pure (G2.add x2.fst tmp, false)
          else
            ((Outcome.idx pre2 (((-d).toNat - 1) / 2)).bind fun q => Outcome.ok (G2.negate q)) >>= fun tmp =>
              if x2.snd = true then pure (tmp, false) else pure (G2.add x2.fst tmp, false)) := by
    intro x1 x2 hx
    obtain ⟨a1, c1⟩ := x1
    obtain ⟨a2, c2⟩ := x2
    obtain ⟨ha, hc⟩ := hx
    dsimp only at ha hc ⊢
    subst hc
    refine ORel.bind (ORel.refl _) (fun d _ hd => ?_)
    subst hd
    by_cases hd0 : d = 0
    · rw [if_pos hd0, if_pos hd0]; exact ⟨ha, rfl⟩
    rw [if_neg hd0, if_neg hd0]
    have fin : ∀ (t1 : Γ₁) (t2 : Γ₂), R t1 t2 →
        ORel (StRel R) (if c1 = true then pure (t1, false) else pure (G1.add a1 t1, false))
          (if c1 = true then pure (t2, false) else pure (G2.add a2 t2, false)) := by
      intro t1 t2 ht
      cases c1
      · exact ⟨h.add _ _ _ _ ha ht, rfl⟩
      · exact ⟨ht, rfl⟩
    by_cases hdp : d > 0
    · rw [if_pos hdp, if_pos hdp]
      exact ORel.bind (hpre.idx _) fin
    · rw [if_neg hdp, if_neg hdp]
      refine ORel.bind (R := R) ?_ fin
      exact ORel.bind (hpre.idx _) (fun q1 q2 hq => h.negate _ _ hq)
  by_cases hi : i < 14
  · rw [if_pos hi, if_pos hi]
    refine ORel.bind (R := StRel R) ?_ tail
    refine foldlM_rel (StRel R) _ _ _ (fun s1 s2 j _ hs => ?_) _ _ ⟨hr', rfl⟩
    refine ORel.bind (ORel.refl _) (fun bits _ hb => ?_)
    subst hb
    by_cases hb0 : bits > 0
    · rw [if_pos hb0, if_pos hb0]
      have hc0 := (tablesOK_getD hf j).getD 0
      have hc1 := (tablesOK_getD hf j).getD 1
      cases hx : Outcome.idx (List.getD (first.getD j []) 0 []) (bits - 1) with
      | ok x =>
        cases hy : Outcome.idx (List.getD (first.getD j []) 1 []) (bits - 1) with
        | ok y => exact ⟨h.add _ _ _ _ hs.1 (h.fromXY x y (hc0 x (idx_mem hx)) (hc1 y (idx_mem hy))), rfl⟩
        | err => exact trivial
        | panic => exact trivial
      | err => exact trivial
      | panic => exact trivial
    · rw [if_neg hb0, if_neg hb0]; exact hs
  · rw [if_neg hi, if_neg hi]
    exact ORel.bind (R := StRel R) (show StRel R _ _ from ⟨hr', rfl⟩) tail

/-- `ScalarMixedMult_Unsafe`: comb for the base point interleaved with the signed 4-NAF of the second
    scalar over odd multiples of the (related) input points -/
theorem scalarMixedMult_rel (h : GRel m R G1 G2) (g : Bytes) {P : Γ₁} {Q : Γ₂} (hPQ : R P Q)
    (scalar : Bytes) (first : List Curve.Table) (second : Curve.Table)
    (hf : ∀ t ∈ first, TableOK m t) (hs : TableOK m second) :
    ORel R (Curve.scalarMixedMult G1 g P scalar first second)
      (Curve.scalarMixedMult G2 g Q scalar first second) := by
  unfold Curve.scalarMixedMult
  have hpre : All2 R
      ((List.range 7).foldl (fun (l : List Γ₁) _ => l ++ [G1.add (l.getLastD P) (G1.double P)]) [P])
      ((List.range 7).foldl (fun (l : List Γ₂) _ => l ++ [G2.add (l.getLastD Q) (G2.double Q)]) [Q]) := by
    refine foldl_rel (All2 R) _ _ _ (fun l1 l2 _ hl => ?_) _ _ (.cons hPQ .nil)
    exact hl.append (.cons (h.add _ _ _ _ (hl.getLastD hPQ) (h.double _ _ hPQ)) .nil)
  dsimp only
  refine ORel.bind (ORel.refl _) (fun naf _ hn => ?_)
  subst hn
  refine ORel.bind (R := StRel R) ?_ (fun a b hab => ?_)
  · exact foldlM_rel (StRel R) _ _ _
      (fun s1 s2 ii _ hs => mixedStep_rel h g first hf hpre naf (256 - ii) s1 s2 hs) _ _
      ⟨h.infinity, rfl⟩
  · obtain ⟨r1, k1⟩ := a
    obtain ⟨r2, k2⟩ := b
    obtain ⟨hr, hk⟩ := hab
    dsimp only at hr hk ⊢
    refine ORel.bind (ORel.refl _) (fun bits _ hb => ?_)
    subst hb
    by_cases hb0 : bits > 0
    · rw [if_pos hb0, if_pos hb0]
      cases hx : Outcome.idx (List.getD second 0 []) (bits - 1) with
      | ok x =>
        cases hy : Outcome.idx (List.getD second 1 []) (bits - 1) with
        | ok y => exact h.add _ _ _ _ hr (h.fromXY x y (hs.getD 0 x (idx_mem hx)) (hs.getD 1 y (idx_mem hy)))
        | err => exact trivial
        | panic => exact trivial
      | err => exact trivial
      | panic => exact trivial
    · rw [if_neg hb0, if_neg hb0]; exact hr

end curve
end SMGo.Proofs.FiatCompose
#print axioms SMGo.Proofs.FiatCompose.scalarBaseMult_rel
#print axioms SMGo.Proofs.FiatCompose.scalarMult_rel
#print axioms SMGo.Proofs.FiatCompose.scalarMixedMult_rel
